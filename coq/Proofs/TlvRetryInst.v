(* Instantiation of the abstract retry theory (Proofs/TlvRetry.v) with the phases of _write_ndef_data on a
   well-formed layout: the final cache cF of an undisturbed write, the phases on an arbitrary cache, and the
   resulting theorem about any attempt started from any reader state satisfying the invariant. *)
From Coq Require Import ZArith List Bool Lia ZifyBool.
From NV Require Import Base.Result Base.Bytes Model.TlvMem Proofs.TlvLib Proofs.TlvSync Proofs.TlvRetry Proofs.TlvPhases.
Import ListNotations.
Open Scope Z_scope.
Ltac Zify.zify_post_hook ::= Z.to_euclidean_division_equations.

Section Inst.
Variables (em : list Z) (L : layout) (u ku : nat).
Variable READ : list Z -> res (option layout).
Hypothesis Hu : (0 < u)%nat.
Hypothesis Hk : length em = (ku * u)%nat.
Hypothesis Hde : l_dend L <= len em.
Hypothesis Hoff0 : 0 <= l_off L.
Hypothesis Hoff1 : l_off L + 1 < l_dend L.
Hypothesis Htag : get em (l_off L) = 3.
Hypothesis Hcapeq : l_cap L = get_capacity (l_dend L) (l_off L) (l_skip L).
Hypothesis Hs1 : in_skip (l_skip L) (l_off L + 1) = false.
Hypothesis Hs23 : 255 <= l_cap L ->
  in_skip (l_skip L) (l_off L + 2) = false /\ in_skip (l_skip L) (l_off L + 3) = false.
Hypothesis Htransfer : forall c l' v' e', agree_below (l_off L + 1) em c -> ndef_fits c (set_val L v') = true ->
  read_tlv c (l_off L) (l_skip L) = Ok (3, l', v', e') -> READ c = Ok (Some (set_val L v')).
Set Default Proof Using "Hu Hk Hde Hoff0 Hoff1 Htag Hcapeq Hs1 Hs23 Htransfer".

Notation off := (l_off L).
Notation skip := (l_skip L).
Notation dend := (l_dend L).
Ltac G lemma := eapply (lemma em L u ku READ Hu Hk Hde Hoff0 Hoff1 Htag Hcapeq Hs1 Hs23 Htransfer).

Definition is_hdr (d : list Z) (x : Z) : bool :=
  (x =? off + 1) || (negb (len d <? 255) && ((x =? off + 2) || (x =? off + 3))).

(* the caches of an undisturbed write *)
Lemma clean_final (d : list Z) : len d <= l_cap L -> exists c1 c2 cF,
  ph_len0 L em = Ok c1 /\ ph_data L d c1 = Ok c2 /\ length c1 = length em /\ length c2 = length em /\ length cF = length em /\
  (forall x, 0 <= x -> x <> off + 1 -> get c1 x = get em x) /\ get c1 (off + 1) = 0 /\
  READ cF = Ok (Some (set_val L d)) /\ touch L em cF /\
  (forall x, 0 <= x -> is_hdr d x = false -> get cF x = get c2 x) /\
  (len d < 255 -> get cF (off + 1) = len d) /\
  (255 <= len d -> off + 3 < dend /\ get cF (off + 1) = 255 /\ get cF (off + 2) = len d / 256 /\ get cF (off + 3) = len d mod 256).
Proof.
  intro Hcap.
  assert (W : exists c1 c2 e,
    ph_len0 L em = Ok c1 /\ ph_data L d c1 = Ok c2 /\ touch L em c1 /\ touch L c1 c2 /\ hdr0 em L c1 /\ hdr0 em L c2 /\
    length c1 = length em /\ length c2 = length em /\
    (forall x, 0 <= x -> x <> off + 1 -> get c1 x = get em x) /\
    (forall x, 0 <= x < off + (if len d <? 255 then 2 else 4) -> get c2 x = get c1 x) /\
    read_val skip (off + (if len d <? 255 then 2 else 4))
      (skipn (Z.to_nat (off + (if len d <? 255 then 2 else 4))) c2) (length d) = Ok (d, e)) by (G write_prefix; exact Hcap).
  destruct W as (c1 & c2 & e & P1 & P2 & T1 & T2 & Z1 & Z2 & L1 & L2 & G1 & G2 & R2).
  assert (Tt : forall a b c, touch L a b -> touch L b c -> touch L a c) by (intros a b c; G touch_trans).
  destruct (Z.ltb_spec (len d) 255) as [Hd|Hd].
  - assert (S : exists c3, ph_len_short L d c2 = Ok c3 /\ touch L c2 c3 /\ length c3 = length em /\ READ c3 = Ok (Some (set_val L d)) /\
      (forall x, umixed u c2 c3 x -> x = c2 \/ x = c3)) by (G tail_short; eassumption).
    destruct S as (c3 & P3 & T3 & L3 & R3 & _). unfold ph_len_short in P3. pose proof (upd_inv _ _ _ _ P3) as (_ & _ & G3).
    exists c1, c2, c3. repeat (split; [assumption|]). split; [apply Z1|]. split; [exact R3|].
    split; [eapply Tt; [eapply Tt|]; eassumption|]. split.
    { intros x Hx Hh. unfold is_hdr in Hh. rewrite G3 by exact Hx. replace (x =? off + 1) with false by lia. reflexivity. }
    split; [intros _; rewrite G3 by lia; rewrite Z.eqb_refl; reflexivity | intro; lia].
  - assert (S : exists cb c3, ph_len_low L d c2 = Ok cb /\ ph_len_ff L cb = Ok c3 /\ touch L c2 cb /\ touch L cb c3 /\ hdr0 em L cb /\
      length cb = length em /\ length c3 = length em /\ READ c3 = Ok (Some (set_val L d)) /\
      (forall x, umixed u cb c3 x -> x = cb \/ x = c3) /\
      (forall y, 0 <= y -> get c3 y <> get c2 y -> off + 1 <= y <= off + 3) /\
      get c3 (off + 1) = 255 /\ get c3 (off + 2) = len d / 256 /\ get c3 (off + 3) = len d mod 256 /\
      (forall y, 0 <= y -> y < off + 1 \/ off + 3 < y -> get c3 y = get c2 y)) by (G tail_long; eassumption).
    destruct S as (cb & c3 & Pl & Pf & Tl & Tf & _ & _ & L3 & R3 & _ & _ & V1 & V2 & V3 & G3).
    assert (Hd3 : off + 3 < dend /\ in_skip skip (off + 2) = false /\ in_skip skip (off + 3) = false /\
      len d <= count_free skip (off + 4) (Z.to_nat (dend - (off + 4)))) by (G cap_long; assumption).
    exists c1, c2, c3. repeat (split; [assumption|]). split; [apply Z1|]. split; [exact R3|].
    split; [eapply Tt; [eapply Tt; [eapply Tt|]|]; eassumption|]. split.
    { intros x Hx Hh. unfold is_hdr in Hh. apply G3; [exact Hx | lia]. }
    split; [intro; lia | intros _; split; [apply Hd3 | auto]].
Qed.

(* the data phase on two caches writes the same positions with the same values *)
Lemma ph_data_det (d a b a' b' : list Z) : len d <= l_cap L -> length a = length em -> length b = length em ->
  ph_data L d a = Ok a' -> ph_data L d b = Ok b' ->
  forall x, 0 <= x -> get a' x = get b' x \/ (get a' x = get a x /\ get b' x = get b x).
Proof.
  intros Hcap La Lb Ha Hb. unfold ph_data in Ha, Hb.
  set (start := off + (if len d <? 255 then 2 else 4)) in *.
  assert (Hst : 0 <= start <= len em).
  { subst start. destruct (Z.ltb_spec (len d) 255) as [Hd|Hd]; [lia|].
    assert (Hd3 : off + 3 < dend /\ in_skip skip (off + 2) = false /\ in_skip skip (off + 3) = false /\
      len d <= count_free skip (off + 4) (Z.to_nat (dend - (off + 4)))) by (G cap_long; assumption). lia. }
  destruct (place skip a start d) as [[a1 e1]| | |] eqn:Pa; cbn [bind fst snd] in Ha; try discriminate.
  destruct (place skip b start d) as [[b1 e2]| | |] eqn:Pb; cbn [bind fst snd] in Hb; try discriminate.
  destruct (place_det skip a b start d a1 e1 b1 e2 Pa Pb ltac:(congruence) ltac:(lia) ltac:(unfold len in *; lia)) as [<- Hp].
  destruct (term_pos skip e1 (Z.to_nat (dend - e1))) as [t|].
  - pose proof (upd_inv _ _ _ _ Ha) as (_ & _ & Ga). pose proof (upd_inv _ _ _ _ Hb) as (_ & _ & Gb).
    intros x Hx. rewrite Ga, Gb by exact Hx. destruct (Z.eqb_spec x t); [left; reflexivity | apply Hp, Hx].
  - injection Ha as <-. injection Hb as <-. exact Hp.
Qed.

(* ---------------------------------------------------------------- the abstract theory's parameters *)
Definition clean (d c1 c2 cF : list Z) : Prop :=
  ph_len0 L em = Ok c1 /\ ph_data L d c1 = Ok c2 /\ length c1 = length em /\ length c2 = length em /\ length cF = length em /\
  (forall x, 0 <= x -> x <> off + 1 -> get c1 x = get em x) /\ get c1 (off + 1) = 0 /\
  READ cF = Ok (Some (set_val L d)) /\ touch L em cF /\
  (forall x, 0 <= x -> is_hdr d x = false -> get cF x = get c2 x) /\
  (len d < 255 -> get cF (off + 1) = len d) /\
  (255 <= len d -> off + 3 < dend /\ get cF (off + 1) = 255 /\ get cF (off + 2) = len d / 256 /\ get cF (off + 3) = len d mod 256).

Section Fixed.
Variables (d c1 c2 cF : list Z) (n : Z).
Hypothesis Hcap : len d <= l_cap L.
Hypothesis HCF : clean d c1 c2 cF.
Hypothesis Hn : forall x, off < x -> ndef_area L x = true -> x / Z.of_nat u * Z.of_nat u + Z.of_nat u <= n.
Set Default Proof Using "Hu Hk Hde Hoff0 Hoff1 Htag Hcapeq Hs1 Hs23 Htransfer Hcap HCF Hn".

Definition zN : nat := Z.to_nat (off + 1).
Definition Sall (i : nat) : bool := (i =? zN)%nat || negb (nth i cF 0 =? nth i em 0).
Notation FRx := (FR u ku cF Sall).
Notation INVx := (INV u ku zN em cF Sall).

Lemma nth_get (l : list Z) i : nth i l 0 = get l (Z.of_nat i).
Proof. unfold get. rewrite Nat2Z.id. reflexivity. Qed.
Lemma LcF : length cF = (ku * u)%nat. Proof. destruct HCF as (_ & _ & _ & _ & H & _). congruence. Qed.
Lemma touched i : Sall i = true -> off < Z.of_nat i /\ ndef_area L (Z.of_nat i) = true.
Proof.
  unfold Sall. intro H. destruct (Nat.eqb_spec i zN) as [E|Hne].
  - rewrite E. unfold zN. rewrite Z2Nat.id by lia. split; [lia|]. G area_intro; [lia | exact Hs1].
  - cbn [orb] in H. destruct HCF as (_ & _ & _ & _ & _ & _ & _ & _ & [_ Tg] & _).
    apply (Tg (Z.of_nat i) ltac:(lia)). rewrite <- !nth_get. lia.
Qed.
Lemma I_low i : Sall i = true -> (zN <= i)%nat.
Proof. intro H. apply touched in H. unfold zN. lia. Qed.
Lemma I_zS : Sall zN = true. Proof. unfold Sall. rewrite Nat.eqb_refl. reflexivity. Qed.
Lemma I_acc i : Sall i = true -> Z.of_nat (i / u * u + u) <= n.
Proof. intro H. destruct (touched i H) as [H1 H2]. pose proof (Hn _ H1 H2) as E.
  rewrite Nat2Z.inj_add, Nat2Z.inj_mul, Nat2Z.inj_div. exact E. Qed.
Lemma I_FRem : FRx em.
Proof. split; [exact Hk|]. intros i H. unfold Sall in H. apply orb_false_iff in H. destruct H as [_ H]. apply negb_false_iff in H. lia. Qed.
Lemma I_zlt : (zN < ku * u)%nat.
Proof. unfold zN. unfold len in Hde. lia. Qed.

Lemma I_H0 c : lenok u ku c -> exists c', ph_len0 L c = Ok c' /\ zeroP u ku zN c c'.
Proof.
  intro Hl. unfold lenok in Hl. unfold ph_len0. destruct (upd_ok c (off + 1) 0) as [c' H]; [unfold len in *; lia|].
  exists c'. split; [exact H|]. pose proof (upd_inv _ _ _ _ H) as (_ & L' & G'). split; [unfold lenok; congruence|].
  intro i. rewrite !nth_get, G' by lia. unfold zN. destruct (Nat.eqb_spec i (Z.to_nat (off + 1))); destruct (Z.eqb_spec (Z.of_nat i) (off + 1)); try reflexivity; lia.
Qed.

(* the data phase on any cache that agrees with cF wherever cF = em: everything but the length field is final afterwards *)
Lemma data_any c : FRx c -> exists c', ph_data L d c = Ok c' /\ length c' = length em /\
  (forall x, 0 <= x < off + (if len d <? 255 then 2 else 4) -> get c' x = get c x) /\
  (forall x, 0 <= x -> get c' x = get c x \/ get c' x = get cF x) /\
  (forall x, 0 <= x -> is_hdr d x = false -> get c' x = get cF x).
Proof.
  intros [Lc Fc]. unfold lenok in Lc. destruct HCF as (P1 & P2 & L1 & L2 & L3 & G1 & Z1 & _ & _ & GF & _).
  assert (S : exists c' e, ph_data L d c = Ok c' /\ touch L c c' /\
    (forall x, 0 <= x < off + (if len d <? 255 then 2 else 4) -> get c' x = get c x) /\
    read_val skip (off + (if len d <? 255 then 2 else 4)) (skipn (Z.to_nat (off + (if len d <? 255 then 2 else 4))) c') (length d) = Ok (d, e))
    by (G ph_data_spec; [congruence | exact Hcap]).
  destruct S as (c' & e & P & [Lc' _] & G2 & _). exists c'. split; [exact P|]. split; [congruence|]. split; [exact G2|].
  pose proof (ph_data_det d c c1 c' c2 Hcap ltac:(congruence) L1 P P2) as Hdet.
  pose proof (ph_data_det d c1 c1 c2 c2 Hcap L1 L1 P2 P2) as _.
  assert (Hnh : forall x, 0 <= x -> is_hdr d x = false -> get c' x = get cF x).
  { intros x Hx Hh. rewrite (GF x Hx Hh). destruct (Hdet x Hx) as [E|[Ea Eb]]; [exact E|].
    (* untouched by the data phase: c2 = c1 = em here, hence cF = em and the cache holds it already *)
    assert (Hx1 : x <> off + 1) by (unfold is_hdr in Hh; lia).
    rewrite Ea, Eb, (G1 x Hx Hx1). assert (E : get cF x = get em x) by (rewrite (GF x Hx Hh), Eb; apply G1; assumption).
    rewrite <- E. rewrite <- (Z2Nat.id x Hx), <- !nth_get. apply Fc. unfold Sall.
    replace (Z.to_nat x =? zN)%nat with false by (symmetry; apply Nat.eqb_neq; unfold zN; lia).
    rewrite !nth_get, Z2Nat.id by exact Hx. cbn [orb]. apply negb_false_iff. lia. }
  split; [|exact Hnh]. intros x Hx. destruct (is_hdr d x) eqn:Hh; [|right; apply Hnh; assumption].
  left. apply G2. unfold is_hdr in Hh. destruct (len d <? 255); lia.
Qed.

Lemma mid_intro c c' : FRx c -> length c' = length em -> nth zN c' 0 = nth zN c 0 ->
  (forall x, 0 <= x -> get c' x = get c x \/ get c' x = get cF x) -> midP u ku zN cF Sall c c'.
Proof.
  intros [Lc Fc] Ll Hz Hp. split; [unfold lenok; congruence|]. split; [exact Hz|]. intro i.
  destruct (Hp (Z.of_nat i) ltac:(lia)) as [E|E]; rewrite <- !nth_get in E; [left; exact E|].
  destruct (Sall i) eqn:Es; [right; auto | left]. rewrite E. symmetry. apply Fc, Es.
Qed.
Lemma FR_mid c c' : FRx c -> midP u ku zN cF Sall c c' -> FRx c'.
Proof. intros [_ Fc] (Ll & _ & Hp). split; [exact Ll|]. intros i Hi. destruct (Hp i) as [E|[E _]]; [rewrite E; apply Fc, Hi | congruence]. Qed.

Lemma upd_any c a v : length c = length em -> 0 <= a < dend -> exists c', upd c a v = Ok c' /\ length c' = length em /\
  forall x, 0 <= x -> get c' x = if x =? a then v else get c x.
Proof. intros Lc Ha. destruct (upd_ok c a v) as [c' H]; [unfold len in *; lia|]. exists c'. split; [exact H|].
  pose proof (upd_inv _ _ _ _ H) as (_ & L' & G'). split; [congruence | exact G']. Qed.

Lemma hdr_unit x : one_unit u off -> 255 <= len d -> is_hdr d (Z.of_nat x) = true -> (x / u)%nat = (zN / u)%nat.
Proof.
  intros H1 Hd Hh. unfold is_hdr in Hh. assert (Hx : off + 1 <= Z.of_nat x <= off + 3) by lia.
  unfold one_unit in H1. assert (E : Z.of_nat x / Z.of_nat u = (off + 1) / Z.of_nat u) by nia.
  unfold zN. rewrite <- (Z2Nat.id (off + 1)) in E by lia. rewrite <- !Nat2Z.inj_div in E. lia.
Qed.

(* what remains to be done after the data phase, per shape of the length commit *)
Lemma mids_short : len d < 255 -> forall c, FRx c -> nth zN c 0 = 0 -> exists cs, steps c [ph_data L d] cs /\
  chain_mid u ku zN cF Sall c cs /\ ph_len_short L d (last_cache c cs) = Ok cF /\
  (forall x, (x / u)%nat <> (zN / u)%nat -> nth x (last_cache c cs) 0 = nth x cF 0).
Proof.
  intros Hd c Fc Hz. destruct (data_any c Fc) as (c' & P & Ll & G2 & Gp & Gh).
  assert (Hz' : nth zN c' 0 = nth zN c 0) by (rewrite !nth_get; apply G2; unfold zN; destruct (len d <? 255); lia).
  pose proof (mid_intro c c' Fc Ll Hz' Gp) as Hm.
  exists [c']. split; [eapply steps_cons; [exact P | apply steps_nil]|]. split; [constructor; [exact Hm | constructor]|].
  cbn [last_cache]. destruct HCF as (_ & _ & _ & _ & LF & _ & _ & _ & _ & _ & V1 & _). split.
  - unfold ph_len_short. destruct (upd_any c' (off + 1) (len d) Ll ltac:(lia)) as (c3 & P3 & L3 & G3). rewrite P3. f_equal.
    apply get_ext; [congruence|]. intros x Hx. rewrite G3 by lia. destruct (Z.eqb_spec x (off + 1)) as [->|Hne]; [symmetry; apply V1, Hd|].
    apply Gh; [lia|]. unfold is_hdr. replace (len d <? 255) with true by lia. lia.
  - intros x Hx. rewrite !nth_get. apply Gh; [lia|]. unfold is_hdr. replace (len d <? 255) with true by lia.
    assert (x <> zN) by congruence. unfold zN in *. lia.
Qed.

Lemma mids_split : 255 <= len d -> forall c, FRx c -> nth zN c 0 = 0 -> exists cs, steps c [ph_data L d; ph_len_low L d] cs /\
  chain_mid u ku zN cF Sall c cs /\ ph_len_ff L (last_cache c cs) = Ok cF /\
  (forall x, (x / u)%nat <> (zN / u)%nat -> nth x (last_cache c cs) 0 = nth x cF 0).
Proof.
  intros Hd c Fc Hz. destruct (data_any c Fc) as (c' & P & Ll & G2 & Gp & Gh).
  assert (Hz' : nth zN c' 0 = nth zN c 0) by (rewrite !nth_get; apply G2; unfold zN; destruct (len d <? 255); lia).
  pose proof (mid_intro c c' Fc Ll Hz' Gp) as Hm. pose proof (FR_mid c c' Fc Hm) as Fc'.
  destruct HCF as (_ & _ & _ & _ & LF & _ & _ & _ & _ & _ & _ & VL). destruct (VL Hd) as (Hd3 & V1 & V2 & V3).
  destruct (upd_any c' (off + 2) (len d / 256) Ll ltac:(lia)) as (ca & Pa & La & Ga).
  destruct (upd_any ca (off + 3) (len d mod 256) La ltac:(lia)) as (cb & Pb & Lb & Gb).
  assert (Plow : ph_len_low L d c' = Ok cb) by (unfold ph_len_low; rewrite Pa; cbn [bind]; exact Pb).
  assert (Gcb : forall x, 0 <= x -> x <> off + 1 -> get cb x = get cF x).
  { intros x Hx Hne. rewrite Gb, Ga by exact Hx. destruct (Z.eqb_spec x (off + 3)) as [->|H3]; [auto|].
    destruct (Z.eqb_spec x (off + 2)) as [->|H2]; [auto|]. apply Gh; [exact Hx|]. unfold is_hdr. lia. }
  assert (Hmb : midP u ku zN cF Sall c' cb).
  { apply (mid_intro c' cb Fc' Lb).
    - rewrite !nth_get, Gb, Ga by lia. unfold zN. rewrite Z2Nat.id by lia.
      replace (off + 1 =? off + 3) with false by lia. replace (off + 1 =? off + 2) with false by lia. reflexivity.
    - intros x Hx. destruct (Z.eq_dec x (off + 1)) as [->|Hne]; [left|right; apply Gcb; assumption].
      rewrite Gb, Ga by lia. replace (off + 1 =? off + 3) with false by lia. replace (off + 1 =? off + 2) with false by lia. reflexivity. }
  exists [c'; cb]. split; [eapply steps_cons; [exact P|]; eapply steps_cons; [exact Plow | apply steps_nil]|].
  split; [constructor; [exact Hm|]; constructor; [exact Hmb | constructor]|]. cbn [last_cache]. split.
  - unfold ph_len_ff. destruct (upd_any cb (off + 1) 255 Lb ltac:(lia)) as (c3 & P3 & L3 & G3). rewrite P3. f_equal.
    apply get_ext; [congruence|]. intros x Hx. rewrite G3 by lia. destruct (Z.eqb_spec x (off + 1)) as [->|Hne]; [auto|]. apply Gcb; lia.
  - intros x Hx. rewrite !nth_get. apply Gcb; [lia|]. assert (x <> zN) by congruence. unfold zN in *. lia.
Qed.

(* FF and the two length bytes in one synchronize (both orders of the three assignments) *)
Lemma mids_joint (phL : phase) : 255 <= len d -> one_unit u off ->
  (forall c c', length c = length em -> length c' = length em ->
     (forall x, 0 <= x -> get c' x = if x =? off + 1 then 255 else if x =? off + 2 then len d / 256 else if x =? off + 3 then len d mod 256 else get c x) ->
     phL c = Ok c') ->
  forall c, FRx c -> nth zN c 0 = 0 -> exists cs, steps c [ph_data L d] cs /\
  chain_mid u ku zN cF Sall c cs /\ phL (last_cache c cs) = Ok cF /\
  (forall x, (x / u)%nat <> (zN / u)%nat -> nth x (last_cache c cs) 0 = nth x cF 0).
Proof.
  intros Hd H1 HphL c Fc Hz. destruct (data_any c Fc) as (c' & P & Ll & G2 & Gp & Gh).
  assert (Hz' : nth zN c' 0 = nth zN c 0) by (rewrite !nth_get; apply G2; unfold zN; destruct (len d <? 255); lia).
  pose proof (mid_intro c c' Fc Ll Hz' Gp) as Hm.
  destruct HCF as (_ & _ & _ & _ & LF & _ & _ & _ & _ & _ & _ & VL). destruct (VL Hd) as (Hd3 & V1 & V2 & V3).
  exists [c']. split; [eapply steps_cons; [exact P | apply steps_nil]|]. split; [constructor; [exact Hm | constructor]|].
  cbn [last_cache]. split.
  - apply HphL; [exact Ll | exact LF|]. intros x Hx.
    destruct (Z.eqb_spec x (off + 1)) as [->|N1]; [exact V1|]. destruct (Z.eqb_spec x (off + 2)) as [->|N2]; [exact V2|].
    destruct (Z.eqb_spec x (off + 3)) as [->|N3]; [exact V3|]. symmetry. apply Gh; [exact Hx|]. unfold is_hdr. lia.
  - intros x Hx. rewrite !nth_get. apply Gh; [lia|]. destruct (is_hdr d (Z.of_nat x)) eqn:E; [|reflexivity].
    elim Hx. apply hdr_unit; assumption.
Qed.
Lemma joint_phase c c' : 255 <= len d -> length c = length em -> length c' = length em ->
  (forall x, 0 <= x -> get c' x = if x =? off + 1 then 255 else if x =? off + 2 then len d / 256 else if x =? off + 3 then len d mod 256 else get c x) ->
  (fun c0 => do c1' <- ph_len_low L d c0; ph_len_ff L c1') c = Ok c' /\ ph_len_long_unrepaired L d c = Ok c'.
Proof.
  intros Hd Lc Lc' Hp. destruct HCF as (_ & _ & _ & _ & _ & _ & _ & _ & _ & _ & _ & VL). destruct (VL Hd) as (Hd3 & _).
  split.
  - cbv beta. unfold ph_len_low, ph_len_ff.
    destruct (upd_any c (off + 2) (len d / 256) Lc ltac:(lia)) as (ca & Pa & La & Ga). rewrite Pa. cbn [bind].
    destruct (upd_any ca (off + 3) (len d mod 256) La ltac:(lia)) as (cb & Pb & Lb & Gb). rewrite Pb. cbn [bind].
    destruct (upd_any cb (off + 1) 255 Lb ltac:(lia)) as (cc & Pc & Lcc & Gc). rewrite Pc. f_equal.
    apply get_ext; [congruence|]. intros x Hx. rewrite Gc, Gb, Ga, Hp by lia.
    destruct (Z.eqb_spec x (off + 1)); [reflexivity|]. destruct (Z.eqb_spec x (off + 3)); destruct (Z.eqb_spec x (off + 2)); try reflexivity; lia.
  - unfold ph_len_long_unrepaired.
    destruct (upd_any c (off + 1) 255 Lc ltac:(lia)) as (ca & Pa & La & Ga). rewrite Pa. cbn [bind].
    destruct (upd_any ca (off + 2) (len d / 256) La ltac:(lia)) as (cb & Pb & Lb & Gb). rewrite Pb. cbn [bind].
    destruct (upd_any cb (off + 3) (len d mod 256) Lb ltac:(lia)) as (cc & Pc & Lcc & Gc). rewrite Pc. f_equal.
    apply get_ext; [congruence|]. intros x Hx. rewrite Gc, Gb, Ga, Hp by lia.
    destruct (Z.eqb_spec x (off + 1)); destruct (Z.eqb_spec x (off + 3)); destruct (Z.eqb_spec x (off + 2)); try reflexivity; lia.
Qed.

(* ---------------------------------------------------------------- any attempt from any reader state that satisfies the invariant *)
Definition ATT (phs : list phase) : Prop := forall T F c kf f, INVx T F c ->
  att_ok u ku zN n em cF Sall T kf (run_attempt u n (fun x => x) T F c phs kf f).

Theorem att_short : len d < 255 -> ATT [ph_len0 L; ph_data L d; ph_len_short L d].
Proof. intros Hd T F c kf f HI.
  apply (attempt_ok u ku zN n em cF Sall Hu Hk LcF I_low I_zS I_acc I_FRem (ph_len0 L) (ph_len_short L d) [ph_data L d] I_H0 (mids_short Hd) T F c kf f HI). Qed.
Theorem att_split : 255 <= len d -> ATT [ph_len0 L; ph_data L d; ph_len_low L d; ph_len_ff L].
Proof. intros Hd T F c kf f HI.
  apply (attempt_ok u ku zN n em cF Sall Hu Hk LcF I_low I_zS I_acc I_FRem (ph_len0 L) (ph_len_ff L) [ph_data L d; ph_len_low L d] I_H0 (mids_split Hd) T F c kf f HI). Qed.
Theorem att_joint : 255 <= len d -> one_unit u off -> ATT [ph_len0 L; ph_data L d; fun c0 => do c1' <- ph_len_low L d c0; ph_len_ff L c1'].
Proof. intros Hd H1 T F c kf f HI.
  apply (attempt_ok u ku zN n em cF Sall Hu Hk LcF I_low I_zS I_acc I_FRem (ph_len0 L) _ [ph_data L d] I_H0
    (mids_joint _ Hd H1 (fun c c' Lc Lc' Hp => proj1 (joint_phase c c' Hd Lc Lc' Hp))) T F c kf f HI). Qed.
Theorem att_unrepaired : 255 <= len d -> one_unit u off -> ATT [ph_len0 L; ph_data L d; ph_len_long_unrepaired L d].
Proof. intros Hd H1 T F c kf f HI.
  apply (attempt_ok u ku zN n em cF Sall Hu Hk LcF I_low I_zS I_acc I_FRem (ph_len0 L) _ [ph_data L d] I_H0
    (mids_joint _ Hd H1 (fun c c' Lc Lc' Hp => proj2 (joint_phase c c' Hd Lc Lc' Hp))) T F c kf f HI). Qed.

(* what the safe memories read as *)
Lemma SAFE_classes T : SAFE u ku zN em cF Sall T -> T = em \/ hdr0 em L T \/ T = cF.
Proof.
  intros [[LT FT] [H|[H|H]]]; [left; exact H | right; left | right; right; exact H].
  split; [split; [unfold lenok in LT; congruence|]|].
  - intros a Ha. rewrite <- (Z2Nat.id a) by lia. rewrite <- !nth_get. symmetry. rewrite FT.
    + destruct HCF as (_ & _ & _ & _ & _ & _ & _ & _ & [_ Tg] & _). destruct (Z.eq_dec (get cF a) (get em a)) as [E|E]; [rewrite !nth_get, Z2Nat.id by lia; exact E|].
      apply Tg in E; lia.
    + destruct (Sall (Z.to_nat a)) eqn:E; [|reflexivity]. apply touched in E. lia.
  - rewrite nth_get in H. unfold zN in H. rewrite Z2Nat.id in H by lia. exact H.
Qed.
Lemma INV_classes T F c : INVx T F c -> T = em \/ hdr0 em L T \/ T = cF.
Proof. intro HI. apply SAFE_classes. apply (INV_safe u ku zN n em cF Sall Hu Hk LcF I_low I_zS I_acc I_FRem T F c HI). Qed.
Lemma INV_init_x : INVx em em em.
Proof. apply (INV_init u ku zN n em cF Sall Hu Hk LcF I_low I_zS I_acc I_FRem). Qed.
End Fixed.
End Inst.
Set Default Proof Using "Type".
