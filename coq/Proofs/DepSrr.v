(* One protocol step under faults: send_dep_req_recv_dep_res against the Target machine.
   For every script the call either fails (and the target has accepted the request at most
   once) or returns exactly the response the target produced when it accepted the request. *)
From Coq Require Import ZArith List Bool Lia ZifyBool.
From NV Require Import Base.Result Base.Bytes Model.Dep Proofs.DepCodec Proofs.DepTarget.
Import ListNotations.
Open Scope Z_scope.
Ltac Zify.zify_post_hook ::= Z.to_euclidean_division_equations.

(* the CommunicationError subclasses that NFC-DEP raises *)
Definition comm (e : err) : Prop := e = TimeoutError \/ e = ProtocolError \/ e = TransmissionError.
Lemma comm_t : comm TimeoutError. Proof. left; reflexivity. Qed.
Lemma comm_p : comm ProtocolError. Proof. right; left; reflexivity. Qed.
Lemma comm_x : comm TransmissionError. Proof. right; right; reflexivity. Qed.
#[export] Hint Resolve comm_t comm_p comm_x : core.

(* fault scripts in which every faulty round is followed by at least two fault free rounds: each lost or
   corrupted frame is the only fault of its protocol step (faulty round, attention round, retransmission) *)
Definition clean (ff : fate * fate) : bool := match ff with (FD, FD) => true | _ => false end.
Fixpoint Sparse (s : list (fate * fate)) : Prop :=
  match s with
  | [] => True
  | ff :: r => if clean ff then Sparse r
               else match r with
                    | f1 :: f2 :: r2 => clean f1 = true /\ clean f2 = true /\ Sparse r2
                    | _ => False
                    end
  end.
Lemma Sparse_tl s : Sparse s -> hd (FD, FD) s = (FD, FD) -> Sparse (tl s).
Proof. destruct s as [|ff r]; [auto|]. cbn. intros H ->. exact H. Qed.
(* no response is corrupted (a request that was delivered is never answered by an unreadable frame) *)
Definition NC (s : list (fate * fate)) : Prop := Forall (fun ff => ff <> (FD, FC)) s.
Lemma NC_skipn k s : NC s -> NC (skipn k s).
Proof. unfold NC. revert s. induction k as [|k IH]; intros s H; [exact H|]. destruct s; [constructor|]. inversion H; subst. apply IH. assumption. Qed.
Lemma clean_eq ff : clean ff = true -> ff = (FD, FD).
Proof. destruct ff as [[] []]; cbn; congruence. Qed.

Section Srr.
Variables (ic : icfg) (tc : tcfg).
Hypothesis H106 : ic_106 ic = tc_106 tc.
Hypothesis Hdid : tc_did tc = ic_did ic.
Hypothesis Hmt : 1 <= tc_miu tc /\ tc_miu tc + 3 + b2z (is_some (tc_did tc)) + b2z (is_some (tc_nad tc)) <= 254.
Hypothesis Hmi : 1 <= ic_miu ic /\ ic_miu ic + 3 + b2z (is_some (ic_did ic)) + b2z (is_some (ic_nad ic)) <= 254.

(* a request of the initiator *)
Definition req_ok (d : deppdu) : Prop :=
  dep_wf d /\ did d = ic_did ic /\ nad d = ic_nad ic /\ len (data d) <= ic_miu ic.

Lemma i_dep_ok f p dat : 0 <= f <= 15 -> 0 <= p <= 3 -> len dat <= ic_miu ic -> req_ok (i_dep ic f p dat).
Proof. intros. unfold req_ok, i_dep, dep_wf; cbn. repeat split; try lia; assumption. Qed.

Lemma enc_req_ok d : req_ok d -> exists f, encode_frame (ic_106 ic) (enc_pdu (PDepReq d)) = Ok f.
Proof.
  intros (Hw & Hd & Hn & Hl). eexists. apply encode_frame_ok. cbn [enc_pdu]. rewrite len_enc_dep, Hd, Hn.
  change (len [212; 6]) with 2. lia.
Qed.
Lemma enc_resp_ok r : resp_ok tc r -> exists f, encode_frame (tc_106 tc) (enc_pdu (PDepRes r)) = Ok f.
Proof.
  intros (Hw & Hd & Hn & Hl). eexists. apply encode_frame_ok. cbn [enc_pdu]. rewrite len_enc_dep, Hd, Hn.
  change (len [213; 7]) with 2. lia.
Qed.

(* send_req_recv_res for a DEP request, expressed through one step of the target machine *)
Lemma srr1_dep d timeout w t1 o : req_ok d ->
  tgt_step tc (w_t w) (PDepReq d) = (t1, o) ->
  (forall x, o = Some x -> exists r, x = PDepRes r /\ resp_ok tc r) ->
  exists lg,
  srr1 ic tc (PDepReq d) timeout w =
    match fst (hd (FD, FD) (w_script w)) with
    | FD => match o with
            | None => (Err TimeoutError, mkw t1 (tl (w_script w)) (w_now w + timeout) lg)
            | Some rsp =>
                match snd (hd (FD, FD) (w_script w)) with
                | FD => (Ok rsp, mkw t1 (tl (w_script w)) (w_now w) lg)
                | FL => (Err TimeoutError, mkw t1 (tl (w_script w)) (w_now w + timeout) lg)
                | FC => (Err TransmissionError, mkw t1 (tl (w_script w)) (w_now w) lg)
                end
            end
    | _ => (Err TimeoutError, mkw (w_t w) (tl (w_script w)) (w_now w + timeout) lg)
    end.
Proof.
  intros Hreq Hs Ho. destruct (enc_req_ok d Hreq) as [cmd Hc]. pose proof (proj1 Hreq) as Hw. unfold srr1. rewrite Hc. unfold air.
  destruct (hd (FD, FD) (w_script w)) as [fq fs]. cbn [fst snd].
  destruct fq; try (eexists; reflexivity).
  assert (Ha : tgt_absorb tc (w_t w) cmd =
               (t1, match o with None => None | Some rsp => match encode_frame (tc_106 tc) (enc_pdu rsp) with Ok f => Some f | _ => None end end)).
  { unfold tgt_absorb. destruct (t_pos (w_t w)) eqn:Epos.
    6:{ unfold tgt_step in Hs. rewrite Epos in Hs. injection Hs as <- <-. reflexivity. }
    all: rewrite <- H106; rewrite (decode_tgt_dep _ _ _ Hw Hc); rewrite Hs; destruct o as [rsp|]; [|reflexivity];
      destruct (Ho rsp eq_refl) as (r & -> & Hr); destruct (enc_resp_ok r Hr) as [f Hf]; rewrite H106, Hf; reflexivity. }
  rewrite Ha. destruct o as [rsp|]; [|eexists; reflexivity].
  destruct (Ho rsp eq_refl) as (r & -> & Hr). destruct (enc_resp_ok r Hr) as [f Hf]. rewrite Hf.
  destruct fs; try (eexists; reflexivity).
  rewrite H106, (decode_ini_dep _ _ _ (proj1 Hr) Hf). cbn [pdu_name]. change (2 =? 2) with true. cbv iota.
  eexists; reflexivity.
Qed.

(* ---------------------------------------------------------------- one protocol step *)
Section Step.
Variables (t0 t1 : tgt) (d r : deppdu).
Hypothesis Hreq : req_ok d.
Hypothesis Hfmt : fmt d = F_INF \/ fmt d = F_MORE \/ fmt d = F_ACK.
Hypothesis HI0 : Tinv tc t0.
Hypothesis Hpos0 : t_pos t0 <> TStop.
Hypothesis Hnew : t_pni t0 <> Some (pni d).
Hypothesis Hfirst : t_pos t0 = TListen \/ t_pos t0 = TFirst -> pni d = 0.
Hypothesis Hacc : t_accept tc t0 d = (t1, Some (PDepRes r)).

Lemma Hdd : did d = tc_did tc. Proof. rewrite Hdid. apply Hreq. Qed.
Lemma Hf3 : fmt d <> F_ATN /\ fmt d <> F_NAK /\ fmt d <> F_RTOX.
Proof. unfold F_INF, F_MORE, F_ACK, F_ATN, F_NAK, F_RTOX in *. lia. Qed.

Lemma t1_facts : Tinv tc t1 /\ resp_ok tc r /\ t_res t1 = Some r /\ t_pni t1 = Some (pni d) /\
  t_pos t1 <> TStop /\ t_pos t1 <> TListen.
Proof.
  destruct Hreq as ((_ & Hp) & _). destruct Hf3 as (_ & _ & H3).
  destruct (accept_spec tc Hmt _ _ _ _ HI0 H3 Hfirst Hp Hacc) as [HI1 [[E _]|(r' & E & Hok & Hres & Hpni & Hs & Hl)]]; [discriminate|].
  injection E as <-. auto 10.
Qed.

Definition InS (t : tgt) : Prop := t = t0 \/ t = awake t0 \/ t = t1.

Lemma S_pos t : InS t -> t_pos t <> TStop.
Proof.
  intros [->|[->| ->]]; [exact Hpos0 | rewrite awake_pos_stop; exact Hpos0 | apply t1_facts].
Qed.

Lemma S_step_req t : InS t -> tgt_step tc t (PDepReq d) = (t1, Some (PDepRes r)).
Proof.
  destruct Hf3 as (F1 & F2 & F3). destruct t1_facts as (HI1 & Hok & Hres & Hpni & Hs & Hl).
  intros [->|[->| ->]].
  - rewrite (step_new tc t0 d Hpos0 Hdd F1 F2 F3 Hnew). exact Hacc.
  - rewrite (step_new tc (awake t0) d); [rewrite accept_awake; exact Hacc | rewrite awake_pos_stop; exact Hpos0 | exact Hdd | exact F1 | exact F2 | exact F3|].
    unfold awake. destruct (t_pos t0); cbn; exact Hnew.
  - rewrite (step_dup tc t1 d Hs Hdd F1 F2 F3 Hpni), Hres. reflexivity.
Qed.

Definition atn_req : deppdu := i_dep ic F_ATN 0 [].
Definition nak_req (p : Z) : deppdu := i_dep ic F_NAK p [].
Lemma atn_req_ok : req_ok atn_req.
Proof. apply i_dep_ok; unfold F_ATN; try lia. change (len (@nil Z)) with 0. lia. Qed.
Lemma nak_req_ok p : 0 <= p <= 3 -> req_ok (nak_req p).
Proof. intro. apply i_dep_ok; unfold F_NAK; try lia. change (len (@nil Z)) with 0. lia. Qed.

Lemma S_step_atn t : InS t -> tgt_step tc t (PDepReq atn_req) = (awake t, Some (PDepRes (atn_res tc))) /\ InS (awake t) /\ (t = t1 -> awake t = t1).
Proof.
  intro Hin. split; [|split].
  - apply step_atn; [apply S_pos, Hin | cbn; symmetry; exact Hdid | reflexivity].
  - destruct Hin as [->|[->| ->]]; [right; left; reflexivity | right; left; apply awake_idem | right; right; apply awake_not_listen, t1_facts].
  - intros ->. apply awake_not_listen, t1_facts.
Qed.

Lemma S_step_nak p : tgt_step tc t1 (PDepReq (nak_req p)) = (t1, Some (PDepRes r)).
Proof.
  destruct t1_facts as (HI1 & Hok & Hres & Hpni & Hs & Hl).
  rewrite (step_nak tc t1 (nak_req p) Hs Hl); [rewrite Hres; reflexivity | cbn; symmetry; exact Hdid | reflexivity].
Qed.

Lemma out_ok x (y : deppdu) : resp_ok tc y -> Some (PDepRes y) = Some x -> exists r0, x = PDepRes r0 /\ resp_ok tc r0.
Proof. intros Hy E. injection E as <-. eauto. Qed.

(* what one send_req_recv_res can do, for the three kinds of request of this step *)
Inductive step_out (w : world) (timeout : Z) (rsp : deppdu) (tn : tgt) : res pdu * world -> Prop :=
| SO_lost w' : w_t w' = w_t w -> w_script w' = tl (w_script w) -> w_now w' = w_now w + timeout ->
    fst (hd (FD, FD) (w_script w)) <> FD ->
    step_out w timeout rsp tn (Err TimeoutError, w')
| SO_rsp_lost w' : w_t w' = tn -> w_script w' = tl (w_script w) -> w_now w' = w_now w + timeout ->
    hd (FD, FD) (w_script w) = (FD, FL) ->
    step_out w timeout rsp tn (Err TimeoutError, w')
| SO_rsp_bad w' : w_t w' = tn -> w_script w' = tl (w_script w) -> w_now w' = w_now w ->
    hd (FD, FD) (w_script w) = (FD, FC) ->
    step_out w timeout rsp tn (Err TransmissionError, w')
| SO_ok w' : w_t w' = tn -> w_script w' = tl (w_script w) -> w_now w' = w_now w ->
    hd (FD, FD) (w_script w) = (FD, FD) ->
    step_out w timeout rsp tn (Ok (PDepRes rsp), w').

Lemma srr1_step q timeout w tn rsp : req_ok q -> resp_ok tc rsp ->
  tgt_step tc (w_t w) (PDepReq q) = (tn, Some (PDepRes rsp)) ->
  step_out w timeout rsp tn (srr1 ic tc (PDepReq q) timeout w).
Proof.
  intros Hq Hr Hs. destruct (srr1_dep q timeout w tn _ Hq Hs (fun x => out_ok x rsp Hr)) as (lg & E).
  rewrite E. destruct (hd (FD, FD) (w_script w)) as [fq fs] eqn:Eh. cbn [fst snd].
  destruct fq; [destruct fs| |].
  - apply SO_ok; try reflexivity; exact Eh.
  - apply SO_rsp_lost; try reflexivity; exact Eh.
  - apply SO_rsp_bad; try reflexivity; exact Eh.
  - apply SO_lost; try reflexivity. rewrite Eh. cbn. discriminate.
  - apply SO_lost; try reflexivity. rewrite Eh. cbn. discriminate.
Qed.

(* request_attention *)
Lemma req_atn_S n : forall rwt deadline w out w', InS (w_t w) ->
  req_atn n ic tc rwt deadline w = (out, w') ->
  InS (w_t w') /\ (w_t w = t1 -> w_t w' = t1) /\ w_now w <= w_now w' /\
  (out = Ok tt \/ exists e, out = Err e /\ comm e).
Proof.
  induction n as [|n IH]; intros rwt deadline w out w' Hin H; cbn [req_atn] in H.
  - injection H as <- <-. split; [exact Hin|]. split; [auto|]. split; [lia|]. right; eauto.
  - destruct (Z.min rwt (deadline - w_now w) <=? 0) eqn:Et.
    { injection H as <- <-. split; [exact Hin|]. split; [auto|]. split; [lia|]. right; eauto. }
    destruct (S_step_atn _ Hin) as (Hs & Hin' & Hk).
    pose proof (srr1_step atn_req (Z.min rwt (deadline - w_now w)) w _ _ atn_req_ok (atn_res_ok tc Hmt) Hs) as Hso.
    fold atn_req in H. destruct (srr1 ic tc (PDepReq atn_req) (Z.min rwt (deadline - w_now w)) w) as [x w1].
    inversion Hso as [w2 E1 E2 E3 E4 E5|w2 E1 E2 E3 E4 E5|w2 E1 E2 E3 E4 E5|w2 E1 E2 E3 E4 E5]; subst x w2.
    + assert (Hin1 : InS (w_t w1)) by (rewrite E1; exact Hin).
      destruct (IH _ _ _ _ _ Hin1 H) as (A & B & C & D).
      split; [exact A|]. split; [intro Ht; apply B; rewrite E1; exact Ht|]. split; [lia | exact D].
    + assert (Hin1 : InS (w_t w1)) by (rewrite E1; exact Hin').
      destruct (IH _ _ _ _ _ Hin1 H) as (A & B & C & D).
      split; [exact A|]. split; [intro Ht; apply B; rewrite E1; apply Hk, Ht|]. split; [lia | exact D].
    + assert (Hin1 : InS (w_t w1)) by (rewrite E1; exact Hin').
      destruct (IH _ _ _ _ _ Hin1 H) as (A & B & C & D).
      split; [exact A|]. split; [intro Ht; apply B; rewrite E1; apply Hk, Ht|]. split; [lia | exact D].
    + cbn [atn_res fmt] in H. change (F_ATN =? F_RTOX) with false in H. change (F_ATN =? F_ATN) with true in H. cbn in H.
      injection H as <- <-. split; [rewrite E1; exact Hin'|]. split; [intro Ht; rewrite E1; apply Hk, Ht|]. split; [lia|]. left; reflexivity.
Qed.

(* request_retransmission, entered only after the target has accepted the request *)
Lemma req_nak_S n : forall p ch rwt deadline w out w', w_t w = t1 -> 0 <= p <= 3 ->
  req_nak n ic tc p ch rwt deadline w = (out, w') ->
  w_t w' = t1 /\ w_now w <= w_now w' /\ (out = Ok (PDepRes r) \/ exists e, out = Err e /\ comm e).
Proof.
  induction n as [|n IH]; intros p ch rwt deadline w out w' Ht Hp H; cbn [req_nak] in H.
  - injection H as <- <-. split; [exact Ht|]. split; [lia|]. right; eauto.
  - destruct (Z.min rwt (deadline - w_now w) <=? 0) eqn:Et.
    { injection H as <- <-. split; [exact Ht|]. split; [lia|]. right; eauto. }
    pose proof (S_step_nak p) as Hs. rewrite <- Ht in Hs at 1.
    pose proof (srr1_step (nak_req p) (Z.min rwt (deadline - w_now w)) w _ _ (nak_req_ok p Hp) (proj1 (proj2 t1_facts)) Hs) as Hso.
    fold (nak_req p) in H. destruct (srr1 ic tc (PDepReq (nak_req p)) (Z.min rwt (deadline - w_now w)) w) as [x w1].
    inversion Hso as [w2 E1 E2 E3 E4 E5|w2 E1 E2 E3 E4 E5|w2 E1 E2 E3 E4 E5|w2 E1 E2 E3 E4 E5]; subst x w2.
    + assert (Ht1 : w_t w1 = t1) by congruence. destruct (IH _ _ _ _ _ _ _ Ht1 Hp H) as (A & B & C).
      split; [exact A|]. split; [lia | exact C].
    + destruct (IH _ _ _ _ _ _ _ E1 Hp H) as (A & B & C). split; [exact A|]. split; [lia | exact C].
    + destruct (IH _ _ _ _ _ _ _ E1 Hp H) as (A & B & C). split; [exact A|]. split; [lia | exact C].
    + destruct (fmt r =? F_RTOX); [injection H as <- <-; split; [exact E1|]; split; [lia|]; right; eauto|].
      destruct (negb ((fmt r =? F_INF) || (fmt r =? F_MORE) || (ch && (fmt r =? F_ACK)))); injection H as <- <-;
        (split; [exact E1|]; split; [lia|]); [right; eauto | left; reflexivity].
Qed.

(* the while True loop *)
Lemma srr_loop_S fuel : forall p rwt deadline w out w', InS (w_t w) -> 0 <= p <= 3 -> 1 <= rwt ->
  srr_loop fuel ic tc p (PDepReq d) rwt deadline w = (out, w') ->
  InS (w_t w') /\
  ((out = Ok (PDepRes r) /\ w_t w' = t1) \/ (exists e, out = Err e /\ comm e) \/
   (out = Hang /\ Z.of_nat fuel <= Z.max 0 (deadline - w_now w))).
Proof.
  induction fuel as [|f IH]; intros p rwt deadline w out w' Hin Hp Hrwt H; cbn [srr_loop] in H.
  - injection H as <- <-. split; [exact Hin|]. right; right. split; [reflexivity | lia].
  - destruct (Z.min rwt (deadline - w_now w) <=? 0) eqn:Et.
    { injection H as <- <-. split; [exact Hin|]. right; left; eauto. }
    pose proof (S_step_req _ Hin) as Hs.
    pose proof (srr1_step d (Z.min rwt (deadline - w_now w)) w _ _ Hreq (proj1 (proj2 t1_facts)) Hs) as Hso.
    destruct (srr1 ic tc (PDepReq d) (Z.min rwt (deadline - w_now w)) w) as [x w1].
    assert (Hcont : forall w1, InS (w_t w1) -> w_now w + 1 <= w_now w1 ->
              match req_atn 2 ic tc rwt deadline w1 with
              | (Ok _, w2) => srr_loop f ic tc p (PDepReq d) rwt deadline w2
              | (Err e, w2) => (Err e, w2) | (Crash c, w2) => (Crash c, w2) | (Hang, w2) => (Hang, w2) end = (out, w') ->
              InS (w_t w') /\ ((out = Ok (PDepRes r) /\ w_t w' = t1) \/ (exists e, out = Err e /\ comm e) \/
                               (out = Hang /\ Z.of_nat (S f) <= Z.max 0 (deadline - w_now w)))).
    { intros wa Hina Hnow Ha. destruct (req_atn 2 ic tc rwt deadline wa) as [y w2] eqn:Ea.
      destruct (req_atn_S _ _ _ _ _ _ Hina Ea) as (A & _ & C & D).
      destruct D as [->|[e [-> He]]].
      - destruct (IH _ _ _ _ _ _ A Hp Hrwt Ha) as (A' & B').
        split; [exact A'|]. destruct B' as [B'|[B'|[B1 B2]]]; [left; exact B' | right; left; exact B' | right; right; split; [exact B1 | lia]].
      - injection Ha as <- <-. split; [exact A|]. right; left; eauto. }
    inversion Hso as [w2 E1 E2 E3 E4 E5|w2 E1 E2 E3 E4 E5|w2 E1 E2 E3 E4 E5|w2 E1 E2 E3 E4 E5]; subst x w2.
    + apply (Hcont w1); [rewrite E1; exact Hin | lia | exact H].
    + apply (Hcont w1); [rewrite E1; right; right; reflexivity | lia | exact H].
    + destruct (req_nak_S _ _ _ _ _ _ _ _ E1 Hp H) as (A & B & C).
      split; [rewrite A; right; right; reflexivity|]. destruct C as [->|[e [-> He]]]; [left; auto | right; left; eauto].
    + injection H as <- <-. split; [rewrite E1; right; right; reflexivity|]. left; auto.
Qed.

Lemma srr_loop_nofault fuel p rwt deadline w : InS (w_t w) -> hd (FD, FD) (w_script w) = (FD, FD) ->
  0 < Z.min rwt (deadline - w_now w) -> (1 <= fuel)%nat ->
  exists w', srr_loop fuel ic tc p (PDepReq d) rwt deadline w = (Ok (PDepRes r), w') /\
             w_t w' = t1 /\ w_script w' = tl (w_script w) /\ w_now w' = w_now w.
Proof.
  intros Hin Hhd Ht Hf. destruct fuel as [|f]; [lia|]. cbn [srr_loop].
  replace (Z.min rwt (deadline - w_now w) <=? 0) with false by lia.
  pose proof (S_step_req _ Hin) as Hs.
  pose proof (srr1_step d (Z.min rwt (deadline - w_now w)) w _ _ Hreq (proj1 (proj2 t1_facts)) Hs) as Hso.
  destruct (srr1 ic tc (PDepReq d) (Z.min rwt (deadline - w_now w)) w) as [x w1].
  inversion Hso as [w2 E1 E2 E3 E4 E5|w2 E1 E2 E3 E4 E5|w2 E1 E2 E3 E4 E5|w2 E1 E2 E3 E4 E5]; subst x w2.
  - exfalso. apply E4. rewrite Hhd. reflexivity.
  - rewrite Hhd in E4. discriminate.
  - rewrite Hhd in E4. discriminate.
  - exists w1. auto.
Qed.

(* ---- recovery: forward behaviour on fault free rounds ---- *)
Lemma req_atn_dd n rwt deadline w : InS (w_t w) -> hd (FD, FD) (w_script w) = (FD, FD) ->
  0 < Z.min rwt (deadline - w_now w) ->
  exists w', req_atn (S n) ic tc rwt deadline w = (Ok tt, w') /\ w_t w' = awake (w_t w) /\
             w_script w' = tl (w_script w) /\ w_now w' = w_now w.
Proof.
  intros Hin Hhd Ht. cbn [req_atn]. replace (Z.min rwt (deadline - w_now w) <=? 0) with false by lia.
  destruct (S_step_atn _ Hin) as (Hs & Hin' & Hk).
  pose proof (srr1_step atn_req (Z.min rwt (deadline - w_now w)) w _ _ atn_req_ok (atn_res_ok tc Hmt) Hs) as Hso.
  fold atn_req. destruct (srr1 ic tc (PDepReq atn_req) (Z.min rwt (deadline - w_now w)) w) as [x w1].
  inversion Hso as [w2 E1 E2 E3 E4 E5|w2 E1 E2 E3 E4 E5|w2 E1 E2 E3 E4 E5|w2 E1 E2 E3 E4 E5]; subst x w2.
  - exfalso. apply E4. rewrite Hhd. reflexivity.
  - rewrite Hhd in E4. discriminate.
  - rewrite Hhd in E4. discriminate.
  - cbn [atn_res fmt]. change (F_ATN =? F_RTOX) with false. change (F_ATN =? F_ATN) with true. cbn.
    exists w1. auto.
Qed.

Lemma req_nak_dd n p ch rwt deadline w : w_t w = t1 -> 0 <= p <= 3 -> hd (FD, FD) (w_script w) = (FD, FD) ->
  0 < Z.min rwt (deadline - w_now w) -> ((fmt r = F_INF \/ fmt r = F_MORE) \/ (fmt r = F_ACK /\ ch = true)) ->
  exists w', req_nak (S n) ic tc p ch rwt deadline w = (Ok (PDepRes r), w') /\ w_t w' = t1 /\
             w_script w' = tl (w_script w) /\ w_now w' = w_now w.
Proof.
  intros Hw Hp Hhd Ht Hfr. cbn [req_nak]. replace (Z.min rwt (deadline - w_now w) <=? 0) with false by lia.
  pose proof (S_step_nak p) as Hs. rewrite <- Hw in Hs at 1.
  pose proof (srr1_step (nak_req p) (Z.min rwt (deadline - w_now w)) w _ _ (nak_req_ok p Hp) (proj1 (proj2 t1_facts)) Hs) as Hso.
  fold (nak_req p). destruct (srr1 ic tc (PDepReq (nak_req p)) (Z.min rwt (deadline - w_now w)) w) as [x w1].
  inversion Hso as [w2 E1 E2 E3 E4 E5|w2 E1 E2 E3 E4 E5|w2 E1 E2 E3 E4 E5|w2 E1 E2 E3 E4 E5]; subst x w2.
  - exfalso. apply E4. rewrite Hhd. reflexivity.
  - rewrite Hhd in E4. discriminate.
  - rewrite Hhd in E4. discriminate.
  - replace (fmt r =? F_RTOX) with false by (unfold F_INF, F_MORE, F_ACK, F_RTOX in *; lia).
    replace ((fmt r =? F_INF) || (fmt r =? F_MORE) || (ch && (fmt r =? F_ACK))) with true
      by (destruct Hfr as [Hfr|[Hfr ->]]; cbn [andb]; lia). cbn [negb].
    exists w1. auto.
Qed.

(* a single fault, followed by two fault free rounds, is recovered: the call returns the response (an ACK response
   only ever answers a chained information PDU, for which request_retransmission accepts its retransmission) *)
Lemma srr_loop_sparse fuel p deadline w : w_t w = t0 \/ w_t w = awake t0 -> 0 <= p <= 3 -> Sparse (w_script w) ->
  2 <= deadline - w_now w -> (2 <= fuel)%nat -> ((fmt r = F_INF \/ fmt r = F_MORE) \/ (fmt r = F_ACK /\ fmt d = F_MORE) \/ NC (w_script w)) ->
  exists w', srr_loop fuel ic tc p (PDepReq d) 1 deadline w = (Ok (PDepRes r), w') /\ w_t w' = t1 /\ Sparse (w_script w') /\
             exists k, w_script w' = skipn k (w_script w).
Proof.
  intros Hw0 Hp Hsp Hdl Hfuel Hfr.
  assert (Hin : InS (w_t w)) by (destruct Hw0 as [-> | ->]; [left | right; left]; reflexivity).
  destruct (w_script w) as [|ff rest] eqn:Esc.
  { destruct (srr_loop_nofault fuel p 1 deadline w Hin) as (w' & E & A & B & C); [rewrite Esc; reflexivity | lia | lia|].
    exists w'. rewrite B, Esc. cbn. repeat split; auto. exists 0%nat. reflexivity. }
  cbn [Sparse] in Hsp. destruct (clean ff) eqn:Ec.
  { destruct (srr_loop_nofault fuel p 1 deadline w Hin) as (w' & E & A & B & C); [rewrite Esc; cbn; apply clean_eq, Ec | lia | lia|].
    exists w'. rewrite B, Esc. cbn. repeat split; auto. exists 1%nat. reflexivity. }
  destruct rest as [|f1 [|f2 rest2]]; try contradiction. destruct Hsp as (C1 & C2 & Hsp).
  apply clean_eq in C1. apply clean_eq in C2. subst f1 f2.
  destruct fuel as [|[|f]]; try lia. cbn [srr_loop].
  replace (Z.min 1 (deadline - w_now w) <=? 0) with false by lia.
  pose proof (S_step_req _ Hin) as Hs.
  pose proof (srr1_step d (Z.min 1 (deadline - w_now w)) w _ _ Hreq (proj1 (proj2 t1_facts)) Hs) as Hso.
  destruct (srr1 ic tc (PDepReq d) (Z.min 1 (deadline - w_now w)) w) as [x w1].
  assert (Hatn : forall wa, InS (w_t wa) -> w_script wa = (FD, FD) :: (FD, FD) :: rest2 -> w_now wa = w_now w + Z.min 1 (deadline - w_now w) ->
            exists w', match req_atn 2 ic tc 1 deadline wa with
                       | (Ok _, w2) => srr_loop (S f) ic tc p (PDepReq d) 1 deadline w2
                       | (Err e, w2) => (Err e, w2) | (Crash c, w2) => (Crash c, w2) | (Hang, w2) => (Hang, w2) end
                       = (Ok (PDepRes r), w') /\ w_t w' = t1 /\ Sparse (w_script w') /\
                       exists k, w_script w' = skipn k (ff :: (FD, FD) :: (FD, FD) :: rest2)).
  { intros wa Hina Hsa Hna.
    destruct (req_atn_dd 1 1 deadline wa Hina) as (w2 & E & A & B & C); [rewrite Hsa; reflexivity | lia|].
    rewrite E.
    assert (Hin2 : InS (w_t w2)) by (rewrite A; apply S_step_atn, Hina).
    destruct (srr_loop_nofault (S f) p 1 deadline w2 Hin2) as (w3 & E3 & A3 & B3 & C3); [rewrite B, Hsa; reflexivity | lia | lia|].
    exists w3. rewrite E3, B3, B, Hsa. cbn. repeat split; auto. exists 3%nat. reflexivity. }
  inversion Hso as [w2 E1 E2 E3 E4 E5|w2 E1 E2 E3 E4 E5|w2 E1 E2 E3 E4 E5|w2 E1 E2 E3 E4 E5]; subst x w2.
  - apply Hatn; [rewrite E1; exact Hin | rewrite E2, Esc; reflexivity | exact E3].
  - apply Hatn; [rewrite E1; right; right; reflexivity | rewrite E2, Esc; reflexivity | exact E3].
  - rewrite Esc in E4. cbn in E4. subst ff.
    cbn [is_chained].
    destruct (req_nak_dd 1 p (fmt d =? F_MORE) 1 deadline w1 E1 Hp) as (w2 & E & A & B & C);
      [rewrite E2, Esc; reflexivity | lia |
       destruct Hfr as [Hfr|[[Hfr Hd]|Hnc]]; [left; exact Hfr | right; split; [exact Hfr | rewrite Hd; reflexivity] |
         exfalso; inversion Hnc as [|? ? Hh _]; apply Hh; reflexivity]|].
    exists w2. rewrite E, B, E2, Esc. cbn. repeat split; auto. exists 2%nat. reflexivity.
  - rewrite Esc in E4. cbn in E4. subst ff. discriminate.
Qed.

(* send_dep_req_recv_dep_res *)
Theorem srr_safe fuel p rwt timeout w out w' : InS (w_t w) -> 0 <= p <= 3 -> 1 <= rwt ->
  srr fuel ic tc p d rwt timeout w = (out, w') ->
  InS (w_t w') /\
  ((out = Ok r /\ w_t w' = t1) \/ (exists e, out = Err e /\ comm e) \/ (out = Hang /\ Z.of_nat fuel <= Z.max 0 timeout)).
Proof.
  intros Hin Hp Hrwt H. unfold srr in H.
  destruct (srr_loop fuel ic tc p (PDepReq d) rwt (w_now w + timeout) w) as [x w1] eqn:El.
  destruct (srr_loop_S _ _ _ _ _ _ _ Hin Hp Hrwt El) as (A & B).
  destruct B as [[-> B]|[[e [-> He]]|[-> B]]].
  - destruct (fmt r =? F_NAK); injection H as <- <-; (split; [exact A|]); [right; left; eauto | left; auto].
  - injection H as <- <-. split; [exact A|]. right; left; eauto.
  - injection H as <- <-. split; [exact A|]. right; right. split; [reflexivity | lia].
Qed.

Theorem srr_nofault fuel p rwt timeout w : InS (w_t w) -> hd (FD, FD) (w_script w) = (FD, FD) ->
  1 <= rwt -> 1 <= timeout -> (1 <= fuel)%nat -> fmt r <> F_NAK ->
  exists w', srr fuel ic tc p d rwt timeout w = (Ok r, w') /\
             w_t w' = t1 /\ w_script w' = tl (w_script w) /\ w_now w' = w_now w.
Proof.
  intros Hin Hhd Hrwt Hto Hf Hn. unfold srr.
  destruct (srr_loop_nofault fuel p rwt (w_now w + timeout) w Hin Hhd) as (w' & E & A & B & C); [lia | exact Hf|].
  rewrite E. replace (fmt r =? F_NAK) with false by lia. exists w'. auto.
Qed.
Theorem srr_sparse fuel p timeout w : fmt r <> F_NAK ->
  w_t w = t0 \/ w_t w = awake t0 -> 0 <= p <= 3 -> Sparse (w_script w) ->
  2 <= timeout -> (2 <= fuel)%nat -> ((fmt r = F_INF \/ fmt r = F_MORE) \/ (fmt r = F_ACK /\ fmt d = F_MORE) \/ NC (w_script w)) ->
  exists w', srr fuel ic tc p d 1 timeout w = (Ok r, w') /\ w_t w' = t1 /\ Sparse (w_script w') /\
             exists k, w_script w' = skipn k (w_script w).
Proof.
  intros Hnak Hw0 Hp Hsp Hto Hfuel Hfr. unfold srr.
  destruct (srr_loop_sparse fuel p (w_now w + timeout) w Hw0 Hp Hsp ltac:(lia) Hfuel Hfr) as (w' & E & A & B & C).
  rewrite E. replace (fmt r =? F_NAK) with false by lia. exists w'. auto.
Qed.
End Step.

(* ---------------------------------------------------------------- the time-out extension phase *)
(* Between accepting the last information PDU of a payload and sending the response the target application may
   call send_timeout_extension several times.  The target is then in one of the states Rph: waiting for the RTOX
   request that answers its RTOX x (with rt still to come), or already sending the response.  A repeated RTOX request
   (its answer was lost) is taken for the answer to the NEXT pending RTOX response, so one handshake may be skipped;
   the data are not affected. *)
Section Rtox.
Variables (q : Z) (resp : list Z) (rest : list (list Z * list Z)) (out0 : list tres).
Hypothesis Hq : 0 <= q <= 3.
Hypothesis Hresp : resp <> [].

Definition rtoxres (x : Z) : deppdu := mkdep F_RTOX 0 (tc_did tc) (tc_nad tc) [x].
Definition infr : deppdu :=
  mkdep (if tc_miu tc <? len resp then F_MORE else F_INF) q (tc_did tc) (tc_nad tc) (take (tc_miu tc) resp).
Definition rt_ok (x : Z) : Prop := 0 < x < 60.

Inductive Rph (m : nat) (t : tgt) : Prop :=
| Rph_rtox x rt : Tinv tc t -> t_pni t = Some q -> t_out t = out0 -> t_pos t = TRtox -> t_res t = Some (rtoxres x) ->
    t_app t = (rt, resp) :: rest -> Forall rt_ok (x :: rt) -> (S (length rt) <= m)%nat -> Rph m t
| Rph_send : Tinv tc t -> t_pni t = Some q -> t_out t = out0 -> t_pos t = TSend resp -> t_res t = Some infr ->
    t_app t = rest -> Rph m t.

Lemma Rph_mono m m' t : (m <= m')%nat -> Rph m t -> Rph m' t.
Proof. intros H [x rt A B C D E F G I|A B C D E F]; [eapply Rph_rtox; eauto; lia | apply Rph_send; auto]. Qed.

Lemma rtoxres_ok x : resp_ok tc (rtoxres x).
Proof. apply resp_ok_mk; [unfold F_RTOX; lia | lia | change (len [x]) with 1; lia]. Qed.
Lemma infr_ok : resp_ok tc infr.
Proof. apply resp_ok_mk; [destruct (tc_miu tc <? len resp); unfold F_MORE, F_INF; lia | exact Hq | apply len_take_le; lia]. Qed.

Lemma Rph_facts m t : Rph m t ->
  t_pos t <> TStop /\ t_pos t <> TListen /\ t_out t = out0 /\
  exists r, t_res t = Some r /\ resp_ok tc r /\ fmt r <> F_NAK /\
            ((r = infr /\ t_pos t = TSend resp) \/ (exists x, r = rtoxres x /\ rt_ok x /\ t_pos t = TRtox)).
Proof.
  intros [x rt A B C D E F G I|A B C D E F].
  - rewrite D. repeat split; try discriminate; try assumption. exists (rtoxres x). split; [exact E|]. split; [apply rtoxres_ok|].
    split; [cbn; unfold F_RTOX, F_NAK; lia|]. right. exists x. inversion G; auto.
  - rewrite D. repeat split; try discriminate; try assumption. exists infr. split; [exact E|]. split; [apply infr_ok|].
    split; [unfold infr; cbn; destruct (tc_miu tc <? len resp); unfold F_MORE, F_INF, F_NAK; lia|]. left. auto.
Qed.

Definition rtox_req (x : Z) : deppdu := i_dep ic F_RTOX 0 [x].
Lemma rtox_req_ok x : req_ok (rtox_req x).
Proof. apply i_dep_ok; unfold F_RTOX; try lia. change (len [x]) with 1. lia. Qed.

(* an RTOX request at a state of the phase: one handshake further (or the response again), never back *)
Lemma Rph_step_rtox m t x : Rph (S m) t ->
  exists t' r, tgt_step tc t (PDepReq (rtox_req x)) = (t', Some (PDepRes r)) /\ Rph m t' /\ t_res t' = Some r.
Proof.
  intros [y rt A B C D E F G I|A B C D E F].
  - unfold tgt_step. rewrite D. cbn [pdu_did rtox_req i_dep did]. rewrite <- Hdid, opt_eqb_refl. cbn [negb fmt].
    change (F_RTOX =? F_ATN) with false. change (F_RTOX =? F_NAK) with false. change (F_RTOX =? F_RTOX) with true. cbv iota.
    rewrite E. cbn [fmt rtoxres]. change (F_RTOX =? F_RTOX) with true. cbv iota.
    unfold t_accept. rewrite D. cbn [fmt data]. change (F_RTOX =? F_RTOX) with true. cbv iota.
    unfold t_app_continue. cbn [t_app t_pni t_pos t_res t_out t_rtx t_act]. rewrite F.
    destruct A as [Ap Ar]. inversion G as [|? ? G1 G2]; subst.
    destruct rt as [|x' rt'].
    + unfold t_start_send. destruct resp as [|b resp'] eqn:Er; [congruence|]. cbn [t_pni]. rewrite B. rewrite <- Er.
      unfold t_emit. cbn [t_pni t_pos t_res t_app t_out t_rtx t_act]. do 2 eexists. split; [reflexivity|]. split; [|reflexivity].
      apply Rph_send; cbn; auto. split; cbn; [intros p0 Hp0; injection Hp0 as <-; exact Hq | intros r0 Hr0; injection Hr0 as <-; apply infr_ok].
    + unfold t_emit. cbn [t_pni t_pos t_res t_app t_out t_rtx t_act]. do 2 eexists. split; [reflexivity|]. split; [|reflexivity].
      apply (Rph_rtox m _ x' rt'); cbn [t_pni t_pos t_res t_app t_out t_rtx t_act];
        [split; cbn; [exact Ap | intros r0 Hr0; injection Hr0 as <-; apply rtoxres_ok]
        | exact B | exact C | reflexivity | reflexivity | reflexivity | exact G2 | cbn [length] in I; lia].
  - exists t, infr. split; [|split; [apply Rph_send; auto | exact E]].
    unfold tgt_step. rewrite D. cbn [pdu_did rtox_req i_dep did]. rewrite <- Hdid, opt_eqb_refl. cbn [negb fmt].
    change (F_RTOX =? F_ATN) with false. change (F_RTOX =? F_NAK) with false. change (F_RTOX =? F_RTOX) with true. cbv iota.
    rewrite E. replace (fmt infr =? F_RTOX) with false by (unfold infr; cbn; destruct (tc_miu tc <? len resp); reflexivity).
    unfold t_resend. rewrite E. reflexivity.
Qed.

Lemma Rph_step_atn m t : Rph m t -> tgt_step tc t (PDepReq (i_dep ic F_ATN 0 [])) = (t, Some (PDepRes (atn_res tc))).
Proof.
  intro H. destruct (Rph_facts _ _ H) as (A & B & _).
  rewrite (step_atn tc t _ A); [rewrite awake_not_listen by exact B; reflexivity | cbn; symmetry; exact Hdid | reflexivity].
Qed.
Lemma Rph_step_nak m t p : Rph m t -> exists r, t_res t = Some r /\ tgt_step tc t (PDepReq (i_dep ic F_NAK p [])) = (t, Some (PDepRes r)).
Proof.
  intro H. destruct (Rph_facts _ _ H) as (A & B & _ & r & Er & _). exists r. split; [exact Er|].
  rewrite (step_nak tc t _ A B); [rewrite Er; reflexivity | cbn; symmetry; exact Hdid | reflexivity].
Qed.

Lemma i_atn_ok : req_ok (i_dep ic F_ATN 0 []).
Proof. apply i_dep_ok; unfold F_ATN; try lia. change (len (@nil Z)) with 0. lia. Qed.
Lemma i_nak_ok p : 0 <= p <= 3 -> req_ok (i_dep ic F_NAK p []).
Proof. intro. apply i_dep_ok; unfold F_NAK; try lia. change (len (@nil Z)) with 0. lia. Qed.

Lemma req_atn_R m n : forall rwt deadline w out w', Rph m (w_t w) ->
  req_atn n ic tc rwt deadline w = (out, w') ->
  w_t w' = w_t w /\ w_now w <= w_now w' /\ (out = Ok tt \/ exists e, out = Err e /\ comm e).
Proof.
  induction n as [|n IH]; intros rwt deadline w out w' HR H; cbn [req_atn] in H.
  - injection H as <- <-. split; [reflexivity|]. split; [lia|]. right; eauto.
  - destruct (Z.min rwt (deadline - w_now w) <=? 0) eqn:Et.
    { injection H as <- <-. split; [reflexivity|]. split; [lia|]. right; eauto. }
    pose proof (srr1_step _ (Z.min rwt (deadline - w_now w)) w _ _ i_atn_ok (atn_res_ok tc Hmt) (Rph_step_atn _ _ HR)) as Hso.
    destruct (srr1 ic tc (PDepReq (i_dep ic F_ATN 0 [])) (Z.min rwt (deadline - w_now w)) w) as [x w1].
    inversion Hso as [w2 E1 E2 E3 E4 E5|w2 E1 E2 E3 E4 E5|w2 E1 E2 E3 E4 E5|w2 E1 E2 E3 E4 E5]; subst x w2.
    1,2,3: (assert (HR1 : Rph m (w_t w1)) by (rewrite E1; exact HR);
            destruct (IH _ _ _ _ _ HR1 H) as (A & B & C); split; [congruence|]; split; [lia | exact C]).
    cbn [atn_res fmt] in H. change (F_ATN =? F_RTOX) with false in H. change (F_ATN =? F_ATN) with true in H. cbn in H.
    injection H as <- <-. split; [exact E1|]. split; [lia|]. left; reflexivity.
Qed.

Lemma req_nak_R m n : forall p ch rwt deadline w out w', Rph m (w_t w) -> 0 <= p <= 3 ->
  req_nak n ic tc p ch rwt deadline w = (out, w') ->
  w_t w' = w_t w /\ w_now w <= w_now w' /\
  ((exists r, out = Ok (PDepRes r) /\ t_res (w_t w) = Some r) \/ exists e, out = Err e /\ comm e).
Proof.
  induction n as [|n IH]; intros p ch rwt deadline w out w' HR Hp H; cbn [req_nak] in H.
  - injection H as <- <-. split; [reflexivity|]. split; [lia|]. right; eauto.
  - destruct (Z.min rwt (deadline - w_now w) <=? 0) eqn:Et.
    { injection H as <- <-. split; [reflexivity|]. split; [lia|]. right; eauto. }
    destruct (Rph_step_nak _ _ p HR) as (r & Er & Hs).
    destruct (Rph_facts _ _ HR) as (_ & _ & _ & r' & Er' & Hok & _). rewrite Er in Er'. injection Er' as <-.
    pose proof (srr1_step _ (Z.min rwt (deadline - w_now w)) w _ _ (i_nak_ok p Hp) Hok Hs) as Hso.
    destruct (srr1 ic tc (PDepReq (i_dep ic F_NAK p [])) (Z.min rwt (deadline - w_now w)) w) as [x w1].
    inversion Hso as [w2 E1 E2 E3 E4 E5|w2 E1 E2 E3 E4 E5|w2 E1 E2 E3 E4 E5|w2 E1 E2 E3 E4 E5]; subst x w2.
    1,2,3: (assert (HR1 : Rph m (w_t w1)) by (rewrite E1; exact HR);
            destruct (IH _ _ _ _ _ _ _ HR1 Hp H) as (A & B & C); split; [congruence|]; split; [lia|];
            destruct C as [(r0 & C1 & C2)|C]; [left; exists r0; split; [exact C1 | rewrite <- E1; exact C2] | right; exact C]).
    destruct (fmt r =? F_RTOX); [injection H as <- <-; split; [exact E1|]; split; [lia|]; right; eauto|].
    destruct (negb ((fmt r =? F_INF) || (fmt r =? F_MORE) || (ch && (fmt r =? F_ACK)))); injection H as <- <-;
      (split; [exact E1|]; split; [lia|]); [right; eauto | left; eauto].
Qed.

(* the while True loop for an RTOX request *)
Lemma srr_loop_R m x fuel : forall p rwt deadline w out w', Rph (S m) (w_t w) -> 0 <= p <= 3 -> 1 <= rwt ->
  srr_loop fuel ic tc p (PDepReq (rtox_req x)) rwt deadline w = (out, w') ->
  Rph (S m) (w_t w') /\
  ((exists r, out = Ok (PDepRes r) /\ Rph m (w_t w') /\ t_res (w_t w') = Some r) \/ (exists e, out = Err e /\ comm e) \/
   (out = Hang /\ Z.of_nat fuel <= Z.max 0 (deadline - w_now w))).
Proof.
  induction fuel as [|f IH]; intros p rwt deadline w out w' HR Hp Hrwt H; cbn [srr_loop] in H.
  - injection H as <- <-. split; [exact HR|]. right; right. split; [reflexivity | lia].
  - destruct (Z.min rwt (deadline - w_now w) <=? 0) eqn:Et.
    { injection H as <- <-. split; [exact HR|]. right; left; eauto. }
    destruct (Rph_step_rtox m _ x HR) as (t' & r & Hs & HR' & Er').
    destruct (Rph_facts _ _ HR') as (_ & _ & _ & r0 & Er0 & Hok & _). rewrite Er' in Er0. injection Er0 as <-.
    pose proof (srr1_step _ (Z.min rwt (deadline - w_now w)) w _ _ (rtox_req_ok x) Hok Hs) as Hso.
    destruct (srr1 ic tc (PDepReq (rtox_req x)) (Z.min rwt (deadline - w_now w)) w) as [y w1].
    assert (Hcont : forall w1, Rph (S m) (w_t w1) -> w_now w + 1 <= w_now w1 ->
              match req_atn 2 ic tc rwt deadline w1 with
              | (Ok _, w2) => srr_loop f ic tc p (PDepReq (rtox_req x)) rwt deadline w2
              | (Err e, w2) => (Err e, w2) | (Crash c, w2) => (Crash c, w2) | (Hang, w2) => (Hang, w2) end = (out, w') ->
              Rph (S m) (w_t w') /\
              ((exists r, out = Ok (PDepRes r) /\ Rph m (w_t w') /\ t_res (w_t w') = Some r) \/ (exists e, out = Err e /\ comm e) \/
               (out = Hang /\ Z.of_nat (S f) <= Z.max 0 (deadline - w_now w)))).
    { intros wa HRa Hnow Ha. destruct (req_atn 2 ic tc rwt deadline wa) as [z w2] eqn:Ea.
      destruct (req_atn_R _ _ _ _ _ _ _ HRa Ea) as (A & C & D).
      destruct D as [->|[e [-> He]]].
      - assert (HR2 : Rph (S m) (w_t w2)) by (rewrite A; exact HRa).
        destruct (IH _ _ _ _ _ _ HR2 Hp Hrwt Ha) as (A' & B').
        split; [exact A'|]. destruct B' as [B'|[B'|[B1 B2]]]; [left; exact B' | right; left; exact B' | right; right; split; [exact B1 | lia]].
      - injection Ha as <- <-. split; [rewrite A; exact HRa|]. right; left; eauto. }
    inversion Hso as [w2 E1 E2 E3 E4 E5|w2 E1 E2 E3 E4 E5|w2 E1 E2 E3 E4 E5|w2 E1 E2 E3 E4 E5]; subst y w2.
    + apply (Hcont w1); [rewrite E1; exact HR | lia | exact H].
    + apply (Hcont w1); [rewrite E1; apply (Rph_mono m); [lia | exact HR'] | lia | exact H].
    + assert (HR1 : Rph m (w_t w1)) by (rewrite E1; exact HR').
      destruct (req_nak_R _ _ _ _ _ _ _ _ _ HR1 Hp H) as (A & B & C).
      split; [rewrite A; apply (Rph_mono m); [lia | exact HR1]|].
      destruct C as [(r1 & -> & C2)|[e [-> He]]]; [left; exists r1; rewrite A; auto | right; left; eauto].
    + injection H as <- <-. split; [rewrite E1; apply (Rph_mono m); [lia | exact HR']|]. left. exists r. rewrite E1. auto.
Qed.

Theorem srr_R m x fuel p rwt timeout w out w' : Rph (S m) (w_t w) -> 0 <= p <= 3 -> 1 <= rwt ->
  srr fuel ic tc p (rtox_req x) rwt timeout w = (out, w') ->
  Rph (S m) (w_t w') /\
  ((exists r, out = Ok r /\ Rph m (w_t w') /\ t_res (w_t w') = Some r) \/ (exists e, out = Err e /\ comm e) \/
   (out = Hang /\ Z.of_nat fuel <= Z.max 0 timeout)).
Proof.
  intros HR Hp Hrwt H. unfold srr in H.
  destruct (srr_loop fuel ic tc p (PDepReq (rtox_req x)) rwt (w_now w + timeout) w) as [y w1] eqn:El.
  destruct (srr_loop_R _ _ _ _ _ _ _ _ _ HR Hp Hrwt El) as (A & B).
  destruct B as [(r & -> & B1 & B2)|[[e [-> He]]|[-> B]]].
  - destruct (Rph_facts _ _ B1) as (_ & _ & _ & r0 & Er0 & _ & Hn & _). rewrite B2 in Er0. injection Er0 as <-.
    replace (fmt r =? F_NAK) with false in H by lia. injection H as <- <-. split; [exact A|]. left. eauto.
  - injection H as <- <-. split; [exact A|]. right; left; eauto.
  - injection H as <- <-. split; [exact A|]. right; right. split; [reflexivity | lia].
Qed.

(* fault free round *)
Lemma srr_R_clean m x fuel p rwt timeout w : Rph (S m) (w_t w) -> hd (FD, FD) (w_script w) = (FD, FD) ->
  1 <= rwt -> 1 <= timeout -> (1 <= fuel)%nat ->
  exists r w', srr fuel ic tc p (rtox_req x) rwt timeout w = (Ok r, w') /\ Rph m (w_t w') /\ t_res (w_t w') = Some r /\
               w_script w' = tl (w_script w) /\ w_now w' = w_now w.
Proof.
  intros HR Hhd Hrwt Hto Hf. destruct fuel as [|f]; [lia|]. unfold srr. cbn [srr_loop].
  replace (Z.min rwt (w_now w + timeout - w_now w) <=? 0) with false by lia.
  destruct (Rph_step_rtox m _ x HR) as (t' & r & Hs & HR' & Er').
  destruct (Rph_facts _ _ HR') as (_ & _ & _ & r0 & Er0 & Hok & Hn & _). rewrite Er' in Er0. injection Er0 as <-.
  pose proof (srr1_step _ (Z.min rwt (w_now w + timeout - w_now w)) w _ _ (rtox_req_ok x) Hok Hs) as Hso.
  destruct (srr1 ic tc (PDepReq (rtox_req x)) (Z.min rwt (w_now w + timeout - w_now w)) w) as [y w1].
  inversion Hso as [w2 E1 E2 E3 E4 E5|w2 E1 E2 E3 E4 E5|w2 E1 E2 E3 E4 E5|w2 E1 E2 E3 E4 E5]; subst y w2.
  - exfalso. apply E4. rewrite Hhd. reflexivity.
  - rewrite Hhd in E4. discriminate.
  - rewrite Hhd in E4. discriminate.
  - replace (fmt r =? F_NAK) with false by lia. exists r, w1. rewrite E1. auto.
Qed.

(* a lost / corrupted RTOX request or a lost answer to it, followed by two fault free rounds, is recovered *)
Lemma srr_R_sparse m x fuel p timeout w : Rph (S m) (w_t w) -> 0 <= p <= 3 -> Sparse (w_script w) -> NC (w_script w) ->
  1 <= x -> x + 1 <= timeout -> (2 <= fuel)%nat ->
  exists r w', srr fuel ic tc p (rtox_req x) (x * 1) timeout w = (Ok r, w') /\ Rph m (w_t w') /\ t_res (w_t w') = Some r /\
               Sparse (w_script w') /\ exists k, w_script w' = skipn k (w_script w).
Proof.
  intros HR Hp Hsp Hnc Hx Hto Hfuel.
  destruct (w_script w) as [|ff rs] eqn:Esc.
  { destruct (srr_R_clean m x fuel p (x * 1) timeout w HR) as (r & w' & E & A & B & C & D); [rewrite Esc; reflexivity | lia | lia | lia|].
    exists r, w'. rewrite C, Esc. cbn. repeat split; auto. exists 0%nat. reflexivity. }
  cbn [Sparse] in Hsp. destruct (clean ff) eqn:Ec.
  { destruct (srr_R_clean m x fuel p (x * 1) timeout w HR) as (r & w' & E & A & B & C & D); [rewrite Esc; cbn; apply clean_eq, Ec | lia | lia | lia|].
    exists r, w'. rewrite C, Esc. cbn. repeat split; auto. exists 1%nat. reflexivity. }
  destruct rs as [|f1 [|f2 rs2]]; try contradiction. destruct Hsp as (C1 & C2 & Hsp).
  apply clean_eq in C1. apply clean_eq in C2. subst f1 f2.
  destruct fuel as [|[|f]]; try lia. unfold srr. cbn [srr_loop].
  replace (Z.min (x * 1) (w_now w + timeout - w_now w) <=? 0) with false by lia.
  destruct (Rph_step_rtox m _ x HR) as (t' & r & Hs & HR' & Er').
  destruct (Rph_facts _ _ HR') as (_ & _ & _ & r0 & Er0 & Hok & Hn & _). rewrite Er' in Er0. injection Er0 as <-.
  pose proof (srr1_step _ (Z.min (x * 1) (w_now w + timeout - w_now w)) w _ _ (rtox_req_ok x) Hok Hs) as Hso.
  destruct (srr1 ic tc (PDepReq (rtox_req x)) (Z.min (x * 1) (w_now w + timeout - w_now w)) w) as [y w1].
  (* after a time-out: one attention round, then the request again - both fault free *)
  assert (Hatn : forall wa mm, Rph (S mm) (w_t wa) -> (mm <= m)%nat -> w_script wa = (FD, FD) :: (FD, FD) :: rs2 ->
            w_now wa = w_now w + Z.min (x * 1) (w_now w + timeout - w_now w) ->
            exists r w', (match (match req_atn 2 ic tc (x * 1) (w_now w + timeout) wa with
                       | (Ok _, w2) => srr_loop (S f) ic tc p (PDepReq (rtox_req x)) (x * 1) (w_now w + timeout) w2
                       | (Err e, w2) => (Err e, w2) | (Crash c, w2) => (Crash c, w2) | (Hang, w2) => (Hang, w2) end) with
                       | (Ok (PDepRes d0), w3) => if fmt d0 =? F_NAK then (Err ProtocolError, w3) else (Ok d0, w3)
                       | (Ok _, w3) => (Crash AttributeErr, w3) | (Err e, w3) => (Err e, w3)
                       | (Crash x0, w3) => (Crash x0, w3) | (Hang, w3) => (Hang, w3) end)
                       = (Ok r, w') /\ Rph m (w_t w') /\ t_res (w_t w') = Some r /\ Sparse (w_script w') /\
                       exists k, w_script w' = skipn k (ff :: (FD, FD) :: (FD, FD) :: rs2)).
  { intros wa mm HRa Hmm Hsa Hna.
    (* attention round *)
    cbn [req_atn]. replace (Z.min (x * 1) (w_now w + timeout - w_now wa) <=? 0) with false by lia.
    pose proof (srr1_step _ (Z.min (x * 1) (w_now w + timeout - w_now wa)) wa _ _ i_atn_ok (atn_res_ok tc Hmt) (Rph_step_atn _ _ HRa)) as Ha.
    destruct (srr1 ic tc (PDepReq (i_dep ic F_ATN 0 [])) (Z.min (x * 1) (w_now w + timeout - w_now wa)) wa) as [z w2].
    inversion Ha as [w4 E1 E2 E3 E4 E5|w4 E1 E2 E3 E4 E5|w4 E1 E2 E3 E4 E5|w4 E1 E2 E3 E4 E5]; subst z w4;
      try (rewrite Hsa in E4; cbn in E4; try discriminate; exfalso; apply E4; reflexivity).
    cbn [atn_res fmt]. change (F_ATN =? F_RTOX) with false. change (F_ATN =? F_ATN) with true. cbn [negb]. cbv iota.
    (* the request again *)
    assert (HR2 : Rph (S mm) (w_t w2)) by (rewrite E1; exact HRa).
    cbn [srr_loop]. replace (Z.min (x * 1) (w_now w + timeout - w_now w2) <=? 0) with false by lia.
    destruct (Rph_step_rtox mm _ x HR2) as (t2 & r2 & Hs2 & HR2' & Er2).
    destruct (Rph_facts _ _ HR2') as (_ & _ & _ & r0 & Er0 & Hok2 & Hn2 & _). rewrite Er2 in Er0. injection Er0 as <-.
    pose proof (srr1_step _ (Z.min (x * 1) (w_now w + timeout - w_now w2)) w2 _ _ (rtox_req_ok x) Hok2 Hs2) as Hb.
    destruct (srr1 ic tc (PDepReq (rtox_req x)) (Z.min (x * 1) (w_now w + timeout - w_now w2)) w2) as [z w3].
    inversion Hb as [w4 F1 F2 F3 F4 F5|w4 F1 F2 F3 F4 F5|w4 F1 F2 F3 F4 F5|w4 F1 F2 F3 F4 F5]; subst z w4;
      try (rewrite E2, Hsa in F4; cbn in F4; try discriminate; exfalso; apply F4; reflexivity).
    replace (fmt r2 =? F_NAK) with false by lia.
    exists r2, w3. split; [reflexivity|]. rewrite F1. split; [apply (Rph_mono mm); [lia | exact HR2']|]. split; [exact Er2|].
    rewrite F2, E2, Hsa. cbn. split; [exact Hsp|]. exists 3%nat. reflexivity. }
  inversion Hso as [w2 E1 E2 E3 E4 E5|w2 E1 E2 E3 E4 E5|w2 E1 E2 E3 E4 E5|w2 E1 E2 E3 E4 E5]; subst y w2.
  - apply (Hatn w1 m); [rewrite E1; exact HR | lia | rewrite E2, Esc; reflexivity | exact E3].
  - destruct m as [|m'].
    + (* the response phase was already reached: the target answers the repeated request with the response again *)
      apply (Hatn w1 0%nat); [rewrite E1; apply (Rph_mono 0); [lia | exact HR'] | lia | rewrite E2, Esc; reflexivity | exact E3].
    + apply (Hatn w1 m'); [rewrite E1; exact HR' | lia | rewrite E2, Esc; reflexivity | exact E3].
  - exfalso. rewrite Esc in E4. cbn in E4. subst ff. inversion Hnc as [|? ? Hh _]. apply Hh. reflexivity.
  - rewrite Esc in E4. cbn in E4. subst ff. discriminate.
Qed.

(* the RTOX loop of Initiator.exchange: at most n pending handshakes *)
Lemma rtox_loop_R n : forall fuel p r timeout w out w', Rph n (w_t w) -> t_res (w_t w) = Some r -> fmt r = F_RTOX ->
  0 <= p <= 3 -> Z.max 0 timeout < Z.of_nat fuel ->
  rtox_loop n fuel ic tc p r timeout w = (out, w') ->
  ((exists e, out = Err e /\ comm e) /\ Rph n (w_t w')) \/ (out = Ok infr /\ Rph 0 (w_t w')).
Proof.
  induction n as [|n IH]; intros fuel p r timeout w out w' HR Er Hf Hp Hfuel H.
  { exfalso. destruct HR as [x rt A B C D E F G I|A B C D E F]; [lia|]. rewrite E in Er. injection Er as <-.
    unfold infr in Hf. cbn in Hf. destruct (tc_miu tc <? len resp); discriminate. }
  cbn [rtox_loop] in H.
  destruct (Rph_facts _ _ HR) as (_ & _ & _ & r0 & Er0 & _ & _ & Hk). rewrite Er in Er0. injection Er0 as <-.
  destruct Hk as [[-> _]|(x & -> & Hx & _)].
  { exfalso. unfold infr in Hf. cbn in Hf. destruct (tc_miu tc <? len resp); discriminate. }
  cbn [data rtoxres] in H. unfold rt_ok in Hx. replace (negb ((0 <? x) && (x <? 60))) with false in H by lia.
  fold (rtox_req x) in H.
  destruct (srr fuel ic tc p (rtox_req x) (x * 1) timeout w) as [y w1] eqn:Es.
  destruct (srr_R n x fuel p (x * 1) timeout w y w1 HR Hp ltac:(lia) Es) as (A & B).
  destruct B as [(r1 & -> & B1 & B2)|[[e [-> He]]|[-> B]]].
  - destruct (fmt r1 =? F_RTOX) eqn:E1.
    + destruct (IH fuel p r1 timeout w1 out w' B1 B2 ltac:(lia) Hp Hfuel H) as [[X Y]|[X Y]].
      * left. split; [exact X | apply (Rph_mono n); [lia | exact Y]].
      * right. auto.
    + injection H as <- <-. right.
      destruct (Rph_facts _ _ B1) as (_ & _ & _ & r0 & Er0 & _ & _ & Hk). rewrite B2 in Er0. injection Er0 as <-.
      destruct Hk as [[-> Hpos]|(x1 & -> & _)]; [|cbn in E1; discriminate].
      split; [reflexivity|]. destruct B1 as [x2 rt A1 A2 A3 A4 A5 A6 A7 A8|A1 A2 A3 A4 A5 A6]; [congruence | apply Rph_send; auto].
  - injection H as <- <-. left. split; [eauto | exact A].
  - exfalso. lia.
Qed.
(* ... on a fault free script, and on a script with isolated faults that corrupts no response *)
Lemma rtox_loop_R_good n : forall fuel p r timeout w, Rph n (w_t w) -> t_res (w_t w) = Some r -> fmt r = F_RTOX ->
  0 <= p <= 3 -> (2 <= fuel)%nat ->
  ((w_script w = [] /\ 1 <= timeout) \/ (Sparse (w_script w) /\ NC (w_script w) /\ 60 <= timeout)) ->
  exists w', rtox_loop n fuel ic tc p r timeout w = (Ok infr, w') /\ Rph 0 (w_t w') /\
             ((w_script w = [] -> w_script w' = []) /\ (Sparse (w_script w) -> NC (w_script w) -> Sparse (w_script w') /\ NC (w_script w'))).
Proof.
  induction n as [|n IH]; intros fuel p r timeout w HR Er Hf Hp Hfuel HG.
  { exfalso. destruct HR as [x rt A B C D E F G I|A B C D E F]; [lia|]. rewrite E in Er. injection Er as <-.
    unfold infr in Hf. cbn in Hf. destruct (tc_miu tc <? len resp); discriminate. }
  cbn [rtox_loop].
  destruct (Rph_facts _ _ HR) as (_ & _ & _ & r0 & Er0 & _ & _ & Hk). rewrite Er in Er0. injection Er0 as <-.
  destruct Hk as [[-> _]|(x & -> & Hx & _)].
  { exfalso. unfold infr in Hf. cbn in Hf. destruct (tc_miu tc <? len resp); discriminate. }
  cbn [data rtoxres]. unfold rt_ok in Hx. replace (negb ((0 <? x) && (x <? 60))) with false by lia.
  fold (rtox_req x).
  assert (Hstep : exists r1 w1, srr fuel ic tc p (rtox_req x) (x * 1) timeout w = (Ok r1, w1) /\ Rph n (w_t w1) /\ t_res (w_t w1) = Some r1 /\
            ((w_script w = [] -> w_script w1 = []) /\ (Sparse (w_script w) -> NC (w_script w) -> Sparse (w_script w1) /\ NC (w_script w1)))).
  { destruct HG as [[Hs Hto]|(Hs & Hnc & Hto)].
    - destruct (srr_R_clean n x fuel p (x * 1) timeout w HR) as (r1 & w1 & E & A & B & C & D); [rewrite Hs; reflexivity | lia | lia | lia|].
      exists r1, w1. rewrite C, Hs. cbn. repeat split; auto; constructor.
    - destruct (srr_R_sparse n x fuel p timeout w HR Hp Hs Hnc ltac:(lia) ltac:(lia) Hfuel) as (r1 & w1 & E & A & B & C & k & D).
      exists r1, w1. repeat split; auto.
      + intro E0. rewrite D, E0. destruct k; reflexivity.
      + rewrite D. apply NC_skipn. assumption. }
  destruct Hstep as (r1 & w1 & -> & B1 & B2 & T1 & T2).
  assert (HG1 : (w_script w1 = [] /\ 1 <= timeout) \/ (Sparse (w_script w1) /\ NC (w_script w1) /\ 60 <= timeout)).
  { destruct HG as [[Hs Hto]|(Hs & Hnc & Hto)]; [left; auto | right; destruct (T2 Hs Hnc); auto]. }
  destruct (fmt r1 =? F_RTOX) eqn:E1.
  - destruct (IH fuel p r1 timeout w1 B1 B2 ltac:(lia) Hp Hfuel HG1) as (w' & E & A & U1 & U2).
    exists w'. split; [exact E|]. split; [exact A|]. split.
    + intro E0. apply U1, T1, E0.
    + intros Hs Hnc. destruct (T2 Hs Hnc). apply U2; assumption.
  - exists w1. split; [|split; [|split; [exact T1 | exact T2]]].
    + destruct (Rph_facts _ _ B1) as (_ & _ & _ & r0 & Er0 & _ & _ & Hk). rewrite B2 in Er0. injection Er0 as <-.
      destruct Hk as [[-> Hpos]|(x1 & -> & _)]; [reflexivity | cbn in E1; discriminate].
    + destruct (Rph_facts _ _ B1) as (_ & _ & _ & r0 & Er0 & _ & _ & Hk). rewrite B2 in Er0. injection Er0 as <-.
      destruct Hk as [[-> Hpos]|(x1 & -> & _)]; [|cbn in E1; discriminate].
      destruct B1 as [x2 rt A1 A2 A3 A4 A5 A6 A7 A8|A1 A2 A3 A4 A5 A6]; [congruence | apply Rph_send; auto].
Qed.
End Rtox.
End Srr.
