(* C07: dispatch of a decoded PDU is a total transformer of the controller state: no exception leaves
   LogicalLinkController.dispatch and the link thread never waits (no Hang), for every PDU the decoder can produce and
   every well-formed controller state; well-formedness is preserved, so the statement iterates over a whole link. *)
From Coq Require Import ZArith List Bool Lia ZifyBool.
From NV Require Import Base.Result Base.Bytes Base.PyPrims Model.Pdu Proofs.PduTotal Model.Dispatch.
Import ListNotations.
Open Scope Z_scope.

(* ---------------------------------------------------------------- well-formed controller states *)
Definition is_sdp (e : sapent) : bool := match e with SapSdp _ => true | _ => false end.
Definition wf (st : llc) : Prop :=
  length (saps st) = 64%nat /\
  (exists sd, nth_error (saps st) 1 = Some (SapSdp sd)) /\
  (forall k a, name_get k (snl st) = Some a -> 0 <= a < 64).

(* what the decoder can produce: service access point numbers are 6-bit, aggregates are flat *)
Definition flat_ok (q : pdu) : Prop := is_agf q = false /\ 0 <= p_dsap q < 64.
Definition pdu_ok (p : pdu) : Prop :=
  match p with Agf _ _ l => Forall flat_ok l | _ => 0 <= p_dsap p < 64 end.

(* ---------------------------------------------------------------- sockets never fail in the repaired code *)
Lemma dlc_close_not_established s : sstate_eqb (state s) SEstablished = false -> exists s', dlc_close s = Ok s'.
Proof. intro H. unfold dlc_close. rewrite H. cbn [andb]. eexists. reflexivity. Qed.

Lemma dlc_established_ok s p : exists s', dlc_established s p = Ok s'.
Proof.
  unfold dlc_established.
  destruct p; try (eexists; reflexivity).
  (* I *) destruct (len data >? recv_miu s); [eexists; reflexivity|].
  destruct (negb (ns =? recv_cnt s)); eexists; reflexivity.
Qed.

Lemma dlc_enqueue_ok s p : exists s', dlc_enqueue false s p = Ok s'.
Proof.
  unfold dlc_enqueue. destruct (negb (is_dlc_pdu p)).
  - destruct (sstate_eqb (state s) SEstablished) eqn:E; [eexists; reflexivity|].
    destruct (dlc_close_not_established s E) as [s' ->]. cbn [bind]. eexists. reflexivity.
  - destruct (state s); try (eexists; reflexivity).
    + destruct (is_connect p); [|eexists; reflexivity].
      destruct (base_enqueue s p) as [s' ok]. destruct ok; eexists; reflexivity.
    + destruct p; eexists; reflexivity.
    + apply dlc_established_ok.
    + destruct p; eexists; reflexivity.
Qed.

Lemma sock_enqueue_ok s p : exists s', sock_enqueue false s p = Ok s'.
Proof. unfold sock_enqueue. destruct (kind s); try (eexists; reflexivity). apply dlc_enqueue_ok. Qed.

Lemma first_sock_ok test p l : exists r, first_sock test (fun s => sock_enqueue false s p) l = Ok r.
Proof.
  induction l as [|s r IH]; cbn [first_sock]; [eexists; reflexivity|].
  destruct (test s).
  - destruct (sock_enqueue_ok s p) as [s' ->]. cbn [bind]. eexists. reflexivity.
  - destruct IH as [r' ->]. cbn [bind]. eexists. reflexivity.
Qed.

Lemma sap_enqueue_ok socks sl p : exists r, sap_enqueue false socks sl p = Ok r.
Proof.
  unfold sap_enqueue. destruct (is_connect p).
  - destruct (first_sock_ok (fun s => sstate_eqb (state s) SListen) p socks) as [[r|] ->]; cbn [bind]; eexists; reflexivity.
  - destruct (first_sock_ok (peer_matches p) p socks) as [[r|] ->]; cbn [bind]; [eexists; reflexivity|].
    destruct (is_dlc_pdu p); eexists; reflexivity.
Qed.

(* ---------------------------------------------------------------- the table *)
Lemma set_at_length {A} (x : A) : forall l n, length (set_at n x l) = length l.
Proof. induction l as [|h t IH]; intros [|n]; cbn [set_at length]; try reflexivity. now rewrite IH. Qed.
Lemma set_at_same {A} (x : A) : forall l n, (n < length l)%nat -> nth_error (set_at n x l) n = Some x.
Proof. induction l as [|h t IH]; intros [|n]; cbn [set_at length nth_error]; intro H; try lia; [reflexivity | apply IH; lia]. Qed.
Lemma set_at_other {A} (x : A) : forall l n m, n <> m -> nth_error (set_at n x l) m = nth_error l m.
Proof.
  induction l as [|h t IH]; intros [|n] [|m] H; cbn [set_at nth_error]; try reflexivity; try lia. apply IH. lia.
Qed.

Lemma sap_at_ok st i : length (saps st) = 64%nat -> 0 <= i < 64 -> exists e, sap_at st i = Ok e /\ nth_error (saps st) (Z.to_nat i) = Some e.
Proof.
  intros Hl Hi. unfold sap_at. replace (i <? 0) with false by lia.
  destruct (nth_error (saps st) (Z.to_nat i)) as [e|] eqn:E; [eexists; split; reflexivity|].
  apply nth_error_None in E. lia.
Qed.

Lemma with_sap_wf st i e : wf st -> 0 <= i < 64 ->
  (forall e0, nth_error (saps st) (Z.to_nat i) = Some e0 -> is_sdp e0 = true -> is_sdp e = true) -> wf (with_sap st i e).
Proof.
  intros (Hl & (sd & H1) & Hn) Hi Hsd. unfold wf, with_sap. cbn [saps snl]. split; [|split].
  - rewrite set_at_length. exact Hl.
  - destruct (Nat.eq_dec (Z.to_nat i) 1) as [E|E].
    + rewrite E in *. specialize (Hsd _ H1 eq_refl). destruct e; try discriminate.
      eexists. apply set_at_same. lia.
    + rewrite set_at_other by exact E. eexists. exact H1.
  - exact Hn.
Qed.

Lemma deliver_ok st p : wf st -> 0 <= p_dsap p < 64 -> exists st', deliver false st p = Ok st' /\ wf st'.
Proof.
  intros Hwf Hd. pose proof Hwf as (Hl & _ & _). unfold deliver.
  destruct (sap_at_ok st (p_dsap p) Hl Hd) as (e & -> & He). cbn [bind].
  destruct e as [|sd|socks sl].
  - eexists. split; [reflexivity | exact Hwf].
  - eexists. split; [reflexivity|]. apply with_sap_wf; [exact Hwf | exact Hd | reflexivity].
  - destruct (sap_enqueue_ok socks sl p) as [[socks' sl'] ->]. cbn [bind]. eexists. split; [reflexivity|].
    apply with_sap_wf; [exact Hwf | exact Hd|]. intros e0 H0. rewrite He in H0. inversion H0; subst. discriminate.
Qed.

Lemma connect_by_name_ok st ssap miu rw sn : wf st ->
  exists st', connect_by_name false st ssap miu rw sn = Ok st' /\ wf st'.
Proof.
  intro Hwf. pose proof Hwf as (Hl & (sd & H1) & Hn). unfold connect_by_name.
  set (addr := match sn with Some n => name_get n (snl st) | None => None end).
  assert (Ha : forall a, addr = Some a -> 0 <= a < 64).
  { intros a E. unfold addr in E. destruct sn as [n|]; [|discriminate]. eapply Hn, E. }
  assert (Hs1 : sap_at st 1 = Ok (SapSdp sd)).
  { unfold sap_at. cbn [Z.ltb Z.compare]. change (Z.to_nat 1) with 1%nat. rewrite H1. reflexivity. }
  assert (Hdm : forall reason, exists st', (do e1 <- sap_at st 1;
            match e1 with
            | SapSdp sd0 => Ok (with_sap st 1 (SapSdp (mksdp (sd_snl sd0) (sd_sent sd0) (sd_tids sd0) (sd_sdres sd0)
                                                           (sd_dmpdu sd0 ++ [DM ssap 1 reason]))))
            | _ => Crash AttributeErr end) = Ok st' /\ wf st').
  { intro reason. rewrite Hs1. cbn [bind]. eexists. split; [reflexivity|]. apply with_sap_wf; [exact Hwf | lia | reflexivity]. }
  destruct addr as [a|] eqn:Ea.
  - specialize (Ha a eq_refl). destruct (a =? 0) eqn:E0; cbn [bind negb].
    + apply Hdm.
    + destruct (sap_at_ok st a Hl Ha) as (e & -> & He). cbn [bind].
      destruct e; cbn [negb]; try apply Hdm; apply deliver_ok; cbn [p_dsap]; assumption.
  - cbn [bind negb]. apply Hdm.
Qed.

Lemma dispatch_flat st q : wf st -> flat_ok q -> exists st', dispatch false st q = Ok st' /\ wf st'.
Proof.
  intros Hwf [Ha Hd]. destruct q; cbn [is_agf] in Ha; try discriminate; cbn [dispatch];
    try (apply deliver_ok; assumption).
  - eexists. split; [reflexivity | exact Hwf].
  - destruct (dsap =? 1); [apply connect_by_name_ok; exact Hwf | apply deliver_ok; assumption].
Qed.

(* dispatch never crashes and never blocks, and keeps the state well formed *)
Theorem dispatch_total st p : wf st -> pdu_ok p -> exists st', dispatch false st p = Ok st' /\ wf st'.
Proof.
  intros Hwf Hp. destruct p; cbn [pdu_ok] in Hp;
    try (apply dispatch_flat; [exact Hwf | split; [reflexivity | exact Hp]]).
  cbn [dispatch]. destruct ((dsap =? 0) && (ssap =? 0)); [|eexists; split; [reflexivity | exact Hwf]].
  revert st Hwf. induction Hp as [|q r Hq Hr IH]; intros st Hwf.
  - eexists. split; [reflexivity | exact Hwf].
  - destruct (dispatch_flat st q Hwf Hq) as (st1 & -> & Hwf1). cbn [bind]. apply IH, Hwf1.
Qed.

(* ---------------------------------------------------------------- from bytes *)
Lemma flat_valid q : validb (norm q) = true -> is_agf q = false -> 0 <= p_dsap q < 64.
Proof.
  destruct q; cbn [is_agf norm validb p_dsap]; try discriminate; unfold sap_ok, in_range; intros H _; lia.
Qed.
Lemma is_agf_norm q : is_agf (norm q) = is_agf q.
Proof. destruct q; reflexivity. Qed.

Lemma valid_pdu_ok p : valid (norm p) -> pdu_ok p.
Proof.
  unfold valid. destruct p; try (intro H; apply flat_valid; [exact H | reflexivity]).
  cbn [norm validb pdu_ok]. intro H. apply andb_true_iff in H. destruct H as [_ H].
  rewrite forallb_forall in H. apply Forall_forall. intros q Hq.
  specialize (H (norm q) (in_map norm _ _ Hq)). apply andb_true_iff in H. destruct H as [H _].
  apply andb_true_iff in H. destruct H as [Hv Hn]. rewrite is_agf_norm in Hn.
  assert (Ha : is_agf q = false) by (destruct (is_agf q); [discriminate | reflexivity]).
  split; [exact Ha | apply flat_valid; assumption].
Qed.

(* every byte string the peer can send as an LLCP PDU: decoded and dispatched, or an orderly link disruption *)
Theorem receive_total st data : wf st -> bytes_ok data ->
  receive false st data = Ok LinkDisrupted \/ exists st', receive false st data = Ok (Dispatched st') /\ wf st'.
Proof.
  intros Hwf Hb. unfold receive.
  destruct (decode_total data 0 (len data) ltac:(lia) Hb) as [[p Hp] | He].
  - rewrite Hp. right. pose proof (decode_valid data 0 (len data) p ltac:(lia) Hb Hp) as Hv.
    destruct (dispatch_total st p Hwf (valid_pdu_ok p Hv)) as (st' & -> & Hwf'). cbn [bind]. eexists. split; [reflexivity | exact Hwf'].
  - rewrite He. left. reflexivity.
Qed.

(* ---------------------------------------------------------------- the code as it was *)
Definition ex_sock : sock := mksock KDlc SEstablished (Some 32) (Some 16) [] 1 128 [] 0 0 0 0 0 false.
Definition ex_llc : llc :=
  mkllc ([SapSap [] []; SapSdp (mksdp (Some []) [] [] [] [])] ++ repeat SapNone 30 ++ [SapSap [ex_sock] []] ++ repeat SapNone 31) [].
Lemma ex_llc_wf : wf ex_llc.
Proof. split; [reflexivity|]. split; [eexists; reflexivity|]. intros k a H. discriminate. Qed.
(* a UI PDU for the SAP of an established data link connection: the link thread waits for ever *)
Lemma orig_ui_to_dlc_hangs : dispatch true ex_llc (UI 32 16 [1]) = Hang.
Proof. vm_compute. reflexivity. Qed.
Lemma fixed_ui_to_dlc : exists st', dispatch false ex_llc (UI 32 16 [1]) = Ok st'.
Proof. eexists. vm_compute. reflexivity. Qed.
