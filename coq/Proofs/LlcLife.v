(* C09 - the inductive invariant of the LlcLife transition system (repaired code) and the
   theorems over ALL schedules (lists of labels) and any number of threads. *)
From Coq Require Import ZArith List Bool Arith Lia.
From NV Require Import Base.Result Model.LlcLife Proofs.LlcLifeSeg.
Import ListNotations.

(* ---- per-thread, per-object and global parts of the invariant ---------------------------------- *)
Definition thr_ok (g : gstate) (th : thread) : Prop :=
  match ts th with
  | At o p => o < nsk g /\ pk p (kd (sk g o)) = true
              /\ (ptab p (kd (sk g o)) = true -> tabled (sk g o) = true)
              /\ (p = PClose4 -> st (sk g o) = SHUTDOWN)
  | Blocked o c p b => o < nsk g /\ pk p (kd (sk g o)) = true /\ tabled (sk g o) = true
              /\ In c (close_conds (kd (sk g o)))
              /\ (b = false -> st (sk g o) <> SHUTDOWN)      (* blocked => open, or a notification is pending *)
              /\ p <> PClose4
  | _ => True
  end.

Definition sock_ok (g : gstate) (o : nat) : Prop :=
  let s := sk g o in
  (tabled s = true -> intab s = true \/ st s = SHUTDOWN \/ lpc g = LClosing o)
  /\ (kd s = DLC -> live (st s) = true -> tabled s = true)
  /\ (tabled s = false -> bound s = false /\ intab s = false /\ rq s = [])
  /\ (kd s = DLC -> st s = SHUTDOWN -> rq s = [])
  /\ (kd s = SDP -> tabled s = true)
  /\ (nsk g <= o -> s = fresh RAW).

Definition glob_ok (g : gstate) : Prop :=
  var g = Fixed
  /\ (lpc g = LDone -> term g = true /\ llc_held g = false /\ forall o, intab (sk g o) = false)
  /\ (term g = true -> intab (sk g 0) = false)
  /\ (forall o, lpc g = LClosing o -> intab (sk g o) = false /\ o < nsk g)
  /\ (lpc g <> LRun -> lpc g <> LDone -> llc_held g = true)     (* terminate() holds llc.lock throughout *)
  /\ 0 < nsk g.

Definition Inv (g : gstate) : Prop :=
  glob_ok g /\ (forall t, thr_ok g (thr g t)) /\ (forall o, sock_ok g o).

(* ---- small tools -------------------------------------------------------------------------------- *)
Lemma upd_same {A} (f : nat -> A) i x : upd f i x i = x.
Proof. unfold upd. rewrite Nat.eqb_refl. reflexivity. Qed.
Lemma upd_other {A} (f : nat -> A) i x j : j <> i -> upd f i x j = f j.
Proof. unfold upd. intro H. destruct (Nat.eqb_spec j i); [contradiction|reflexivity]. Qed.

Lemma sstate_eqb_eq a b : sstate_eqb a b = true <-> a = b.
Proof. destruct a, b; cbn; split; intro; try reflexivity; discriminate. Qed.
Lemma cond_eqb_eq a b : cond_eqb a b = true <-> a = b.
Proof. destruct a, b; cbn; split; intro; try reflexivity; discriminate. Qed.
Lemma existsb_cond c cs : existsb (cond_eqb c) cs = true <-> In c cs.
Proof. rewrite existsb_exists. split.
  - intros (x & Hx & E). apply cond_eqb_eq in E. subst. assumption.
  - intro H. exists c. split; [assumption|apply cond_eqb_eq; reflexivity]. Qed.

(* what wake_all / wake_one do to one thread: nothing, or "un-notified" becomes "notified" *)
Definition promoted (th th' : thread) : Prop :=
  th' = th \/ exists o c p, ts th = Blocked o c p false /\ th' = set_ts th (Blocked o c p true).

Lemma wake_all_promoted thr o cs t : promoted (thr t) (wake_all thr o cs t).
Proof. unfold wake_all, promoted. destruct (ts (thr t)) as [|? ?|o' c p [|]|?] eqn:E; auto.
  destruct (Nat.eqb o' o && existsb (cond_eqb c) cs); auto. right. exists o', c, p. auto. Qed.

Lemma wake_all_hit thr o cs t c p :
  ts (thr t) = Blocked o c p false -> In c cs -> ts (wake_all thr o cs t) = Blocked o c p true.
Proof. intros E H. unfold wake_all. rewrite E, Nat.eqb_refl. cbn.
  apply existsb_cond in H. rewrite H. reflexivity. Qed.

Lemma wake_one_promoted thr o c w t : promoted (thr t) (wake_one thr o c w t).
Proof. unfold wake_one, promoted. destruct (ts (thr w)) as [|? ?|o' c' p [|]|?] eqn:E; auto.
  destruct (Nat.eqb o' o && cond_eqb c' c); auto.
  destruct (Nat.eq_dec t w) as [->|N]; [rewrite upd_same|rewrite upd_other by assumption; auto].
  right. exists o', c', p. auto. Qed.

Lemma promoted_trans a b c : promoted a b -> promoted b c -> promoted a c.
Proof. unfold promoted. intros [->|(o & cc & p & E & ->)] [->|(o' & c' & p' & E' & ->)]; auto.
  - right. eauto.
  - right. exists o, cc, p. auto.
  - cbn in E'. discriminate. Qed.

(* how one object may change in a step without disturbing the threads that refer to it *)
Definition evolves (s s' : sock) : Prop :=
  kd s' = kd s /\ (tabled s = true -> tabled s' = true) /\ (st s = SHUTDOWN -> st s' = SHUTDOWN).

Lemma evolves_refl s : evolves s s.
Proof. unfold evolves. auto. Qed.

Lemma thr_ok_step g g' th th' :
  thr_ok g th -> nsk g <= nsk g' ->
  (forall o, o < nsk g -> evolves (sk g o) (sk g' o)) ->
  promoted th th' ->
  (forall o c p, ts th' = Blocked o c p false -> st (sk g' o) = SHUTDOWN -> st (sk g o) = SHUTDOWN) ->
  thr_ok g' th'.
Proof.
  intros H Hn Hev Hp Hs. unfold thr_ok in *.
  destruct Hp as [->|(o & c & p & E & ->)].
  - destruct (ts th) as [|o p|o c p b|r] eqn:E; auto.
    + destruct H as (Ho & Hk & Ht & H4). destruct (Hev o Ho) as (Ek & Et & Es). rewrite Ek.
      repeat split; [lia|assumption|auto|auto].
    + destruct H as (Ho & Hk & Ht & Hc & Hb & H4). destruct (Hev o Ho) as (Ek & Et & Es). rewrite Ek.
      repeat split; [lia|assumption|auto|assumption| |assumption].
      intros -> Hsh. apply (Hb eq_refl). eapply Hs; eauto.
  - rewrite E in H. cbn. destruct H as (Ho & Hk & Ht & Hc & Hb & H4). destruct (Hev o Ho) as (Ek & Et & Es). rewrite Ek.
    repeat split; [lia|assumption|auto|assumption|discriminate|assumption].
Qed.

Lemma thr_ok_same_socks g g' th :
  thr_ok g th -> nsk g <= nsk g' -> (forall o, o < nsk g -> sk g' o = sk g o) -> thr_ok g' th.
Proof. intros H Hn He. eapply thr_ok_step; eauto.
  - intros o Ho. rewrite (He o Ho). apply evolves_refl.
  - left; reflexivity.
  - intros o c p E Hs. unfold thr_ok in H. rewrite E in H. destruct H as (Ho & _). rewrite (He o Ho) in Hs. assumption. Qed.

Lemma sock_ok_same g g' o :
  sock_ok g o -> sk g' o = sk g o -> nsk g' = nsk g -> (lpc g = LClosing o -> lpc g' = LClosing o) -> sock_ok g' o.
Proof. unfold sock_ok. intros (A & B & C & D & E & F) Es En El. rewrite Es, En.
  repeat split; auto; try apply C; auto. intro T. destruct (A T) as [H|[H|H]]; auto. Qed.

(* ---- a thread executes one segment ---------------------------------------------------------------- *)
Lemma client_sock_ok g o b : lpc g = lpc g -> sk g o = set_srv client_sock b -> o < nsk g -> sock_ok g o.
Proof. intros _ E Ho. unfold sock_ok. rewrite E. cbn. repeat split; auto; try discriminate. lia. Qed.

Lemma run_seg_inv g t o p orc :
  Inv g -> runnable_point g p = true ->
  (ts (thr g t) = At o p \/ exists c, ts (thr g t) = Blocked o c p true) ->
  Inv (run_seg g t o p orc).
Proof.
  intros (G & T & SS) Hrun Hts.
  destruct G as (Gv & Gd & Gt & Gc & Gh & Gn).
  pose proof (T t) as Tt. pose proof (SS o) as So.
  set (s := sk g o) in *. 
  assert (Ho : o < nsk g /\ pk p (kd s) = true /\ (ptab p (kd s) = true -> tabled s = true)
               /\ (p = PClose4 -> st s = SHUTDOWN)).
  { unfold thr_ok in Tt. destruct Hts as [E|(c & E)]; rewrite E in Tt.
    - exact Tt.
    - destruct Tt as (A & B & C & D & _ & F). repeat split; auto. intro; contradiction. }
  destruct Ho as (Ho & Hk & Hp & H4).
  destruct So as (SA & SB & SC & SD & SE & SF). fold s in SA, SB, SC, SD, SE, SF.
  unfold run_seg. rewrite Gv. fold s.
  set (r := seg Fixed p s (term g) orc).
  pose proof (seg_kd Fixed p s (term g) orc) as Rk. fold r in Rk.
  assert (Rev : evolves s (o_sock r)).
  { unfold evolves. split; [exact Rk|]. split; [apply seg_tabled|].
    intro Hs. apply seg_absorb; auto. }
  (* the threads other than t *)
  assert (Tothers : forall sk' nsk' g', nsk g <= nsk' -> sk g' = sk' -> nsk g' = nsk' ->
            (forall o', o' < nsk g -> o' <> o -> sk' o' = sk g o') -> sk' o = o_sock r ->
            forall t', thr_ok g' (wake_all (thr g) o (o_nall r) t')).
  { intros sk' nsk' g' Hn Esk Ens Hoth Hself t'.
    eapply thr_ok_step; [apply (T t')|lia| |apply wake_all_promoted|].
    - intros o' Ho'. rewrite Esk. destruct (Nat.eq_dec o' o) as [->|N]; [rewrite Hself; exact Rev|].
      rewrite Hoth by assumption. apply evolves_refl.
    - intros o' c q E Hs.
      assert (Eold : ts (thr g t') = Blocked o' c q false).
      { destruct (wake_all_promoted (thr g) o (o_nall r) t') as [Eq|(o2 & c2 & p2 & E2 & Eq)]; rewrite Eq in E; [exact E|].
        cbn in E. discriminate. }
      pose proof (T t') as Tt'. unfold thr_ok in Tt'. rewrite Eold in Tt'.
      destruct Tt' as (Ho' & _ & _ & Hc & _ & _).
      rewrite Esk in Hs. destruct (Nat.eq_dec o' o) as [->|N]; [|rewrite Hoth in Hs by assumption; exact Hs].
      rewrite Hself in Hs. destruct (sstate_eqb (st s) SHUTDOWN) eqn:Es.
      + apply sstate_eqb_eq in Es. exact Es.
      + exfalso. assert (Hne : st s <> SHUTDOWN) by (intro X; apply sstate_eqb_eq in X; rewrite X in Es; discriminate).
        pose proof (seg_shut_notifies p s (term g) orc Hne Hs) as Hn'. fold r in Hn'.
        fold s in Hc. rewrite <- Hn' in Hc.
        rewrite (wake_all_hit _ _ _ _ _ _ Eold Hc) in E. discriminate. }
  (* the object o after the segment *)
  assert (Sself : forall g', sk g' o = o_sock r -> nsk g <= nsk g' -> lpc g' = lpc g -> sock_ok g' o).
  { intros g' Es Hn El. unfold sock_ok. rewrite Es, El.
    split; [|split; [|split; [|split; [|split]]]].
    - intro Ht. destruct (lpc g) eqn:El'; try (destruct (Nat.eq_dec o0 o) as [->|N]; [right; right; reflexivity|]);
        (destruct (seg_tab_rel p s (term g) orc H4 SD Hk) as [X|X]; [|exact Ht|left; exact X|right; left; exact X];
         intro Hts'; destruct (SA Hts') as [X|[X|X]]; auto; try discriminate; inversion X; congruence).
    - intros Hd Hl. rewrite Rk in Hd. apply (seg_dlc_live p s (term g) orc Hp SB SE SC Hk Hd Hl).
    - apply (seg_untabled p s (term g) orc Hp SB SE SC Hk).
    - intros Hd. rewrite Rk in Hd. apply seg_shutq; auto.
    - apply seg_sdp_tabled. exact SE.
    - intro. lia. }
  assert (Sother : forall g' o', o' <> o -> sk g' o' = sk g o' -> nsk g' = nsk g -> lpc g' = lpc g -> sock_ok g' o').
  { intros g' o' N Es En El. apply (sock_ok_same g g' o' (SS o') Es En). rewrite El. auto. }
  assert (Hintab : lpc g = LDone \/ (forall o', lpc g = LClosing o') -> True) by auto.
  (* global part, shared by all cases that do not allocate *)
  assert (Gsame : forall thr', glob_ok (mkG Fixed (upd (sk g) o (o_sock r)) (nsk g) thr' (term g) (llc_held g) (lpc g))).
  { intro thr'. unfold glob_ok. cbn.
    split; [reflexivity|]. split; [|split; [|split; [|split]]]; auto.
    - intro Hd. destruct (Gd Hd) as (Ht & Hh & Hi). repeat split; auto.
      intro o'. destruct (Nat.eq_dec o' o) as [->|N]; [rewrite upd_same|rewrite upd_other by assumption; apply Hi].
      subst r. rewrite Ht. apply seg_term_intab. apply Hi.
    - intro Ht. destruct (Nat.eq_dec 0 o) as [<-|N]; [rewrite upd_same|rewrite upd_other by assumption; auto].
      subst r. rewrite Ht. apply seg_term_intab. subst s. auto.
    - intros o' El. destruct (Gc o' El) as (Gc1 & Gc2). split; [|exact Gc2].
      destruct (Nat.eq_dec o' o) as [->|N]; [rewrite upd_same|rewrite upd_other by assumption; auto].
      apply seg_intab_false; [subst s; auto|auto|].
      unfold runnable_point in Hrun. rewrite (Gh ltac:(congruence) ltac:(congruence)) in Hrun.
      destruct (needs_llc_lock p); [discriminate|reflexivity]. }
  destruct (o_act r) as [q|c q|x|snew] eqn:Ea.
  - (* AGoto *)
    split; [apply Gsame|]. split.
    + intro t'. cbn. destruct (Nat.eq_dec t' t) as [->|N]; [rewrite upd_same|rewrite upd_other by assumption].
      * unfold thr_ok. cbn. rewrite upd_same. rewrite Rk.
        split; [exact Ho|]. split; [|split].
        -- pose proof (seg_next_pk p s (term g) orc Hk) as X. fold r in X. rewrite Ea in X. exact X.
        -- intro Hq. apply (seg_goto_ptab p s (term g) orc Hp SB SE SC Hk q Ea Hq).
        -- intros ->. apply (seg_goto_close4 p s (term g) orc Ea).
      * eapply (Tothers _ (nsk g)); cbn; try reflexivity; auto.
        -- intros; apply upd_other; assumption.
        -- apply upd_same.
    + intro o'. destruct (Nat.eq_dec o' o) as [->|N].
      * apply Sself; cbn; auto. apply upd_same.
      * apply Sother; cbn; auto. apply upd_other; assumption.
  - (* AWait *)
    split; [apply Gsame|]. split.
    + intro t'. cbn. destruct (Nat.eq_dec t' t) as [->|N]; [rewrite upd_same|rewrite upd_other by assumption].
      * unfold thr_ok. cbn. rewrite upd_same. rewrite Rk.
        split; [exact Ho|]. split; [|split; [|split; [|split]]].
        -- pose proof (seg_next_pk p s (term g) orc Hk) as X. fold r in X. rewrite Ea in X. exact X.
        -- apply (seg_wait_tabled p s (term g) orc Hp SB SE SC Hk c q Ea).
        -- apply (seg_wait_cond p s (term g) orc c q Hk Ea).
        -- intros _. apply (seg_wait_open p s (term g) orc c q Ea).
        -- apply (seg_wait_not_close4 Fixed p s (term g) orc c q Ea).
      * eapply (Tothers _ (nsk g)); cbn; try reflexivity; auto.
        -- intros; apply upd_other; assumption.
        -- apply upd_same.
    + intro o'. destruct (Nat.eq_dec o' o) as [->|N].
      * apply Sself; cbn; auto. apply upd_same.
      * apply Sother; cbn; auto. apply upd_other; assumption.
  - (* ARet *)
    split; [apply Gsame|]. split.
    + intro t'. cbn. destruct (Nat.eq_dec t' t) as [->|N]; [rewrite upd_same|rewrite upd_other by assumption].
      * unfold thr_ok. cbn. exact I.
      * eapply (Tothers _ (nsk g)); cbn; try reflexivity; auto.
        -- intros; apply upd_other; assumption.
        -- apply upd_same.
    + intro o'. destruct (Nat.eq_dec o' o) as [->|N].
      * apply Sself; cbn; auto. apply upd_same.
      * apply Sother; cbn; auto. apply upd_other; assumption.
  - (* AAlloc: only PAcc3, the new socket is the accepted connection *)
    pose proof (seg_alloc p s (term g) orc snew Ea) as ->.
    assert (Hnt : term g = false \/ lpc g <> LDone).
    { destruct (term g) eqn:Et; [right|left; reflexivity]. intro Hd.
      destruct (Gd Hd) as (_ & _ & Hi). 
      destruct (seg_term_intab p s orc (Hi o)) as (_ & X). apply (X client_sock). subst r. exact Ea. }
    assert (Hnn : o <> nsk g) by lia.
    split.
    + unfold glob_ok. cbn. split; [reflexivity|]. split; [|split; [|split; [|split]]]; auto; try lia.
      * intro Hd. exfalso. destruct (Gd Hd) as (Ht & _ & Hi).
        destruct (seg_term_intab p s orc (Hi o)) as (_ & X). apply (X client_sock). subst r. rewrite Ht in Ea. exact Ea.
      * intro Ht. rewrite upd_other by lia.
        destruct (Nat.eq_dec 0 o) as [<-|N]; [rewrite upd_same|rewrite upd_other by assumption; auto].
        subst r. rewrite Ht. apply seg_term_intab. subst s. auto.
      * intros o' El. exfalso.
        (* PAcc3 needs llc.lock, which terminate() holds while it closes a socket *)
        unfold runnable_point in Hrun. rewrite (Gh ltac:(congruence) ltac:(congruence)) in Hrun.
        assert (needs_llc_lock p = true).
        { clear - Ea. subst r. destruct s as [k x b i tb q0 n rb sb sl ak sv]. brk.
          cbn [kd st bound intab tabled rq sq rbuf sbuf slots acks srv] in Ea.
          destruct p; try reflexivity; exfalso; revert Ea; dm; cbn; discriminate. }
        rewrite H in Hrun. discriminate.
    + split.
      * intro t'. cbn. destruct (Nat.eq_dec t' t) as [->|N]; [rewrite upd_same|rewrite upd_other by assumption].
        -- unfold thr_ok. cbn. exact I.
        -- eapply (Tothers _ (S (nsk g))); cbn; try reflexivity; auto.
           ++ intros o' Ho' N'. rewrite upd_other by lia. apply upd_other; assumption.
           ++ rewrite upd_other by assumption. apply upd_same.
      * intro o'. destruct (Nat.eq_dec o' (nsk g)) as [->|N1].
        -- eapply client_sock_ok; cbn; auto. apply upd_same.
        -- destruct (Nat.eq_dec o' o) as [->|N].
           ++ apply Sself; cbn; auto. rewrite upd_other by assumption. apply upd_same.
           ++ unfold sock_ok. cbn. rewrite upd_other by assumption. rewrite upd_other by assumption.
              destruct (SS o') as (A & B & C & D & E & F). repeat split; auto; try apply C; auto.
              intro. apply F. lia.
Qed.

(* ---- steps that change at most one object and only promote / re-establish threads ------------------ *)
Lemma frame_inv g g' o :
  Inv g -> nsk g' = nsk g -> o < nsk g ->
  (forall o', o' <> o -> sk g' o' = sk g o') ->
  evolves (sk g o) (sk g' o) ->
  (forall t, promoted (thr g t) (thr g' t) \/ thr_ok g' (thr g' t)) ->
  (st (sk g o) <> SHUTDOWN -> st (sk g' o) = SHUTDOWN ->
   forall t c p, promoted (thr g t) (thr g' t) -> ts (thr g' t) = Blocked o c p false -> False) ->
  sock_ok g' o ->
  (forall o', o' <> o -> lpc g = LClosing o' -> lpc g' = LClosing o') ->
  glob_ok g' ->
  Inv g'.
Proof.
  intros (G & T & SS) En Ho Hoth Hev Hthr Hwake Hso Hl G'.
  split; [exact G'|]. split.
  - intro t. destruct (Hthr t) as [Hp|Hok]; [|exact Hok].
    eapply thr_ok_step; [apply (T t)|lia| |exact Hp|].
    + intros o' Ho'. destruct (Nat.eq_dec o' o) as [->|N]; [exact Hev|]. rewrite Hoth by assumption. apply evolves_refl.
    + intros o' c p E Hs. destruct (Nat.eq_dec o' o) as [->|N]; [|rewrite Hoth in Hs by assumption; exact Hs].
      destruct (sstate_eqb (st (sk g o)) SHUTDOWN) eqn:Es; [apply sstate_eqb_eq in Es; exact Es|].
      exfalso. eapply Hwake; eauto. intro X. apply sstate_eqb_eq in X. congruence.
  - intro o'. destruct (Nat.eq_dec o' o) as [->|N]; [exact Hso|].
    destruct (SS o') as (A & B & C & D & E & F). unfold sock_ok. rewrite (Hoth o' N), En.
    repeat split; auto; try apply C; auto. intro X. destruct (A X) as [Y|[Y|Y]]; auto.
Qed.

Lemma promoted_refl th : promoted th th.
Proof. left; reflexivity. Qed.

(* closing an object: queues cleared, SHUTDOWN, every condition of that kind notified *)
Lemma close_inv g o s1 term' held' lpc' :
  Inv g -> o < nsk g ->
  kd s1 = kd (sk g o) -> tabled s1 = tabled (sk g o) -> intab s1 = false \/ intab s1 = intab (sk g o) ->
  (tabled s1 = false -> bound s1 = false /\ intab s1 = false) ->
  (forall o', o' <> o -> lpc g = LClosing o' -> lpc' = LClosing o') ->
  glob_ok (mkG (var g) (upd (sk g) o (tco_close s1)) (nsk g) (wake_all (thr g) o (close_conds (kd s1))) term' held' lpc') ->
  Inv (mkG (var g) (upd (sk g) o (tco_close s1)) (nsk g) (wake_all (thr g) o (close_conds (kd s1))) term' held' lpc').
Proof.
  intros HI Ho Ek Et Ei Hu Hl G'. pose proof HI as (G & T & SS).
  apply (frame_inv g _ o HI); cbn.
  - reflexivity.
  - exact Ho.
  - intros o' N. apply upd_other; assumption.
  - rewrite upd_same. unfold evolves, tco_close. cbn. rewrite Ek, Et. auto.
  - intro t. left. apply wake_all_promoted.
  - rewrite upd_same. intros Hne _ t c p Hp E.
    assert (Eold : ts (thr g t) = Blocked o c p false).
    { destruct (wake_all_promoted (thr g) o (close_conds (kd s1)) t) as [Eq|(o2 & c2 & p2 & E2 & Eq)]; rewrite Eq in E; [exact E|].
      cbn in E. discriminate. }
    pose proof (T t) as Tt. unfold thr_ok in Tt. rewrite Eold in Tt. destruct Tt as (_ & _ & _ & Hc & _).
    rewrite <- Ek in Hc. rewrite (wake_all_hit _ _ _ _ _ _ Eold Hc) in E. discriminate.
  - destruct (SS o) as (A & B & C & D & E & F). unfold sock_ok. cbn. rewrite upd_same. unfold tco_close. cbn.
    split; [intro; right; left; reflexivity|]. split; [intros; discriminate|].
    split; [intro H; destruct (Hu H); auto|]. split; [auto|].
    split; [intro H; rewrite Et; apply E; congruence|intro; lia].
  - exact Hl.
  - exact G'.
Qed.

Lemma close_inv_sq g o s1 n term' held' lpc' :
  Inv g -> o < nsk g ->
  kd s1 = kd (sk g o) -> tabled s1 = tabled (sk g o) -> intab s1 = false \/ intab s1 = intab (sk g o) ->
  (tabled s1 = false -> bound s1 = false /\ intab s1 = false) ->
  (forall o', o' <> o -> lpc g = LClosing o' -> lpc' = LClosing o') ->
  glob_ok (mkG (var g) (upd (sk g) o (set_sq (tco_close s1) n)) (nsk g) (wake_all (thr g) o (close_conds (kd s1))) term' held' lpc') ->
  Inv (mkG (var g) (upd (sk g) o (set_sq (tco_close s1) n)) (nsk g) (wake_all (thr g) o (close_conds (kd s1))) term' held' lpc').
Proof.
  intros HI Ho Ek Et Ei Hu Hl G'. pose proof HI as (G & T & SS).
  apply (frame_inv g _ o HI); cbn.
  - reflexivity.
  - exact Ho.
  - intros o' N. apply upd_other; assumption.
  - rewrite upd_same. unfold evolves, tco_close, set_sq. cbn. rewrite Ek, Et. auto.
  - intro t. left. apply wake_all_promoted.
  - rewrite upd_same. intros Hne _ t c p Hp E.
    assert (Eold : ts (thr g t) = Blocked o c p false).
    { destruct (wake_all_promoted (thr g) o (close_conds (kd s1)) t) as [Eq|(o2 & c2 & p2 & E2 & Eq)]; rewrite Eq in E; [exact E|].
      cbn in E. discriminate. }
    pose proof (T t) as Tt. unfold thr_ok in Tt. rewrite Eold in Tt. destruct Tt as (_ & _ & _ & Hc & _).
    rewrite <- Ek in Hc. rewrite (wake_all_hit _ _ _ _ _ _ Eold Hc) in E. discriminate.
  - destruct (SS o) as (A & B & C & D & E & F). unfold sock_ok. cbn. rewrite upd_same. unfold tco_close, set_sq. cbn.
    split; [intro; right; left; reflexivity|]. split; [intros; discriminate|].
    split; [intro H; destruct (Hu H); auto|]. split; [auto|].
    split; [intro H; rewrite Et; apply E; congruence|intro; lia].
  - exact Hl.
  - exact G'.
Qed.

Ltac inv_same g :=
  match goal with
  | HI : Inv g |- Inv g => exact HI
  end.

Lemma glob_ok_thr g thr' :
  glob_ok g -> glob_ok (mkG (var g) (sk g) (nsk g) thr' (term g) (llc_held g) (lpc g)).
Proof. unfold glob_ok. cbn. auto. Qed.

(* only threads change (promotion, or a state that is established afresh) *)
Lemma threads_inv g thr' :
  Inv g -> (forall t, promoted (thr g t) (thr' t) \/ thr_ok g (thr' t)) ->
  Inv (mkG (var g) (sk g) (nsk g) thr' (term g) (llc_held g) (lpc g)).
Proof.
  intros HI Ht. pose proof HI as (G & T & SS). destruct G as (Gv & Gd & Gt & Gc & Gh & Gn).
  apply (frame_inv g _ 0 HI); cbn.
  - reflexivity.
  - exact Gn.
  - reflexivity.
  - apply evolves_refl.
  - intro t. destruct (Ht t) as [H|H]; [left; exact H|right].
    unfold thr_ok in *. cbn. exact H.
  - intros Hne Hs. contradiction.
  - destruct (SS 0) as (A & B & C & D & E & F). unfold sock_ok. cbn. repeat split; auto; apply C; auto.
  - auto.
  - unfold glob_ok. cbn. auto 10.
Qed.

(* an object changes without being shut, without entering the table, threads are promoted *)
Lemma data_inv g o s' thr' :
  Inv g -> o < nsk g -> intab (sk g o) = true ->
  kd s' = kd (sk g o) -> tabled s' = tabled (sk g o) -> intab s' = intab (sk g o) -> bound s' = bound (sk g o) ->
  (st s' = st (sk g o) \/ (st (sk g o) = ESTABLISHED /\ st s' = CLOSE_WAIT)) ->
  (kd s' = DLC -> st s' = SHUTDOWN -> rq s' = []) ->
  (forall t, promoted (thr g t) (thr' t)) ->
  Inv (on_sock g o s' thr').
Proof.
  intros HI Ho Hi Ek Et Ei Eb Es Hq Hp. pose proof HI as (G & T & SS). destruct G as (Gv & Gd & Gt & Gc & Gh & Gn).
  destruct (SS o) as (A & B & C & D & E & F).
  assert (Htab : tabled (sk g o) = true).
  { destruct (tabled (sk g o)) eqn:X; [reflexivity|]. destruct (C eq_refl) as (_ & Y & _). congruence. }
  unfold on_sock. apply (frame_inv g _ o HI); cbn.
  - reflexivity.
  - exact Ho.
  - intros o' N. apply upd_other; assumption.
  - rewrite upd_same. unfold evolves. rewrite Ek, Et. split; [reflexivity|]. split; [auto|].
    intro X. destruct Es as [->|(Y & _)]; [exact X|congruence].
  - intro t. left. apply Hp.
  - rewrite upd_same. intros Hne Hs. exfalso. destruct Es as [Y|(_ & Y)]; congruence.
  - unfold sock_ok. cbn. rewrite upd_same.
    split; [intro; left; congruence|]. split; [intros; congruence|].
    split; [intro; congruence|]. split; [exact Hq|]. split; [intro; congruence|intro; lia].
  - auto.
  - unfold glob_ok. cbn. split; [exact Gv|]. split; [|split; [|split; [|split]]]; auto.
    + intro Hd. destruct (Gd Hd) as (X & Y & Z). rewrite Z in Hi. discriminate.
    + intro X. destruct (Nat.eq_dec 0 o) as [<-|N]; [rewrite upd_same; rewrite Ei; auto|rewrite upd_other by assumption; auto].
    + intros o' X. destruct (Gc o' X) as (Gc1 & Gc2). split; [|exact Gc2].
      destruct (Nat.eq_dec o' o) as [->|N]; [rewrite upd_same; rewrite Ei; auto|rewrite upd_other by assumption; auto].
Qed.

Definition item_is_other (x : item) : bool := match x with IOTHER => true | _ => false end.

(* ---- every label preserves the invariant ------------------------------------------------------------ *)
Lemma fresh_thread_ok g o p md :
  ref_ok g o p = true -> (forall k, ptab p k = false) -> p <> PClose4 -> thr_ok g (mkThread (At o p) md).
Proof. unfold ref_ok, thr_ok. cbn. intros H Hp H4. apply andb_true_iff in H. destruct H as (A & B).
  apply Nat.ltb_lt in A. repeat split; auto; [rewrite Hp; discriminate|intro; contradiction]. Qed.

Lemma goto_call_inv g t o p md r :
  Inv g -> (forall k, ptab p k = false) -> p <> PClose4 -> Inv (goto_call g t o p md r).
Proof. intros HI Hp H4. unfold goto_call, with_thr.
  destruct (ref_ok g o p) eqn:E; apply threads_inv; auto; intro t';
    (destruct (Nat.eq_dec t' t) as [->|N]; [rewrite upd_same; right|rewrite upd_other by assumption; left; apply promoted_refl]).
  - apply fresh_thread_ok; auto.
  - exact I. Qed.

Lemma entry_facts op o p : entry op = Some (o, p) -> (forall k, ptab p k = false) /\ p <> PClose4.
Proof. destruct op; cbn; intro H; inversion H; subst; split; intros; try reflexivity; discriminate. Qed.

Lemma alloc_inv g t k x :
  Inv g -> k <> SDP ->
  Inv (mkG (var g) (upd (sk g) (nsk g) (fresh k)) (S (nsk g)) (upd (thr g) t (set_ts (thr g t) (Done x)))
           (term g) (llc_held g) (lpc g)).
Proof.
  intros (G & T & SS) Hk. destruct G as (Gv & Gd & Gt & Gc & Gh & Gn).
  split; [|split].
  - unfold glob_ok. cbn. split; [exact Gv|]. split; [|split; [|split; [|split]]]; auto; try lia.
    + intro Hd. destruct (Gd Hd) as (X & Y & Z). repeat split; auto. intro o.
      destruct (Nat.eq_dec o (nsk g)) as [->|N]; [rewrite upd_same; reflexivity|rewrite upd_other by assumption; auto].
    + intro X. rewrite upd_other by lia. auto.
    + intros o X. destruct (Gc o X) as (Gc1 & Gc2). split; [|lia]. rewrite upd_other by lia. exact Gc1.
  - intro t'. cbn. destruct (Nat.eq_dec t' t) as [->|N]; [rewrite upd_same; exact I|rewrite upd_other by assumption].
    eapply thr_ok_same_socks; [apply (T t')|cbn; lia|]. intros o Ho. cbn. apply upd_other. lia.
  - intro o. unfold sock_ok. cbn. destruct (Nat.eq_dec o (nsk g)) as [->|N]; [rewrite upd_same|rewrite upd_other by assumption].
    + destruct k; try contradiction; cbn; repeat split; auto; try discriminate; intro; lia.
    + destruct (SS o) as (A & B & C & D & E & F). repeat split; auto; try apply C; auto. intro. apply F. lia.
Qed.

Lemma ctl_inv g term' held' lpc' :
  Inv g -> (forall o, lpc g <> LClosing o) ->
  glob_ok (mkG (var g) (sk g) (nsk g) (thr g) term' held' lpc') ->
  Inv (mkG (var g) (sk g) (nsk g) (thr g) term' held' lpc').
Proof.
  intros HI Hl G'. pose proof HI as (G & T & SS). destruct G as (Gv & Gd & Gt & Gc & Gh & Gn).
  apply (frame_inv g _ 0 HI); cbn.
  - reflexivity.
  - exact Gn.
  - reflexivity.
  - apply evolves_refl.
  - intro t. left. apply promoted_refl.
  - intros Hne Hs. contradiction.
  - destruct (SS 0) as (A & B & C & D & E & F). unfold sock_ok. cbn. repeat split; auto; try apply C; auto.
    intro X. destruct (A X) as [Y|[Y|Y]]; auto. exfalso. apply (Hl 0 Y).
  - intros o' _ X. exfalso. apply (Hl o' X).
  - exact G'.
Qed.

Lemma wake_promoted_all thr o cs : forall t, promoted (thr t) (wake_all thr o cs t).
Proof. intro; apply wake_all_promoted. Qed.
Lemma wake1_promoted_all thr o c w : forall t, promoted (thr t) (wake_one thr o c w t).
Proof. intro; apply wake_one_promoted. Qed.

Lemma step_inv g l : Inv g -> Inv (step g l).
Proof.
  intro HI. pose proof HI as (G & T & SS). destruct G as (Gv & Gd & Gt & Gc & Gh & Gn).
  destruct l as [t op|t orc|t w|o x w|o d w|o n w|o| |t| |o| | |]; cbn [step].
  - (* TIssue *)
    destruct (ts (thr g t)) eqn:Ets; try exact HI. destruct (mode (thr g t)) eqn:Emd; try exact HI.
    destruct op as [o|o e|o dw|o|o|o|o|o| |k|ls];
      try (match goal with
           | |- Inv (match entry ?op with _ => _ end) =>
               destruct (entry op) as [[o' p']|] eqn:Een; [|exact HI];
               destruct (ref_ok g o' p') eqn:Er; [|exact HI];
               destruct (negb (srv (sk g o'))); [|exact HI]; cbn [andb];
               destruct (entry_facts _ _ _ Een) as (Hp & H4);
               unfold with_thr; apply threads_inv; auto; intro t';
               (destruct (Nat.eq_dec t' t) as [->|N];
                [rewrite upd_same; right; apply fresh_thread_ok; auto|rewrite upd_other by assumption; left; apply promoted_refl])
           end).
    + (* ONew *) destruct k; try exact HI; apply alloc_inv; auto; discriminate.
    + (* OServer *) destruct (ref_ok g ls PAcc1) eqn:Er; [|exact HI].
      destruct (negb (srv (sk g ls))); [|exact HI]. cbn [andb].
      unfold with_thr. apply threads_inv; auto. intro t'.
      destruct (Nat.eq_dec t' t) as [->|N]; [rewrite upd_same; right|rewrite upd_other by assumption; left; apply promoted_refl].
      apply fresh_thread_ok; auto; discriminate.
  - (* TRun *)
    destruct (ts (thr g t)) as [|o p|o c p [|]|r] eqn:Ets; try exact HI;
      (destruct (runnable_point g p) eqn:Er; [|exact HI]); apply run_seg_inv; auto;
      try (left; exact Ets); try (right; exists c; exact Ets).
  - (* TNext *)
    destruct (ts (thr g t)) as [|o p|o c p b|r] eqn:Ets; try exact HI.
    unfold next_of. destruct (mode (thr g t)) as [|ls|c ph|o how|how] eqn:Emd.
    + unfold with_thr. apply threads_inv; auto. intro t'.
      destruct (Nat.eq_dec t' t) as [->|N]; [rewrite upd_same; right; exact I|rewrite upd_other by assumption; left; apply promoted_refl].
    + destruct r as [[| | |c|]|[]|c|]; try (apply goto_call_inv; auto; intros; try reflexivity; discriminate).
      destruct (is_free g w t) eqn:Ef; [|exact HI].
      destruct (ref_ok g c (PPoll0 PollRecv) && ref_ok g ls PAcc1) eqn:Er; unfold with_thr; apply threads_inv; auto; intro t'.
      * apply andb_true_iff in Er. destruct Er as (R1 & R2).
        destruct (Nat.eq_dec t' w) as [->|N]; [rewrite upd_same; right; apply fresh_thread_ok; auto; discriminate|].
        rewrite upd_other by assumption.
        destruct (Nat.eq_dec t' t) as [->|N']; [rewrite upd_same; right; apply fresh_thread_ok; auto; discriminate|].
        rewrite upd_other by assumption. left; apply promoted_refl.
      * destruct (Nat.eq_dec t' t) as [->|N]; [rewrite upd_same; right; exact I|rewrite upd_other by assumption; left; apply promoted_refl].
    + destruct r as [[|[|]| |c'|]|[]|c'|]; try destruct ph as [|[|ph]];
        apply goto_call_inv; auto; intros; try reflexivity; discriminate.
    + unfold with_thr. apply threads_inv; auto. intro t'.
      destruct (Nat.eq_dec t' t) as [->|N]; [rewrite upd_same; right; exact I|rewrite upd_other by assumption; left; apply promoted_refl].
    + exact HI.
  - (* LEnq *)
    destruct (is_run (lpc g) && intab (sk g o) && Nat.ltb o (nsk g)) eqn:Hc; [|exact HI].
    apply andb_true_iff in Hc. destruct Hc as (Hc & Hlt). apply andb_true_iff in Hc. destruct Hc as (Hr & Hi).
    apply Nat.ltb_lt in Hlt.
    destruct (SS o) as (A & B & C & D & E & F).
    destruct (kd (sk g o)) eqn:Ek; try exact HI.
    + destruct (Nat.ltb (length (rq (sk g o))) (rbuf (sk g o))); [|exact HI].
      apply data_inv; auto; cbn; auto using wake1_promoted_all. congruence.
    + destruct (Nat.ltb (length (rq (sk g o))) (rbuf (sk g o))); [|exact HI].
      apply data_inv; auto; cbn; auto using wake1_promoted_all. congruence.
    + destruct (item_is_other x) eqn:Eoth.
      { destruct x; try discriminate.
        assert (Hclose : Inv (on_sock g o (set_sq (tco_close (sk g o)) 1) (wake_all (thr g) o (close_conds DLC)))).
        { unfold on_sock. rewrite <- Ek. apply close_inv_sq; auto.
          - intro X. destruct (C X) as (_ & Y & _). congruence.
          - unfold glob_ok. cbn. split; [exact Gv|]. destruct (lpc g); try discriminate.
            split; [discriminate|]. split; [|split; [|split]]; auto; try discriminate; try (intros; contradiction).
            intro X. destruct (Nat.eq_dec 0 o) as [<-|N]; [rewrite upd_same; cbn; auto|rewrite upd_other by assumption; auto]. }
        destruct (st (sk g o)) eqn:Est; try exact Hclose.
        apply data_inv; auto; cbn; auto using promoted_refl; try (intros _ X; congruence); try (intros; apply promoted_refl). }
      destruct (st (sk g o)) eqn:Est; destruct x; try discriminate; try exact HI;
        try (destruct (Nat.ltb (length (rq (sk g o))) (rbuf (sk g o))));
        try exact HI; apply data_inv; auto; cbn; auto using wake1_promoted_all, promoted_refl;
        try (intros _ X; congruence); try (left; exact Est).
      all: try (right; split; [exact Est|reflexivity]).
      all: try (intros; apply promoted_refl).
  - (* LDeq *)
    destruct (is_run (lpc g) && intab (sk g o) && Nat.ltb o (nsk g) && Nat.ltb 0 (sq (sk g o))) eqn:Hc; [|exact HI].
    apply andb_true_iff in Hc. destruct Hc as (Hc & _). apply andb_true_iff in Hc. destruct Hc as (Hc & Hlt).
    apply andb_true_iff in Hc. destruct Hc as (Hr & Hi). apply Nat.ltb_lt in Hlt.
    destruct (SS o) as (A & B & C & D & E & F).
    assert (Hfr : kd (sk g o) = DLC -> Inv (on_sock g o (tco_close (sk g o)) (wake_all (thr g) o (close_conds DLC)))).
    { intro Ek. unfold on_sock. rewrite <- Ek. apply close_inv; auto.
      - intro X. destruct (C X) as (_ & Y & _). congruence.
      - unfold glob_ok. cbn. split; [exact Gv|]. destruct (lpc g); try discriminate.
        split; [discriminate|]. split; [|split; [|split]]; auto; try discriminate; try (intros; contradiction).
        intro X. destruct (Nat.eq_dec 0 o) as [<-|N]; [rewrite upd_same; cbn; auto|rewrite upd_other by assumption; auto]. }
    destruct (kd (sk g o)) eqn:Ek; destruct d; try (apply Hfr; reflexivity); try (destruct (is_est (sk g o))); try (destruct (sstate_eqb (st (sk g o)) CLOSE_WAIT) eqn:Ecw);
      apply data_inv; auto; cbn; auto using wake1_promoted_all, promoted_refl; try congruence;
      try (intros; apply promoted_refl).
    all: try (intros _ X; apply sstate_eqb_eq in Ecw; congruence).
    all: try (intro t'; eapply promoted_trans; [apply wake_one_promoted|apply wake_all_promoted]).
  - (* LAck *)
    destruct (is_run (lpc g) && intab (sk g o) && Nat.ltb o (nsk g) && is_est (sk g o) && Nat.ltb 0 n) eqn:Hc; [|exact HI].
    apply andb_true_iff in Hc. destruct Hc as (Hc & _). apply andb_true_iff in Hc. destruct Hc as (Hc & Hes).
    apply andb_true_iff in Hc. destruct Hc as (Hc & Hlt). apply andb_true_iff in Hc. destruct Hc as (_ & Hi).
    apply Nat.ltb_lt in Hlt. unfold is_est in Hes. apply sstate_eqb_eq in Hes.
    destruct (kd (sk g o)) eqn:Ek; try exact HI.
    apply data_inv; auto; cbn; auto; try congruence.
    intro t'. eapply promoted_trans; [apply wake_all_promoted|apply wake_one_promoted].
  - (* LFrmr *)
    destruct (is_run (lpc g) && intab (sk g o) && Nat.ltb o (nsk g) && is_est (sk g o)) eqn:Hc; [|exact HI].
    apply andb_true_iff in Hc. destruct Hc as (Hc & Hes). apply andb_true_iff in Hc. destruct Hc as (Hc & Hlt).
    apply andb_true_iff in Hc. destruct Hc as (Hr & Hi). apply Nat.ltb_lt in Hlt.
    destruct (kd (sk g o)) eqn:Ek; try exact HI.
    unfold on_sock. rewrite <- Ek.
    destruct (SS o) as (A & B & C & D & E & F).
    apply close_inv; auto.
    + intro X. destruct (C X) as (_ & Y & _). congruence.
    + unfold glob_ok. cbn. split; [exact Gv|]. destruct (lpc g); try discriminate.
      split; [discriminate|]. split; [|split; [|split]]; auto; try discriminate; try (intros; contradiction).
      intro X. destruct (Nat.eq_dec 0 o) as [<-|N]; [rewrite upd_same; cbn; auto|rewrite upd_other by assumption; auto].
  - (* LSdRes *)
    destruct (is_run (lpc g) && negb (is_shut (sk g 0))); [|exact HI].
    apply threads_inv; auto. intro t. left. apply wake_all_promoted.
  - (* LTimeout *)
    destruct (ts (thr g t)) as [|o p|o c p [|]|r] eqn:Ets; try exact HI.
    apply threads_inv; auto. intro t'.
    destruct (Nat.eq_dec t' t) as [->|N]; [rewrite upd_same|rewrite upd_other by assumption; left; apply promoted_refl].
    left. right. exists o, c, p. auto.
  - (* LTermBegin *)
    destruct (lpc g) eqn:El; cbn; try exact HI.
    assert (Ev : (match var g with Fixed => true | Orig => false end) = true) by (rewrite Gv; reflexivity). rewrite Ev.
    apply ctl_inv; auto; try (rewrite El; discriminate).
    unfold glob_ok. cbn. split; [exact Gv|]. split; [discriminate|]. split; [auto|]. split; [discriminate|]. auto.
  - (* LTermPop *)
    destruct (lpc g) eqn:El; try exact HI.
    destruct (intab (sk g o) && Nat.ltb 0 o && Nat.ltb o (nsk g)) eqn:Hc; [|exact HI].
    apply andb_true_iff in Hc. destruct Hc as (Hc & Hlt). apply andb_true_iff in Hc. destruct Hc as (Hi & Hpos).
    apply Nat.ltb_lt in Hlt. apply Nat.ltb_lt in Hpos.
    destruct (SS o) as (A & B & C & D & E & F).
    assert (Htab : tabled (sk g o) = true).
    { destruct (tabled (sk g o)) eqn:X; [reflexivity|]. destruct (C eq_refl) as (_ & Y & _). congruence. }
    apply (frame_inv g _ o HI); cbn.
    + reflexivity.
    + exact Hlt.
    + intros o' N. apply upd_other; assumption.
    + rewrite upd_same. unfold evolves. cbn. auto.
    + intro t. left. apply promoted_refl.
    + rewrite upd_same. cbn. intros Hne Hs. contradiction.
    + unfold sock_ok. cbn. rewrite upd_same. cbn. repeat split; auto; try congruence. intro; lia.
    + intros o' N X. rewrite El in X. discriminate.
    + unfold glob_ok. cbn. split; [exact Gv|]. split; [discriminate|]. split; [|split; [|split]]; auto.
      * intro X. rewrite upd_other by lia. auto.
      * intros o' X. inversion X; subst. rewrite upd_same. cbn. auto.
      * intros _ _. apply Gh; try rewrite El; discriminate.
  - (* LTermClose *)
    destruct (lpc g) as [| |o|] eqn:El; try exact HI.
    destruct (Gc o eq_refl) as (Gi & Glt).
    destruct (SS o) as (A & B & C & D & E & F).
    apply close_inv; auto.
    + intro X. destruct (C X) as (Y & Z & _). auto.
    + intros o' N X. inversion X. congruence.
    + unfold glob_ok. cbn. split; [exact Gv|]. split; [discriminate|]. split; [|split; [|split]]; auto; try discriminate.
      * intro X. destruct (Nat.eq_dec 0 o) as [<-|N]; [rewrite upd_same; cbn; auto|rewrite upd_other by assumption; auto].
      * intros _ _. apply Gh; discriminate.
  - (* LTermSd *)
    destruct (lpc g) eqn:El; try exact HI. destruct (term g) eqn:Etm; [exact HI|].
    destruct (SS 0) as (A & B & C & D & E & F).
    apply close_inv; auto; try (intros o' N X; rewrite El in X; discriminate).
    unfold glob_ok. cbn. split; [exact Gv|]. split; [discriminate|].
    split; [intros _; try rewrite upd_same; reflexivity|].
    split; [discriminate|]. split; [intros _ _; apply Gh; try rewrite El; discriminate|exact Gn].
  - (* LTermEnd *)
    destruct (lpc g) eqn:El; try exact HI.
    destruct (term g && all_out_of_table g) eqn:Hc; [|exact HI].
    apply andb_true_iff in Hc. destruct Hc as (Htm & Hall).
    apply ctl_inv; auto; try (rewrite El; discriminate).
    unfold glob_ok. cbn. split; [exact Gv|]. split; [|split; [auto|split; [discriminate|split; [congruence|exact Gn]]]].
    intros _. repeat split; auto. intro o.
    destruct (Nat.eq_dec o 0) as [->|N0]; [auto|].
    destruct (le_lt_dec (nsk g) o) as [Hge|Hlt].
    + destruct (SS o) as (_ & _ & _ & _ & _ & F). rewrite (F Hge). reflexivity.
    + unfold all_out_of_table in Hall. rewrite forallb_forall in Hall.
      specialize (Hall o). rewrite negb_true_iff in Hall. apply Hall. apply in_seq. lia.
Qed.

Lemma init_inv : Inv (init Fixed).
Proof.
  split; [|split].
  - unfold glob_ok. cbn. repeat split; auto; try discriminate; try (intros; discriminate).
  - intro t. exact I.
  - intro o. unfold sock_ok. cbn. destruct o; cbn; repeat split; auto; try discriminate; try (intros; discriminate);
      try (intros; exfalso; lia); try lia.
Qed.

Theorem reach_inv sched : Inv (run (init Fixed) sched).
Proof. unfold run. generalize init_inv. generalize (init Fixed). induction sched as [|l r IH]; intros g H; cbn; auto.
  apply IH. apply step_inv. exact H. Qed.

(* ====================================================================================================
   The property theorems (all schedules, any number of threads, repaired code)
   ==================================================================================================== *)
Definition reachable (g : gstate) : Prop := exists sched, g = run (init Fixed) sched.

Lemma reachable_inv g : reachable g -> Inv g.
Proof. intros (s & ->). apply reach_inv. Qed.
Lemma reachable_step g l : reachable g -> reachable (step g l).
Proof. intros (s & ->). exists (s ++ [l]). unfold run. rewrite fold_left_app. reflexivity. Qed.
Lemma reachable_run g s : reachable g -> reachable (run g s).
Proof. revert g. induction s as [|l r IH]; intros g H; cbn; auto. apply IH. apply reachable_step. exact H. Qed.

(* a thread blocked on condition c of object o  =>  o is not shut down, or a notification is pending *)
Theorem blocked_implies_open_inv g : Inv g ->
  forall t o c p, ts (thr g t) = Blocked o c p false -> st (sk g o) <> SHUTDOWN.
Proof. intros (_ & T & _) t o c p E. pose proof (T t) as H. unfold thr_ok in H. rewrite E in H.
  destruct H as (_ & _ & _ & _ & H & _). auto. Qed.

Theorem blocked_implies_open : forall sched t o c p,
  let g := run (init Fixed) sched in
  ts (thr g t) = Blocked o c p false -> st (sk g o) <> SHUTDOWN.
Proof. intros sched t o c p g. apply blocked_implies_open_inv. apply reach_inv. Qed.

(* once terminate() has completed no thread waits *)
Lemma done_no_waiting g : Inv g -> lpc g = LDone -> forall t, waiting g t = false.
Proof.
  intros (G & T & SS) Hd t. destruct G as (Gv & Gd & Gt & Gc & Gh & Gn).
  destruct (Gd Hd) as (Ht & Hh & Hi).
  unfold waiting. destruct (ts (thr g t)) as [|o p|o c p [|]|r] eqn:E; auto.
  exfalso. pose proof (T t) as H. unfold thr_ok in H. rewrite E in H.
  destruct H as (_ & _ & Htab & _ & Hopen & _).
  destruct (SS o) as (A & _). destruct (A Htab) as [X|[X|X]].
  - rewrite Hi in X. discriminate.
  - apply (Hopen eq_refl X).
  - rewrite Hd in X. discriminate.
Qed.

Lemma done_stable g l : lpc g = LDone -> lpc (step g l) = LDone.
Proof.
  intro H. destruct l; cbn [step]; try (rewrite H; cbn; exact H).
  - destruct (ts (thr g t)); auto. destruct (mode (thr g t)); auto.
    destruct op; cbn; auto;
      repeat match goal with |- context [match ?x with _ => _ end] => destruct x end; cbn; auto.
  - destruct (ts (thr g t)) as [|o p|o c p [|]|r]; auto; destruct (runnable_point g p); auto;
      unfold run_seg; destruct (o_act _); auto.
  - destruct (ts (thr g t)); auto. unfold next_of, goto_call, with_thr.
    destruct (mode (thr g t)); auto;
      repeat match goal with |- context [match ?x with _ => _ end] => destruct x end; cbn; auto.
  - destruct (ts (thr g t)) as [|o p|o c p [|]|r]; auto.
Qed.

Lemma done_stable_run s : forall g, lpc g = LDone -> lpc (run g s) = LDone.
Proof. induction s as [|l r IH]; intros g H; cbn; auto. apply IH. apply done_stable. exact H. Qed.

(* no_thread_left_waiting: after the shutdown transition no thread is blocked without a pending
   notification, and none can newly block, whatever happens afterwards (s2) *)
Theorem no_thread_left_waiting : forall s1 s2 t,
  lpc (run (init Fixed) s1) = LDone -> waiting (run (init Fixed) (s1 ++ s2)) t = false.
Proof.
  intros s1 s2 t H. unfold run in *. rewrite fold_left_app.
  apply done_no_waiting.
  - apply reachable_inv. apply (reachable_run _ s2). exists s1. reflexivity.
  - apply (done_stable_run s2). exact H.
Qed.

(* ---- what one step does after termination ------------------------------------------------------------ *)
Lemma dead_benign g t o p orc :
  Inv g -> lpc g = LDone ->
  (ts (thr g t) = At o p \/ exists c, ts (thr g t) = Blocked o c p true) ->
  benign (o_act (seg Fixed p (sk g o) true orc)).
Proof.
  intros (G & T & SS) Hd Hts. destruct G as (Gv & Gd & Gt & Gc & Gh & Gn).
  destruct (Gd Hd) as (Ht & Hh & Hi).
  destruct (SS o) as (A & B & C & D & E0 & F).
  pose proof (T t) as Tt. unfold thr_ok in Tt.
  destruct (tabled (sk g o)) eqn:Etab.
  - assert (Hs : st (sk g o) = SHUTDOWN).
    { destruct (A eq_refl) as [X|[X|X]]; auto; [rewrite Hi in X|rewrite Hd in X]; discriminate. }
    apply seg_dead_shut; auto.
    destruct Hts as [E|(c & E)]; rewrite E in Tt; tauto.
  - destruct (C eq_refl) as (Cb & Ci & Cq).
    destruct Hts as [E|(c & E)]; rewrite E in Tt.
    + destruct Tt as (_ & Hk & Hp & _).
      apply seg_dead_fresh; auto.
      * intro Hk'. destruct (live (st (sk g o))) eqn:El; auto. pose proof (B Hk' eq_refl) as X. congruence.
      * destruct (ptab p (kd (sk g o))) eqn:Ep; auto. pose proof (Hp eq_refl) as X. congruence.
    + destruct Tt as (_ & _ & X & _). congruence.
Qed.

(* after_shutdown_total: once the link has terminated, whatever step is taken, no thread enters a
   wait and every call that completes returns a value or raises nfc.llcp.Error *)
Theorem after_shutdown_step g l t :
  Inv g -> lpc g = LDone ->
  match ts (thr (step g l) t) with
  | Blocked _ _ _ false => False
  | Done r => ts (thr g t) = Done r \/ good r = true
  | _ => True
  end.
Proof.
  intros HI Hd.
  pose proof (done_no_waiting (step g l) (step_inv g l HI) (done_stable g l Hd) t) as Hw. unfold waiting in Hw.
  destruct (ts (thr (step g l) t)) as [|o p|o c p [|]|r] eqn:E; auto; try discriminate.
  pose proof HI as (G & T & SS). destruct G as (Gv & Gd & Gt & Gc & Gh & Gn).
  destruct (Gd Hd) as (Ht & Hh & Hi).
  destruct l as [t' op|t' orc|t' w|o x w|o d w|o n w|o| |t'| |o| | |]; cbn [step] in E;
    try (rewrite Hd in E; cbn in E; try (destruct (kd (sk g o))); left; exact E).
  - (* TIssue *)
    destruct (ts (thr g t')) eqn:E1; try (left; exact E). destruct (mode (thr g t')) eqn:E2; try (left; exact E).
    destruct op as [o|o e|o dw|o|o|o|o|o| |k|ls]; cbn in E;
      try (destruct (ref_ok g _ _); [|left; exact E]; destruct (negb (srv (sk g _))); [|left; exact E]; cbn in E;
           destruct (Nat.eq_dec t t') as [->|N]; [rewrite upd_same in E; discriminate|rewrite upd_other in E by assumption; left; exact E]).
    destruct k; try (left; exact E); cbn in E;
      (destruct (Nat.eq_dec t t') as [->|N]; [rewrite upd_same in E; cbn in E; inversion E; right; reflexivity
                                             |rewrite upd_other in E by assumption; left; exact E]).
  - (* TRun *)
    assert (Hrun : forall o p, (ts (thr g t') = At o p \/ exists c, ts (thr g t') = Blocked o c p true) ->
              ts (thr (run_seg g t' o p orc) t) = Done r -> ts (thr g t) = Done r \/ good r = true).
    { intros o p Hts. pose proof (dead_benign g t' o p orc HI Hd Hts) as Hb.
      unfold run_seg. rewrite Gv, Ht.
      destruct (o_act (seg Fixed p (sk g o) true orc)) eqn:Ea; cbn; intro E';
        (destruct (Nat.eq_dec t t') as [->|N]; [rewrite upd_same in E'|rewrite upd_other in E' by assumption]);
        try (cbn in E'; discriminate);
        try (destruct (wake_all_promoted (thr g) o (o_nall (seg Fixed p (sk g o) true orc)) t) as [Eq|(o2 & c2 & p2 & E2 & Eq)];
             rewrite Eq in E'; [left; exact E'|cbn in E'; discriminate]).
      - cbn in E'. inversion E'; subst. right. exact Hb.
      - cbn in E'. inversion E'; subst. right. reflexivity. }
    destruct (ts (thr g t')) as [|o p|o c p [|]|r'] eqn:E1; try (left; exact E);
      (destruct (runnable_point g p); [|left; exact E]); apply (Hrun o p); auto. right. exists c. reflexivity.
  - (* TNext *)
    destruct (ts (thr g t')) as [|o p|o c p b|r'] eqn:E1; try (left; exact E).
    unfold next_of, goto_call, with_thr, upd in E.
    repeat (cbn in E; match type of E with
           | context [match ?x with _ => _ end] =>
               lazymatch x with
               | context [match _ with _ => _ end] => fail
               | _ => destruct x eqn:?
               end
           end);
      cbn in E; try discriminate; try (left; exact E);
      try (match goal with H : Nat.eqb t t' = true |- _ => apply Nat.eqb_eq in H; subst t' end;
           inversion E; subst; left; exact E1).
  - (* LTimeout *)
    destruct (ts (thr g t')) as [|o p|o c p [|]|r'] eqn:E1; try (left; exact E). cbn in E.
    destruct (Nat.eq_dec t t') as [->|N]; [rewrite upd_same in E; discriminate|rewrite upd_other in E by assumption; left; exact E].
Qed.

Theorem after_shutdown_total : forall s1 s2 l t,
  lpc (run (init Fixed) s1) = LDone ->
  let g := run (init Fixed) (s1 ++ s2) in
  match ts (thr (step g l) t) with
  | Blocked _ _ _ false => False                       (* does not enter a wait *)
  | Done r => ts (thr g t) = Done r \/ good r = true    (* returns a value or raises nfc.llcp.Error *)
  | _ => True
  end.
Proof.
  intros s1 s2 l t H g. apply after_shutdown_step.
  - apply reach_inv.
  - unfold g, run. rewrite fold_left_app. apply (done_stable_run s2). exact H.
Qed.

Lemma wake_all_mode thr o cs t : mode (wake_all thr o cs t) = mode (thr t).
Proof. unfold wake_all. destruct (ts (thr t)) as [| | ? ? ? [|] |]; auto. destruct (_ && _); reflexivity. Qed.

(* ---- bounded completion: after termination every own step of a thread brings its call nearer to its end -- *)
Lemma done_own_step g t o p orc :
  Inv g -> lpc g = LDone ->
  (ts (thr g t) = At o p \/ exists c, ts (thr g t) = Blocked o c p true) ->
  mode (thr (step g (TRun t orc)) t) = mode (thr g t) /\
  match ts (thr (step g (TRun t orc)) t) with
  | At o' q => o' = o /\ rank q < rank p /\
               (srv_class p = true -> srv_class q = true)
  | Done r => good r = true /\ (srv_class p = true -> is_llcp r = true) /\ (forall c, r <> Ok (VSock c))
  | _ => False
  end.
Proof.
  intros HI Hd Hts. pose proof (dead_benign g t o p orc HI Hd Hts) as Hb.
  pose proof HI as (G & T & SS). destruct G as (Gv & Gd & Gt & Gc & Gh & Gn).
  destruct (Gd Hd) as (Ht & Hh & Hi).
  assert (Hsrv : srv_class p = true -> srv_out (o_act (seg Fixed p (sk g o) true orc))).
  { intro Hc. destruct (SS o) as (A & B & C & D & E0 & F).
    pose proof (T t) as Tt. unfold thr_ok in Tt.
    destruct (tabled (sk g o)) eqn:Etab.
    - assert (Hs : st (sk g o) = SHUTDOWN).
      { destruct (A eq_refl) as [X|[X|X]]; auto; [rewrite Hi in X|rewrite Hd in X]; discriminate. }
      apply seg_srv_shut; auto. destruct Hts as [E|(c & E)]; rewrite E in Tt; tauto.
    - destruct (C eq_refl) as (Cb & Ci & Cq).
      destruct Hts as [E|(c & E)]; rewrite E in Tt.
      + destruct Tt as (_ & Hk & Hp & _). apply seg_srv_fresh; auto.
        * intro Hk'. destruct (live (st (sk g o))) eqn:El; auto. pose proof (B Hk' eq_refl) as X. congruence.
        * destruct (ptab p (kd (sk g o))) eqn:Ep; auto. pose proof (Hp eq_refl) as X. congruence.
      + destruct Tt as (_ & _ & X & _). congruence. }
  assert (Hstep : step g (TRun t orc) = run_seg g t o p orc).
  { cbn [step]. assert (Hrp : runnable_point g p = true) by (unfold runnable_point; rewrite Hh, andb_false_r; reflexivity).
    destruct Hts as [E|(c & E)]; rewrite E, Hrp; reflexivity. }
  rewrite Hstep. unfold run_seg. rewrite Gv, Ht.
  pose proof (seg_rank Fixed p (sk g o) true orc) as Hr.
  pose proof (seg_ret_not_sock Fixed p (sk g o) true orc) as Hns.
  destruct (seg_term_intab p (sk g o) orc (Hi o)) as (_ & Hna).
  destruct (o_act (seg Fixed p (sk g o) true orc)) eqn:Ea; cbn; rewrite upd_same; cbn; rewrite ?wake_all_mode.
  - split; [reflexivity|]. split; [reflexivity|]. split; [apply Hr; reflexivity|]. intro Hc. apply (Hsrv Hc).
  - contradiction.
  - split; [reflexivity|]. split; [exact Hb|]. split; [intro Hc; apply (Hsrv Hc)|]. intros c E. apply (Hns c). congruence.
  - exfalso. apply (Hna s). reflexivity.
Qed.

Lemma run_cons g l s : run g (l :: s) = run (step g l) s.
Proof. reflexivity. Qed.

Lemma run_solo_done g t orcs r : ts (thr g t) = Done r -> run g (map (TRun t) orcs) = g.
Proof. revert g. induction orcs as [|b l IH]; intros g E; [reflexivity|].
  cbn [map]. rewrite run_cons.
  assert (X : step g (TRun t b) = g) by (cbn [step]; rewrite E; reflexivity). rewrite X. apply IH. exact E. Qed.

(* every call in progress after termination completes within rank p <= 4 steps of its thread, whatever
   the other threads do in between is covered by after_shutdown_total; here the thread runs alone *)
Theorem calls_complete : forall n g t o p,
  Inv g -> lpc g = LDone ->
  (ts (thr g t) = At o p \/ exists c, ts (thr g t) = Blocked o c p true) ->
  rank p <= n -> forall orcs, n <= length orcs ->
  exists r, ts (thr (run g (map (TRun t) orcs)) t) = Done r /\ good r = true.
Proof.
  induction n as [|n IH]; intros g t o p HI Hd Hts Hr orcs Hl.
  - pose proof (rank_pos p). lia.
  - destruct orcs as [|b l]; [cbn in Hl; lia|]. cbn [map]. rewrite run_cons.
    destruct (done_own_step g t o p b HI Hd Hts) as (_ & Hs).
    pose proof (step_inv g (TRun t b) HI) as HI'. pose proof (done_stable g (TRun t b) Hd) as Hd'.
    destruct (ts (thr (step g (TRun t b)) t)) as [|o' q|o' c q bb|r] eqn:E; try contradiction.
    + destruct Hs as (-> & Hq & _). apply (IH _ t o q); auto; try lia. cbn in Hl. lia.
    + exists r. rewrite (run_solo_done _ t l r E). tauto.
Qed.

(* the calls that were blocked when the link ended: all are notified, and return / raise nfc.llcp.Error *)
Theorem blocked_calls_return : forall s1 t o c p b,
  let g := run (init Fixed) s1 in
  lpc g = LDone -> ts (thr g t) = Blocked o c p b ->
  b = true /\ forall orcs, 4 <= length orcs ->
    exists r, ts (thr (run g (map (TRun t) orcs)) t) = Done r /\ good r = true.
Proof.
  intros s1 t o c p b g Hd E. pose proof (reach_inv s1) as HI. fold g in HI.
  assert (Hb : b = true).
  { pose proof (done_no_waiting g HI Hd t) as Hw. unfold waiting in Hw. rewrite E in Hw. destruct b; [reflexivity|discriminate]. }
  split; [exact Hb|]. subst b. intros orcs Hl.
  apply (calls_complete 4 g t o p HI Hd); [right; exists c; exact E|apply rank_le4|exact Hl].
Qed.

(* ---- server threads (SnepServer / HandoverServer listen and serve loops) exit ------------------------- *)
Definition is_server (m : tmode) : bool :=
  match m with MListen _ | MServe _ _ | MClosing _ _ => true | _ => false end.

Definition mu (th : thread) : nat :=
  match mode th with
  | MExit _ | MApp => 0
  | MClosing _ _ => match ts th with At _ p | Blocked _ _ p _ => 1 + rank p | _ => 1 end
  | MListen _ | MServe _ _ =>
      match ts th with
      | At _ p | Blocked _ _ p _ => rank p + (if srv_class p then 6 else 12)
      | Done r => if is_llcp r then 6 else 11
      | Idle => 0
      end
  end.

Definition srv_step (t w : nat) (orc : bool) (g : gstate) : gstate :=
  match ts (thr g t) with Done _ => step g (TNext t w) | _ => step g (TRun t orc) end.

Definition active (x : tstate) : Prop :=
  match x with Idle => False | Done (Ok (VSock _)) => False | _ => True end.

Lemma mu_bound th : mu th <= 16.
Proof. unfold mu. destruct (mode th); try lia; destruct (ts th); try lia;
  try (pose proof (rank_le4 p); destruct (srv_class p); lia); destruct (is_llcp r); lia. Qed.

Lemma goto_call_thr g t o p md r :
  thr (goto_call g t o p md r) t = mkThread (At o p) md \/ thr (goto_call g t o p md r) t = mkThread (Done r) (MExit ExCrash).
Proof. unfold goto_call, with_thr. destruct (ref_ok g o p); cbn; rewrite upd_same; auto. Qed.

(* servers_exit, one step: after termination every own step of a server thread strictly decreases mu;
   a thread in a server mode never waits, and a call it issues from its loop ends in the
   nfc.llcp.Error handler (next_of: Err (LlcpError _) -> MClosing _ ExHandler) *)
Theorem server_step_decreases g t w orc :
  Inv g -> lpc g = LDone -> is_server (mode (thr g t)) = true -> active (ts (thr g t)) ->
  let g' := srv_step t w orc g in
  mu (thr g' t) < mu (thr g t) /\
  (is_server (mode (thr g' t)) = true -> active (ts (thr g' t))) /\
  (is_server (mode (thr g' t)) = true \/ exists how, mode (thr g' t) = MExit how).
Proof.
  intros HI Hd Hm Ha g'. subst g'. unfold srv_step.
  pose proof (done_no_waiting g HI Hd t) as Hw. unfold waiting in Hw.
  destruct (ts (thr g t)) as [|o p|o c p b|r] eqn:E; try contradiction.
  - (* in a call *)
    destruct (done_own_step g t o p orc HI Hd (or_introl E)) as (Em & Hs).
    unfold mu. rewrite Em, E.
    destruct (ts (thr (step g (TRun t orc)) t)) as [|o' q|o' c' q bb|r] eqn:E'; try contradiction.
    + destruct Hs as (-> & Hq & Hc). rewrite Hm.
      split; [|split; [intros _; exact I|left; reflexivity]].
      destruct (mode (thr g t)); try discriminate;
        try (destruct (srv_class p); [rewrite (Hc eq_refl)|destruct (srv_class q)]); lia.
    + destruct Hs as (Hg & Hc & Hns). rewrite Hm.
      split; [|split; [intros _; destruct r as [[| | |c|]| | |]; cbn; auto; apply (Hns c); reflexivity|left; reflexivity]].
      pose proof (rank_pos p).
      destruct (mode (thr g t)); try discriminate;
        try (destruct (srv_class p); [rewrite (Hc eq_refl)|destruct (is_llcp r)]); lia.
  - (* woken, or still notified *)
    destruct b; [|discriminate].
    destruct (done_own_step g t o p orc HI Hd (or_intror (ex_intro _ c E))) as (Em & Hs).
    unfold mu. rewrite Em, E.
    destruct (ts (thr (step g (TRun t orc)) t)) as [|o' q|o' c' q bb|r] eqn:E'; try contradiction.
    + destruct Hs as (-> & Hq & Hc). rewrite Hm.
      split; [|split; [intros _; exact I|left; reflexivity]].
      destruct (mode (thr g t)); try discriminate;
        try (destruct (srv_class p); [rewrite (Hc eq_refl)|destruct (srv_class q)]); lia.
    + destruct Hs as (Hg & Hc & Hns). rewrite Hm.
      split; [|split; [intros _; destruct r as [[| | |c0|]| | |]; cbn; auto; apply (Hns c0); reflexivity|left; reflexivity]].
      pose proof (rank_pos p).
      destruct (mode (thr g t)); try discriminate;
        try (destruct (srv_class p); [rewrite (Hc eq_refl)|destruct (is_llcp r)]); lia.
  - (* a result is consumed *)
    cbn [step]. rewrite E. unfold next_of.
    destruct (mode (thr g t)) as [|ls|c ph|o how|how] eqn:Em; try discriminate.
    + (* accept loop *)
      destruct r as [[| | |c|]|[]|c|]; try contradiction;
        match goal with
        | |- context [goto_call g t ?o ?p ?md ?r] =>
            destruct (goto_call_thr g t o p md r) as [X|X]; rewrite X; unfold mu; cbn; rewrite ?Em, ?E; cbn;
            (split; [try lia|split; [intros _; exact I|try (left; reflexivity); try (right; eexists; reflexivity)]])
        end.
    + (* serve loop *)
      destruct r as [[|[|]| |c'|]|[]|c'|]; try contradiction; try destruct ph as [|[|ph]];
        match goal with
        | |- context [goto_call g t ?o ?p ?md ?r] =>
            destruct (goto_call_thr g t o p md r) as [X|X]; rewrite X; unfold mu; cbn; rewrite ?Em, ?E; cbn;
            (split; [try lia|split; [intros _; exact I|try (left; reflexivity); try (right; eexists; reflexivity)]])
        end.
    + (* the final close() has returned *)
      unfold with_thr. cbn. rewrite upd_same. unfold mu. cbn. rewrite Em, E.
      split; [lia|split; [discriminate|right; eexists; reflexivity]].
Qed.

(* a call of a server loop (accept / poll / recv / send, entered at PAcc1 / PPoll0 / PRecv0 / PSend0) that
   runs after termination ends by raising nfc.llcp.Error: the loop is left through its handler *)
Theorem server_calls_raise : forall n g t o p,
  Inv g -> lpc g = LDone ->
  (ts (thr g t) = At o p \/ exists c, ts (thr g t) = Blocked o c p true) ->
  srv_class p = true -> rank p <= n -> forall orcs, n <= length orcs ->
  exists r, ts (thr (run g (map (TRun t) orcs)) t) = Done r /\ is_llcp r = true.
Proof.
  induction n as [|n IH]; intros g t o p HI Hd Hts Hc Hr orcs Hl.
  - pose proof (rank_pos p). lia.
  - destruct orcs as [|b l]; [cbn in Hl; lia|]. cbn [map]. rewrite run_cons.
    destruct (done_own_step g t o p b HI Hd Hts) as (_ & Hs).
    pose proof (step_inv g (TRun t b) HI) as HI'. pose proof (done_stable g (TRun t b) Hd) as Hd'.
    destruct (ts (thr (step g (TRun t b)) t)) as [|o' q|o' c q bb|r] eqn:E; try contradiction.
    + destruct Hs as (-> & Hq & Hcq). apply (IH _ t o q); auto; try lia. cbn in Hl. lia.
    + exists r. rewrite (run_solo_done _ t l r E). destruct Hs as (_ & X & _). auto.
Qed.

Lemma handler_is_taken g t w ls e :
  mode (thr g t) = MListen ls -> ts (thr g t) = Done (Err (LlcpError e)) ->
  step g (TNext t w) = goto_call g t ls PClose0 (MClosing ls ExHandler) (Err (LlcpError e)).
Proof. intros Em E. cbn [step]. rewrite E, Em. reflexivity. Qed.
Lemma handler_is_taken_serve g t w c ph e :
  mode (thr g t) = MServe c ph -> ts (thr g t) = Done (Err (LlcpError e)) ->
  step g (TNext t w) = goto_call g t c PClose0 (MClosing c ExHandler) (Err (LlcpError e)).
Proof. intros Em E. cbn [step]. rewrite E, Em. reflexivity. Qed.

Fixpoint srv_run (t w : nat) (orcs : list bool) (g : gstate) : gstate :=
  match orcs with [] => g | b :: l => srv_run t w l (srv_step t w b g) end.

Lemma srv_step_inv t w b g : Inv g -> Inv (srv_step t w b g).
Proof. intro H. unfold srv_step. destruct (ts (thr g t)); apply step_inv; exact H. Qed.
Lemma srv_step_done t w b g : lpc g = LDone -> lpc (srv_step t w b g) = LDone.
Proof. intro H. unfold srv_step. destruct (ts (thr g t)); apply done_stable; exact H. Qed.

(* servers_exit: after termination a server thread (accept loop, serve loop, or the final close())
   has exited after at most mu <= 16 of its own steps, for every choice of the oracle bits *)
Theorem servers_exit : forall n g t w,
  Inv g -> lpc g = LDone -> is_server (mode (thr g t)) = true -> active (ts (thr g t)) ->
  mu (thr g t) <= n -> forall orcs, n <= length orcs ->
  exists k how, k <= n /\ mode (thr (srv_run t w (firstn k orcs) g) t) = MExit how.
Proof.
  induction n as [|n IH]; intros g t w HI Hd Hm Ha Hmu orcs Hl.
  - exfalso. destruct orcs as [|b l].
    + pose proof (server_step_decreases g t w true HI Hd Hm Ha) as (X & _). lia.
    + pose proof (server_step_decreases g t w b HI Hd Hm Ha) as (X & _). lia.
  - destruct orcs as [|b l]; [cbn in Hl; lia|].
    destruct (server_step_decreases g t w b HI Hd Hm Ha) as (Hlt & Hact & [Hs|(how & Hx)]).
    + destruct (IH (srv_step t w b g) t w (srv_step_inv t w b g HI) (srv_step_done t w b g Hd) Hs (Hact Hs) ltac:(lia) l ltac:(cbn in Hl; lia))
        as (k & how & Hk & Hmode).
      exists (S k), how. split; [lia|]. cbn. exact Hmode.
    + exists 1, how. split; [lia|]. cbn. exact Hx.
Qed.

(* ====================================================================================================
   The unrepaired code (variant Orig): refutation witnesses, each a concrete schedule
   ==================================================================================================== *)
Definition bound_raw (v : variant) : gstate :=
  run (init v) [TIssue 1 (ONew RAW); TNext 1 0; TIssue 1 (OBind 1); TRun 1 true; TRun 1 true; TNext 1 0].
Definition terminate_all : list label := [LTermBegin; LTermPop 1; LTermClose; LTermSd; LTermEnd].

(* RawAccessPoint.recv: the state test is made outside the lock; terminate() runs between the
   test and the wait; the caller is left waiting on a socket that is shut down *)
Definition lost_wakeup (v : variant) : gstate :=
  run (bound_raw v) ([TIssue 5 (ORecv 1); TRun 5 true] ++ terminate_all ++ [TRun 5 true]).

Lemma orig_lost_wakeup :
  let g := lost_wakeup Orig in
  lpc g = LDone /\ ts (thr g 5) = Blocked 1 RecvReady PRecv2 false /\ st (sk g 1) = SHUTDOWN.
Proof. vm_compute. repeat split. Qed.
Lemma fixed_same_schedule_returns : ts (thr (lost_wakeup Fixed) 5) = Done (Err (LlcpError ESHUTDOWN)).
Proof. vm_compute. reflexivity. Qed.

(* a socket created, bound and connected after termination waits for a CC that can never arrive *)
Definition late_connect (v : variant) : gstate :=
  run (bound_raw v) (terminate_all ++ [TIssue 7 (ONew DLC); TNext 7 0; TIssue 7 (OConnect 2); TRun 7 true; TRun 7 true; TRun 7 true]).
Lemma orig_late_connect_hangs :
  let g := late_connect Orig in lpc g = LDone /\ ts (thr g 7) = Blocked 2 RecvReady PConn2 false.
Proof. vm_compute. repeat split. Qed.
Lemma fixed_late_connect_raises : ts (thr (late_connect Fixed) 7) = Done (Err (LlcpError ESHUTDOWN)).
Proof. vm_compute. reflexivity. Qed.

(* llc.resolve() after termination: AttributeError *)
Definition late_resolve (v : variant) : gstate := run (bound_raw v) (terminate_all ++ [TIssue 7 OResolve; TRun 7 true]).
Lemma orig_late_resolve_crashes : ts (thr (late_resolve Orig) 7) = Done (Crash AttributeErr).
Proof. vm_compute. reflexivity. Qed.
Lemma fixed_late_resolve_none : ts (thr (late_resolve Fixed) 7) = Done (Ok VNone).
Proof. vm_compute. reflexivity. Qed.

(* Why the invariant "a closed DLC has an empty receive queue" (sock_ok, 4th part) matters, and what the
   unrepaired DataLinkConnection.enqueue (state test outside the lock, fixes/c09-8) broke: a connect()
   woken by close() that finds a CC in the queue of the closed socket sets ESTABLISHED again; the socket
   has meanwhile left the access point table and is never shut down with the link. *)
Example revive_needs_empty_queue :
  let closed_with_cc := mkSock DLC SHUTDOWN true true true [ICC] 0 1 1 0 0 false in
  st (o_sock (seg Fixed PConn2 closed_with_cc false true)) = ESTABLISHED /\
  o_act (seg Fixed PConn2 (set_rq closed_with_cc []) false true) = ARet (Err (LlcpError EPIPE)).
Proof. vm_compute. split; reflexivity. Qed.
