(* C09 - the inductive invariant of the LlcLife transition system (repaired code) and the
   theorems over ALL schedules (lists of labels) and any number of threads. *)
From Coq Require Import ZArith List Bool Arith Lia.
From NV Require Import Base.Result Model.LlcLife Proofs.LlcLifeSeg.
Import ListNotations.

(* ---- per-thread, per-object and global parts of the invariant ---------------------------------- *)
Definition thr_ok (g : gstate) (th : thread) : Prop :=
  match ts th with
  | At o p => o < nsk g /\ pk p (kd (sk g o)) = true
              /\ (ptab p (kd (sk g o)) = true -> tabled (sk g o) = true)
              /\ (p = PClose4 -> st (sk g o) = SHUTDOWN)
  | Blocked o c p b => o < nsk g /\ pk p (kd (sk g o)) = true /\ tabled (sk g o) = true
              /\ In c (close_conds (kd (sk g o)))
              /\ (b = false -> st (sk g o) <> SHUTDOWN)      (* blocked => open, or a notification is pending *)
              /\ p <> PClose4
  | _ => True
  end.

Definition sock_ok (g : gstate) (o : nat) : Prop :=
  let s := sk g o in
  (tabled s = true -> intab s = true \/ st s = SHUTDOWN \/ lpc g = LClosing o)
  /\ (kd s = DLC -> live (st s) = true -> tabled s = true)
  /\ (tabled s = false -> bound s = false /\ intab s = false /\ rq s = [])
  /\ (kd s = DLC -> st s = SHUTDOWN -> rq s = [])
  /\ (kd s = SDP -> tabled s = true)
  /\ (nsk g <= o -> s = fresh RAW).

Definition glob_ok (g : gstate) : Prop :=
  var g = Fixed
  /\ (lpc g = LDone -> term g = true /\ llc_held g = false /\ forall o, intab (sk g o) = false)
  /\ (term g = true -> intab (sk g 0) = false)
  /\ (forall o, lpc g = LClosing o -> intab (sk g o) = false /\ o < nsk g)
  /\ (lpc g <> LRun -> lpc g <> LDone -> llc_held g = true)     (* terminate() holds llc.lock throughout *)
  /\ 0 < nsk g.

Definition Inv (g : gstate) : Prop :=
  glob_ok g /\ (forall t, thr_ok g (thr g t)) /\ (forall o, sock_ok g o).

(* ---- small tools -------------------------------------------------------------------------------- *)
Lemma upd_same {A} (f : nat -> A) i x : upd f i x i = x.
Proof. unfold upd. rewrite Nat.eqb_refl. reflexivity. Qed.
Lemma upd_other {A} (f : nat -> A) i x j : j <> i -> upd f i x j = f j.
Proof. unfold upd. intro H. destruct (Nat.eqb_spec j i); [contradiction|reflexivity]. Qed.

Lemma sstate_eqb_eq a b : sstate_eqb a b = true <-> a = b.
Proof. destruct a, b; cbn; split; intro; try reflexivity; discriminate. Qed.
Lemma cond_eqb_eq a b : cond_eqb a b = true <-> a = b.
Proof. destruct a, b; cbn; split; intro; try reflexivity; discriminate. Qed.
Lemma existsb_cond c cs : existsb (cond_eqb c) cs = true <-> In c cs.
Proof. rewrite existsb_exists. split.
  - intros (x & Hx & E). apply cond_eqb_eq in E. subst. assumption.
  - intro H. exists c. split; [assumption|apply cond_eqb_eq; reflexivity]. Qed.

(* what wake_all / wake_one do to one thread: nothing, or "un-notified" becomes "notified" *)
Definition promoted (th th' : thread) : Prop :=
  th' = th \/ exists o c p, ts th = Blocked o c p false /\ th' = set_ts th (Blocked o c p true).

Lemma wake_all_promoted thr o cs t : promoted (thr t) (wake_all thr o cs t).
Proof. unfold wake_all, promoted. destruct (ts (thr t)) as [|? ?|o' c p [|]|?] eqn:E; auto.
  destruct (Nat.eqb o' o && existsb (cond_eqb c) cs); auto. right. exists o', c, p. auto. Qed.

Lemma wake_all_hit thr o cs t c p :
  ts (thr t) = Blocked o c p false -> In c cs -> ts (wake_all thr o cs t) = Blocked o c p true.
Proof. intros E H. unfold wake_all. rewrite E, Nat.eqb_refl. cbn.
  apply existsb_cond in H. rewrite H. reflexivity. Qed.

Lemma wake_one_promoted thr o c w t : promoted (thr t) (wake_one thr o c w t).
Proof. unfold wake_one, promoted. destruct (ts (thr w)) as [|? ?|o' c' p [|]|?] eqn:E; auto.
  destruct (Nat.eqb o' o && cond_eqb c' c); auto.
  destruct (Nat.eq_dec t w) as [->|N]; [rewrite upd_same|rewrite upd_other by assumption; auto].
  right. exists o', c', p. auto. Qed.

Lemma promoted_trans a b c : promoted a b -> promoted b c -> promoted a c.
Proof. unfold promoted. intros [->|(o & cc & p & E & ->)] [->|(o' & c' & p' & E' & ->)]; auto.
  - right. eauto.
  - right. exists o, cc, p. auto.
  - cbn in E'. discriminate. Qed.

(* how one object may change in a step without disturbing the threads that refer to it *)
Definition evolves (s s' : sock) : Prop :=
  kd s' = kd s /\ (tabled s = true -> tabled s' = true) /\ (st s = SHUTDOWN -> st s' = SHUTDOWN).

Lemma evolves_refl s : evolves s s.
Proof. unfold evolves. auto. Qed.

Lemma thr_ok_step g g' th th' :
  thr_ok g th -> nsk g <= nsk g' ->
  (forall o, o < nsk g -> evolves (sk g o) (sk g' o)) ->
  promoted th th' ->
  (forall o c p, ts th' = Blocked o c p false -> st (sk g' o) = SHUTDOWN -> st (sk g o) = SHUTDOWN) ->
  thr_ok g' th'.
Proof.
  intros H Hn Hev Hp Hs. unfold thr_ok in *.
  destruct Hp as [->|(o & c & p & E & ->)].
  - destruct (ts th) as [|o p|o c p b|r] eqn:E; auto.
    + destruct H as (Ho & Hk & Ht & H4). destruct (Hev o Ho) as (Ek & Et & Es). rewrite Ek.
      repeat split; [lia|assumption|auto|auto].
    + destruct H as (Ho & Hk & Ht & Hc & Hb & H4). destruct (Hev o Ho) as (Ek & Et & Es). rewrite Ek.
      repeat split; [lia|assumption|auto|assumption| |assumption].
      intros -> Hsh. apply (Hb eq_refl). eapply Hs; eauto.
  - rewrite E in H. cbn. destruct H as (Ho & Hk & Ht & Hc & Hb & H4). destruct (Hev o Ho) as (Ek & Et & Es). rewrite Ek.
    repeat split; [lia|assumption|auto|assumption|discriminate|assumption].
Qed.

Lemma thr_ok_same_socks g g' th :
  thr_ok g th -> nsk g <= nsk g' -> (forall o, o < nsk g -> sk g' o = sk g o) -> thr_ok g' th.
Proof. intros H Hn He. eapply thr_ok_step; eauto.
  - intros o Ho. rewrite (He o Ho). apply evolves_refl.
  - left; reflexivity.
  - intros o c p E Hs. unfold thr_ok in H. rewrite E in H. destruct H as (Ho & _). rewrite (He o Ho) in Hs. assumption. Qed.

Lemma sock_ok_same g g' o :
  sock_ok g o -> sk g' o = sk g o -> nsk g' = nsk g -> (lpc g = LClosing o -> lpc g' = LClosing o) -> sock_ok g' o.
Proof. unfold sock_ok. intros (A & B & C & D & E & F) Es En El. rewrite Es, En.
  repeat split; auto; try apply C; auto. intro T. destruct (A T) as [H|[H|H]]; auto. Qed.

(* ---- a thread executes one segment ---------------------------------------------------------------- *)
Lemma client_sock_ok g o : lpc g = lpc g -> sk g o = client_sock -> o < nsk g -> sock_ok g o.
Proof. intros _ E Ho. unfold sock_ok. rewrite E. cbn. repeat split; auto; try discriminate. lia. Qed.

Lemma run_seg_inv g t o p orc :
  Inv g -> runnable_point g p = true ->
  (ts (thr g t) = At o p \/ exists c, ts (thr g t) = Blocked o c p true) ->
  Inv (run_seg g t o p orc).
Proof.
  intros (G & T & SS) Hrun Hts.
  destruct G as (Gv & Gd & Gt & Gc & Gh & Gn).
  pose proof (T t) as Tt. pose proof (SS o) as So.
  set (s := sk g o) in *. 
  assert (Ho : o < nsk g /\ pk p (kd s) = true /\ (ptab p (kd s) = true -> tabled s = true)
               /\ (p = PClose4 -> st s = SHUTDOWN)).
  { unfold thr_ok in Tt. destruct Hts as [E|(c & E)]; rewrite E in Tt.
    - exact Tt.
    - destruct Tt as (A & B & C & D & _ & F). repeat split; auto. intro; contradiction. }
  destruct Ho as (Ho & Hk & Hp & H4).
  destruct So as (SA & SB & SC & SD & SE & SF). fold s in SA, SB, SC, SD, SE, SF.
  unfold run_seg. rewrite Gv. fold s.
  set (r := seg Fixed p s (term g) orc).
  pose proof (seg_kd Fixed p s (term g) orc) as Rk. fold r in Rk.
  assert (Rev : evolves s (o_sock r)).
  { unfold evolves. split; [exact Rk|]. split; [apply seg_tabled|].
    intro Hs. apply seg_absorb; auto. }
  (* the threads other than t *)
  assert (Tothers : forall sk' nsk' g', nsk g <= nsk' -> sk g' = sk' -> nsk g' = nsk' ->
            (forall o', o' < nsk g -> o' <> o -> sk' o' = sk g o') -> sk' o = o_sock r ->
            forall t', thr_ok g' (wake_all (thr g) o (o_nall r) t')).
  { intros sk' nsk' g' Hn Esk Ens Hoth Hself t'.
    eapply thr_ok_step; [apply (T t')|lia| |apply wake_all_promoted|].
    - intros o' Ho'. rewrite Esk. destruct (Nat.eq_dec o' o) as [->|N]; [rewrite Hself; exact Rev|].
      rewrite Hoth by assumption. apply evolves_refl.
    - intros o' c q E Hs.
      assert (Eold : ts (thr g t') = Blocked o' c q false).
      { destruct (wake_all_promoted (thr g) o (o_nall r) t') as [Eq|(o2 & c2 & p2 & E2 & Eq)]; rewrite Eq in E; [exact E|].
        cbn in E. discriminate. }
      pose proof (T t') as Tt'. unfold thr_ok in Tt'. rewrite Eold in Tt'.
      destruct Tt' as (Ho' & _ & _ & Hc & _ & _).
      rewrite Esk in Hs. destruct (Nat.eq_dec o' o) as [->|N]; [|rewrite Hoth in Hs by assumption; exact Hs].
      rewrite Hself in Hs. destruct (sstate_eqb (st s) SHUTDOWN) eqn:Es.
      + apply sstate_eqb_eq in Es. exact Es.
      + exfalso. assert (Hne : st s <> SHUTDOWN) by (intro X; apply sstate_eqb_eq in X; rewrite X in Es; discriminate).
        pose proof (seg_shut_notifies p s (term g) orc Hne Hs) as Hn'. fold r in Hn'.
        fold s in Hc. rewrite <- Hn' in Hc.
        rewrite (wake_all_hit _ _ _ _ _ _ Eold Hc) in E. discriminate. }
  (* the object o after the segment *)
  assert (Sself : forall g', sk g' o = o_sock r -> nsk g <= nsk g' -> lpc g' = lpc g -> sock_ok g' o).
  { intros g' Es Hn El. unfold sock_ok. rewrite Es, El.
    split; [|split; [|split; [|split; [|split]]]].
    - intro Ht. destruct (lpc g) eqn:El'; try (destruct (Nat.eq_dec o0 o) as [->|N]; [right; right; reflexivity|]);
        (destruct (seg_tab_rel p s (term g) orc H4 SD Hk) as [X|X]; [|exact Ht|left; exact X|right; left; exact X];
         intro Hts'; destruct (SA Hts') as [X|[X|X]]; auto; try discriminate; inversion X; congruence).
    - intros Hd Hl. rewrite Rk in Hd. apply (seg_dlc_live p s (term g) orc Hp SB SE SC Hk Hd Hl).
    - apply (seg_untabled p s (term g) orc Hp SB SE SC Hk).
    - intros Hd. rewrite Rk in Hd. apply seg_shutq; auto.
    - apply seg_sdp_tabled. exact SE.
    - intro. lia. }
  assert (Sother : forall g' o', o' <> o -> sk g' o' = sk g o' -> nsk g' = nsk g -> lpc g' = lpc g -> sock_ok g' o').
  { intros g' o' N Es En El. apply (sock_ok_same g g' o' (SS o') Es En). rewrite El. auto. }
  assert (Hintab : lpc g = LDone \/ (forall o', lpc g = LClosing o') -> True) by auto.
  (* global part, shared by all cases that do not allocate *)
  assert (Gsame : forall thr', glob_ok (mkG Fixed (upd (sk g) o (o_sock r)) (nsk g) thr' (term g) (llc_held g) (lpc g))).
  { intro thr'. unfold glob_ok. cbn.
    split; [reflexivity|]. split; [|split; [|split; [|split]]]; auto.
    - intro Hd. destruct (Gd Hd) as (Ht & Hh & Hi). repeat split; auto.
      intro o'. destruct (Nat.eq_dec o' o) as [->|N]; [rewrite upd_same|rewrite upd_other by assumption; apply Hi].
      subst r. rewrite Ht. apply seg_term_intab. apply Hi.
    - intro Ht. destruct (Nat.eq_dec 0 o) as [<-|N]; [rewrite upd_same|rewrite upd_other by assumption; auto].
      subst r. rewrite Ht. apply seg_term_intab. subst s. auto.
    - intros o' El. destruct (Gc o' El) as (Gc1 & Gc2). split; [|exact Gc2].
      destruct (Nat.eq_dec o' o) as [->|N]; [rewrite upd_same|rewrite upd_other by assumption; auto].
      apply seg_intab_false; [subst s; auto|auto|].
      unfold runnable_point in Hrun. rewrite (Gh ltac:(congruence) ltac:(congruence)) in Hrun.
      destruct (needs_llc_lock p); [discriminate|reflexivity]. }
  destruct (o_act r) as [q|c q|x|snew] eqn:Ea.
  - (* AGoto *)
    split; [apply Gsame|]. split.
    + intro t'. cbn. destruct (Nat.eq_dec t' t) as [->|N]; [rewrite upd_same|rewrite upd_other by assumption].
      * unfold thr_ok. cbn. rewrite upd_same. rewrite Rk.
        split; [exact Ho|]. split; [|split].
        -- pose proof (seg_next_pk p s (term g) orc Hk) as X. fold r in X. rewrite Ea in X. exact X.
        -- intro Hq. apply (seg_goto_ptab p s (term g) orc Hp SB SE SC Hk q Ea Hq).
        -- intros ->. apply (seg_goto_close4 p s (term g) orc Ea).
      * eapply (Tothers _ (nsk g)); cbn; try reflexivity; auto.
        -- intros; apply upd_other; assumption.
        -- apply upd_same.
    + intro o'. destruct (Nat.eq_dec o' o) as [->|N].
      * apply Sself; cbn; auto. apply upd_same.
      * apply Sother; cbn; auto. apply upd_other; assumption.
  - (* AWait *)
    split; [apply Gsame|]. split.
    + intro t'. cbn. destruct (Nat.eq_dec t' t) as [->|N]; [rewrite upd_same|rewrite upd_other by assumption].
      * unfold thr_ok. cbn. rewrite upd_same. rewrite Rk.
        split; [exact Ho|]. split; [|split; [|split; [|split]]].
        -- pose proof (seg_next_pk p s (term g) orc Hk) as X. fold r in X. rewrite Ea in X. exact X.
        -- apply (seg_wait_tabled p s (term g) orc Hp SB SE SC Hk c q Ea).
        -- apply (seg_wait_cond p s (term g) orc c q Hk Ea).
        -- intros _. apply (seg_wait_open p s (term g) orc c q Ea).
        -- apply (seg_wait_not_close4 Fixed p s (term g) orc c q Ea).
      * eapply (Tothers _ (nsk g)); cbn; try reflexivity; auto.
        -- intros; apply upd_other; assumption.
        -- apply upd_same.
    + intro o'. destruct (Nat.eq_dec o' o) as [->|N].
      * apply Sself; cbn; auto. apply upd_same.
      * apply Sother; cbn; auto. apply upd_other; assumption.
  - (* ARet *)
    split; [apply Gsame|]. split.
    + intro t'. cbn. destruct (Nat.eq_dec t' t) as [->|N]; [rewrite upd_same|rewrite upd_other by assumption].
      * unfold thr_ok. cbn. exact I.
      * eapply (Tothers _ (nsk g)); cbn; try reflexivity; auto.
        -- intros; apply upd_other; assumption.
        -- apply upd_same.
    + intro o'. destruct (Nat.eq_dec o' o) as [->|N].
      * apply Sself; cbn; auto. apply upd_same.
      * apply Sother; cbn; auto. apply upd_other; assumption.
  - (* AAlloc: only PAcc3, the new socket is the accepted connection *)
    pose proof (seg_alloc p s (term g) orc snew Ea) as ->.
    assert (Hnt : term g = false \/ lpc g <> LDone).
    { destruct (term g) eqn:Et; [right|left; reflexivity]. intro Hd.
      destruct (Gd Hd) as (_ & _ & Hi). 
      destruct (seg_term_intab p s orc (Hi o)) as (_ & X). apply (X client_sock). subst r. exact Ea. }
    assert (Hnn : o <> nsk g) by lia.
    split.
    + unfold glob_ok. cbn. split; [reflexivity|]. split; [|split; [|split; [|split]]]; auto; try lia.
      * intro Hd. exfalso. destruct (Gd Hd) as (Ht & _ & Hi).
        destruct (seg_term_intab p s orc (Hi o)) as (_ & X). apply (X client_sock). subst r. rewrite Ht in Ea. exact Ea.
      * intro Ht. rewrite upd_other by lia.
        destruct (Nat.eq_dec 0 o) as [<-|N]; [rewrite upd_same|rewrite upd_other by assumption; auto].
        subst r. rewrite Ht. apply seg_term_intab. subst s. auto.
      * intros o' El. exfalso.
        (* PAcc3 needs llc.lock, which terminate() holds while it closes a socket *)
        unfold runnable_point in Hrun. rewrite (Gh ltac:(congruence) ltac:(congruence)) in Hrun.
        assert (needs_llc_lock p = true).
        { clear - Ea. subst r. destruct s as [k x b i tb q0 n rb sb sl ak]. brk.
          cbn [kd st bound intab tabled rq sq rbuf sbuf slots acks] in Ea.
          destruct p; try reflexivity; exfalso; revert Ea; dm; cbn; discriminate. }
        rewrite H in Hrun. discriminate.
    + split.
      * intro t'. cbn. destruct (Nat.eq_dec t' t) as [->|N]; [rewrite upd_same|rewrite upd_other by assumption].
        -- unfold thr_ok. cbn. exact I.
        -- eapply (Tothers _ (S (nsk g))); cbn; try reflexivity; auto.
           ++ intros o' Ho' N'. rewrite upd_other by lia. apply upd_other; assumption.
           ++ rewrite upd_other by assumption. apply upd_same.
      * intro o'. destruct (Nat.eq_dec o' (nsk g)) as [->|N1].
        -- apply client_sock_ok; cbn; auto. apply upd_same.
        -- destruct (Nat.eq_dec o' o) as [->|N].
           ++ apply Sself; cbn; auto. rewrite upd_other by assumption. apply upd_same.
           ++ unfold sock_ok. cbn. rewrite upd_other by assumption. rewrite upd_other by assumption.
              destruct (SS o') as (A & B & C & D & E & F). repeat split; auto; try apply C; auto.
              intro. apply F. lia.
Qed.

(* ---- steps that change at most one object and only promote / re-establish threads ------------------ *)
Lemma frame_inv g g' o :
  Inv g -> nsk g' = nsk g -> o < nsk g ->
  (forall o', o' <> o -> sk g' o' = sk g o') ->
  evolves (sk g o) (sk g' o) ->
  (forall t, promoted (thr g t) (thr g' t) \/ thr_ok g' (thr g' t)) ->
  (st (sk g o) <> SHUTDOWN -> st (sk g' o) = SHUTDOWN ->
   forall t c p, promoted (thr g t) (thr g' t) -> ts (thr g' t) = Blocked o c p false -> False) ->
  sock_ok g' o ->
  (forall o', o' <> o -> lpc g = LClosing o' -> lpc g' = LClosing o') ->
  glob_ok g' ->
  Inv g'.
Proof.
  intros (G & T & SS) En Ho Hoth Hev Hthr Hwake Hso Hl G'.
  split; [exact G'|]. split.
  - intro t. destruct (Hthr t) as [Hp|Hok]; [|exact Hok].
    eapply thr_ok_step; [apply (T t)|lia| |exact Hp|].
    + intros o' Ho'. destruct (Nat.eq_dec o' o) as [->|N]; [exact Hev|]. rewrite Hoth by assumption. apply evolves_refl.
    + intros o' c p E Hs. destruct (Nat.eq_dec o' o) as [->|N]; [|rewrite Hoth in Hs by assumption; exact Hs].
      destruct (sstate_eqb (st (sk g o)) SHUTDOWN) eqn:Es; [apply sstate_eqb_eq in Es; exact Es|].
      exfalso. eapply Hwake; eauto. intro X. apply sstate_eqb_eq in X. congruence.
  - intro o'. destruct (Nat.eq_dec o' o) as [->|N]; [exact Hso|].
    destruct (SS o') as (A & B & C & D & E & F). unfold sock_ok. rewrite (Hoth o' N), En.
    repeat split; auto; try apply C; auto. intro X. destruct (A X) as [Y|[Y|Y]]; auto.
Qed.

Lemma promoted_refl th : promoted th th.
Proof. left; reflexivity. Qed.

(* closing an object: queues cleared, SHUTDOWN, every condition of that kind notified *)
Lemma close_inv g o s1 term' held' lpc' :
  Inv g -> o < nsk g ->
  kd s1 = kd (sk g o) -> tabled s1 = tabled (sk g o) -> intab s1 = false \/ intab s1 = intab (sk g o) ->
  (tabled s1 = false -> bound s1 = false /\ intab s1 = false) ->
  (forall o', o' <> o -> lpc g = LClosing o' -> lpc' = LClosing o') ->
  glob_ok (mkG (var g) (upd (sk g) o (tco_close s1)) (nsk g) (wake_all (thr g) o (close_conds (kd s1))) term' held' lpc') ->
  Inv (mkG (var g) (upd (sk g) o (tco_close s1)) (nsk g) (wake_all (thr g) o (close_conds (kd s1))) term' held' lpc').
Proof.
  intros HI Ho Ek Et Ei Hu Hl G'. pose proof HI as (G & T & SS).
  apply (frame_inv g _ o HI); cbn.
  - reflexivity.
  - exact Ho.
  - intros o' N. apply upd_other; assumption.
  - rewrite upd_same. unfold evolves, tco_close. cbn. rewrite Ek, Et. auto.
  - intro t. left. apply wake_all_promoted.
  - rewrite upd_same. intros Hne _ t c p Hp E.
    assert (Eold : ts (thr g t) = Blocked o c p false).
    { destruct (wake_all_promoted (thr g) o (close_conds (kd s1)) t) as [Eq|(o2 & c2 & p2 & E2 & Eq)]; rewrite Eq in E; [exact E|].
      cbn in E. discriminate. }
    pose proof (T t) as Tt. unfold thr_ok in Tt. rewrite Eold in Tt. destruct Tt as (_ & _ & _ & Hc & _).
    rewrite <- Ek in Hc. rewrite (wake_all_hit _ _ _ _ _ _ Eold Hc) in E. discriminate.
  - destruct (SS o) as (A & B & C & D & E & F). unfold sock_ok. cbn. rewrite upd_same. unfold tco_close. cbn.
    split; [intro; right; left; reflexivity|]. split; [intros; discriminate|].
    split; [intro H; destruct (Hu H); auto|]. split; [auto|].
    split; [intro H; rewrite Et; apply E; congruence|intro; lia].
  - exact Hl.
  - exact G'.
Qed.

Ltac inv_same g :=
  match goal with
  | HI : Inv g |- Inv g => exact HI
  end.

Lemma glob_ok_thr g thr' :
  glob_ok g -> glob_ok (mkG (var g) (sk g) (nsk g) thr' (term g) (llc_held g) (lpc g)).
Proof. unfold glob_ok. cbn. auto. Qed.

(* only threads change (promotion, or a state that is established afresh) *)
Lemma threads_inv g thr' :
  Inv g -> (forall t, promoted (thr g t) (thr' t) \/ thr_ok g (thr' t)) ->
  Inv (mkG (var g) (sk g) (nsk g) thr' (term g) (llc_held g) (lpc g)).
Proof.
  intros HI Ht. pose proof HI as (G & T & SS). destruct G as (Gv & Gd & Gt & Gc & Gh & Gn).
  apply (frame_inv g _ 0 HI); cbn.
  - reflexivity.
  - exact Gn.
  - reflexivity.
  - apply evolves_refl.
  - intro t. destruct (Ht t) as [H|H]; [left; exact H|right].
    unfold thr_ok in *. cbn. exact H.
  - intros Hne Hs. contradiction.
  - destruct (SS 0) as (A & B & C & D & E & F). unfold sock_ok. cbn. repeat split; auto; apply C; auto.
  - auto.
  - unfold glob_ok. cbn. auto 10.
Qed.

(* an object changes without being shut, without entering the table, threads are promoted *)
Lemma data_inv g o s' thr' :
  Inv g -> o < nsk g -> intab (sk g o) = true ->
  kd s' = kd (sk g o) -> tabled s' = tabled (sk g o) -> intab s' = intab (sk g o) -> bound s' = bound (sk g o) ->
  (st s' = st (sk g o) \/ (st (sk g o) = ESTABLISHED /\ st s' = CLOSE_WAIT)) ->
  (kd s' = DLC -> st s' = SHUTDOWN -> rq s' = []) ->
  (forall t, promoted (thr g t) (thr' t)) ->
  Inv (on_sock g o s' thr').
Proof.
  intros HI Ho Hi Ek Et Ei Eb Es Hq Hp. pose proof HI as (G & T & SS). destruct G as (Gv & Gd & Gt & Gc & Gh & Gn).
  destruct (SS o) as (A & B & C & D & E & F).
  assert (Htab : tabled (sk g o) = true).
  { destruct (tabled (sk g o)) eqn:X; [reflexivity|]. destruct (C eq_refl) as (_ & Y & _). congruence. }
  unfold on_sock. apply (frame_inv g _ o HI); cbn.
  - reflexivity.
  - exact Ho.
  - intros o' N. apply upd_other; assumption.
  - rewrite upd_same. unfold evolves. rewrite Ek, Et. split; [reflexivity|]. split; [auto|].
    intro X. destruct Es as [->|(Y & _)]; [exact X|congruence].
  - intro t. left. apply Hp.
  - rewrite upd_same. intros Hne Hs. exfalso. destruct Es as [Y|(_ & Y)]; congruence.
  - unfold sock_ok. cbn. rewrite upd_same.
    split; [intro; left; congruence|]. split; [intros; congruence|].
    split; [intro; congruence|]. split; [exact Hq|]. split; [intro; congruence|intro; lia].
  - auto.
  - unfold glob_ok. cbn. split; [exact Gv|]. split; [|split; [|split; [|split]]]; auto.
    + intro Hd. destruct (Gd Hd) as (X & Y & Z). rewrite Z in Hi. discriminate.
    + intro X. destruct (Nat.eq_dec 0 o) as [<-|N]; [rewrite upd_same; rewrite Ei; auto|rewrite upd_other by assumption; auto].
    + intros o' X. destruct (Gc o' X) as (Gc1 & Gc2). split; [|exact Gc2].
      destruct (Nat.eq_dec o' o) as [->|N]; [rewrite upd_same; rewrite Ei; auto|rewrite upd_other by assumption; auto].
Qed.
