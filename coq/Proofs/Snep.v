(* C06 - SNEP put / get / refusal over the two-peer system.  Reaction lemmas for the client
   and server automata, reassembly by induction over the fragment list, the complete runs,
   and (with Proofs/SnepSched.v) their extension to every interleaving and every channel
   implementation. *)
From Coq Require Import ZArith List Bool Lia ZifyBool.
From NV Require Import Base.Result Base.Bytes Base.PyPrims Model.Snep Proofs.SnepChunks Proofs.SnepSched.
Import ListNotations.
Open Scope Z_scope.

Section SnepProofs.
  Variable A : Type.
  Variable app_put : A -> list Z -> A * Z.
  Variable app_get : A -> list Z -> A * getres.
  Variables decodable complete : list Z -> bool.
  Variable miu_cs miu_sc max_acc : Z.
  Hypothesis Hmiu_cs : 6 <= miu_cs.
  Hypothesis Hmiu_sc : 6 <= miu_sc.

  Notation sreact := (snep_sys_react A app_put app_get decodable miu_sc max_acc).
  Notation sreact0 := (snep_react A app_put app_get decodable max_acc miu_sc).
  Notation creact := (cl_react complete miu_cs).
  Notation mks := (Build_srv A).
  Notation mkc := Build_csess.
  Notation G := (mkg csess (srv A)).
  Notation runS := (run csess (srv A) creact sreact list_chan miu_cs miu_sc).
  Notation respond' := (respond A app_put app_get decodable miu_sc).
  Notation process' := (process_snep_request A app_put app_get decodable).

  Definition hdr (rq L : Z) : list Z :=
    [16; rq; L / 16777216 mod 256; L / 65536 mod 256; L / 256 mod 256; L mod 256].
  Lemma len_hdr rq L body : len (hdr rq L ++ body) = 6 + len body.
  Proof. rewrite len_app. reflexivity. Qed.

  (* ------------------------------------------------------------ server reactions *)
  Lemma respond_st st st' a log data : respond' (mks st a log) data = respond' (mks st' a log) data.
  Proof. reflexivity. Qed.

  Lemma sreact0_first a log rq L body : 0 <= L <= 4294967295 ->
    sreact0 (mks SPoll a log) (IMsg (hdr rq L ++ body)) =
      if L >? max_acc then (mks SPoll a log, [RSP_REJECT])
      else if len body <? L then (mks (SMore (hdr rq L ++ body) L) a log, [RSP_CONTINUE])
      else respond' (mks SPoll a log) (hdr rq L ++ body).
  Proof.
    intro HL. unfold snep_react. cbn [sv_st hdr app]. rewrite unbe32_be32 by exact HL.
    change (Z.shiftr 16 4 >? 1) with false. cbv iota.
    destruct (L >? max_acc); [reflexivity|].
    change (16 :: rq :: L / 16777216 mod 256 :: L / 65536 mod 256 :: L / 256 mod 256 :: L mod 256 :: body)
      with (hdr rq L ++ body).
    rewrite len_hdr. replace (6 + len body - 6) with (len body) by lia.
    destruct (len body <? L); reflexivity.
  Qed.

  Lemma sreact0_more_stay a log data L m : len (data ++ m) - 6 < L ->
    sreact0 (mks (SMore data L) a log) (IMsg m) = (mks (SMore (data ++ m) L) a log, []).
  Proof. intro H. unfold snep_react. cbn [sv_st]. replace (len (data ++ m) - 6 <? L) with true by lia. reflexivity. Qed.
  Lemma sreact0_more_done a log data L m : L <= len (data ++ m) - 6 ->
    sreact0 (mks (SMore data L) a log) (IMsg m) = respond' (mks SPoll a log) (data ++ m).
  Proof. intro H. unfold snep_react. cbn [sv_st]. replace (len (data ++ m) - 6 <? L) with false by lia. reflexivity. Qed.

  Definition not_stopped (r : srv A * list (list Z)) : Prop := snep_server_stopped (fst r) = false.
  Lemma sreact_wrap s i : snep_server_stopped (fst (sreact0 s i)) = false ->
    sreact s i = (fst (sreact0 s i), map IMsg (snd (sreact0 s i))).
  Proof. intro H. unfold snep_sys_react. rewrite H. cbn [andb]. rewrite app_nil_r. reflexivity. Qed.

  (* all but the last fragment: the reassembly buffer grows, nothing is sent, no callback *)
  Lemma feed_more_stay : forall fs data a log L, len data + len (concat fs) - 6 < L ->
    feed sreact (mks (SMore data L) a log) (map IMsg fs) = (mks (SMore (data ++ concat fs) L) a log, []).
  Proof.
    induction fs as [|f fs IH]; intros data a log L H.
    - cbn [map feed concat]. rewrite app_nil_r. reflexivity.
    - cbn [map feed concat] in *. rewrite len_app in H. pose proof (len_nonneg (concat fs)).
      rewrite sreact_wrap; rewrite sreact0_more_stay by (rewrite len_app; lia); [|reflexivity].
      cbn [fst snd map app]. rewrite IH by (rewrite len_app; lia). rewrite <- app_assoc. reflexivity.
  Qed.

  (* the whole remainder: on the last fragment the request is complete and is processed once *)
  Lemma feed_more_all fs data a log L :
    Forall (fun c => c <> []) fs -> fs <> [] -> len data + len (concat fs) = L + 6 ->
    snep_server_stopped (fst (respond' (mks SPoll a log) (data ++ concat fs))) = false ->
    feed sreact (mks (SMore data L) a log) (map IMsg fs) =
      (fst (respond' (mks SPoll a log) (data ++ concat fs)),
       map IMsg (snd (respond' (mks SPoll a log) (data ++ concat fs)))).
  Proof.
    intros Hne Hnil Hlen Hst. destruct (exists_last Hnil) as (init & last & ->).
    apply Forall_app in Hne. destruct Hne as [_ Hlast]. inversion Hlast as [|? ? Hl _]; subst.
    rewrite concat_app in *. cbn [concat] in *. rewrite app_nil_r in *. rewrite len_app in Hlen.
    assert (0 < len last) by (destruct last; [congruence | rewrite len_cons; pose proof (len_nonneg last); lia]).
    rewrite map_app, feed_app. rewrite feed_more_stay by lia. cbn [fst snd map feed app].
    assert (E : sreact0 (mks (SMore (data ++ concat init) L) a log) (IMsg last) =
                respond' (mks SPoll a log) (data ++ concat init ++ last)).
    { rewrite sreact0_more_done by (rewrite !len_app; lia). rewrite <- app_assoc. reflexivity. }
    rewrite sreact_wrap; rewrite E; [|exact Hst]. rewrite app_nil_r. reflexivity.
  Qed.

  (* ------------------------------------------------------------ processing a complete request *)
  Lemma respond_put a log L msg : decodable msg = true -> 0 <= snd (app_put a msg) < 256 ->
    respond' (mks SPoll a log) (hdr 2 L ++ msg) =
      (mks SPoll (fst (app_put a msg)) (log ++ [CallPut msg]), [hdr (snd (app_put a msg)) 0]).
  Proof.
    intros Hdec Hcode. unfold respond, process_snep_request. cbn [hdr app sv_app sv_log].
    change (2 =? 1) with false. cbn [andb]. change (2 =? 2) with true. cbv iota. rewrite Hdec.
    unfold mk_response. replace ((0 <=? snd (app_put a msg)) && (snd (app_put a msg) <? 256)) with true by lia.
    change (pack_L (len [])) with (Ok [0; 0; 0; 0]). cbn [bind app].
    change (len [16; snd (app_put a msg); 0; 0; 0; 0]) with 6.
    replace (6 <=? miu_sc) with true by lia. reflexivity.
  Qed.

  Definition get_code_data (acc : Z) (r : getres) : Z * list Z :=
    match r with
    | GCode c => (c, [])
    | GMsg o => if len o >? acc then (193, []) else (129, o)
    | GEncodeError => (192, [])
    end.

  Lemma process_get a log L acc octets : 0 <= acc <= 4294967295 -> decodable octets = true ->
    process' a log (hdr 1 L ++ be32 acc ++ octets) =
      (fst (app_get a octets), log ++ [CallGet octets],
       mk_response (fst (get_code_data acc (snd (app_get a octets)))) (snd (get_code_data acc (snd (app_get a octets))))).
  Proof.
    intros Hacc Hdec. unfold process_snep_request.
    assert (Hl : 10 <=? len (hdr 1 L ++ be32 acc ++ octets) = true).
    { rewrite len_hdr, len_app. change (len (be32 acc)) with 4. pose proof (len_nonneg octets). lia. }
    cbn [hdr app be32] in *. change (1 =? 1) with true. rewrite Hl. cbn [andb]. cbv iota.
    rewrite unbe32_be32 by exact Hacc. rewrite Hdec. unfold get_code_data.
    destruct (snd (app_get a octets)) as [c|o|]; reflexivity.
  Qed.

  Lemma mk_response_ok code data : 0 <= code < 256 -> len data <= 4294967295 ->
    mk_response code data = Ok (hdr code (len data) ++ data).
  Proof.
    intros Hc Hl. unfold mk_response. replace ((0 <=? code) && (code <? 256)) with true by lia.
    rewrite pack_L_ok by (pose proof (len_nonneg data); lia). reflexivity.
  Qed.

  Lemma sreact0_cont a log rest :
    sreact0 (mks (SAwaitCont rest) a log) (IMsg REQ_CONTINUE) = (mks SPoll a log, rest).
  Proof. reflexivity. Qed.
  Lemma sreact0_close a log : sreact (mks SPoll a log) IClosed = (mks SClosed a log, []).
  Proof. reflexivity. Qed.

  (* ------------------------------------------------------------ client reactions *)
  Lemma start_ops_cons op ops results st outs :
    client_start miu_cs op = (st, outs) -> (forall r, st <> CDone r) ->
    start_ops miu_cs (op :: ops) results = (mkc st ops results, map IMsg outs).
  Proof. intros E Hnd. cbn [start_ops]. rewrite E. destruct st; try reflexivity. exfalso. eapply Hnd; reflexivity. Qed.

  Lemma creact_go st p r i st' outs :
    client_react complete st i = (st', outs) -> st <> CIdle -> (forall x, st' <> CDone x) ->
    creact (mkc st p r) i = (mkc st' p r, map IMsg outs).
  Proof.
    intros E Hni Hnd. unfold cl_react, csess_react. cbn [c_cur c_pending c_results].
    destruct st; try congruence; rewrite E; destruct st'; try reflexivity; exfalso; eapply Hnd; reflexivity.
  Qed.
  Lemma creact_done st p r i x outs :
    client_react complete st i = (CDone x, outs) -> st <> CIdle ->
    creact (mkc st p r) i = (fst (start_ops miu_cs p (r ++ [x])), map IMsg outs ++ snd (start_ops miu_cs p (r ++ [x]))).
  Proof.
    intros E Hni. unfold cl_react, csess_react. cbn [c_cur c_pending c_results].
    destruct st; try congruence; rewrite E; reflexivity.
  Qed.

  Lemma creact_cont k acc rest p r :
    creact (mkc (CAwaitCont k acc rest) p r) (IMsg RSP_CONTINUE) = (mkc (CAwaitResp k acc) p r, map IMsg rest).
  Proof. apply creact_go; [reflexivity | discriminate | discriminate]. Qed.

  Definition finish_hdr (k : ckind) (code : Z) (body : list Z) : cres :=
    if code =? 129 then match k with KPut => RBool true | KGet => ROctets body end else RSnepError code.
  Lemma finish_eq k code L body : finish k (hdr code L ++ body) = finish_hdr k code body.
  Proof. unfold finish, finish_hdr. cbn [hdr app]. destruct (code =? 129); [|reflexivity]. destruct k; reflexivity. Qed.

  Lemma creact_resp_whole k acc p r code L body : 0 <= L <= 4294967295 -> L <= acc -> L <= len body ->
    creact (mkc (CAwaitResp k acc) p r) (IMsg (hdr code L ++ body)) =
      (fst (start_ops miu_cs p (r ++ [finish_hdr k code body])), snd (start_ops miu_cs p (r ++ [finish_hdr k code body]))).
  Proof.
    intros HL Hacc Hlen.
    rewrite (creact_done _ _ _ _ (finish_hdr k code body) []); [reflexivity | | discriminate].
    cbn [client_react]. unfold recv_first. cbn [hdr app]. rewrite unbe32_be32 by exact HL.
    replace (L >? acc) with false by lia.
    change (16 :: code :: L / 16777216 mod 256 :: L / 65536 mod 256 :: L / 256 mod 256 :: L mod 256 :: body)
      with (hdr code L ++ body).
    rewrite len_hdr. replace (6 + len body - 6 <? L) with false by lia. rewrite finish_eq. reflexivity.
  Qed.

  Lemma creact_resp_first k acc p r code L body : 0 <= L <= 4294967295 -> L <= acc -> len body < L ->
    creact (mkc (CAwaitResp k acc) p r) (IMsg (hdr code L ++ body)) =
      (mkc (CMoreResp k (hdr code L ++ body) L) p r, [IMsg REQ_CONTINUE]).
  Proof.
    intros HL Hacc Hlen.
    apply (creact_go _ _ _ _ _ [REQ_CONTINUE]); [ | discriminate | discriminate].
    cbn [client_react]. unfold recv_first. cbn [hdr app]. rewrite unbe32_be32 by exact HL.
    replace (L >? acc) with false by lia.
    change (16 :: code :: L / 16777216 mod 256 :: L / 65536 mod 256 :: L / 256 mod 256 :: L mod 256 :: body)
      with (hdr code L ++ body).
    rewrite len_hdr. replace (6 + len body - 6 <? L) with true by lia. reflexivity.
  Qed.

  Lemma feed_cmore_stay : forall fs k data p r L, len data + len (concat fs) - 6 < L ->
    feed creact (mkc (CMoreResp k data L) p r) (map IMsg fs) = (mkc (CMoreResp k (data ++ concat fs) L) p r, []).
  Proof.
    induction fs as [|f fs IH]; intros k data p r L H.
    - cbn [map feed concat]. rewrite app_nil_r. reflexivity.
    - cbn [map feed concat] in *. rewrite len_app in H. pose proof (len_nonneg (concat fs)).
      rewrite (creact_go _ _ _ _ (CMoreResp k (data ++ f) L) []); [ | | discriminate | discriminate].
      + cbn [fst snd map app]. rewrite IH by (rewrite len_app; lia). rewrite <- app_assoc. reflexivity.
      + cbn [client_react]. replace (len (data ++ f) - 6 <? L) with true by (rewrite len_app; lia). reflexivity.
  Qed.

  Lemma feed_cmore_all fs k code data0 p r L :
    Forall (fun c => c <> []) fs -> fs <> [] -> len (hdr code L ++ data0) + len (concat fs) = L + 6 ->
    feed creact (mkc (CMoreResp k (hdr code L ++ data0) L) p r) (map IMsg fs) =
      (fst (start_ops miu_cs p (r ++ [finish_hdr k code (data0 ++ concat fs)])),
       snd (start_ops miu_cs p (r ++ [finish_hdr k code (data0 ++ concat fs)]))).
  Proof.
    intros Hne Hnil Hlen. destruct (exists_last Hnil) as (init & last & ->).
    apply Forall_app in Hne. destruct Hne as [_ Hlast]. inversion Hlast as [|? ? Hl _]; subst.
    rewrite concat_app in *. cbn [concat] in *. rewrite app_nil_r in *. rewrite !len_app in Hlen.
    assert (0 < len last) by (destruct last; [congruence | rewrite len_cons; pose proof (len_nonneg last); lia]).
    rewrite map_app, feed_app. rewrite feed_cmore_stay by (rewrite ?len_app; lia). cbn [fst snd map feed app].
    rewrite (creact_done _ _ _ _ (finish_hdr k code (data0 ++ concat init ++ last)) []); [ | | discriminate].
    - cbn [map app]. rewrite app_nil_r. reflexivity.
    - cbn [client_react]. rewrite <- !app_assoc.
      replace (len (hdr code L ++ data0 ++ concat init ++ last) - 6 <? L) with false by (rewrite !len_app; lia).
      rewrite finish_eq. reflexivity.
  Qed.

  (* ------------------------------------------------------------ sizes *)
  Lemma atb_map lim outs : Forall (fun m => len m <= lim) outs ->
    any_too_big lim (map IMsg outs) = false.
  Proof.
    induction 1 as [|m outs Hm _ IH]; [reflexivity|]. cbn [map any_too_big existsb too_big].
    unfold any_too_big in IH. rewrite IH. replace (len m >? lim) with false by lia. reflexivity.
  Qed.
  Lemma atb_one lim m : len m <= lim -> any_too_big lim [IMsg m] = false.
  Proof. intro H. apply (atb_map lim [m]). constructor; [exact H | constructor]. Qed.

  Lemma client_start_fits op : Forall (fun m => len m <= miu_cs) (snd (client_start miu_cs op)).
  Proof.
    assert (Hsr : forall k acc req, Forall (fun m => len m <= miu_cs) (snd (send_request miu_cs k acc req))).
    { intros k acc req. unfold send_request. destruct (len req <=? miu_cs) eqn:E; cbn [snd].
      - constructor; [lia | constructor].
      - constructor; [apply len_take_le; lia | constructor]. }
    destruct op as [o|o acc|o]; cbn [client_start].
    - destruct (snep_request (OpPut o)); try apply Hsr; constructor.
    - destruct (snep_request (OpGet o acc)); try apply Hsr; constructor.
    - cbn [snd]. apply chunks_le. lia.
  Qed.

  Lemma start_fits : forall ops results, any_too_big miu_cs (snd (start_ops miu_cs ops results)) = false.
  Proof.
    induction ops as [|op ops IH]; intro results; [reflexivity|].
    cbn [start_ops]. pose proof (client_start_fits op) as Hf.
    destruct (client_start miu_cs op) as [st outs]. cbn [snd] in Hf.
    destruct st; cbn [snd]; try (apply atb_map; exact Hf).
    rewrite any_too_big_app, IH, (atb_map _ _ Hf). reflexivity.
  Qed.

  (* ------------------------------------------------------------ the state between two operations *)
  Definition B (ops : list cop) (results : list cres) (a : A) (log : list call) :=
    G (fst (start_ops miu_cs ops results)) (mks SPoll a log) (snd (start_ops miu_cs ops results)) [] false.

  Lemma run_trans sa sb g g1 g2 : runS sa g = Some g1 -> runS sb g1 = Some g2 -> runS (sa ++ sb) g = Some g2.
  Proof. intros H1 H2. rewrite run_app, H1. exact H2. Qed.

  Lemma snep_init_B a ops : snep_init A list_chan miu_cs a ops = B ops [] a [].
  Proof.
    unfold snep_init, ginit, B, mkg. rewrite push_all_list, start_fits. reflexivity.
  Qed.

  (* ------------------------------------------------------------ phase 1: the request reaches the server *)
  Lemma request_run k acc rq body ops results a log :
    let L := len body in let req := hdr rq L ++ body in
    L <= 4294967295 -> L <= max_acc ->
    snep_server_stopped (fst (respond' (mks SPoll a log) req)) = false ->
    exists sch,
      runS sch (G (mkc (fst (send_request miu_cs k acc req)) ops results) (mks SPoll a log)
                  (map IMsg (snd (send_request miu_cs k acc req))) [] false) =
      Some (G (mkc (CAwaitResp k acc) ops results) (fst (respond' (mks SPoll a log) req)) []
              (map IMsg (snd (respond' (mks SPoll a log) req)))
              (any_too_big miu_sc (map IMsg (snd (respond' (mks SPoll a log) req))))).
  Proof.
    intros L req HL Hmax Hst. pose proof (len_nonneg body) as Hnn. fold L in Hnn.
    assert (Hreq : len req = 6 + L) by (unfold req; apply len_hdr).
    unfold send_request. destruct (len req <=? miu_cs) eqn:E; cbn [fst snd map].
    - (* one fragment *)
      exists [false]. cbn [run]. rewrite stepL_server.
      assert (Er : sreact0 (mks SPoll a log) (IMsg req) = respond' (mks SPoll a log) req).
      { unfold req. rewrite sreact0_first by lia. replace (L >? max_acc) with false by lia.
        unfold L. rewrite Z.ltb_irrefl. reflexivity. }
      rewrite sreact_wrap; rewrite Er; [|exact Hst]. reflexivity.
    - (* first fragment, Continue, remaining fragments *)
      set (first := take miu_cs req). set (rest := chunks miu_cs (drop miu_cs req)).
      assert (Hfirst : first = hdr rq L ++ take (miu_cs - 6) body).
      { unfold first, req. rewrite take_app_ge by (change (len (hdr rq L)) with 6; lia). reflexivity. }
      assert (Hlt : len (take (miu_cs - 6) body) = miu_cs - 6) by (apply len_take; fold L; lia).
      assert (Hrest_ne : rest <> []).
      { intro Hr. apply chunks_eq_nil in Hr. revert Hr. apply drop_nonempty. lia. }
      assert (Hcat : concat rest = drop miu_cs req) by (apply chunks_concat; lia).
      exists ([false; true] ++ repeat false (length (map IMsg rest))).
      eapply run_trans.
      + cbn [run]. rewrite stepL_server.
        assert (E1 : sreact0 (mks SPoll a log) (IMsg first) = (mks (SMore first L) a log, [RSP_CONTINUE])).
        { rewrite Hfirst. rewrite sreact0_first by lia. replace (L >? max_acc) with false by lia.
          replace (len (take (miu_cs - 6) body) <? L) with true by lia. reflexivity. }
        rewrite sreact_wrap; rewrite E1; [|reflexivity]. cbn [fst snd map app].
        rewrite atb_one by (change (len RSP_CONTINUE) with 6; lia). cbn [orb].
        rewrite stepL_client, creact_cont. cbn [fst snd app]. fold rest.
        rewrite atb_map by (apply chunks_le; lia). cbn [orb]. reflexivity.
      + rewrite <- (app_nil_r (map IMsg rest)) at 2. rewrite burst_server.
        assert (Hall : first ++ concat rest = req) by (rewrite Hcat; apply take_drop).
        rewrite feed_more_all.
        * rewrite Hall. cbn [orb app]. reflexivity.
        * apply chunks_nonempty; lia.
        * exact Hrest_ne.
        * rewrite Hcat. unfold first. rewrite len_take, len_drop by lia. lia.
        * rewrite Hall. exact Hst.
  Qed.

  (* ------------------------------------------------------------ phase 2: the response reaches the client *)
  Lemma response_run k acc code body ops results a log :
    let L := len body in let resp := hdr code L ++ body in
    L <= 4294967295 -> L <= acc ->
    exists sch,
      runS sch (G (mkc (CAwaitResp k acc) ops results)
                  (fst (if len resp <=? miu_sc then (mks SPoll a log, [resp])
                        else (mks (SAwaitCont (chunks miu_sc (drop miu_sc resp))) a log, [take miu_sc resp])))
                  []
                  (map IMsg (snd (if len resp <=? miu_sc then (mks SPoll a log, [resp])
                        else (mks (SAwaitCont (chunks miu_sc (drop miu_sc resp))) a log, [take miu_sc resp]))))
                  false) =
      Some (B ops (results ++ [finish_hdr k code body]) a log).
  Proof.
    intros L resp HL Hacc. pose proof (len_nonneg body) as Hnn. fold L in Hnn.
    assert (Hresp : len resp = 6 + L) by (unfold resp; apply len_hdr).
    destruct (len resp <=? miu_sc) eqn:E; cbn [fst snd map].
    - exists [true]. cbn [run]. rewrite stepL_client. unfold resp.
      rewrite creact_resp_whole by (fold L; lia). cbn [fst snd app orb]. rewrite start_fits. reflexivity.
    - set (first := take miu_sc resp). set (rest := chunks miu_sc (drop miu_sc resp)).
      assert (Hfirst : first = hdr code L ++ take (miu_sc - 6) body).
      { unfold first, resp. rewrite take_app_ge by (change (len (hdr code L)) with 6; lia). reflexivity. }
      assert (Hlt : len (take (miu_sc - 6) body) = miu_sc - 6) by (apply len_take; fold L; lia).
      assert (Hrest_ne : rest <> []).
      { intro Hr. apply chunks_eq_nil in Hr. revert Hr. apply drop_nonempty. lia. }
      assert (Hcat : concat rest = drop miu_sc resp) by (apply chunks_concat; lia).
      assert (Hcat' : concat rest = drop (miu_sc - 6) body).
      { rewrite Hcat. unfold resp. rewrite drop_app_ge by (change (len (hdr code L)) with 6; lia). reflexivity. }
      exists ([true; false] ++ repeat true (length (map IMsg rest))).
      eapply run_trans.
      + cbn [run]. rewrite stepL_client. rewrite Hfirst.
        rewrite creact_resp_first by lia. cbn [fst snd app].
        rewrite atb_one by (change (len REQ_CONTINUE) with 6; lia). cbn [orb].
        rewrite stepL_server.
        rewrite sreact_wrap; rewrite sreact0_cont; [|reflexivity]. cbn [fst snd app]. fold rest.
        rewrite atb_map by (apply chunks_le; lia). cbn [orb]. reflexivity.
      + rewrite <- (app_nil_r (map IMsg rest)) at 2. rewrite burst_client.
        rewrite feed_cmore_all.
        * rewrite Hcat', take_drop. cbn [fst snd app orb]. rewrite start_fits. reflexivity.
        * apply chunks_nonempty; lia.
        * exact Hrest_ne.
        * rewrite len_hdr, Hlt, Hcat', len_drop by (fold L; lia). fold L. lia.
  Qed.

  (* ------------------------------------------------------------ one operation, from rest to rest *)
  Definition put_result (code : Z) : cres := if code =? 129 then RBool true else RSnepError code.

  Lemma put_op msg ops results a log :
    len msg <= 4294967295 -> len msg <= max_acc -> decodable msg = true ->
    0 <= snd (app_put a msg) < 256 ->
    exists sch, runS sch (B (OpPut msg :: ops) results a log) =
                Some (B ops (results ++ [put_result (snd (app_put a msg))]) (fst (app_put a msg)) (log ++ [CallPut msg])).
  Proof.
    intros HL Hmax Hdec Hcode. pose proof (len_nonneg msg) as Hnn.
    set (req := hdr 2 (len msg) ++ msg).
    assert (Hstart : client_start miu_cs (OpPut msg) = send_request miu_cs KPut 0 req).
    { cbn [client_start snep_request]. rewrite pack_L_ok by lia. reflexivity. }
    assert (Hrsp : respond' (mks SPoll a log) req =
                   (mks SPoll (fst (app_put a msg)) (log ++ [CallPut msg]), [hdr (snd (app_put a msg)) 0]))
      by (apply respond_put; assumption).
    destruct (request_run KPut 0 2 msg ops results a log HL Hmax) as (s1 & H1).
    { fold req. rewrite Hrsp. reflexivity. }
    fold req in H1. rewrite Hrsp in H1. cbn [fst snd map] in H1.
    rewrite atb_one in H1 by (change (len (hdr (snd (app_put a msg)) 0)) with 6; lia).
    destruct (response_run KPut 0 (snd (app_put a msg)) [] ops results (fst (app_put a msg)) (log ++ [CallPut msg]))
      as (s2 & H2); [cbn; lia | cbn; lia |].
    change (len []) with 0 in H2. rewrite app_nil_r in H2.
    change (len (hdr (snd (app_put a msg)) 0)) with 6 in H2.
    replace (6 <=? miu_sc) with true in H2 by lia. cbn [fst snd map] in H2.
    exists (s1 ++ s2). eapply run_trans; [|exact H2].
    unfold B. rewrite (start_ops_cons _ _ _ (fst (send_request miu_cs KPut 0 req)) (snd (send_request miu_cs KPut 0 req))).
    - exact H1.
    - rewrite Hstart. destruct (send_request miu_cs KPut 0 req); reflexivity.
    - unfold send_request. destruct (len req <=? miu_cs); discriminate.
  Qed.

  Lemma get_op octets acc ops results a log :
    0 <= acc <= 4294967295 -> 4 + len octets <= 4294967295 -> 4 + len octets <= max_acc ->
    decodable octets = true ->
    let cd := get_code_data acc (snd (app_get a octets)) in
    0 <= fst cd < 256 ->
    exists sch, runS sch (B (OpGet octets acc :: ops) results a log) =
                Some (B ops (results ++ [finish_hdr KGet (fst cd) (snd cd)]) (fst (app_get a octets)) (log ++ [CallGet octets])).
  Proof.
    intros Hacc HL Hmax Hdec cd Hcode. pose proof (len_nonneg octets) as Hnn.
    set (body := be32 acc ++ octets).
    assert (Hbody : len body = 4 + len octets) by (unfold body; rewrite len_app; reflexivity).
    set (req := hdr 1 (len body) ++ body).
    assert (Hstart : client_start miu_cs (OpGet octets acc) = send_request miu_cs KGet acc req).
    { cbn [client_start snep_request]. rewrite !pack_L_ok by lia. cbn [bind]. unfold req. rewrite Hbody. reflexivity. }
    assert (Hdata : len (snd cd) <= acc /\ 0 <= len (snd cd)).
    { split; [|apply len_nonneg]. unfold cd, get_code_data. destruct (snd (app_get a octets)) as [c|o|].
      - cbn; lia.
      - destruct (len o >? acc) eqn:E; cbn [snd]; [cbn; lia | lia].
      - cbn; lia. }
    set (resp := hdr (fst cd) (len (snd cd)) ++ snd cd).
    assert (Hrsp : respond' (mks SPoll a log) req =
                   if len resp <=? miu_sc then (mks SPoll (fst (app_get a octets)) (log ++ [CallGet octets]), [resp])
                   else (mks (SAwaitCont (chunks miu_sc (drop miu_sc resp))) (fst (app_get a octets)) (log ++ [CallGet octets]),
                         [take miu_sc resp])).
    { unfold respond. cbn [sv_app sv_log]. unfold req, body. rewrite process_get by assumption.
      fold cd. rewrite mk_response_ok by lia. fold resp. reflexivity. }
    destruct (request_run KGet acc 1 body ops results a log) as (s1 & H1); [lia | lia | |].
    { fold req. rewrite Hrsp. destruct (len resp <=? miu_sc); reflexivity. }
    fold req in H1.
    destruct (response_run KGet acc (fst cd) (snd cd) ops results (fst (app_get a octets)) (log ++ [CallGet octets]))
      as (s2 & H2); [lia | lia |]. fold resp in H2.
    exists (s1 ++ s2). eapply run_trans; [|exact H2].
    unfold B. rewrite (start_ops_cons _ _ _ (fst (send_request miu_cs KGet acc req)) (snd (send_request miu_cs KGet acc req))).
    - etransitivity; [exact H1|]. rewrite Hrsp. f_equal. f_equal.
      destruct (len resp <=? miu_sc) eqn:E; cbn [fst snd map].
      + apply atb_one. lia.
      + apply atb_one. apply len_take_le. lia.
    - rewrite Hstart. destruct (send_request miu_cs KGet acc req); reflexivity.
    - unfold send_request. destruct (len req <=? miu_cs); discriminate.
  Qed.

  (* a request whose length field exceeds max_acceptable_length: Reject, nothing else happens *)
  Definition refused_result (k : ckind) (reqlen : Z) : cres :=
    if reqlen <=? miu_cs then RSnepError 255 else send_failed k.

  Lemma excess_run k acc rq body ops results a log :
    let L := len body in let req := hdr rq L ++ body in
    L <= 4294967295 -> max_acc < L -> 0 <= acc ->
    exists sch,
      runS sch (G (mkc (fst (send_request miu_cs k acc req)) ops results) (mks SPoll a log)
                  (map IMsg (snd (send_request miu_cs k acc req))) [] false) =
      Some (B ops (results ++ [refused_result k (len req)]) a log).
  Proof.
    intros L req HL Hmax Hacc. pose proof (len_nonneg body) as Hnn. fold L in Hnn.
    assert (Hreq : len req = 6 + L) by (unfold req; apply len_hdr).
    assert (Hrej : forall b, sreact (mks SPoll a log) (IMsg (hdr rq L ++ b)) = (mks SPoll a log, [IMsg RSP_REJECT])).
    { intro b. rewrite sreact_wrap; rewrite sreact0_first by lia; replace (L >? max_acc) with true by lia; reflexivity. }
    exists [false; true]. unfold refused_result, send_request.
    destruct (len req <=? miu_cs) eqn:E; cbn [fst snd map run].
    - rewrite stepL_server. unfold req. rewrite Hrej. cbn [fst snd app].
      rewrite atb_one by (change (len RSP_REJECT) with 6; lia). cbn [orb].
      rewrite stepL_client. change RSP_REJECT with (hdr 255 0 ++ []).
      rewrite creact_resp_whole by (cbn; lia). cbn [fst snd app orb]. rewrite start_fits. reflexivity.
    - rewrite stepL_server. unfold req.
      rewrite take_app_ge by (change (len (hdr rq L)) with 6; lia). rewrite Hrej. cbn [fst snd app].
      rewrite atb_one by (change (len RSP_REJECT) with 6; lia). cbn [orb].
      rewrite stepL_client.
      rewrite (creact_done _ _ _ _ (send_failed k) []); [ | reflexivity | discriminate].
      cbn [fst snd map app orb]. rewrite start_fits. reflexivity.
  Qed.

  Lemma put_excess_op msg ops results a log :
    len msg <= 4294967295 -> max_acc < len msg ->
    exists sch, runS sch (B (OpPut msg :: ops) results a log) =
                Some (B ops (results ++ [refused_result KPut (6 + len msg)]) a log).
  Proof.
    intros HL Hmax. pose proof (len_nonneg msg) as Hnn. set (req := hdr 2 (len msg) ++ msg).
    assert (Hstart : client_start miu_cs (OpPut msg) = send_request miu_cs KPut 0 req).
    { cbn [client_start snep_request]. rewrite pack_L_ok by lia. reflexivity. }
    destruct (excess_run KPut 0 2 msg ops results a log HL Hmax ltac:(lia)) as (sch & H).
    fold req in H. replace (len req) with (6 + len msg) in H by (symmetry; apply len_hdr).
    exists sch. unfold B at 1.
    rewrite (start_ops_cons _ _ _ (fst (send_request miu_cs KPut 0 req)) (snd (send_request miu_cs KPut 0 req))).
    - exact H.
    - rewrite Hstart. destruct (send_request miu_cs KPut 0 req); reflexivity.
    - unfold send_request. destruct (len req <=? miu_cs); discriminate.
  Qed.

  Lemma get_excess_op octets acc ops results a log :
    0 <= acc <= 4294967295 -> 4 + len octets <= 4294967295 -> max_acc < 4 + len octets ->
    exists sch, runS sch (B (OpGet octets acc :: ops) results a log) =
                Some (B ops (results ++ [refused_result KGet (10 + len octets)]) a log).
  Proof.
    intros Hacc HL Hmax. pose proof (len_nonneg octets) as Hnn.
    set (body := be32 acc ++ octets).
    assert (Hbody : len body = 4 + len octets) by (unfold body; rewrite len_app; reflexivity).
    set (req := hdr 1 (len body) ++ body).
    assert (Hstart : client_start miu_cs (OpGet octets acc) = send_request miu_cs KGet acc req).
    { cbn [client_start snep_request]. rewrite !pack_L_ok by lia. cbn [bind]. unfold req. rewrite Hbody. reflexivity. }
    destruct (excess_run KGet acc 1 body ops results a log) as (sch & H); [lia | lia | lia |].
    fold req in H. replace (len req) with (10 + len octets) in H by (unfold req; rewrite len_hdr; lia).
    exists sch. unfold B at 1.
    rewrite (start_ops_cons _ _ _ (fst (send_request miu_cs KGet acc req)) (snd (send_request miu_cs KGet acc req))).
    - exact H.
    - rewrite Hstart. destruct (send_request miu_cs KGet acc req); reflexivity.
    - unfold send_request. destruct (len req <=? miu_cs); discriminate.
  Qed.

  (* ------------------------------------------------------------ the end of the session *)
  Definition final (results : list cres) (a : A) (log : list call) :=
    G (mkc CIdle [] results) (mks SClosed a log) [] [] false.
  Lemma close_run results a log : runS [false] (B [] results a log) = Some (final results a log).
  Proof. unfold B. cbn [start_ops fst snd run]. rewrite stepL_server, sreact0_close. reflexivity. Qed.
  Lemma final_quiescent results a log : quiescentL _ _ creact sreact miu_cs miu_sc (final results a log).
  Proof. split; reflexivity. Qed.

  (* ------------------------------------------------------------ sessions *)
  (* what the property demands of a list of operations performed on one connection, given the
     application state a: every message is within the 32 bit length field, is an NDEF message for
     the decoder, the application answers with a byte-sized code; messages above the acceptable
     length are allowed (they are refused) *)
  Fixpoint session_ok (a : A) (ops : list cop) : Prop :=
    match ops with
    | [] => True
    | OpPut msg :: r =>
        len msg <= 4294967295 /\
        (if len msg <=? max_acc
         then (decodable msg = true /\ 0 <= snd (app_put a msg) < 256 /\ session_ok (fst (app_put a msg)) r)
         else session_ok a r)
    | OpGet o acc :: r =>
        0 <= acc <= 4294967295 /\ 4 + len o <= 4294967295 /\
        (if 4 + len o <=? max_acc
         then (decodable o = true /\ 0 <= fst (get_code_data acc (snd (app_get a o))) < 256 /\
               session_ok (fst (app_get a o)) r)
         else session_ok a r)
    | OpHo _ :: _ => False
    end.
  Fixpoint session_results (a : A) (ops : list cop) : list cres :=
    match ops with
    | [] => []
    | OpPut msg :: r =>
        if len msg <=? max_acc then put_result (snd (app_put a msg)) :: session_results (fst (app_put a msg)) r
        else refused_result KPut (6 + len msg) :: session_results a r
    | OpGet o acc :: r =>
        if 4 + len o <=? max_acc
        then finish_hdr KGet (fst (get_code_data acc (snd (app_get a o)))) (snd (get_code_data acc (snd (app_get a o))))
             :: session_results (fst (app_get a o)) r
        else refused_result KGet (10 + len o) :: session_results a r
    | OpHo _ :: r => session_results a r
    end.
  Fixpoint session_log (a : A) (ops : list cop) : list call :=
    match ops with
    | [] => []
    | OpPut msg :: r =>
        if len msg <=? max_acc then CallPut msg :: session_log (fst (app_put a msg)) r else session_log a r
    | OpGet o acc :: r =>
        if 4 + len o <=? max_acc then CallGet o :: session_log (fst (app_get a o)) r else session_log a r
    | OpHo _ :: r => session_log a r
    end.
  Fixpoint session_app (a : A) (ops : list cop) : A :=
    match ops with
    | [] => a
    | OpPut msg :: r => if len msg <=? max_acc then session_app (fst (app_put a msg)) r else session_app a r
    | OpGet o acc :: r => if 4 + len o <=? max_acc then session_app (fst (app_get a o)) r else session_app a r
    | OpHo _ :: r => session_app a r
    end.

  Lemma session_run : forall ops results a log, session_ok a ops ->
    exists sch, runS sch (B ops results a log) =
                Some (B [] (results ++ session_results a ops) (session_app a ops) (log ++ session_log a ops)).
  Proof.
    induction ops as [|op ops IH]; intros results a log Hok.
    - exists []. cbn [run session_results session_log session_app]. rewrite !app_nil_r. reflexivity.
    - destruct op as [msg|o acc|o]; cbn [session_ok session_results session_log session_app] in *.
      + destruct Hok as (HL & Hok). destruct (len msg <=? max_acc) eqn:E.
        * destruct Hok as (Hdec & Hcode & Hok).
          destruct (put_op msg ops results a log HL ltac:(lia) Hdec Hcode) as (s1 & H1).
          destruct (IH (results ++ [put_result (snd (app_put a msg))]) _ (log ++ [CallPut msg]) Hok) as (s2 & H2).
          exists (s1 ++ s2). rewrite <- !app_assoc in H2. eapply run_trans; eassumption.
        * destruct (put_excess_op msg ops results a log HL ltac:(lia)) as (s1 & H1).
          destruct (IH (results ++ [refused_result KPut (6 + len msg)]) a log Hok) as (s2 & H2).
          exists (s1 ++ s2). rewrite <- !app_assoc in H2. eapply run_trans; eassumption.
      + destruct Hok as (Hacc & HL & Hok). destruct (4 + len o <=? max_acc) eqn:E.
        * destruct Hok as (Hdec & Hcode & Hok).
          destruct (get_op o acc ops results a log Hacc HL ltac:(lia) Hdec Hcode) as (s1 & H1).
          destruct (IH (results ++ [finish_hdr KGet (fst (get_code_data acc (snd (app_get a o))))
                                               (snd (get_code_data acc (snd (app_get a o))))]) _
                       (log ++ [CallGet o]) Hok) as (s2 & H2).
          exists (s1 ++ s2). rewrite <- !app_assoc in H2. eapply run_trans; eassumption.
        * destruct (get_excess_op o acc ops results a log Hacc HL ltac:(lia)) as (s1 & H1).
          destruct (IH (results ++ [refused_result KGet (10 + len o)]) a log Hok) as (s2 & H2).
          exists (s1 ++ s2). rewrite <- !app_assoc in H2. eapply run_trans; eassumption.
      + contradiction.
  Qed.

  (* ------------------------------------------------------------ every interleaving, every channel *)
  Section AnyChannel.
    Variable C : chan_ops.
    Variable Cok : chan_ok C.
    Notation runC := (run csess (srv A) creact sreact C miu_cs miu_sc).

    (* whatever deliveries have happened so far, the run can be completed, every completion has
       the same number n of deliveries, and it ends with nothing in transit, the client idle
       with the given results, the server loop left after the client's disconnect, with the given
       application state and callback log, and no send ever exceeded the MIU *)
    Definition snep_ends_in (a : A) (ops : list cop) (results : list cres) (a' : A) (log : list call) : Prop :=
      exists n, forall sch g, runC sch (snep_init A C miu_cs a ops) = Some g ->
        exists sch' g', (length sch + length sch' = n)%nat /\ runC sch' g = Some g' /\
          g_c g' = mkc CIdle [] results /\ g_s g' = mks SClosed a' log /\
          qlist C Cok (g_cs g') = [] /\ qlist C Cok (g_sc g') = [] /\ g_err g' = false.

    Lemma ends_from_run a ops sch results a' log :
      runS sch (B ops [] a []) = Some (B [] results a' log) -> snep_ends_in a ops results a' log.
    Proof.
      intro Hrun. exists (length (sch ++ [false])). intros sch1 g Hr.
      destruct (refine_always_ends csess (srv A) creact sreact miu_cs miu_sc C Cok (length (sch ++ [false]))
                  (snep_init A C miu_cs a ops) (final results a' log)) with (sch := sch1) (g := g)
        as (sch' & g' & Hl & Hr' & Habs); [|exact Hr|].
      - intros sch2 g2 H2. unfold snep_init in H2. rewrite ginit_abs in H2.
        change (ginit csess (srv A) list_chan miu_cs (fst (start_ops miu_cs ops [])) (snd (start_ops miu_cs ops []))
                  {| sv_st := SPoll; sv_app := a; sv_log := [] |}) with (snep_init A list_chan miu_cs a ops) in H2.
        rewrite snep_init_B in H2.
        apply (confluence csess (srv A) creact sreact miu_cs miu_sc (length (sch ++ [false])) (sch ++ [false])
                 (B ops [] a []) (final results a' log)); [reflexivity | | apply final_quiescent | exact H2].
        eapply run_trans; [exact Hrun | apply close_run].
      - exists sch', g'. split; [exact Hl|]. split; [exact Hr'|].
        unfold absg, final, mkg in Habs. inversion Habs. repeat split; reflexivity.
    Qed.

    Theorem snep_session_exact a ops : session_ok a ops ->
      snep_ends_in a ops (session_results a ops) (session_app a ops) (session_log a ops).
    Proof.
      intro Hok. destruct (session_run ops [] a [] Hok) as (sch & H). cbn [app] in H.
      eapply ends_from_run. exact H.
    Qed.

    (* put: delivered exactly once, octet for octet; the client gets Success *)
    Theorem snep_put_exact a msg :
      len msg <= 4294967295 -> len msg <= max_acc -> decodable msg = true -> snd (app_put a msg) = 129 ->
      snep_ends_in a [OpPut msg] [RBool true] (fst (app_put a msg)) [CallPut msg].
    Proof.
      intros HL Hmax Hdec Hcode.
      pose proof (snep_session_exact a [OpPut msg]) as H.
      cbn [session_ok session_results session_log session_app] in H.
      replace (len msg <=? max_acc) with true in H by lia. rewrite Hcode in H. apply H.
      repeat split; try assumption; lia.
    Qed.

    (* get: request delivered exactly once, response returned octet for octet *)
    Theorem snep_get_exact a octets acc rsp :
      0 <= acc <= 4294967295 -> 4 + len octets <= 4294967295 -> 4 + len octets <= max_acc ->
      decodable octets = true -> snd (app_get a octets) = GMsg rsp -> len rsp <= acc ->
      snep_ends_in a [OpGet octets acc] [ROctets rsp] (fst (app_get a octets)) [CallGet octets].
    Proof.
      intros Hacc HL Hmax Hdec Hrsp Hfit.
      pose proof (snep_session_exact a [OpGet octets acc]) as H.
      cbn [session_ok session_results session_log session_app] in H.
      replace (4 + len octets <=? max_acc) with true in H by lia. rewrite Hrsp in H.
      unfold get_code_data in H. replace (len rsp >? acc) with false in H by lia. cbn [fst snd] in H.
      apply H. repeat split; try assumption; lia.
    Qed.

    (* a message above the server's acceptable length: Reject, no callback, nothing delivered *)
    Theorem snep_excess_refused_put a msg :
      len msg <= 4294967295 -> max_acc < len msg ->
      snep_ends_in a [OpPut msg] [if 6 + len msg <=? miu_cs then RSnepError 255 else RBool false] a [].
    Proof.
      intros HL Hmax. pose proof (snep_session_exact a [OpPut msg]) as H.
      cbn [session_ok session_results session_log session_app] in H.
      replace (len msg <=? max_acc) with false in H by lia. apply H. split; [exact HL | exact I].
    Qed.
    Theorem snep_excess_refused_get a octets acc :
      0 <= acc <= 4294967295 -> 4 + len octets <= 4294967295 -> max_acc < 4 + len octets ->
      snep_ends_in a [OpGet octets acc] [if 10 + len octets <=? miu_cs then RSnepError 255 else RNone] a [].
    Proof.
      intros Hacc HL Hmax. pose proof (snep_session_exact a [OpGet octets acc]) as H.
      cbn [session_ok session_results session_log session_app] in H.
      replace (4 + len octets <=? max_acc) with false in H by lia. apply H. repeat split; try assumption; lia.
    Qed.
    (* a response above the client's acceptable length: ExcessData, no part of it is returned *)
    Theorem snep_excess_refused_response a octets acc rsp :
      0 <= acc <= 4294967295 -> 4 + len octets <= 4294967295 -> 4 + len octets <= max_acc ->
      decodable octets = true -> snd (app_get a octets) = GMsg rsp -> acc < len rsp ->
      snep_ends_in a [OpGet octets acc] [RSnepError 193] (fst (app_get a octets)) [CallGet octets].
    Proof.
      intros Hacc HL Hmax Hdec Hrsp Hfit.
      pose proof (snep_session_exact a [OpGet octets acc]) as H.
      cbn [session_ok session_results session_log session_app] in H.
      replace (4 + len octets <=? max_acc) with true in H by lia. rewrite Hrsp in H.
      unfold get_code_data in H. replace (len rsp >? acc) with true in H by lia. cbn [fst snd] in H.
      apply H. repeat split; try assumption; lia.
    Qed.
  End AnyChannel.

  (* the connection breaks during the transfer of a put request: the loop processes what it has;
     if the decoder rejects those octets (they are a proper prefix of an NDEF message) no
     callback is made *)
  Lemma snep_broken_transfer_no_callback a log L part : decodable part = false ->
    sv_log (fst (sreact (mks (SMore (hdr 2 L ++ part) L) a log) IClosed)) = log /\
    sv_app (fst (sreact (mks (SMore (hdr 2 L ++ part) L) a log) IClosed)) = a /\
    snd (sreact (mks (SMore (hdr 2 L ++ part) L) a log) IClosed) = [].
  Proof.
    intro Hdec. unfold snep_sys_react, snep_react. cbn [sv_st fst snd is_closed_in negb andb app map].
    rewrite !andb_false_r. cbn [app].
    unfold respond, process_snep_request. cbn [hdr app sv_app sv_log].
    change (2 =? 1) with false. cbn [andb]. change (2 =? 2) with true. cbv iota. rewrite Hdec.
    repeat split; try reflexivity; unfold mk_response; cbn; destruct (6 <=? miu_sc); reflexivity.
  Qed.

  (* the executable schedule (client first) reaches the same end *)
  Theorem snep_run_cp_ends a ops : session_ok a ops ->
    exists n, forall k, (n <= k)%nat ->
      run_cp csess (srv A) creact sreact list_chan miu_cs miu_sc k (snep_init A list_chan miu_cs a ops) =
      final (session_results a ops) (session_app a ops) (session_log a ops).
  Proof.
    intro Hok. destruct (session_run ops [] a [] Hok) as (sch & H). cbn [app] in H.
    exists (length (sch ++ [false])). intros k Hk. rewrite snep_init_B.
    eapply run_cp_ends; [reflexivity | | apply final_quiescent | exact Hk].
    eapply run_trans; [exact H | apply close_run].
  Qed.
End SnepProofs.
