(* C13 - the status -> exception maps are total over the documented errors and classify
   timeout / field loss / other RF errors as the property says. *)
From Coq Require Import ZArith List Bool Lia ZifyBool.
From NV Require Import Base.Sweep Model.DrvMap.
Import ListNotations.
Open Scope Z_scope.

(* ------------------------------------------------------------------ PN53x *)
Lemma pn53x_error_map_documented d n : documented (pn53x_error_map d n) = true.
Proof. destruct d; unfold pn53x_error_map;
  [destruct (n =? 1) | destruct ((n =? 10) || (n =? 41) || (n =? 49))]; reflexivity. Qed.

(* all 256 chipset status codes, by computation over the finite range, then lifted *)
Definition pn_cmds : list pn_cmd :=
  [InCommunicateThru; InDataExchange; TgGetInitiatorCommand; TgResponseToInitiator; Reg533; WriteReg956; NoStatus].
Definition pn53x_code_ok (code : Z) : bool :=
  forallb (fun d => forallb (fun c => allowed (pn53x_status_outcome d c [code])) pn_cmds) [Initiator; Target].
Lemma pn53x_codes_swept : forallb pn53x_code_ok (zseq 0 256) = true.
Proof. vm_compute. reflexivity. Qed.

Lemma chip_result_head c code rest : c <> WriteReg956 ->
  chip_result c (code :: rest) = chip_result c [code].
Proof. destruct c; intro H; try reflexivity. congruence. Qed.

Lemma pn_cmd_eq_dec_956 c : {c = WriteReg956} + {c <> WriteReg956}.
Proof. destruct c; try (right; discriminate). left; reflexivity. Qed.

Lemma in_pn_cmds c : In c pn_cmds.
Proof. destruct c; cbn; tauto. Qed.

(* every status code 0..255, at every status-bearing host command of an exchange, whatever follows it *)
Lemma pn53x_map_total_lemma : forall d c code rest, 0 <= code < 256 ->
  allowed (pn53x_status_outcome d c (code :: rest)) = true.
Proof.
  intros d c code rest Hc.
  destruct (pn_cmd_eq_dec_956 c) as [E|E].
  - subst c. unfold pn53x_status_outcome, chip_result.
    destruct (zsum (code :: rest) =? 0); [reflexivity|]. cbn. apply pn53x_error_map_documented.
  - unfold pn53x_status_outcome. rewrite (chip_result_head c code rest E).
    pose proof (sweep_lift pn53x_code_ok 0 256 pn53x_codes_swept code) as S.
    assert (Hr : 0 <= code < 0 + Z.of_nat 256) by (cbn; lia). specialize (S Hr).
    unfold pn53x_code_ok in S. rewrite forallb_forall in S.
    assert (Hd : In d [Initiator; Target]) by (destruct d; cbn; tauto).
    specialize (S d Hd). rewrite forallb_forall in S. exact (S c (in_pn_cmds c)).
Qed.

(* the general fact needs no bound at all: whatever the payload is *)
Lemma pn53x_map_total_any d c payload : allowed (pn53x_status_outcome d c payload) = true.
Proof. unfold pn53x_status_outcome. destruct (chip_result c payload); [reflexivity|].
  cbn. apply pn53x_error_map_documented. Qed.

Lemma pn53x_errframe_total d : allowed (pn53x_errframe_outcome d) = true.
Proof. apply pn53x_error_map_documented. Qed.

Lemma pn53x_ioerror_total d n : documented (pn53x_ioerror_map d n) = true.
Proof. unfold pn53x_ioerror_map. destruct (n =? ETIMEDOUT); reflexivity. Qed.

Lemma pn53x_readreg_total d ws n payload : allowed (pn53x_readreg_outcome d ws n payload) = true.
Proof. unfold pn53x_readreg_outcome. destruct (readreg_result ws n payload); [reflexivity|].
  cbn. apply pn53x_error_map_documented. Qed.
(* a ReadRegister answer is accepted only with at least one value per register *)
Lemma pn53x_readreg_enough d n payload :
  pn53x_readreg_outcome d false n payload = OData <-> n <= Z.of_nat (length payload).
Proof. unfold pn53x_readreg_outcome, readreg_result.
  destruct (Z.ltb_spec (Z.of_nat (length payload)) n); split; intro H0; try reflexivity; try discriminate; lia. Qed.

(* register values: every value of every register read on the Type 3 / Type 1 register paths *)
Lemma tt3_poll_total commirq divirq level fifo : Z.of_nat (length fifo) = level ->
  poll_allowed (tt3_poll commirq divirq level fifo) = true.
Proof.
  intro L. unfold tt3_poll.
  destruct (negb (Z.land divirq 1 =? 0)); [reflexivity|].
  destruct (Z.land commirq 32 =? 0); [reflexivity|].
  destruct ((0 <? level) && (level <=? 64)) eqn:E; cbn [negb]; [|reflexivity].
  destruct fifo as [|b r]; [cbn in L; lia|].
  destruct (b =? Z.of_nat (length (b :: r))); reflexivity.
Qed.
(* data is handed to the caller only if the length byte matches the fifo level, 1..64 *)
Lemma tt3_poll_data commirq divirq level fifo : Z.of_nat (length fifo) = level ->
  tt3_poll commirq divirq level fifo = PollOut OData ->
  1 <= level <= 64 /\ nth 0 fifo 0 = level /\ Z.land divirq 1 = 0 /\ Z.land commirq 32 <> 0.
Proof.
  intros L. unfold tt3_poll.
  destruct (Z.eqb_spec (Z.land divirq 1) 0); cbn [negb]; [|discriminate].
  destruct (Z.eqb_spec (Z.land commirq 32) 0); [discriminate|].
  destruct ((0 <? level) && (level <=? 64)) eqn:E; cbn [negb]; [|discriminate].
  destruct fifo as [|b r]; [discriminate|].
  destruct (Z.eqb_spec b (Z.of_nat (length (b :: r)))); [|discriminate].
  intros _. cbn [nth]. repeat split; try lia; assumption.
Qed.

Definition tt1_level_ok (level : Z) : bool :=
  allowed (tt1_fifo_outcome level true) && allowed (tt1_fifo_outcome level false).
Lemma tt1_levels_swept : forallb tt1_level_ok (zseq 0 256) = true.
Proof. vm_compute. reflexivity. Qed.
Lemma tt1_fifo_total level crc_ok : 0 <= level < 256 -> allowed (tt1_fifo_outcome level crc_ok) = true.
Proof.
  intro H. pose proof (sweep_lift tt1_level_ok 0 256 tt1_levels_swept level) as S.
  assert (Hr : 0 <= level < 0 + Z.of_nat 256) by (cbn; lia). specialize (S Hr).
  unfold tt1_level_ok in S. apply andb_true_iff in S as [S1 S2]. destruct crc_ok; assumption.
Qed.
(* data only for a level of 3..64 bytes (at least two decoded bytes) with a good CRC *)
Lemma tt1_fifo_data level crc_ok : tt1_fifo_outcome level crc_ok = OData -> 3 <= level <= 64 /\ crc_ok = true.
Proof.
  unfold tt1_fifo_outcome, tt1_decoded_count.
  destruct (Z.eqb_spec level 0); [discriminate|].
  destruct (Z.ltb_spec 64 level); [discriminate|].
  destruct (Z.ltb_spec (8 * level / 9) 2); [discriminate|].
  destruct crc_ok; [|discriminate]. intros _. split; [lia|reflexivity].
Qed.

(* classification demanded by the property text *)
Lemma pn53x_initiator_classify code rest : 0 <= code < 256 ->
  pn53x_status_outcome Initiator InCommunicateThru (code :: rest) =
    if code =? 0 then OData else if code =? 1 then ORaise XTimeout else ORaise XTransmission.
Proof. intros _. unfold pn53x_status_outcome, chip_result, pn53x_error_map.
  destruct (code =? 0); [reflexivity|]. destruct (code =? 1); reflexivity. Qed.

Lemma pn53x_target_classify code rest : 0 <= code < 256 ->
  pn53x_status_outcome Target TgGetInitiatorCommand (code :: rest) =
    if code =? 0 then OData
    else if (code =? 10) || (code =? 41) || (code =? 49) then ORaise XBrokenLink else ORaise XTransmission.
Proof. intros _. unfold pn53x_status_outcome, chip_result, pn53x_error_map.
  destruct (code =? 0); [reflexivity|]. destruct ((code =? 10) || (code =? 41) || (code =? 49)); reflexivity. Qed.

Lemma pn53x_host_timeout_is_timeout d : pn53x_ioerror_map d ETIMEDOUT = XTimeout.
Proof. reflexivity. Qed.

(* ------------------------------------------------------------------ RC-S380: bit masks *)
Lemma land_pow2 w k : 0 <= k -> Z.land w (2 ^ k) = if Z.testbit w k then 2 ^ k else 0.
Proof.
  intro Hk. apply Z.bits_inj'. intros n Hn. rewrite Z.land_spec, Z.pow2_bits_eqb by lia.
  destruct (Z.eqb_spec k n) as [->|Hne].
  - destruct (Z.testbit w n) eqn:E; [rewrite Z.pow2_bits_eqb, Z.eqb_refl by lia; reflexivity|].
    rewrite Z.bits_0. reflexivity.
  - rewrite andb_false_r. destruct (Z.testbit w k).
    + rewrite Z.pow2_bits_eqb by lia. symmetry. apply Z.eqb_neq. exact Hne.
    + rewrite Z.bits_0. reflexivity.
Qed.

Lemma has_bit_testbit w k : 0 <= k -> has_bit w (2 ^ k) = Z.testbit w k.
Proof. intro Hk. unfold has_bit. rewrite land_pow2 by exact Hk.
  destruct (Z.testbit w k); [|reflexivity].
  assert (0 < 2 ^ k) by (apply Z.pow_pos_nonneg; lia).
  destruct (Z.eqb_spec (2 ^ k) 0); [lia|reflexivity]. Qed.

Lemma has_bit_timeout w : has_bit w RECEIVE_TIMEOUT = Z.testbit w 7.
Proof. change RECEIVE_TIMEOUT with (2 ^ 7). apply has_bit_testbit. lia. Qed.
Lemma has_bit_rfoff w : has_bit w RF_OFF = Z.testbit w 10.
Proof. change RF_OFF with (2 ^ 10). apply has_bit_testbit. lia. Qed.

Lemma rcs380_comm_map_documented d w : documented (rcs380_comm_map d w) = true.
Proof. destruct d; unfold rcs380_comm_map;
  [destruct (has_bit w RECEIVE_TIMEOUT) | destruct (has_bit w RF_OFF); [|destruct (has_bit w RECEIVE_TIMEOUT)]];
  reflexivity. Qed.

(* every 32-bit communication status word *)
Lemma rcs380_map_total_lemma : forall d w, 0 <= w < 2 ^ 32 -> allowed (rcs380_status_outcome d w) = true.
Proof. intros d w _. unfold rcs380_status_outcome. destruct (w =? 0); [reflexivity|].
  cbn. apply rcs380_comm_map_documented. Qed.

(* classification by bits, independent of all other bits *)
Lemma rcs380_initiator_classify w : w <> 0 ->
  rcs380_status_outcome Initiator w = ORaise (if Z.testbit w 7 then XTimeout else XTransmission).
Proof. intro H. unfold rcs380_status_outcome, rcs380_comm_map. rewrite has_bit_timeout.
  destruct (Z.eqb_spec w 0); [contradiction|]. destruct (Z.testbit w 7); reflexivity. Qed.

Lemma rcs380_target_classify w : w <> 0 ->
  rcs380_status_outcome Target w =
    ORaise (if Z.testbit w 10 then XBrokenLink else if Z.testbit w 7 then XTimeout else XTransmission).
Proof. intro H. unfold rcs380_status_outcome, rcs380_comm_map. rewrite has_bit_timeout, has_bit_rfoff.
  destruct (Z.eqb_spec w 0); [contradiction|].
  destruct (Z.testbit w 10); [reflexivity|]. destruct (Z.testbit w 7); reflexivity. Qed.

(* the driver tests the four bytes, the model the word: they agree *)
Lemma le32_zero b0 b1 b2 b3 : 0 <= b0 < 256 -> 0 <= b1 < 256 -> 0 <= b2 < 256 -> 0 <= b3 < 256 ->
  (le32 b0 b1 b2 b3 =? 0) = (b0 =? 0) && (b1 =? 0) && (b2 =? 0) && (b3 =? 0).
Proof. unfold le32. lia. Qed.
Lemma le32_range b0 b1 b2 b3 : 0 <= b0 < 256 -> 0 <= b1 < 256 -> 0 <= b2 < 256 -> 0 <= b3 < 256 ->
  0 <= le32 b0 b1 b2 b3 < 2 ^ 32.
Proof. unfold le32. change (2 ^ 32) with 4294967296. lia. Qed.
Lemma rcs380_bytes_word d b0 b1 b2 b3 :
  0 <= b0 < 256 -> 0 <= b1 < 256 -> 0 <= b2 < 256 -> 0 <= b3 < 256 ->
  rcs380_bytes_outcome d b0 b1 b2 b3 = rcs380_status_outcome d (le32 b0 b1 b2 b3).
Proof. intros. unfold rcs380_bytes_outcome, rcs380_status_outcome. rewrite le32_zero by assumption. reflexivity. Qed.

Lemma rcs380_bytes_total d b0 b1 b2 b3 : allowed (rcs380_bytes_outcome d b0 b1 b2 b3) = true.
Proof. unfold rcs380_bytes_outcome. destruct ((b0 =? 0) && (b1 =? 0) && (b2 =? 0) && (b3 =? 0)); [reflexivity|].
  cbn. apply rcs380_comm_map_documented. Qed.

(* whatever payload follows the InCommRF / TgCommRF response code, of any length *)
Lemma rcs380_payload_total d payload : allowed (rcs380_payload_outcome d payload) = true.
Proof.
  unfold rcs380_payload_outcome. destruct payload as [|a0 r0]; [reflexivity|].
  destruct (Z.of_nat (length (a0 :: r0)) <? _) eqn:E; [cbn; apply rcs380_comm_map_documented|].
  destruct d.
  - destruct r0 as [|a1 [|a2 [|a3 r]]]; try (vm_compute in E; discriminate).
    cbn [skipn]. apply rcs380_bytes_total.
  - destruct r0 as [|a1 [|a2 [|a3 [|a4 [|a5 [|a6 r]]]]]]; try (vm_compute in E; discriminate).
    cbn [skipn]. apply rcs380_bytes_total.
Qed.

Lemma rcs380_setup_total st : allowed (rcs380_setup_outcome st) = true.
Proof. unfold rcs380_setup_outcome. destruct (st =? 0); reflexivity. Qed.

(* ------------------------------------------------------------------ UDP *)
Lemma udp_total d : allowed (udp_outcome d) = true.
Proof. unfold udp_outcome. destruct (udp_classify d); reflexivity. Qed.
