(* Basic facts used by the LLCP PDU proofs: reading [rd]/[slice] inside pre ++ w ++ post, bit operations on bytes. *)
From Coq Require Import ZArith List Bool Lia ZifyBool.
From NV Require Import Base.Result Base.Bytes Model.Pdu.
Import ListNotations.
Open Scope Z_scope.
Ltac Zify.zify_post_hook ::= Z.to_euclidean_division_equations.

(* ---------------------------------------------------------------- bit operations *)
Lemma shr_div a k : 0 <= k -> Z.shiftr a k = a / 2 ^ k.
Proof. intro. apply Z.shiftr_div_pow2; assumption. Qed.
Lemma shr2 a : Z.shiftr a 2 = a / 4. Proof. rewrite shr_div by lia. reflexivity. Qed.
Lemma shr4 a : Z.shiftr a 4 = a / 16. Proof. rewrite shr_div by lia. reflexivity. Qed.
Lemma shr6 a : Z.shiftr a 6 = a / 64. Proof. rewrite shr_div by lia. reflexivity. Qed.
Lemma land63 a : Z.land a 63 = a mod 64. Proof. change 63 with (Z.ones 6). rewrite Z.land_ones by lia. reflexivity. Qed.
Lemma land15 a : Z.land a 15 = a mod 16. Proof. change 15 with (Z.ones 4). rewrite Z.land_ones by lia. reflexivity. Qed.
Lemma land7 a : Z.land a 7 = a mod 8. Proof. change 7 with (Z.ones 3). rewrite Z.land_ones by lia. reflexivity. Qed.
Lemma land2047 a : Z.land a 2047 = a mod 2048. Proof. change 2047 with (Z.ones 11). rewrite Z.land_ones by lia. reflexivity. Qed.

Lemma testbit_small b n : 0 <= b -> 0 <= n -> b < 2 ^ n -> Z.testbit b n = false.
Proof.
  intros Hb Hn Hlt. pose proof (Z.testbit_spec' b n Hn) as H.
  rewrite Z.div_small in H by lia. destruct (Z.testbit b n); [cbn in H; discriminate | reflexivity].
Qed.
Lemma lor_shiftl_add a b k : 0 <= k -> 0 <= b < 2 ^ k -> Z.lor (Z.shiftl a k) b = a * 2 ^ k + b.
Proof.
  intros Hk Hb.
  assert (Hl : Z.land (Z.shiftl a k) b = 0).
  { apply Z.bits_inj'. intros n Hn. rewrite Z.land_spec, Z.bits_0.
    destruct (Z.lt_ge_cases n k) as [Hlt|Hge].
    - rewrite Z.shiftl_spec_low by assumption. reflexivity.
    - rewrite (testbit_small b n); [apply andb_false_r | lia | lia |].
      apply Z.lt_le_trans with (2 ^ k); [lia | apply Z.pow_le_mono_r; lia]. }
  rewrite <- Z.lxor_lor by assumption. rewrite <- Z.add_nocarry_lxor by assumption.
  rewrite Z.shiftl_mul_pow2 by assumption. reflexivity.
Qed.
Lemma lor_nibbles a b : 0 <= b < 16 -> Z.lor (Z.shiftl a 4) b = a * 16 + b.
Proof. intro. rewrite lor_shiftl_add by lia. reflexivity. Qed.
Lemma header_value d pt s : 0 <= pt < 16 -> 0 <= s < 64 ->
  Z.lor (Z.lor (Z.shiftl d 10) (Z.shiftl pt 6)) s = d * 1024 + pt * 64 + s.
Proof.
  intros Hp Hs. rewrite (Z.shiftl_mul_pow2 pt 6) by lia.
  rewrite (lor_shiftl_add d (pt * 2 ^ 6) 10) by lia.
  replace (d * 2 ^ 10 + pt * 2 ^ 6) with ((d * 16 + pt) * 2 ^ 6) by lia.
  rewrite <- Z.shiftl_mul_pow2 by lia. rewrite lor_shiftl_add by lia. lia.
Qed.
(* (d0 << 2 | d1 >> 6) & 15 : the PTYPE of a header a, b *)
Lemma ptype_alt a b : 0 <= a < 256 -> 0 <= b < 256 ->
  Z.land (Z.lor (Z.shiftl a 2) (Z.shiftr b 6)) 15 = Z.land (Z.shiftr (a * 256 + b) 6) 15.
Proof.
  intros Ha Hb. rewrite shr6. rewrite lor_shiftl_add by (rewrite ?shr6; lia). rewrite !land15, !shr6. lia.
Qed.

(* ---------------------------------------------------------------- rd *)
Lemma rd_spec l k : 0 <= k < len l -> rd l k = Some (nth (Z.to_nat k) l 0).
Proof.
  intro H. unfold rd. replace (k <? 0) with false by lia. unfold len in H.
  rewrite (nth_error_nth' l 0) by lia. reflexivity.
Qed.
Lemma rd_none l k : len l <= k -> rd l k = None.
Proof. intro H. pose proof (len_nonneg l). unfold rd. replace (k <? 0) with false by lia.
  apply nth_error_None. unfold len in *. lia. Qed.
Lemma rd_neg l k : k < 0 -> rd l k = None.
Proof. intro. unfold rd. replace (k <? 0) with true by lia. reflexivity. Qed.
Lemma rd_app_mid pre l k : 0 <= k -> rd (pre ++ l) (len pre + k) = rd l k.
Proof.
  intro H. pose proof (len_nonneg pre). unfold rd.
  replace (len pre + k <? 0) with false by lia. replace (k <? 0) with false by lia.
  unfold len. replace (Z.to_nat (Z.of_nat (length pre) + k)) with (length pre + Z.to_nat k)%nat by lia.
  rewrite nth_error_app2 by lia. f_equal. lia.
Qed.
Lemma rd_app_l w post k : k < len w -> rd (w ++ post) k = rd w k.
Proof.
  intro H. unfold rd. destruct (k <? 0) eqn:E; [reflexivity|].
  apply nth_error_app1. unfold len in H. lia.
Qed.
Lemma rd_mid pre w post k : 0 <= k < len w -> rd (pre ++ w ++ post) (len pre + k) = rd w k.
Proof. intro H. rewrite rd_app_mid by lia. apply rd_app_l. lia. Qed.
Lemma rd_cons0 x l : rd (x :: l) 0 = Some x. Proof. reflexivity. Qed.
Lemma rd_consS x l k : 0 < k -> rd (x :: l) k = rd l (k - 1).
Proof. intro H. unfold rd. replace (k <? 0) with false by lia. replace (k - 1 <? 0) with false by lia.
  replace (Z.to_nat k) with (S (Z.to_nat (k - 1))) by lia. reflexivity. Qed.
Lemma rd_byte l k x : bytes_ok l -> rd l k = Some x -> byte_ok x.
Proof.
  intros Hl H. unfold rd in H. destruct (k <? 0); [discriminate|].
  apply nth_error_In in H. unfold bytes_ok in Hl. rewrite Forall_forall in Hl. apply Hl, H.
Qed.

(* ---------------------------------------------------------------- slice / take / drop *)
Lemma slice_eq {A} (l : list A) a b : 0 <= a -> slice l a b = firstn (Z.to_nat (b - a)) (skipn (Z.to_nat a) l).
Proof. intro H. unfold slice. rewrite (Z.max_r 0 a) by lia.
  destruct (Z.le_gt_cases (b - a) 0); [rewrite Z.max_l by lia; replace (Z.to_nat (b - a)) with 0%nat by lia; reflexivity|].
  rewrite Z.max_r by lia. reflexivity. Qed.
Lemma slice_app_mid {A} (pre l : list A) a b : 0 <= a -> slice (pre ++ l) (len pre + a) (len pre + b) = slice l a b.
Proof.
  intro H. pose proof (len_nonneg pre). rewrite !slice_eq by lia.
  replace (len pre + b - (len pre + a)) with (b - a) by lia. f_equal.
  unfold len. replace (Z.to_nat (Z.of_nat (length pre) + a)) with (length pre + Z.to_nat a)%nat by lia.
  rewrite skipn_app. rewrite skipn_all2 by lia. cbn [app]. f_equal. lia.
Qed.
Lemma slice_app_l {A} (w post : list A) a b : 0 <= a -> b <= len w -> slice (w ++ post) a b = slice w a b.
Proof.
  intros Ha Hb. rewrite !slice_eq by lia. unfold len in Hb.
  rewrite skipn_app, firstn_app. rewrite skipn_length.
  replace (Z.to_nat (b - a) - (length w - Z.to_nat a))%nat with 0%nat by lia.
  rewrite firstn_O, app_nil_r. reflexivity.
Qed.
Lemma slice_mid {A} (pre w post : list A) a b : 0 <= a -> b <= len w ->
  slice (pre ++ w ++ post) (len pre + a) (len pre + b) = slice w a b.
Proof. intros. rewrite slice_app_mid by lia. apply slice_app_l; lia. Qed.
Lemma slice_drop {A} (l : list A) a : 0 <= a -> slice l a (len l) = drop a l.
Proof. intro. rewrite slice_eq by lia. unfold drop. apply firstn_all2. rewrite skipn_length. unfold len. lia. Qed.
Lemma slice_take {A} (l : list A) b : slice l 0 b = take b l.
Proof. rewrite slice_eq by lia. rewrite Z.sub_0_r. reflexivity. Qed.
Lemma slice_take_drop {A} (l : list A) a n : 0 <= a -> slice l a (a + n) = take n (drop a l).
Proof. intro. rewrite slice_eq by lia. replace (a + n - a) with n by lia. reflexivity. Qed.
Lemma len_take {A} (l : list A) n : 0 <= n <= len l -> len (take n l) = n.
Proof. intro H. unfold take, len in *. rewrite firstn_length. lia. Qed.
Lemma len_drop {A} (l : list A) n : 0 <= n <= len l -> len (drop n l) = len l - n.
Proof. intro H. unfold drop, len in *. rewrite skipn_length. lia. Qed.
Lemma take_drop {A} (l : list A) n : take n l ++ drop n l = l.
Proof. apply firstn_skipn. Qed.
Lemma drop_0 {A} (l : list A) : drop 0 l = l. Proof. reflexivity. Qed.
Lemma drop_cons {A} (x : A) l n : 0 < n -> drop n (x :: l) = drop (n - 1) l.
Proof. intro. unfold drop. replace (Z.to_nat n) with (S (Z.to_nat (n - 1))) by lia. reflexivity. Qed.
Lemma skipn_skipn' {A} (l : list A) : forall x y, skipn x (skipn y l) = skipn (y + x) l.
Proof. induction l as [|h l IH]; intros x y; [rewrite !skipn_nil; reflexivity|].
  destruct y; [reflexivity|]. cbn [skipn Nat.add]. apply IH. Qed.
Lemma drop_drop {A} (l : list A) a b : 0 <= a -> 0 <= b -> drop a (drop b l) = drop (a + b) l.
Proof. intros. unfold drop. rewrite skipn_skipn'. f_equal. lia. Qed.
Lemma drop_app_len {A} (a b : list A) n : n = len a -> drop n (a ++ b) = b.
Proof. intros ->. apply drop_len_app. Qed.
Lemma take_app_len {A} (a b : list A) n : n = len a -> take n (a ++ b) = a.
Proof. intros ->. apply take_len_app. Qed.
Lemma take_all {A} (l : list A) n : len l <= n -> take n l = l.
Proof. intro. unfold take. apply firstn_all2. unfold len in *. lia. Qed.

Lemma bytes_ok_take l n : bytes_ok l -> bytes_ok (take n l).
Proof. intro H. rewrite <- (take_drop l n) in H. apply bytes_ok_app in H. tauto. Qed.
Lemma bytes_ok_drop l n : bytes_ok l -> bytes_ok (drop n l).
Proof. intro H. rewrite <- (take_drop l n) in H. apply bytes_ok_app in H. tauto. Qed.

(* splitting a buffer around a window *)
Lemma split_window (data : list Z) off size : 0 <= off -> 0 <= size -> off + size <= len data ->
  exists pre w post, data = pre ++ w ++ post /\ len pre = off /\ len w = size.
Proof.
  intros Ho Hs Hl. exists (take off data), (take size (drop off data)), (drop size (drop off data)).
  split; [rewrite take_drop, take_drop; reflexivity|].
  split; [apply len_take; lia|]. apply len_take. rewrite len_drop by lia. lia.
Qed.
Lemma len2 {A} (a b : A) l : len (a :: b :: l) = 2 + len l. Proof. rewrite !len_cons. lia. Qed.
