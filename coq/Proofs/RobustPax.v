(* C07: LogicalLinkController.activate consumes arbitrary general bytes: it returns a bool (and, when true, the
   negotiated parameters); never an exception.  Uses C11's decode_total for the parameter list. *)
From Coq Require Import ZArith List Bool Lia ZifyBool.
From NV Require Import Base.Result Base.Bytes Base.PyPrims Model.Pdu Proofs.PduTotal Model.Pax.
Import ListNotations.
Open Scope Z_scope.
Ltac Zify.zify_post_hook ::= Z.to_euclidean_division_equations.

Definition is_pax (p : pdu) : bool := match p with Pax _ _ _ _ _ _ _ => true | _ => false end.

Lemma pax_step_pax st t : is_pax st = true -> is_pax (pax_step st t) = true.
Proof. destruct st; cbn [is_pax pax_step]; try discriminate. intros _. destruct t; reflexivity. Qed.

Lemma tlv_loop_pax fuel : forall data off size st p, is_pax st = true ->
  tlv_loop fuel pax_step data off size st = Ok p -> is_pax p = true.
Proof.
  induction fuel as [|f IH]; intros data off size st p Hst; cbn [tlv_loop].
  - destruct (size <? 2); [intro H; inversion H; subst; assumption | discriminate].
  - destruct (size <? 2); [intro H; inversion H; subst; assumption |].
    destruct (param_decode data off size) as [[L t]| | |]; cbn [bind]; try discriminate.
    apply IH, pax_step_pax, Hst.
Qed.

Lemma decode_pax_header rest p :
  decode (0 :: 64 :: rest) 0 (len (0 :: 64 :: rest)) = Ok p -> is_pax p = true.
Proof.
  remember (0 :: 64 :: rest) as d eqn:Hd. assert (Hl : 2 <= len d) by (subst d; rewrite !len_cons; pose proof (len_nonneg rest); lia).
  unfold decode, decode_gen.
  replace (0 + len d >? len d) with false by lia. replace (len d <? 2) with false by lia.
  assert (R0 : rdc StructErr d 0 = Ok 0) by (subst d; reflexivity).
  assert (R1 : rdc StructErr d (0 + 1) = Ok 64) by (subst d; reflexivity).
  rewrite R0, R1. cbn [bind].
  change (Z.land (Z.shiftr (0 * 256 + 64) 6) 15) with 1. cbn [Z.eqb Pos.eqb].
  unfold dec_pax, decode_header. replace (len d <? 2) with false by lia.
  rewrite R0, R1. cbn [bind]. change (Z.shiftr 0 2) with 0. change (Z.land 64 63) with 0. cbn [Z.eqb negb orb].
  apply tlv_loop_pax. reflexivity.
Qed.

Lemma land3 x : 0 <= Z.land x 3 < 4.
Proof. change 3 with (Z.ones 2). rewrite Z.land_ones by lia. change (2 ^ 2) with 4. apply Z.mod_pos_bound. reflexivity. Qed.
Lemma land1 x : 0 <= Z.land x 1 < 2.
Proof.
  pose proof (Z.land_ones x 1 ltac:(lia)) as E. change (Z.ones 1) with 1 in E. change (2 ^ 1) with 2 in E.
  rewrite E. apply Z.mod_pos_bound. reflexivity.
Qed.

Lemma lsc_text_ok o : exists v, lsc_text o = Ok v.
Proof.
  unfold lsc_text, pax_lsc. destruct o as [x|]; [|eexists; reflexivity].
  pose proof (land3 x) as H. assert (C : Z.land x 3 = 0 \/ Z.land x 3 = 1 \/ Z.land x 3 = 2 \/ Z.land x 3 = 3) by lia.
  destruct C as [-> | [-> | [-> | ->]]]; eexists; reflexivity.
Qed.
Lemma dpc_text_ok o : exists v, dpc_text o = Ok v.
Proof.
  unfold dpc_text, pax_dpc. destruct o as [x|]; [|eexists; reflexivity].
  pose proof (land1 (Z.shiftr x 2)) as H. assert (C : Z.land (Z.shiftr x 2) 1 = 0 \/ Z.land (Z.shiftr x 2) 1 = 1) by lia.
  destruct C as [-> | ->]; eexists; reflexivity.
Qed.

Lemma use_pax_ok sec p : is_pax p = true -> exists cfg, use_pax sec p = Ok (true, Some cfg).
Proof.
  destruct p; cbn [is_pax]; try discriminate. intros _. cbn [use_pax].
  destruct (lsc_text_ok opt) as [a ->]. destruct (dpc_text_ok opt) as [b ->]. cbn [bind]. eexists. reflexivity.
Qed.

Lemma bytes_ok_drop n (l : list Z) : bytes_ok l -> bytes_ok (drop n l).
Proof.
  unfold drop, bytes_ok. generalize (Z.to_nat n) as k. intro k. revert l.
  induction k as [|k IH]; intros l H; [exact H|]. destruct l as [|x l]; [exact H|]. cbn [skipn]. apply IH. inversion H; assumption.
Qed.

(* activation with arbitrary general bytes returns a bool: false (link not established) or true with the parameters *)
Theorem pax_total sec gb : (forall g, gb = Some g -> bytes_ok g) ->
  activate_gb sec gb = Ok (false, None) \/ exists cfg, activate_gb sec gb = Ok (true, Some cfg).
Proof.
  intro Hb. destruct gb as [g|]; [|left; reflexivity]. specialize (Hb g eq_refl). unfold activate_gb.
  destruct (negb (0 <? len g) || negb (has_magic g) || negb (6 <=? len g)); [left; reflexivity|].
  assert (Hok : bytes_ok (pax_bytes g)).
  { unfold pax_bytes. apply bytes_ok_app. split; [|apply bytes_ok_drop, Hb].
    repeat constructor; unfold byte_ok; lia. }
  destruct (decode_total (pax_bytes g) 0 (len (pax_bytes g)) ltac:(lia) Hok) as [[p Hp] | He].
  - rewrite Hp. right. apply use_pax_ok. unfold pax_bytes in Hp. cbn [app] in Hp. eapply decode_pax_header, Hp.
  - rewrite He. left. reflexivity.
Qed.

(* ... and the parameters have the ranges the rest of the stack relies on *)
Theorem pax_cfg_ranges sec gb cfg : activate_gb sec gb = Ok (true, Some cfg) ->
  0 <= send_lsc cfg < 4 /\ 0 <= llcp_dpc cfg < 2.
Proof.
  destruct gb as [g|]; cbn [activate_gb]; [|discriminate].
  destruct (negb (0 <? len g) || negb (has_magic g) || negb (6 <=? len g)); [discriminate|].
  destruct (decode (pax_bytes g) 0 (len (pax_bytes g))) as [p|e|c|]; try discriminate; [|destruct e; discriminate].
  destruct p; cbn [use_pax]; try discriminate.
  destruct (lsc_text opt); cbn [bind]; try discriminate. destruct (dpc_text opt); cbn [bind]; try discriminate.
  intro H. inversion H; subst. cbn [send_lsc llcp_dpc]. unfold pax_lsc, pax_dpc.
  destruct opt as [x|]; [|destruct sec; lia]. pose proof (land3 x). pose proof (land1 (Z.shiftr x 2)). destruct sec; lia.
Qed.

(* the code as it was: the truncated MIUX TLV of the check's corpus raises DecodeError out of activate() *)
Lemma orig_truncated_miux : activate_gb_orig false (Some [70; 102; 109; 1; 1; 19; 2; 2]) = Err DecodeError.
Proof. vm_compute. reflexivity. Qed.
Lemma fixed_truncated_miux : activate_gb false (Some [70; 102; 109; 1; 1; 19; 2; 2]) = Ok (false, None).
Proof. vm_compute. reflexivity. Qed.
