(* C06 - slicing a byte string into MIU sized fragments (chunks), take/drop facts and the
   4-byte big-endian length field. *)
From Coq Require Import ZArith List Bool Lia ZifyBool.
From NV Require Import Base.Result Base.Bytes Base.PyPrims Model.Snep.
Import ListNotations.
Open Scope Z_scope.
Ltac Zify.zify_post_hook ::= Z.to_euclidean_division_equations.

(* ---------------------------------------------------------------- chunks *)
Lemma chunks_f_concat {A} (n : nat) : (0 < n)%nat -> forall fuel (l : list A),
  (length l <= fuel)%nat -> concat (chunks_f fuel n l) = l.
Proof.
  intros Hn. induction fuel as [|f IH]; intros l Hl.
  - destruct l; [reflexivity | cbn in Hl; lia].
  - destruct l as [|x l]; [reflexivity|].
    cbn [chunks_f concat]. rewrite IH.
    + apply firstn_skipn.
    + rewrite skipn_length. cbn [length] in *. lia.
Qed.

Lemma chunks_f_nonempty {A} (n : nat) : (0 < n)%nat -> forall fuel (l : list A),
  Forall (fun c => c <> []) (chunks_f fuel n l).
Proof.
  intros Hn. induction fuel as [|f IH]; intros l; [constructor|].
  destruct l as [|x l]; [constructor|]. cbn [chunks_f]. constructor; [|apply IH].
  destruct n; [lia|]. cbn [firstn]. discriminate.
Qed.

Lemma chunks_f_le {A} (n : nat) : forall fuel (l : list A),
  Forall (fun c => (length c <= n)%nat) (chunks_f fuel n l).
Proof.
  induction fuel as [|f IH]; intros l; [constructor|].
  destruct l as [|x l]; [constructor|]. cbn [chunks_f]. constructor; [|apply IH].
  apply firstn_le_length.
Qed.

Lemma chunks_concat {A} miu (l : list A) : 1 <= miu -> concat (chunks miu l) = l.
Proof. intro H. unfold chunks. apply chunks_f_concat; lia. Qed.
Lemma chunks_nonempty {A} miu (l : list A) : 1 <= miu -> Forall (fun c => c <> []) (chunks miu l).
Proof. intro H. unfold chunks. apply chunks_f_nonempty; lia. Qed.
Lemma chunks_le {A} miu (l : list A) : 0 <= miu -> Forall (fun c => len c <= miu) (chunks miu l).
Proof.
  intro H. unfold chunks. eapply Forall_impl; [|apply chunks_f_le].
  intros c Hc. cbv beta in Hc. unfold len. lia.
Qed.
Lemma chunks_nil {A} miu : chunks miu (@nil A) = [].
Proof. reflexivity. Qed.
Lemma chunks_eq_nil {A} miu (l : list A) : chunks miu l = [] -> l = [].
Proof. unfold chunks. destruct l; [reflexivity|]. cbn [length chunks_f]. discriminate. Qed.
Lemma chunks_small {A} miu (l : list A) : l <> [] -> len l <= miu -> chunks miu l = [l].
Proof.
  intros Hne Hl. unfold chunks. destruct l as [|x l]; [congruence|].
  cbn [length chunks_f]. unfold len in Hl.
  rewrite firstn_all2 by lia. rewrite skipn_all2 by lia.
  destruct (length l); reflexivity.
Qed.

(* ---------------------------------------------------------------- take / drop *)
Lemma take_drop {A} n (l : list A) : take n l ++ drop n l = l.
Proof. apply firstn_skipn. Qed.
Lemma len_take {A} n (l : list A) : 0 <= n <= len l -> len (take n l) = n.
Proof. intro H. unfold take, len in *. rewrite firstn_length. lia. Qed.
Lemma len_take_le {A} n (l : list A) : 0 <= n -> len (take n l) <= n.
Proof. intro H. unfold take, len in *. rewrite firstn_length. lia. Qed.
Lemma len_drop {A} n (l : list A) : 0 <= n <= len l -> len (drop n l) = len l - n.
Proof. intro H. unfold drop, len in *. rewrite skipn_length. lia. Qed.
Lemma take_app_ge {A} n (a b : list A) : len a <= n -> take n (a ++ b) = a ++ take (n - len a) b.
Proof.
  intro H. unfold take, len in *. rewrite firstn_app.
  rewrite firstn_all2 by lia. f_equal. f_equal. lia.
Qed.
Lemma drop_app_ge {A} n (a b : list A) : len a <= n -> drop n (a ++ b) = drop (n - len a) b.
Proof.
  intro H. unfold drop, len in *. rewrite skipn_app.
  rewrite skipn_all2 by lia. cbn [app]. f_equal. lia.
Qed.
Lemma drop_nonempty {A} n (l : list A) : 0 <= n < len l -> drop n l <> [].
Proof.
  intros H E. apply (f_equal (@length A)) in E. unfold drop, len in *.
  rewrite skipn_length in E. cbn in E. lia.
Qed.
Lemma len_concat_nonempty {A} (fs : list (list A)) :
  Forall (fun c => c <> []) fs -> fs <> [] -> 0 < len (concat fs).
Proof.
  intros HF Hne. destruct fs as [|f fs]; [congruence|]. inversion HF; subst.
  cbn [concat]. rewrite len_app. pose proof (len_nonneg (concat fs)).
  destruct f; [congruence|]. rewrite len_cons. pose proof (len_nonneg f). lia.
Qed.
Lemma len_0_nil {A} (l : list A) : len l = 0 -> l = [].
Proof. destruct l; [reflexivity|]. rewrite len_cons. pose proof (len_nonneg l). lia. Qed.

(* ---------------------------------------------------------------- the length field *)
Lemma unbe32_be32 n : 0 <= n <= 4294967295 ->
  unbe32 (n / 16777216 mod 256) (n / 65536 mod 256) (n / 256 mod 256) (n mod 256) = n.
Proof. intro H. unfold unbe32. lia. Qed.

Lemma pack_L_ok n : 0 <= n <= 4294967295 -> pack_L n = Ok (be32 n).
Proof. intro H. unfold pack_L. replace ((0 <=? n) && (n <=? 4294967295)) with true by lia. reflexivity. Qed.
