(* Type 2 writer: the caches after each phase of _write_ndef_data on a well-formed layout, what
   they change (only NDEF-area bytes), what a reader finds in them, and how the tag memory (seen
   through READ) follows the executed WRITE commands. *)
From Coq Require Import ZArith List Bool Lia ZifyBool.
From NV Require Import Base.Result Base.Bytes Model.TlvMem Model.T2T Proofs.TlvLib Proofs.TlvPhases Proofs.T2TRead.
Import ListNotations.
Open Scope Z_scope.
Ltac Zify.zify_post_hook ::= Z.to_euclidean_division_equations.

(* ---------------------------------------------------------------- the readable image *)
Lemma pad_spec (n : nat) : ((16 - n mod 16) mod 16 < 16)%nat /\ exists k, (n + (16 - n mod 16) mod 16 = k * 4)%nat.
Proof.
  pose proof (Nat.div_mod n 16 ltac:(lia)). pose proof (Nat.mod_upper_bound n 16 ltac:(lia)).
  set (r := (n mod 16)%nat) in *. set (q := (n / 16)%nat) in *.
  assert (E : ((16 - r) mod 16 = if Nat.eqb r 0 then 0 else 16 - r)%nat).
  { destruct (Nat.eqb_spec r 0) as [e|e]; [rewrite e; reflexivity | rewrite Nat.mod_small by lia; reflexivity]. }
  rewrite E. destruct (Nat.eqb_spec r 0); (split; [lia|]); [exists (4 * q)%nat | exists (4 * (q + 1))%nat]; lia.
Qed.
Lemma view_length m : 16 <= len m -> exists k, length (view m) = (k * 4)%nat /\ (length m <= length (view m))%nat
  /\ (length (view m) < length m + 16)%nat.
Proof.
  intro H. unfold view, len in *. destruct (pad_spec (length m)) as [Hp [k Hk]].
  rewrite app_length, firstn_length_le by lia. exists k. lia.
Qed.
Lemma get_view m a : 0 <= a < len m -> get (view m) a = get m a.
Proof. intro H. unfold get, view. apply app_nth1. unfold len in H. lia. Qed.
Lemma view_prefix m : firstn (length m) (view m) = m.
Proof. unfold view. rewrite firstn_app, Nat.sub_diag, firstn_all. cbn. apply app_nil_r. Qed.

Lemma apply1_length m w : 0 <= fst w -> fst w + len (snd w) <= len m -> length (apply1 m w) = length m.
Proof. intros H0 H1. unfold apply1. unfold len in *. rewrite !app_length, firstn_length_le, skipn_length by lia. lia. Qed.

(* READ sees the effect of a WRITE to the pages 4 .. n-1 *)
Lemma view_apply1 m w : 16 <= fst w -> fst w + len (snd w) <= len m -> view (apply1 m w) = apply1 (view m) w.
Proof.
  intros H0 H1. unfold view. rewrite apply1_length by lia.
  set (p := ((16 - length m mod 16) mod 16)%nat). assert (Hp : (p < 16)%nat) by (subst p; apply Nat.mod_upper_bound; lia).
  unfold len in *.
  assert (E : firstn p (apply1 m w) = firstn p m).
  { unfold apply1. rewrite firstn_app, firstn_firstn. rewrite firstn_length_le by lia.
    replace (p - Z.to_nat (fst w))%nat with O by lia. cbn [firstn]. rewrite app_nil_r. f_equal. lia. }
  rewrite E. unfold apply1. rewrite firstn_app. replace (Z.to_nat (fst w) - length m)%nat with O by lia.
  cbn [firstn]. rewrite app_nil_r. rewrite skipn_app.
  replace (Z.to_nat (fst w) + length (snd w) - length m)%nat with O by lia. cbn [skipn].
  rewrite <- !app_assoc. reflexivity.
Qed.
Lemma view_apply m ws : (forall w, In w ws -> 16 <= fst w /\ fst w + len (snd w) <= len m) ->
  view (apply_ws m ws) = apply_ws (view m) ws /\ len (apply_ws m ws) = len m.
Proof.
  revert m. induction ws as [|w ws IH]; intros m H; [split; reflexivity|].
  destruct (H w (or_introl eq_refl)) as [H0 H1]. cbn [apply_ws fold_left].
  change (fold_left apply1 ?l ?x) with (apply_ws x l).
  assert (Hl : len (apply1 m w) = len m) by (unfold len; rewrite apply1_length by lia; reflexivity).
  destruct (IH (apply1 m w)) as [I1 I2]; [intros w' Hw'; rewrite Hl; apply H; right; exact Hw'|].
  rewrite I1, I2, view_apply1 by lia. split; [reflexivity | exact Hl].
Qed.

(* ---------------------------------------------------------------- a well-formed layout *)
Section Layout.
Variables (m : list Z) (L : layout).
Hypothesis Hread : t2_reader (view m) = Ok (Some L).
Hypothesis Hm4 : (length m mod 4 = 0)%nat.
Hypothesis Hm16 : 16 <= len m.
Hypothesis Hdend : l_dend L <= len m.
Hypothesis Hhw : l_hw L <= l_off L.
Hypothesis Hoff16 : 16 <= l_off L.
Hypothesis Hoff1 : l_off L + 1 < l_dend L.
Hypothesis Hs0 : in_skip (l_skip L) (l_off L) = false.
Hypothesis Hs1 : in_skip (l_skip L) (l_off L + 1) = false.
Hypothesis Hs23 : 255 <= l_cap L ->
  in_skip (l_skip L) (l_off L + 2) = false /\ in_skip (l_skip L) (l_off L + 3) = false.

Set Default Proof Using "Hread Hm4 Hm16 Hdend Hhw Hoff16 Hoff1 Hs0 Hs1 Hs23".

Notation em := (view m).
Notation off := (l_off L).
Notation skip := (l_skip L).
Notation dend := (l_dend L).

Lemma Hread0 : t2_read em = Ok (Some L).
Proof. apply t2_reader_inv, Hread. Qed.

Lemma em_len : exists k, length em = (k * 4)%nat /\ len m <= len em.
Proof. destruct (view_length m Hm16) as (k & H1 & H2 & _). exists k. split; [exact H1 | unfold len; lia]. Qed.
Lemma em_tlv : exists l e, read_tlv em off skip = Ok (3, l, l_val L, e).
Proof. destruct (t2_read_inv _ _ Hread0) as (b13 & b14 & b15 & _ & _ & _ & _ & _ & _ & Hw & _).
  destruct (t2_walk_found _ _ _ _ _ _ _ _ _ _ _ Hw) as (_ & _ & l & e & H). eauto. Qed.
Lemma em_tag : get em off = 3.
Proof. destruct em_tlv as (l & e & H). apply read_tlv_inv in H. destruct H as (H & _). apply rd_inv in H. symmetry. apply H. Qed.
Lemma cap_eq : l_cap L = get_capacity dend off skip.
Proof. destruct (t2_read_inv _ _ Hread0) as (b13 & b14 & b15 & _ & _ & _ & _ & _ & _ & _ & Hc & _). exact Hc. Qed.
Lemma em_transfer c l' v' e' : agree_below (off + 1) em c -> ndef_fits c (set_val L v') = true ->
  read_tlv c off skip = Ok (3, l', v', e') -> t2_reader c = Ok (Some (set_val L v')).
Proof. intros HA HF HR. apply (t2_reader_transfer em c L l' v' e' Hread0); [| exact HF | exact HR].
  apply (agree_below_le (off + 1)); [lia | exact HA]. Qed.

(* the hypotheses of the generic analysis (Proofs/TlvPhases.v) hold with unit 4 and reader t2_reader *)
Ltac generic := first [exact em_tag | exact cap_eq | exact em_transfer | exact Hs1 | exact Hs23 | exact Hoff1 | lia | eassumption].
Ltac gen lemma k4 := eapply (lemma em L 4%nat k4 t2_reader); generic.

Lemma t2_caches (d : list Z) : len d <= l_cap L ->
  caches_ok em L 4 t2_reader (t2_phases L d) d True.
Proof.
  intro Hcap. destruct em_len as (k4 & Hk4 & Hmle). unfold t2_phases.
  destruct (Z.ltb_spec (len d) 255) as [Hd|Hd]; cbn [app].
  - gen caches_short k4.
  - destruct (straddle off) eqn:Es.
    + cbn [app]. gen caches_split k4.
    + cbn [app].
      assert (C : caches_ok em L 4 t2_reader [ph_len0 L; ph_data L d; fun c => do c' <- ph_len_low L d c; ph_len_ff L c'] d (one_unit 4 off))
        by (gen caches_joint k4).
      destruct C as (cs & cf & H1 & H2 & H3 & H4 & H5 & H6).
      exists cs, cf. repeat (split; [assumption|]). intros _. apply H6.
      unfold one_unit. unfold straddle in Es. rewrite !Z.shiftr_div_pow2 in Es by lia. change (2 ^ 2) with 4 in Es.
      change (Z.of_nat 4) with 4. lia.
Qed.

(* every command of the chain is a page of the tag's memory behind page 3 that holds a byte of the NDEF area *)
Lemma cmds_ok cs : Forall (fun c => length c = length em) cs -> (forall f c, adjacent em cs f c -> touch L f c) ->
  forall w, In w (chain_cmds 4 em cs) ->
    16 <= fst w /\ fst w + len (snd w) <= len m /\ len (snd w) = 4 /\ fst w mod 4 = 0 /\
    exists x, fst w <= x < fst w + 4 /\ ndef_area L x = true.
Proof.
  intros Hl Ht w Hw. destruct em_len as (k4 & Hk4 & Hmle).
  assert (G : 0 <= fst w /\ fst w mod Z.of_nat 4 = 0 /\ fst w + Z.of_nat 4 <= len em /\ len (snd w) = Z.of_nat 4 /\
    exists x, fst w <= x < fst w + Z.of_nat 4 /\ off < x /\ ndef_area L x = true) by (gen gen_cmds_ok k4).
  destruct G as (H0 & Hmod & Hb & Hd & x & Hx & Hox & Har).
  assert (Hxd : x < dend) by (unfold ndef_area in Har; lia).
  change (Z.of_nat 4) with 4 in *. assert (Hm4z : len m mod 4 = 0) by (unfold len; change 4 with (Z.of_nat 4); rewrite <- Nat2Z.inj_mod, Hm4; reflexivity).
  repeat split; try lia. exists x. split; [lia | exact Har].
Qed.

(* any sequence of phases whose caches only touch the NDEF area *)
Lemma chain_result phs cs : steps em phs cs -> Forall (fun c => length c = length em) cs ->
  (forall f c, adjacent em cs f c -> touch L f c) ->
  run_phases 4 (len m) em phs [] = (Ok tt, chain_cmds 4 em cs) /\
  (forall w, In w (chain_cmds 4 em cs) ->
     16 <= fst w /\ fst w + len (snd w) <= len m /\ len (snd w) = 4 /\ fst w mod 4 = 0 /\
     exists x, fst w <= x < fst w + 4 /\ ndef_area L x = true) /\
  view (apply_ws m (chain_cmds 4 em cs)) = last_cache em cs /\ len (apply_ws m (chain_cmds 4 em cs)) = len m /\
  touch L em (last_cache em cs) /\
  (forall j, view (apply_ws m (firstn j (chain_cmds 4 em cs))) = apply_ws em (firstn j (chain_cmds 4 em cs))).
Proof.
  intros Hst Hlen Htouch. destruct em_len as (k4 & Hk4 & Hmle).
  pose proof (cmds_ok cs Hlen Htouch) as Hok.
  split.
  { rewrite (run_phases_chain 4 (len m) phs cs em [] Hst); [reflexivity|]. intros w Hw. destruct (Hok w Hw) as (? & ? & _). lia. }
  split; [exact Hok|].
  destruct (view_apply m (chain_cmds 4 em cs)) as [V1 V2]; [intros w Hw; destruct (Hok w Hw) as (? & ? & _); lia|].
  split; [rewrite V1; gen gen_apply k4|].
  split; [exact V2|]. split; [gen touch_chain k4|].
  intro j. destruct (view_apply m (firstn j (chain_cmds 4 em cs))) as [W1 _];
    [intros w Hw; apply In_firstn in Hw; destruct (Hok w Hw) as (? & ? & _); lia | exact W1].
Qed.

(* outside the NDEF area the tag memory is what it was *)
Lemma touch_frame cf m' : touch L em cf -> view m' = cf -> len m' = len m ->
  forall a, 0 <= a < len m -> ndef_area L a = false -> get m' a = get m a.
Proof.
  intros [_ Tg] Hv Hl a Ha Har. rewrite <- (get_view m a Ha), <- (get_view m' a) by lia. rewrite Hv.
  destruct (Z.eq_dec (get cf a) (get em a)) as [E|E]; [exact E|]. destruct (Tg a ltac:(lia) E) as [_ H]. congruence.
Qed.

Lemma upd_touch4 c a v c' : upd c a v = Ok c' -> off < a < dend -> in_skip skip a = false -> touch L c c'.
Proof.
  intros H Ha Hs. destruct em_len as (k4 & Hk4 & Hmle).
  assert (A : ndef_area L a = true) by (gen area_intro k4).
  assert (X : touch L c c' /\ (forall x, 0 <= x -> x <> a -> get c' x = get c x) /\ get c' a = v) by (gen upd_touch k4). apply X.
Qed.
Lemma touch_trans4 a b c : touch L a b -> touch L b c -> touch L a c.
Proof. intros H1 H2. destruct em_len as (k4 & Hk4 & Hmle). gen touch_trans k4. Qed.
(* the format phase *)
Lemma wipe_loop_spec w : forall n a c, length c = length em -> off < a -> a + Z.of_nat n <= dend ->
  exists c', wipe_loop skip a n w c = Ok c' /\ touch L c c'.
Proof.
  destruct em_len as (k4 & Hk4 & Hmle).
  induction n as [|n IH]; intros a c Hl Ha Hn; [exists c; split; [reflexivity | gen touch_refl k4]|].
  cbn [wipe_loop]. destruct (in_skip skip a) eqn:Es; [apply IH; [assumption | lia | lia]|].
  destruct (upd_ok c a w) as [c1 H1]; [unfold len in *; lia|]. rewrite H1. cbn [bind].
  pose proof (upd_touch4 _ _ _ _ H1 ltac:(lia) Es) as T1.
  destruct (IH (a + 1) c1) as (c' & H' & T'); [destruct T1; congruence | lia | lia |].
  exists c'. split; [exact H' | eapply touch_trans4; eassumption].
Qed.
Lemma ph_format_spec wipe : exists c, ph_format L wipe em = Ok c /\ touch L em c.
Proof.
  destruct em_len as (k4 & Hk4 & Hmle). unfold ph_format.
  destruct (upd_ok em (off + 1) 0) as [c1 H1]; [lia|]. rewrite H1. cbn [bind].
  pose proof (upd_touch4 _ _ _ _ H1 ltac:(lia) Hs1) as T1.
  assert (L1 : length c1 = length em) by apply T1.
  destruct (term_pos skip (off + 2) (Z.to_nat (dend - (off + 2)))) as [t|] eqn:Et; [|exists c1; auto].
  apply term_pos_spec in Et. destruct Et as [Et1 Et2].
  destruct (upd_ok c1 t 254) as [c2 H2]; [unfold len in *; lia|]. rewrite H2. cbn [bind].
  pose proof (upd_touch4 _ _ _ _ H2 ltac:(lia) Et2) as T2.
  assert (T12 : touch L em c2) by (eapply touch_trans4; eassumption).
  destruct wipe as [w|]; [|exists c2; auto].
  destruct (wipe_loop_spec (Z.land w 255) (Z.to_nat (dend - (t + 1))) (t + 1) c2) as (c3 & H3 & T3);
    [destruct T12; congruence | lia | lia |].
  exists c3. split; [exact H3 | eapply touch_trans4; eassumption].
Qed.

Lemma hdr0_t2_reader c : 0 <= l_cap L -> hdr0 em L c -> t2_reader c = Ok (Some (set_val L [])).
Proof. intros Hc0 H. destruct em_len as (k4 & Hk4 & Hmle). gen hdr0_read k4. Qed.

(* the complete write: commands, final memory as READ shows it, and the memory after any cut *)
Lemma t2_write_result (d : list Z) : l_wr L = true -> len d <= l_cap L ->
  exists cs cf, t2_write m d = (Ok tt, chain_cmds 4 em cs) /\
    (forall w, In w (chain_cmds 4 em cs) ->
       16 <= fst w /\ fst w + len (snd w) <= len m /\ len (snd w) = 4 /\ fst w mod 4 = 0 /\
       exists x, fst w <= x < fst w + 4 /\ ndef_area L x = true) /\
    view (apply_ws m (chain_cmds 4 em cs)) = cf /\ len (apply_ws m (chain_cmds 4 em cs)) = len m /\
    touch L em cf /\ t2_reader cf = Ok (Some (set_val L d)) /\
    (forall j, let x := view (apply_ws m (firstn j (chain_cmds 4 em cs))) in x = em \/ hdr0 em L x \/ x = cf).
Proof.
  intros Hwr Hcap. destruct em_len as (k4 & Hk4 & Hmle).
  destruct (t2_caches d Hcap) as (cs & cf & Hst & Hlast & Hlen & Htouch & Hfin & Hmix).
  destruct (chain_result _ cs Hst Hlen Htouch) as (Hrun & Hok & Hv & Hl & Ht & Hj).
  exists cs, cf. split.
  { unfold t2_write. rewrite Hread, Hwr. cbn [negb]. replace (l_cap L <? len d) with false by lia. exact Hrun. }
  split; [exact Hok|]. split; [rewrite Hv; exact Hlast|]. split; [exact Hl|]. split; [rewrite <- Hlast; exact Ht|].
  split; [exact Hfin|]. intro j. cbv zeta. rewrite Hj.
  assert (G : apply_ws em (firstn j (chain_cmds 4 em cs)) = last_cache em cs \/
    exists f c, adjacent em cs f c /\ umixed 4 f c (apply_ws em (firstn j (chain_cmds 4 em cs)))) by (gen gen_cut k4).
  destruct G as [E|(f & c & Ha & Hm)].
  - right; right. rewrite E. exact Hlast.
  - eapply (Hmix I); eassumption.
Qed.
End Layout.
Set Default Proof Using "Type".

(* ---------------------------------------------------------------- well-formed = the section's hypotheses *)
Lemma wf_layout_inv m : wf_layout m -> exists L,
  t2_reader (view m) = Ok (Some L) /\ (length m mod 4 = 0)%nat /\ 16 <= len m /\ l_rd L = true /\ l_wr L = true /\
  l_dend L <= len m /\ l_hw L <= l_off L /\ 16 <= l_off L /\ l_off L + 1 < l_dend L /\
  in_skip (l_skip L) (l_off L) = false /\ in_skip (l_skip L) (l_off L + 1) = false /\
  (255 <= l_cap L -> in_skip (l_skip L) (l_off L + 2) = false /\ in_skip (l_skip L) (l_off L + 3) = false).
Proof.
  unfold wf_layout, wf_layoutb. intro H.
  destruct (t2_reader (view m)) as [[L|]| | |] eqn:E; try (rewrite !andb_false_r in H; discriminate).
  exists L. split; [reflexivity|].
  assert (Hn : Nat.eqb (length m mod 4) 0 = true) by lia. apply Nat.eqb_eq in Hn.
  repeat match goal with H : _ && _ = true |- _ => apply andb_true_iff in H; destruct H end.
  repeat match goal with H : negb _ = true |- _ => apply negb_true_iff in H end.
  assert (Hlong : 255 <= l_cap L -> in_skip (l_skip L) (l_off L + 2) = false /\ in_skip (l_skip L) (l_off L + 3) = false).
  { intro Hc. match goal with Hx : _ || _ = true |- _ => apply orb_prop in Hx; destruct Hx as [Hx|Hx]; [lia|];
      apply andb_true_iff in Hx; destruct Hx as [Hx2 Hx3]; apply negb_true_iff in Hx2, Hx3; auto end. }
  repeat split; try exact Hn; try lia; try assumption; apply Hlong; assumption.
Qed.

(* the section's hypotheses as one predicate, and the main results in that form *)
Definition wfL (m : list Z) (L : layout) : Prop :=
  t2_reader (view m) = Ok (Some L) /\ (length m mod 4 = 0)%nat /\ 16 <= len m /\ l_rd L = true /\ l_wr L = true /\
  l_dend L <= len m /\ l_hw L <= l_off L /\ 16 <= l_off L /\ l_off L + 1 < l_dend L /\
  in_skip (l_skip L) (l_off L) = false /\ in_skip (l_skip L) (l_off L + 1) = false /\
  (255 <= l_cap L -> in_skip (l_skip L) (l_off L + 2) = false /\ in_skip (l_skip L) (l_off L + 3) = false).
Lemma wf_layout_wfL m : wf_layout m -> exists L, wfL m L.
Proof. exact (wf_layout_inv m). Qed.

Ltac use_wfL H := destruct H as (?Hr & ?H4 & ?H16 & ?Hrd & ?Hwr & ?Hde & ?Hhw & ?Ho16 & ?Ho1 & ?S0 & ?S1 & ?S23).

Lemma wfL_write_result m L d : wfL m L -> len d <= l_cap L ->
  exists cs cf, t2_write m d = (Ok tt, chain_cmds 4 (view m) cs) /\
    (forall w, In w (chain_cmds 4 (view m) cs) ->
       16 <= fst w /\ fst w + len (snd w) <= len m /\ len (snd w) = 4 /\ fst w mod 4 = 0 /\
       exists x, fst w <= x < fst w + 4 /\ ndef_area L x = true) /\
    view (apply_ws m (chain_cmds 4 (view m) cs)) = cf /\ len (apply_ws m (chain_cmds 4 (view m) cs)) = len m /\
    touch L (view m) cf /\ t2_reader cf = Ok (Some (set_val L d)) /\
    (forall j, let x := view (apply_ws m (firstn j (chain_cmds 4 (view m) cs))) in x = view m \/ hdr0 (view m) L x \/ x = cf).
Proof. intros H Hd. use_wfL H. eapply t2_write_result; eassumption. Qed.
Lemma wfL_chain_result m L phs cs : wfL m L -> steps (view m) phs cs -> Forall (fun c => length c = length (view m)) cs ->
  (forall f c, adjacent (view m) cs f c -> touch L f c) ->
  run_phases 4 (len m) (view m) phs [] = (Ok tt, chain_cmds 4 (view m) cs) /\
  (forall w, In w (chain_cmds 4 (view m) cs) ->
     16 <= fst w /\ fst w + len (snd w) <= len m /\ len (snd w) = 4 /\ fst w mod 4 = 0 /\
     exists x, fst w <= x < fst w + 4 /\ ndef_area L x = true) /\
  view (apply_ws m (chain_cmds 4 (view m) cs)) = last_cache (view m) cs /\ len (apply_ws m (chain_cmds 4 (view m) cs)) = len m /\
  touch L (view m) (last_cache (view m) cs) /\
  (forall j, view (apply_ws m (firstn j (chain_cmds 4 (view m) cs))) = apply_ws (view m) (firstn j (chain_cmds 4 (view m) cs))).
Proof. intros H. use_wfL H. eapply chain_result; eassumption. Qed.
Lemma wfL_touch_frame m L cf m' : wfL m L -> touch L (view m) cf -> view m' = cf -> len m' = len m ->
  forall a, 0 <= a < len m -> ndef_area L a = false -> get m' a = get m a.
Proof. intros H. use_wfL H. eapply touch_frame; eassumption. Qed.
Lemma wfL_format_spec m L wipe : wfL m L -> exists c, ph_format L wipe (view m) = Ok c /\ touch L (view m) c.
Proof. intros H. use_wfL H. eapply ph_format_spec; eassumption. Qed.
Lemma wfL_hdr0_read m L c : wfL m L -> 0 <= l_cap L -> hdr0 (view m) L c -> t2_reader c = Ok (Some (set_val L [])).
Proof. intros H. use_wfL H. eapply hdr0_t2_reader; eassumption. Qed.
Lemma wfL_cap_eq m L : wfL m L -> l_cap L = get_capacity (l_dend L) (l_off L) (l_skip L).
Proof. intros H. use_wfL H. eapply cap_eq; eassumption. Qed.
