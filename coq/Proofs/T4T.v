(* Type 4 Tag: write/read round trip, cut safety, write frame (Model/T4T.v). *)
From Coq Require Import ZArith List Bool Lia ZifyBool.
From NV Require Import Base.Result Base.Bytes Base.PyPrims Proofs.Chunks Model.T3T Model.T4T.
Import ListNotations.
Open Scope Z_scope.
Ltac Zify.zify_post_hook ::= Z.to_euclidean_division_equations.

(* ------------------------------------------------------------ a session with the NDEF file selected *)
Definition in_file (c : card) : Prop := c_app c = true /\ c_sel c = 2.
Definition with_file (c : card) (f : list Z) (b : Z) (lg : list (Z * list Z)) : card :=
  mkCard (c_cc c) (c_fid c) f (c_v2 c) (c_v1 c) (c_app c) (c_sel c) b lg.
Definition same_card (c c' : card) : Prop :=
  c_cc c' = c_cc c /\ c_fid c' = c_fid c /\ c_v2 c' = c_v2 c /\ c_v1 c' = c_v1 c /\ c_app c' = c_app c /\ c_sel c' = c_sel c.
Definition same_cc (c c' : card) : Prop :=
  c_cc c' = c_cc c /\ c_fid c' = c_fid c /\ c_v2 c' = c_v2 c /\ c_v1 c' = c_v1 c.
Lemma same_cc_card c a b : same_cc c a -> same_card a b -> same_cc c b.
Proof. unfold same_cc, same_card. intuition congruence. Qed.
Lemma same_card_refl c : same_card c c. Proof. unfold same_card; auto 10. Qed.
Lemma same_card_trans a b c : same_card a b -> same_card b c -> same_card a c.
Proof. unfold same_card. intuition congruence. Qed.

Lemma apdu_rd_ok off mrl : 0 <= off <= 65535 -> 1 <= mrl <= 256 -> exists f, apdu_of_op (RdBin off mrl) = Ok f.
Proof. intros. unfold apdu_of_op. replace ((off <? 0) || (off >? 65535)) with false by lia.
  unfold short_apdu. change (len (@nil Z)) with 0. cbn [Z.eqb negb andb].
  replace (negb (mrl =? 0) && (mrl >? 256)) with false by lia. eexists; reflexivity. Qed.
Lemma apdu_up_ok off d : 0 <= off <= 65535 -> 1 <= len d <= 255 -> exists f, apdu_of_op (UpBin off d) = Ok f.
Proof. intros. unfold apdu_of_op. replace ((off <? 0) || (off >? 65535)) with false by lia.
  unfold short_apdu. replace (negb (len d =? 0) && (len d >? 255)) with false by lia.
  cbn [Z.eqb negb andb]. eexists; reflexivity. Qed.

Lemma read_binary_file c max_le off size : in_file c -> c_budget c <> 0 ->
  0 <= off <= 65535 -> off <= len (c_file c) -> 1 <= Z.min max_le size <= 256 -> Z.min max_le size <= c_mle c ->
  read_binary c max_le off size = (Ok (slice (c_file c) off (off + Z.min max_le size)), c).
Proof.
  intros (Ha & Hs) Hb Ho Hl Hm Hc.
  assert (Hle : len (slice (c_file c) off (off + Z.min max_le size)) <= Z.min max_le size)
    by (pose proof (len_slice_le (c_file c) off (off + Z.min max_le size)); lia).
  unfold read_binary, t4_send.
  destruct (apdu_rd_ok off (Z.min max_le size)) as (f & ->); [lia | lia |].
  replace (c_budget c =? 0) with false by lia. unfold card_step. rewrite Hs.
  change (2 =? 0) with false. change (2 =? 1) with false. change (2 =? 2) with true. cbv iota.
  replace (Z.min max_le size <=? 0) with false by lia.
  replace (true && (Z.min max_le size >? c_mle c)) with false by lia.
  replace (off >? len (c_file c)) with false by lia.
  replace (len (slice (c_file c) off (off + Z.min max_le size)) >? Z.max (Z.min max_le size) 0) with false by lia. reflexivity.
Qed.

(* an UPDATE BINARY the card accepts, independent of the file contents *)
Definition up_ok (c : card) (u : Z * list Z) : Prop :=
  0 <= fst u <= 65535 /\ 1 <= len (snd u) <= 255 /\ len (snd u) <= c_mlc c /\ fst u + len (snd u) <= len (c_file c).
Definition apply_up (f : list Z) (u : Z * list Z) : list Z := splice f (fst u) (snd u).
Definition apply_ups (f : list Z) (p : list (Z * list Z)) : list Z := fold_left apply_up p f.

Lemma up_file_ok c u : in_file c -> up_ok c u -> c_budget c <> 0 ->
  t4_send c (UpBin (fst u) (snd u)) =
  (Ok [], with_file c (apply_up (c_file c) u) (if c_budget c <? 0 then c_budget c else c_budget c - 1) (u :: c_log c)).
Proof.
  destruct u as [off d]. intros (Ha & Hs) (H1 & H2 & H3 & H4) Hb. cbn [fst snd] in *. unfold t4_send.
  destruct (apdu_up_ok off d) as (f & ->); [lia | lia |].
  replace (c_budget c =? 0) with false by lia. unfold card_step. rewrite Hs.
  change (2 =? 0) with false. change (2 =? 1) with false. cbv iota.
  replace (len d =? 0) with false by lia. replace (len d >? c_mlc c) with false by lia.
  replace (off + len d >? len (c_file c)) with false by lia.
  unfold with_file, apply_up. cbn [fst snd]. rewrite Hs. reflexivity.
Qed.
Lemma up_dead c off d : (exists f, apdu_of_op (UpBin off d) = Ok f) -> c_budget c = 0 ->
  t4_send c (UpBin off d) = (Err (TagCommandError 0), c).
Proof. intros (f & Hf) Hb. unfold t4_send. rewrite Hf. now replace (c_budget c =? 0) with true by lia. Qed.

Lemma apply_up_len c u : up_ok c u -> len (apply_up (c_file c) u) = len (c_file c).
Proof. intros (H1 & H2 & H3 & H4). unfold apply_up. apply len_splice; lia. Qed.
Lemma up_ok_same c c' u : same_card c c' -> len (c_file c') = len (c_file c) -> up_ok c u -> up_ok c' u.
Proof. intros (Hcc & _) Hl (H1 & H2 & H3 & H4). unfold up_ok, c_mlc in *. rewrite Hcc, Hl. auto. Qed.

Lemma run_ups_budget : forall p c, in_file c -> Forall (up_ok c) p ->
  let k := c_budget c in
  let n := Z.of_nat (length p) in
  exists c', same_card c c' /\
    (if (k <? 0) || (n <=? k)
     then run_ups c p = (Ok tt, c') /\ c_file c' = apply_ups (c_file c) p /\ c_budget c' = (if k <? 0 then k else k - n)
     else run_ups c p = (Err (TagCommandError 0), c') /\ c_file c' = apply_ups (c_file c) (firstn (Z.to_nat k) p)) /\
    c_log c' = rev (firstn (if k <? 0 then length p else Z.to_nat k) p) ++ c_log c.
Proof.
  induction p as [|u r IH]; intros c Hin Hok k n.
  - exists c. split; [apply same_card_refl|]. subst n. cbn [length Z.of_nat].
    replace ((k <? 0) || (0 <=? k)) with true by lia. cbn. repeat split; auto.
    + destruct (k <? 0); lia.
    + destruct (k <? 0); cbn; [reflexivity | now rewrite firstn_nil].
  - inversion Hok as [|? ? Hu Hr]; subst. destruct u as [off d].
    destruct (Z.eq_dec k 0) as [Hk0|Hk0].
    + exists c. split; [apply same_card_refl|]. subst n k. cbn [length].
      replace ((c_budget c <? 0) || (Z.of_nat (S (length r)) <=? c_budget c)) with false by lia.
      rewrite Hk0. cbn [Z.to_nat firstn]. split; [|reflexivity].
      cbn [run_ups]. rewrite up_dead; [split; reflexivity | | exact Hk0].
      destruct Hu as (H1 & H2 & _). cbn [fst snd] in *. apply apdu_up_ok; lia.
    + pose proof (up_file_ok c (off, d) Hin Hu Hk0) as Hw.
      set (c1 := with_file c (apply_up (c_file c) (off, d)) (if c_budget c <? 0 then c_budget c else c_budget c - 1) ((off, d) :: c_log c)) in *.
      assert (Hs1 : same_card c c1) by (unfold same_card, c1, with_file; cbn; auto 10).
      assert (Hin1 : in_file c1) by (destruct Hin; split; assumption).
      assert (Hl1 : len (c_file c1) = len (c_file c)) by (apply apply_up_len; exact Hu).
      assert (Hok1 : Forall (up_ok c1) r) by (eapply Forall_impl; [|exact Hr]; intros; eapply up_ok_same; eauto).
      destruct (IH c1 Hin1 Hok1) as (c' & Hs' & Hrun & Hlog).
      exists c'. split; [exact (same_card_trans _ _ _ Hs1 Hs')|].
      cbn [run_ups]. cbn [fst snd] in Hw. rewrite Hw.
      subst n. cbn [length]. rewrite Nat2Z.inj_succ.
      change (c_budget c1) with (if k <? 0 then k else k - 1) in *.
      change (c_file c1) with (apply_up (c_file c) (off, d)) in *. change (c_log c1) with ((off, d) :: c_log c) in *.
      destruct (k <? 0) eqn:Ek.
      * rewrite ?Ek in Hrun. cbn [orb] in *. destruct Hrun as (R1 & R2 & R3). rewrite ?Ek in R3.
        split; [repeat split; auto|]. rewrite Hlog. rewrite ?Ek. cbn [firstn rev]. now rewrite <- app_assoc.
      * replace (k - 1 <? 0) with false in * by lia. cbn [orb] in *.
        destruct (Z.succ (Z.of_nat (length r)) <=? k) eqn:En.
        -- replace (Z.of_nat (length r) <=? k - 1) with true in Hrun by lia. destruct Hrun as (R1 & R2 & R3).
           rewrite ?Ek in R3. replace (k - 1 <? 0) with false in R3 by lia.
           split; [repeat split; auto; lia|].
           rewrite Hlog. rewrite ?Ek. replace (k - 1 <? 0) with false by lia. replace (Z.to_nat k) with (S (Z.to_nat (k - 1))) by lia. cbn [firstn rev]. now rewrite <- app_assoc.
        -- replace (Z.of_nat (length r) <=? k - 1) with false in Hrun by lia. destruct Hrun as (R1 & R2).
           replace (Z.to_nat k) with (S (Z.to_nat (k - 1))) by lia. cbn [firstn].
           split; [split; auto|]. rewrite Hlog. rewrite ?Ek. replace (k - 1 <? 0) with false by lia. cbn [rev]. now rewrite <- app_assoc.
Qed.

(* ------------------------------------------------------------ chunked writes = one splice *)
Lemma apply_ups_offsets : forall cs f off, apply_ups f (with_offsets off cs) = write_seq f off cs.
Proof. induction cs as [|c r IH]; intros f off; [reflexivity|]. cbn [with_offsets write_seq]. unfold apply_ups in *. cbn [fold_left]. apply IH. Qed.
Lemma firstn_with_offsets {A} : forall k (cs : list (list A)) off, firstn k (with_offsets off cs) = with_offsets off (firstn k cs).
Proof. induction k as [|k IH]; intros cs off; [reflexivity|]. destruct cs as [|c r]; [reflexivity|]. cbn. now rewrite IH. Qed.
Lemma apply_ups_app f p q : apply_ups f (p ++ q) = apply_ups (apply_ups f p) q.
Proof. apply fold_left_app. Qed.

Lemma concat_firstn_prefix {A} (cs : list (list A)) k : exists rest, concat cs = concat (firstn k cs) ++ rest.
Proof. exists (concat (skipn k cs)). rewrite <- concat_app. now rewrite firstn_skipn. Qed.

Lemma ups_apply f mlc off payload k : 1 <= mlc -> 0 <= off -> off + len payload <= len f ->
  apply_ups f (firstn k (ups mlc off payload)) = splice f off (concat (firstn k (chunks mlc payload))).
Proof.
  intros Hm Ho Hl. unfold ups. rewrite firstn_with_offsets, apply_ups_offsets.
  apply write_seq_concat; [lia|].
  destruct (concat_firstn_prefix (chunks mlc payload) k) as (rest & E). rewrite chunks_concat in E by lia.
  rewrite E in Hl. rewrite len_app in Hl. pose proof (len_nonneg rest). lia.
Qed.
Lemma ups_apply_all f mlc off payload : 1 <= mlc -> 0 <= off -> off + len payload <= len f ->
  apply_ups f (ups mlc off payload) = splice f off payload.
Proof. intros. rewrite <- (firstn_all (ups mlc off payload)). rewrite ups_apply by lia.
  unfold ups. rewrite with_offsets_length, firstn_all, chunks_concat by lia. reflexivity. Qed.

Lemma ups_ok c mlc off payload : 1 <= mlc <= 255 -> mlc <= c_mlc c -> 0 <= off -> off + len payload <= 65536 ->
  off + len payload <= len (c_file c) -> Forall (up_ok c) (ups mlc off payload).
Proof.
  intros Hm Hc Ho H64 Hl. apply Forall_forall. intros [o d] Hin. unfold ups in Hin.
  pose proof (with_offsets_range _ _ _ _ Hin) as (R1 & R2). rewrite chunks_concat in R2 by lia.
  assert (Hd : In d (chunks mlc payload)).
  { rewrite <- (with_offsets_map_snd (chunks mlc payload) off). apply in_map_iff. exists (o, d). auto. }
  pose proof (chunks_bound mlc payload ltac:(lia)) as Hb. rewrite Forall_forall in Hb. specialize (Hb d Hd).
  unfold up_ok. cbn [fst snd]. lia.
Qed.

(* ------------------------------------------------------------ capability containers of both mapping versions *)
Definition sess0 (c : card) (f : list Z) : card := mkCard (c_cc c) (c_fid c) f (c_v2 c) (c_v1 c) false 0 (-1) [].
Definition cc2 (ver e1 e0 l1 l0 f1 f2 s1 s0 rf wf : Z) : list Z :=
  [0; 15; ver; e1; e0; l1; l0; 4; 6; f1; f2; s1; s0; rf; wf].
Definition cc3 (ver e1 e0 l1 l0 f1 f2 s3 s2 s1 s0 rf wf : Z) : list Z :=
  [0; 17; ver; e1; e0; l1; l0; 6; 8; f1; f2; s3; s2; s1; s0; rf; wf].

Lemma discover_cc2 ver e1 e0 l1 l0 f1 f2 s1 s0 rf wf file v1 :
  ver = 16 \/ ver = 32 \/ ver = 48 ->
  let c := mkCard (cc2 ver e1 e0 l1 l0 f1 f2 s1 s0 rf wf) [f1; f2] file true v1 false 0 (-1) [] in
  discover c = (Ok (Some (mkInfo (Z.min (e1 * 256 + e0) 256) (Z.min (l1 * 256 + l0) 255) (Z.min (be [s1; s0]) 65536 - 2)
                                 (rf =? 0) (wf =? 0) 2 [f1; f2] 12)), set_sess c true 1).
Proof. intros [-> | [-> | ->]]; reflexivity. Qed.
Lemma discover_cc3 ver e1 e0 l1 l0 f1 f2 s3 s2 s1 s0 rf wf file v1 :
  ver = 16 \/ ver = 32 \/ ver = 48 ->
  let c := mkCard (cc3 ver e1 e0 l1 l0 f1 f2 s3 s2 s1 s0 rf wf) [f1; f2] file true v1 false 0 (-1) [] in
  discover c = (Ok (Some (mkInfo (Z.min (e1 * 256 + e0) 256) (Z.min (l1 * 256 + l0) 255) (Z.min (be [s3; s2; s1; s0]) 65536 - 4)
                                 (rf =? 0) (wf =? 0) 4 [f1; f2] 12)), set_sess c true 1).
Proof. intros [-> | [-> | ->]]; reflexivity. Qed.
(* a mapping version 1.0 card: only the application name D2760000850100 is known, select by id uses P2 = 00 *)
Lemma discover_cc2_v1 ver e1 e0 l1 l0 f1 f2 s1 s0 rf wf file :
  ver = 16 \/ ver = 32 \/ ver = 48 ->
  let c := mkCard (cc2 ver e1 e0 l1 l0 f1 f2 s1 s0 rf wf) [f1; f2] file false true false 0 (-1) [] in
  discover c = (Ok (Some (mkInfo (Z.min (e1 * 256 + e0) 256) (Z.min (l1 * 256 + l0) 255) (Z.min (be [s1; s0]) 65536 - 2)
                                 (rf =? 0) (wf =? 0) 2 [f1; f2] 0)), set_sess c true 1).
Proof. intros [-> | [-> | ->]]; reflexivity. Qed.

(* ------------------------------------------------------------ well-formed card *)
Record t4_wf (c : card) (i : ccinfo) : Prop := mk_t4wf {
  w_disc : forall f, discover (sess0 c f) = (Ok (Some i), set_sess (sess0 c f) true 1);
  w_fid : c_fid c = i_fid i /\ len (i_fid i) = 2 /\ list_eqb (i_fid i) cc_fid = false;
  w_p2 : 0 <= i_p2 i < 256;
  w_ns : i_nlen i = 2 \/ i_nlen i = 4;
  w_mle : i_nlen i <= i_mle i <= 256 /\ i_mle i <= c_mle c;      (* MLe covers the NLEN field *)
  w_mlc : 1 <= i_mlc i <= 255 /\ i_mlc i <= c_mlc c;
  w_cap : 0 <= i_cap i /\ i_nlen i + i_cap i <= len (c_file c) /\ i_nlen i + i_cap i <= 65536;
  w_rw : i_rd i = true /\ i_wr i = true
}.

Lemma list_eqb_refl l : list_eqb l l = true.
Proof. now apply list_eqb_eq. Qed.

Lemma select_ndef_file c i f b : t4_wf c i -> b <> 0 ->
  let s := mkCard (c_cc c) (c_fid c) f (c_v2 c) (c_v1 c) true 1 b [] in
  select_fid s (i_p2 i) (i_fid i) = (Ok true, mkCard (c_cc c) (c_fid c) f (c_v2 c) (c_v1 c) true 2 b []).
Proof.
  intros W Hb s. destruct (w_fid c i W) as (F1 & F2 & F3). pose proof (w_p2 c i W).
  unfold select_fid, t4_send, apdu_of_op, short_apdu.
  replace (negb (len (i_fid i) =? 0) && (len (i_fid i) >? 255)) with false by lia.
  cbn [Z.eqb negb andb]. subst s. cbn [c_budget]. replace (b =? 0) with false by lia.
  unfold card_step. cbn [c_app c_fid andb]. rewrite F3. rewrite F1, list_eqb_refl. reflexivity.
Qed.

Lemma be2 a b : be [a; b] = a * 256 + b. Proof. reflexivity. Qed.
Lemma nlen_bytes_ok ns n : ns = 2 \/ ns = 4 -> 0 <= n < 65536 ->
  exists nl, nlen_bytes ns n = Ok nl /\ len nl = ns /\ be nl = n.
Proof.
  intros [-> | ->] Hn; unfold nlen_bytes.
  - change (256 ^ 2) with 65536. replace ((n <? 0) || (n >=? 65536)) with false by lia.
    change (2 =? 4) with false. cbv iota. eexists. split; [reflexivity|]. split; [reflexivity|].
    cbv [be fold_left]. lia.
  - change (256 ^ 4) with 4294967296. replace ((n <? 0) || (n >=? 4294967296)) with false by lia.
    change (4 =? 4) with true. cbv iota. eexists. split; [reflexivity|]. split; [reflexivity|].
    cbv [be fold_left]. lia.
Qed.

Lemma rd_file_ok c i nlen : in_file c -> c_budget c <> 0 -> 1 <= i_mle i <= 256 -> i_mle i <= c_mle c ->
  0 <= i_nlen i -> i_nlen i + nlen <= len (c_file c) -> i_nlen i + nlen <= 65536 ->
  forall fuel acc, acc = slice (c_file c) (i_nlen i) (i_nlen i + len acc) -> len acc <= nlen ->
    (Z.to_nat (nlen - len acc) <= fuel)%nat ->
    rd_file fuel c i nlen acc = (Ok (slice (c_file c) (i_nlen i) (i_nlen i + nlen)), c).
Proof.
  intros Hin Hb Hm Hc Hns Hl H64. induction fuel as [|f IH]; intros acc Hacc Hle Hf; pose proof (len_nonneg acc) as Ha.
  - cbn [rd_file]. replace (len acc <? nlen) with false by lia. replace nlen with (len acc) by lia. now rewrite <- Hacc.
  - cbn [rd_file]. destruct (len acc <? nlen) eqn:E.
    + set (m := Z.min (i_mle i) (nlen - len acc)).
      rewrite read_binary_file by (auto; lia). fold m. unfold lift.
      assert (Hd : len (slice (c_file c) (i_nlen i + len acc) (i_nlen i + len acc + m)) = m) by (rewrite len_slice; lia).
      rewrite Hd. replace (m =? 0) with false by lia.
      apply IH.
      * rewrite len_app, Hd. rewrite Hacc at 1. rewrite slice_app_adj by lia. f_equal. lia.
      * rewrite len_app, Hd. lia.
      * rewrite len_app, Hd. lia.
    + replace nlen with (len acc) by lia. now rewrite <- Hacc.
Qed.

Definition file_sess (c : card) (f : list Z) : card := mkCard (c_cc c) (c_fid c) f (c_v2 c) (c_v1 c) true 2 (-1) [].

Lemma t4_read_ok c i f n : t4_wf c i -> 0 <= n <= i_cap i -> i_nlen i + n <= len f -> i_nlen i + n <= 65536 ->
  be (take (i_nlen i) f) = n ->
  t4_read_ndef (sess0 c f) = (Ok (Ndef true true (i_cap i) (slice f (i_nlen i) (i_nlen i + n)), Some i), file_sess c f).
Proof.
  intros W Hn Hl H64 Hbe. unfold t4_read_ndef.
  rewrite (w_disc c i W). unfold read_with, set_sess, sess0. cbn [c_cc c_fid c_file c_v2 c_v1 c_budget c_log].
  rewrite (select_ndef_file c i f (-1) W) by lia.
  destruct (w_mle c i W) as (M1 & M2). destruct (w_rw c i W) as (-> & ->).
  assert (Hns : 2 <= i_nlen i <= 4) by (destruct (w_ns c i W); lia).
  fold (file_sess c f).
  assert (Hin : in_file (file_sess c f)) by (split; reflexivity).
  assert (Hmle : c_mle (file_sess c f) = c_mle c) by reflexivity.
  rewrite read_binary_file; [| exact Hin | cbn; lia | lia | cbn [c_file file_sess]; lia | lia | rewrite Hmle; lia ].
  unfold lift. cbn [c_file file_sess]. rewrite Z.min_r by lia. rewrite Z.add_0_l, slice_0.
  rewrite len_take by lia. replace (negb (i_nlen i =? i_nlen i)) with false by lia.
  rewrite Hbe. replace (n >? i_cap i) with false by lia.
  rewrite (rd_file_ok (file_sess c f) i n); cbn [c_file file_sess c_budget]; auto; try lia;
    try (change (len (@nil Z)) with 0; lia).
  change (len (@nil Z)) with 0. rewrite Z.add_0_r, slice_nil_eq. reflexivity.
Qed.
Lemma t4_fresh_ok c i f n : t4_wf c i -> 0 <= n <= i_cap i -> i_nlen i + n <= len f -> i_nlen i + n <= 65536 ->
  be (take (i_nlen i) f) = n ->
  t4_fresh (mkCard (c_cc c) (c_fid c) f (c_v2 c) (c_v1 c) (c_app c) (c_sel c) (c_budget c) (c_log c)) =
  Ok (Ndef true true (i_cap i) (slice f (i_nlen i) (i_nlen i + n))).
Proof.
  intros W Hn Hl H64 Hbe. unfold t4_fresh, new_session. cbn [c_cc c_fid c_file c_v2 c_v1].
  change (mkCard (c_cc c) (c_fid c) f (c_v2 c) (c_v1 c) false 0 (-1) []) with (sess0 c f).
  now rewrite (t4_read_ok c i f n W Hn Hl H64 Hbe).
Qed.

(* ------------------------------------------------------------ the write plan *)
Lemma zeros_len n : 0 <= n -> len (zeros n) = n.
Proof. intro. unfold zeros, len. rewrite repeat_length. lia. Qed.

Lemma splice_over {A} (F a b d : list A) : len a = len b -> len a + len d <= len F ->
  splice (splice F 0 (a ++ d)) 0 b = splice F 0 (b ++ d).
Proof.
  intros Hab Hl. rewrite !splice0.
  assert (E : drop (len b) ((a ++ d) ++ drop (len (a ++ d)) F) = d ++ drop (len (a ++ d)) F).
  { rewrite <- Hab, <- app_assoc. apply drop_app_len. }
  rewrite E, <- app_assoc. do 2 f_equal. rewrite !len_app. now rewrite Hab.
Qed.

Definition final_file (nl d F : list Z) : list Z := splice F 0 (nl ++ d).

Lemma t4_plan_ok c i d nl : in_file c -> 1 <= i_mlc i <= 255 -> i_mlc i <= c_mlc c -> len nl = i_nlen i -> 0 <= i_nlen i ->
  i_nlen i + len d <= len (c_file c) -> i_nlen i + len d <= 65536 ->
  Forall (up_ok c) (t4_plan i d nl) /\
  Forall (fun u => 0 <= fst u /\ fst u + len (snd u) <= i_nlen i + len d) (t4_plan i d nl) /\
  apply_ups (c_file c) (t4_plan i d nl) = final_file nl d (c_file c).
Proof.
  intros Hin Hm Hc Hnl Hns Hl H64. pose proof (len_nonneg d) as Hd. unfold t4_plan.
  assert (Hrange : forall off payload, 0 <= off -> off + len payload <= i_nlen i + len d ->
            Forall (fun u => 0 <= fst u /\ fst u + len (snd u) <= i_nlen i + len d) (ups (i_mlc i) off payload)).
  { intros off payload Ho Hp. apply Forall_forall. intros [o x] Hx. unfold ups in Hx.
    apply with_offsets_range in Hx. rewrite chunks_concat in Hx by lia. cbn [fst snd]. lia. }
  destruct (i_nlen i + len d <=? i_mlc i) eqn:E.
  - repeat split.
    + apply ups_ok; rewrite ?len_app; lia.
    + apply Hrange; rewrite ?len_app; lia.
    + apply ups_apply_all; rewrite ?len_app; lia.
  - assert (Hz : len (zeros (i_nlen i)) = i_nlen i) by (apply zeros_len; lia).
    repeat split.
    + apply Forall_app. split; apply ups_ok; rewrite ?len_app; lia.
    + apply Forall_app. split; apply Hrange; rewrite ?len_app; lia.
    + rewrite apply_ups_app. rewrite (ups_apply_all (c_file c)) by (rewrite ?len_app; lia).
      rewrite ups_apply_all by (rewrite ?len_splice; rewrite ?len_app; lia).
      unfold final_file. apply splice_over; lia.
Qed.

Lemma final_file_facts nl d F : len nl + len d <= len F ->
  take (len nl) (final_file nl d F) = nl /\ slice (final_file nl d F) (len nl) (len nl + len d) = d /\
  len (final_file nl d F) = len F /\ drop (len nl + len d) (final_file nl d F) = drop (len nl + len d) F.
Proof.
  intro H. pose proof (len_nonneg nl). pose proof (len_nonneg d). unfold final_file. rewrite splice0, <- app_assoc.
  split; [apply take_app_len|]. split.
  - rewrite slice_take_drop by lia. rewrite drop_app_len. replace (len nl + len d - len nl) with (len d) by lia. apply take_app_len.
  - split.
    + rewrite !len_app, len_drop; rewrite ?len_app; lia.
    + rewrite app_assoc, <- len_app. rewrite drop_app_len. reflexivity.
Qed.

Lemma t4_fresh_ext a b : c_cc a = c_cc b -> c_fid a = c_fid b -> c_file a = c_file b -> c_v2 a = c_v2 b -> c_v1 a = c_v1 b ->
  t4_fresh a = t4_fresh b.
Proof. intros H1 H2 H3 H4 H5. unfold t4_fresh, new_session. rewrite H1, H2, H3, H4, H5. reflexivity. Qed.

Lemma t4_fresh_same c i c' n : t4_wf c i -> same_cc c c' -> 0 <= n <= i_cap i -> i_nlen i + n <= len (c_file c') -> i_nlen i + n <= 65536 ->
  be (take (i_nlen i) (c_file c')) = n ->
  t4_fresh c' = Ok (Ndef true true (i_cap i) (slice (c_file c') (i_nlen i) (i_nlen i + n))).
Proof.
  intros W (S1 & S2 & S3 & S4) Hn Hl H64 Hbe.
  rewrite <- (t4_fresh_ok c i (c_file c') n W Hn Hl H64 Hbe). apply t4_fresh_ext; cbn; auto.
Qed.

(* ------------------------------------------------------------ C01 *)
(* cw: the session of the writer after it has read tag.ndef (NDEF file selected) *)
Definition writer_sess (c cw : card) : Prop := same_cc c cw /\ in_file cw /\ c_file cw = c_file c.

Lemma t4_write_run c i cw d : t4_wf c i -> writer_sess c cw -> len d <= i_cap i -> c_budget cw <> 0 ->
  exists nl, nlen_bytes (i_nlen i) (len d) = Ok nl /\ len nl = i_nlen i /\ be nl = len d /\
  Forall (fun u => 0 <= fst u /\ fst u + len (snd u) <= i_nlen i + len d) (t4_plan i d nl) /\
  exists r c', t4_write_ndef cw i d = (r, c') /\ same_cc c c' /\
    (if (c_budget cw <? 0) || (Z.of_nat (length (t4_plan i d nl)) <=? c_budget cw)
     then r = Ok tt /\ c_file c' = final_file nl d (c_file c)
     else r = Err (TagCommandError 0) /\ c_file c' = apply_ups (c_file c) (firstn (Z.to_nat (c_budget cw)) (t4_plan i d nl))) /\
    c_log c' = rev (firstn (if c_budget cw <? 0 then length (t4_plan i d nl) else Z.to_nat (c_budget cw)) (t4_plan i d nl)) ++ c_log cw.
Proof.
  intros W (Hs & Hin & Hf) Hd Hb. pose proof (len_nonneg d) as H0.
  destruct (w_cap c i W) as (C1 & C2 & C3). destruct (w_mlc c i W) as (L1 & L2).
  assert (Hns : 2 <= i_nlen i <= 4) by (destruct (w_ns c i W); lia).
  destruct (nlen_bytes_ok (i_nlen i) (len d) (w_ns c i W)) as (nl & Hnl & Hlen & Hbe); [lia|].
  exists nl. split; [exact Hnl|]. split; [exact Hlen|]. split; [exact Hbe|].
  assert (Hmlc : c_mlc cw = c_mlc c) by (unfold c_mlc; destruct Hs as (-> & _); reflexivity).
  destruct (t4_plan_ok cw i d nl Hin) as (P1 & P2 & P3); try (rewrite ?Hf, ?Hmlc; lia).
  split; [exact P2|].
  destruct (run_ups_budget (t4_plan i d nl) cw Hin P1) as (c' & Hs' & Hrun & Hlog).
  cbv zeta in Hrun. unfold t4_write_ndef. rewrite Hnl.
  destruct ((c_budget cw <? 0) || (Z.of_nat (length (t4_plan i d nl)) <=? c_budget cw)).
  - destruct Hrun as (R1 & R2 & _). exists (Ok tt), c'. split; [exact R1|].
    split; [exact (same_cc_card _ _ _ Hs Hs')|]. split; [|exact Hlog].
    split; [reflexivity | rewrite R2, P3, Hf; reflexivity].
  - destruct Hrun as (R1 & R2). exists (Err (TagCommandError 0)), c'. split; [exact R1|].
    split; [exact (same_cc_card _ _ _ Hs Hs')|]. split; [|exact Hlog].
    split; [reflexivity | rewrite R2, Hf; reflexivity].
Qed.

Theorem t4_write_read_gen c i cw d r old : t4_wf c i -> writer_sess c cw -> c_budget cw < 0 -> len d <= i_cap i ->
  exists c', t4_set_octets (Ndef r true (i_cap i) old) (Some i) cw d = (Ok tt, c') /\ same_cc c c' /\
             t4_fresh c' = Ok (Ndef true true (i_cap i) d).
Proof.
  intros W Hw Hb Hd. pose proof (len_nonneg d) as H0.
  destruct (t4_write_run c i cw d W Hw Hd) as (nl & Hnl & Hlen & Hbe & _ & r' & c' & Hrun & Hs & Hm & _); [lia|].
  replace ((c_budget cw <? 0) || _) with true in Hm by lia. destruct Hm as (-> & Hm).
  exists c'. split.
  - unfold t4_set_octets. cbn [negb]. replace (len d >? i_cap i) with false by lia. exact Hrun.
  - split; [exact Hs|]. destruct (w_cap c i W) as (C1 & C2 & C3).
    destruct (final_file_facts nl d (c_file c)) as (F1 & F2 & F3 & F4); [lia|]. rewrite Hlen in *.
    rewrite (t4_fresh_same c i c' (len d) W Hs); rewrite ?Hm; rewrite ?F3; try lia.
    + now rewrite F2.
    + now rewrite F1.
Qed.

(* the writer's own initial read *)
Definition nlen_ok (c : card) (i : ccinfo) : Prop :=
  0 <= be (take (i_nlen i) (c_file c)) <= i_cap i.

Lemma t4_initial_read c i : t4_wf c i -> nlen_ok c i ->
  exists old, t4_read_ndef (new_session c) = (Ok (Ndef true true (i_cap i) old, Some i), file_sess c (c_file c)) /\
              writer_sess c (file_sess c (c_file c)).
Proof.
  intros W Hn. destruct (w_cap c i W) as (C1 & C2 & C3).
  exists (slice (c_file c) (i_nlen i) (i_nlen i + be (take (i_nlen i) (c_file c)))). split.
  - change (new_session c) with (sess0 c (c_file c)).
    apply (t4_read_ok c i (c_file c) (be (take (i_nlen i) (c_file c))) W); try reflexivity; unfold nlen_ok in Hn; lia.
  - split; [unfold same_cc, file_sess; cbn; auto | split; [split; reflexivity | reflexivity]].
Qed.

Theorem t4_write_read_sess c i d : t4_wf c i -> nlen_ok c i -> len d <= i_cap i ->
  exists old cw c', t4_read_ndef (new_session c) = (Ok (Ndef true true (i_cap i) old, Some i), cw) /\
    t4_set_octets (Ndef true true (i_cap i) old) (Some i) cw d = (Ok tt, c') /\ same_cc c c' /\
    t4_fresh c' = Ok (Ndef true true (i_cap i) d).
Proof.
  intros W Hn Hd. destruct (t4_initial_read c i W Hn) as (old & Hr & Hw).
  destruct (t4_write_read_gen c i (file_sess c (c_file c)) d true old W Hw) as (c' & H1 & H2 & H3); [cbn; lia | exact Hd |].
  exists old, (file_sess c (c_file c)), c'. auto.
Qed.

Theorem t4_capacity_sound c i : t4_wf c i -> i_nlen i + i_cap i <= len (c_file c).
Proof. intro W. apply (w_cap c i W). Qed.

Theorem t4_oversize_rejected r cap old oi c d : len d > cap ->
  t4_set_octets (Ndef r true cap old) (Some oi) c d = (Err ValueError, c).
Proof. intro H. unfold t4_set_octets. cbn [negb]. now replace (len d >? cap) with true by lia. Qed.

(* ------------------------------------------------------------ C02 *)
Lemma len_pos_nonnil {A} (l : list A) : 1 <= len l -> l <> [].
Proof. intros H E. subst. cbn in H. lia. Qed.
Lemma be_zeros ns : ns = 2 \/ ns = 4 -> be (zeros ns) = 0.
Proof. intros [-> | ->]; reflexivity. Qed.

Lemma firstn_chunks_head mlc (payload : list Z) k : 1 <= mlc -> payload <> [] -> (1 <= k)%nat ->
  exists rest, concat (firstn k (chunks mlc payload)) = take mlc payload ++ rest.
Proof.
  intros Hm Hp Hk. rewrite chunks_cons by (auto; lia). destruct k as [|k]; [lia|]. cbn [firstn concat]. eexists; reflexivity.
Qed.

Lemma t4_write_dead cw i d nl : nlen_bytes (i_nlen i) (len d) = Ok nl -> c_budget cw = 0 ->
  Forall (up_ok cw) (t4_plan i d nl) -> t4_plan i d nl <> [] ->
  t4_write_ndef cw i d = (Err (TagCommandError 0), cw).
Proof.
  intros Hnl Hb Hok Hne. unfold t4_write_ndef. rewrite Hnl. destruct (t4_plan i d nl) as [|[o x] r]; [congruence|].
  inversion Hok as [|? ? (H1 & H2 & _) _]; subst. cbn [fst snd] in *. cbn [run_ups].
  rewrite up_dead; [reflexivity | apply apdu_up_ok; lia | exact Hb].
Qed.

Theorem t4_cut_safe_gen c i cw d old : t4_wf c i -> writer_sess c cw -> len d <= i_cap i ->
  i_nlen i <= i_mlc i ->                                  (* the NLEN field fits one UPDATE BINARY *)
  0 <= c_budget cw ->
  exists nl r c', nlen_bytes (i_nlen i) (len d) = Ok nl /\
    t4_set_octets (Ndef true true (i_cap i) old) (Some i) cw d = (r, c') /\ same_cc c c' /\
    let k := c_budget cw in let n := Z.of_nat (length (t4_plan i d nl)) in
    (k = 0 -> c_file c' = c_file c) /\
    (0 < k < n -> t4_fresh c' = Ok (Ndef true true (i_cap i) [])) /\
    (n <= k -> t4_fresh c' = Ok (Ndef true true (i_cap i) d)).
Proof.
  intros W Hw Hd Hmlc Hk. pose proof (len_nonneg d) as H0.
  destruct (w_cap c i W) as (C1 & C2 & C3). destruct (w_mlc c i W) as (L1 & L2).
  assert (Hns : 2 <= i_nlen i <= 4) by (destruct (w_ns c i W); lia).
  assert (Hset : t4_set_octets (Ndef true true (i_cap i) old) (Some i) cw d = t4_write_ndef cw i d).
  { unfold t4_set_octets. cbn [negb]. now replace (len d >? i_cap i) with false by lia. }
  rewrite Hset.
  destruct (Z.eq_dec (c_budget cw) 0) as [Hk0|Hk0].
  - (* dead before the first command *)
    destruct (nlen_bytes_ok (i_nlen i) (len d) (w_ns c i W)) as (nl & Hnl & Hlen & Hbe); [lia|].
    destruct Hw as (Hs & Hin & Hf).
    assert (Hmlc' : c_mlc cw = c_mlc c) by (unfold c_mlc; destruct Hs as (-> & _); reflexivity).
    destruct (t4_plan_ok cw i d nl Hin) as (P1 & P2 & P3); try (rewrite ?Hf, ?Hmlc'; lia).
    assert (Hne : t4_plan i d nl <> []).
    { assert (Hz : len (zeros (i_nlen i)) = i_nlen i) by (apply zeros_len; lia).
      unfold t4_plan, ups. destruct (_ <=? _).
      - rewrite chunks_cons; [discriminate | apply len_pos_nonnil; rewrite len_app; lia | lia].
      - rewrite chunks_cons; [discriminate | apply len_pos_nonnil; rewrite len_app; lia | lia]. }
    exists nl, (Err (TagCommandError 0)), cw. split; [exact Hnl|]. split; [apply (t4_write_dead cw i d nl); auto|]. split; [exact Hs|].
    cbv zeta. split; [intros; exact Hf|]. split; [intro; lia|]. intro Hn. exfalso.
    destruct (t4_plan i d nl); [congruence | cbn [length] in Hn; lia].
  - destruct (t4_write_run c i cw d W Hw Hd Hk0) as (nl & Hnl & Hlen & Hbe & Prange & r & c' & Hrun & Hs & Hm & _).
    exists nl, r, c'. split; [exact Hnl|]. split; [exact Hrun|]. split; [exact Hs|]. cbv zeta.
    replace (c_budget cw <? 0) with false in Hm by lia. cbn [orb] in Hm.
    split; [intro; lia|]. split.
    + (* strictly inside: NLEN is zero *)
      intros Hkn. replace (Z.of_nat (length (t4_plan i d nl)) <=? c_budget cw) with false in Hm by lia.
      destruct Hm as (_ & Hm). unfold t4_plan in *.
      destruct (i_nlen i + len d <=? i_mlc i) eqn:E.
      { (* single UPDATE BINARY: the plan has one command, nothing is strictly inside *)
        exfalso. unfold ups in Hkn. rewrite chunks_single in Hkn; [cbn in Hkn; lia | apply len_pos_nonnil; rewrite len_app; lia | rewrite len_app; lia]. }
      assert (Hz : len (zeros (i_nlen i)) = i_nlen i) by (apply zeros_len; lia).
      assert (Hp2 : ups (i_mlc i) 0 nl = [(0, nl)]).
      { unfold ups. rewrite chunks_single; [reflexivity | apply len_pos_nonnil; lia | lia]. }
      rewrite Hp2 in *. rewrite app_length in Hkn. cbn [length] in Hkn.
      rewrite firstn_app in Hm. replace (Z.to_nat (c_budget cw) - length (ups (i_mlc i) 0 (zeros (i_nlen i) ++ d)))%nat with 0%nat in Hm by lia.
      cbn [firstn] in Hm. rewrite app_nil_r in Hm.
      rewrite ups_apply in Hm by (rewrite ?len_app; lia).
      destruct (firstn_chunks_head (i_mlc i) (zeros (i_nlen i) ++ d) (Z.to_nat (c_budget cw))) as (rest & Hc); [lia | | lia |].
      { intro Habs. apply (f_equal len) in Habs. rewrite len_app, Hz in Habs. change (len (@nil Z)) with 0 in Habs. lia. }
      assert (Hpre : exists rest', concat (firstn (Z.to_nat (c_budget cw)) (chunks (i_mlc i) (zeros (i_nlen i) ++ d))) = zeros (i_nlen i) ++ rest').
      { rewrite Hc. destruct (Z.le_gt_cases (len (zeros (i_nlen i) ++ d)) (i_mlc i)).
        - rewrite take_all by lia. rewrite <- app_assoc. eexists; reflexivity.
        - set (Zs := zeros (i_nlen i)) in *.
          replace (i_mlc i) with (len Zs + (i_mlc i - i_nlen i)) by lia.
          rewrite take_app_plus by lia. rewrite <- app_assoc. eexists; reflexivity. }
      destruct Hpre as (rest' & Hpre).
      destruct (concat_firstn_prefix (chunks (i_mlc i) (zeros (i_nlen i) ++ d)) (Z.to_nat (c_budget cw))) as (tl & Htl).
      rewrite chunks_concat in Htl by lia. apply (f_equal len) in Htl. rewrite !len_app in Htl. pose proof (len_nonneg tl).
      assert (Hlenf : len (c_file c') = len (c_file c)) by (rewrite Hm; apply len_splice; lia).
      rewrite (t4_fresh_same c i c' 0 W Hs); try lia.
      * now rewrite Z.add_0_r, slice_nil_eq.
      * rewrite Hm, splice0, Hpre, <- app_assoc. rewrite <- Hz at 1. rewrite take_app_len. apply be_zeros, (w_ns c i W).
    + intro Hkn. replace (Z.of_nat (length (t4_plan i d nl)) <=? c_budget cw) with true in Hm by lia.
      destruct Hm as (_ & Hm).
      destruct (final_file_facts nl d (c_file c)) as (F1 & F2 & F3 & F4); [lia|]. rewrite Hlen in *.
      rewrite (t4_fresh_same c i c' (len d) W Hs); rewrite ?Hm; rewrite ?F3; try lia.
      * now rewrite F2.
      * now rewrite F1.
Qed.

(* ------------------------------------------------------------ C03 *)
Definition in_range (B : Z) (u : Z * list Z) : Prop := 0 <= fst u /\ fst u + len (snd u) <= B.

Lemma apply_ups_frame B : forall p f, Forall (in_range B) p -> B <= len f ->
  len (apply_ups f p) = len f /\ drop B (apply_ups f p) = drop B f.
Proof.
  induction p as [|[o x] r IH]; intros f Hp HB; [cbn; auto|]. inversion Hp as [|? ? [H1 H2] Hr]; subst. cbn [fst snd] in *.
  change (apply_ups f ((o, x) :: r)) with (apply_ups (splice f o x) r).
  pose proof (len_nonneg x).
  assert (L : len (splice f o x) = len f) by (apply len_splice; lia).
  destruct (IH (splice f o x) Hr) as (A & D); [lia|]. rewrite A, D, L. split; [reflexivity|]. apply drop_splice_hi; lia.
Qed.

Lemma run_ups_frame B p c : in_file c -> Forall (up_ok c) p -> Forall (in_range B) p -> B <= len (c_file c) ->
  exists r c', run_ups c p = (r, c') /\ same_card c c' /\
    len (c_file c') = len (c_file c) /\ drop B (c_file c') = drop B (c_file c) /\
    (exists j, c_log c' = rev (firstn j p) ++ c_log c) /\
    ((c_budget c < 0 \/ Z.of_nat (length p) <= c_budget c) -> r = Ok tt /\ c_file c' = apply_ups (c_file c) p).
Proof.
  intros Hin Hok Hr HB. destruct (run_ups_budget p c Hin Hok) as (c' & Hs & Hrun & Hlog). cbv zeta in Hrun.
  destruct ((c_budget c <? 0) || (Z.of_nat (length p) <=? c_budget c)) eqn:E.
  - destruct Hrun as (R1 & R2 & _). exists (Ok tt), c'. split; [exact R1|]. split; [exact Hs|].
    destruct (apply_ups_frame B p (c_file c) Hr HB) as (A & D). rewrite R2. repeat split; auto. eexists; exact Hlog.
  - destruct Hrun as (R1 & R2). exists (Err (TagCommandError 0)), c'. split; [exact R1|]. split; [exact Hs|].
    destruct (apply_ups_frame B (firstn (Z.to_nat (c_budget c)) p) (c_file c)) as (A & D); [apply Forall_firstn; exact Hr | exact HB |].
    rewrite R2. repeat split; auto; [eexists; exact Hlog | lia | lia].
Qed.

Theorem t4_write_frame_gen c i cw d old : t4_wf c i -> writer_sess c cw -> len d <= i_cap i ->
  exists nl r c', nlen_bytes (i_nlen i) (len d) = Ok nl /\
    t4_set_octets (Ndef true true (i_cap i) old) (Some i) cw d = (r, c') /\
    (* every UPDATE BINARY lies inside [0, nlen_size + len d) of the NDEF file, which is inside the declared file *)
    Forall (in_range (i_nlen i + len d)) (t4_plan i d nl) /\ i_nlen i + len d <= i_nlen i + i_cap i <= len (c_file c) /\
    (exists j, c_log c' = rev (firstn j (t4_plan i d nl)) ++ c_log cw) /\
    c_cc c' = c_cc c /\ len (c_file c') = len (c_file c) /\
    drop (i_nlen i + len d) (c_file c') = drop (i_nlen i + len d) (c_file c).
Proof.
  intros W (Hs & Hin & Hf) Hd. pose proof (len_nonneg d) as H0.
  destruct (w_cap c i W) as (C1 & C2 & C3). destruct (w_mlc c i W) as (L1 & L2).
  assert (Hns : 2 <= i_nlen i <= 4) by (destruct (w_ns c i W); lia).
  destruct (nlen_bytes_ok (i_nlen i) (len d) (w_ns c i W)) as (nl & Hnl & Hlen & Hbe); [lia|].
  assert (Hmlc' : c_mlc cw = c_mlc c) by (unfold c_mlc; destruct Hs as (-> & _); reflexivity).
  destruct (t4_plan_ok cw i d nl Hin) as (P1 & P2 & P3); try (rewrite ?Hf, ?Hmlc'; lia).
  destruct (run_ups_frame (i_nlen i + len d) (t4_plan i d nl) cw Hin P1 P2) as (r & c' & R & Hs' & A & D & Hl & _); [rewrite Hf; lia|].
  exists nl, r, c'. split; [exact Hnl|]. split.
  { unfold t4_set_octets. cbn [negb]. replace (len d >? i_cap i) with false by lia. unfold t4_write_ndef. rewrite Hnl. exact R. }
  split; [exact P2|]. split; [lia|]. split; [exact Hl|].
  rewrite <- Hf. split; [|auto]. destruct Hs' as (-> & _). apply Hs.
Qed.

(* format: wipe touches only the NLEN field and bytes nlen_size .. capacity-1 of the NDEF file *)
Theorem t4_format_frame c i cw w r0 old : t4_wf c i -> writer_sess c cw ->
  Forall (in_range (i_nlen i + i_cap i)) (t4_wipe_plan i w) /\
  t4_format (Ndef r0 true (i_cap i) old) (Some i) cw None = (Ok true, cw) /\
  exists r c', t4_format (Ndef r0 true (i_cap i) old) (Some i) cw (Some w) = (r, c') /\
    (exists j, c_log c' = rev (firstn j (t4_wipe_plan i w)) ++ c_log cw) /\
    c_cc c' = c_cc c /\ len (c_file c') = len (c_file c) /\
    drop (i_nlen i + i_cap i) (c_file c') = drop (i_nlen i + i_cap i) (c_file c).
Proof.
  intros W (Hs & Hin & Hf). destruct (w_cap c i W) as (C1 & C2 & C3). destruct (w_mlc c i W) as (L1 & L2).
  assert (Hns : 2 <= i_nlen i <= 4) by (destruct (w_ns c i W); lia).
  assert (Hmlc' : c_mlc cw = c_mlc c) by (unfold c_mlc; destruct Hs as (-> & _); reflexivity).
  assert (Hz : len (zeros (i_nlen i)) = i_nlen i) by (apply zeros_len; lia).
  set (pay := drop (i_nlen i) (repeat (w mod 256) (Z.to_nat (i_cap i)))).
  assert (Hpay : i_nlen i + len pay <= i_nlen i + i_cap i).
  { subst pay. pose proof (len_nonneg (drop (i_nlen i) (repeat (w mod 256) (Z.to_nat (i_cap i))))).
    destruct (Z.le_gt_cases (i_nlen i) (i_cap i)).
    - rewrite len_drop; unfold len; rewrite repeat_length; lia.
    - rewrite drop_all; [change (len (@nil Z)) with 0; lia | unfold len; rewrite repeat_length; lia]. }
  assert (Hrange : forall off payload, 0 <= off -> off + len payload <= i_nlen i + i_cap i ->
            Forall (in_range (i_nlen i + i_cap i)) (ups (i_mlc i) off payload)).
  { intros off payload Ho Hp. apply Forall_forall. intros [o x] Hx. unfold ups in Hx.
    apply with_offsets_range in Hx. rewrite chunks_concat in Hx by lia. unfold in_range. cbn [fst snd]. lia. }
  assert (P2 : Forall (in_range (i_nlen i + i_cap i)) (t4_wipe_plan i w)).
  { unfold t4_wipe_plan. fold pay. apply Forall_app. split; apply Hrange; lia. }
  assert (P1 : Forall (up_ok cw) (t4_wipe_plan i w)).
  { unfold t4_wipe_plan. fold pay. apply Forall_app. split; apply ups_ok; rewrite ?Hf, ?Hmlc'; lia. }
  split; [exact P2|]. split; [reflexivity|].
  destruct (run_ups_frame (i_nlen i + i_cap i) (t4_wipe_plan i w) cw Hin P1 P2) as (r & c' & R & Hs' & A & D & Hl & _); [rewrite Hf; lia|].
  unfold t4_format. rewrite R.
  assert (Hcc : c_cc c' = c_cc c) by (destruct Hs' as (-> & _); apply Hs).
  rewrite <- Hf. destruct r; eexists; eexists; (split; [reflexivity|]); auto.
Qed.

(* ------------------------------------------------------------ every capability container of mapping version 2 / 3 *)
Lemma t4_wf_cc2 ver e1 e0 l1 l0 f1 f2 s1 s0 file v1 app sel b lg :
  ver = 16 \/ ver = 32 \/ ver = 48 -> list_eqb [f1; f2] cc_fid = false ->
  let mle := e1 * 256 + e0 in let mlc := l1 * 256 + l0 in let mfs := be [s1; s0] in
  2 <= mle -> 1 <= mlc -> 2 <= mfs -> Z.min mfs 65536 <= len file ->
  t4_wf (mkCard (cc2 ver e1 e0 l1 l0 f1 f2 s1 s0 0 0) [f1; f2] file true v1 app sel b lg)
        (mkInfo (Z.min mle 256) (Z.min mlc 255) (Z.min mfs 65536 - 2) true true 2 [f1; f2] 12).
Proof.
  intros Hv Hf mle mlc mfs H1 H2 H3 H4. constructor; cbn [i_mle i_mlc i_cap i_rd i_wr i_nlen i_fid i_p2 c_fid c_file].
  - intro f. apply (discover_cc2 ver e1 e0 l1 l0 f1 f2 s1 s0 0 0 f v1 Hv).
  - repeat split; auto.
  - lia.
  - left; reflexivity.
  - change (c_mle _) with mle. lia.
  - change (c_mlc _) with mlc. lia.
  - lia.
  - auto.
Qed.

Lemma t4_wf_cc2_v1 ver e1 e0 l1 l0 f1 f2 s1 s0 file app sel b lg :
  ver = 16 \/ ver = 32 \/ ver = 48 -> list_eqb [f1; f2] cc_fid = false ->
  let mle := e1 * 256 + e0 in let mlc := l1 * 256 + l0 in let mfs := be [s1; s0] in
  2 <= mle -> 1 <= mlc -> 2 <= mfs -> Z.min mfs 65536 <= len file ->
  t4_wf (mkCard (cc2 ver e1 e0 l1 l0 f1 f2 s1 s0 0 0) [f1; f2] file false true app sel b lg)
        (mkInfo (Z.min mle 256) (Z.min mlc 255) (Z.min mfs 65536 - 2) true true 2 [f1; f2] 0).
Proof.
  intros Hv Hf mle mlc mfs H1 H2 H3 H4. constructor; cbn [i_mle i_mlc i_cap i_rd i_wr i_nlen i_fid i_p2 c_fid c_file].
  - intro f. apply (discover_cc2_v1 ver e1 e0 l1 l0 f1 f2 s1 s0 0 0 f Hv).
  - repeat split; auto.
  - lia.
  - left; reflexivity.
  - change (c_mle _) with mle. lia.
  - change (c_mlc _) with mlc. lia.
  - lia.
  - auto.
Qed.

Lemma t4_wf_cc3 ver e1 e0 l1 l0 f1 f2 s3 s2 s1 s0 file v1 app sel b lg :
  ver = 16 \/ ver = 32 \/ ver = 48 -> list_eqb [f1; f2] cc_fid = false ->
  let mle := e1 * 256 + e0 in let mlc := l1 * 256 + l0 in let mfs := be [s3; s2; s1; s0] in
  4 <= mle -> 1 <= mlc -> 4 <= mfs -> Z.min mfs 65536 <= len file ->
  t4_wf (mkCard (cc3 ver e1 e0 l1 l0 f1 f2 s3 s2 s1 s0 0 0) [f1; f2] file true v1 app sel b lg)
        (mkInfo (Z.min mle 256) (Z.min mlc 255) (Z.min mfs 65536 - 4) true true 4 [f1; f2] 12).
Proof.
  intros Hv Hf mle mlc mfs H1 H2 H3 H4. constructor; cbn [i_mle i_mlc i_cap i_rd i_wr i_nlen i_fid i_p2 c_fid c_file].
  - intro f. apply (discover_cc3 ver e1 e0 l1 l0 f1 f2 s3 s2 s1 s0 0 0 f v1 Hv).
  - repeat split; auto.
  - lia.
  - right; reflexivity.
  - change (c_mle _) with mle. lia.
  - change (c_mlc _) with mlc. lia.
  - lia.
  - auto.
Qed.
