(* C05 - sliding-window invariant of one direction X -> Y of a data link connection
   (DESIGN.md Appendix A.2) and the primitive preservation lemmas; the two-direction system
   invariant and the induction over op lists are in Proofs/Dlc.v. *)
From Coq Require Import ZArith List Bool Lia ZifyBool.
From NV Require Import Base.Result Base.Bytes Model.Dlc.
Import ListNotations.
Open Scope Z_scope.
Ltac Zify.zify_post_hook ::= Z.to_euclidean_division_equations.

(* ---- what a wire / send queue carries for each of the two directions it serves ---- *)

(* (N(S), data) of the I PDUs: serves the direction of the PDU's sender *)
Fixpoint Is (l : list pdu) : list (Z * msg) :=
  match l with
  | [] => []
  | PI ns _ d :: r => (ns, d) :: Is r
  | _ :: r => Is r
  end.
(* N(R) of every numbered PDU: serves the opposite direction *)
Fixpoint nrs (l : list pdu) : list Z :=
  match l with
  | [] => []
  | PI _ nr _ :: r => nr :: nrs r
  | PRR nr :: r => nr :: nrs r
  | PRNR nr :: r => nr :: nrs r
  | PFRMR _ _ _ _ _ _ _ _ :: r => nrs r
  end.
Definition isI (p : pdu) : bool := match p with PI _ _ _ => true | _ => false end.
Definition notF (p : pdu) : bool := match p with PFRMR _ _ _ _ _ _ _ _ => false | _ => true end.

Lemma Is_app a b : Is (a ++ b) = Is a ++ Is b.
Proof. induction a as [|p a IH]; [reflexivity|]. destruct p; cbn; rewrite IH; reflexivity. Qed.
Lemma nrs_app a b : nrs (a ++ b) = nrs a ++ nrs b.
Proof. induction a as [|p a IH]; [reflexivity|]. destruct p; cbn; rewrite IH; reflexivity. Qed.

(* the k-th message sent travels as I PDU with N(S) = k mod 16 *)
Fixpoint number (k : Z) (l : list msg) : list (Z * msg) :=
  match l with [] => [] | d :: r => (k mod 16, d) :: number (k + 1) r end.
Lemma number_app k a b : number k (a ++ b) = number k a ++ number (k + len a) b.
Proof. revert k; induction a as [|d a IH]; intro k; cbn [app number].
  - rewrite len_nil, Z.add_0_r. reflexivity.
  - rewrite IH, len_cons. f_equal. f_equal. f_equal. lia. Qed.
Lemma map_snd_number k l : map snd (number k l) = l.
Proof. revert k; induction l as [|d l IH]; intro k; cbn; [reflexivity|]. rewrite IH. reflexivity. Qed.
Lemma len_snoc {A} (l : list A) (x : A) : len (l ++ [x]) = len l + 1.
Proof. unfold len. rewrite app_length. cbn. lia. Qed.
Lemma len_map {A B} (f : A -> B) l : len (map f l) = len l.
Proof. unfold len. rewrite map_length. reflexivity. Qed.

(* N(R) values in flight towards the sender: read with the sender's un-wrapping rule
   n := lo + (v - lo) mod 16 they form a non-decreasing sequence between SA and RA *)
Fixpoint nr_ok (lo hi : Z) (l : list Z) : Prop :=
  match l with
  | [] => lo <= hi
  | v :: r => 0 <= v < 16 /\ lo + (v - lo) mod 16 <= hi /\ nr_ok (lo + (v - lo) mod 16) hi r
  end.
Lemma nr_ok_le l : forall lo hi, nr_ok lo hi l -> lo <= hi.
Proof. induction l as [|v l IH]; intros lo hi H; cbn in H; [exact H|]. destruct H as (H0 & H1 & H2). apply IH in H2. lia. Qed.
Lemma nr_ok_snoc l : forall lo hi hi' v, nr_ok lo hi l -> hi <= hi' -> hi' - lo <= 15 -> v = hi' mod 16 ->
  nr_ok lo hi' (l ++ [v]).
Proof.
  induction l as [|u l IH]; intros lo hi hi' v H Hh Hw Hv; cbn in H |- *.
  - subst v. repeat split; lia.
  - destruct H as (H0 & H1 & H2). split; [lia|]. split; [lia|]. eapply IH; eauto. lia.
Qed.

(* ---- the invariant of one direction (sender X, receiver Y) ---- *)
Definition DirInv (xvs xvsa xrw xmiu : Z) (flight : list (Z * msg))
                  (yvr yvra yrw ybuf ymiu yconfs : Z) (yrq : list msg) (nl : list Z) (g : ghost) : Prop :=
  xvs = len (sent g) mod 16 /\ xvsa = gSA g mod 16 /\ yvr = gR g mod 16 /\ yvra = gRA g mod 16 /\
  0 <= gSA g /\ gRA g <= len (dlv g) /\ len (dlv g) <= gR g /\ gR g <= len (sent g) /\
  len (sent g) - gSA g <= xrw /\ xrw = yrw /\ ybuf = yrw /\ 0 <= yrw <= 15 /\ xmiu = ymiu /\
  yconfs = len (dlv g) - gRA g /\
  len yrq = gR g - len (dlv g) /\
  sent g = dlv g ++ yrq ++ map snd flight /\
  flight = number (gR g) (map snd flight) /\
  Forall (fun d => len d <= ymiu) (map snd flight) /\
  nr_ok (gSA g) (gRA g) nl /\
  lost g = false /\ frmr g = false /\ rterr g = false.

Ltac dir_intro H :=
  destruct H as (Hvs & Hvsa & Hvr & Hvra & HSA & HRA & HC & HR & Hwin & Hrw & Hbuf & Hrng & Hmiu & Hconf & Hrq & Hsent
                 & Hnum & Hsz & Hnr & Hlost & Hfrmr & Hrt);
  pose proof (nr_ok_le _ _ _ Hnr) as HSARA.

Lemma dir_len_flight xvs xvsa xrw xmiu flight yvr yvra yrw ybuf ymiu yconfs yrq nl g :
  DirInv xvs xvsa xrw xmiu flight yvr yvra yrw ybuf ymiu yconfs yrq nl g ->
  len flight = len (sent g) - gR g.
Proof. intro H. dir_intro H. rewrite Hsent, !len_app, len_map. lia. Qed.

(* X.send accepts m *)
Lemma dir_send xvs xvsa xrw xmiu flight yvr yvra yrw ybuf ymiu yconfs yrq nl g m :
  DirInv xvs xvsa xrw xmiu flight yvr yvra yrw ybuf ymiu yconfs yrq nl g ->
  (xrw - xvs + xvsa) mod 16 <> 0 -> len m <= xmiu ->
  DirInv ((xvs + 1) mod 16) xvsa xrw xmiu (flight ++ [(xvs, m)]) yvr yvra yrw ybuf ymiu yconfs yrq nl (g_sent g m).
Proof.
  intros H Hslot Hm. pose proof (dir_len_flight _ _ _ _ _ _ _ _ _ _ _ _ _ _ H) as Hfl. dir_intro H.
  assert (Hlt : len (sent g) - gSA g < xrw) by lia.
  unfold DirInv, g_sent; cbn [sent dlv gSA gR gRA lost frmr rterr].
  rewrite len_snoc, map_app. cbn [map snd].
  repeat split; try assumption; try lia.
  - rewrite Hsent at 1. rewrite <- !app_assoc. reflexivity.
  - rewrite number_app, <- Hnum. f_equal. cbn [number]. f_equal. f_equal. rewrite len_map. lia.
  - apply Forall_app. split; [assumption|]. constructor; [lia|constructor].
Qed.

(* Y.enqueue takes the first I PDU in flight *)
Lemma dir_accept xvs xvsa xrw xmiu ns d fl yvr yvra yrw ybuf ymiu yconfs yrq nl g :
  DirInv xvs xvsa xrw xmiu ((ns, d) :: fl) yvr yvra yrw ybuf ymiu yconfs yrq nl g ->
  ns = yvr /\ len d <= ymiu /\ len yrq < ybuf /\
  DirInv xvs xvsa xrw xmiu fl ((yvr + 1) mod 16) yvra yrw ybuf ymiu yconfs (yrq ++ [d]) nl (g_enq g EnqAccepted).
Proof.
  intro H. pose proof (dir_len_flight _ _ _ _ _ _ _ _ _ _ _ _ _ _ H) as Hfl. rewrite len_cons in Hfl.
  pose proof (len_nonneg fl). dir_intro H.
  cbn [map snd number] in Hnum, Hsz, Hsent. injection Hnum as Hns Hnum'.
  inversion Hsz as [|? ? Hd Hsz']; subst.
  split; [lia|]. split; [assumption|]. split; [lia|].
  unfold DirInv, g_enq; cbn [sent dlv gSA gR gRA lost frmr rterr].
  rewrite len_snoc.
  repeat split; try assumption; try lia.
  rewrite Hsent at 1. rewrite <- !app_assoc. reflexivity.
Qed.

(* Y.recv returns the head of the receive queue *)
Lemma dir_recv xvs xvsa xrw xmiu flight yvr yvra yrw ybuf ymiu yconfs d q nl g :
  DirInv xvs xvsa xrw xmiu flight yvr yvra yrw ybuf ymiu yconfs (d :: q) nl g ->
  yconfs + 1 <= yrw /\
  DirInv xvs xvsa xrw xmiu flight yvr yvra yrw ybuf ymiu (yconfs + 1) q nl (g_dlv g d).
Proof.
  intro H. dir_intro H. rewrite len_cons in Hrq. pose proof (len_nonneg q).
  split; [lia|].
  unfold DirInv, g_dlv; cbn [sent dlv gSA gR gRA lost frmr rterr].
  rewrite len_snoc.
  repeat split; try assumption; try lia.
  rewrite Hsent at 1. rewrite <- !app_assoc. reflexivity.
Qed.

(* Y puts its receive confirmations into an acknowledgement (RR / RNR / piggy-backed) *)
Lemma dir_ack xvs xvsa xrw xmiu flight yvr yvra yrw ybuf ymiu yconfs yrq nl g n v :
  DirInv xvs xvsa xrw xmiu flight yvr yvra yrw ybuf ymiu yconfs yrq nl g ->
  n = yconfs -> v = (yvra + yconfs) mod 16 ->
  DirInv xvs xvsa xrw xmiu flight yvr v yrw ybuf ymiu 0 yrq (nl ++ [v]) (g_ra g n).
Proof.
  intros H Hn Hv. dir_intro H. subst n.
  unfold DirInv, g_ra; cbn [sent dlv gSA gR gRA lost frmr rterr].
  repeat split; try assumption; try lia.
  eapply nr_ok_snoc; [exact Hnr| lia | lia | lia].
Qed.

(* Y emits a numbered PDU carrying the unchanged V(RA) *)
Lemma dir_push xvs xvsa xrw xmiu flight yvr yvra yrw ybuf ymiu yconfs yrq nl g n :
  DirInv xvs xvsa xrw xmiu flight yvr yvra yrw ybuf ymiu yconfs yrq nl g ->
  n = 0 ->
  DirInv xvs xvsa xrw xmiu flight yvr yvra yrw ybuf ymiu yconfs yrq (nl ++ [yvra]) (g_ra g n).
Proof.
  intros H Hn. dir_intro H. subst n.
  unfold DirInv, g_ra; cbn [sent dlv gSA gR gRA lost frmr rterr].
  repeat split; try assumption; try lia.
  eapply nr_ok_snoc; [exact Hnr| lia | lia | lia].
Qed.

(* X processes the first N(R) in flight:  acks = N(R) - V(SA) mod 16 *)
Lemma dir_pop xvs xvsa xrw xmiu flight yvr yvra yrw ybuf ymiu yconfs yrq v nl g n xvsa' :
  DirInv xvs xvsa xrw xmiu flight yvr yvra yrw ybuf ymiu yconfs yrq (v :: nl) g ->
  n = (v - xvsa) mod 16 -> xvsa' = (if (v - xvsa) mod 16 =? 0 then xvsa else v) ->
  DirInv xvs xvsa' xrw xmiu flight yvr yvra yrw ybuf ymiu yconfs yrq nl (g_acked g n).
Proof.
  intros H Hn Hv'. dir_intro H. cbn [nr_ok] in Hnr. destruct Hnr as (Hv & Hn1 & Hn2).
  assert (Ha : (v - xvsa) mod 16 = (v - gSA g) mod 16) by lia.
  pose proof (nr_ok_le _ _ _ Hn2) as Hn3.
  unfold DirInv, g_acked; cbn [sent dlv gSA gR gRA lost frmr rterr].
  rewrite Hn, Ha.
  repeat split; try assumption; try lia.
  destruct ((v - xvsa) mod 16 =? 0) eqn:E; lia.
Qed.
