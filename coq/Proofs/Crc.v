From Coq Require Import ZArith List Bool Lia.
From NV Require Import Base.Result Base.Bytes Base.Sweep Model.Crc.
Import ListNotations.
Open Scope Z_scope.

Lemma land_lxor_distr_l a b c : Z.land (Z.lxor a b) c = Z.lxor (Z.land a c) (Z.land b c).
Proof. apply Z.bits_inj'. intros n Hn. rewrite !Z.land_spec, !Z.lxor_spec, !Z.land_spec.
  destruct (Z.testbit a n), (Z.testbit b n), (Z.testbit c n); reflexivity. Qed.

(* --- 1. the octet can be folded into the register first ------------------- *)
Lemma land1_lxor_land1 r o : Z.land (Z.lxor r (Z.land o 1)) 1 = Z.land (Z.lxor r o) 1.
Proof. rewrite !land_lxor_distr_l. rewrite <- Z.land_assoc. reflexivity. Qed.

Lemma crc_bit_fold r o pos : 0 <= pos ->
  crc_bit (Z.lxor r (Z.shiftr o pos)) 0 pos = Z.lxor (crc_bit r o pos) (Z.shiftr o (pos + 1)).
Proof.
  intro Hp. unfold crc_bit.
  rewrite Z.shiftr_0_l, Z.land_0_l, Z.lxor_0_r.
  rewrite land1_lxor_land1.
  rewrite Z.shiftr_lxor, Z.shiftr_shiftr by lia.
  destruct (Z.land (Z.lxor r (Z.shiftr o pos)) 1 =? 0).
  - reflexivity.
  - rewrite !Z.lxor_assoc. f_equal. apply Z.lxor_comm.
Qed.

Lemma crc_bit_zero_pos r p q : crc_bit r 0 p = crc_bit r 0 q.
Proof. unfold crc_bit. rewrite !Z.shiftr_0_l. reflexivity. Qed.

Lemma crc_steps_fold n : forall pos r o, 0 <= pos ->
  crc_steps n pos 0 (Z.lxor r (Z.shiftr o pos)) =
  Z.lxor (crc_steps n pos o r) (Z.shiftr o (pos + Z.of_nat n)).
Proof.
  induction n as [|n IH]; intros pos r o Hp.
  - cbn [crc_steps]. rewrite Z.add_0_r. reflexivity.
  - cbn [crc_steps]. rewrite crc_bit_fold by exact Hp.
    rewrite IH by lia. f_equal. f_equal. lia.
Qed.

Lemma shiftr8_byte o : 0 <= o < 256 -> Z.shiftr o 8 = 0.
Proof. intro H. rewrite Z.shiftr_div_pow2 by lia. apply Z.div_small. cbn. lia. Qed.

Lemma crc_octet_fold r o : 0 <= o < 256 -> crc_octet r o = crc_octet (Z.lxor r o) 0.
Proof.
  intro Ho. unfold crc_octet.
  pose proof (crc_steps_fold 8 0 r o (Z.le_refl 0)) as H.
  rewrite Z.shiftr_0_r in H. rewrite H. cbn [Z.of_nat Pos.of_succ_nat Pos.succ Z.add].
  rewrite (shiftr8_byte o Ho). rewrite Z.lxor_0_r. reflexivity.
Qed.

Lemma iso_update_fold r o : iso_update r o = iso_update (Z.lxor r o) 0 -> True.
Proof. trivial. Qed.

(* --- 2. finite sweep over the 16-bit register with a zero octet ----------- *)
Definition agree0 (r : Z) : bool := crc_octet r 0 =? iso_update r 0.
Lemma sweep_reg : sweep16 agree0 = true.
Proof. vm_compute. reflexivity. Qed.
Lemma agree_reg0 r : 0 <= r < 65536 -> crc_octet r 0 = iso_update r 0.
Proof. intro H. apply Z.eqb_eq. apply (sweep16_lift agree0 sweep_reg). exact H. Qed.

(* the reference also only depends on reg xor octet (bit-level fact about the
   low byte): iso_update r o = iso_update (r xor o) 0 for byte o *)
Lemma land_ff_lxor_byte r o : 0 <= o < 256 -> Z.land (Z.lxor r o) 255 = Z.lxor (Z.land r 255) o.
Proof.
  intro Ho. rewrite land_lxor_distr_l. f_equal.
  change 255 with (Z.ones 8). rewrite Z.land_ones by lia. apply Z.mod_small. cbn; lia.
Qed.
Lemma shiftr8_lxor_byte r o : 0 <= o < 256 -> Z.shiftr (Z.lxor r o) 8 = Z.shiftr r 8.
Proof. intro Ho. rewrite Z.shiftr_lxor, (shiftr8_byte o Ho), Z.lxor_0_r. reflexivity. Qed.
Lemma iso_update_xor r o : 0 <= o < 256 -> iso_update r o = iso_update (Z.lxor r o) 0.
Proof.
  intro Ho. unfold iso_update. rewrite Z.lxor_0_l.
  rewrite (land_ff_lxor_byte r o Ho), (shiftr8_lxor_byte r o Ho).
  rewrite (Z.lxor_comm o). reflexivity.
Qed.

(* --- 3. one octet, then any message --------------------------------------- *)
Lemma lxor_range16 r o : 0 <= r < 65536 -> 0 <= o < 256 -> 0 <= Z.lxor r o < 65536.
Proof.
  intros Hr Ho. split; [apply Z.lxor_nonneg; lia|].
  destruct (Z.eq_dec (Z.lxor r o) 0) as [->|Hn]; [lia|].
  assert (0 <= Z.lxor r o) by (apply Z.lxor_nonneg; lia).
  apply Z.log2_lt_pow2 with (b := 16); [lia|].
  eapply Z.le_lt_trans; [apply Z.log2_lxor; lia|].
  apply Z.max_lub_lt.
  - destruct (Z.eq_dec r 0) as [->|]; [cbn; lia|]. apply Z.log2_lt_pow2; lia.
  - destruct (Z.eq_dec o 0) as [->|]; [cbn; lia|].
    assert (Z.log2 o < 8) by (apply Z.log2_lt_pow2; lia). lia.
Qed.

Theorem octet_agree r o : 0 <= r < 65536 -> 0 <= o < 256 -> crc_octet r o = iso_update r o.
Proof.
  intros Hr Ho. rewrite crc_octet_fold, iso_update_xor by exact Ho.
  apply agree_reg0, lxor_range16; assumption.
Qed.

Lemma iso_update_range r o : 0 <= iso_update r o < 65536.
Proof.
  unfold iso_update. change 65535 with (Z.ones 16). rewrite Z.land_ones by lia.
  apply Z.mod_pos_bound. reflexivity.
Qed.

Theorem crc16_agree data : forall r, 0 <= r < 65536 -> bytes_ok data ->
  crc16 r data = iso_crc r data /\ 0 <= crc16 r data < 65536.
Proof.
  induction data as [|o data IH]; intros r Hr Hd; cbn [crc16 iso_crc fold_left].
  - split; [reflexivity|exact Hr].
  - apply bytes_ok_cons in Hd. destruct Hd as [Ho Hd].
    rewrite (octet_agree r o Hr Ho). apply IH; [apply iso_update_range|exact Hd].
Qed.

