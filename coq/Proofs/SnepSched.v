(* C06 - the two-peer system: every interleaving of deliveries ends in the same state
   (diamond property of deliveries on a FIFO pair), bursts of deliveries to one side,
   and the refinement from any channel implementation satisfying the FIFO laws to the
   list channel. *)
From Coq Require Import ZArith List Bool Lia.
From NV Require Import Base.Result Base.Bytes Base.PyPrims Model.Snep.
Import ListNotations.
Open Scope Z_scope.

Section Sched.
  Variables CS SS : Type.
  Variable creact : CS -> input -> CS * list input.
  Variable sreact : SS -> input -> SS * list input.
  Variables miu_cs miu_sc : Z.

  Notation gstL := (gst CS SS list_chan).
  Notation stepL := (gstep CS SS creact sreact list_chan miu_cs miu_sc).
  Notation runL := (run CS SS creact sreact list_chan miu_cs miu_sc).

  Definition mkg (c : CS) (s : SS) (qcs qsc : list input) (e : bool) : gstL :=
    Build_gst CS SS list_chan c s qcs qsc e.

  Lemma push_all_list lim (q : list input) outs : push_all list_chan lim q outs = q ++ outs.
  Proof.
    unfold push_all. revert q. induction outs as [|x outs IH]; intro q; cbn [fold_left].
    - symmetry; apply app_nil_r.
    - rewrite IH. cbn [qput list_chan]. rewrite <- app_assoc. reflexivity.
  Qed.

  Lemma any_too_big_app lim a b : any_too_big lim (a ++ b) = any_too_big lim a || any_too_big lim b.
  Proof. unfold any_too_big. apply existsb_app. Qed.

  Lemma stepL_client c s x qsc qcs e :
    stepL true (mkg c s qcs (x :: qsc) e) =
    Some (mkg (fst (creact c x)) s (qcs ++ snd (creact c x)) qsc (e || any_too_big miu_cs (snd (creact c x)))).
  Proof. unfold gstep, mkg. cbn [g_c g_s g_cs g_sc g_err qget list_chan]. rewrite push_all_list. reflexivity. Qed.
  Lemma stepL_server c s x qsc qcs e :
    stepL false (mkg c s (x :: qcs) qsc e) =
    Some (mkg c (fst (sreact s x)) qcs (qsc ++ snd (sreact s x)) (e || any_too_big miu_sc (snd (sreact s x)))).
  Proof. unfold gstep, mkg. cbn [g_c g_s g_cs g_sc g_err qget list_chan]. rewrite push_all_list. reflexivity. Qed.
  Lemma stepL_client_none c s qcs e : stepL true (mkg c s qcs [] e) = None.
  Proof. reflexivity. Qed.
  Lemma stepL_server_none c s qsc e : stepL false (mkg c s [] qsc e) = None.
  Proof. reflexivity. Qed.
  Lemma gst_eta (g : gstL) : g = mkg (g_c g) (g_s g) (g_cs g) (g_sc g) (g_err g).
  Proof. destruct g; reflexivity. Qed.

  Lemma run_app a b (g : gstL) :
    runL (a ++ b) g = match runL a g with Some g' => runL b g' | None => None end.
  Proof.
    revert g. induction a as [|w a IH]; intro g; cbn [app run]; [reflexivity|].
    destruct (stepL w g); [apply IH | reflexivity].
  Qed.

  (* ---------------------------------------------------------------- bursts *)
  Fixpoint feed {S} (react : S -> input -> S * list input) (s : S) (ins : list input) : S * list input :=
    match ins with
    | [] => (s, [])
    | i :: r => let so := react s i in let so' := feed react (fst so) r in (fst so', snd so ++ snd so')
    end.

  Lemma feed_app {S} (react : S -> input -> S * list input) s a b :
    feed react s (a ++ b) =
    (fst (feed react (fst (feed react s a)) b), snd (feed react s a) ++ snd (feed react (fst (feed react s a)) b)).
  Proof.
    revert s. induction a as [|i a IH]; intro s; cbn [app feed fst snd].
    - destruct (feed react s b); reflexivity.
    - rewrite IH. cbn [fst snd]. rewrite app_assoc. reflexivity.
  Qed.

  Lemma burst_server ins : forall c s rest qsc e,
    runL (repeat false (length ins)) (mkg c s (ins ++ rest) qsc e) =
    Some (mkg c (fst (feed sreact s ins)) rest (qsc ++ snd (feed sreact s ins))
              (e || any_too_big miu_sc (snd (feed sreact s ins)))).
  Proof.
    induction ins as [|x ins IH]; intros c s rest qsc e.
    - cbn [length repeat run feed fst snd app]. rewrite app_nil_r, orb_false_r. reflexivity.
    - cbn [length repeat run app]. rewrite stepL_server. rewrite IH. cbn [feed fst snd].
      rewrite any_too_big_app, <- app_assoc, orb_assoc. reflexivity.
  Qed.
  Lemma burst_client ins : forall c s rest qcs e,
    runL (repeat true (length ins)) (mkg c s qcs (ins ++ rest) e) =
    Some (mkg (fst (feed creact c ins)) s (qcs ++ snd (feed creact c ins)) rest
              (e || any_too_big miu_cs (snd (feed creact c ins)))).
  Proof.
    induction ins as [|x ins IH]; intros c s rest qcs e.
    - cbn [length repeat run feed fst snd app]. rewrite app_nil_r, orb_false_r. reflexivity.
    - cbn [length repeat run app]. rewrite stepL_client. rewrite IH. cbn [feed fst snd].
      rewrite any_too_big_app, <- app_assoc, orb_assoc. reflexivity.
  Qed.

  (* ---------------------------------------------------------------- diamond *)
  Lemma diamond (g g1 g2 : gstL) :
    stepL true g = Some g1 -> stepL false g = Some g2 ->
    exists g3, stepL false g1 = Some g3 /\ stepL true g2 = Some g3.
  Proof.
    rewrite (gst_eta g). destruct (g_sc g) as [|x qsc]; [rewrite stepL_client_none; discriminate|].
    destruct (g_cs g) as [|y qcs]; [rewrite stepL_server_none; discriminate|].
    rewrite stepL_client, stepL_server. intros H1 H2. inversion H1; inversion H2; subst; clear H1 H2.
    cbn [app]. rewrite stepL_server, stepL_client. eexists. split; [reflexivity|].
    f_equal. unfold mkg. f_equal.
    destruct (g_err g), (any_too_big miu_cs (snd (creact (g_c g) x))),
             (any_too_big miu_sc (snd (sreact (g_s g) y))); reflexivity.
  Qed.

  Definition quiescentL (g : gstL) : Prop := stepL true g = None /\ stepL false g = None.

  Lemma quiescent_run g : quiescentL g -> forall sch g', runL sch g = Some g' -> sch = [] /\ g' = g.
  Proof.
    intros [Ht Hf] sch g' H. destruct sch as [|w sch]; cbn [run] in H.
    - inversion H; auto.
    - destruct w; [rewrite Ht in H | rewrite Hf in H]; discriminate.
  Qed.

  (* all interleavings are prefixes of complete runs of the same length with the same end *)
  Theorem confluence : forall n sch0 (g gf : gstL), length sch0 = n -> runL sch0 g = Some gf -> quiescentL gf ->
    forall sch g', runL sch g = Some g' ->
    exists sch', (length sch + length sch' = n)%nat /\ runL sch' g' = Some gf.
  Proof.
    induction n as [|m IH]; intros sch0 g gf Hlen Hrun Hq sch g' Hsch.
    - destruct sch0; [|discriminate]. cbn [run] in Hrun. inversion Hrun; subst.
      destruct (quiescent_run _ Hq _ _ Hsch) as [-> ->]. exists []. split; reflexivity.
    - destruct sch0 as [|a sch0]; [discriminate|]. cbn [length] in Hlen. cbn [run] in Hrun.
      destruct (stepL a g) as [ga|] eqn:Ea; [|discriminate].
      destruct sch as [|b sch1].
      + cbn [run] in Hsch. inversion Hsch; subst. exists (a :: sch0). split; [cbn [length]; lia|].
        cbn [run]. rewrite Ea. exact Hrun.
      + cbn [run] in Hsch. destruct (stepL b g) as [gb|] eqn:Eb; [|discriminate].
        destruct (Bool.bool_dec a b) as [->|Hab].
        * rewrite Ea in Eb. inversion Eb; subst.
          destruct (IH sch0 gb gf ltac:(lia) Hrun Hq sch1 g' Hsch) as (sch' & Hl & Hr).
          exists sch'. split; [cbn [length]; lia | exact Hr].
        * assert (exists g3, stepL b ga = Some g3 /\ stepL a gb = Some g3) as (g3 & H3a & H3b).
          { destruct a, b; try congruence.
            - apply (diamond g); assumption.
            - destruct (diamond g gb ga Eb Ea) as (g3 & ? & ?). exists g3; auto. }
          assert (runL [b] ga = Some g3) as Hb by (cbn [run]; rewrite H3a; reflexivity).
          destruct (IH sch0 ga gf ltac:(lia) Hrun Hq [b] g3 Hb) as (sch3 & Hl3 & Hr3).
          assert (runL (a :: sch3) gb = Some gf) as Hgb by (cbn [run]; rewrite H3b; exact Hr3).
          cbn [length] in Hl3.
          destruct (IH (a :: sch3) gb gf ltac:(cbn [length]; lia) Hgb Hq sch1 g' Hsch) as (sch' & Hl & Hr).
          exists sch'. split; [cbn [length]; lia | exact Hr].
  Qed.

  (* the executable client-first schedule is one of them *)
  Lemma run_cp_is_run : forall k (g : gstL),
    exists sch, runL sch g = Some (run_cp CS SS creact sreact list_chan miu_cs miu_sc k g) /\
                (length sch <= k)%nat /\
                ((length sch < k)%nat -> quiescentL (run_cp CS SS creact sreact list_chan miu_cs miu_sc k g)).
  Proof.
    induction k as [|k IH]; intro g.
    - exists []. cbn [run run_cp length]. split; [reflexivity | split; [lia | intro; lia]].
    - cbn [run_cp]. destruct (stepL true g) as [g1|] eqn:E1.
      + destruct (IH g1) as (sch & Hr & Hl & Hq). exists (true :: sch). cbn [run length]. rewrite E1.
        split; [exact Hr | split; [lia | intro; apply Hq; lia]].
      + destruct (stepL false g) as [g2|] eqn:E2.
        * destruct (IH g2) as (sch & Hr & Hl & Hq). exists (false :: sch). cbn [run length]. rewrite E2.
          split; [exact Hr | split; [lia | intro; apply Hq; lia]].
        * exists []. cbn [run length]. split; [reflexivity | split; [lia | intro; split; assumption]].
  Qed.

  Corollary run_cp_ends n sch0 (g gf : gstL) : length sch0 = n -> runL sch0 g = Some gf -> quiescentL gf ->
    forall k, (n <= k)%nat -> run_cp CS SS creact sreact list_chan miu_cs miu_sc k g = gf.
  Proof.
    intros Hl Hr Hq k Hk. destruct (run_cp_is_run k g) as (sch & Hs & Hlen & Hqq).
    destruct (confluence n sch0 g gf Hl Hr Hq sch _ Hs) as (sch' & Hl' & Hr').
    destruct (Nat.eq_dec (length sch) k) as [E|E].
    - assert (sch' = []) by (destruct sch'; [reflexivity | cbn [length] in Hl'; lia]). subst sch'.
      cbn [run] in Hr'. inversion Hr'; reflexivity.
    - destruct (quiescent_run _ (Hqq ltac:(lia)) _ _ Hr') as [_ ->]. reflexivity.
  Qed.

  (* ---------------------------------------------------------------- any FIFO implementation *)
  Section Refine.
    Variable C : chan_ops.
    Variable Cok : chan_ok C.
    Notation stepC := (gstep CS SS creact sreact C miu_cs miu_sc).
    Notation runC := (run CS SS creact sreact C miu_cs miu_sc).

    Definition absg (g : gst CS SS C) : gstL :=
      mkg (g_c g) (g_s g) (qlist C Cok (g_cs g)) (qlist C Cok (g_sc g)) (g_err g).

    Lemma push_all_abs lim q outs : qlist C Cok (push_all C lim q outs) = qlist C Cok q ++ outs.
    Proof.
      unfold push_all. revert q. induction outs as [|x outs IH]; intro q; cbn [fold_left].
      - symmetry; apply app_nil_r.
      - rewrite IH, (qput_spec C Cok), <- app_assoc. reflexivity.
    Qed.

    Lemma step_abs w g : stepL w (absg g) = option_map absg (stepC w g).
    Proof.
      destruct g as [c s qcs qsc e]. unfold absg. cbn [g_c g_s g_cs g_sc g_err].
      destruct w; unfold gstep at 2; cbn [g_c g_s g_cs g_sc g_err].
      - pose proof (qget_spec C Cok qsc) as Hg. destruct (qget C qsc) as [[x q']|].
        + rewrite Hg, stepL_client. cbn [option_map]. unfold absg. cbn [g_c g_s g_cs g_sc g_err].
          rewrite push_all_abs. reflexivity.
        + rewrite Hg. reflexivity.
      - pose proof (qget_spec C Cok qcs) as Hg. destruct (qget C qcs) as [[x q']|].
        + rewrite Hg, stepL_server. cbn [option_map]. unfold absg. cbn [g_c g_s g_cs g_sc g_err].
          rewrite push_all_abs. reflexivity.
        + rewrite Hg. reflexivity.
    Qed.

    Lemma run_abs sch : forall g, runL sch (absg g) = option_map absg (runC sch g).
    Proof.
      induction sch as [|w sch IH]; intro g; cbn [run]; [reflexivity|].
      rewrite step_abs. destruct (stepC w g) as [g'|]; cbn [option_map]; [apply IH | reflexivity].
    Qed.

    Lemma ginit_abs c0 outs0 s0 :
      absg (ginit CS SS C miu_cs c0 outs0 s0) = ginit CS SS list_chan miu_cs c0 outs0 s0.
    Proof.
      unfold absg, ginit, mkg. cbn [g_c g_s g_cs g_sc g_err].
      rewrite push_all_abs, (qnew_spec C Cok), push_all_list. reflexivity.
    Qed.

    (* transfer: what holds of all interleavings over lists holds over C *)
    Theorem refine_always_ends n (g0 : gst CS SS C) (gf : gstL) :
      (forall sch g', runL sch (absg g0) = Some g' ->
         exists sch', (length sch + length sch' = n)%nat /\ runL sch' g' = Some gf) ->
      forall sch g, runC sch g0 = Some g ->
        exists sch' g', (length sch + length sch' = n)%nat /\ runC sch' g = Some g' /\ absg g' = gf.
    Proof.
      intros H sch g Hr. pose proof (run_abs sch g0) as Ha. rewrite Hr in Ha. cbn [option_map] in Ha.
      destruct (H sch _ Ha) as (sch' & Hl & Hr'). pose proof (run_abs sch' g) as Hb. rewrite Hr' in Hb.
      destruct (runC sch' g) as [g'|] eqn:Eg; cbn [option_map] in Hb; [|discriminate].
      exists sch', g'. split; [exact Hl | split; [exact Eg | congruence]].
    Qed.
  End Refine.
End Sched.

(* the list channel satisfies the laws *)
Definition list_chan_ok : chan_ok list_chan.
Proof.
  refine {| qlist := fun q : Q list_chan => (q : list input) |}.
  - reflexivity.
  - intros q x. reflexivity.
  - intro q. destruct q; reflexivity.
Defined.
Lemma list_chan_ok_ex : exists Cok : chan_ok list_chan, forall q, qlist list_chan Cok q = q.
Proof. exists list_chan_ok. intro q. reflexivity. Qed.
