(* C17 - basic facts about the address-table model and the well-formedness invariant. *)
From Coq Require Import ZArith List Bool Lia ZifyBool.
From NV Require Import Base.Result Base.Bytes Base.PyPrims Model.Addr.
Import ListNotations.
Open Scope Z_scope.

(* ---------------------------------------------------------------- lists *)
Lemma upd_nth_length {A} (l : list A) i x : length (upd_nth l i x) = length l.
Proof. revert i; induction l as [|h t IH]; intros [|i]; cbn; auto. Qed.
Lemma nth_error_upd_same {A} (l : list A) i x : (i < length l)%nat -> nth_error (upd_nth l i x) i = Some x.
Proof. revert i; induction l as [|h t IH]; intros [|i] H; cbn in *; try lia; auto. apply IH; lia. Qed.
Lemma nth_error_upd_other {A} (l : list A) i j x : i <> j -> nth_error (upd_nth l i x) j = nth_error l j.
Proof. revert i j; induction l as [|h t IH]; intros [|i] [|j] H; cbn; auto; try congruence. Qed.
Lemma upd_nth_oob {A} (l : list A) i x : (length l <= i)%nat -> upd_nth l i x = l.
Proof. revert i; induction l as [|h t IH]; intros [|i] H; cbn in *; auto; try lia. f_equal. apply IH. lia. Qed.
Lemma nth_upd_same {A} (l : list A) i x d : (i < length l)%nat -> nth i (upd_nth l i x) d = x.
Proof. revert i; induction l as [|h t IH]; intros [|i] H; cbn in *; try lia; auto. apply IH; lia. Qed.
Lemma nth_upd_other {A} (l : list A) i j x d : i <> j -> nth j (upd_nth l i x) d = nth j l d.
Proof. revert i j; induction l as [|h t IH]; intros [|i] [|j] H; cbn; auto; try congruence. Qed.

Lemma name_eqb_eq a b : name_eqb a b = true <-> a = b.
Proof. apply list_eqb_eq. Qed.
Lemma name_eqb_refl a : name_eqb a a = true.
Proof. apply name_eqb_eq. reflexivity. Qed.
Lemma name_eqb_neq a b : name_eqb a b = false <-> a <> b.
Proof. split; intro H.
  - intro E. apply name_eqb_eq in E. congruence.
  - destruct (name_eqb a b) eqn:E; auto. apply name_eqb_eq in E. contradiction. Qed.

(* ---------------------------------------------------------------- lookup *)
Lemma lookup_app_none {V} (l : list (name * V)) n k v :
  lookup l n = None -> lookup (l ++ [(k, v)]) n = if name_eqb k n then Some v else None.
Proof. induction l as [|[k' v'] t IH]; cbn; intro H; auto.
  destruct (name_eqb k' n); [discriminate | auto]. Qed.
Lemma lookup_app_some {V} (l : list (name * V)) n k v x :
  lookup l n = Some x -> lookup (l ++ [(k, v)]) n = Some x.
Proof. induction l as [|[k' v'] t IH]; cbn; intro H; [discriminate|].
  destruct (name_eqb k' n); auto. Qed.

(* filter on the value only *)
Lemma lookup_filter_val (l : list (name * Z)) (g : Z -> bool) n :
  NoDup (map fst l) ->
  lookup (filter (fun kv => g (snd kv)) l) n =
  match lookup l n with Some v => if g v then Some v else None | None => None end.
Proof.
  induction l as [|[k v] t IH]; cbn; intro ND; auto.
  inversion ND as [|? ? Hn ND']; subst.
  destruct (g v) eqn:G; cbn.
  - destruct (name_eqb k n) eqn:E; [rewrite G; reflexivity | auto].
  - destruct (name_eqb k n) eqn:E; [|auto].
    rewrite G. apply name_eqb_eq in E. subst k.
    rewrite IH by assumption.
    destruct (lookup t n) eqn:L; auto.
    exfalso. apply Hn. clear -L. induction t as [|[k' v'] t IH]; cbn in *; [discriminate|].
    destruct (name_eqb k' n) eqn:E; [left; apply name_eqb_eq; auto | right; auto].
Qed.
Lemma lookup_in {V} (l : list (name * V)) n v : lookup l n = Some v -> In n (map fst l).
Proof. induction l as [|[k' v'] t IH]; cbn; [discriminate|].
  destruct (name_eqb k' n) eqn:E; [left; apply name_eqb_eq; auto | right; auto]. Qed.
Lemma lookup_not_in {V} (l : list (name * V)) n : ~ In n (map fst l) -> lookup l n = None.
Proof. intro H. destruct (lookup l n) eqn:E; auto. exfalso. apply H. eapply lookup_in; eauto. Qed.
Lemma filter_keys_nodup {V} (l : list (name * V)) f : NoDup (map fst l) -> NoDup (map fst (filter f l)).
Proof. induction l as [|[k v] t IH]; cbn; intro ND; auto. inversion ND; subst.
  destruct (f (k, v)); cbn; auto. constructor; auto.
  intro Hin. apply H1. clear -Hin. induction t as [|[k' v'] t IH]; cbn in *; auto.
  destruct (f (k', v')); cbn in *; tauto. Qed.

(* ---------------------------------------------------------------- sap table *)
Definition socks_of (e : sapent) : list nat := match e with Sap l _ => l | _ => [] end.
Definition listed (c : ctl) (a : Z) (i : nat) : Prop := In i (socks_of (sap_get c a)).

Lemma in_range_iff a : in_range a = true <-> 0 <= a < 64.
Proof. unfold in_range. lia. Qed.

Lemma sap_get_oob c a : ~ (0 <= a < 64) -> sap_get c a = SapNone.
Proof. intro H. unfold sap_get. destruct (in_range a) eqn:E; auto. apply in_range_iff in E. lia. Qed.

Lemma sap_get_set_same c a e : length (c_sap c) = 64%nat -> 0 <= a < 64 -> sap_get (sap_set c a e) a = e.
Proof. intros L H. unfold sap_get, sap_set. replace (in_range a) with true by (symmetry; apply in_range_iff; auto).
  cbn. apply nth_upd_same. lia. Qed.
Lemma sap_get_set_other c a b e : a <> b -> sap_get (sap_set c a e) b = sap_get c b.
Proof. intro H. unfold sap_get, sap_set. destruct (in_range a) eqn:Ea; auto.
  destruct (in_range b) eqn:Eb; auto. cbn. apply nth_upd_other.
  apply in_range_iff in Ea. apply in_range_iff in Eb. lia. Qed.
Lemma sap_set_len c a e : length (c_sap (sap_set c a e)) = length (c_sap c).
Proof. unfold sap_set. destruct (in_range a); auto. cbn. apply upd_nth_length. Qed.
Lemma sap_set_socks c a e : c_socks (sap_set c a e) = c_socks c.
Proof. unfold sap_set. destruct (in_range a); auto. Qed.
Lemma sap_set_snl c a e : c_snl (sap_set c a e) = c_snl c.
Proof. unfold sap_set. destruct (in_range a); auto. Qed.
Lemma get_sock_sap_set c a e i : get_sock (sap_set c a e) i = get_sock c i.
Proof. unfold get_sock. rewrite sap_set_socks. reflexivity. Qed.

Lemma sap_get_put_sock c i s a : sap_get (put_sock c i s) a = sap_get c a.
Proof. reflexivity. Qed.
Lemma get_put_same c i s s0 : get_sock c i = Some s0 -> get_sock (put_sock c i s) i = Some s.
Proof. unfold get_sock, put_sock. cbn. intro H. apply nth_error_upd_same.
  apply nth_error_Some. congruence. Qed.
Lemma get_put_other c i j s : i <> j -> get_sock (put_sock c i s) j = get_sock c j.
Proof. unfold get_sock, put_sock. cbn. apply nth_error_upd_other. Qed.
Lemma put_sock_snl c i s : c_snl (put_sock c i s) = c_snl c. Proof. reflexivity. Qed.
Lemma put_sock_sap c i s : c_sap (put_sock c i s) = c_sap c. Proof. reflexivity. Qed.
Lemma put_sock_len c i s : length (c_socks (put_sock c i s)) = length (c_socks c).
Proof. cbn. apply upd_nth_length. Qed.

Lemma is_free_iff c a : is_free c a = true <-> sap_get c a = SapNone.
Proof. unfold is_free. destruct (sap_get c a); split; congruence. Qed.

(* ---------------------------------------------------------------- first_free *)
Lemma first_free_some c l a : first_free c l = Some a ->
  In a l /\ is_free c a = true /\ exists l1 l2, l = l1 ++ a :: l2 /\ forall b, In b l1 -> is_free c b = false.
Proof.
  induction l as [|x t IH]; cbn; [discriminate|].
  destruct (is_free c x) eqn:F.
  - intro H; inversion H; subst. split; [auto|]. split; [auto|]. exists [], t. split; auto. intros b [].
  - intro H. destruct (IH H) as (Hin & Hf & l1 & l2 & -> & Hb). split; [auto|]. split; [auto|].
    exists (x :: l1), l2. split; auto. intros b [<-|Hb']; auto.
Qed.
Lemma first_free_none c l : first_free c l = None -> forall b, In b l -> is_free c b = false.
Proof.
  induction l as [|x t IH]; cbn; [intros _ b []|].
  destruct (is_free c x) eqn:F; [discriminate|]. intros H b [<-|Hb]; auto.
Qed.
(* least free address of a range *)
Lemma first_free_range_some c lo hi a : first_free c (zrange lo hi) = Some a ->
  lo <= a < hi /\ is_free c a = true /\ forall b, lo <= b < a -> is_free c b = false.
Proof.
  intro H. destruct (first_free_some _ _ _ H) as (Hin & Hf & l1 & l2 & E & Hb).
  apply in_zrange in Hin. split; [auto|]. split; [auto|].
  intros b Hb'. apply Hb.
  (* zrange is sorted: everything before a in the list is < a, and b < a is in the list, so it is in l1 *)
  assert (Hinb : In b (zrange lo hi)) by (apply in_zrange; lia).
  rewrite E in Hinb. apply in_app_or in Hinb. destruct Hinb as [?|[<-|Hl2]]; auto; [lia|].
  exfalso.
  (* elements after a in zrange are > a *)
  assert (S : forall l1 l2 x y, zrange lo hi = l1 ++ x :: l2 -> In y l2 -> x < y).
  { clear. unfold zrange. generalize (Z.to_nat (hi - lo)) as n. intro n.
    generalize 0%nat as k. induction n as [|n IH]; intros k l1 l2 x y E Hy; cbn in E.
    - destruct l1; discriminate.
    - destruct l1 as [|z l1]; cbn in E; inversion E; subst.
      + apply in_map_iff in Hy. destruct Hy as (j & <- & Hj). apply in_seq in Hj. lia.
      + eapply IH; eauto. }
  specialize (S _ _ _ _ E Hl2). lia.
Qed.
Lemma first_free_range_none c lo hi : first_free c (zrange lo hi) = None ->
  forall b, lo <= b < hi -> is_free c b = false.
Proof. intros H b Hb. eapply first_free_none; eauto. apply in_zrange; auto. Qed.

(* ---------------------------------------------------------------- remove_id *)
Lemma remove_id_in l i j : In j (remove_id l i) -> In j l.
Proof. induction l as [|x t IH]; cbn; auto. destruct (Nat.eqb x i); cbn; intuition. Qed.
Lemma remove_id_keeps l i j : j <> i -> In j l -> In j (remove_id l i).
Proof. induction l as [|x t IH]; cbn; auto. intros Hne [->|Hin].
  - destruct (Nat.eqb j i) eqn:E; [apply Nat.eqb_eq in E; contradiction | left; auto].
  - destruct (Nat.eqb x i); [auto | right; auto]. Qed.
Lemma remove_id_nodup l i : NoDup l -> NoDup (remove_id l i) /\ ~ In i (remove_id l i).
Proof. induction l as [|x t IH]; cbn; intro ND; [split; [constructor | auto]|].
  inversion ND; subst. destruct (Nat.eqb x i) eqn:E.
  - apply Nat.eqb_eq in E. subst. auto.
  - apply Nat.eqb_neq in E. destruct (IH H2) as [N1 N2]. split.
    + constructor; auto. intro Hx. apply H1. eapply remove_id_in; eauto.
    + intros [?|?]; auto. Qed.
Lemma remove_id_notin l i : ~ In i l -> remove_id l i = l.
Proof. induction l as [|x t IH]; cbn; auto. intro H. destruct (Nat.eqb x i) eqn:E.
  - apply Nat.eqb_eq in E. subst. tauto.
  - f_equal. apply IH. tauto. Qed.
Lemma remove_id_single i : remove_id [i] i = [].
Proof. cbn. rewrite Nat.eqb_refl. reflexivity. Qed.

(* ---------------------------------------------------------------- the invariant *)
(* states a connection socket created by accept() can be in: it can never listen *)
Definition nolisten (st : sstate) : Prop :=
  st = StEstablished \/ st = StCloseWait \/ st = StDisconnect \/ st = StShutdown.

(* a UI PDU whose source / destination is the address [oa] *)
Definition ui_src (oa : option Z) (p : pdu) : Prop := exists d data a, p = PUI d a data /\ oa = Some a.
Definition ui_dst (oa : option Z) (p : pdu) : Prop := exists d sa data, p = PUI d sa data /\ oa = Some d.

Definition is_ui (p : pdu) : bool := match p with PUI _ _ _ => true | _ => false end.

Record wf (c : ctl) : Prop := mkWf {
  wf_len : length (c_sap c) = 64%nat;
  wf_sap0 : exists sl, sap_get c 0 = Sap [] sl;
  wf_sap1 : sap_get c 1 = SapSD;
  wf_nosd : forall a, a <> 1 -> sap_get c a <> SapSD;
  wf_nonempty : forall a l sl, 2 <= a -> sap_get c a = Sap l sl -> l <> [];
  (* a socket in the list of SAP a says that it is bound to a *)
  wf_listed_addr : forall a i, listed c a i -> exists s, get_sock c i = Some s /\ s_addr s = Some a;
  wf_nodup : forall a, NoDup (socks_of (sap_get c a));
  (* a socket that is bound and not shut down is in the list of its SAP *)
  wf_open_listed : forall i s a, get_sock c i = Some s -> s_addr s = Some a -> s_state s <> StShutdown -> listed c a i;
  wf_addr_range : forall i s a, get_sock c i = Some s -> s_addr s = Some a -> 2 <= a < 64;
  (* all sockets of one SAP have the same type *)
  wf_homog : forall a i j si sj, listed c a i -> listed c a j -> get_sock c i = Some si -> get_sock c j = Some sj ->
             s_type si = s_type sj;
  (* service names *)
  wf_snl_keys : NoDup (map fst (c_snl c));
  wf_snl_sdp : lookup (c_snl c) name_sdp = Some 1;
  wf_snl_val : forall n a, lookup (c_snl c) n = Some a ->
      (n = name_sdp /\ a = 1) \/
      (name_valid n = true /\ 2 <= a /\ is_free c a = false /\ (wks n = Some a \/ (wks n = None /\ 16 <= a < 32)));
  wf_snl_inj : forall n1 n2 a, 2 <= a -> lookup (c_snl c) n1 = Some a -> lookup (c_snl c) n2 = Some a -> n1 = n2;
  (* history variable: a socket still in the table that was bound under n has n in the name table;
     a socket of a named SAP that can listen is the one bound under that name *)
  wf_bname_snl : forall a i s n, listed c a i -> get_sock c i = Some s -> s_bname s = Some n -> lookup (c_snl c) n = Some a;
  wf_snl_bname : forall a i s n, 2 <= a -> lookup (c_snl c) n = Some a -> listed c a i -> get_sock c i = Some s ->
      s_bname s = Some n \/ (s_bname s = None /\ nolisten (s_state s));
  wf_unbound_noname : forall i s, get_sock c i = Some s -> s_addr s = None -> s_bname s = None;
  (* datagram sockets: every PDU waiting to be sent is a UI PDU carrying the socket's own address as source,
     every PDU waiting to be received is a UI PDU addressed to the socket's own address *)
  wf_ldl_sq : forall i s p, get_sock c i = Some s -> s_type s = TLdl -> In p (s_sendq s) -> ui_src (s_addr s) p;
  wf_ldl_rq : forall i s p, get_sock c i = Some s -> s_type s = TLdl -> In p (s_recvq s) -> ui_dst (s_addr s) p;
  (* a UI PDU waits for transmission only in the send queue of a datagram socket or a raw access point *)
  wf_dlc_sq : forall i s p, get_sock c i = Some s -> s_type s = TDlc -> In p (s_sendq s) -> is_ui p = false;
  wf_sendl_ui : forall a l sl p, sap_get c a = Sap l sl -> In p sl -> is_ui p = false;
  wf_dmpdu_ui : forall p, In p (sd_dmpdu c) -> is_ui p = false
}.

(* wf only looks at the SAP table, the name table, the sockets and the DM queue of service discovery *)
Lemma wf_ext c c' : c_sap c' = c_sap c -> c_snl c' = c_snl c -> c_socks c' = c_socks c ->
  (forall p, In p (sd_dmpdu c') -> is_ui p = false) -> wf c -> wf c'.
Proof.
  intros E1 E2 E3 E4 W.
  assert (G : forall a, sap_get c' a = sap_get c a) by (intro; unfold sap_get; rewrite E1; reflexivity).
  assert (S : forall i, get_sock c' i = get_sock c i) by (intro; unfold get_sock; rewrite E3; reflexivity).
  assert (F : forall a, is_free c' a = is_free c a) by (intro; unfold is_free; rewrite G; reflexivity).
  destruct W. constructor; unfold listed in *; try setoid_rewrite G; try setoid_rewrite S; try setoid_rewrite F;
    try rewrite E1; try rewrite E2; auto.
Qed.
