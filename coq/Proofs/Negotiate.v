(* C19: the parameters two activated stacks hold agree - for all option values. *)
From Coq Require Import ZArith List Bool Lia ZifyBool.
From NV Require Import Base.Result Base.Bytes Model.Dep Model.Negotiate Proofs.DepCodec.
Import ListNotations.
Open Scope Z_scope.
Ltac Zify.zify_post_hook ::= Z.to_euclidean_division_equations.

Lemma land255 a : Z.land a 255 = a mod 256. Proof. change 255 with (Z.ones 8). rewrite Z.land_ones by lia. reflexivity. Qed.
Lemma land2047 a : Z.land a 2047 = a mod 2048. Proof. change 2047 with (Z.ones 11). rewrite Z.land_ones by lia. reflexivity. Qed.
Lemma land65535 a : Z.land a 65535 = a mod 65536. Proof. change 65535 with (Z.ones 16). rewrite Z.land_ones by lia. reflexivity. Qed.
Lemma land3 a : Z.land a 3 = a mod 4. Proof. change 3 with (Z.ones 2). rewrite Z.land_ones by lia. reflexivity. Qed.
Lemma land7 a : Z.land a 7 = a mod 8. Proof. change 7 with (Z.ones 3). rewrite Z.land_ones by lia. reflexivity. Qed.

(* ------------------------------------------------------------------ LLCP parameters *)
(* closed form of what the peer takes over from the general bytes an LLC announces *)
Definition announced_miu (o : lopt) : Z := if lo_miu o =? 128 then 128 else Z.max (lo_miu o - 128) 0 mod 2048 + 128.
Definition announced_lto (o : lopt) : Z := if l_send_lto o =? 100 then 100 else (l_send_lto o / 10) mod 256 * 10.
Definition announced_wks (o : lopt) : Z := wks_of (lo_saps o) mod 65536.
Definition announced_optv (o : lopt) : Z := (if lo_lsc o =? 0 then 0 else lo_lsc o mod 4) + (if lo_sec o then 4 else 0).
Definition announced_lsc (o : lopt) : Z := if (lo_lsc o =? 0) && negb (lo_sec o) then 0 else announced_optv o mod 4.
Definition announced_dpc (o : lopt) : Z := if (lo_lsc o =? 0) && negb (lo_sec o) then 0 else (announced_optv o mod 8 / 4) mod 2.

Lemma u16_ok v : 0 <= v < 65536 -> u16 v = Ok [v / 256; v mod 256].
Proof. intro. unfold u16. replace ((0 <=? v) && (v <? 65536)) with true by lia. reflexivity. Qed.

Definition tlv_list (mx : option (Z * Z)) (wh wl : Z) (lt ov : option Z) : list Z :=
  [1; 1; 19] ++ (match mx with Some (h, l) => [2; 2; h; l] | None => [] end) ++ [3; 2; wh; wl] ++
  (match lt with Some x => [4; 1; x] | None => [] end) ++ (match ov with Some x => [7; 1; x] | None => [] end).

Lemma takeover_tlvs sec mx wh wl lt ov :
  llc_takeover sec ([70; 102; 109] ++ tlv_list mx wh wl lt ov) =
  Ok (mklcfg true
        (match mx with Some (h, l) => Z.land (h * 256 + l) 2047 + 128 | None => 128 end)
        (match lt with Some x => x * 10 | None => 100 end)
        (wh * 256 + wl)
        (match ov with Some x => Z.land (Z.land x 7) 3 | None => 0 end)
        (if sec then match ov with Some x => (Z.land x 7 / 4) mod 2 | None => 0 end else 0)
        19).
Proof. destruct mx as [[h l]|], lt, ov, sec; reflexivity. Qed.

Theorem takeover_general o sec gb : general_bytes o = Ok gb ->
  llc_takeover sec gb = Ok (mklcfg true (announced_miu o) (announced_lto o) (announced_wks o) (announced_lsc o)
                                   (if sec then announced_dpc o else 0) 19).
Proof.
  unfold general_bytes, pax_tlvs. rewrite land65535.
  assert (Hw : 0 <= wks_of (lo_saps o) mod 65536 < 65536) by lia.
  rewrite (u16_ok _ Hw).
  set (wh := wks_of (lo_saps o) mod 65536 / 256). set (wl := wks_of (lo_saps o) mod 65536 mod 256).
  assert (Hwk : wh * 256 + wl = announced_wks o) by (unfold wh, wl, announced_wks; lia).
  set (lt := if l_send_lto o =? 100 then None else Some (Z.land (l_send_lto o / 10) 255)).
  set (ov := if (lo_lsc o =? 0) && negb (lo_sec o) then None
             else Some ((if lo_lsc o =? 0 then 0 else Z.land (lo_lsc o) 3) + (if lo_sec o then 4 else 0))).
  assert (Hlt : match lt with Some x => x * 10 | None => 100 end = announced_lto o).
  { unfold lt, announced_lto. destruct (l_send_lto o =? 100); [reflexivity|]. rewrite land255. reflexivity. }
  assert (Hlsc : match ov with Some x => Z.land (Z.land x 7) 3 | None => 0 end = announced_lsc o).
  { unfold ov, announced_lsc, announced_optv. destruct ((lo_lsc o =? 0) && negb (lo_sec o)); [reflexivity|].
    rewrite land7, !land3. destruct (lo_lsc o =? 0), (lo_sec o); lia. }
  assert (Hdpc : match ov with Some x => (Z.land x 7 / 4) mod 2 | None => 0 end = announced_dpc o).
  { unfold ov, announced_dpc, announced_optv. destruct ((lo_lsc o =? 0) && negb (lo_sec o)); [reflexivity|].
    rewrite land7, !land3. reflexivity. }
  destruct (lo_miu o =? 128) eqn:Em; cbn [bind].
  - intro H. injection H as <-.
    match goal with |- llc_takeover sec ?l = _ => replace l with ([70; 102; 109] ++ tlv_list None wh wl lt ov)
      by (unfold tlv_list, lt, ov; destruct (l_send_lto o =? 100), ((lo_lsc o =? 0) && negb (lo_sec o)); reflexivity) end.
    rewrite takeover_tlvs, Hlt, Hwk, Hlsc, Hdpc. unfold announced_miu. rewrite Em. reflexivity.
  - unfold u16. destruct ((0 <=? Z.max (lo_miu o - 128) 0) && (Z.max (lo_miu o - 128) 0 <? 65536)) eqn:Eu; [|discriminate].
    cbn [bind].
    set (mh := Z.max (lo_miu o - 128) 0 / 256). set (ml := Z.max (lo_miu o - 128) 0 mod 256).
    assert (Hm : Z.land (mh * 256 + ml) 2047 + 128 = announced_miu o).
    { unfold announced_miu. rewrite Em, land2047. unfold mh, ml. f_equal. f_equal. lia. }
    intro H. injection H as <-.
    match goal with |- llc_takeover sec ?l = _ => replace l with ([70; 102; 109] ++ tlv_list (Some (mh, ml)) wh wl lt ov)
      by (unfold tlv_list, lt, ov; destruct (l_send_lto o =? 100), ((lo_lsc o =? 0) && negb (lo_sec o)); reflexivity) end.
    rewrite takeover_tlvs, Hlt, Hwk, Hlsc, Hdpc, Hm. reflexivity.
Qed.

(* ---- the agreement theorems: B announces, A takes over ---- *)
Theorem miu_agree_thm b sec gb c : general_bytes b = Ok gb -> llc_takeover sec gb = Ok c ->
  c_ok c = true /\
  (128 <= lo_miu b <= 2175 -> c_send_miu c = lo_miu b) /\
  (lo_miu b < 128 -> c_send_miu c = 128) /\
  (2175 < lo_miu b -> 128 <= c_send_miu c <= 2175 /\ c_send_miu c < lo_miu b).
Proof.
  intros Hg Ht. rewrite (takeover_general b sec gb Hg) in Ht. injection Ht as <-. cbn [c_ok c_send_miu].
  unfold announced_miu. split; [reflexivity|].
  destruct (lo_miu b =? 128) eqn:E.
  - split; [intro; lia|]. split; intro; lia.
  - split; [intro H; rewrite Z.max_l by lia; rewrite Z.mod_small by lia; lia|].
    split; [intro H; rewrite Z.max_r by lia; reflexivity|].
    intro H. rewrite Z.max_l by lia. pose proof (Z.mod_pos_bound (lo_miu b - 128) 2048 ltac:(lia)).
    assert (lo_miu b - 128 = 2048 * ((lo_miu b - 128) / 2048) + (lo_miu b - 128) mod 2048) by (apply Z.div_mod; lia).
    assert (1 <= (lo_miu b - 128) / 2048) by (apply Z.div_le_lower_bound; lia). lia.
Qed.

(* the link timeout A holds is the one B holds (and announced), for every configured value *)
Theorem lto_agree_thm b sec gb c : general_bytes b = Ok gb -> llc_takeover sec gb = Ok c ->
  0 <= lo_lto b -> c_recv_lto c = l_send_lto b.
Proof.
  intros Hg Ht Hl. rewrite (takeover_general b sec gb Hg) in Ht. injection Ht as <-. cbn [c_recv_lto].
  unfold announced_lto, l_send_lto.
  assert (Hq : 0 <= lo_lto b / 10) by (apply Z.div_pos; lia).
  set (m := Z.min (lo_lto b / 10) 255). assert (Hm : 0 <= m <= 255) by (unfold m; lia). clearbody m.
  destruct (10 * m =? 100) eqn:E; [lia|].
  replace (10 * m / 10) with m by (rewrite Z.mul_comm, Z.div_mul; lia). rewrite Z.mod_small by lia. lia.
Qed.

Lemma pow2_nonneg s : 0 <= 2 ^ s. Proof. apply Z.pow_nonneg. lia. Qed.
Lemma sum_nonneg l : (forall x, In x l -> 0 <= x) -> 0 <= sum l.
Proof. induction l as [|x l IH]; intro H; [cbn; lia|]. rewrite sum_cons. pose proof (H x (or_introl eq_refl)).
  assert (0 <= sum l) by (apply IH; intros; apply H; right; assumption). lia. Qed.
Lemma wks_pos saps : 1 <= wks_of saps.
Proof. unfold wks_of. assert (0 <= sum (map (fun s => 2 ^ s) (filter (fun s => s <? 15) saps))); [|lia].
  apply sum_nonneg. intros x Hx. apply in_map_iff in Hx. destruct Hx as (s & <- & _). apply pow2_nonneg. Qed.

Theorem wks_agree_thm b sec gb c : general_bytes b = Ok gb -> llc_takeover sec gb = Ok c ->
  wks_of (lo_saps b) < 65536 -> c_send_wks c = wks_of (lo_saps b).
Proof.
  intros Hg Ht Hl. rewrite (takeover_general b sec gb Hg) in Ht. injection Ht as <-. cbn [c_send_wks].
  unfold announced_wks. pose proof (wks_pos (lo_saps b)). lia.
Qed.

Theorem lsc_agree_thm b sec gb c : general_bytes b = Ok gb -> llc_takeover sec gb = Ok c ->
  0 <= lo_lsc b <= 3 -> c_send_lsc c = lo_lsc b.
Proof.
  intros Hg Ht Hl. rewrite (takeover_general b sec gb Hg) in Ht. injection Ht as <-. cbn [c_send_lsc].
  unfold announced_lsc, announced_optv. destruct (lo_lsc b =? 0) eqn:E, (lo_sec b); cbn [andb negb]; lia.
Qed.

(* an LLC with valid options always produces general bytes *)
Lemma general_bytes_ok b : lo_miu b <= 65663 -> exists gb, general_bytes b = Ok gb.
Proof.
  intro H. unfold general_bytes, pax_tlvs. rewrite land65535.
  rewrite (u16_ok (wks_of (lo_saps b) mod 65536)) by lia.
  destruct (lo_miu b =? 128); cbn [bind]; [eexists; reflexivity|].
  rewrite u16_ok by lia. cbn [bind]. eexists; reflexivity.
Qed.

(* ------------------------------------------------------------------ NFC-DEP parameters *)
Lemma len10 (l : list Z) : length l = 10%nat -> exists a0 a1 a2 a3 a4 a5 a6 a7 a8 a9, l = [a0; a1; a2; a3; a4; a5; a6; a7; a8; a9].
Proof.
  intro H. do 10 (destruct l as [|? l]; [discriminate|]). destruct l; [|discriminate]. repeat eexists.
Qed.

Lemma clamp_range lo hi x : lo <= hi -> lo <= clamp lo hi x <= hi.
Proof. unfold clamp. lia. Qed.

Lemma len_take_le' {A} n (l : list A) : 0 <= n -> len (take n l) <= n.
Proof. intro. unfold take, len. rewrite firstn_length. lia. Qed.

Lemma atr_req_roundtrip b id3 did pp gb f : length id3 = 10%nat -> len gb <= 48 ->
  ((pp / 2) mod 2 =? 1) = nonempty gb ->
  encode_frame b (enc_pdu (PAtrReq id3 did 0 0 pp gb)) = Ok f ->
  decode_frame_tgt b f = Ok (PAtrReq id3 did 0 0 pp gb).
Proof.
  intros Hl Hg Hpp He. destruct (len10 id3 Hl) as (a0 & a1 & a2 & a3 & a4 & a5 & a6 & a7 & a8 & a9 & ->).
  unfold decode_frame_tgt. rewrite (strip_frame_encode _ _ _ He).
  2:{ cbn [enc_pdu app]. rewrite !len_cons. pose proof (len_nonneg gb). lia. }
  cbn [enc_pdu app bind]. change (212 =? 212) with true. cbn [negb]. change (0 =? 0) with true. cbv iota.
  unfold dec_atr_req. unfold slice, drop. cbn [Z.max Z.sub Z.to_nat Z.compare Pos.compare Pos.compare_cont Z.opp Z.add Z.pos_sub Pos.pred_double Z.double Z.succ_double Z.pred_double].
  change (Pos.to_nat 12) with 12%nat; change (Pos.to_nat 4) with 4%nat; change (Pos.to_nat 10) with 10%nat;
    change (Pos.to_nat 2) with 2%nat; change (Pos.to_nat 16) with 16%nat. cbn [firstn skipn].
  rewrite Hpp. destruct gb; reflexivity.
Qed.

Lemma atr_res_roundtrip b id3 did to pp gb f : length id3 = 10%nat -> len gb <= 47 ->
  ((pp / 2) mod 2 =? 1) = nonempty gb ->
  encode_frame b (enc_pdu (PAtrRes id3 did 0 0 to pp gb)) = Ok f ->
  decode_frame_ini b f = Ok (PAtrRes id3 did 0 0 to pp gb).
Proof.
  intros Hl Hg Hpp He. destruct (len10 id3 Hl) as (a0 & a1 & a2 & a3 & a4 & a5 & a6 & a7 & a8 & a9 & ->).
  unfold decode_frame_ini. rewrite (strip_frame_encode _ _ _ He).
  2:{ cbn [enc_pdu app]. rewrite !len_cons. pose proof (len_nonneg gb). lia. }
  cbn [enc_pdu app bind]. change (213 =? 213) with true. cbn [negb]. change (1 =? 1) with true. cbv iota.
  unfold dec_atr_res. unfold slice, drop. cbn [Z.max Z.sub Z.to_nat Z.compare Pos.compare Pos.compare_cont Z.opp Z.add Z.pos_sub Pos.pred_double Z.double Z.succ_double Z.pred_double].
  change (Pos.to_nat 12) with 12%nat; change (Pos.to_nat 5) with 5%nat; change (Pos.to_nat 10) with 10%nat;
    change (Pos.to_nat 2) with 2%nat; change (Pos.to_nat 17) with 17%nat. cbn [firstn skipn].
  rewrite Hpp. destruct gb; reflexivity.
Qed.

Lemma psl_req_roundtrip b did brs fsl f : encode_frame b (enc_pdu (PPslReq did brs fsl)) = Ok f ->
  decode_frame_tgt b f = Ok (PPslReq did brs fsl).
Proof.
  intro He. unfold decode_frame_tgt. rewrite (strip_frame_encode _ _ _ He) by (cbn; lia). reflexivity.
Qed.
Lemma psl_res_roundtrip b did f : encode_frame b (enc_pdu (PPslRes did)) = Ok f ->
  decode_frame_ini b f = Ok (PPslRes did).
Proof.
  intro He. unfold decode_frame_ini. rewrite (strip_frame_encode _ _ _ He) by (cbn; lia). reflexivity.
Qed.

Definition tdid_of0 (d : Z) : option Z := if 0 <? d then Some d else None.

(* closed form of the two activations against each other *)
Theorem negotiate_dep_closed brty0 io tto id3 id3t : 0 <= brty0 <= 2 -> length id3 = 10%nat -> length id3t = 10%nat ->
  exists frames,
  negotiate_dep brty0 io tto id3 id3t =
  Ok (mkdo frames
        (mkdi (lr_of (t_lrt tto) - 3 - b2z (is_some (io_did io)) - b2z (is_some (io_nad io))) (t_rwt tto)
              (io_did io) (io_nad io) (if brty0 <? i_brs io then i_brs io else brty0) (t_gbt tto))
        (mkdt (lr_of (i_lri io) - 3 - b2z (is_some (tdid_of0 (i_did0 io)))) (t_rwt tto) (tdid_of0 (i_did0 io))
              (if brty0 <? i_brs io then i_brs io else brty0) (i_gbi io))
        (opt_eqb (io_did io) (tdid_of0 (i_did0 io)))).
Proof.
  intros Hb0 H3 H3t. unfold negotiate_dep.
  pose proof (clamp_range 0 3 (io_lri io) ltac:(lia)) as Hlri. fold (i_lri io) in Hlri.
  pose proof (clamp_range 0 2 (io_brs io) ltac:(lia)) as Hbrs. fold (i_brs io) in Hbrs.
  pose proof (clamp_range 0 3 (to_lrt tto) ltac:(lia)) as Hlrt. fold (t_lrt tto) in Hlrt.
  pose proof (clamp_range 0 14 (to_rwt tto) ltac:(lia)) as Hrwt. fold (t_rwt tto) in Hrwt.
  assert (Hgi : len (i_gbi io) <= 48) by (apply len_take_le'; lia).
  assert (Hgt : len (t_gbt tto) <= 47) by (apply len_take_le'; lia).
  assert (Hppi : ((i_ppi io / 2) mod 2 =? 1) = nonempty (i_gbi io)).
  { unfold i_ppi. destruct (nonempty (i_gbi io)), (truthy (io_nad io)); cbn [b2z]; lia. }
  assert (Hppt : ((t_pp tto / 2) mod 2 =? 1) = nonempty (t_gbt tto)).
  { unfold t_pp. destruct (nonempty (t_gbt tto)); cbn [b2z]; lia. }
  assert (Hlri' : atr_lr (i_ppi io) = lr_of (i_lri io)).
  { unfold atr_lr, i_ppi. f_equal. destruct (nonempty (i_gbi io)), (truthy (io_nad io)); cbn [b2z]; lia. }
  assert (Hlrt' : atr_lr (t_pp tto) = lr_of (t_lrt tto)).
  { unfold atr_lr, t_pp. f_equal. destruct (nonempty (t_gbt tto)); cbn [b2z]; lia. }
  (* ATR_REQ *)
  unfold atr_req_of, atr_res_of.
  assert (E1 : exists f1, encode_frame (brty0 =? 0) (enc_pdu (PAtrReq id3 (i_did0 io) 0 0 (i_ppi io) (i_gbi io))) = Ok f1).
  { eexists. apply encode_frame_ok. cbn [enc_pdu]. rewrite !len_app. unfold len at 2. rewrite H3.
    change (len [212; 0]) with 2. change (len [i_did0 io; 0; 0; i_ppi io]) with 4. lia. }
  destruct E1 as [f1 E1]. rewrite E1. cbn [bind].
  rewrite (atr_req_roundtrip _ _ _ _ _ _ H3 Hgi Hppi E1). cbn [bind].
  assert (E2 : exists f2, encode_frame (brty0 =? 0) (enc_pdu (PAtrRes id3t 0 0 0 (t_rwt tto) (t_pp tto) (t_gbt tto))) = Ok f2).
  { eexists. apply encode_frame_ok. cbn [enc_pdu]. rewrite !len_app. unfold len at 2. rewrite H3t.
    change (len [213; 1]) with 2. change (len [0; 0; 0; t_rwt tto; t_pp tto]) with 5. lia. }
  destruct E2 as [f2 E2]. rewrite E2. cbn [bind].
  rewrite (atr_res_roundtrip _ _ _ _ _ _ _ H3t Hgt Hppt E2). cbn [bind pdu_name]. change (0 =? 0) with true. cbn [negb].
  assert (Hwt : (if atr_wt (t_rwt tto) <? 15 then atr_wt (t_rwt tto) else 14) = t_rwt tto).
  { unfold atr_wt. rewrite Z.mod_small by lia. replace (t_rwt tto <? 15) with true by lia. reflexivity. }
  destruct (brty0 <? i_brs io) eqn:Ep.
  - (* parameter selection *)
    unfold psl_req_of.
    assert (E3 : exists f3, encode_frame (brty0 =? 0) (enc_pdu (PPslReq (i_did0 io) (brs_byte (i_brs io)) (i_lri io))) = Ok f3)
      by (eexists; apply encode_frame_ok; cbn; lia).
    destruct E3 as [f3 E3]. rewrite E3. cbn [bind]. rewrite (psl_req_roundtrip _ _ _ _ _ E3). cbn [bind].
    assert (E4 : exists f4, encode_frame (brty0 =? 0) (enc_pdu (PPslRes (i_did0 io))) = Ok f4)
      by (eexists; apply encode_frame_ok; cbn; lia).
    destruct E4 as [f4 E4]. rewrite E4. cbn [bind]. rewrite (psl_res_roundtrip _ _ _ E4). cbn [bind pdu_name].
    change (1 =? 1) with true. cbn [negb fst snd].
    unfold ini_eval, tgt_eval. rewrite Hlrt', Hlri', Hwt, Ep. cbn [bind].
    assert (Hdrv : drv_brty brty0 (i_did0 io) (Some (PPslReq (i_did0 io) (brs_byte (i_brs io)) (i_lri io))) = i_brs io).
    { unfold drv_brty, psl_dsi, psl_dri, brs_byte. rewrite Z.eqb_refl. cbn [andb].
      apply Z.ltb_lt in Ep. assert (i_brs io = 1 \/ i_brs io = 2) as [-> | ->] by lia; reflexivity. }
    cbn [fst snd]. rewrite Hdrv. unfold tdid_of0. eexists. reflexivity.
  - cbn [bind fst snd]. unfold ini_eval, tgt_eval. rewrite Hlrt', Hlri', Hwt, Ep. cbn [bind drv_brty].
    unfold tdid_of0. eexists. reflexivity.
Qed.

(* ---- corollaries: what the property demands ---- *)
Theorem dep_miu_agree_thm brty0 io tto id3 id3t o : 0 <= brty0 <= 2 -> length id3 = 10%nat -> length id3t = 10%nat ->
  negotiate_dep brty0 io tto id3 id3t = Ok o ->
  di_miu (do_i o) + 3 + b2z (is_some (di_did (do_i o))) + b2z (is_some (di_nad (do_i o))) = lr_of (t_lrt tto) /\
  dt_miu (do_t o) + 3 + b2z (is_some (dt_did (do_t o))) = lr_of (i_lri io) /\
  1 <= di_miu (do_i o) /\ 1 <= dt_miu (do_t o).
Proof.
  intros Hb0 H3 H3t H. destruct (negotiate_dep_closed brty0 io tto id3 id3t Hb0 H3 H3t) as (fr & E).
  rewrite E in H. injection H as <-. cbn.
  assert (64 <= lr_of (t_lrt tto) /\ 64 <= lr_of (i_lri io)).
  { unfold lr_of. destruct (t_lrt tto =? 0), (t_lrt tto =? 1), (t_lrt tto =? 2), (i_lri io =? 0), (i_lri io =? 1), (i_lri io =? 2); lia. }
  destruct (io_did io), (io_nad io), (tdid_of0 (i_did0 io)); cbn [is_some b2z]; lia.
Qed.

Theorem brty_agree_thm brty0 io tto id3 id3t o : 0 <= brty0 <= 2 -> length id3 = 10%nat -> length id3t = 10%nat ->
  negotiate_dep brty0 io tto id3 id3t = Ok o ->
  di_brty (do_i o) = dt_brty (do_t o) /\ di_brty (do_i o) = Z.max brty0 (i_brs io).
Proof.
  intros Hb0 H3 H3t H. destruct (negotiate_dep_closed brty0 io tto id3 id3t Hb0 H3 H3t) as (fr & E).
  rewrite E in H. injection H as <-. cbn. split; [reflexivity|]. destruct (brty0 <? i_brs io) eqn:Ep; lia.
Qed.

Theorem rwt_agree_thm brty0 io tto id3 id3t o : 0 <= brty0 <= 2 -> length id3 = 10%nat -> length id3t = 10%nat ->
  negotiate_dep brty0 io tto id3 id3t = Ok o ->
  di_wt (do_i o) = dt_wt (do_t o) /\ di_wt (do_i o) = clamp 0 14 (to_rwt tto).
Proof.
  intros Hb0 H3 H3t H. destruct (negotiate_dep_closed brty0 io tto id3 id3t Hb0 H3 H3t) as (fr & E).
  rewrite E in H. injection H as <-. cbn. split; reflexivity.
Qed.

(* the general bytes arrive unchanged (up to the 48 / 47 byte truncation), and the DID the target
   adopts is the initiator's, so the configurations are those C04 is proved for *)
Theorem gb_did_agree_thm brty0 io tto id3 id3t o : 0 <= brty0 <= 2 -> length id3 = 10%nat -> length id3t = 10%nat ->
  negotiate_dep brty0 io tto id3 id3t = Ok o ->
  di_gb (do_i o) = take 47 (to_gbt tto) /\ dt_gb (do_t o) = take 48 (io_gbi io) /\
  dt_did (do_t o) = tdid_of (io_did io) /\ di_did (do_i o) = io_did io.
Proof.
  intros Hb0 H3 H3t H. destruct (negotiate_dep_closed brty0 io tto id3 id3t Hb0 H3 H3t) as (fr & E).
  rewrite E in H. injection H as <-. cbn. repeat split.
  unfold tdid_of0, i_did0, tdid_of. destruct (io_did io); reflexivity.
Qed.

(* the activation always succeeds (valid or not, all options are clamped) *)
Theorem negotiate_dep_total brty0 io tto id3 id3t : 0 <= brty0 <= 2 -> length id3 = 10%nat -> length id3t = 10%nat ->
  exists o, negotiate_dep brty0 io tto id3 id3t = Ok o.
Proof. intros Hb0 H3 H3t. destruct (negotiate_dep_closed brty0 io tto id3 id3t Hb0 H3 H3t) as (fr & E). eauto. Qed.

(* ------------------------------------------------------------------ both layers together *)
Lemma take_all' {A} n (l : list A) : len l <= n -> take n l = l.
Proof. intro H. unfold take. apply firstn_all2. unfold len in H. lia. Qed.

Lemma len_general_bytes o gb : general_bytes o = Ok gb -> len gb <= 20.
Proof.
  unfold general_bytes, pax_tlvs. unfold u16.
  destruct ((0 <=? Z.land (wks_of (lo_saps o)) 65535) && (Z.land (wks_of (lo_saps o)) 65535 <? 65536)); cbn [bind].
  2:{ destruct (lo_miu o =? 128); cbn [bind]; [discriminate|]. destruct ((0 <=? Z.max (lo_miu o - 128) 0) && (Z.max (lo_miu o - 128) 0 <? 65536)); discriminate. }
  destruct (lo_miu o =? 128); cbn [bind].
  - intro H. injection H as <-. destruct (l_send_lto o =? 100), ((lo_lsc o =? 0) && negb (lo_sec o)); cbn; lia.
  - destruct ((0 <=? Z.max (lo_miu o - 128) 0) && (Z.max (lo_miu o - 128) 0 <? 65536)); cbn [bind]; [|discriminate].
    intro H. injection H as <-. destruct (l_send_lto o =? 100), ((lo_lsc o =? 0) && negb (lo_sec o)); cbn; lia.
Qed.

(* what one side holds about the other after both activations *)
Definition holds_of (c : lcfg) (peer : lopt) : Prop :=
  c_ok c = true /\
  (128 <= lo_miu peer <= 2175 -> c_send_miu c = lo_miu peer) /\
  (0 <= lo_lto peer -> c_recv_lto c = l_send_lto peer) /\
  (wks_of (lo_saps peer) < 65536 -> c_send_wks c = wks_of (lo_saps peer)) /\
  (0 <= lo_lsc peer <= 3 -> c_send_lsc c = lo_lsc peer).

Theorem p2p_agree_thm brty0 ia tb la lb id3 id3t o :
  0 <= brty0 <= 2 -> length id3 = 10%nat -> length id3t = 10%nat -> (forall x, io_did ia = Some x -> 0 < x) ->
  negotiate brty0 ia tb la lb id3 id3t = Ok o ->
  holds_of (po_a o) lb /\ holds_of (po_b o) la /\
  di_miu (do_i (po_dep o)) + 3 + b2z (is_some (io_did ia)) + b2z (is_some (io_nad ia)) = lr_of (clamp 0 3 (to_lrt tb)) /\
  dt_miu (do_t (po_dep o)) + 3 + b2z (is_some (tdid_of (io_did ia))) = lr_of (clamp 0 3 (io_lri ia)) /\
  di_brty (do_i (po_dep o)) = dt_brty (do_t (po_dep o)) /\
  di_brty (do_i (po_dep o)) = Z.max brty0 (clamp 0 2 (io_brs ia)) /\
  di_wt (do_i (po_dep o)) = dt_wt (do_t (po_dep o)) /\ di_wt (do_i (po_dep o)) = clamp 0 14 (to_rwt tb).
Proof.
  intros Hb0 H3 H3t Hdid H. unfold negotiate in H.
  destruct (general_bytes la) as [ga| | |] eqn:Ega; try discriminate. cbn [bind] in H.
  destruct (general_bytes lb) as [gb| | |] eqn:Egb; try discriminate. cbn [bind] in H.
  destruct (negotiate_dep brty0 _ _ id3 id3t) as [d| | |] eqn:Ed; try discriminate. cbn [bind] in H.
  destruct (gb_did_agree_thm _ _ _ _ _ _ Hb0 H3 H3t Ed) as (G1 & G2 & G3 & G4). cbn [to_gbt io_gbi io_did] in G1, G2, G3, G4.
  rewrite (take_all' 47 gb) in G1 by (pose proof (len_general_bytes _ _ Egb); lia).
  rewrite (take_all' 48 ga) in G2 by (pose proof (len_general_bytes _ _ Ega); lia).
  rewrite G1, G2 in H.
  assert (Hact : do_tact d = true).
  { destruct (negotiate_dep_closed brty0 (mkiopt (io_brs ia) (io_lri ia) (io_did ia) (io_nad ia) ga) (mktopt (to_lrt tb) (to_rwt tb) gb) id3 id3t Hb0 H3 H3t) as (fr & E).
    rewrite E in Ed. injection Ed as <-. cbn [do_tact io_did]. unfold tdid_of0, i_did0. cbn [io_did].
    destruct (io_did ia) as [x|]; [|reflexivity]. specialize (Hdid x eq_refl).
    replace (0 <? x) with true by lia. cbn. apply Z.eqb_refl. }
  rewrite Hact in H.
  destruct (llc_takeover (lo_sec la) gb) as [ca| | |] eqn:Eca; try discriminate. cbn [bind] in H.
  destruct (llc_takeover (lo_sec lb) ga) as [cb| | |] eqn:Ecb; try discriminate. cbn [bind] in H.
  injection H as <-. cbn [po_a po_b po_dep].
  destruct (miu_agree_thm lb _ _ _ Egb Eca) as (A1 & A2 & _).
  destruct (miu_agree_thm la _ _ _ Ega Ecb) as (B1 & B2 & _).
  split; [split; [exact A1|]; split; [exact A2|]; split; [apply (lto_agree_thm lb _ _ _ Egb Eca)|]; split;
          [apply (wks_agree_thm lb _ _ _ Egb Eca) | apply (lsc_agree_thm lb _ _ _ Egb Eca)]|].
  split; [split; [exact B1|]; split; [exact B2|]; split; [apply (lto_agree_thm la _ _ _ Ega Ecb)|]; split;
          [apply (wks_agree_thm la _ _ _ Ega Ecb) | apply (lsc_agree_thm la _ _ _ Ega Ecb)]|].
  destruct (dep_miu_agree_thm _ _ _ _ _ _ Hb0 H3 H3t Ed) as (D1 & D2 & _).
  destruct (brty_agree_thm _ _ _ _ _ _ Hb0 H3 H3t Ed) as (R1 & R2).
  destruct (rwt_agree_thm _ _ _ _ _ _ Hb0 H3 H3t Ed) as (W1 & W2).
  rewrite G3 in D2. rewrite G4 in D1.
  destruct (negotiate_dep_closed brty0 (mkiopt (io_brs ia) (io_lri ia) (io_did ia) (io_nad ia) ga) (mktopt (to_lrt tb) (to_rwt tb) gb) id3 id3t Hb0 H3 H3t) as (fr & E).
  rewrite E in Ed. injection Ed as <-. cbn in *. auto 10.
Qed.

(* ------------------------------------------------------------------ several activations of one LLC object *)
Lemma takeover_assign sec gb c : llc_takeover sec gb = Ok c -> c_ok c = true ->
  exists p, pax_decode (drop 3 gb) = Ok p /\ c = cfg_assign sec (pax_miu p) (pax_lto p) (pax_wks p) (pax_lsc p) (pax_dpc p) (pax_ver p).
Proof.
  unfold llc_takeover. destruct (starts_ffm gb && (6 <=? len gb)); [|intro H; injection H as <-; discriminate].
  destruct (pax_decode (drop 3 gb)) as [p|e|x|]; try discriminate.
  - intros H _. injection H as <-. exists p. split; reflexivity.
  - destruct e; try discriminate. intro H. injection H as <-. discriminate.
Qed.

(* reachable states of an LLC created with options o *)
Definition Linv (o : lopt) (s : lstate) : Prop :=
  ls_opt s = o /\ announce_lsc (ls_local_lsc s) (ls_send_lsc s) = lo_lsc o.

Lemma Linv_new o : Linv o (llc_new o).
Proof. split; reflexivity. Qed.

Lemma lopt_eta o : mklopt (lo_miu o) (lo_lto o) (lo_lsc o) (lo_sec o) (lo_saps o) = o.
Proof. destruct o; reflexivity. Qed.

(* what is announced never depends on the history, and what is held afterwards depends on THIS peer only *)
Theorem activate_depends_on_peer_only o s g gb s' : Linv o s -> llc_activate s g = Ok (gb, s') ->
  general_bytes o = Ok gb /\ Linv o s' /\
  (forall c, llc_takeover (lo_sec o) g = Ok c -> c_ok c = true -> ls_held s' = c /\ ls_send_lsc s' = c_send_lsc c).
Proof.
  intros [Ho Hl] H. unfold llc_activate in H. rewrite Ho, Hl, lopt_eta in H.
  destruct (general_bytes o) as [gb0| | |]; try discriminate. cbn [bind] in H.
  destruct (llc_takeover (lo_sec o) g) as [c| | |]; try discriminate. cbn [bind] in H.
  injection H as <- <-. split; [reflexivity|]. split.
  - destruct (c_ok c); split; reflexivity.
  - intros c' E Hok. injection E as <-. rewrite Hok. split; reflexivity.
Qed.

Theorem history_nth_peer_only o : forall peers s gbs s', Linv o s -> llc_history s peers = Ok (gbs, s') ->
  Forall (fun gb => general_bytes o = Ok gb) gbs /\ Linv o s' /\
  (forall g c, last peers [] = g -> peers <> [] -> llc_takeover (lo_sec o) g = Ok c -> c_ok c = true -> ls_held s' = c).
Proof.
  induction peers as [|g rest IH]; intros s gbs s' HI H; cbn [llc_history] in H.
  - injection H as <- <-. split; [constructor|]. split; [exact HI|]. intros; congruence.
  - destruct (llc_activate s g) as [[gb s1]| | |] eqn:Ea; try discriminate. cbn [bind snd fst] in H.
    destruct (llc_history s1 rest) as [[gl s2]| | |] eqn:Eh; try discriminate. cbn [bind snd fst] in H. injection H as <- <-.
    destruct (activate_depends_on_peer_only o s g gb s1 HI Ea) as (A & B & C).
    destruct (IH s1 gl s2 B Eh) as (A' & B' & C').
    split; [constructor; assumption|]. split; [exact B'|].
    intros g0 c Hlast _ Ht Hok. destruct rest as [|g1 rest'].
    + cbn in Hlast. subst g0. cbn in Eh. injection Eh as <- <-. apply (C c Ht Hok).
    + apply (C' g0 c); [exact Hlast | discriminate | exact Ht | exact Hok].
Qed.
