(* ISO-DEP at HEAD b65ae89: the reader with the shared budget [max_extra_blocks] for S(WTX) requests and chained
   response blocks (Model: pcd_absorb_x / runx / exchangex).
   - safety (at most once, soundness, block bound, termination) for EVERY budget, card and script;
   - the budget is transparent while the counter stays within it: the exchange is the one of the reader without
     budget ([exchange]), so all exactness theorems carry over;
   - the counter never exceeds  S(WTX) requests the card makes + chained response blocks + one per faulty round
     ([need_extra] + faults); a card within 65538 of these is served exactly as before;
   - beyond the budget the result is Type4TagCommandError(PROTOCOL_ERROR), stated explicitly. *)
From Coq Require Import ZArith List Bool Lia ZifyBool.
From NV Require Import Base.Result Base.Bytes Model.IsoDep Proofs.IsoDep Proofs.IsoDepSync.
Import ListNotations.
Open Scope Z_scope.

(* ---------------------------------------------------------------- reader-only facts about the counter *)
Lemma absorb_x_nx k mx cmd x a : nx (pcd_absorb_x k mx cmd x a) = nx (pcd_absorb_x k None cmd x a).
Proof. unfold pcd_absorb_x. destruct (wtx_event k (xp x) a); [reflexivity|]. destruct (chain_event _ _); reflexivity. Qed.
Lemma absorb_x_mono k mx cmd x a : nx x <= nx (pcd_absorb_x k mx cmd x a).
Proof. unfold pcd_absorb_x. destruct (wtx_event k (xp x) a); [cbn; lia|]. destruct (chain_event _ _); cbn; lia. Qed.
Lemma absorb_x_same k m cmd x a : nx (pcd_absorb_x k None cmd x a) <= m ->
  pcd_absorb_x k (Some m) cmd x a = pcd_absorb_x k None cmd x a.
Proof.
  unfold pcd_absorb_x. destruct (wtx_event k (xp x) a); cbn [nx over].
  - intro H. replace (nx x + 1 >? m) with false by lia. reflexivity.
  - destruct (chain_event _ _); cbn [nx over]; [|reflexivity]. intro H. replace (nx x + 1 >? m) with false by lia. reflexivity.
Qed.
Lemma absorb_x_over k m cmd x a : m < nx (pcd_absorb_x k None cmd x a) -> nx x <= m ->
  exists pn', xp (pcd_absorb_x k (Some m) cmd x a) = mkp pn' (tagerr E_PROTOCOL).
Proof.
  unfold pcd_absorb_x. destruct (wtx_event k (xp x) a); cbn [nx xp over].
  - intros H1 H2. replace (nx x + 1 >? m) with true by lia. eexists; reflexivity.
  - destruct (chain_event _ _); cbn [nx xp over]; [|lia]. intros H1 H2. replace (nx x + 1 >? m) with true by lia. eexists; reflexivity.
Qed.
Lemma absorb_x_none k cmd x a : xp (pcd_absorb_x k None cmd x a) = pcd_absorb k cmd (xp x) a.
Proof. unfold pcd_absorb_x. destruct (wtx_event k (xp x) a); [reflexivity|]. destruct (chain_event _ _); reflexivity. Qed.

Section Runs.
Variable app : Z -> bytes -> bytes.
Variable k : cfg.
Variable kc : ccfg.
Variable cmd : bytes.

Lemma roundx_air mx x c ff : is_done (xp x) = false ->
  roundx app k mx kc cmd (x, c) ff =
  (pcd_absorb_x k mx cmd x (snd (air app kc c (pcd_emit (xp x)) ff)), fst (air app kc c (pcd_emit (xp x)) ff)).
Proof. intro Hd. unfold roundx. rewrite Hd. destruct (air app kc c (pcd_emit (xp x)) ff); reflexivity. Qed.

Definition hd_ff (sc : list (fate * fate)) : fate * fate := match sc with [] => (FD, FD) | y :: _ => y end.
Lemma runx_S mx f x c sc tr : is_done (xp x) = false ->
  runx app (S f) k mx kc cmd x c sc tr =
  runx app f k mx kc cmd (pcd_absorb_x k mx cmd x (snd (air app kc c (pcd_emit (xp x)) (hd_ff sc))))
       (fst (air app kc c (pcd_emit (xp x)) (hd_ff sc))) (tl sc) (pcd_emit (xp x) :: tr).
Proof.
  intro Hd. assert (Hs := Hd). unfold is_done in Hs. cbn [runx]. fold (hd_ff sc).
  destruct (ph (xp x)) eqn:Ep; try discriminate; rewrite roundx_air by assumption; reflexivity.
Qed.
Lemma runx_D mx fuel x c sc tr : is_done (xp x) = true -> snd (runx app fuel k mx kc cmd x c sc tr) = nx x.
Proof. intro Hd. destruct (is_done_ph _ Hd) as [r Hr]. destruct fuel; cbn [runx]; rewrite Hr; reflexivity. Qed.
Lemma runx_D' mx mx' fuel x c sc tr : is_done (xp x) = true ->
  runx app fuel k mx kc cmd x c sc tr = runx app fuel k mx' kc cmd x c sc tr.
Proof. intro Hd. destruct (is_done_ph _ Hd) as [r Hr]. destruct fuel; cbn [runx]; rewrite Hr; reflexivity. Qed.

Lemma runx_mono mx fuel : forall x c sc tr, nx x <= snd (runx app fuel k mx kc cmd x c sc tr).
Proof.
  induction fuel as [|f IH]; intros x c sc tr.
  - cbn [runx]. destruct (ph (xp x)); cbn [snd]; lia.
  - destruct (is_done (xp x)) eqn:Hd; [rewrite runx_D by assumption; lia|].
    rewrite runx_S by assumption. eapply Z.le_trans; [apply (absorb_x_mono k mx cmd x) | apply IH].
Qed.

(* within the budget: the same run as without budget *)
Lemma runx_budget_same m fuel : forall x c sc tr, snd (runx app fuel k None kc cmd x c sc tr) <= m ->
  runx app fuel k (Some m) kc cmd x c sc tr = runx app fuel k None kc cmd x c sc tr.
Proof.
  induction fuel as [|f IH]; intros x c sc tr H; [reflexivity|].
  destruct (is_done (xp x)) eqn:Hd; [apply runx_D'; assumption|].
  rewrite runx_S in H by assumption. rewrite !runx_S by assumption.
  rewrite absorb_x_same; [apply IH; exact H | eapply Z.le_trans; [apply (runx_mono None f) | exact H]].
Qed.

(* the reader without budget, with the counter forgotten, is [run] *)
Lemma runx_none_run fuel : forall x c sc tr,
  fst (runx app fuel k None kc cmd x c sc tr) = run app fuel k kc cmd (xp x) c sc tr.
Proof.
  induction fuel as [|f IH]; intros x c sc tr.
  - cbn [runx run]. destruct (ph (xp x)); reflexivity.
  - destruct (is_done (xp x)) eqn:Hd.
    + destruct (is_done_ph _ Hd) as [r Hr]. cbn [runx run]. rewrite Hr. reflexivity.
    + rewrite runx_S by assumption. rewrite IH, absorb_x_none.
      assert (Hs := Hd). unfold is_done in Hs. cbn [run]. fold (hd_ff sc). unfold round. rewrite Hd.
      destruct (air app kc c (pcd_emit (xp x)) (hd_ff sc)) as [c' a]. cbn [fst snd].
      destruct (ph (xp x)); try discriminate; reflexivity.
Qed.

(* beyond the budget: Type4TagCommandError(PROTOCOL_ERROR) *)
Lemma runx_budget_over m fuel : forall x c sc tr, m < snd (runx app fuel k None kc cmd x c sc tr) -> nx x <= m ->
  o_res (fst (runx app fuel k (Some m) kc cmd x c sc tr)) = Err (TagCommandError E_PROTOCOL).
Proof.
  induction fuel as [|f IH]; intros x c sc tr H Hn.
  - cbn [runx] in H. destruct (ph (xp x)); cbn [snd] in H; lia.
  - destruct (is_done (xp x)) eqn:Hd; [rewrite runx_D in H by assumption; lia|].
    rewrite runx_S in H by assumption. rewrite runx_S by assumption.
    set (a := snd (air app kc c (pcd_emit (xp x)) (hd_ff sc))) in *.
    set (c' := fst (air app kc c (pcd_emit (xp x)) (hd_ff sc))) in *.
    destruct (Z_le_gt_dec (nx (pcd_absorb_x k None cmd x a)) m) as [Hle | Hgt].
    + rewrite absorb_x_same by exact Hle. apply IH; [exact H | exact Hle].
    + destruct (absorb_x_over k m cmd x a ltac:(lia) Hn) as [pn' Hx].
      destruct f; cbn [runx]; rewrite Hx; reflexivity.
Qed.
End Runs.

(* ---------------------------------------------------------------- the theorems about exchange() at HEAD *)
(* what the card is going to ask of the budget: its S(WTX) requests and the chained blocks of its response *)
Definition need_extra (app : Z -> bytes -> bytes) (kc : ccfg) (cmd : bytes) (c : picc) : Z :=
  wtx_weight c + nchain (cmiu kc) (len (response app c cmd)).

Section ExchangeX.
Variable app : Z -> bytes -> bytes.
Variable k : cfg.
Variable kc : ccfg.
Variable cmd : bytes.
Variable pn : Z.
Variable c : picc.
Hypothesis Hrep : repaired k.
Hypothesis Hpar : params_ok k kc.
Hypothesis Hstep : in_step pn c.
Hypothesis Hcmd : 0 < len cmd.

Let Hstart : Start (execs c) pn c.
Proof. destruct Hstep as (H1 & H2 & H3 & H4 & H5). repeat split; assumption. Qed.

Lemma exchangex_sync mx fuel sc :
  let o := fst (exchangex app fuel k mx kc cmd pn c sc) in
  Forall (blk_ok k) (o_blocks o) /\ exec_ok cmd (execs c) (o_card o) /\
  ((o_res o = Hang /\ Z.of_nat fuel < fuel_bound app k cmd (execs c) c) \/
   final_ok app cmd (execs c) {| o_res := o_res o; o_pni := o_pni o; o_card := o_card o; o_blocks := [] |}).
Proof.
  destruct Hrep as [Hf1 Hf2]. destruct Hpar as (Hm & Hcm & Hfs). unfold exchangex. cbv zeta.
  pose proof (start_clean app k kc cmd (execs c) Hm pn c Hstart Hcmd) as HC.
  pose proof (runx_sync app k kc cmd (execs c) Hm Hcm Hfs Hf1 Hf2 mx fuel {| xp := pcd_start k cmd pn; nx := 0 |} c sc []
                (Clean_Sync _ _ _ _ _ _ _ HC) (Forall_nil _)) as H.
  cbv zeta in H. cbn [xp] in H. destruct H as (H1 & H2 & H3). split; [assumption|]. split; [assumption|].
  destruct H3 as [[Hh Hlt] | Hfin]; [left; split; [assumption|] | right; assumption].
  pose proof (start_mu app k cmd (execs c) Hm pn c Hstart Hcmd). lia.
Qed.

Theorem exchangex_block_bound mx fuel sc :
  Forall (fun b => len b + 2 <= miu k + 3) (o_blocks (fst (exchangex app fuel k mx kc cmd pn c sc))).
Proof. apply (exchangex_sync mx fuel sc). Qed.

Theorem exchangex_at_most_once mx fuel sc :
  let o := fst (exchangex app fuel k mx kc cmd pn c sc) in
  execs (o_card o) = execs c \/ execs (o_card o) = execs c ++ [cmd].
Proof. apply (exchangex_sync mx fuel sc). Qed.

Theorem exchangex_result_sound mx fuel sc :
  let o := fst (exchangex app fuel k mx kc cmd pn c sc) in
  match o_res o with
  | Ok r => r = response app c cmd /\ execs (o_card o) = execs c ++ [cmd] /\ in_step (o_pni o) (o_card o)
  | Err (TagCommandError _) => True
  | Hang => Z.of_nat fuel < fuel_bound app k cmd (execs c) c
  | _ => False
  end.
Proof.
  cbv zeta. destruct (exchangex_sync mx fuel sc) as (_ & _ & [[Hh Hlt] | Hfin]).
  - rewrite Hh. exact Hlt.
  - unfold final_ok in Hfin. cbn [o_res o_pni o_card] in Hfin.
    destruct Hfin as [(Hr & Hb & H1 & H2 & H3 & H4 & H5) | [e He]].
    + rewrite Hr. split; [reflexivity|]. split; [assumption|]. repeat split; assumption.
    + rewrite He. exact I.
Qed.

Theorem exchangex_terminates mx fuel sc : enough_fuel app k cmd c fuel ->
  let o := fst (exchangex app fuel k mx kc cmd pn c sc) in
  (o_res o = Ok (response app c cmd) \/ exists e, o_res o = Err (TagCommandError e)).
Proof.
  unfold enough_fuel. intro Hf. cbv zeta. pose proof (exchangex_result_sound mx fuel sc) as H. cbv zeta in H.
  destruct (o_res (fst (exchangex app fuel k mx kc cmd pn c sc))) as [r | e | x |]; try contradiction.
  - left. destruct H as [-> _]. reflexivity.
  - destruct e; try contradiction. right. eauto.
  - lia.
Qed.

(* the counter of the reader without budget: at most what the card announces plus one per faulty round *)
Theorem exchangex_count fuel sc :
  snd (exchangex app fuel k None kc cmd pn c sc) <= need_extra app kc cmd c + faults sc.
Proof.
  destruct Hrep as [Hf1 Hf2]. destruct Hpar as (Hm & Hcm & Hfs). unfold exchangex.
  pose proof (start_clean app k kc cmd (execs c) Hm pn c Hstart Hcmd) as HC.
  pose proof (runx_count app k kc cmd (execs c) Hm Hcm Hfs Hf1 Hf2 fuel {| xp := pcd_start k cmd pn; nx := 0 |} c sc []
                (Clean_Sync _ _ _ _ _ _ _ HC)) as H. cbn [xp nx] in H.
  assert (Hr : rho app kc cmd (execs c) (pcd_start k cmd pn) c = need_extra app kc cmd c).
  { unfold rho, pi_ph, need_extra, response, R, pcd_start.
    replace (miu k =? 0) with false by lia. replace ((len cmd <=? 0) || (miu k <? 0)) with false by lia.
    cbn [ph]. unfold echo. rewrite kind_iblock by apply Hstep. lia. }
  lia.
Qed.

(* within the budget the exchange at HEAD is the exchange of the reader without budget ... *)
Theorem exchangex_transparent m fuel sc : need_extra app kc cmd c + faults sc <= m ->
  fst (exchangex app fuel k (Some m) kc cmd pn c sc) = exchange app fuel k kc cmd pn c sc.
Proof.
  intro H. unfold exchangex, exchange.
  rewrite runx_budget_same by (pose proof (exchangex_count fuel sc) as Hc; unfold exchangex in Hc; lia).
  apply runx_none_run.
Qed.

(* ... hence exact without faults, and for every script with at most F faulty rounds, 2F-1 <= retry budgets *)
Theorem exchangex_absorbs m fuel sc F : faults sc <= F -> 2 * F - 1 <= n_nak k -> 2 * F - 1 <= n_ack k ->
  need_extra app kc cmd c + F <= m -> enough_fuel app k cmd c fuel ->
  let o := fst (exchangex app fuel k (Some m) kc cmd pn c sc) in
  o_res o = Ok (response app c cmd) /\ execs (o_card o) = execs c ++ [cmd] /\ in_step (o_pni o) (o_card o).
Proof.
  intros HF Hn1 Hn2 Hm Hf. cbv zeta. rewrite exchangex_transparent by lia.
  apply (exchange_absorbs app k kc cmd pn c Hrep Hpar Hstep Hcmd fuel sc F); assumption.
Qed.

Lemma nofault_faults sc : nofault sc -> faults sc = 0.
Proof. induction 1 as [|ff t Hff Ht IH]; [reflexivity|]. cbn [faults]. rewrite Hff, IH. reflexivity. Qed.

Theorem exchangex_nofault_exact m fuel sc : nofault sc -> need_extra app kc cmd c <= m -> enough_fuel app k cmd c fuel ->
  let o := fst (exchangex app fuel k (Some m) kc cmd pn c sc) in
  o_res o = Ok (response app c cmd) /\ execs (o_card o) = execs c ++ [cmd] /\ in_step (o_pni o) (o_card o).
Proof.
  intros Hsc Hm Hf. cbv zeta. pose proof (nofault_faults sc Hsc) as H0.
  rewrite exchangex_transparent by lia.
  apply (exchange_nofault_exact app k kc cmd pn c Hrep Hpar Hstep Hcmd fuel sc); assumption.
Qed.

(* beyond the budget - the reader without budget would have counted more than m - the documented error,
   and still at most one execution (exchangex_at_most_once) *)
Theorem exchangex_over_budget m fuel sc : 0 <= m -> m < snd (exchangex app fuel k None kc cmd pn c sc) ->
  o_res (fst (exchangex app fuel k (Some m) kc cmd pn c sc)) = Err (TagCommandError E_PROTOCOL).
Proof. intros H0 H. unfold exchangex in *. apply runx_budget_over; [exact H | cbn [nx]; lia]. Qed.
End ExchangeX.
