(* Generic lemmas about the shared TLV-memory model (Model/TlvMem.v): memory access, value
   placement of reader and writer (DESIGN.md appendix A.1), terminator position, unit-wise
   synchronize and its effect on the tag memory, partial application (power cut). *)
From Coq Require Import ZArith List Bool Lia ZifyBool.
From NV Require Import Base.Result Base.Bytes Model.TlvMem.
Import ListNotations.
Open Scope Z_scope.
Ltac Zify.zify_post_hook ::= Z.to_euclidean_division_equations.

(* ---------------------------------------------------------------- lists *)
Lemma nth_firstn_lt {A} (l : list A) d : forall n i, (i < n)%nat -> nth i (firstn n l) d = nth i l d.
Proof. induction l as [|x l IH]; intros n i H; destruct n, i; cbn; try reflexivity; try lia. apply IH; lia. Qed.
Lemma nth_skipn {A} (l : list A) d : forall n i, nth i (skipn n l) d = nth (n + i) l d.
Proof. induction l as [|x l IH]; intros n i; destruct n; cbn; try reflexivity; [destruct i; reflexivity | apply IH]. Qed.
Lemma skipn_skipn {A} (l : list A) : forall n k, skipn n (skipn k l) = skipn (k + n) l.
Proof. induction l as [|x l IH]; intros n k; destruct k; cbn; try reflexivity; [destruct n; reflexivity | apply IH]. Qed.
Lemma skipn_S_nth {A} (l : list A) d n : (n < length l)%nat -> skipn n l = nth n l d :: skipn (S n) l.
Proof. revert n. induction l as [|x l IH]; intros n H; cbn in H; [lia|]. destruct n; [reflexivity|].
  cbn [skipn nth]. apply IH. lia. Qed.
Lemma list_ext (l1 l2 : list Z) : length l1 = length l2 -> (forall i, (i < length l1)%nat -> nth i l1 0 = nth i l2 0) -> l1 = l2.
Proof. intros H1 H2. apply (nth_ext l1 l2 0 0 H1). exact H2. Qed.

(* ---------------------------------------------------------------- memory access *)
Definition get (l : list Z) (a : Z) : Z := nth (Z.to_nat a) l 0.

Lemma len_length {A} (l : list A) : len l = Z.of_nat (length l). Proof. reflexivity. Qed.

Lemma rd_ok em a : 0 <= a < len em -> rd em a = Ok (get em a).
Proof. intro H. unfold rd, get. replace (a <? 0) with false by lia.
  rewrite (nth_error_nth' em 0) by (unfold len in H; lia). reflexivity. Qed.
Lemma rd_beyond em a : len em <= a -> rd em a = tag_err.
Proof. intro H. unfold rd. pose proof (len_nonneg em). replace (a <? 0) with false by lia.
  assert (E : nth_error em (Z.to_nat a) = None) by (apply nth_error_None; unfold len in H; lia).
  rewrite E. reflexivity. Qed.
Lemma rd_inv em a x : rd em a = Ok x -> 0 <= a < len em /\ x = get em a.
Proof. unfold rd. destruct (a <? 0) eqn:E; [discriminate|].
  destruct (nth_error em (Z.to_nat a)) eqn:E2; [|discriminate]. intro H. injection H as <-.
  assert (Z.to_nat a < length em)%nat by (apply nth_error_Some; congruence).
  split; [unfold len; lia|]. unfold get. symmetry. apply nth_error_nth. exact E2. Qed.
Lemma rd_congr em1 em2 a : length em1 = length em2 -> (0 <= a -> get em1 a = get em2 a) -> rd em1 a = rd em2 a.
Proof. intros HL HG. destruct (Z.ltb_spec a 0) as [Hn|Hn]; [unfold rd; replace (a <? 0) with true by lia; reflexivity|].
  destruct (Z.ltb_spec a (len em1)) as [H1|H1].
  - rewrite !rd_ok by (unfold len in *; lia). rewrite HG by lia. reflexivity.
  - rewrite !rd_beyond by (unfold len in *; lia). reflexivity. Qed.

Lemma upd_inv c a v c' : upd c a v = Ok c' ->
  0 <= a < len c /\ length c' = length c /\ (forall x, 0 <= x -> get c' x = if x =? a then v else get c x).
Proof. unfold upd. destruct ((0 <=? a) && (a <? len c)) eqn:E.
  - intro H. assert (Hc : c' = firstn (Z.to_nat a) c ++ v :: skipn (S (Z.to_nat a)) c) by congruence.
    clear H. subst c'. assert (Ha : 0 <= a < len c) by lia. split; [exact Ha|].
    assert (Hn : (Z.to_nat a < length c)%nat) by (unfold len in Ha; lia).
    split.
    + rewrite app_length, firstn_length_le by lia. change (length (v :: skipn (S (Z.to_nat a)) c)) with (S (length (skipn (S (Z.to_nat a)) c))). rewrite skipn_length. lia.
    + intros x Hx. unfold get. destruct (Z.eqb_spec x a) as [->|Hne].
      * rewrite app_nth2; rewrite firstn_length_le by lia; [|lia]. rewrite Nat.sub_diag. reflexivity.
      * destruct (Z.ltb_spec x a).
        -- rewrite app_nth1 by (rewrite firstn_length_le by lia; lia). apply nth_firstn_lt. lia.
        -- rewrite app_nth2; rewrite firstn_length_le by lia; [|lia].
           replace (Z.to_nat x - Z.to_nat a)%nat with (S (Z.to_nat x - Z.to_nat a - 1)) by lia.
           cbn [nth]. rewrite nth_skipn. f_equal. lia.
  - destruct (a <? 0); discriminate. Qed.
Lemma upd_ok c a v : 0 <= a < len c -> exists c', upd c a v = Ok c'.
Proof. intro H. unfold upd. replace ((0 <=? a) && (a <? len c)) with true by lia. eauto. Qed.
Lemma upd_fail c a v : len c <= a -> upd c a v = tag_err.
Proof. intro H. unfold upd. pose proof (len_nonneg c). replace ((0 <=? a) && (a <? len c)) with false by lia.
  replace (a <? 0) with false by lia. reflexivity. Qed.

(* two memories agree on all addresses below B *)
Definition agree_below (B : Z) (c1 c2 : list Z) : Prop :=
  length c1 = length c2 /\ forall a, 0 <= a < B -> get c1 a = get c2 a.
Lemma agree_below_refl B c : agree_below B c c. Proof. split; auto. Qed.
Lemma agree_below_sym B c1 c2 : agree_below B c1 c2 -> agree_below B c2 c1.
Proof. intros [H1 H2]. split; [auto|]. intros; symmetry; auto. Qed.
Lemma agree_below_trans B c1 c2 c3 : agree_below B c1 c2 -> agree_below B c2 c3 -> agree_below B c1 c3.
Proof. intros [H1 H2] [H3 H4]. split; [congruence|]. intros a Ha. rewrite H2, H4 by exact Ha. reflexivity. Qed.
Lemma agree_below_le B B' c1 c2 : B' <= B -> agree_below B c1 c2 -> agree_below B' c1 c2.
Proof. intros H [H1 H2]. split; [exact H1|]. intros; apply H2; lia. Qed.

Lemma get_ext c1 c2 : length c1 = length c2 -> (forall a, 0 <= a < len c1 -> get c1 a = get c2 a) -> c1 = c2.
Proof. intros HL H. apply list_ext; [exact HL|]. intros i Hi. specialize (H (Z.of_nat i)).
  unfold get in H. rewrite Nat2Z.id in H. apply H. unfold len. lia. Qed.

Lemma get_skipn c n i : get (skipn n c) i = get c (Z.of_nat n + i) \/ i < 0.
Proof. destruct (Z.ltb_spec i 0); [right; lia|left]. unfold get. rewrite nth_skipn. f_equal. lia. Qed.

(* ---------------------------------------------------------------- value placement (appendix A.1) *)
Lemma read_val_0 skip a suf : read_val skip a suf 0 = Ok ([], a).
Proof. destruct suf; reflexivity. Qed.
Lemma write_val_nil skip a suf : write_val skip a suf [] = Ok (suf, a).
Proof. destruct suf; reflexivity. Qed.

Lemma read_val_bounds skip : forall suf a k v e, read_val skip a suf k = Ok (v, e) ->
  a <= e <= a + len suf /\ length v = k /\ (k <> O -> a < e).
Proof.
  induction suf as [|x suf IH]; intros a k v e H.
  - destruct k; cbn in H; [|discriminate]. injection H as <- <-. rewrite len_nil. cbn. lia.
  - destruct k as [|k]; [cbn in H; injection H as <- <-; pose proof (len_nonneg (x :: suf)); cbn; lia|].
    cbn [read_val] in H. rewrite len_cons. destruct (in_skip skip a).
    + apply IH in H. lia.
    + destruct (read_val skip (a + 1) suf k) as [[v' e']| | |] eqn:E; cbn in H; try discriminate.
      injection H as <- <-. apply IH in E. cbn [length]. lia.
Qed.

Lemma read_val_congr skip : forall s1 s2 a k v e, read_val skip a s1 k = Ok (v, e) -> length s1 = length s2 ->
  (forall i, a + Z.of_nat i < e -> nth i s1 0 = nth i s2 0) -> read_val skip a s2 k = Ok (v, e).
Proof.
  induction s1 as [|x s1 IH]; intros s2 a k v e H HL HA.
  - destruct s2; [exact H | discriminate].
  - destruct s2 as [|y s2]; [discriminate|]. destruct k as [|k]; [exact H|].
    cbn [read_val] in *. destruct (in_skip skip a).
    + apply IH; [exact H | cbn in HL; lia |]. intros i Hi. apply (HA (S i)). lia.
    + destruct (read_val skip (a + 1) s1 k) as [[v' e']| | |] eqn:E; cbn in H; try discriminate.
      injection H as <- <-. pose proof (read_val_bounds _ _ _ _ _ _ E) as [Hb _].
      rewrite (IH s2 (a + 1) k v' e' E); [| cbn in HL; lia | intros i Hi; apply (HA (S i)); lia].
      cbn. specialize (HA O). cbn in HA. rewrite HA by lia. reflexivity.
Qed.

Lemma read_val_at_congr skip c1 c2 a k v e : 0 <= a -> length c1 = length c2 ->
  read_val skip a (skipn (Z.to_nat a) c1) k = Ok (v, e) -> (forall x, a <= x < e -> get c1 x = get c2 x) ->
  read_val skip a (skipn (Z.to_nat a) c2) k = Ok (v, e).
Proof.
  intros Ha HL H HA. apply (read_val_congr skip _ _ _ _ _ _ H).
  - rewrite !skipn_length. lia.
  - intros i Hi. rewrite !nth_skipn. specialize (HA (a + Z.of_nat i)). unfold get in HA.
    replace (Z.to_nat (a + Z.of_nat i)) with (Z.to_nat a + i)%nat in HA by lia. apply HA. lia.
Qed.

(* the writer's loop followed by the reader's loop: value byte i is stored and found at the same address *)
Lemma write_read skip : forall suf a d suf' e, write_val skip a suf d = Ok (suf', e) ->
  read_val skip a suf' (length d) = Ok (d, e) /\ length suf' = length suf /\ a <= e <= a + len suf
  /\ (forall i, in_skip skip (a + Z.of_nat i) = true \/ e <= a + Z.of_nat i -> nth i suf' 0 = nth i suf 0).
Proof.
  induction suf as [|y suf IH]; intros a d suf' e H.
  - destruct d; cbn in H; [|discriminate]. injection H as <- <-. rewrite len_nil. cbn. repeat split; auto; lia.
  - destruct d as [|x d].
    + cbn in H. injection H as <- <-. pose proof (len_nonneg (y :: suf)). cbn [length]. rewrite read_val_0.
      repeat split; auto; lia.
    + cbn [write_val] in H. rewrite len_cons. destruct (in_skip skip a) eqn:Es.
      * destruct (write_val skip (a + 1) suf (x :: d)) as [[s' e']| | |] eqn:E; cbn in H; try discriminate.
        injection H as <- <-. apply IH in E. destruct E as (E1 & E2 & E3 & E4).
        cbn [length read_val]. rewrite Es. cbn [length] in E1. repeat split; try lia; [exact E1|].
        intros i Hi. destruct i as [|i]; [reflexivity|]. cbn [nth]. apply E4.
        replace (a + 1 + Z.of_nat i) with (a + Z.of_nat (S i)) by lia. exact Hi.
      * destruct (write_val skip (a + 1) suf d) as [[s' e']| | |] eqn:E; cbn in H; try discriminate.
        injection H as <- <-. apply IH in E. destruct E as (E1 & E2 & E3 & E4).
        cbn [length read_val]. rewrite Es, E1. cbn [bind fst snd]. repeat split; try lia.
        intros i Hi. destruct i as [|i]; [cbn in Hi; rewrite Z.add_0_r in Hi; destruct Hi; [congruence | lia]|].
        cbn [nth]. apply E4. replace (a + 1 + Z.of_nat i) with (a + Z.of_nat (S i)) by lia. exact Hi.
Qed.

Lemma count_free_bounds skip : forall n a, 0 <= count_free skip a n <= Z.of_nat n.
Proof. induction n as [|n IH]; intro a; cbn [count_free]; [lia|]. specialize (IH (a + 1)). destruct (in_skip skip a); lia. Qed.
Lemma count_free_app skip : forall n k a, count_free skip a (n + k) = count_free skip a n + count_free skip (a + Z.of_nat n) k.
Proof. induction n as [|n IH]; intros k a; [cbn; f_equal; lia|].
  cbn [Nat.add count_free]. rewrite IH. replace (a + 1 + Z.of_nat n) with (a + Z.of_nat (S n)) by lia. lia. Qed.

Lemma write_val_ok skip : forall suf a d, len d <= count_free skip a (length suf) -> exists r, write_val skip a suf d = Ok r.
Proof.
  induction suf as [|y suf IH]; intros a d H.
  - cbn in H. destruct d; [eexists; reflexivity|]. rewrite len_cons in H. pose proof (len_nonneg d). lia.
  - destruct d as [|x d]; [eexists; reflexivity|]. cbn [write_val length count_free] in *. rewrite len_cons in H.
    destruct (in_skip skip a).
    + destruct (IH (a + 1) (x :: d)) as [r Hr]; [rewrite len_cons; lia|]. rewrite Hr. eexists; reflexivity.
    + destruct (IH (a + 1) d) as [r Hr]; [lia|]. rewrite Hr. eexists; reflexivity.
Qed.
Lemma write_val_end skip : forall suf a d suf' e n, write_val skip a suf d = Ok (suf', e) ->
  len d <= count_free skip a n -> e <= a + Z.of_nat n.
Proof.
  induction suf as [|y suf IH]; intros a d suf' e n H Hc.
  - destruct d; cbn in H; [|discriminate]. injection H as <- <-. lia.
  - destruct d as [|x d]; [cbn in H; injection H as <- <-; lia|].
    cbn [write_val] in H. rewrite len_cons in Hc. pose proof (len_nonneg d).
    destruct n as [|n]; [cbn [count_free] in Hc; lia|]. cbn [count_free] in Hc. destruct (in_skip skip a).
    + destruct (write_val skip (a + 1) suf (x :: d)) as [[s' e']| | |] eqn:E; cbn in H; try discriminate.
      injection H as <- <-. apply (IH _ _ _ _ n) in E; [lia | rewrite len_cons; lia].
    + destruct (write_val skip (a + 1) suf d) as [[s' e']| | |] eqn:E; cbn in H; try discriminate.
      injection H as <- <-. apply (IH _ _ _ _ n) in E; lia.
Qed.

Lemma term_pos_spec skip : forall n a t, term_pos skip a n = Some t -> a <= t < a + Z.of_nat n /\ in_skip skip t = false.
Proof. induction n as [|n IH]; intros a t H; cbn [term_pos] in H; [discriminate|].
  destruct (in_skip skip a) eqn:E; [apply IH in H; destruct H; split; [lia|assumption]|]. injection H as <-. split; [lia | exact E]. Qed.

(* place = write_val on the cache from address start *)
Lemma place_inv skip c start d c' e : place skip c start d = Ok (c', e) -> 0 <= start -> start <= len c ->
  length c' = length c /\ start <= e <= len c
  /\ read_val skip start (skipn (Z.to_nat start) c') (length d) = Ok (d, e)
  /\ (forall x, 0 <= x -> x < start \/ in_skip skip x = true \/ e <= x -> get c' x = get c x).
Proof.
  unfold place. intros H H0 H1. replace (start <? 0) with false in H by lia.
  destruct (write_val skip start (skipn (Z.to_nat start) c) d) as [[s' e']| | |] eqn:E; cbn in H; try discriminate.
  injection H as <- <-. apply write_read in E. destruct E as (E1 & E2 & E3 & E4).
  assert (Hn : (Z.to_nat start <= length c)%nat) by (unfold len in H1; lia).
  rewrite skipn_length in E2. unfold len in E3. rewrite skipn_length in E3.
  repeat split.
  - rewrite app_length, firstn_length_le, E2 by lia. lia.
  - lia.
  - unfold len. lia.
  - rewrite skipn_app, firstn_length_le by lia. rewrite Nat.sub_diag, skipn_firstn_comm, Nat.sub_diag. cbn. exact E1.
  - intros x Hx Hc. unfold get. destruct (Z.ltb_spec x start) as [Hlt|Hge].
    + rewrite app_nth1 by (rewrite firstn_length_le by lia; lia). apply nth_firstn_lt. lia.
    + rewrite app_nth2; rewrite firstn_length_le by lia; [|lia].
      rewrite (E4 (Z.to_nat x - Z.to_nat start)%nat).
      * rewrite nth_skipn. f_equal. lia.
      * replace (start + Z.of_nat (Z.to_nat x - Z.to_nat start)) with x by lia. destruct Hc as [?|[?|?]]; [lia|left; assumption|right; assumption].
Qed.
Lemma place_ok skip c start d : 0 <= start -> start <= len c ->
  len d <= count_free skip start (Z.to_nat (len c - start)) -> exists r, place skip c start d = Ok r.
Proof.
  intros H0 H1 H. unfold place. replace (start <? 0) with false by lia.
  destruct (write_val_ok skip (skipn (Z.to_nat start) c) start d) as [r Hr].
  - rewrite skipn_length. unfold len in *. replace (length c - Z.to_nat start)%nat with (Z.to_nat (Z.of_nat (length c) - start)) by lia. exact H.
  - rewrite Hr. eexists; reflexivity.
Qed.
Lemma place_end skip c start d c' e n : place skip c start d = Ok (c', e) -> 0 <= start ->
  len d <= count_free skip start n -> e <= start + Z.of_nat n.
Proof.
  unfold place. intros H H0 Hc. replace (start <? 0) with false in H by lia.
  destruct (write_val skip start (skipn (Z.to_nat start) c) d) as [[s' e']| | |] eqn:E; cbn in H; try discriminate.
  injection H as <- <-. eapply write_val_end; eauto.
Qed.

(* ---------------------------------------------------------------- synchronize: unit-wise write-back *)
Lemma list_eqb_spec a : forall b, list_eqb a b = true <-> a = b.
Proof. induction a as [|x a IH]; intros [|y b]; cbn; split; intro H; try reflexivity; try discriminate.
  - apply andb_true_iff in H. destruct H as [H1 H2]. apply Z.eqb_eq in H1. apply IH in H2. congruence.
  - injection H as -> ->. rewrite Z.eqb_refl. cbn. apply IH. reflexivity. Qed.

Lemma diffu_S n u a f c : c <> [] -> diffu (S n) u a f c =
  let rest := diffu n u (a + Z.of_nat u) (skipn u f) (skipn u c) in
  if list_eqb (firstn u c) (firstn u f) then rest else (a, firstn u c) :: rest.
Proof. destruct c; [congruence | reflexivity]. Qed.

Lemma apply_ws_app m w1 w2 : apply_ws m (w1 ++ w2) = apply_ws (apply_ws m w1) w2.
Proof. unfold apply_ws. apply fold_left_app. Qed.

Lemma apply1_at_prefix pre f u dat : length dat = u -> (u <= length f)%nat ->
  apply1 (pre ++ f) (len pre, dat) = (pre ++ dat) ++ skipn u f.
Proof.
  intros Hd Hu. unfold apply1. cbn [fst snd]. unfold len. rewrite Nat2Z.id.
  rewrite firstn_app, firstn_all, Nat.sub_diag. cbn [firstn]. rewrite app_nil_r.
  rewrite skipn_app, Hd. replace (length pre + u - length pre)%nat with u by lia.
  rewrite skipn_all2 by lia. cbn [app]. rewrite <- app_assoc. reflexivity.
Qed.

Section Units.
Variable u : nat.
Hypothesis upos : (0 < u)%nat.

(* a complete synchronize brings the tag memory to the cache content *)
Lemma diffu_apply : forall k fuel a pre f c, length c = (k * u)%nat -> length f = (k * u)%nat -> (k <= fuel)%nat ->
  a = len pre -> apply_ws (pre ++ f) (diffu fuel u a f c) = pre ++ c.
Proof.
  induction k as [|k IH]; intros fuel a pre f c Hc Hf Hk Ha.
  - destruct c; [|discriminate]. destruct f; [|discriminate]. destruct fuel; reflexivity.
  - destruct fuel as [|n]; [lia|]. cbn [Nat.mul] in Hc, Hf.
    assert (Hne : c <> []) by (intro; subst c; cbn in Hc; lia).
    rewrite (diffu_S n u a f c Hne). cbv zeta.
    assert (Hsc : length (skipn u c) = (k * u)%nat) by (rewrite skipn_length; lia).
    assert (Hsf : length (skipn u f) = (k * u)%nat) by (rewrite skipn_length; lia).
    destruct (list_eqb (firstn u c) (firstn u f)) eqn:E.
    + apply list_eqb_spec in E.
      rewrite <- (firstn_skipn u f) at 1. rewrite app_assoc.
      rewrite (IH n _ (pre ++ firstn u f) (skipn u f) (skipn u c) Hsc Hsf); [| lia |].
      * rewrite <- E, <- app_assoc, firstn_skipn. reflexivity.
      * rewrite len_app; unfold len in *; rewrite firstn_length_le by lia; lia.
    + cbn [apply_ws fold_left]. change (fold_left apply1 ?l ?m) with (apply_ws m l). subst a.
      rewrite (apply1_at_prefix pre f u) by (try rewrite firstn_length_le; lia).
      rewrite (IH n _ (pre ++ firstn u c) (skipn u f) (skipn u c) Hsc Hsf); [| lia |].
      * rewrite <- app_assoc, firstn_skipn. reflexivity.
      * rewrite len_app; unfold len in *; rewrite firstn_length_le by lia; lia.
Qed.

(* unit-wise mixture of two memories *)
Definition umixed (f c x : list Z) : Prop :=
  length x = length f /\
  forall q : nat, (forall i, (q * u <= i < q * u + u)%nat -> nth i x 0 = nth i f 0)
               \/ (forall i, (q * u <= i < q * u + u)%nat -> nth i x 0 = nth i c 0).

Lemma umixed_chunk f c chunk x : (u <= length f)%nat -> length c = length f ->
  chunk = firstn u f \/ chunk = firstn u c ->
  umixed (skipn u f) (skipn u c) x -> umixed f c (chunk ++ x).
Proof.
  intros Hu Hcf Hch [Hl Hq].
  assert (Hlc : length chunk = u) by (destruct Hch; subst chunk; rewrite firstn_length_le; lia).
  split; [rewrite app_length, Hl, skipn_length; lia|].
  intros [|q].
  - cbn [Nat.mul]. destruct Hch; subst chunk; [left | right]; intros i Hi;
      (rewrite app_nth1 by lia); apply nth_firstn_lt; lia.
  - cbn [Nat.mul]. destruct (Hq q) as [H|H]; [left | right]; intros i Hi;
      (rewrite app_nth2 by lia); rewrite Hlc, (H (i - u)%nat) by lia; rewrite nth_skipn; f_equal; lia.
Qed.
Lemma umixed_left f c : umixed f c f.
Proof. split; [reflexivity|]. intro q. left. reflexivity. Qed.

(* an interrupted synchronize leaves a unit-wise mixture of the old and the new content *)
Lemma diffu_apply_prefix : forall k fuel a pre f c j, length c = (k * u)%nat -> length f = (k * u)%nat -> (k <= fuel)%nat ->
  a = len pre -> exists x, apply_ws (pre ++ f) (firstn j (diffu fuel u a f c)) = pre ++ x /\ umixed f c x.
Proof.
  induction k as [|k IH]; intros fuel a pre f c j Hc Hf Hk Ha.
  - destruct c; [|discriminate]. destruct f; [|discriminate]. exists [].
    split; [destruct fuel; cbn; rewrite firstn_nil; reflexivity | apply umixed_left].
  - destruct fuel as [|n]; [lia|]. cbn [Nat.mul] in Hc, Hf.
    assert (Hne : c <> []) by (intro; subst c; cbn in Hc; lia).
    rewrite (diffu_S n u a f c Hne). cbv zeta.
    assert (Hsc : length (skipn u c) = (k * u)%nat) by (rewrite skipn_length; lia).
    assert (Hsf : length (skipn u f) = (k * u)%nat) by (rewrite skipn_length; lia).
    destruct (list_eqb (firstn u c) (firstn u f)) eqn:E.
    + replace (pre ++ f) with ((pre ++ firstn u f) ++ skipn u f) by (rewrite <- app_assoc, firstn_skipn; reflexivity).
      destruct (IH n (a + Z.of_nat u) (pre ++ firstn u f) (skipn u f) (skipn u c) j Hsc Hsf) as (x & Hx & Hm); [lia | |].
      * rewrite len_app; unfold len in *; rewrite firstn_length_le by lia; lia.
      * exists (firstn u f ++ x). split; [rewrite Hx, <- app_assoc; reflexivity|].
        apply umixed_chunk; [lia | lia | left; reflexivity | exact Hm].
    + destruct j as [|j].
      * exists f. split; [reflexivity | apply umixed_left].
      * cbn [firstn apply_ws fold_left]. change (fold_left apply1 ?l ?m) with (apply_ws m l). subst a.
        rewrite (apply1_at_prefix pre f u) by (try rewrite firstn_length_le; lia).
        destruct (IH n (len pre + Z.of_nat u) (pre ++ firstn u c) (skipn u f) (skipn u c) j Hsc Hsf) as (x & Hx & Hm); [lia | |].
        -- rewrite len_app; unfold len in *; rewrite firstn_length_le by lia; lia.
        -- exists (firstn u c ++ x). split; [rewrite Hx, <- app_assoc; reflexivity|].
           apply umixed_chunk; [lia | lia | right; reflexivity | exact Hm].
Qed.

(* the commands of a synchronize: unit aligned, inside the cache, and each contains a byte that differs *)
Lemma diffu_in : forall k fuel a f c b dat, length c = (k * u)%nat -> length f = (k * u)%nat ->
  In (b, dat) (diffu fuel u a f c) ->
  exists q, (q < k)%nat /\ b = a + Z.of_nat (q * u) /\ dat = firstn u (skipn (q * u) c) /\ dat <> firstn u (skipn (q * u) f).
Proof.
  induction k as [|k IH]; intros fuel a f c b dat Hc Hf Hin.
  - destruct c; [|discriminate]. destruct fuel; destruct Hin.
  - destruct fuel as [|n]; [destruct Hin|]. cbn [Nat.mul] in Hc, Hf.
    assert (Hne : c <> []) by (intro; subst c; cbn in Hc; lia).
    rewrite (diffu_S n u a f c Hne) in Hin. cbv zeta in Hin.
    assert (Hsc : length (skipn u c) = (k * u)%nat) by (rewrite skipn_length; lia).
    assert (Hsf : length (skipn u f) = (k * u)%nat) by (rewrite skipn_length; lia).
    assert (Hrest : In (b, dat) (diffu n u (a + Z.of_nat u) (skipn u f) (skipn u c)) ->
      exists q, (q < S k)%nat /\ b = a + Z.of_nat (q * u) /\ dat = firstn u (skipn (q * u) c) /\ dat <> firstn u (skipn (q * u) f)).
    { intro H. destruct (IH _ _ _ _ _ _ Hsc Hsf H) as (q & Hq & Hb & Hd & Hn). exists (S q).
      cbn [Nat.mul]. rewrite !skipn_skipn in Hd, Hn. repeat split; [lia | lia | exact Hd | exact Hn]. }
    destruct (list_eqb (firstn u c) (firstn u f)) eqn:E; [apply Hrest, Hin|].
    destruct Hin as [Hin|Hin]; [|apply Hrest, Hin]. injection Hin as <- <-. exists O. cbn [Nat.mul skipn].
    repeat split; [lia | lia |]. intro H. rewrite H in E.
    assert (list_eqb (firstn u f) (firstn u f) = true) by (apply list_eqb_spec; reflexivity). congruence.
Qed.
End Units.

Lemma lists_differ (a b : list Z) : length a = length b -> a <> b -> exists i, (i < length a)%nat /\ nth i a 0 <> nth i b 0.
Proof.
  revert b. induction a as [|x a IH]; intros [|y b] HL Hne; try discriminate; [congruence|].
  destruct (Z.eq_dec x y) as [->|Hxy].
  - destruct (IH b) as (i & Hi & Hd); [cbn in HL; lia | congruence |]. exists (S i). cbn. split; [lia | exact Hd].
  - exists O. cbn. split; [lia | exact Hxy].
Qed.

(* what a command of synchronize looks like, in terms of addresses *)
Lemma sync_cmd_spec u k f c b dat : (0 < u)%nat -> length c = (k * u)%nat -> length f = (k * u)%nat ->
  In (b, dat) (sync_cmds u f c) ->
  0 <= b /\ b mod Z.of_nat u = 0 /\ b + Z.of_nat u <= len c /\ len dat = Z.of_nat u
  /\ (forall x, b <= x < b + Z.of_nat u -> get dat (x - b) = get c x)
  /\ exists x, b <= x < b + Z.of_nat u /\ get c x <> get f x.
Proof.
  intros Hu Hc Hf Hin. unfold sync_cmds in Hin.
  destruct (diffu_in u Hu k _ _ _ _ _ _ Hc Hf Hin) as (q & Hq & Hb & Hd & Hn).
  assert (Hqk : (q * u + u <= k * u)%nat) by nia.
  assert (Hl1 : length (firstn u (skipn (q * u) c)) = u) by (rewrite firstn_length_le; [reflexivity | rewrite skipn_length; lia]).
  assert (Hl2 : length (firstn u (skipn (q * u) f)) = u) by (rewrite firstn_length_le; [reflexivity | rewrite skipn_length; lia]).
  repeat split.
  - lia.
  - subst b. rewrite Z.add_0_l, Nat2Z.inj_mul. apply Z_mod_mult.
  - unfold len. lia.
  - subst dat. unfold len. lia.
  - intros x Hx. subst dat. unfold get. rewrite nth_firstn_lt by lia. rewrite nth_skipn. f_equal. lia.
  - subst dat. destruct (lists_differ _ _ (eq_trans Hl1 (eq_sym Hl2)) Hn) as (i & Hi & Hd).
    rewrite Hl1 in Hi. rewrite !nth_firstn_lt, !nth_skipn in Hd by lia.
    exists (b + Z.of_nat i). split; [lia|]. unfold get.
    replace (Z.to_nat (b + Z.of_nat i)) with (q * u + i)%nat by lia. exact Hd.
Qed.

Lemma accept_all n ws : (forall w, In w ws -> 0 <= fst w /\ fst w + len (snd w) <= n) -> accept n ws = (ws, true).
Proof. induction ws as [|w ws IH]; intro H; [reflexivity|]. cbn [accept].
  destruct (H w (or_introl eq_refl)) as [H1 H2]. replace ((0 <=? fst w) && (fst w + len (snd w) <=? n)) with true by lia.
  rewrite IH by (intros; apply H; right; assumption). reflexivity. Qed.

(* complete / partial synchronize at the level of whole memories *)
Lemma sync_apply u k f c : (0 < u)%nat -> length c = (k * u)%nat -> length f = (k * u)%nat ->
  apply_ws f (sync_cmds u f c) = c.
Proof. intros Hu Hc Hf. unfold sync_cmds.
  apply (diffu_apply u Hu k (length c) 0 [] f c Hc Hf); [nia | reflexivity]. Qed.
Lemma sync_apply_prefix u k f c j : (0 < u)%nat -> length c = (k * u)%nat -> length f = (k * u)%nat ->
  exists x, apply_ws f (firstn j (sync_cmds u f c)) = x /\ umixed u f c x.
Proof. intros Hu Hc Hf. unfold sync_cmds.
  apply (diffu_apply_prefix u Hu k (length c) 0 [] f c j Hc Hf); [nia | reflexivity]. Qed.

(* ---------------------------------------------------------------- read_tlv *)
Lemma read_tlv_inv em off skip t l v e : read_tlv em off skip = Ok (t, l, v, e) ->
  rd em off = Ok t /\ off + 1 <= e /\
  ((t = 0 \/ t = 254) \/
   (t <> 0 /\ t <> 254 /\ exists l0 voff, rd em (off + 1) = Ok l0 /\
      ((l0 <> 255 /\ l = l0 /\ voff = off + 2) \/
       (l0 = 255 /\ voff = off + 4 /\ exists h lo, rd em (off + 2) = Ok h /\ rd em (off + 3) = Ok lo /\ l = 256 * h + lo)) /\
      read_val skip voff (skipn (Z.to_nat voff) em) (Z.to_nat l) = Ok (v, e) /\ voff <= e)).
Proof.
  unfold read_tlv. intro H.
  destruct (rd em off) as [t0| | |] eqn:E0; cbn [bind] in H; try discriminate.
  destruct ((t0 =? 0) || (t0 =? 254)) eqn:Et.
  - injection H as <- <- <- <-. split; [reflexivity|]. split; [lia|]. left. lia.
  - destruct (rd em (off + 1)) as [l0| | |] eqn:E1; cbn [bind] in H; try discriminate.
    destruct (l0 =? 255) eqn:El.
    + destruct (rd em (off + 2)) as [h| | |] eqn:E2; cbn [bind] in H; try discriminate.
      destruct (rd em (off + 3)) as [lo| | |] eqn:E3; cbn [bind fst snd] in H; try discriminate.
      destruct (read_val skip (off + 4) (skipn (Z.to_nat (off + 4)) em) (Z.to_nat (256 * h + lo))) as [[v0 e0]| | |] eqn:E4;
        cbn [bind fst snd] in H; try discriminate.
      injection H as <- <- <- <-. pose proof (read_val_bounds _ _ _ _ _ _ E4) as [Hb _].
      split; [reflexivity|]. split; [lia|]. right. split; [lia|]. split; [lia|].
      exists l0, (off + 4). split; [reflexivity|]. split; [right; split; [lia|]; split; [reflexivity|]; exists h, lo; auto|].
      split; [exact E4 | lia].
    + cbn [bind fst snd] in H.
      destruct (read_val skip (off + 2) (skipn (Z.to_nat (off + 2)) em) (Z.to_nat l0)) as [[v0 e0]| | |] eqn:E4;
        cbn [bind fst snd] in H; try discriminate.
      injection H as <- <- <- <-. pose proof (read_val_bounds _ _ _ _ _ _ E4) as [Hb _].
      split; [reflexivity|]. split; [lia|]. right. split; [lia|]. split; [lia|].
      exists l0, (off + 2). split; [reflexivity|]. split; [left; split; [lia|]; auto|].
      split; [exact E4 | lia].
Qed.

(* read_tlv only depends on the addresses it reads (all below the returned end address) *)
Lemma read_tlv_congr em1 em2 off skip t l v e : read_tlv em1 off skip = Ok (t, l, v, e) ->
  length em1 = length em2 -> (forall a, 0 <= a < e -> get em1 a = get em2 a) ->
  read_tlv em2 off skip = Ok (t, l, v, e).
Proof.
  intros H HL HA. pose proof (read_tlv_inv _ _ _ _ _ _ _ H) as (H0 & He & Hc).
  assert (R : forall a, a < e -> rd em2 a = rd em1 a) by (intros a Ha; apply rd_congr; [congruence | intro; symmetry; apply HA; lia]).
  unfold read_tlv. rewrite (R off) by lia. rewrite H0. cbn [bind].
  destruct Hc as [Hc | (Hn0 & Hn254 & l0 & voff & E1 & Hl & Erv & Hv)].
  - replace ((t =? 0) || (t =? 254)) with true by lia. unfold read_tlv in H. rewrite H0 in H. cbn [bind] in H.
    replace ((t =? 0) || (t =? 254)) with true in H by lia. exact H.
  - replace ((t =? 0) || (t =? 254)) with false by lia.
    assert (Hvoff : off + 2 <= voff) by (destruct Hl as [(_ & _ & ->) | (_ & -> & _)]; lia).
    rewrite (R (off + 1)) by lia. rewrite E1. cbn [bind].
    pose proof (rd_inv _ _ _ H0) as [Hoff _].
    destruct Hl as [(Hl0 & -> & ->) | (-> & -> & h & lo & E2 & E3 & ->)].
    + replace (l0 =? 255) with false by lia. cbn [bind fst snd].
      rewrite (read_val_at_congr skip em1 em2 (off + 2) _ v e) by (try assumption; try lia; intros; apply HA; lia).
      reflexivity.
    + replace (255 =? 255) with true by reflexivity. rewrite (R (off + 2)), (R (off + 3)) by lia.
      rewrite E2, E3. cbn [bind fst snd].
      rewrite (read_val_at_congr skip em1 em2 (off + 4) _ v e) by (try assumption; try lia; intros; apply HA; lia).
      reflexivity.
Qed.

(* ---------------------------------------------------------------- chains of phases *)
(* commands of a sequence of synchronize calls through the caches cs, starting from [from] *)
Fixpoint chain_cmds (u : nat) (from : list Z) (cs : list (list Z)) : list write :=
  match cs with [] => [] | c :: r => sync_cmds u from c ++ chain_cmds u c r end.
Inductive steps : list Z -> list phase -> list (list Z) -> Prop :=
| steps_nil from : steps from [] []
| steps_cons from (ph : phase) phs c cs : ph from = Ok c -> steps c phs cs -> steps from (ph :: phs) (c :: cs).

Lemma run_phases_chain u n : forall phs cs from acc, steps from phs cs ->
  (forall w, In w (chain_cmds u from cs) -> 0 <= fst w /\ fst w + len (snd w) <= n) ->
  run_phases u n from phs acc = (Ok tt, acc ++ chain_cmds u from cs).
Proof.
  intros phs cs from acc H. revert acc. induction H as [from | from ph phs c cs Hp Hs IH]; intros acc Hacc.
  - cbn. rewrite app_nil_r. reflexivity.
  - cbn [run_phases chain_cmds] in *. rewrite Hp.
    rewrite accept_all by (intros w Hw; apply Hacc, in_or_app; left; exact Hw). cbn [fst snd].
    rewrite IH by (intros w Hw; apply Hacc, in_or_app; right; exact Hw). rewrite app_assoc. reflexivity.
Qed.

Fixpoint last_cache (from : list Z) (cs : list (list Z)) : list Z :=
  match cs with [] => from | c :: r => last_cache c r end.
Lemma chain_apply u k : (0 < u)%nat -> forall cs from, length from = (k * u)%nat -> Forall (fun c => length c = (k * u)%nat) cs ->
  apply_ws from (chain_cmds u from cs) = last_cache from cs.
Proof.
  intros Hu. induction cs as [|c r IH]; intros from Hf Hcs; [reflexivity|].
  inversion Hcs as [|? ? Hc Hr]; subst. cbn [chain_cmds last_cache]. rewrite apply_ws_app.
  rewrite (sync_apply u k from c Hu Hc Hf). apply IH; assumption.
Qed.

(* consecutive caches of from :: cs *)
Inductive adjacent : list Z -> list (list Z) -> list Z -> list Z -> Prop :=
| adj_here from c r : adjacent from (c :: r) from c
| adj_next from c r f x : adjacent c r f x -> adjacent from (c :: r) f x.

(* memory after the first j commands of a chain: a unit-wise mixture of two consecutive caches *)
Lemma chain_cut u k : (0 < u)%nat -> forall cs from j, length from = (k * u)%nat -> Forall (fun c => length c = (k * u)%nat) cs ->
  apply_ws from (firstn j (chain_cmds u from cs)) = last_cache from cs \/
  exists f c, adjacent from cs f c /\ umixed u f c (apply_ws from (firstn j (chain_cmds u from cs))).
Proof.
  intros Hu. induction cs as [|c r IH]; intros from j Hf Hcs.
  - left. cbn. rewrite firstn_nil. reflexivity.
  - inversion Hcs as [|? ? Hc Hr]; subst. cbn [chain_cmds last_cache]. rewrite firstn_app.
    destruct (Nat.le_gt_cases (length (sync_cmds u from c)) j) as [Hj|Hj].
    + rewrite firstn_all2 by exact Hj. rewrite apply_ws_app, (sync_apply u k from c Hu Hc Hf).
      destruct (IH c (j - length (sync_cmds u from c))%nat Hc Hr) as [H|(f & x & Ha & Hm)]; [left; exact H|].
      right. exists f, x. split; [apply adj_next; exact Ha | exact Hm].
    + replace (j - length (sync_cmds u from c))%nat with O by lia. cbn [firstn]. rewrite app_nil_r.
      right. exists from, c. split; [apply adj_here|].
      destruct (sync_apply_prefix u k from c j Hu Hc Hf) as (x & Hx & Hm). rewrite Hx. exact Hm.
Qed.

Lemma umixed_pointwise u f c x : (0 < u)%nat -> umixed u f c x -> forall i, nth i x 0 = nth i f 0 \/ nth i x 0 = nth i c 0.
Proof.
  intros Hu [_ Hq] i. pose proof (Nat.div_mod i u ltac:(lia)) as Hd. pose proof (Nat.mod_upper_bound i u ltac:(lia)) as Hm.
  destruct (Hq (i / u)%nat) as [H|H]; [left | right]; apply H; nia.
Qed.
(* if two caches differ in one unit only, an interrupted synchronize leaves one or the other *)
Lemma umixed_single u f c x q0 : (0 < u)%nat -> umixed u f c x -> length c = length f ->
  (forall i, nth i f 0 <> nth i c 0 -> (i / u)%nat = q0) -> x = f \/ x = c.
Proof.
  intros Hu [Hl Hq] Hcf Hd.
  assert (Hunit : forall i, (i / u * u <= i < i / u * u + u)%nat).
  { intro i. pose proof (Nat.div_mod i u ltac:(lia)). pose proof (Nat.mod_upper_bound i u ltac:(lia)). nia. }
  destruct (Hq q0) as [H0|H0]; [left | right]; apply list_ext; try congruence; intros i Hi.
  - destruct (Nat.eq_dec (i / u) q0) as [E|E]; [apply H0; rewrite <- E; apply Hunit|].
    destruct (Z.eq_dec (nth i f 0) (nth i c 0)) as [Efc|Efc]; [|elim E; apply Hd; exact Efc].
    destruct (Hq (i / u)%nat) as [H|H]; rewrite (H i (Hunit i)); congruence.
  - destruct (Nat.eq_dec (i / u) q0) as [E|E]; [apply H0; rewrite <- E; apply Hunit|].
    destruct (Z.eq_dec (nth i f 0) (nth i c 0)) as [Efc|Efc]; [|elim E; apply Hd; exact Efc].
    destruct (Hq (i / u)%nat) as [H|H]; rewrite (H i (Hunit i)); congruence.
Qed.

(* the writer's loop on two memories: the same positions are written, with the same values *)
Lemma write_val_det skip : forall s1 s2 a d s1' e1 s2' e2, write_val skip a s1 d = Ok (s1', e1) ->
  write_val skip a s2 d = Ok (s2', e2) -> length s1 = length s2 ->
  e1 = e2 /\ forall i, nth i s1' 0 = nth i s2' 0 \/ (nth i s1' 0 = nth i s1 0 /\ nth i s2' 0 = nth i s2 0).
Proof.
  induction s1 as [|y1 s1 IH]; intros s2 a d s1' e1 s2' e2 H1 H2 HL.
  - destruct s2; [|discriminate]. destruct d; cbn in H1, H2; [|discriminate]. injection H1 as <- <-. injection H2 as <- <-.
    split; [reflexivity|]. intro i. right. auto.
  - destruct s2 as [|y2 s2]; [discriminate|]. destruct d as [|x d].
    + cbn in H1, H2. injection H1 as <- <-. injection H2 as <- <-. split; [reflexivity|]. intro i. right. auto.
    + cbn [write_val] in H1, H2. destruct (in_skip skip a).
      * destruct (write_val skip (a + 1) s1 (x :: d)) as [[t1 f1]| | |] eqn:E1; cbn in H1; try discriminate.
        destruct (write_val skip (a + 1) s2 (x :: d)) as [[t2 f2]| | |] eqn:E2; cbn in H2; try discriminate.
        injection H1 as <- <-. injection H2 as <- <-.
        destruct (IH s2 (a + 1) (x :: d) t1 f1 t2 f2 E1 E2 ltac:(cbn in HL; lia)) as [Ee Hi]. split; [exact Ee|].
        intros [|i]; [right; auto | apply Hi].
      * destruct (write_val skip (a + 1) s1 d) as [[t1 f1]| | |] eqn:E1; cbn in H1; try discriminate.
        destruct (write_val skip (a + 1) s2 d) as [[t2 f2]| | |] eqn:E2; cbn in H2; try discriminate.
        injection H1 as <- <-. injection H2 as <- <-.
        destruct (IH s2 (a + 1) d t1 f1 t2 f2 E1 E2 ltac:(cbn in HL; lia)) as [Ee Hi]. split; [exact Ee|].
        intros [|i]; [left; reflexivity | apply Hi].
Qed.
Lemma place_det skip c1 c2 start d c1' e1 c2' e2 : place skip c1 start d = Ok (c1', e1) -> place skip c2 start d = Ok (c2', e2) ->
  length c1 = length c2 -> 0 <= start -> start <= len c1 ->
  e1 = e2 /\ forall x, 0 <= x -> get c1' x = get c2' x \/ (get c1' x = get c1 x /\ get c2' x = get c2 x).
Proof.
  unfold place. intros H1 H2 HL H0 Hs. replace (start <? 0) with false in H1, H2 by lia.
  destruct (write_val skip start (skipn (Z.to_nat start) c1) d) as [[t1 f1]| | |] eqn:E1; cbn in H1; try discriminate.
  destruct (write_val skip start (skipn (Z.to_nat start) c2) d) as [[t2 f2]| | |] eqn:E2; cbn in H2; try discriminate.
  injection H1 as <- <-. injection H2 as <- <-.
  destruct (write_val_det skip _ _ _ _ _ _ _ _ E1 E2 ltac:(rewrite !skipn_length; lia)) as [Ee Hi]. split; [exact Ee|].
  assert (Hn : (Z.to_nat start <= length c1)%nat) by (unfold len in Hs; lia).
  intros x Hx. unfold get. destruct (Z.ltb_spec x start) as [Hlt|Hge].
  - right. rewrite !app_nth1 by (rewrite firstn_length_le by lia; lia). rewrite !nth_firstn_lt by lia. auto.
  - rewrite !app_nth2 by (rewrite firstn_length_le by lia; lia). rewrite !firstn_length_le by lia.
    destruct (Hi (Z.to_nat x - Z.to_nat start)%nat) as [E|[Ea Eb]]; [left; exact E|right].
    rewrite Ea, Eb, !nth_skipn. replace (Z.to_nat start + (Z.to_nat x - Z.to_nat start))%nat with (Z.to_nat x) by lia. auto.
Qed.
