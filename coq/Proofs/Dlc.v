(* C05 - the two-direction invariant of the data link connection pair (Model/Dlc.v) holds in
   every reachable state: for ALL op lists (induction over fold_left step) and all windows 0..15
   on each side, all MIUs.  Corollaries: in order / exactly once, window respected across the
   modulo-16 wrap-around, no receive-queue overflow / no FRMR, EMSGSIZE. *)
From Coq Require Import ZArith List Bool Lia ZifyBool.
From NV Require Import Base.Result Base.Bytes Model.Dlc Proofs.DlcBase.
Import ListNotations.
Open Scope Z_scope.
Ltac Zify.zify_post_hook ::= Z.to_euclidean_division_equations.

(* ---- get / set algebra of the system record ---- *)
Lemma other_other sd : other (other sd) = sd. Proof. destruct sd; reflexivity. Qed.
Lemma set_ep_same s sd : set_ep s sd (get_ep s sd) = s. Proof. destruct s, sd; reflexivity. Qed.

Lemma ge_se s sd x : get_ep (set_ep s sd x) sd = x. Proof. destruct sd; reflexivity. Qed.
Lemma ge_se_o s sd x : get_ep (set_ep s sd x) (other sd) = get_ep s (other sd). Proof. destruct sd; reflexivity. Qed.
Lemma ge_se_o' s sd x : get_ep (set_ep s (other sd) x) sd = get_ep s sd. Proof. destruct sd; reflexivity. Qed.
Lemma ge_sw s sd sd' w : get_ep (set_w s sd' w) sd = get_ep s sd. Proof. destruct sd, sd'; reflexivity. Qed.
Lemma ge_sg s sd sd' g : get_ep (set_g s sd' g) sd = get_ep s sd. Proof. destruct sd, sd'; reflexivity. Qed.

Lemma gw_sw s sd x : get_w (set_w s sd x) sd = x. Proof. destruct sd; reflexivity. Qed.
Lemma gw_sw_o s sd x : get_w (set_w s sd x) (other sd) = get_w s (other sd). Proof. destruct sd; reflexivity. Qed.
Lemma gw_sw_o' s sd x : get_w (set_w s (other sd) x) sd = get_w s sd. Proof. destruct sd; reflexivity. Qed.
Lemma gw_se s sd sd' x : get_w (set_ep s sd' x) sd = get_w s sd. Proof. destruct sd, sd'; reflexivity. Qed.
Lemma gw_sg s sd sd' g : get_w (set_g s sd' g) sd = get_w s sd. Proof. destruct sd, sd'; reflexivity. Qed.

Lemma gg_sg s sd x : get_g (set_g s sd x) sd = x. Proof. destruct sd; reflexivity. Qed.
Lemma gg_sg_o s sd x : get_g (set_g s sd x) (other sd) = get_g s (other sd). Proof. destruct sd; reflexivity. Qed.
Lemma gg_sg_o' s sd x : get_g (set_g s (other sd) x) sd = get_g s sd. Proof. destruct sd; reflexivity. Qed.
Lemma gg_se s sd sd' x : get_g (set_ep s sd' x) sd = get_g s sd. Proof. destruct sd, sd'; reflexivity. Qed.
Lemma gg_sw s sd sd' w : get_g (set_w s sd' w) sd = get_g s sd. Proof. destruct sd, sd'; reflexivity. Qed.

Ltac gs := repeat first
  [ rewrite other_other | rewrite ge_se | rewrite ge_se_o | rewrite ge_se_o' | rewrite ge_sw | rewrite ge_sg
  | rewrite gw_sw | rewrite gw_sw_o | rewrite gw_sw_o' | rewrite gw_se | rewrite gw_sg
  | rewrite gg_sg | rewrite gg_sg_o | rewrite gg_sg_o' | rewrite gg_se | rewrite gg_sw ].

Ltac sim := cbn [est vs vsa vr vra rwl rbuf rwr smiu rmiu confs acks busy busy_sent send_busy sq rq
                 set_est set_vs set_vsa set_vr set_vra set_confs set_acks set_busy set_busy_sent set_send_busy
                 set_sq set_rq fst snd].

(* ---- the invariant ---- *)
Definition Dir (x y : ep) (wxy wyx : list pdu) (g : ghost) : Prop :=
  DirInv (vs x) (vsa x) (rwr x) (smiu x) (Is wxy ++ Is (sq x))
         (vr y) (vra y) (rwl y) (rbuf y) (rmiu y) (confs y) (rq y) (nrs wyx) g.

(* what holds for the direction sd -> other sd, and for endpoint / outgoing wire of sd *)
Definition Inv1 (s : sys) (sd : side) : Prop :=
  Dir (get_ep s sd) (get_ep s (other sd)) (get_w s sd) (get_w s (other sd)) (get_g s sd) /\
  est (get_ep s sd) = true /\
  Forall (fun p => isI p = true) (sq (get_ep s sd)) /\
  Forall (fun p => notF p = true) (get_w s sd).

Definition Inv (s : sys) : Prop := forall sd, Inv1 s sd.

Lemma inv_two s sd : Inv1 s sd -> Inv1 s (other sd) -> Inv s.
Proof. intros H1 H2 sd'. destruct sd, sd'; assumption. Qed.

Definition cfg_ok (c : cfg) : Prop := 0 <= rw_a c <= 15 /\ 0 <= rw_b c <= 15.

Lemma inv_init c : cfg_ok c -> Inv (init c).
Proof.
  intros [Ha Hb] sd. destruct sd; unfold Inv1, Dir, DirInv, init, ep_init, g_init; cbn;
    repeat split; try lia; try reflexivity; constructor.
Qed.

(* ---- PDUs produced by an endpoint (dequeue / sendack) ---- *)
Lemma emit_none s sd : Inv s -> Inv (fst (emit s sd (get_ep s sd, None))).
Proof. intro H. unfold emit; cbn [fst]. rewrite set_ep_same. exact H. Qed.

Lemma Is_ack x nr : Is [ack_pdu x nr] = []. Proof. unfold ack_pdu; destruct (busy x); reflexivity. Qed.
Lemma nrs_ack x nr : nrs [ack_pdu x nr] = [nr]. Proof. unfold ack_pdu; destruct (busy x); reflexivity. Qed.
Lemma notF_ack x nr : notF (ack_pdu x nr) = true. Proof. unfold ack_pdu; destruct (busy x); reflexivity. Qed.

Lemma emit_ack_now s sd : Inv s -> Inv (fst (emit s sd (ack_now (get_ep s sd)))).
Proof.
  intro HI. destruct (HI sd) as (Hxy & Ex & Ix & Fxy). destruct (HI (other sd)) as (Hyx & Ey & Iy & Fyx).
  rewrite other_other in Hyx.
  unfold emit, ack_now; cbn [fst]. apply (inv_two _ sd); unfold Inv1; gs; sim.
  - split; [|split; [|split]]; try assumption.
    + unfold Dir in *; sim. rewrite Is_app, Is_ack, app_nil_r. exact Hxy.
    + apply Forall_app. split; [assumption|]. constructor; [apply notF_ack|constructor].
  - split; [|split; [|split]]; try assumption.
    unfold Dir in *; sim. rewrite nrs_app, nrs_ack.
    eapply dir_ack; [exact Hyx | lia | reflexivity].
Qed.

(* ---- one step ---- *)
Lemma step_send s sd m : Inv s -> Inv (step s (Send sd m)).
Proof.
  intro HI. destruct (HI sd) as (Hxy & Ex & Ix & Fxy). destruct (HI (other sd)) as (Hyx & Ey & Iy & Fyx).
  rewrite other_other in Hyx.
  unfold step, step_full, ep_send. rewrite Ex; cbn [negb].
  destruct (smiu (get_ep s sd) <? len m) eqn:E1; [exact HI|].
  destruct (send_window_slots (get_ep s sd) =? 0) eqn:E2; [exact HI|].
  cbn [fst]. unfold send_window_slots in E2.
  apply (inv_two _ sd); unfold Inv1; gs; sim.
  - split; [|split; [|split]]; try assumption.
    + unfold Dir in *; sim. rewrite Is_app. cbn [Is]. rewrite app_assoc.
      apply dir_send; [exact Hxy | lia | lia].
    + apply Forall_app. split; [assumption|]. constructor; [reflexivity|constructor].
  - split; [|split; [|split]]; try assumption.
    all: try (unfold Dir in *; sim; exact Hyx).
Qed.

Lemma step_recv s sd : Inv s -> Inv (step s (Recv sd)).
Proof.
  intro HI. destruct (HI sd) as (Hxy & Ex & Ix & Fxy). destruct (HI (other sd)) as (Hyx & Ey & Iy & Fyx).
  rewrite other_other in Hyx.
  unfold step, step_full, ep_recv_nb, ep_poll_recv, ep_recv. rewrite Ex; cbn [negb].
  destruct (rq (get_ep s sd)) as [|d q] eqn:Erq.
  - cbn [fst]. rewrite set_ep_same. exact HI.
  - unfold Dir in Hyx. rewrite Erq in Hyx. apply dir_recv in Hyx. destruct Hyx as [Hc Hyx].
    destruct (rwl (get_ep s sd) <? confs (get_ep s sd) + 1) eqn:E1; [lia|].
    cbn [fst]. apply (inv_two _ sd); unfold Inv1; gs; sim.
    + split; [|split; [|split]]; try assumption.
      all: try (unfold Dir in *; sim; exact Hxy).
    + split; [|split; [|split]]; try assumption.
      all: try (unfold Dir in *; sim; exact Hyx).
Qed.

Lemma step_setbusy s sd b : Inv s -> Inv (step s (SetBusy sd b)).
Proof.
  intro HI. destruct (HI sd) as (Hxy & Ex & Ix & Fxy). destruct (HI (other sd)) as (Hyx & Ey & Iy & Fyx).
  rewrite other_other in Hyx.
  unfold step, step_full, ep_setbusy. cbn [fst]. apply (inv_two _ sd); unfold Inv1; gs; sim.
  - split; [|split; [|split]]; try assumption. all: try (unfold Dir in *; sim; exact Hxy).
  - split; [|split; [|split]]; try assumption. all: try (unfold Dir in *; sim; exact Hyx).
Qed.

Lemma step_pollacks s sd : Inv s -> Inv (step s (PollAcks sd)).
Proof.
  intro HI. destruct (HI sd) as (Hxy & Ex & Ix & Fxy). destruct (HI (other sd)) as (Hyx & Ey & Iy & Fyx).
  rewrite other_other in Hyx.
  unfold step, step_full, ep_poll_acks. rewrite Ex; cbn [negb].
  destruct (0 <? acks (get_ep s sd)); cbn [fst]; [|rewrite set_ep_same; exact HI].
  apply (inv_two _ sd); unfold Inv1; gs; sim.
  - split; [|split; [|split]]; try assumption. all: try (unfold Dir in *; sim; exact Hxy).
  - split; [|split; [|split]]; try assumption. all: try (unfold Dir in *; sim; exact Hyx).
Qed.

Lemma step_ack s sd : Inv s -> Inv (step s (Ack sd)).
Proof.
  intro HI. unfold step, step_full, ep_sendack.
  destruct (est (get_ep s sd) && negb (confs (get_ep s sd) =? 0) && negb (vr (get_ep s sd) =? vra (get_ep s sd))).
  - apply emit_ack_now, HI.
  - apply emit_none, HI.
Qed.

Lemma necessary_inv s sd : Inv s -> Inv (fst (emit s sd (necessary_ack (get_ep s sd)))).
Proof.
  intro HI. unfold necessary_ack.
  destruct (est (get_ep s sd) && negb (confs (get_ep s sd) =? 0) && (recv_window_slots (get_ep s sd) =? 0)).
  - apply emit_ack_now, HI.
  - apply emit_none, HI.
Qed.

Lemma step_deq s sd miu icv : Inv s -> Inv (step s (Deq sd miu icv)).
Proof.
  intro HI. destruct (HI sd) as (Hxy & Ex & Ix & Fxy). destruct (HI (other sd)) as (Hyx & Ey & Iy & Fyx).
  rewrite other_other in Hyx.
  unfold step, step_full, ep_dequeue. rewrite Ex; cbn [andb].
  destruct (negb (eqb (busy_sent (get_ep s sd)) (busy (get_ep s sd)))) eqn:Eb.
  { (* receiver busy state changed: RR / RNR with the unchanged V(RA) *)
    unfold emit; cbn [fst]. apply (inv_two _ sd); unfold Inv1; gs; sim.
    - split; [|split; [|split]]; try assumption.
      + unfold Dir in *; sim. rewrite Is_app, Is_ack, app_nil_r. exact Hxy.
      + apply Forall_app. split; [assumption|]. constructor; [apply notF_ack|constructor].
    - split; [|split; [|split]]; try assumption.
      unfold Dir in *; sim. rewrite nrs_app, nrs_ack. eapply dir_push; [exact Hyx | lia]. }
  destruct (sq (get_ep s sd)) as [|p q] eqn:Esq; [apply necessary_inv, HI|].
  destruct (miu <? pdu_info_size p icv); [apply necessary_inv, HI|].
  inversion Ix as [|? ? HpI Iq]; subst. destruct p as [ns nr d| | |]; try discriminate HpI. clear HpI.
  destruct (negb (confs (get_ep s sd) =? 0) && negb (vr (get_ep s sd) =? vra (get_ep s sd))) eqn:Ec.
  - (* piggy-backed acknowledgement *)
    unfold emit; cbn [fst]. apply (inv_two _ sd); unfold Inv1; gs; sim.
    + split; [|split; [|split]]; try assumption.
      * unfold Dir in *; sim. rewrite Esq in Hxy. rewrite Is_app, <- app_assoc. cbn [Is app] in *. exact Hxy.
      * apply Forall_app. split; [assumption|]. constructor; [reflexivity|constructor].
    + split; [|split; [|split]]; try assumption.
      unfold Dir in *; sim. rewrite nrs_app. cbn [nrs]. eapply dir_ack; [exact Hyx | lia | reflexivity].
  - unfold emit; cbn [fst]. apply (inv_two _ sd); unfold Inv1; gs; sim.
    + split; [|split; [|split]]; try assumption.
      * unfold Dir in *; sim. rewrite Esq in Hxy. rewrite Is_app, <- app_assoc. cbn [Is app] in *. exact Hxy.
      * apply Forall_app. split; [assumption|]. constructor; [reflexivity|constructor].
    + split; [|split; [|split]]; try assumption.
      unfold Dir in *; sim. rewrite nrs_app. cbn [nrs]. eapply dir_push; [exact Hyx | lia].
Qed.

Lemma step_deliver s sd : Inv s -> Inv (step s (Deliver sd)).
Proof.
  intro HI. destruct (HI sd) as (Hxy & Ex & Ix & Fxy). destruct (HI (other sd)) as (Hyx & Ey & Iy & Fyx).
  rewrite other_other in Hyx.
  unfold step, step_full.
  destruct (get_w s (other sd)) as [|p w] eqn:Ew; [exact HI|].
  inversion Fyx as [|? ? HpF Fw]; subst.
  unfold ep_enqueue. rewrite Ex; cbn [negb].
  destruct p as [ns nr d|nr|nr|]; try discriminate HpF; clear HpF.
  - (* I PDU *)
    unfold Dir in Hyx, Hxy. cbn [Is app nrs] in Hyx, Hxy.
    apply dir_accept in Hyx. destruct Hyx as (Hns & Hd & Hroom & Hyx).
    destruct (rmiu (get_ep s sd) <? len d) eqn:E1; [lia|].
    destruct (negb (ns =? vr (get_ep s sd))) eqn:E2; [lia|].
    unfold process_nr.
    destruct ((nr - vsa (get_ep s sd)) mod 16 =? 0) eqn:Ea; sim;
      (destruct (len (rq (get_ep s sd)) <? rbuf (get_ep s sd)) eqn:E3; [|lia]);
      cbn [fst]; apply (inv_two _ sd); unfold Inv1; gs; sim.
    + split; [|split; [|split]]; try assumption.
      unfold Dir; sim. eapply dir_pop; [exact Hxy | lia | rewrite Ea; reflexivity].
    + split; [|split; [|split]]; try assumption.
      all: try (unfold Dir; sim; exact Hyx).
    + split; [|split; [|split]]; try assumption.
      unfold Dir; sim. eapply dir_pop; [exact Hxy | lia | rewrite Ea; reflexivity].
    + split; [|split; [|split]]; try assumption.
      all: try (unfold Dir; sim; exact Hyx).
  - (* RR *)
    unfold Dir in Hyx, Hxy. cbn [Is app nrs] in Hyx, Hxy. unfold process_nr.
    destruct ((nr - vsa (get_ep s sd)) mod 16 =? 0) eqn:Ea; sim;
      cbn [fst g_enq]; apply (inv_two _ sd); unfold Inv1; gs; sim.
    + split; [|split; [|split]]; try assumption.
      unfold Dir; sim. eapply dir_pop; [exact Hxy | lia | rewrite Ea; reflexivity].
    + split; [|split; [|split]]; try assumption.
    + split; [|split; [|split]]; try assumption.
      unfold Dir; sim. eapply dir_pop; [exact Hxy | lia | rewrite Ea; reflexivity].
    + split; [|split; [|split]]; try assumption.
  - (* RNR *)
    unfold Dir in Hyx, Hxy. cbn [Is app nrs] in Hyx, Hxy. unfold process_nr.
    destruct ((nr - vsa (get_ep s sd)) mod 16 =? 0) eqn:Ea; sim;
      cbn [fst g_enq]; apply (inv_two _ sd); unfold Inv1; gs; sim.
    + split; [|split; [|split]]; try assumption.
      unfold Dir; sim. eapply dir_pop; [exact Hxy | lia | rewrite Ea; reflexivity].
    + split; [|split; [|split]]; try assumption.
    + split; [|split; [|split]]; try assumption.
      unfold Dir; sim. eapply dir_pop; [exact Hxy | lia | rewrite Ea; reflexivity].
    + split; [|split; [|split]]; try assumption.
Qed.

Theorem inv_step s o : Inv s -> Inv (step s o).
Proof.
  destruct o.
  - apply step_send.
  - apply step_recv.
  - apply step_setbusy.
  - apply step_pollacks.
  - apply step_deq.
  - apply step_ack.
  - apply step_deliver.
Qed.

Theorem inv_reachable c ops : cfg_ok c -> Inv (run c ops).
Proof.
  intro Hc. unfold run. assert (H := inv_init c Hc). revert H. generalize (init c).
  induction ops as [|o ops IH]; intros s H; cbn [fold_left]; [exact H|]. apply IH, inv_step, H.
Qed.

(* llc.collect() without aggregation is one or two ops of the alphabet, so everything above applies *)
Lemma collect1_ops s sd miu : exists ops, fst (collect1 s sd miu) = fold_left step ops s.
Proof.
  unfold collect1. destruct (step_full s (Deq sd miu 0)) as [s1 o] eqn:E.
  assert (Es : s1 = step s (Deq sd miu 0)) by (unfold step; rewrite E; reflexivity).
  destruct o as [r|r| |r|[p|]|d];
    try (exists [Deq sd miu 0]; cbn [fold_left fst]; exact Es).
  exists [Deq sd miu 0; Ack sd]. cbn [fold_left]. rewrite <- Es. reflexivity.
Qed.
