(* C05 -> C06: the data link connection pair (Model/Dlc.v) refines the reliable FIFO message channel
   that the SNEP / handover theorems of C06 are stated over (Model/Snep.v: chan_ops, instance
   list_chan: one list per direction, put appends at the end, get removes the head, messages
   limited by a maximum size).  Abstraction: what is in transit in direction sd =
     receive queue of the receiver ++ data of the I PDUs on the wire ++ data of the I PDUs in the
     sender's send queue.
   C06's files are only imported (list_chan, too_big, input), not changed. *)
From Coq Require Import ZArith List Bool Lia ZifyBool.
From NV Require Import Base.Result Base.Bytes Model.Snep Proofs.SnepSched.
From NV Require Import Model.Dlc Proofs.DlcBase Proofs.Dlc Proofs.DlcCor Proofs.DlcLive.
Import ListNotations.
Open Scope Z_scope.
Ltac Zify.zify_post_hook ::= Z.to_euclidean_division_equations.

Definition abs_dir (sd : side) (s : sys) : list msg :=
  rq (get_ep s (other sd)) ++ map snd (Is (get_w s sd)) ++ map snd (Is (sq (get_ep s sd))).

Lemma inv_abs s sd : Inv s -> sent (get_g s sd) = dlv (get_g s sd) ++ abs_dir sd s.
Proof. intro HI. destruct (HI sd) as (HD & _). unfold Dir in HD. dir_intro HD. unfold abs_dir. rewrite <- map_app. exact Hsent. Qed.

(* the one equation behind everything: what recv returned in this step ++ new content = old content ++ what send accepted *)
Lemma abs_step s o sd : Inv s ->
  let e := (o, snd (step_full s o)) in
  returned1 (other sd) e ++ abs_dir sd (step s o) = abs_dir sd s ++ accepted1 sd e.
Proof.
  intros HI e. pose proof (inv_abs s sd HI) as H0. pose proof (inv_abs _ sd (inv_step s o HI)) as H1.
  pose proof (sent_step s o sd) as Hs. pose proof (dlv_step s o (other sd)) as Hd. rewrite other_other in Hd.
  fold e in Hs, Hd. rewrite Hs, Hd, H0, <- !app_assoc in H1. apply app_inv_head in H1. symmetry. exact H1.
Qed.

(* (1) send *)
Theorem refine_send s sd m : Inv s ->
  match snd (step_full s (Send sd m)) with
  | OSend (Ok _) => abs_dir sd (step s (Send sd m)) = abs_dir sd s ++ [m] /\ len m <= smiu (get_ep s sd)
  | _ => step s (Send sd m) = s
  end /\ abs_dir (other sd) (step s (Send sd m)) = abs_dir (other sd) s.
Proof.
  intro HI. pose proof (abs_step s (Send sd m) sd HI) as H1. pose proof (abs_step s (Send sd m) (other sd) HI) as H2.
  cbv zeta in H1, H2. unfold returned1, accepted1 in H1, H2. split.
  - unfold step, step_full, ep_send in *.
    destruct (negb (est (get_ep s sd))); [reflexivity|].
    destruct (smiu (get_ep s sd) <? len m) eqn:E1; [reflexivity|].
    destruct (send_window_slots (get_ep s sd) =? 0); [reflexivity|].
    cbn [fst snd] in *. replace (side_eqb sd sd) with true in H1 by (destruct sd; reflexivity).
    cbn [app] in H1. split; [exact H1|lia].
  - destruct (snd (step_full s (Send sd m))) as [r| | | | |]; try (rewrite app_nil_r in H2; exact H2).
    destruct r; try (rewrite app_nil_r in H2; exact H2).
    replace (side_eqb (other sd) sd) with false in H2 by (destruct sd; reflexivity). rewrite app_nil_r in H2. exact H2.
Qed.

(* (2) recv *)
Theorem refine_recv s sd : Inv s ->
  match snd (step_full s (Recv sd)) with
  | ORecv (Ok (Some d)) => abs_dir (other sd) s = d :: abs_dir (other sd) (step s (Recv sd))
  | _ => step s (Recv sd) = s
  end /\ abs_dir sd (step s (Recv sd)) = abs_dir sd s.
Proof.
  intro HI. pose proof (abs_step s (Recv sd) (other sd) HI) as H1. pose proof (abs_step s (Recv sd) sd HI) as H2.
  cbv zeta in H1, H2. unfold returned1, accepted1 in H1, H2. rewrite other_other in H1. rewrite app_nil_r in H1, H2.
  destruct (HI sd) as (_ & Ex & _). destruct (HI (other sd)) as (Hyx & _). rewrite other_other in Hyx.
  split.
  - unfold step, step_full, ep_recv_nb, ep_poll_recv, ep_recv in *. rewrite Ex in *. cbn [negb] in *.
    destruct (rq (get_ep s sd)) as [|d q] eqn:Erq.
    + cbn [fst snd]. apply set_ep_same.
    + unfold Dir in Hyx. rewrite Erq in Hyx. apply dir_recv in Hyx. destruct Hyx as [Hc _].
      replace (rwl (get_ep s sd) <? confs (get_ep s sd) + 1) with false in * by lia.
      cbn [fst snd] in *. replace (side_eqb sd sd) with true in H1 by (destruct sd; reflexivity).
      cbn [app] in H1. symmetry. exact H1.
  - destruct (snd (step_full s (Recv sd))) as [|r| | | |]; try exact H2.
    destruct r as [[d|]| | |]; try exact H2.
    replace (side_eqb (other sd) sd) with false in H2 by (destruct sd; reflexivity). exact H2.
Qed.

(* (3) everything else is internal *)
Definition internal (o : op) : Prop := match o with Send _ _ | Recv _ => False | _ => True end.

Theorem refine_internal s o sd : Inv s -> internal o -> abs_dir sd (step s o) = abs_dir sd s.
Proof.
  intros HI Ho. pose proof (abs_step s o sd HI) as H. cbv zeta in H. unfold returned1, accepted1 in H.
  destruct o; try contradiction; rewrite app_nil_r in H; exact H.
Qed.

Lemma refine_internal_n ops : forall s sd, Inv s -> Forall internal ops -> abs_dir sd (fold_left step ops s) = abs_dir sd s.
Proof.
  induction ops as [|o ops IH]; intros s sd HI Ho; [reflexivity|]. inversion Ho; subst. cbn [fold_left].
  rewrite IH by (auto using inv_step). apply refine_internal; assumption.
Qed.

(* the send MIU never changes *)
Lemma smiu_step s o sd : smiu (get_ep (step s o) sd) = smiu (get_ep s sd).
Proof.
  assert (Hnr : forall x nr, smiu (process_nr x nr) = smiu x).
  { intros. unfold process_nr. destruct ((nr - vsa x) mod 16 =? 0); reflexivity. }
  assert (Hsend : forall x m, smiu (fst (ep_send x m)) = smiu x).
  { intros. unfold ep_send. repeat match goal with |- context [if ?b then _ else _] => destruct b end; reflexivity. }
  assert (Hrecv : forall x, smiu (fst (ep_recv_nb x)) = smiu x).
  { intros. unfold ep_recv_nb, ep_poll_recv, ep_recv. destruct (negb (est x)); [reflexivity|].
    destruct (rq x); [reflexivity|]. destruct (rwl x <? confs x + 1); reflexivity. }
  assert (Hpa : forall x, smiu (fst (ep_poll_acks x)) = smiu x).
  { intros. unfold ep_poll_acks. repeat match goal with |- context [if ?b then _ else _] => destruct b end; reflexivity. }
  assert (Hnec : forall x, smiu (fst (necessary_ack x)) = smiu x).
  { intros. unfold necessary_ack, ack_now. match goal with |- context [if ?b then _ else _] => destruct b end; reflexivity. }
  assert (Hsa : forall x, smiu (fst (ep_sendack x)) = smiu x).
  { intros. unfold ep_sendack, ack_now. match goal with |- context [if ?b then _ else _] => destruct b end; reflexivity. }
  assert (Hdq : forall x a b, smiu (fst (ep_dequeue x a b)) = smiu x).
  { intros. unfold ep_dequeue. destruct (est x && negb (eqb (busy_sent x) (busy x))); [reflexivity|].
    destruct (sq x) as [|p q]; [apply Hnec|]. destruct (a <? pdu_info_size p b); [apply Hnec|].
    destruct p; try reflexivity. destruct (est x); [|reflexivity].
    destruct (negb (confs x =? 0) && negb (vr x =? vra x)); reflexivity. }
  assert (Henq : forall x p, smiu (fst (ep_enqueue x p)) = smiu x).
  { intros. unfold ep_enqueue. destruct (negb (est x)); [reflexivity|]. destruct p; cbn [fst]; sim; rewrite ?Hnr; try reflexivity.
    destruct (rmiu x <? len data); [reflexivity|]. destruct (negb (ns =? vr x)); [reflexivity|].
    match goal with |- context [if ?b then _ else _] => destruct b end; cbn [fst]; sim; apply Hnr. }
  unfold step, step_full, emit.
  destruct o as [sd' m|sd'|sd' b|sd'|sd' miu icv|sd'|sd'].
  - specialize (Hsend (get_ep s sd') m). destruct (ep_send (get_ep s sd') m) as [x' r]. cbn [fst] in *.
    destruct r; destruct sd, sd', s; cbn in *; auto.
  - specialize (Hrecv (get_ep s sd')). destruct (ep_recv_nb (get_ep s sd')) as [x' r]. cbn [fst] in *.
    destruct r as [[d|]|e| |]; try destruct e; destruct sd, sd', s; cbn in *; auto.
  - cbn [fst]. destruct sd, sd', s; reflexivity.
  - specialize (Hpa (get_ep s sd')). destruct (ep_poll_acks (get_ep s sd')) as [x' r]. cbn [fst] in *. destruct sd, sd', s; cbn in *; auto.
  - specialize (Hdq (get_ep s sd') miu icv). destruct (ep_dequeue (get_ep s sd') miu icv) as [x' [p|]]; cbn [fst] in *; destruct sd, sd', s; cbn in *; auto.
  - specialize (Hsa (get_ep s sd')). destruct (ep_sendack (get_ep s sd')) as [x' [p|]]; cbn [fst] in *; destruct sd, sd', s; cbn in *; auto.
  - destruct (get_w s (other sd')) as [|p w]; cbn [fst]; [reflexivity|].
    specialize (Henq (get_ep s sd') p). destruct (ep_enqueue (get_ep s sd') p) as [x' r]. cbn [fst] in *.
    destruct sd, sd', s; cbn in *; auto.
Qed.

(* ---- (4) the observable history is a history of the two-list FIFO channel of C06 ---- *)
Definition cq := (Q list_chan * Q list_chan)%type.          (* queue of direction A->B, of direction B->A *)
Definition getq (q : cq) (sd : side) : Q list_chan := match sd with A => fst q | B => snd q end.
Definition setq (q : cq) (sd : side) (x : Q list_chan) : cq := match sd with A => (x, snd q) | B => (fst q, x) end.

(* what an event of the DLC history is at the channel: put / get exactly as C06's gstep uses them *)
Definition chan_event (miu : side -> Z) (e : op * out) (q q' : cq) : Prop :=
  match e with
  | (Send sd m, OSend (Ok _)) =>
      too_big (miu sd) (IMsg m) = false /\ q' = setq q sd (qput list_chan (getq q sd) (IMsg m))
  | (Recv sd, ORecv (Ok (Some d))) =>
      exists rest, qget list_chan (getq q (other sd)) = Some (IMsg d, rest) /\ q' = setq q (other sd) rest
  | _ => q' = q
  end.
Fixpoint chan_hist (miu : side -> Z) (h : list (op * out)) (q q' : cq) : Prop :=
  match h with
  | [] => q' = q
  | e :: r => exists q1, chan_event miu e q q1 /\ chan_hist miu r q1 q'
  end.

Definition absq (s : sys) : cq := (map IMsg (abs_dir A s), map IMsg (abs_dir B s)).
Definition miu_of (s : sys) (sd : side) : Z := smiu (get_ep s sd).

Lemma absq_get s sd : getq (absq s) sd = map IMsg (abs_dir sd s). Proof. destruct sd; reflexivity. Qed.
Lemma absq_set s s' sd : abs_dir (other sd) s' = abs_dir (other sd) s -> absq s' = setq (absq s) sd (map IMsg (abs_dir sd s')).
Proof. unfold absq. destruct sd; cbn [other setq fst snd]; intros ->; reflexivity. Qed.

Lemma refine_event s o lim : Inv s -> (forall sd, lim sd = miu_of s sd) ->
  chan_event lim (o, snd (step_full s o)) (absq s) (absq (step s o)).
Proof.
  intros HI Hm. unfold chan_event.
  assert (Hint : internal o -> absq (step s o) = absq s).
  { intro Ho. unfold absq. rewrite !refine_internal by assumption. reflexivity. }
  destruct o as [sd m|sd|sd b|sd|sd miu icv|sd|sd]; try (apply Hint; exact I).
  - destruct (refine_send s sd m HI) as [H1 H2].
    destruct (snd (step_full s (Send sd m))) as [r| | | | |]; try (rewrite H1; reflexivity).
    destruct r as [a|e| |]; try (rewrite H1; reflexivity).
    destruct H1 as [H1 Hlen]. split.
    + rewrite Hm. unfold too_big, miu_of. lia.
    + rewrite (absq_set s _ sd H2), H1, absq_get, map_app. reflexivity.
  - destruct (refine_recv s sd HI) as [H1 H2].
    destruct (snd (step_full s (Recv sd))) as [|r| | | |]; try (rewrite H1; reflexivity).
    destruct r as [[d|]|e| |]; try (rewrite H1; reflexivity).
    exists (map IMsg (abs_dir (other sd) (step s (Recv sd)))). split.
    + rewrite absq_get, H1. reflexivity.
    + apply absq_set. rewrite other_other. exact H2.
Qed.

Lemma refine_fifo_from ops : forall s miu, Inv s -> (forall sd, miu sd = miu_of s sd) ->
  chan_hist miu (outs s ops) (absq s) (absq (fold_left step ops s)).
Proof.
  induction ops as [|o ops IH]; intros s miu HI Hm; cbn [outs chan_hist fold_left]; [reflexivity|].
  exists (absq (step s o)). split.
  - apply refine_event; assumption.
  - apply IH; [apply inv_step, HI|]. intro sd. rewrite Hm. unfold miu_of. symmetry. apply smiu_step.
Qed.

Definition cfg_miu (c : cfg) (sd : side) : Z := match sd with A => miu_b c | B => miu_a c end.

Theorem refine_fifo c ops : cfg_ok c ->
  chan_hist (cfg_miu c) (outs (init c) ops) (qnew list_chan, qnew list_chan) (absq (run c ops)).
Proof.
  intro Hc. change (qnew list_chan, qnew list_chan) with (absq (init c)).
  apply refine_fifo_from; [apply inv_init, Hc|]. intro sd. destruct sd; reflexivity.
Qed.

(* the abstraction is the qlist of C06's channel laws for list_chan *)
Lemma absq_qlist s sd : qlist list_chan list_chan_ok (getq (absq s) sd) = map IMsg (abs_dir sd s).
Proof. rewrite absq_get. reflexivity. Qed.

(* ---- (5) live under a fair link: the oldest message in transit becomes receivable ---- *)
Lemma recv_head s sd d q : Inv s -> rq (get_ep s sd) = d :: q -> snd (step_full s (Recv sd)) = ORecv (Ok (Some d)).
Proof.
  intros HI Erq. destruct (HI sd) as (_ & Ex & _). destruct (HI (other sd)) as (Hyx & _). rewrite other_other in Hyx.
  unfold step_full, ep_recv_nb, ep_poll_recv, ep_recv. rewrite Ex, Erq. cbn [negb].
  unfold Dir in Hyx. rewrite Erq in Hyx. apply dir_recv in Hyx. destruct Hyx as [Hc _].
  replace (rwl (get_ep s sd) <? confs (get_ep s sd) + 1) with false by lia. reflexivity.
Qed.

Lemma internal_repeat o n : internal o -> Forall internal (repeat o n).
Proof. intro H. induction n; cbn; constructor; auto. Qed.

Theorem channel_live c ops sd m rest : cfg_ok c -> abs_dir sd (run c ops) = m :: rest ->
  exists ops', Forall internal ops' /\
    let s' := fold_left step ops' (run c ops) in
    abs_dir sd s' = m :: rest /\ abs_dir (other sd) s' = abs_dir (other sd) (run c ops) /\
    snd (step_full s' (Recv (other sd))) = ORecv (Ok (Some m)).
Proof.
  intros Hc Habs. pose proof (inv_reachable c ops Hc) as HI. set (s := run c ops) in *.
  destruct (HI sd) as (Hxy & _).
  set (M := rmiu (get_ep s (other sd))).
  assert (Hsz : Forall (fun p => pdu_info_size p 0 <= M) (sq (get_ep s sd))).
  { destruct (HI sd) as (_ & _ & Ix & _). unfold Dir in Hxy. dir_intro Hxy. clear - Hsz Ix. fold M in Hsz.
    rewrite map_app, Forall_app in Hsz. destruct Hsz as [_ Hsz]. revert Ix Hsz.
    induction (sq (get_ep s sd)) as [|p q IH]; intros Ix Hsz; [constructor|].
    inversion Ix as [|? ? HpI Iq]; subst. destruct p as [ns nr d| | |]; try discriminate HpI.
    cbn [Is map snd] in Hsz. inversion Hsz; subst. constructor; [cbn; lia|auto]. }
  set (n1 := pend (get_ep s sd)).
  set (s1 := fold_left step (repeat (Deq sd M 0) n1) s).
  destruct (deq_drain sd M n1 s HI Hsz (le_n _)) as (D1 & _). fold s1 in D1.
  assert (HI1 : Inv s1) by (apply inv_run_from, HI).
  set (n2 := length (get_w s1 sd)).
  set (s2 := fold_left step (repeat (Deliver (other sd)) n2) s1).
  destruct (deliver_drain (other sd) n2 s1) as (E1 & E2 & _); [rewrite other_other; apply le_n|].
  rewrite other_other in E1, E2. fold s2 in E1, E2.
  assert (HI2 : Inv s2) by (apply inv_run_from, HI1).
  exists (repeat (Deq sd M 0) n1 ++ repeat (Deliver (other sd)) n2).
  assert (Hint : Forall internal (repeat (Deq sd M 0) n1 ++ repeat (Deliver (other sd)) n2)).
  { apply Forall_app. split; apply internal_repeat; exact I. }
  split; [exact Hint|]. cbv zeta.
  assert (Es2 : fold_left step (repeat (Deq sd M 0) n1 ++ repeat (Deliver (other sd)) n2) s = s2)
    by (rewrite fold_left_app; reflexivity).
  pose proof (refine_internal_n _ s sd HI Hint) as K1. pose proof (refine_internal_n _ s (other sd) HI Hint) as K2.
  rewrite Es2 in *. rewrite Habs in K1. repeat split; [exact K1 | exact K2 |].
  unfold abs_dir in K1. rewrite E1, E2, D1 in K1. cbn [Is map app] in K1. rewrite app_nil_r in K1.
  apply (recv_head s2 (other sd) m rest HI2 K1).
Qed.
