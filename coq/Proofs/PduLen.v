(* len_encode: the length reported by __len__ is the length of the encoding, for every PDU that encodes. *)
From Coq Require Import ZArith List Bool Lia ZifyBool.
From NV Require Import Base.Result Base.Bytes Model.Pdu Proofs.PduBase.
Import ListNotations.
Open Scope Z_scope.

(* induction over PDUs with the aggregate's members *)
Section PduInd.
Variable P : pdu -> Prop.
Hypothesis Hagf : forall d s ps, Forall P ps -> P (Agf d s ps).
Hypothesis Hother : forall p, is_agf p = false -> P p.
Fixpoint pdu_ind' (p : pdu) : P p :=
  match p with
  | Agf d s ps => Hagf d s ps ((fix go (l : list pdu) : Forall P l :=
                                 match l with [] => Forall_nil P | q :: r => Forall_cons q (pdu_ind' q) (go r) end) ps)
  | q => Hother q eq_refl
  end.
End PduInd.

Ltac einv H :=
  match type of H with
  | ebind ?r _ = EOk _ => let E := fresh "E" in destruct r eqn:E; cbn [ebind] in H; [|discriminate H|discriminate H]
  | (if ?c then _ else _) = EOk _ => let E := fresh "C" in destruct c eqn:E; try discriminate H
  end.
Ltac einvs H := repeat einv H.

Lemma encode_header_len pt d s h : encode_header pt d s = EOk h -> len h = 2.
Proof. unfold encode_header. intro H. einvs H. inversion H. reflexivity. Qed.
Lemma encode_nheader_len pt d s ns nr h : encode_nheader pt d s ns nr = EOk h -> len h = 3.
Proof. unfold encode_nheader. intro H. einvs H. inversion H. apply encode_header_len in E.
  rewrite len_app, E. reflexivity. Qed.
Lemma packB_len v b : packB v = EOk b -> len b = 1.
Proof. unfold packB. intro H. einvs H. inversion H. reflexivity. Qed.
Lemma packH_len v b : packH v = EOk b -> len b = 2.
Proof. unfold packH. intro H. einvs H. inversion H. reflexivity. Qed.
Lemma rawB_len v b : rawB v = EOk b -> len b = 1.
Proof. unfold rawB. intro H. einvs H. inversion H. reflexivity. Qed.

Definition tlv_len (t : tlv) : Z :=
  match t with
  | TVersion _ | TLto _ | TRw _ | TOpt _ => 3
  | TMiux _ | TWks _ | TSdres _ _ => 4
  | TSn b | TEcpk b | TRn b | TOther _ b => 2 + len b
  | TSdreq _ sn => 3 + len sn
  end.
Lemma param_encode_len t b : param_encode t = EOk b -> len b = tlv_len t.
Proof.
  destruct t; cbn [param_encode tlv_len]; intro H; einvs H; inversion H; subst;
    repeat match goal with E : packB _ = EOk _ |- _ => apply packB_len in E | E : packH _ = EOk _ |- _ => apply packH_len in E end;
    repeat first [rewrite len_app | rewrite len_cons | rewrite len_nil]; lia.
Qed.

Lemma opt_tlv_len o mk n b : (forall v, tlv_len (mk v) = n) -> opt_tlv o mk = EOk b -> len b = some1 o n.
Proof. intros Hn H. destruct o as [v|]; cbn in *; [apply param_encode_len in H; rewrite H; apply Hn | inversion H; reflexivity]. Qed.
Lemma optb_tlv_len o mk b : (forall v, tlv_len (mk v) = 2 + len v) -> optb_tlv o mk = EOk b -> len b = optb_len o.
Proof. intros Hn H. destruct o as [[|x v]|]; cbn [optb_tlv optb_len] in *; try (inversion H; reflexivity).
  apply param_encode_len in H. rewrite H. apply Hn. Qed.

Lemma zsum_cons x l : zsum (x :: l) = x + zsum l. Proof. reflexivity. Qed.
Lemma len_concat (l : list (list Z)) : len (concat l) = zsum (map len l).
Proof. induction l as [|x l IH]; [reflexivity|]. cbn [concat map]. rewrite len_app, zsum_cons, IH. reflexivity. Qed.

Lemma emapM_cons {A B} (f : A -> eres B) x r : emapM f (x :: r) = edo y <- f x; edo ys <- emapM f r; EOk (y :: ys).
Proof. reflexivity. Qed.
Lemma emapM_len_sum {A} (f : A -> eres (list Z)) (g : A -> Z) l : (forall x b, f x = EOk b -> len b = g x) ->
  forall bs, emapM f l = EOk bs -> zsum (map len bs) = zsum (map g l).
Proof.
  intro Hf. induction l as [|x r IH]; intros bs H.
  - inversion H. reflexivity.
  - rewrite emapM_cons in H. einvs H. inversion H. subst. cbn [map]. rewrite !zsum_cons.
    rewrite (Hf _ _ E), (IH _ eq_refl). reflexivity.
Qed.
Lemma emapM_length {A B} (f : A -> eres B) l : forall bs, emapM f l = EOk bs -> length bs = length l.
Proof. induction l as [|x r IH]; intros bs H; [inversion H; reflexivity|].
  rewrite emapM_cons in H. einvs H. inversion H. cbn. f_equal. apply IH. reflexivity. Qed.

Lemma agf_body_len encs : forall b, agf_body encs = EOk b -> len b = zsum (map (fun e => 2 + len e) encs).
Proof.
  induction encs as [|e r IH]; intros b H; [inversion H; reflexivity|].
  cbn [agf_body] in H. einvs H. injection H as <-. cbn [map]. rewrite zsum_cons, len2, len_app, (IH _ eq_refl). lia.
Qed.

Lemma zsum_const4 {A} (l : list A) : zsum (map (fun _ => 4) l) = len l * 4.
Proof. induction l as [|x l IH]; [reflexivity|]. cbn [map]. rewrite zsum_cons, IH, len_cons. lia. Qed.

Theorem len_encode : forall p b, encode p = EOk b -> pdu_len p = len b.
Proof.
  induction p as [d s ps IH | p Hp] using pdu_ind'; intros b H.
  - (* AGF *)
    cbn [encode] in H. einvs H. inversion H. cbn [pdu_len]. rewrite len_app, (encode_header_len _ _ _ _ E).
    rewrite (agf_body_len _ _ E1). f_equal.
    clear - IH E0. revert a0 E0. induction IH as [|q r Hq Hr IHr]; intros encs E0.
    + inversion E0. reflexivity.
    + rewrite emapM_cons in E0. einvs E0. injection E0 as <-. cbn [map]. rewrite !zsum_cons.
      rewrite (Hq _ eq_refl). rewrite (IHr _ eq_refl). reflexivity.
  - assert (Hmx : forall miu (x : list Z), (if miu >? 128 then param_encode (TMiux (miu - 128)) else EOk []) = EOk x ->
                   len x = if miu >? 128 then 4 else 0).
    { intros miu x Hx. destruct (miu >? 128); [apply param_encode_len in Hx; exact Hx | inversion Hx; reflexivity]. }
    assert (Hrw : forall rw (x : list Z), (if negb (rw =? 1) then param_encode (TRw rw) else EOk []) = EOk x ->
                   len x = if negb (rw =? 1) then 3 else 0).
    { intros rw x Hx. destruct (negb (rw =? 1)); [apply param_encode_len in Hx; exact Hx | inversion Hx; reflexivity]. }
    destruct p; try discriminate Hp; cbn [encode pdu_len] in *; einvs H; try (injection H as <-);
      repeat match goal with
             | E : encode_header _ _ _ = EOk _ |- _ => apply encode_header_len in E
             | E : encode_nheader _ _ _ _ _ = EOk _ |- _ => apply encode_nheader_len in E
             | E : rawB _ = EOk _ |- _ => apply rawB_len in E
             end.
    + (* SYMM *) lia.
    + (* PAX *)
      apply (opt_tlv_len _ _ 3) in E0; [|reflexivity]. apply (opt_tlv_len _ _ 4) in E1; [|reflexivity].
      apply (opt_tlv_len _ _ 4) in E2; [|reflexivity]. apply (opt_tlv_len _ _ 3) in E3; [|reflexivity].
      apply (opt_tlv_len _ _ 3) in E4; [|reflexivity]. rewrite !len_app. lia.
    + (* UI *) rewrite len_app. lia.
    + (* CONNECT *)
      apply Hmx in E0. apply Hrw in E1. apply optb_tlv_len in E2; [|reflexivity]. rewrite !len_app. lia.
    + (* DISC *) lia.
    + (* CC *) apply Hmx in E0. apply Hrw in E1. rewrite !len_app. lia.
    + (* DM *) rewrite len_app. lia.
    + (* FRMR *) rewrite !len_app. lia.
    + (* SNL *)
      unfold econcat in *. einvs E0. einvs E1. injection E0 as <-. injection E1 as <-.
      rewrite !len_app, !len_concat.
      rewrite (emapM_len_sum (fun x : Z * list Z => param_encode (TSdreq (fst x) (snd x))) (fun x => 3 + len (snd x)) sdreq
                 (fun x b H => param_encode_len (TSdreq (fst x) (snd x)) b H) _ E2).
      rewrite (emapM_len_sum (fun x : Z * Z => param_encode (TSdres (fst x) (snd x))) (fun _ => 4) sdres
                 (fun x b H => param_encode_len (TSdres (fst x) (snd x)) b H) _ E3).
      rewrite zsum_const4. lia.
    + (* DPS *)
      apply optb_tlv_len in E0; [|reflexivity]. apply optb_tlv_len in E1; [|reflexivity]. rewrite !len_app. lia.
    + (* I *) rewrite len_app. lia.
    + (* RR *) lia.
    + (* RNR *) lia.
    + (* unknown *) rewrite len_app. lia.
Qed.
