(* decode_total: decode never crashes or hangs (for offset >= 0): it returns a PDU or DecodeError.
   decode_reencode: a decoded PDU has valid field values, so it can be encoded and its encoding decodes to an equal PDU. *)
From Coq Require Import ZArith List Bool Lia ZifyBool.
From NV Require Import Base.Result Base.Bytes Model.Pdu Proofs.PduBase Proofs.PduWin Proofs.PduLen Proofs.PduRt.
Import ListNotations.
Open Scope Z_scope.
Ltac Zify.zify_post_hook ::= Z.to_euclidean_division_equations.

Definition okerr {A} (r : res A) : Prop := match r with Ok _ | Err DecodeError => True | _ => False end.

(* what Parameter.decode can return *)
Definition tlv_dec_ok (t : tlv) : Prop :=
  match t with TOther _ b => bytes_ok b /\ len b <= 255 | _ => tlv_ok t end.

Lemma byte_of (x : Z) l : bytes_ok (x :: l) -> 0 <= x < 256.
Proof. intro H. apply bytes_ok_cons in H. apply H. Qed.
Lemma bytes_tl (x : Z) l : bytes_ok (x :: l) -> bytes_ok l.
Proof. intro H. apply bytes_ok_cons in H. apply H. Qed.

Lemma tlv_interp_spec T L V : bytes_ok V -> len V = L -> L <= 255 ->
  match tlv_interp T L V with
  | Ok t => tlv_dec_ok t /\ len (tlv_V t) = L
  | Err DecodeError => True
  | _ => False
  end.
Proof.
  intros Hb HL H255. unfold tlv_interp.
  repeat match goal with |- context [if ?c then _ else _] => destruct c eqn:? end; try exact I;
    try (cbn [tlv_dec_ok tlv_ok tlv_V]; split; [split; [exact Hb | lia] | exact HL]).
  all: destruct V as [|v0 [|v1 [|v2 V']]]; rewrite ?len_cons in HL; change (len (@nil Z)) with 0 in HL; try lia.
  all: try (pose proof (len_nonneg V'); lia).
  all: try (pose proof (byte_of _ _ Hb) as B0; pose proof (bytes_tl _ _ Hb) as Hb1).
  all: try (pose proof (byte_of _ _ Hb1) as B1).
  all: cbn [tlv_dec_ok tlv_ok tlv_V]; rewrite ?land2047, ?land15, ?land7; rewrite ?len_cons; change (len (@nil Z)) with 0.
  all: try (split; lia).
  all: try (split; [repeat split; try assumption; lia | lia]).
Qed.

(* ---------------------------------------------------------------- the per-class step functions keep field values valid *)
Definition Inv (st : pdu) : Prop := valid (norm st) /\ is_agf st = false.

Ltac simpl_len := rewrite ?len_cons; change (len (@nil Z)) with 0.

Lemma pax_step_inv st t : Inv st -> tlv_dec_ok t ->
  Inv (pax_step st t) /\ pdu_len (norm (pax_step st t)) <= pdu_len (norm st) + 2 + len (tlv_V t).
Proof.
  intros [Hv Ha] Ht. pose proof (len_nonneg (tlv_V t)) as Hn.
  destruct st; cbn [pax_step connect_step cc_step snl_step dps_step]; try (split; [split; assumption | lia]).
  destruct t; cbn [pax_step tlv_V] in *; rewrite ?len_cons in Hn;
    try (split; [split; assumption | simpl_len; lia]).
  all: split; [split; [|reflexivity] | ].
  all: unfold valid in *; cbn [norm validb tlv_dec_ok tlv_ok pdu_len tlv_V] in *; simpl_len;
    destruct version, miux, wks, lto, opt; unfold optZ_ok, in_range, some1 in *; lia.
Qed.

Lemma optb_ok_norm b : bytes_ok b -> len b <= 255 -> optb_ok (norm_optb (Some b)) = true.
Proof.
  intros Hb Hl. destruct b as [|x b]; [reflexivity|]. cbn [norm_optb optb_ok].
  apply andb_true_iff. split; [apply bytes_okb_spec, Hb|]. unfold in_range. rewrite len_cons in *. pose proof (len_nonneg b). lia.
Qed.
Lemma optb_len_norm b : optb_len (norm_optb (Some b)) <= 2 + len b.
Proof. destruct b as [|x b]; cbn [norm_optb optb_len]; [cbn; lia | lia]. Qed.
Lemma optb_len_nonneg o : 0 <= optb_len o.
Proof. destruct o as [[|x b]|]; cbn [optb_len]; try lia. pose proof (len_nonneg (x :: b)). lia. Qed.

Lemma connect_step_inv st t : Inv st -> tlv_dec_ok t ->
  Inv (connect_step st t) /\ pdu_len (norm (connect_step st t)) <= pdu_len (norm st) + 2 + len (tlv_V t).
Proof.
  intros [Hv Ha] Ht. pose proof (len_nonneg (tlv_V t)) as Hn.
  destruct st; cbn [pax_step connect_step cc_step snl_step dps_step]; try (split; [split; assumption | lia]).
  destruct t; cbn [connect_step tlv_V] in *; rewrite ?len_cons in Hn;
    try (split; [split; assumption | simpl_len; lia]).
  - (* MIUX *) split; [split; [|reflexivity] | ].
    + unfold valid in *. cbn [norm validb tlv_dec_ok tlv_ok] in *. unfold sap_ok, in_range in *.
      try (destruct (optb_ok (norm_optb sn))); lia.
    + cbn [norm pdu_len tlv_V]. simpl_len. destruct (128 + v >? 128); destruct (miu >? 128); lia.
  - (* RW *) split; [split; [|reflexivity] | ].
    + unfold valid in *. cbn [norm validb tlv_dec_ok tlv_ok] in *. unfold sap_ok, in_range in *.
      try (destruct (optb_ok (norm_optb sn))); lia.
    + cbn [norm pdu_len tlv_V]. simpl_len. destruct (negb (v =? 1)); destruct (negb (rw =? 1)); lia.
  - (* SN *) cbn [tlv_dec_ok tlv_ok] in Ht. destruct Ht as [Hb Hl]. split; [split; [|reflexivity] | ].
    + unfold valid in *. cbn [norm validb] in *. rewrite (optb_ok_norm b Hb Hl).
      apply andb_true_iff in Hv. destruct Hv as [Hv _]. rewrite Hv. reflexivity.
    + cbn [norm pdu_len tlv_V]. pose proof (optb_len_norm b). pose proof (optb_len_nonneg (norm_optb sn)). lia.
Qed.

Lemma cc_step_inv st t : Inv st -> tlv_dec_ok t ->
  Inv (cc_step st t) /\ pdu_len (norm (cc_step st t)) <= pdu_len (norm st) + 2 + len (tlv_V t).
Proof.
  intros [Hv Ha] Ht. pose proof (len_nonneg (tlv_V t)) as Hn.
  destruct st; cbn [pax_step connect_step cc_step snl_step dps_step]; try (split; [split; assumption | lia]).
  destruct t; cbn [cc_step tlv_V] in *; rewrite ?len_cons in Hn;
    try (split; [split; assumption | simpl_len; lia]).
  - split; [split; [|reflexivity] | ].
    + unfold valid in *. cbn [norm validb tlv_dec_ok tlv_ok] in *. unfold sap_ok, in_range in *.
      try (destruct (optb_ok (norm_optb sn))); lia.
    + cbn [norm pdu_len tlv_V]. simpl_len. destruct (128 + v >? 128); destruct (miu >? 128); lia.
  - split; [split; [|reflexivity] | ].
    + unfold valid in *. cbn [norm validb tlv_dec_ok tlv_ok] in *. unfold sap_ok, in_range in *.
      try (destruct (optb_ok (norm_optb sn))); lia.
    + cbn [norm pdu_len tlv_V]. simpl_len. destruct (negb (v =? 1)); destruct (negb (rw =? 1)); lia.
Qed.

Lemma zsum_app a b : zsum (a ++ b) = zsum a + zsum b.
Proof. induction a as [|x a IH]; [reflexivity|]. cbn [app]. rewrite !zsum_cons, IH. lia. Qed.

Lemma snl_step_inv st t : Inv st -> tlv_dec_ok t ->
  Inv (snl_step st t) /\ pdu_len (norm (snl_step st t)) <= pdu_len (norm st) + 2 + len (tlv_V t).
Proof.
  intros [Hv Ha] Ht. pose proof (len_nonneg (tlv_V t)) as Hn.
  destruct st; cbn [pax_step connect_step cc_step snl_step dps_step]; try (split; [split; assumption | lia]).
  destruct t; cbn [snl_step tlv_V] in *; rewrite ?len_cons in Hn;
    try (split; [split; assumption | simpl_len; lia]).
  - (* SDREQ *) cbn [tlv_dec_ok tlv_ok] in Ht. destruct Ht as (Ht & Hb & Hl). split; [split; [|reflexivity] | ].
    + unfold valid in *. cbn [norm validb] in *. rewrite forallb_app. cbn [forallb fst snd].
      apply bytes_okb_spec in Hb. rewrite Hb.
      assert (E1 : in_range 0 255 tid = true) by (unfold in_range; lia). rewrite E1.
      replace (len sn <=? 254) with true by lia.
      cbn [andb]. rewrite andb_true_r.
      apply andb_true_iff in Hv. destruct Hv as [Hv V]. apply andb_true_iff in Hv. destruct Hv as [Hv V0].
      rewrite Hv, V, V0. reflexivity.
    + cbn [norm pdu_len tlv_V]. rewrite map_app, zsum_app. cbn [map snd]. rewrite zsum_cons. cbn [zsum fold_right].
      rewrite len_cons. lia.
  - (* SDRES *) cbn [tlv_dec_ok tlv_ok] in Ht. split; [split; [|reflexivity] | ].
    + unfold valid in *. cbn [norm validb] in *. rewrite forallb_app. cbn [forallb fst snd].
      assert (E1 : in_range 0 255 tid = true) by (unfold in_range; lia).
      assert (E2 : in_range 0 255 sap = true) by (unfold in_range; lia). rewrite E1, E2.
      cbn [andb]. rewrite andb_true_r. exact Hv.
    + cbn [norm pdu_len tlv_V]. rewrite len_app. simpl_len. change (len (@nil (Z * Z))) with 0. lia.
Qed.

Lemma dps_step_inv st t : Inv st -> tlv_dec_ok t ->
  Inv (dps_step st t) /\ pdu_len (norm (dps_step st t)) <= pdu_len (norm st) + 2 + len (tlv_V t).
Proof.
  intros [Hv Ha] Ht. pose proof (len_nonneg (tlv_V t)) as Hn.
  destruct st; cbn [pax_step connect_step cc_step snl_step dps_step]; try (split; [split; assumption | lia]).
  destruct t; cbn [dps_step tlv_V] in *; rewrite ?len_cons in Hn;
    try (split; [split; assumption | simpl_len; lia]).
  - cbn [tlv_dec_ok tlv_ok] in Ht. destruct Ht as [Hb Hl]. split; [split; [|reflexivity] | ].
    + unfold valid in *. cbn [norm validb] in *. rewrite (optb_ok_norm b Hb Hl).
      apply andb_true_iff in Hv. destruct Hv as [Hv V]. apply andb_true_iff in Hv. destruct Hv as [Hv _].
      rewrite Hv, V. reflexivity.
    + cbn [norm pdu_len tlv_V]. pose proof (optb_len_norm b). pose proof (optb_len_nonneg (norm_optb ecpk)). lia.
  - cbn [tlv_dec_ok tlv_ok] in Ht. destruct Ht as [Hb Hl]. split; [split; [|reflexivity] | ].
    + unfold valid in *. cbn [norm validb] in *. rewrite (optb_ok_norm b Hb Hl).
      apply andb_true_iff in Hv. destruct Hv as [Hv _]. rewrite Hv. reflexivity.
    + cbn [norm pdu_len tlv_V]. pose proof (optb_len_norm b). pose proof (optb_len_nonneg (norm_optb rn)). lia.
Qed.

(* ---------------------------------------------------------------- the TLV loop: total, keeps the invariant *)
Lemma tlvs_w_spec step
  (Hstep : forall st t, Inv st -> tlv_dec_ok t ->
           Inv (step st t) /\ pdu_len (norm (step st t)) <= pdu_len (norm st) + 2 + len (tlv_V t)) :
  forall fuel w st, bytes_ok w -> len w <= Z.of_nat fuel -> Inv st ->
  match tlvs_w fuel step w st with
  | Ok p => Inv p /\ pdu_len (norm p) <= pdu_len (norm st) + len w
  | Err DecodeError => True
  | _ => False
  end.
Proof.
  induction fuel as [|f IH]; intros w st Hw Hf Hi.
  - destruct w as [|T [|L rest]]; cbn [tlvs_w].
    + split; [exact Hi | cbn; lia].
    + split; [exact Hi | rewrite len_cons; cbn; lia].
    + rewrite len2 in Hf. pose proof (len_nonneg rest). lia.
  - destruct w as [|T [|L rest]]; cbn [tlvs_w].
    + split; [exact Hi | cbn; lia].
    + split; [exact Hi | rewrite len_cons; cbn; lia].
    + pose proof (byte_of _ _ (bytes_tl _ _ Hw)) as HL. pose proof (bytes_tl _ _ (bytes_tl _ _ Hw)) as Hr.
      rewrite len2 in *. pose proof (len_nonneg rest) as Hn.
      destruct (L >? len rest) eqn:E; [exact I|].
      assert (Hlt0 : len (take L rest) = L) by (apply len_take; lia).
      assert (H255 : L <= 255) by lia.
      pose proof (tlv_interp_spec T L (take L rest) (bytes_ok_take _ _ Hr) Hlt0 H255) as Ht.
      destruct (tlv_interp T L (take L rest)) as [t|e|c|]; cbn [bind]; try exact Ht.
      destruct Ht as [Ht Hlt]. destruct (Hstep st t Hi Ht) as [Hi' Hl'].
      specialize (IH (drop L rest) (step st t) (bytes_ok_drop _ _ Hr)).
      rewrite len_drop in IH by lia. assert (Hf' : len rest - L <= Z.of_nat f) by lia. specialize (IH Hf' Hi').
      destruct (tlvs_w f step (drop L rest) (step st t)) as [p|e|c|]; try exact IH.
      destruct IH as [Hp Hlp]. split; [exact Hp | lia].
Qed.

Lemma byte_shr2 a : 0 <= a < 256 -> 0 <= Z.shiftr a 2 <= 63. Proof. rewrite shr2. lia. Qed.
Lemma byte_land63 b : 0 <= b < 256 -> 0 <= Z.land b 63 <= 63. Proof. rewrite land63. lia. Qed.
Lemma byte_shr4 a : 0 <= a < 256 -> 0 <= Z.shiftr a 4 <= 15. Proof. rewrite shr4. lia. Qed.
Lemma byte_land15 b : 0 <= Z.land b 15 <= 15. Proof. rewrite land15. lia. Qed.

(* ---------------------------------------------------------------- dec_w: total, result has valid field values *)
Lemma dec_w_spec agfh w : bytes_ok w ->
  match dec_w agfh w with
  | Ok p => (Inv p /\ pdu_len (norm p) <= len w) \/ agfh w = Ok p
  | Err e => e = DecodeError \/ agfh w = Err e
  | Crash c => agfh w = Crash c
  | Hang => agfh w = Hang
  end.
Proof.
  intro Hw. destruct w as [|a [|b info]]; [left; reflexivity | left; reflexivity |].
  pose proof (byte_of _ _ Hw) as Ha. pose proof (byte_of _ _ (bytes_tl _ _ Hw)) as Hb.
  pose proof (bytes_tl _ _ (bytes_tl _ _ Hw)) as Hi. pose proof (len_nonneg info) as Hn.
  pose proof (byte_shr2 a Ha) as Hd. pose proof (byte_land63 b Hb) as Hs.
  unfold dec_w. cbv zeta. rewrite len2.
  set (dsap := Z.shiftr a 2) in *. set (ssap := Z.land b 63) in *.
  set (ptype := Z.land (Z.shiftr (a * 256 + b) 6) 15).
  assert (Hpt : 0 <= ptype <= 15) by (unfold ptype; rewrite land15; lia).
  assert (Hfuel : len info <= Z.of_nat (Z.to_nat (len info))) by lia.
  assert (Htlv : forall step st,
    (forall st t, Inv st -> tlv_dec_ok t ->
       Inv (step st t) /\ pdu_len (norm (step st t)) <= pdu_len (norm st) + 2 + len (tlv_V t)) ->
    Inv st -> pdu_len (norm st) = 2 ->
    match tlvs_w (Z.to_nat (len info)) step info st with
    | Ok p => (Inv p /\ pdu_len (norm p) <= 2 + len info) \/ agfh (a :: b :: info) = Ok p
    | Err e => e = DecodeError \/ agfh (a :: b :: info) = Err e
    | Crash c => agfh (a :: b :: info) = Crash c
    | Hang => agfh (a :: b :: info) = Hang
    end).
  { intros step st Hstep Hst Hl. pose proof (tlvs_w_spec step Hstep _ info st Hi Hfuel Hst) as H.
    destruct (tlvs_w (Z.to_nat (len info)) step info st) as [p|e|c|]; try contradiction.
    - left. destruct H. split; [assumption | lia].
    - destruct e; try contradiction. left. reflexivity. }
  assert (Hsap : sap_ok dsap && sap_ok ssap = true) by (unfold sap_ok, in_range; lia).
  destruct (ptype =? 0) eqn:E0.
  { destruct (negb (dsap =? 0) || negb (ssap =? 0)) eqn:Z0; [left; reflexivity|].
    destruct info; [|left; reflexivity]. left. split; [|cbn; lia]. split; [|reflexivity].
    unfold valid. cbn [norm validb]. lia. }
  destruct (ptype =? 1) eqn:E1.
  { destruct (negb (dsap =? 0) || negb (ssap =? 0)) eqn:Z0; [left; reflexivity|].
    apply Htlv; [exact pax_step_inv | | reflexivity]. split; [|reflexivity]. unfold valid. cbn [norm validb optZ_ok]. lia. }
  destruct (ptype =? 2) eqn:E2.
  { destruct (agfh (a :: b :: info)) as [p|e|c|]; [right | right | |]; reflexivity. }
  destruct (ptype =? 3) eqn:E3.
  { left. split; [|cbn [norm pdu_len]; lia]. split; [|reflexivity]. unfold valid. cbn [norm validb].
    rewrite Hsap. apply bytes_okb_spec, Hi. }
  destruct (ptype =? 4) eqn:E4.
  { apply Htlv; [exact connect_step_inv | | reflexivity]. split; [|reflexivity]. unfold valid. cbn [norm norm_optb validb optb_ok].
    rewrite Hsap. reflexivity. }
  destruct (ptype =? 5) eqn:E5.
  { left. split; [|cbn [norm pdu_len]; lia]. split; [|reflexivity]. unfold valid. cbn [norm validb]. exact Hsap. }
  destruct (ptype =? 6) eqn:E6.
  { apply Htlv; [exact cc_step_inv | | reflexivity]. split; [|reflexivity]. unfold valid. cbn [norm validb].
    rewrite Hsap. reflexivity. }
  destruct (ptype =? 7) eqn:E7.
  { destruct info as [|r [|r2 l]]; try (left; reflexivity). left.
    pose proof (byte_of _ _ Hi). split; [|cbn; lia]. split; [|reflexivity]. unfold valid. cbn [norm validb].
    rewrite Hsap. unfold in_range. lia. }
  destruct (ptype =? 8) eqn:E8.
  { destruct info as [|b0 [|b1 [|b2 [|b3 [|b4 l]]]]]; try (left; reflexivity). left.
    pose proof (byte_of _ _ Hi) as B0. pose proof (byte_of _ _ (bytes_tl _ _ Hi)) as B1.
    pose proof (byte_of _ _ (bytes_tl _ _ (bytes_tl _ _ Hi))) as B2.
    pose proof (byte_of _ _ (bytes_tl _ _ (bytes_tl _ _ (bytes_tl _ _ Hi)))) as B3.
    split; [|cbn; lia]. split; [|reflexivity]. unfold valid. cbn [norm validb]. rewrite Hsap.
    pose proof (byte_shr4 b0 B0). pose proof (byte_shr4 b1 B1). pose proof (byte_shr4 b2 B2). pose proof (byte_shr4 b3 B3).
    pose proof (byte_land15 b0). pose proof (byte_land15 b1). pose proof (byte_land15 b2). pose proof (byte_land15 b3).
    unfold in_range. lia. }
  destruct (ptype =? 9) eqn:E9.
  { destruct (negb (dsap =? 1) || negb (ssap =? 1)) eqn:Z1; [left; reflexivity|].
    apply Htlv; [exact snl_step_inv | | reflexivity]. split; [|reflexivity]. unfold valid. cbn [norm validb forallb]. lia. }
  destruct (ptype =? 10) eqn:E10.
  { destruct (negb (dsap =? 0) || negb (ssap =? 0)) eqn:Z0; [left; reflexivity|].
    apply Htlv; [exact dps_step_inv | | reflexivity]. split; [|reflexivity]. unfold valid. cbn [norm norm_optb validb optb_ok]. lia. }
  destruct (ptype =? 12) eqn:E12.
  { destruct info as [|q data]; [left; reflexivity|]. left. pose proof (byte_of _ _ Hi) as Q.
    pose proof (byte_shr4 q Q). pose proof (byte_land15 q).
    split; [|cbn [norm pdu_len]; rewrite len_cons; lia]. split; [|reflexivity]. unfold valid. cbn [norm validb].
    rewrite Hsap. replace (in_range 0 15 (Z.shiftr q 4)) with true by (unfold in_range; lia).
    replace (in_range 0 15 (Z.land q 15)) with true by (unfold in_range; lia). apply bytes_okb_spec, (bytes_tl _ _ Hi). }
  destruct (ptype =? 13) eqn:E13.
  { destruct info as [|q data]; [left; reflexivity|]. left. pose proof (byte_land15 q).
    split; [|cbn [norm pdu_len]; rewrite len_cons; pose proof (len_nonneg data); lia]. split; [|reflexivity].
    unfold valid. cbn [norm validb]. rewrite Hsap. unfold in_range. lia. }
  destruct (ptype =? 14) eqn:E14.
  { destruct info as [|q data]; [left; reflexivity|]. left. pose proof (byte_land15 q).
    split; [|cbn [norm pdu_len]; rewrite len_cons; pose proof (len_nonneg data); lia]. split; [|reflexivity].
    unfold valid. cbn [norm validb]. rewrite Hsap. unfold in_range. lia. }
  left. split; [|cbn [norm pdu_len]; lia]. split; [|reflexivity]. unfold valid. cbn [norm validb].
  rewrite ptype_alt by assumption. fold ptype.
  replace ((ptype =? 11) || (ptype =? 15)) with true by lia.
  apply andb_true_iff in Hsap. destruct Hsap as [S1 S2]. rewrite S1, S2. cbn [andb]. apply bytes_okb_spec, Hi.
Qed.

(* ---------------------------------------------------------------- aggregates *)
Definition member_ok (q : pdu) : Prop := Inv q /\ pdu_len (norm q) <= 65535.

Lemma sub_w_spec w : bytes_ok w ->
  match sub_w w with
  | Ok p => Inv p /\ pdu_len (norm p) <= len w
  | Err DecodeError => True
  | _ => False
  end.
Proof.
  intro Hw. pose proof (dec_w_spec (fun _ => Err DecodeError) w Hw) as H. unfold sub_w.
  destruct (dec_w (fun _ : list Z => Err DecodeError) w) as [p|e|c|].
  - destruct H as [H|H]; [exact H | discriminate H].
  - destruct H as [->|H]; [exact I | injection H as <-; exact I].
  - discriminate H.
  - discriminate H.
Qed.

Lemma agf_w_spec : forall fuel w acc, bytes_ok w -> len w <= Z.of_nat fuel -> Forall member_ok acc ->
  match agf_w fuel w acc with
  | Ok l => Forall member_ok l
  | Err DecodeError => True
  | _ => False
  end.
Proof.
  induction fuel as [|f IH]; intros w acc Hw Hf Hacc.
  - destruct w as [|h r]; [exact Hacc|]. rewrite len_cons in Hf. pose proof (len_nonneg r). lia.
  - destruct w as [|h [|l rest]]; cbn [agf_w]; [exact Hacc | exact I |].
    pose proof (byte_of _ _ Hw) as Hh. pose proof (byte_of _ _ (bytes_tl _ _ Hw)) as Hl.
    pose proof (bytes_tl _ _ (bytes_tl _ _ Hw)) as Hr. rewrite len2 in Hf. pose proof (len_nonneg rest) as Hn.
    set (n := h * 256 + l). assert (Hn0 : 0 <= n <= 65535) by (unfold n; lia).
    destruct (n >? len rest) eqn:E; [exact I|].
    pose proof (sub_w_spec (take n rest) (bytes_ok_take _ _ Hr)) as Hs.
    rewrite len_take in Hs by lia.
    destruct (sub_w (take n rest)) as [p|e|c|]; cbn [bind]; try exact Hs.
    apply IH; [apply bytes_ok_drop, Hr | rewrite len_drop by lia; lia |].
    apply Forall_app. split; [exact Hacc|]. constructor; [|constructor]. destruct Hs. split; [assumption | lia].
Qed.

Lemma is_agf_norm q : is_agf (norm q) = is_agf q. Proof. destruct q; reflexivity. Qed.

Theorem decode_w_spec w : bytes_ok w ->
  match decode_w w with
  | Ok p => valid (norm p)
  | Err DecodeError => True
  | _ => False
  end.
Proof.
  intro Hw. pose proof (dec_w_spec agfdec_w w Hw) as H. unfold decode_w.
  assert (Hagf : match agfdec_w w with Ok p => valid (norm p) | Err DecodeError => True | _ => False end).
  { destruct w as [|a [|b info]]; [exact I | exact I |]. unfold agfdec_w.
    destruct (negb (Z.shiftr a 2 =? 0) || negb (Z.land b 63 =? 0)) eqn:Z0; [exact I|].
    pose proof (agf_w_spec (Z.to_nat (len info)) info [] (bytes_tl _ _ (bytes_tl _ _ Hw))) as Ha.
    pose proof (len_nonneg info). specialize (Ha ltac:(lia) (Forall_nil _)).
    destruct (agf_w (Z.to_nat (len info)) info []) as [l|e|c|]; cbn [bind]; try exact Ha.
    unfold valid. cbn [norm validb]. replace ((Z.shiftr a 2 =? 0) && (Z.land b 63 =? 0)) with true by lia. cbn [andb].
    apply forallb_forall. intros q Hq. apply in_map_iff in Hq. destruct Hq as (q0 & <- & Hq0).
    rewrite Forall_forall in Ha. destruct (Ha q0 Hq0) as [[Hv Hna] Hl].
    unfold valid in Hv. rewrite Hv, is_agf_norm, Hna. cbn [negb andb]. lia. }
  destruct (dec_w agfdec_w w) as [p|e|c|].
  - destruct H as [[[Hv _] _]|H]; [exact Hv | rewrite H in Hagf; exact Hagf].
  - destruct H as [->|H]; [exact I | rewrite H in Hagf; exact Hagf].
  - rewrite H in Hagf. exact Hagf.
  - rewrite H in Hagf. exact Hagf.
Qed.

(* ---------------------------------------------------------------- decode is total *)
Theorem decode_total data off size : 0 <= off -> bytes_ok data ->
  (exists p, decode data off size = Ok p) \/ decode data off size = Err DecodeError.
Proof.
  intros Ho Hd. rewrite decode_char by assumption.
  destruct ((off + size >? len data) || (size <? 2)); [right; reflexivity|].
  assert (Hs : bytes_ok (slice data off (off + size))).
  { rewrite slice_eq by lia. apply bytes_ok_take. apply bytes_ok_drop, Hd. }
  pose proof (decode_w_spec _ Hs) as H.
  destruct (decode_w (slice data off (off + size))) as [p|e|c|]; try contradiction.
  - left. exists p. reflexivity.
  - destruct e; try contradiction. right. reflexivity.
Qed.

Theorem decode_valid data off size p : 0 <= off -> bytes_ok data -> decode data off size = Ok p -> valid (norm p).
Proof.
  intros Ho Hd. rewrite decode_char by assumption.
  destruct ((off + size >? len data) || (size <? 2)); [discriminate|].
  assert (Hs : bytes_ok (slice data off (off + size))).
  { rewrite slice_eq by lia. apply bytes_ok_take. apply bytes_ok_drop, Hd. }
  pose proof (decode_w_spec _ Hs) as H. intro E. rewrite E in H. exact H.
Qed.

(* ---------------------------------------------------------------- re-encoding *)
Lemma emapM_ext {A B} (f g : A -> eres B) l : (forall x, In x l -> f x = g x) -> emapM f l = emapM g l.
Proof. induction l as [|x r IH]; intro H; [reflexivity|]. rewrite !emapM_cons, (H x (or_introl eq_refl)).
  rewrite IH by (intros; apply H; right; assumption). reflexivity. Qed.
Lemma emapM_map {A B C} (f : B -> eres C) (g : A -> B) l : emapM f (map g l) = emapM (fun x => f (g x)) l.
Proof. induction l as [|x r IH]; [reflexivity|]. cbn [map]. rewrite !emapM_cons, IH. reflexivity. Qed.

Lemma optb_tlv_norm o mk : optb_tlv (norm_optb o) mk = optb_tlv o mk.
Proof. destruct o as [[|x b]|]; reflexivity. Qed.
Lemma optb_len_norm_eq o : optb_len (norm_optb o) = optb_len o.
Proof. destruct o as [[|x b]|]; reflexivity. Qed.

Theorem encode_norm : forall p, encode (norm p) = encode p.
Proof.
  induction p as [d s ps IH | p Hp] using pdu_ind'.
  - cbn [norm encode]. rewrite emapM_map. rewrite (emapM_ext (fun x => encode (norm x)) encode).
    + reflexivity.
    + rewrite Forall_forall in IH. exact IH.
  - destruct p; try discriminate Hp; cbn [norm encode]; rewrite ?optb_tlv_norm; reflexivity.
Qed.

Theorem norm_idem : forall p, norm (norm p) = norm p.
Proof.
  induction p as [d s ps IH | p Hp] using pdu_ind'.
  - cbn [norm]. f_equal. rewrite map_map. apply map_ext_in. rewrite Forall_forall in IH. exact IH.
  - destruct p; try discriminate Hp; cbn [norm]; try reflexivity.
    + destruct sn as [[|x b]|]; reflexivity.
    + destruct ecpk as [[|x b]|]; destruct rn as [[|y c]|]; reflexivity.
Qed.

(* a decoded PDU re-encodes, the encoding has the reported length, and it decodes to an equal PDU
   (equal up to norm: an empty service name / ECPK / RN is not encoded and reads back as absent) *)
Theorem decode_reencode data off size p : 0 <= off -> bytes_ok data -> decode data off size = Ok p ->
  exists b', encode p = EOk b' /\ pdu_len p = len b' /\ decode b' 0 (len b') = Ok (norm p).
Proof.
  intros Ho Hd E. pose proof (decode_valid data off size p Ho Hd E) as Hv.
  destruct (decode_encode (norm p) Hv) as (b' & He & Hdec).
  rewrite encode_norm in He. exists b'. split; [exact He|]. split; [apply len_encode, He | exact Hdec].
Qed.

(* in terms of Python's == on PDUs (equality of the encodings): re-encoding the re-decoded PDU gives the same bytes *)
Corollary decode_reencode_eq data off size p : 0 <= off -> bytes_ok data -> decode data off size = Ok p ->
  exists b' p', encode p = EOk b' /\ decode b' 0 (len b') = Ok p' /\ encode p' = encode p.
Proof.
  intros Ho Hd E. destruct (decode_reencode data off size p Ho Hd E) as (b' & He & _ & Hdec).
  exists b', (norm p). split; [exact He|]. split; [exact Hdec | apply encode_norm].
Qed.
