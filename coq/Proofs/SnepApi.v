(* C06 - which connection the requests of one SnepClient object travel on. *)
From Coq Require Import ZArith List Bool Lia.
From NV Require Import Base.Result Base.Bytes Base.PyPrims Model.Snep.
Import ListNotations.
Open Scope Z_scope.

Lemma api_run_app c a b :
  api_run c (a ++ b) = (fst (api_run (fst (api_run c a)) b), snd (api_run c a) ++ snd (api_run (fst (api_run c a)) b)).
Proof.
  revert c. induction a as [|x a IH]; intro c; cbn [app api_run fst snd].
  - destruct (api_run c b); reflexivity.
  - rewrite IH. cbn [fst snd]. rewrite app_assoc. reflexivity.
Qed.

(* requests on a connected object stay on that connection, whatever the flag was *)
Lemma api_requests_connected : forall ops s rel,
  api_run {| o_sock := Some s; o_release := rel |} (map ApiRequest ops) =
  ({| o_sock := Some s; o_release := match ops with [] => rel | _ => false end |}, map ActRequest ops).
Proof.
  induction ops as [|op ops IH]; intros s rel; [reflexivity|].
  cbn [map api_run api_step o_sock o_release fst snd app]. rewrite IH. cbn [fst snd].
  destruct ops; reflexivity.
Qed.

(* an explicit session: connect(s), requests, close() - after ANY earlier history (any flag, with or
   without an open connection): one connection to s carrying exactly these requests *)
Theorem api_session_routed c s ops :
  snd (api_run c (ApiConnect s :: map ApiRequest ops ++ [ApiClose])) =
  snd (api_close c) ++ ActConnect s :: map ActRequest ops ++ [ActClose] /\
  o_sock (fst (api_run c (ApiConnect s :: map ApiRequest ops ++ [ApiClose]))) = None.
Proof.
  cbn [api_run api_step fst snd]. rewrite api_run_app, api_requests_connected. cbn [fst snd api_run api_step api_close o_sock].
  split; [|reflexivity]. rewrite <- !app_assoc. cbn [app]. rewrite ?app_nil_r. reflexivity.
Qed.

(* a one-shot request (no connection open): its own connection to the default server *)
Theorem api_oneshot_routed rel op :
  api_step {| o_sock := None; o_release := rel |} (ApiRequest op) =
  ({| o_sock := None; o_release := true |}, [ActConnect DEFAULT_SERVICE; ActRequest op; ActClose]).
Proof. reflexivity. Qed.
