(* C18 - the explicit fuel of the model is no restriction: when terminate() is supplied and its
   answer stream ends in true, [fuel] and [inner] larger than the stream never produce Hang. *)
From Coq Require Import ZArith List Bool Arith Lia.
From NV Require Import Model.Connect Proofs.ConnectSense Proofs.Connect.
Import ListNotations.

Definition st_le (s' s : st) : Prop := length (s_term s') <= length (s_term s) /\ s_termd s' = s_termd s.
Lemma st_le_refl s : st_le s s. Proof. split; auto. Qed.
Lemma st_le_trans a b c : st_le a b -> st_le b c -> st_le a c.
Proof. intros [? ?] [? ?]. split; [lia | congruence]. Qed.

Lemma poll_term_st has s v l s' : poll_term has s = (v, l, s') ->
  st_le s' s /\ (has = true -> s_termd s = true -> v = false -> length (s_term s') < length (s_term s)).
Proof.
  unfold poll_term. destruct has.
  - destruct (s_term s) as [|x r] eqn:E; cbn [hd_tl]; intro H; inversion H; subst; cbn; unfold st_le; cbn; rewrite ?E; cbn.
    + split; [auto|]. intros _ Ht Hv. congruence.
    + split; [split; [lia|reflexivity]|]. intros; lia.
  - intro H; inversion H; subst. split; [apply st_le_refl|]. discriminate.
Qed.

Ltac same_term_tac := intro H; inversion H; subst; split; reflexivity.
Lemma cb_value_st user d s v l s' : cb_value user d s = (v, l, s') -> st_le s' s.
Proof. unfold cb_value. destruct user; [destruct (hd_tl (s_cbs s) VTrue)|]; same_term_tac. Qed.
Lemma pop_tagact_st s v l s' : pop_tagact s = (v, l, s') -> st_le s' s.
Proof. unfold pop_tagact. destruct (hd_tl _ _). same_term_tac. Qed.
Lemma pop_present_st s v l s' : pop_present s = (v, l, s') -> st_le s' s.
Proof. unfold pop_present. destruct (hd_tl _ _). same_term_tac. Qed.
Lemma pop_llcact_st s v l s' : pop_llcact s = (v, l, s') -> st_le s' s.
Proof. unfold pop_llcact. destruct (hd_tl _ _). same_term_tac. Qed.
Lemma pop_llcrun_st s v l s' : pop_llcrun s = (v, l, s') -> st_le s' s.
Proof. unfold pop_llcrun. destruct (hd_tl _ _). same_term_tac. Qed.
Lemma pop_emulate_st s v l s' : pop_emulate s = (v, l, s') -> st_le s' s.
Proof. unfold pop_emulate. destruct (hd_tl _ _). same_term_tac. Qed.
Lemma pop_card_st s v l s' : pop_card s = (v, l, s') -> st_le s' s.
Proof. unfold pop_card. destruct (hd_tl _ _). same_term_tac. Qed.
Lemma do_sense_st ts iters s r l s' : do_sense ts iters s = (r, l, s') -> st_le s' s /\ r <> Hang.
Proof.
  unfold do_sense. destruct (hd_tl (s_sense s) []) as [tb rest].
  destruct (sense true (s_ncall s) ts iters tb None) as [[res l1] st0] eqn:E. intro H; inversion H; subst.
  split; [split; reflexivity|]. exact (proj1 (sense_log _ _ _ _ _ _ _ _ _ E)).
Qed.
Lemma do_listen_st t s r l s' : do_listen t s = (r, l, s') -> st_le s' s /\ r <> Hang.
Proof.
  unfold do_listen. destruct (listen_calls_driver t).
  - destruct (hd_tl (s_listen s) LNone) as [o rest].
    destruct (listen true (S (s_nlisten s)) t o None) as [[res l1] st0] eqn:E. intro H; inversion H; subst.
    split; [split; reflexivity|]. exact (proj1 (listen_log _ _ _ _ _ _ _ _ E)).
  - destruct (listen true (S (s_nlisten s)) t LNone None) as [[res l1] st0] eqn:E. intro H; inversion H; subst.
    split; [apply st_le_refl|]. exact (proj1 (listen_log _ _ _ _ _ _ _ _ E)).
Qed.

Ltac st_chain :=
  repeat match goal with H : st_le _ _ /\ _ |- _ => destruct H end;
  first [ assumption | apply st_le_refl
        | eapply st_le_trans; [eassumption|]; st_chain ].

(* a loop that polls terminate() once per pass *)
Definition can_run (has : bool) (fuel : nat) (s : st) : Prop :=
  has = true /\ s_termd s = true /\ length (s_term s) < fuel.

Lemma presence_loop_st : forall fuel has s h l s', presence_loop fuel has s = (h, l, s') ->
  st_le s' s /\ (can_run has fuel s -> h <> HoldHang).
Proof.
  induction fuel as [|f IH]; intros has s h l s' H; cbn [presence_loop] in H.
  - apply ret_inv in H. destruct H as (-> & _ & ->). split; [apply st_le_refl|]. intros (_ & _ & Hl). lia.
  - minv_bind H t l1 s1 l2 H1 H2. apply poll_term_st in H1. destruct H1 as [L1 D1].
    destruct t.
    + apply ret_inv in H2. destruct H2 as (-> & _ & ->). split; [exact L1 | discriminate].
    + minv_bind H2 u l3 s3 l4 H3 H4. apply emit_inv in H3. destruct H3 as [_ ->].
      minv_bind H4 p l5 s5 l6 H5 H6. apply pop_present_st in H5.
      assert (L5 : st_le s5 s) by (eapply st_le_trans; eauto).
      destruct p.
      * apply IH in H6. destruct H6 as [L6 N6]. split; [eapply st_le_trans; eauto|].
        intros (Hh & Ht & Hl). apply N6. destruct H5 as [a b], L1 as [c d]. repeat split; auto; try congruence.
        specialize (D1 Hh Ht eq_refl). lia.
      * apply ret_inv in H6. destruct H6 as (-> & _ & ->). split; [exact L5 | discriminate].
      * minv_bind H6 u2 l7 s7 l8 H7 H8. apply emit_inv in H7. destruct H7 as [_ ->]. apply ret_inv in H8.
        destruct H8 as (-> & _ & ->). split; [exact L5 | discriminate].
      * minv_bind H6 u2 l7 s7 l8 H7 H8. apply emit_inv in H7. destruct H7 as [_ ->]. apply ret_inv in H8.
        destruct H8 as (-> & _ & ->). split; [exact L5 | discriminate].
Qed.

Lemma card_loop_st : forall fuel has s h l s', card_loop fuel has s = (h, l, s') ->
  st_le s' s /\ (can_run has fuel s -> h <> HoldHang).
Proof.
  induction fuel as [|f IH]; intros has s h l s' H; cbn [card_loop] in H.
  - apply ret_inv in H. destruct H as (-> & _ & ->). split; [apply st_le_refl|]. intros (_ & _ & Hl). lia.
  - minv_bind H t l1 s1 l2 H1 H2. apply poll_term_st in H1. destruct H1 as [L1 D1].
    destruct t.
    + apply ret_inv in H2. destruct H2 as (-> & _ & ->). split; [exact L1 | discriminate].
    + minv_bind H2 u l3 s3 l4 H3 H4. apply emit_inv in H3. destruct H3 as [_ ->].
      minv_bind H4 p l5 s5 l6 H5 H6. apply pop_card_st in H5.
      assert (L5 : st_le s5 s) by (eapply st_le_trans; eauto).
      assert (R : forall h l s', card_loop f has s5 = (h, l, s') -> st_le s' s /\ (can_run has (S f) s -> h <> HoldHang)).
      { intros hh ll ss HH. apply IH in HH. destruct HH as [L6 N6]. split; [eapply st_le_trans; eauto|].
        intros (Hh & Ht & Hl). apply N6. destruct H5 as [a b], L1 as [c d]. repeat split; auto; try congruence.
        specialize (D1 Hh Ht eq_refl). lia. }
      destruct p.
      * minv_bind H6 u2 l7 s7 l8 H7 H8. apply emit_inv in H7. destruct H7 as [_ ->]. eapply R; eauto.
      * apply ret_inv in H6. destruct H6 as (-> & _ & ->). split; [exact L5 | discriminate].
      * eapply R; eauto.
      * minv_bind H6 u2 l7 s7 l8 H7 H8. apply emit_inv in H7. destruct H7 as [_ ->]. apply ret_inv in H8.
        destruct H8 as (-> & _ & ->). split; [exact L5 | discriminate].
      * minv_bind H6 u2 l7 s7 l8 H7 H8. apply emit_inv in H7. destruct H7 as [_ ->]. apply ret_inv in H8.
        destruct H8 as (-> & _ & ->). split; [exact L5 | discriminate].
Qed.

Lemma run_polls_st : forall n has s b l s', run_polls n has s = (b, l, s') -> st_le s' s.
Proof.
  induction n as [|n IH]; intros has s b l s' H; cbn [run_polls] in H.
  - apply ret_inv in H. destruct H as (_ & _ & ->). apply st_le_refl.
  - minv_bind H t l1 s1 l2 H1 H2. apply poll_term_st in H1. destruct H1 as [L1 _]. destruct t.
    + apply ret_inv in H2. destruct H2 as (_ & _ & ->). exact L1.
    + apply IH in H2. eapply st_le_trans; eauto.
Qed.

(* symbolic execution keeping the facts about the oracle state *)
Ltac minv_st H :=
  lazymatch type of H with
  | bind _ _ _ = _ =>
    let a := fresh "a" in let l1 := fresh "l" in let s1 := fresh "s" in let l2 := fresh "l" in
    let H1 := fresh "H" in let H2 := fresh "H" in let E := fresh "E" in
    apply bind_inv in H; destruct H as (a & l1 & s1 & l2 & H1 & H2 & E); cbv beta zeta in H2;
    minv_st H1; minv_st H2
  | ret _ _ = _ => apply ret_inv in H; destruct H as (? & ? & ?)
  | emit _ _ = _ => apply emit_inv in H; destruct H as (? & ?)
  | poll_term _ _ = _ => apply poll_term_st in H; destruct H as (? & ?)
  | cb_value _ _ _ = _ => apply cb_value_st in H
  | pop_tagact _ = _ => apply pop_tagact_st in H
  | pop_present _ = _ => apply pop_present_st in H
  | pop_llcact _ = _ => apply pop_llcact_st in H
  | pop_llcrun _ = _ => apply pop_llcrun_st in H
  | pop_emulate _ = _ => apply pop_emulate_st in H
  | pop_card _ = _ => apply pop_card_st in H
  | do_sense _ _ _ = _ => apply do_sense_st in H; destruct H as (? & ?)
  | do_listen _ _ = _ => apply do_listen_st in H; destruct H as (? & ?)
  | presence_loop _ _ _ = _ => apply presence_loop_st in H; destruct H as (? & ?)
  | card_loop _ _ _ = _ => apply card_loop_st in H; destruct H as (? & ?)
  | run_polls _ _ _ = _ => apply run_polls_st in H
  | (if ?c then _ else _) _ = _ => let E := fresh "E" in destruct c eqn:E; minv_st H
  | (match ?x with _ => _ end) _ = _ => let E := fresh "E" in destruct x eqn:E; minv_st H
  | _ => idtac
  end.

Definition block_st (fuel : nat) (has : bool) (s s' : st) (r : bres) : Prop :=
  st_le s' s /\ (can_run has fuel s -> r <> BHang).

(* the hold loop is entered in a state that is not larger than the initial one *)
Ltac hang_tac :=
  match goal with
  | Hc : can_run ?has ?fuel ?s, Hl : can_run ?has ?fuel ?sk -> ?h <> ?h |- _ =>
    exfalso; apply Hl; [|reflexivity];
    let L := fresh "L" in assert (L : st_le sk s) by st_chain;
    destruct Hc as (? & ? & ?); destruct L as [? ?]; repeat split; auto; try congruence; try lia
  end.

Ltac block_st_tac :=
  subst; split; [st_chain | let Hc := fresh "Hc" in intro Hc; try discriminate; try congruence; try hang_tac].

Lemma rdwr_connect_st fuel has rr s r l s' : rdwr_connect fuel has rr s = (r, l, s') -> block_st fuel has s s' r.
Proof. unfold rdwr_connect, block_st. intro H. minv_st H; block_st_tac. Qed.

Lemma card_connect_st fuel has cr s r l s' : card_connect fuel has cr s = (r, l, s') -> block_st fuel has s s' r.
Proof. unfold card_connect, block_st. intro H. minv_st H; block_st_tac. Qed.

Lemma llcp_role_st has o m s x l s' : llcp_role has o m s = (x, l, s') -> st_le s' s /\ x <> Some BHang.
Proof. unfold llcp_role. intro H. minv_st H; subst; (split; [st_chain | discriminate]). Qed.

Lemma llcp_connect_st fuel has o s r l s' : llcp_connect has o s = (r, l, s') -> block_st fuel has s s' r.
Proof.
  unfold llcp_connect, block_st. intro H. minv_bind H x1 l1 s1 l2 H1 H2. apply llcp_role_st in H1. destruct H1 as [L1 N1].
  destruct x1 as [b|].
  - apply ret_inv in H2. destruct H2 as (-> & _ & ->). split; [exact L1|]. intros _ E. apply N1. congruence.
  - minv_bind H2 x2 l3 s3 l4 H3 H4. apply llcp_role_st in H3. destruct H3 as [L3 N3].
    destruct x2; apply ret_inv in H4; destruct H4 as (-> & _ & ->); (split; [eapply st_le_trans; eauto|]).
    + intros _ E. apply N3. congruence.
    + discriminate.
Qed.

Lemma run_block_st fuel has (m : option (M bres)) s r l s' :
  (forall f, m = Some f -> forall s r l s', f s = (r, l, s') -> block_st fuel has s s' r) ->
  run_block m s = (r, l, s') -> block_st fuel has s s' r.
Proof.
  intros Hf H. destruct m as [f|]; cbn in H.
  - eapply Hf; eauto.
  - apply ret_inv in H. destruct H as (-> & _ & ->). split; [apply st_le_refl | discriminate].
Qed.

Lemma can_run_le has fuel s s1 : can_run has fuel s -> st_le s1 s -> can_run has fuel s1.
Proof. intros (a & b & c) [d e]. repeat split; auto; try congruence; lia. Qed.

Lemma main_loop_no_hang inner a : forall fuel s r l s',
  main_loop fuel inner true a s = (r, l, s') ->
  s_termd s = true -> length (s_term s) < fuel -> length (s_term s) < inner -> r <> Hang.
Proof.
  induction fuel as [|f IH]; intros s r l s' H Ht Hf Hi; [lia|]. cbn [main_loop] in H.
  minv_bind H t l1 s1 l2 H1 H2. apply poll_term_st in H1. destruct H1 as [L1 D1].
  destruct t.
  { apply ret_inv in H2. destruct H2 as (-> & _ & _). discriminate. }
  specialize (D1 eq_refl Ht eq_refl).
  assert (C0 : can_run true inner s) by (repeat split; auto).
  assert (C1 : can_run true inner s1) by (eapply can_run_le; eauto).
  minv_bind H2 r1 l3 s3 l4 H3 H4.
  assert (B1 : block_st inner true s1 s3 r1).
  { eapply run_block_st; [|exact H3]. intros f0 Ef. destruct (a_rdwr a); inversion Ef; subst.
    intros; eapply rdwr_connect_st; eauto. }
  destruct B1 as [L3 N3]. specialize (N3 C1).
  destruct r1; try (apply ret_inv in H4; destruct H4 as (-> & _ & _); try discriminate; try apply handle_hang; congruence).
  2:{ apply ret_inv in H4. destruct H4 as (-> & _ & _). destruct e; discriminate. }
  assert (C3 : can_run true inner s3) by (eapply can_run_le; eauto).
  minv_bind H4 r2 l5 s5 l6 H5 H6.
  assert (B2 : block_st inner true s3 s5 r2).
  { eapply run_block_st; [|exact H5]. intros f0 Ef. destruct (a_llcp a); inversion Ef; subst.
    intros; eapply llcp_connect_st; eauto. }
  destruct B2 as [L5 N5]. specialize (N5 C3).
  destruct r2; try (apply ret_inv in H6; destruct H6 as (-> & _ & _); try discriminate; congruence).
  2:{ apply ret_inv in H6. destruct H6 as (-> & _ & _). destruct e; discriminate. }
  assert (C5 : can_run true inner s5) by (eapply can_run_le; eauto).
  minv_bind H6 r3 l7 s7 l8 H7 H8.
  assert (B3 : block_st inner true s5 s7 r3).
  { eapply run_block_st; [|exact H7]. intros f0 Ef. destruct (a_card a); inversion Ef; subst.
    intros; eapply card_connect_st; eauto. }
  destruct B3 as [L7 N7]. specialize (N7 C5).
  destruct r3; try (apply ret_inv in H8; destruct H8 as (-> & _ & _); try discriminate; congruence).
  2:{ apply ret_inv in H8. destruct H8 as (-> & _ & _). destruct e; discriminate. }
  assert (L : st_le s7 s1) by (eapply st_le_trans; [exact L7|]; eapply st_le_trans; eauto).
  destruct L as [La Lb], L1 as [Lc Ld].
  eapply IH; eauto; try congruence; lia.
Qed.

Lemma startup_llcp_st o s x l s' : startup_llcp o s = (x, l, s') -> s' = s.
Proof. unfold startup_llcp. intro H. destruct o as [lo|]; [destruct (l_startup lo)|]; minv H; subst; reflexivity. Qed.
Lemma startup_rdwr_st o s x l s' : startup_rdwr o s = (x, l, s') -> s' = s /\ x <> Hang.
Proof. unfold startup_rdwr. intro H. destruct o as [ro|]; [destruct (r_startup ro)|]; minv H; subst; split; try reflexivity; discriminate. Qed.
Lemma startup_card_st o s x l s' : startup_card o s = (x, l, s') -> s' = s.
Proof.
  unfold startup_card. intro H.
  destruct o as [co|]; [destruct (c_startup co) as [|t|]; [| destruct t|]|]; minv H; subst; reflexivity.
Qed.

Theorem connect_no_hang_proof : forall o fuel inner s r l s',
  o_term o = true -> s_termd s = true -> length (s_term s) < fuel -> length (s_term s) < inner ->
  connect true o fuel inner s = (r, l, s') -> r <> Hang.
Proof.
  intros o fuel inner s r l s' Ho Ht Hf Hi H. unfold connect in H. cbn [negb] in H.
  minv_bind H x l1 s1 l2 H1 H2. apply startup_llcp_st in H1. subst s1.
  minv_bind H2 y l3 s3 l4 H3 H4. apply startup_rdwr_st in H3. destruct H3 as [-> Hy].
  destruct y as [rr|e|]; [| |congruence].
  - minv_bind H4 c l5 s5 l6 H5 H6. apply startup_card_st in H5. subst s5.
    destruct (no_options _).
    + apply ret_inv in H6. destruct H6 as (-> & _ & _). discriminate.
    + rewrite Ho in H6. eapply main_loop_no_hang; eauto.
  - apply ret_inv in H4. destruct H4 as (-> & _ & _). discriminate.
Qed.
