(* C10 - proofs about the packet collector model (Model/Collect.v).
   Part A: collect is total (no Hang, no Crash) for every state, every MIU, both variants.
   Part B: an invariant/emission lemma generic in a PDU predicate P and a socket predicate G:
           every PDU put into the frame satisfies P, the state invariant is kept, and the
           information field of the frame is at most the remote MIU (variant [fixed]).
   Part C: instances - collect_bound, ui_i_payload_bound, send_emsgsize; refutations for [orig]. *)
From Coq Require Import ZArith List Bool Lia ZifyBool.
From NV Require Import Base.Result Base.Bytes Model.Collect.
Import ListNotations.
Open Scope Z_scope.
Ltac Zify.zify_post_hook ::= Z.to_euclidean_division_equations.

(* ------------------------------------------------------------------ small facts *)
Lemma hsize_range p : 2 <= hsize p <= 3.
Proof. unfold hsize. destruct (numbered (pt p)); lia. Qed.
Lemma plen_ge2 p : 2 <= plen p.
Proof. unfold plen. pose proof (hsize_range p). pose proof (len_nonneg (body p)). lia. Qed.
Lemma plen_set_nr p n : plen (set_nr p n) = plen p.
Proof. reflexivity. Qed.

Lemma agf_info_nil : agf_info [] = 0. Proof. reflexivity. Qed.
Lemma agf_info_cons p l : agf_info (p :: l) = 2 + plen p + agf_info l.
Proof. unfold agf_info. cbn [map]. rewrite sum_cons. lia. Qed.
Lemma agf_info_app a b : agf_info (a ++ b) = agf_info a + agf_info b.
Proof. unfold agf_info. rewrite map_app, sum_app. reflexivity. Qed.
Lemma agf_info_snoc a p : agf_info (a ++ [p]) = agf_info a + 2 + plen p.
Proof. rewrite agf_info_app, agf_info_cons, agf_info_nil. lia. Qed.
Lemma agf_info_nonneg l : 0 <= agf_info l.
Proof. induction l as [|p l IH]; [rewrite agf_info_nil; lia|]. rewrite agf_info_cons. pose proof (plen_ge2 p). lia. Qed.
Lemma agf_len_snoc a p : agf_len (a ++ [p]) = agf_len a + 2 + plen p.
Proof. unfold agf_len. rewrite agf_info_snoc. lia. Qed.
Lemma agf_info_in p l : In p l -> 2 + plen p <= agf_info l.
Proof.
  induction l as [|q l IH]; [intros []|]. intros [->|H]; rewrite agf_info_cons.
  - pose proof (agf_info_nonneg l). lia.
  - specialize (IH H). pose proof (plen_ge2 q). lia.
Qed.

Ltac lnil := repeat match goal with
  | |- context[len (@nil ?A)] => change (len (@nil A)) with 0
  | H : context[len (@nil ?A)] |- _ => change (len (@nil A)) with 0 in H end.

(* ================================================================== Part A: totality *)
Lemma req_loop_total n : forall q taken miu, (n <= length q)%nat ->
  exists tq rq m, req_loop n q taken miu = Ok (tq, rq, m).
Proof.
  induction n as [|n IH]; intros q taken miu Hn; cbn [req_loop]; [eauto|].
  destruct q as [|r rest]; [cbn in Hn; lia|].
  destruct (3 + len (snd r) >? miu); apply IH; cbn [length] in *; [rewrite app_length; cbn [length]; lia | lia].
Qed.

Lemma sd_dequeue_total thr miu d : exists d' r, sd_dequeue thr miu d = Ok (d', r).
Proof.
  unfold sd_dequeue.
  assert (H : exists d' r,
    (let '(t, rest, m1) := take_res thr (sdres d) miu in
     do x <- req_loop (length (sdreq d)) (sdreq d) [] m1;
     let '(tq, restq, _) := x in Ok (mkSd rest restq (dmpdu d), Some (snl_pdu t tq))) = Ok (d', r)).
  { destruct (take_res thr (sdres d) miu) as [[t rest] m1].
    destruct (req_loop_total (length (sdreq d)) (sdreq d) [] m1 (le_n _)) as (tq & rq & m & E).
    rewrite E. cbn [bind]. eauto. }
  destruct (sdres d) as [|r0 rs]; [destruct (sdreq d) as [|q0 qs]|]; try exact H.
  destruct (dmpdu d) as [|p r]; [eauto|]. destruct (miu >? 0); eauto.
Qed.

Lemma obj_dequeue_total thr miu icv o : exists o' r, obj_dequeue thr miu icv o = Ok (o', r).
Proof.
  destruct o as [a|d]; cbn [obj_dequeue].
  - destruct (sap_dequeue miu icv a) as [a' r]. eauto.
  - destruct (sd_dequeue_total thr miu d) as (d' & r & E). rewrite E. cbn [bind]. eauto.
Qed.

Lemma first_pass_total c thr b miu l : exists l' r, first_pass c thr b miu l = Ok (l', r).
Proof.
  induction l as [|o l IH]; cbn [first_pass]; [eauto|].
  destruct IH as (l' & r & E).
  destruct (Bool.eqb (skind_eqb (obj_mode o) Raw) b).
  - destruct (obj_dequeue_total thr miu 0 o) as (o' & y & Eo). rewrite Eo. cbn [bind].
    destruct y; [eauto|]. rewrite E. cbn [bind]. eauto.
  - rewrite E. cbn [bind]. eauto.
Qed.

Lemma phase1_total c thr miu l : exists l' r, phase1 c thr miu l = Ok (l', r).
Proof.
  unfold phase1. destruct (first_pass_total c thr true miu l) as (l1 & y & E). rewrite E. cbn [bind].
  destruct y; [eauto|]. apply first_pass_total.
Qed.

Lemma agg_for_total c thr M icv l : forall agf miu dn, exists l' agf' miu' dn',
  agg_for c thr M icv l agf miu dn = Ok (l', agf', miu', dn') /\
  ((agf' = agf /\ miu' = miu /\ dn' = dn) \/
   (dn' = false /\ miu' = M - agf_len agf' - 3 /\ agf_len agf + 4 <= agf_len agf')).
Proof.
  induction l as [|o l IH]; intros agf miu dn; cbn [agg_for]; [do 4 eexists; split; [reflexivity|left; auto]|].
  destruct (obj_dequeue_total thr miu icv o) as (o' & y & Eo). rewrite Eo. cbn [bind].
  destruct y as [p|].
  - set (q := maybe_encrypt c p). pose proof (agf_len_snoc agf q) as Hs. pose proof (plen_ge2 q) as Hp.
    destruct (M - agf_len (agf ++ [q]) - 3 <? 0) eqn:Em.
    + do 4 eexists. split; [reflexivity|]. right. repeat split; lia.
    + destruct (IH (agf ++ [q]) (M - agf_len (agf ++ [q]) - 3) false) as (l' & a & m & d & E & H).
      rewrite E. cbn [bind]. do 4 eexists. split; [reflexivity|]. right.
      destruct H as [(-> & -> & ->)|(-> & -> & H)]; repeat split; lia.
  - destruct (IH agf miu dn) as (l' & a & m & d & E & H). rewrite E. cbn [bind].
    do 4 eexists. split; [reflexivity|exact H].
Qed.

Lemma agg_loop_total c v M icv fuel : forall l agf miu,
  (0 < fuel)%nat -> M - agf_len agf < Z.of_nat fuel ->
  exists l' agf' miu', agg_loop fuel c v M icv l agf miu = Ok (l', agf', miu').
Proof.
  induction fuel as [|f IH]; intros l agf miu Hf Hm; [lia|]. cbn [agg_loop].
  destruct (agf_guard v && (miu <? 0)); [eauto|].
  destruct (agg_for_total c (sd_thr v) M icv l agf miu true) as (l' & a & m & d & E & H).
  rewrite E. cbn [bind].
  destruct ((m <? 0) || d) eqn:Ec; [eauto|].
  apply orb_false_iff in Ec. destruct Ec as [Em Ed].
  destruct H as [(_ & _ & ->)|(_ & -> & H)]; [discriminate|].
  apply IH; lia.
Qed.

Theorem collect_v_total v c st : exists st' f, collect_v v c st = Ok (st', f).
Proof.
  unfold collect_v.
  destruct (phase1_total c (sd_thr v) (send_miu c) st) as (l1 & y & E). rewrite E. cbn [bind].
  assert (Hrest : forall l2 p, exists st' f,
    (if negb (send_agf c) then Ok (l2, FOne p) else
       do z <- agg_loop (collect_fuel c) c v (send_miu c) (cfg_icv c) l2 [p] (send_miu c - agf_len [p] - 3);
       let '(l3, agf1, miu1) := z in
       let '(l4, agf2) := if miu1 >=? 0 then ack_for (send_miu c) l3 agf1 else (l3, agf1) in
       match agf2 with [] => Crash IndexErr | [q] => Ok (l4, FOne q) | _ => Ok (l4, FAgf agf2) end) = Ok (st', f)).
  { intros l2 p. destruct (negb (send_agf c)); [eauto|].
    destruct (agg_loop_total c v (send_miu c) (cfg_icv c) (collect_fuel c) l2 [p] (send_miu c - agf_len [p] - 3))
      as (l3 & agf1 & miu1 & El).
    { unfold collect_fuel. lia. }
    { unfold collect_fuel, agf_len. rewrite agf_info_cons, agf_info_nil. pose proof (plen_ge2 p). lia. }
    rewrite El. cbn [bind].
    (* the aggregate is never empty: it starts with p and only grows *)
    assert (Hne : forall fuel l a m l' a' m', a <> [] -> agg_loop fuel c v (send_miu c) (cfg_icv c) l a m = Ok (l', a', m') -> a' <> []).
    { clear. induction fuel as [|f IH]; intros l a m l' a' m' Ha H; cbn [agg_loop] in H; [discriminate|].
      destruct (agf_guard v && (m <? 0)); [inversion H; subst; exact Ha|].
      destruct (agg_for_total c (sd_thr v) (send_miu c) (cfg_icv c) l a m true) as (l1 & a1 & m1 & d1 & E & Hd).
      rewrite E in H. cbn [bind] in H.
      assert (Ha1 : a1 <> []).
      { destruct Hd as [(-> & _)|(_ & _ & Hd)]; [exact Ha|]. intros ->. unfold agf_len in Hd. rewrite agf_info_nil in Hd.
        pose proof (agf_info_nonneg a). lia. }
      destruct ((m1 <? 0) || d1); [inversion H; subst; exact Ha1|]. eapply IH; eauto. }
    assert (Hgrow : forall l a, a <> [] -> snd (ack_for (send_miu c) l a) <> []).
    { clear. induction l as [|o l IH]; intros a Ha; cbn [ack_for]; [exact Ha|].
      destruct (skind_eqb (obj_mode o) Dlc).
      - destruct (obj_sendack o) as [o' [q|]].
        + destruct (send_miu c - agf_len (a ++ [q]) - 3 <? 0); [cbn; destruct a; discriminate|].
          specialize (IH (a ++ [q])). destruct (ack_for (send_miu c) l (a ++ [q])) as [r' a']. cbn in *.
          apply IH. destruct a; discriminate.
        + specialize (IH a Ha). destruct (ack_for (send_miu c) l a) as [r' a']. exact IH.
      - specialize (IH a Ha). destruct (ack_for (send_miu c) l a) as [r' a']. exact IH. }
    assert (H1 : agf1 <> []) by (eapply Hne; [|exact El]; discriminate).
    destruct (miu1 >=? 0).
    - specialize (Hgrow l3 agf1 H1). destruct (ack_for (send_miu c) l3 agf1) as [l4 agf2]. cbn [snd] in Hgrow.
      destruct agf2 as [|q [|q2 r]]; [congruence|eauto|eauto].
    - destruct agf1 as [|q [|q2 r]]; [congruence|eauto|eauto]. }
  destruct y as [p|].
  - destruct (plen p - hsize p >=? send_miu c); [eauto|]. apply Hrest.
  - destruct (ack_pass l1) as [l2 [p|]]; [apply Hrest|eauto].
Qed.

Corollary collect_never_hangs c st : collect c st <> Hang.
Proof. destruct (collect_v_total fixed c st) as (st' & f & E). unfold collect. rewrite E. discriminate. Qed.

(* ================================================================== Part B: invariant and emission *)
(* size a UI / I PDU will have once it is encrypted with an ICV of icv octets *)
Definition esz (icv : Z) (p : pdu) : Z := len (body p) + (if is_ui_i p then icv else 0).
(* the information field collect() may return: the remote MIU; a single encrypted UI / I PDU carries the ICV on top
   ("the receiver must accept them with complete MIU plus ICV size", comment in collect) *)
Definition frame_limit (c : cfg) (f : frame) : Z :=
  send_miu c + match f with FOne p => if is_ui_i p then cfg_icv c else 0 | _ => 0 end.
(* what the theorems assume of the cipher object: encrypt lengthens the data by icv_size octets *)
Definition cipher_ok (c : cfg) : Prop :=
  0 <= cfg_icv c /\ forall k, sec c = Some k -> forall a d, len (encrypt k a d) = len d + icv_size k.

Section Inv.
Variable P : pdu -> Prop.            (* holds of every queued PDU *)
Variable Q : pdu -> Prop.            (* holds of every PDU put into a frame (after encryption) *)
Variable G : skind -> sock -> Prop.
Variable c : cfg.
Hypothesis P_nr : forall s p, G Dlc s -> pt p = PT_I -> P p -> P (set_nr p (rack s)).
Hypothesis P_ack : forall k s, G k s -> P (ack s).
Hypothesis P_snl : forall rs qs, P (snl_pdu rs qs).
Hypothesis G_stable : forall k s s', peer s' = peer s -> addr s' = addr s -> busy s' = busy s -> smiu s' = smiu s ->
  (rack s' = rack s \/ rack s' = (rack s + confs s) mod 16) -> G k s -> G k s'.
Hypothesis Hcipher : cipher_ok c.
Hypothesis Q_enc : forall p, P p -> Q (maybe_encrypt c p).
Hypothesis Q_plain : forall p, P p -> is_ui_i p = false -> Q p.

Definition small (p : pdu) : Prop := P p /\ plen p <= 3 /\ is_ui_i p = false.
Definition sock_inv (k : skind) (s : sock) : Prop := Forall P (sq s) /\ G k s /\ (k = Raw -> sq s = []).
Definition sap_inv (a : sap) : Prop := Forall (sock_inv (skd a)) (socks a) /\ Forall small (slist a).
Definition sd_inv (d : sd) : Prop := Forall small (dmpdu d).
Definition obj_inv (o : sapobj) : Prop := match o with SapN a => sap_inv a | SapD d => sd_inv d end.
(* what a dequeue with budget miu and ICV allowance icv may hand out *)
Definition emitted (icv miu : Z) (p : pdu) : Prop := P p /\ (esz icv p <= miu \/ (plen p <= 3 /\ is_ui_i p = false)).
Definition isack (p : pdu) : Prop := P p /\ plen p = 3 /\ is_ui_i p = false.

Lemma ack_plen s : plen (ack s) = 3.
Proof. unfold ack, plen, hsize, PT_RNR, PT_RR. cbn [pt body]. destruct (busy s); reflexivity. Qed.
Lemma ack_not_ui_i s : is_ui_i (ack s) = false.
Proof. unfold ack, is_ui_i, PT_RNR, PT_RR. cbn [pt]. destruct (busy s); reflexivity. Qed.

Lemma tco_dequeue_spec m icv q q' r : Forall P q -> tco_dequeue (Some m) icv q = (q', r) ->
  Forall P q' /\ match r with Some p => P p /\ esz icv p <= m | None => q' = q end.
Proof.
  intros Hq H. destruct q as [|p q0]; cbn [tco_dequeue] in H; [inversion H; subst; auto|].
  inversion Hq as [|? ? Hp Hq0]; subst.
  destruct ((if is_ui_i p then plen p + icv else plen p) - hsize p >? m) eqn:E; inversion H; subst; [auto|].
  split; [exact Hq0|]. split; [exact Hp|]. unfold plen in E. unfold esz. destruct (is_ui_i p); lia.
Qed.

Lemma G_ackstate k s : G k s -> G k (ackstate s).
Proof. apply G_stable; cbn; auto. Qed.

Lemma dlc_dequeue_spec miu icv s s' r : sock_inv Dlc s -> dlc_dequeue miu icv s = (s', r) ->
  sock_inv Dlc s' /\ forall p, r = Some p -> emitted icv miu p.
Proof.
  intros (Hq & Hg & _) H. unfold dlc_dequeue in H.
  destruct (est s && negb (Bool.eqb (busy_sent s) (busy s))).
  { inversion H; subst. assert (Hg1 : G Dlc (with_busy_sent s (busy s))) by (revert Hg; apply G_stable; cbn; auto).
    split; [repeat split; [exact Hq|exact Hg1|discriminate]|].
    intros p [= <-]. split; [eapply P_ack, Hg1|right; split; [rewrite ack_plen; lia|apply ack_not_ui_i]]. }
  destruct (tco_dequeue (Some miu) icv (sq s)) as [q' o] eqn:Et.
  destruct (tco_dequeue_spec _ _ _ _ _ Hq Et) as (Hq' & Ho).
  destruct o as [p|].
  - destruct Ho as (Hp & Hl).
    set (s1 := with_sq s q') in *.
    assert (I1 : Forall P (sq s1) /\ G Dlc s1) by (split; [exact Hq'|revert Hg; apply G_stable; cbn; auto]).
    set (s2 := if pt p =? PT_FRMR then shutdown s1 else s1) in *.
    assert (I2 : Forall P (sq s2) /\ G Dlc s2).
    { unfold s2. destruct (pt p =? PT_FRMR); [|exact I1]. split; [constructor|]. destruct I1 as [_ Hg1]. revert Hg1.
      apply G_stable; cbn; auto. }
    destruct ((pt p =? PT_I) && est s2) eqn:Ei.
    + apply andb_true_iff in Ei. destruct Ei as [Ei _]. apply Z.eqb_eq in Ei.
      set (s3 := if negb (confs s2 =? 0) && negb (rcnt s2 =? rack s2) then ackstate s2 else s2) in *.
      assert (I3 : Forall P (sq s3) /\ G Dlc s3).
      { unfold s3. destruct (negb (confs s2 =? 0) && negb (rcnt s2 =? rack s2)); [|exact I2].
        destruct I2 as [A B]. split; [exact A|apply G_ackstate, B]. }
      inversion H; subst. destruct I3 as [A B]. split; [repeat split; [exact A|exact B|discriminate]|].
      intros p0 [= <-]. split; [apply P_nr; assumption|left; exact Hl].
    + inversion H; subst. destruct I2 as [A B]. split; [repeat split; [exact A|exact B|discriminate]|].
      intros p0 [= <-]. split; [exact Hp|left; exact Hl].
  - subst q'. destruct (est s && negb (confs s =? 0) && (recv_window_slots s =? 0)).
    + inversion H; subst. pose proof (G_ackstate _ s Hg) as Hg1.
      split; [repeat split; [exact Hq|exact Hg1|discriminate]|].
      intros p [= <-]. split; [eapply P_ack, Hg1|right; split; [rewrite ack_plen; lia|apply ack_not_ui_i]].
    + inversion H; subst. split; [repeat split; [exact Hq|exact Hg|discriminate]|]. intros p [=].
Qed.

Lemma sock_dequeue_spec k miu icv s s' r : sock_inv k s -> sock_dequeue k miu icv s = (s', r) ->
  sock_inv k s' /\ forall p, r = Some p -> emitted icv miu p.
Proof.
  intros I H. destruct k; cbn [sock_dequeue] in H.
  - destruct I as (Hq & Hg & Hr). rewrite (Hr eq_refl) in H. cbn [tco_dequeue] in H. inversion H; subst.
    split; [|intros p [=]]. split; [apply Forall_nil|]. split; [|reflexivity]. revert Hg. apply G_stable; cbn; auto.
  - destruct I as (Hq & Hg & _). destruct (tco_dequeue (Some miu) icv (sq s)) as [q' o] eqn:Et.
    destruct (tco_dequeue_spec _ _ _ _ _ Hq Et) as (Hq' & Ho). inversion H; subst.
    split; [repeat split; [exact Hq'| |discriminate]; revert Hg; apply G_stable; cbn; auto|].
    intros p ->. destruct Ho as [A B]. split; [exact A|left; exact B].
  - eapply dlc_dequeue_spec; eauto.
Qed.

Lemma socks_dequeue_spec k miu icv l : forall l' r, Forall (sock_inv k) l ->
  socks_dequeue k miu icv l = (l', r) -> Forall (sock_inv k) l' /\ forall p, r = Some p -> emitted icv miu p.
Proof.
  induction l as [|s l IH]; intros l' r I H; cbn [socks_dequeue] in H.
  - inversion H; subst. split; [constructor|intros p [=]].
  - inversion I as [|? ? Is Il]; subst.
    destruct (sock_dequeue k miu icv s) as [s' o] eqn:Es.
    destruct (sock_dequeue_spec _ _ _ _ _ _ Is Es) as (Is' & Ho).
    destruct o as [p|].
    + inversion H; subst. split; [constructor; assumption|exact Ho].
    + destruct (socks_dequeue k miu icv l) as [r' o'] eqn:Er. inversion H; subst.
      destruct (IH _ _ Il eq_refl) as (A & B). split; [constructor; assumption|exact B].
Qed.

Lemma sap_dequeue_spec miu icv a a' r : sap_inv a -> sap_dequeue miu icv a = (a', r) ->
  sap_inv a' /\ forall p, r = Some p -> emitted icv miu p.
Proof.
  intros (Is & Il) H. unfold sap_dequeue in H.
  destruct (socks_dequeue (skd a) miu icv (socks a)) as [l' o] eqn:Es.
  destruct (socks_dequeue_spec _ _ _ _ _ _ Is Es) as (Is' & Ho).
  destruct o as [p|].
  - inversion H; subst. split; [split; assumption|exact Ho].
  - destruct (slist a) as [|p r0] eqn:El; inversion H; subst.
    + split; [split; [exact Is'|constructor]|intros p [=]].
    + inversion Il as [|? ? [Hp Hs] Hr]; subst. split; [split; assumption|].
      intros p0 [= <-]. split; [exact Hp|right; exact Hs].
Qed.

(* ---- service discovery, repaired threshold 4 ---- *)
Definition req_size (l : list (Z * list Z)) : Z := sum (map (fun r => 3 + len (snd r)) l).
Lemma req_size_app a b : req_size (a ++ b) = req_size a + req_size b.
Proof. unfold req_size. rewrite map_app, sum_app. reflexivity. Qed.
Lemma req_size_nonneg l : 0 <= req_size l.
Proof. induction l as [|r l IH]; unfold req_size in *; cbn [map]; [rewrite sum_nil; lia|].
  rewrite sum_cons. pose proof (len_nonneg (snd r)). lia. Qed.

Lemma take_res_spec rs : forall miu t rest m, take_res 4 rs miu = (t, rest, m) ->
  m = miu - 4 * len t /\ (t = [] \/ 0 <= m).
Proof.
  induction rs as [|r rs IH]; intros miu t rest m H; cbn [take_res] in H.
  - inversion H; subst. lnil. split; [lia|left; reflexivity].
  - destruct (4 <=? miu) eqn:E.
    + destruct (take_res 4 rs (miu - 4)) as [[t0 rest0] m0] eqn:Et. inversion H; subst.
      destruct (IH _ _ _ _ Et) as (A & B). rewrite len_cons. split; [lia|]. right.
      destruct B as [->|B]; [lnil; lia|exact B].
    + inversion H; subst. lnil. split; [lia|left; reflexivity].
Qed.

Lemma req_loop_spec n : forall q taken miu tq rq m, req_loop n q taken miu = Ok (tq, rq, m) ->
  m = miu - (req_size tq - req_size taken) /\ (tq = taken \/ 0 <= m) /\ m <= miu.
Proof.
  induction n as [|n IH]; intros q taken miu tq rq m H; cbn [req_loop] in H.
  - inversion H; subst. split; [lia|]. split; [left; reflexivity|lia].
  - destruct q as [|r rest]; [discriminate|].
    destruct (3 + len (snd r) >? miu) eqn:E.
    + eapply IH; eauto.
    + destruct (IH _ _ _ _ _ _ H) as (A & B & C).
      assert (Hr : req_size (taken ++ [r]) = req_size taken + (3 + len (snd r))).
      { rewrite req_size_app. unfold req_size at 2. cbn [map]. rewrite sum_cons, sum_nil. lia. }
      pose proof (len_nonneg (snd r)).
      split; [lia|]. split; [|lia]. right. destruct B as [->|B]; lia.
Qed.

Lemma len_concat_res rs : len (concat (map res_tlv rs)) = 4 * len rs.
Proof. induction rs as [|r rs IH]; [reflexivity|]. cbn [map concat]. rewrite len_app, IH, len_cons.
  unfold res_tlv. rewrite !len_cons, len_nil. lia. Qed.
Lemma len_concat_req qs : len (concat (map req_tlv qs)) = req_size qs.
Proof. induction qs as [|r qs IH]; [reflexivity|]. cbn [map concat]. rewrite len_app, IH.
  unfold req_size. cbn [map]. rewrite sum_cons. unfold req_tlv. rewrite len_app, !len_cons, len_nil. lia. Qed.
Lemma snl_body_len rs qs : len (body (snl_pdu rs qs)) = req_size qs + 4 * len rs.
Proof. unfold snl_pdu. cbn [body]. rewrite len_app, len_concat_req, len_concat_res. reflexivity. Qed.
Lemma snl_plen rs qs : plen (snl_pdu rs qs) = 2 + req_size qs + 4 * len rs.
Proof. unfold plen. rewrite snl_body_len. change (hsize (snl_pdu rs qs)) with 2. lia. Qed.

Lemma snl_esz icv rs qs : esz icv (snl_pdu rs qs) = req_size qs + 4 * len rs.
Proof. unfold esz. rewrite snl_body_len. change (is_ui_i (snl_pdu rs qs)) with false. cbv iota. lia. Qed.

Lemma sd_dequeue_spec icv miu d d' r : sd_inv d -> sd_dequeue 4 miu d = Ok (d', r) ->
  sd_inv d' /\ forall p, r = Some p -> emitted icv miu p.
Proof.
  intros I H. unfold sd_dequeue in H.
  assert (Hsnl : (let '(t, rest, m1) := take_res 4 (sdres d) miu in
     do x <- req_loop (length (sdreq d)) (sdreq d) [] m1;
     let '(tq, restq, _) := x in Ok (mkSd rest restq (dmpdu d), Some (snl_pdu t tq))) = Ok (d', r) ->
     sd_inv d' /\ forall p, r = Some p -> emitted icv miu p).
  { clear H. intro H. destruct (take_res 4 (sdres d) miu) as [[t rest] m1] eqn:Et.
    destruct (req_loop (length (sdreq d)) (sdreq d) [] m1) as [[[tq rq] m2]| | |] eqn:Eq; cbn [bind] in H; try discriminate.
    inversion H; subst. split; [exact I|]. intros p [= <-]. split; [apply P_snl|].
    destruct (take_res_spec _ _ _ _ _ Et) as (A & B). destruct (req_loop_spec _ _ _ _ _ _ _ Eq) as (C & D & E).
    change (req_size []) with 0 in C. rewrite snl_esz, snl_plen.
    pose proof (req_size_nonneg tq). pose proof (len_nonneg t).
    destruct D as [->|D].
    - change (req_size []) with 0 in *. destruct B as [->|B]; [right; split; [lnil; lia|reflexivity]|left; lia].
    - left. lia. }
  destruct (sdres d) as [|r0 rs] eqn:Er; [destruct (sdreq d) as [|q0 qs] eqn:Eq|]; try (apply Hsnl; exact H).
  destruct (dmpdu d) as [|p r1] eqn:Ed.
  - inversion H; subst. split; [exact I|intros p [=]].
  - destruct (miu >? 0) eqn:Em; inversion H; subst.
    + unfold sd_inv in I. rewrite Ed in I. inversion I as [|? ? [Hp Hs] Hr]; subst.
      split; [exact Hr|]. intros p0 [= <-]. split; [exact Hp|right; exact Hs].
    + split; [exact I|intros p0 [=]].
Qed.

Lemma obj_dequeue_spec miu icv o o' r : obj_inv o -> obj_dequeue 4 miu icv o = Ok (o', r) ->
  obj_inv o' /\ forall p, r = Some p -> emitted icv miu p.
Proof.
  intros I H. destruct o as [a|d]; cbn [obj_dequeue] in H.
  - destruct (sap_dequeue miu icv a) as [a' r'] eqn:E. inversion H; subst. eapply sap_dequeue_spec; eauto.
  - destruct (sd_dequeue 4 miu d) as [[d' r']| | |] eqn:E; cbn [bind] in H; try discriminate. inversion H; subst.
    eapply sd_dequeue_spec; eauto.
Qed.

(* ---- acknowledgements ---- *)
Lemma dlc_sendack_spec k s s' r : sock_inv k s -> dlc_sendack s = (s', r) ->
  sock_inv k s' /\ forall p, r = Some p -> isack p.
Proof.
  intros (Hq & Hg & Hr) H. unfold dlc_sendack in H.
  destruct (est s && negb (confs s =? 0) && negb (rcnt s =? rack s)); inversion H; subst.
  - pose proof (G_ackstate _ s Hg) as Hg1. split; [repeat split; [exact Hq|exact Hg1|exact Hr]|].
    intros p [= <-]. split; [eapply P_ack, Hg1|split; [apply ack_plen|apply ack_not_ui_i]].
  - split; [repeat split; assumption|intros p [=]].
Qed.

Lemma socks_sendack_spec k l : forall l' r, Forall (sock_inv k) l -> socks_sendack l = (l', r) ->
  Forall (sock_inv k) l' /\ forall p, r = Some p -> isack p.
Proof.
  induction l as [|s l IH]; intros l' r I H; cbn [socks_sendack] in H.
  - inversion H; subst. split; [constructor|intros p [=]].
  - inversion I as [|? ? Is Il]; subst. destruct (dlc_sendack s) as [s' o] eqn:Es.
    destruct (dlc_sendack_spec _ _ _ _ Is Es) as (Is' & Ho). destruct o as [p|].
    + inversion H; subst. split; [constructor; assumption|exact Ho].
    + destruct (socks_sendack l) as [r' o'] eqn:Er. inversion H; subst.
      destruct (IH _ _ Il eq_refl) as (A & B). split; [constructor; assumption|exact B].
Qed.

Lemma obj_sendack_spec o o' r : obj_inv o -> obj_sendack o = (o', r) ->
  obj_inv o' /\ forall p, r = Some p -> isack p.
Proof.
  intros I H. destruct o as [a|d]; cbn [obj_sendack] in H.
  - destruct I as [Is Il]. destruct (socks_sendack (socks a)) as [l' r'] eqn:E. inversion H; subst.
    destruct (socks_sendack_spec _ _ _ _ Is E) as (A & B). split; [split; assumption|exact B].
  - inversion H; subst. split; [exact I|intros p [=]].
Qed.

(* ---- encryption of a dequeued PDU ---- *)
Lemma enc_ui_i p : is_ui_i (maybe_encrypt c p) = is_ui_i p.
Proof. unfold maybe_encrypt. destruct (sec c); [|reflexivity]. destruct (is_ui_i p) eqn:E; [|exact E]. exact E. Qed.
Lemma enc_hsize p : hsize (maybe_encrypt c p) = hsize p.
Proof. unfold maybe_encrypt. destruct (sec c); [|reflexivity]. destruct (is_ui_i p); reflexivity. Qed.
Lemma enc_body p : len (body (maybe_encrypt c p)) = esz (cfg_icv c) p.
Proof.
  destruct Hcipher as [_ Hl]. unfold maybe_encrypt, esz, cfg_icv. destruct (sec c) as [k|] eqn:Es.
  - destruct (is_ui_i p); cbn [body]; [apply Hl; reflexivity|lia].
  - destruct (is_ui_i p); lia.
Qed.
(* a PDU of the first loop (dequeued with icv_size=0), then encrypted *)
Definition first_ok (miu : Z) (p : pdu) : Prop :=
  Q p /\ len (body p) <= miu + (if is_ui_i p then cfg_icv c else 0).
Lemma enc_first miu p : 1 <= miu -> emitted 0 miu p -> first_ok miu (maybe_encrypt c p).
Proof.
  intros Hm (Hp & H). split; [apply Q_enc, Hp|]. rewrite enc_body, enc_ui_i. unfold esz in *.
  destruct H as [H|[H Hu]].
  - destruct (is_ui_i p); lia.
  - rewrite Hu. unfold plen in H. pose proof (hsize_range p). lia.
Qed.
(* a PDU of the aggregation loop (dequeued with the ICV allowance), then encrypted *)
Lemma enc_agg miu p : emitted (cfg_icv c) miu p ->
  Q (maybe_encrypt c p) /\ (len (body (maybe_encrypt c p)) <= miu \/ plen (maybe_encrypt c p) <= 3).
Proof.
  intros (Hp & H). split; [apply Q_enc, Hp|]. destruct H as [H|[H Hu]].
  - left. rewrite enc_body. exact H.
  - right. unfold plen in *. rewrite enc_hsize, enc_body. unfold esz. rewrite Hu. lia.
Qed.

(* ---- passes over the SAP table ---- *)
Lemma first_pass_spec b miu l : forall l' r, 1 <= miu -> Forall obj_inv l -> first_pass c 4 b miu l = Ok (l', r) ->
  Forall obj_inv l' /\ forall p, r = Some p -> first_ok miu p.
Proof.
  induction l as [|o l IH]; intros l' r Hm I H; cbn [first_pass] in H.
  - inversion H; subst. split; [constructor|intros p [=]].
  - inversion I as [|? ? Io Il]; subst.
    destruct (Bool.eqb (skind_eqb (obj_mode o) Raw) b).
    + destruct (obj_dequeue 4 miu 0 o) as [[o' y]| | |] eqn:Eo; cbn [bind] in H; try discriminate.
      destruct (obj_dequeue_spec _ _ _ _ _ Io Eo) as (Io' & Hy).
      destruct y as [p|].
      * inversion H; subst. split; [constructor; assumption|]. intros p0 [= <-]. apply enc_first; auto.
      * destruct (first_pass c 4 b miu l) as [[r' y']| | |] eqn:Er; cbn [bind] in H; try discriminate.
        inversion H; subst. destruct (IH _ _ Hm Il eq_refl) as (A & B). split; [constructor; assumption|exact B].
    + destruct (first_pass c 4 b miu l) as [[r' y']| | |] eqn:Er; cbn [bind] in H; try discriminate.
      inversion H; subst. destruct (IH _ _ Hm Il eq_refl) as (A & B). split; [constructor; assumption|exact B].
Qed.

Lemma phase1_spec miu l l' r : 1 <= miu -> Forall obj_inv l -> phase1 c 4 miu l = Ok (l', r) ->
  Forall obj_inv l' /\ forall p, r = Some p -> first_ok miu p.
Proof.
  intros Hm I H. unfold phase1 in H.
  destruct (first_pass c 4 true miu l) as [[l1 y]| | |] eqn:E1; cbn [bind] in H; try discriminate.
  destruct (first_pass_spec _ _ _ _ _ Hm I E1) as (I1 & Hy).
  destruct y as [p|]; [inversion H; subst; split; assumption|].
  eapply first_pass_spec; eauto.
Qed.

Lemma ack_pass_spec l : forall l' r, Forall obj_inv l -> ack_pass l = (l', r) ->
  Forall obj_inv l' /\ forall p, r = Some p -> isack p.
Proof.
  induction l as [|o l IH]; intros l' r I H; cbn [ack_pass] in H.
  - inversion H; subst. split; [constructor|intros p [=]].
  - inversion I as [|? ? Io Il]; subst.
    destruct (skind_eqb (obj_mode o) Dlc).
    + destruct (obj_sendack o) as [o' y] eqn:Eo. destruct (obj_sendack_spec _ _ _ Io Eo) as (Io' & Hy).
      destruct y as [p|].
      * inversion H; subst. split; [constructor; assumption|exact Hy].
      * destruct (ack_pass l) as [r' y'] eqn:Er. inversion H; subst.
        destruct (IH _ _ Il eq_refl) as (A & B). split; [constructor; assumption|exact B].
    + destruct (ack_pass l) as [r' y'] eqn:Er. inversion H; subst.
      destruct (IH _ _ Il eq_refl) as (A & B). split; [constructor; assumption|exact B].
Qed.

(* what one more PDU does to the aggregate when the budget is not negative *)
Lemma append_fits M agf p : 0 <= M - agf_len agf - 3 -> (len (body p) <= M - agf_len agf - 3 \/ plen p <= 3) ->
  agf_info (agf ++ [p]) <= M.
Proof.
  intros Hm H. rewrite agf_info_snoc. unfold agf_len in *. pose proof (hsize_range p).
  destruct H as [H|H]; unfold plen in *; lia.
Qed.

(* the aggregate only grows, by PDUs that satisfy Q, and once it has grown it fits *)
Definition grown (M : Z) (agf agf' : list pdu) : Prop :=
  exists ext, agf' = agf ++ ext /\ Forall Q ext /\ (ext = [] \/ agf_info agf' <= M).
Lemma grown_refl M a : grown M a a.
Proof. exists []. rewrite app_nil_r. auto. Qed.
Lemma grown_step M a p a' : Q p -> agf_info (a ++ [p]) <= M -> grown M (a ++ [p]) a' -> grown M a a'.
Proof.
  intros Hp Hf (ext & -> & He & Hc). exists (p :: ext). rewrite <- app_assoc. split; [reflexivity|].
  split; [constructor; assumption|]. right. destruct Hc as [->|Hc]; [rewrite app_nil_r; exact Hf|].
  rewrite <- app_assoc in Hc. exact Hc.
Qed.
Lemma grown_trans M a b d : grown M a b -> grown M b d -> grown M a d.
Proof.
  intros (e1 & -> & H1 & C1) (e2 & -> & H2 & C2). exists (e1 ++ e2). rewrite app_assoc. split; [reflexivity|].
  split; [apply Forall_app; split; assumption|].
  destruct C2 as [->|C2]; [|right; exact C2]. rewrite !app_nil_r.
  destruct C1 as [->|C1]; [left; reflexivity|right; exact C1].
Qed.

Lemma agg_for_spec M l : forall agf miu dn l' agf' miu' dn', Forall obj_inv l ->
  miu = M - agf_len agf - 3 -> 0 <= miu ->
  agg_for c 4 M (cfg_icv c) l agf miu dn = Ok (l', agf', miu', dn') ->
  Forall obj_inv l' /\ miu' = M - agf_len agf' - 3 /\ grown M agf agf'.
Proof.
  induction l as [|o l IH]; intros agf miu dn l' agf' miu' dn' I Hm H0 H; cbn [agg_for] in H.
  - inversion H; subst. split; [constructor|]. split; [reflexivity|apply grown_refl].
  - inversion I as [|? ? Io Il]; subst miu.
    destruct (obj_dequeue 4 (M - agf_len agf - 3) (cfg_icv c) o) as [[o' y]| | |] eqn:Eo; cbn [bind] in H; try discriminate.
    destruct (obj_dequeue_spec _ _ _ _ _ Io Eo) as (Io' & Hy).
    destruct y as [p|].
    + destruct (enc_agg _ _ (Hy p eq_refl)) as (Hq & Hsz). set (q := maybe_encrypt c p) in *.
      pose proof (append_fits M agf q H0 Hsz) as Hfit.
      destruct (M - agf_len (agf ++ [q]) - 3 <? 0) eqn:Em.
      * inversion H; subst. split; [constructor; assumption|]. split; [reflexivity|].
        eapply grown_step; eauto. apply grown_refl.
      * destruct (agg_for c 4 M (cfg_icv c) l (agf ++ [q]) (M - agf_len (agf ++ [q]) - 3) false) as [[[[r' a] m] d]| | |] eqn:Er;
          cbn [bind] in H; try discriminate. inversion H; subst.
        assert (H1 : 0 <= M - agf_len (agf ++ [q]) - 3) by lia.
        destruct (IH _ _ _ _ _ _ _ Il eq_refl H1 Er) as (A & B & C).
        split; [constructor; assumption|]. split; [exact B|]. eapply grown_step; eauto.
    + destruct (agg_for c 4 M (cfg_icv c) l agf (M - agf_len agf - 3) dn) as [[[[r' a] m] d]| | |] eqn:Er; cbn [bind] in H; try discriminate.
      inversion H; subst. destruct (IH _ _ _ _ _ _ _ Il eq_refl H0 Er) as (A & B & C).
      split; [constructor; assumption|]. split; assumption.
Qed.

Lemma agg_loop_spec M fuel : forall l agf miu l' agf' miu', Forall obj_inv l -> miu = M - agf_len agf - 3 ->
  agg_loop fuel c fixed M (cfg_icv c) l agf miu = Ok (l', agf', miu') ->
  Forall obj_inv l' /\ miu' = M - agf_len agf' - 3 /\ grown M agf agf'.
Proof.
  induction fuel as [|f IH]; intros l agf miu l' agf' miu' I Hm H; cbn [agg_loop] in H; [discriminate|].
  cbn [agf_guard fixed andb sd_thr] in H.
  destruct (miu <? 0) eqn:E0.
  - inversion H; subst. split; [exact I|]. split; [reflexivity|apply grown_refl].
  - destruct (agg_for c 4 M (cfg_icv c) l agf miu true) as [[[[l1 a1] m1] d1]| | |] eqn:Ef; cbn [bind] in H; try discriminate.
    assert (H1 : 0 <= miu) by lia.
    destruct (agg_for_spec _ _ _ _ _ _ _ _ _ I Hm H1 Ef) as (A & B & C).
    destruct ((m1 <? 0) || d1).
    + inversion H; subst. split; [exact A|]. split; [reflexivity|exact C].
    + destruct (IH _ _ _ _ _ _ A B H) as (A' & B' & C'). split; [exact A'|]. split; [exact B'|].
      eapply grown_trans; eauto.
Qed.

Lemma ack_for_spec M l : forall agf l' agf', Forall obj_inv l -> 0 <= M - agf_len agf - 3 ->
  ack_for M l agf = (l', agf') -> Forall obj_inv l' /\ grown M agf agf'.
Proof.
  induction l as [|o l IH]; intros agf l' agf' I H0 H; cbn [ack_for] in H.
  - inversion H; subst. split; [constructor|apply grown_refl].
  - inversion I as [|? ? Io Il]; subst.
    destruct (skind_eqb (obj_mode o) Dlc).
    + destruct (obj_sendack o) as [o' y] eqn:Eo. destruct (obj_sendack_spec _ _ _ Io Eo) as (Io' & Hy).
      destruct y as [p|].
      * destruct (Hy p eq_refl) as (Hp & Hl & Hu). pose proof (Q_plain p Hp Hu) as Hq.
        assert (Hfit : agf_info (agf ++ [p]) <= M) by (apply append_fits; [exact H0|right; lia]).
        destruct (M - agf_len (agf ++ [p]) - 3 <? 0) eqn:Em.
        -- inversion H; subst. split; [constructor; assumption|]. eapply grown_step; eauto. apply grown_refl.
        -- destruct (ack_for M l (agf ++ [p])) as [r' a] eqn:Er. inversion H; subst.
           assert (H1 : 0 <= M - agf_len (agf ++ [p]) - 3) by lia.
           destruct (IH _ _ _ Il H1 Er) as (A & B). split; [constructor; assumption|]. eapply grown_step; eauto.
      * destruct (ack_for M l agf) as [r' a] eqn:Er. inversion H; subst.
        destruct (IH _ _ _ Il H0 Er) as (A & B). split; [constructor; assumption|exact B].
    + destruct (ack_for M l agf) as [r' a] eqn:Er. inversion H; subst.
      destruct (IH _ _ _ Il H0 Er) as (A & B). split; [constructor; assumption|exact B].
Qed.

(* ---- the collector ---- *)
Theorem collect_spec st st' f : 1 <= send_miu c -> Forall obj_inv st -> collect c st = Ok (st', f) ->
  Forall obj_inv st' /\ Forall Q (frame_pdus f) /\ frame_info f <= frame_limit c f.
Proof.
  intros HM I H. unfold collect, collect_v in H. cbn [sd_thr fixed] in H. set (M := send_miu c) in *.
  destruct Hcipher as [Hicv _].
  destruct (phase1 c 4 M st) as [[l1 y]| | |] eqn:E1; cbn [bind] in H; try discriminate.
  destruct (phase1_spec _ _ _ _ HM I E1) as (I1 & Hy).
  (* the part after the first PDU p, which does not fill the MIU *)
  assert (Hrest : forall l2 p, Forall obj_inv l2 -> Q p -> len (body p) <= M ->
    (if negb (send_agf c) then Ok (l2, FOne p) else
       do z <- agg_loop (collect_fuel c) c fixed M (cfg_icv c) l2 [p] (M - agf_len [p] - 3);
       let '(l3, agf1, miu1) := z in
       let '(l4, agf2) := if miu1 >=? 0 then ack_for M l3 agf1 else (l3, agf1) in
       match agf2 with [] => Crash IndexErr | [q] => Ok (l4, FOne q) | _ => Ok (l4, FAgf agf2) end) = Ok (st', f) ->
    Forall obj_inv st' /\ Forall Q (frame_pdus f) /\ frame_info f <= frame_limit c f).
  { clear H. intros l2 p I2 Hp Hl H.
    assert (Hone : frame_info (FOne p) <= frame_limit c (FOne p)).
    { unfold frame_limit. cbn [frame_info]. fold M. destruct (is_ui_i p); lia. }
    destruct (negb (send_agf c)).
    { inversion H; subst. split; [exact I2|]. split; [constructor; [exact Hp|constructor]|exact Hone]. }
    destruct (agg_loop (collect_fuel c) c fixed M (cfg_icv c) l2 [p] (M - agf_len [p] - 3)) as [[[l3 agf1] miu1]| | |] eqn:El;
      cbn [bind] in H; try discriminate.
    destruct (agg_loop_spec _ _ _ _ _ _ _ _ I2 eq_refl El) as (I3 & Hm1 & G1).
    assert (Hfin : exists l4 agf2, (if miu1 >=? 0 then ack_for M l3 agf1 else (l3, agf1)) = (l4, agf2) /\
                    Forall obj_inv l4 /\ grown M [p] agf2).
    { destruct (miu1 >=? 0) eqn:E.
      - destruct (ack_for M l3 agf1) as [l4 agf2] eqn:Ea. exists l4, agf2. split; [reflexivity|].
        assert (H1 : 0 <= M - agf_len agf1 - 3) by lia.
        destruct (ack_for_spec _ _ _ _ _ I3 H1 Ea) as (A & B). split; [exact A|]. eapply grown_trans; eauto.
      - exists l3, agf1. auto. }
    destruct Hfin as (l4 & agf2 & Ef & I4 & (ext & -> & He & Hc)). rewrite Ef in H.
    cbn [app] in H. destruct ext as [|q ext].
    - inversion H; subst. split; [exact I4|]. split; [constructor; [exact Hp|constructor]|exact Hone].
    - inversion H; subst. split; [exact I4|]. split; [constructor; assumption|].
      unfold frame_limit. destruct Hc as [Hc|Hc]; [discriminate|]. cbn [frame_info]. fold M. cbn [app] in Hc. lia. }
  destruct y as [p|].
  - destruct (Hy p eq_refl) as (Hp & Hl).
    destruct (plen p - hsize p >=? M) eqn:Ee.
    + inversion H; subst. split; [exact I1|]. split; [constructor; [exact Hp|constructor]|].
      unfold frame_limit. cbn [frame_info]. fold M. exact Hl.
    + assert (Hb : len (body p) <= M) by (unfold plen in Ee; lia).
      exact (Hrest l1 p I1 Hp Hb H).
  - destruct (ack_pass l1) as [l2 y2] eqn:Ea. destruct (ack_pass_spec _ _ _ I1 Ea) as (I2 & Hy2).
    destruct y2 as [p|].
    + destruct (Hy2 p eq_refl) as (Hp & Hl & Hu).
      assert (Hb : len (body p) <= M) by (unfold plen in Hl; pose proof (hsize_range p); pose proof (len_nonneg (body p)); lia).
      exact (Hrest l2 p I2 (Q_plain p Hp Hu) Hb H).
    + inversion H; subst. split; [exact I2|]. split; [constructor|]. unfold frame_limit. cbn [frame_info]. lia.
Qed.
End Inv.

(* ================================================================== Part C: instances *)
Ltac ptc := unfold PT_SYMM, PT_PAX, PT_AGF, PT_UI, PT_CONNECT, PT_DISC, PT_CC, PT_DM, PT_FRMR, PT_SNL, PT_DPS,
                   PT_I, PT_RR, PT_RNR in *.

(* ---- C1: what the code guarantees of its own queues, and what send()/sendto() guarantee ---- *)
(* cm dsap ssap = the MIU the peer announced (CONNECT / CC) for the data link connection (dsap, ssap) *)
Definition pay_ok (M : Z) (cm : Z -> Z -> Z) (p : pdu) : Prop :=
  (pt p = PT_UI -> len (body p) <= M) /\ (pt p = PT_I -> len (body p) <= cm (da p) (sa p)).
(* a data link connection never has a larger send MIU than the peer announced *)
Definition conn_ok (cm : Z -> Z -> Z) (k : skind) (s : sock) : Prop := k = Dlc -> smiu s <= cm (peer s) (addr s).

(* queued_ok: every queued UI payload is within the link MIU and every queued I payload within the MIU of its
   connection (send_emsgsize below: this is what sendto()/send() establish); send_list and dmpdu hold only
   3-byte PDUs (they only ever receive DM PDUs); raw access point sockets have nothing queued (the property
   excepts them). *)
Definition queued_ok (M : Z) (cm : Z -> Z -> Z) (st : list sapobj) : Prop :=
  Forall (obj_inv (pay_ok M cm) (conn_ok cm)) st.

Lemma pay_nr M cm s p : conn_ok cm Dlc s -> pt p = PT_I -> pay_ok M cm p -> pay_ok M cm (set_nr p (rack s)).
Proof. intros _ _ H. exact H. Qed.
Lemma pay_ack M cm k s : conn_ok cm k s -> pay_ok M cm (ack s).
Proof. intros _. unfold pay_ok, ack. cbn [pt]. ptc. destruct (busy s); split; intro; discriminate. Qed.
Lemma pay_snl M cm rs qs : pay_ok M cm (snl_pdu rs qs).
Proof. unfold pay_ok, snl_pdu. cbn [pt]. ptc. split; intro; discriminate. Qed.
Lemma conn_stable cm k s s' : peer s' = peer s -> addr s' = addr s -> busy s' = busy s -> smiu s' = smiu s ->
  (rack s' = rack s \/ rack s' = (rack s + confs s) mod 16) -> conn_ok cm k s -> conn_ok cm k s'.
Proof. unfold conn_ok. intros -> -> _ -> _ H. exact H. Qed.

(* the PDUs of a frame: as queued, or - UI / I under secure data transfer - longer by the ICV *)
Definition pay_okx (M x : Z) (cm : Z -> Z -> Z) (p : pdu) : Prop :=
  (pt p = PT_UI -> len (body p) <= M + x) /\ (pt p = PT_I -> len (body p) <= cm (da p) (sa p) + x).
Lemma pay_plain M x cm p : 0 <= x -> pay_ok M cm p -> pay_okx M x cm p.
Proof. intros Hx [A B]. split; intro H; [specialize (A H)|specialize (B H)]; lia. Qed.
Lemma pay_enc M cm c p : cipher_ok c -> pay_ok M cm p -> pay_okx M (cfg_icv c) cm (maybe_encrypt c p).
Proof.
  intros [Hx Hl] Hp. unfold maybe_encrypt, cfg_icv in *. destruct (sec c) as [k|] eqn:Es; [|apply pay_plain; [lia|exact Hp]].
  destruct (is_ui_i p); [|apply pay_plain; assumption].
  destruct Hp as [A B]. unfold pay_okx. cbn [pt da sa body]. rewrite (Hl k eq_refl).
  split; intro H; [specialize (A H)|specialize (B H)]; lia.
Qed.

Theorem collect_bound_ok c cm st st' f : cipher_ok c -> 1 <= send_miu c -> queued_ok (send_miu c) cm st ->
  collect c st = Ok (st', f) ->
  queued_ok (send_miu c) cm st' /\ Forall (pay_okx (send_miu c) (cfg_icv c) cm) (frame_pdus f) /\
  frame_info f <= frame_limit c f.
Proof.
  intros Hc HM I H.
  exact (collect_spec (pay_ok (send_miu c) cm) (pay_okx (send_miu c) (cfg_icv c) cm) (conn_ok cm) c
           (pay_nr _ cm) (pay_ack _ cm) (pay_snl _ cm) (conn_stable cm) Hc
           (fun p Hp => pay_enc _ cm c p Hc Hp) (fun p Hp _ => pay_plain _ _ cm p (proj1 Hc) Hp) st st' f HM I H).
Qed.

(* the structural part alone is enough for the frame bound *)
Definition struct_ok (st : list sapobj) : Prop := Forall (obj_inv (fun _ => True) (fun _ _ => True)) st.
Theorem collect_bound_struct c st st' f : cipher_ok c -> 1 <= send_miu c -> struct_ok st -> collect c st = Ok (st', f) ->
  struct_ok st' /\ frame_info f <= frame_limit c f.
Proof.
  intros Hc HM I0 H.
  destruct (collect_spec (fun _ => True) (fun _ => True) (fun _ _ => True) c (fun _ _ _ _ _ => I) (fun _ _ _ => I) (fun _ _ => I)
              (fun _ _ _ _ _ _ _ _ _ => I) Hc (fun _ _ => I) (fun _ _ _ => I) st st' f HM I0 H) as (A & _ & B); auto.
Qed.
Lemma cipher_ok_none M a : cipher_ok (mkCfg M a None).
Proof. split; [cbn; lia|intros k [=]]. Qed.
Lemma frame_limit_none M a f : frame_limit (mkCfg M a None) f = M.
Proof. unfold frame_limit, cfg_icv. cbn [send_miu sec]. destruct f as [|p|l]; try destruct (is_ui_i p); lia. Qed.

(* ---- C2: send()/sendto() refuse what is too large, and keep queued_ok ---- *)
Lemma ldl_sendto_spec M s msg dest s' : ldl_sendto M s msg dest = Ok s' ->
  len msg <= M /\ sq s' = sq s ++ [mkPdu PT_UI dest (addr s) 0 0 msg] /\ peer s' = peer s /\ addr s' = addr s.
Proof.
  unfold ldl_sendto. cbn [state peer smiu sq addr with_smiu with_sq].
  destruct (state s =? ST_SHUTDOWN); [discriminate|].
  destruct (negb (peer s =? 0) && negb (dest =? peer s)); [discriminate|].
  destruct (len msg >? M) eqn:E; [discriminate|]. intros [= <-]. cbn. repeat split; try reflexivity. lia.
Qed.
Lemma ldl_sendto_emsgsize M s msg dest : M < len msg -> forall s', ldl_sendto M s msg dest <> Ok s'.
Proof. intros H s' E. apply ldl_sendto_spec in E. lia. Qed.

Lemma dlc_send_spec s msg s' : dlc_send s msg = Ok s' ->
  len msg <= smiu s /\ sq s' = sq s ++ [mkPdu PT_I (peer s) (addr s) (scnt s) 0 msg] /\
  peer s' = peer s /\ addr s' = addr s /\ smiu s' = smiu s.
Proof.
  unfold dlc_send. destruct (negb (est s)); [destruct (state s =? ST_CLOSE_WAIT); discriminate|].
  destruct (len msg >? smiu s) eqn:E; [discriminate|].
  destruct (send_window_slots s =? 0); [discriminate|]. intros [= <-]. cbn. repeat split; try reflexivity. lia.
Qed.
Lemma dlc_send_emsgsize s msg : smiu s < len msg -> forall s', dlc_send s msg <> Ok s'.
Proof. intros H s' E. apply dlc_send_spec in E. lia. Qed.

Lemma ldl_sendto_keeps M cm s msg dest s' : sock_inv (pay_ok M cm) (conn_ok cm) Ldl s -> ldl_sendto M s msg dest = Ok s' ->
  sock_inv (pay_ok M cm) (conn_ok cm) Ldl s'.
Proof.
  intros (Hq & _ & _) H. destruct (ldl_sendto_spec _ _ _ _ _ H) as (Hl & Hs & _ & _).
  split; [|split; [intro; discriminate|intro; discriminate]].
  rewrite Hs. apply Forall_app. split; [exact Hq|]. constructor; [|constructor].
  unfold pay_ok. cbn [pt body]. ptc. split; [intros _; exact Hl|intro; discriminate].
Qed.
Lemma dlc_send_keeps M cm s msg s' : sock_inv (pay_ok M cm) (conn_ok cm) Dlc s -> dlc_send s msg = Ok s' ->
  sock_inv (pay_ok M cm) (conn_ok cm) Dlc s'.
Proof.
  intros (Hq & Hg & _) H. destruct (dlc_send_spec _ _ _ H) as (Hl & Hs & Hp & Ha & Hm).
  split; [|split; [|intro; discriminate]].
  - rewrite Hs. apply Forall_app. split; [exact Hq|]. constructor; [|constructor].
    unfold pay_ok. cbn [pt body da sa]. ptc. split; [intro; discriminate|intros _]. specialize (Hg eq_refl). lia.
  - intros _. rewrite Hm, Hp, Ha. apply Hg. reflexivity.
Qed.

(* state level: a successful sendto()/send() on any socket of the controller keeps queued_ok *)
Theorem sendto_keeps_queued_ok M cm pre post l1 l2 sl s msg dest s' :
  queued_ok M cm (pre ++ SapN (mkSap Ldl (l1 ++ s :: l2) sl) :: post) -> ldl_sendto M s msg dest = Ok s' ->
  queued_ok M cm (pre ++ SapN (mkSap Ldl (l1 ++ s' :: l2) sl) :: post).
Proof.
  unfold queued_ok. intros I H. apply Forall_app in I. destruct I as [Ipre I]. inversion I as [|? ? Ia Ipost]; subst.
  apply Forall_app. split; [exact Ipre|]. constructor; [|exact Ipost].
  destruct Ia as [Is Il]. cbn [obj_inv sap_inv skd socks slist] in *. split; [|exact Il].
  apply Forall_app in Is. destruct Is as [I1 Is]. inversion Is as [|? ? Iss I2]; subst.
  apply Forall_app. split; [exact I1|]. constructor; [|exact I2]. eapply ldl_sendto_keeps; eauto.
Qed.
Theorem send_keeps_queued_ok M cm pre post l1 l2 sl s msg s' :
  queued_ok M cm (pre ++ SapN (mkSap Dlc (l1 ++ s :: l2) sl) :: post) -> dlc_send s msg = Ok s' ->
  queued_ok M cm (pre ++ SapN (mkSap Dlc (l1 ++ s' :: l2) sl) :: post).
Proof.
  unfold queued_ok. intros I H. apply Forall_app in I. destruct I as [Ipre I]. inversion I as [|? ? Ia Ipost]; subst.
  apply Forall_app. split; [exact Ipre|]. constructor; [|exact Ipost].
  destruct Ia as [Is Il]. cbn [obj_inv sap_inv skd socks slist] in *. split; [|exact Il].
  apply Forall_app in Is. destruct Is as [I1 Is]. inversion Is as [|? ? Iss I2]; subst.
  apply Forall_app. split; [exact I1|]. constructor; [|exact I2]. eapply dlc_send_keeps; eauto.
Qed.
(* llc.connect()/llc.accept(): the send MIU taken from CC/CONNECT (= cm) is clamped to the link MIU *)
Lemma clamp_conn_ok M cm s : smiu s <= cm (peer s) (addr s) -> conn_ok cm Dlc (llc_clamp_miu M s) /\ (smiu (llc_clamp_miu M s) <= M).
Proof. unfold llc_clamp_miu, conn_ok. intro H. destruct (smiu s >? M) eqn:E; cbn [smiu peer addr with_smiu]; (split; [intros _|]); lia. Qed.

(* ---- C3: the pinned code ([orig]) breaks the bound: the two probe witnesses ---- *)
Definition ex_sdres (n : nat) : list (Z * Z) := map (fun i => (Z.of_nat i, 0)) (seq 0 n).
Definition ex_state1 : list sapobj := [SapN (mkSap Raw [] []); SapD (mkSd (ex_sdres 40) [] [])].
Definition ex_ui (n : nat) : pdu := mkPdu PT_UI 16 32 0 0 (repeat 120 n).
Definition ex_ldl (q : list pdu) : sock := mkSock q ST_ESTABLISHED false false 0 0 0 0 0 0 0 128 0 32.
Definition ex_dlc : sock := mkSock [] ST_ESTABLISHED false false 1 1 0 1 0 0 1 128 20 40.
Definition ex_state2 : list sapobj :=
  [SapN (mkSap Raw [] []); SapD (mkSd [] [] []); SapN (mkSap Ldl [ex_ldl [ex_ui 126]] []); SapN (mkSap Dlc [ex_dlc] [])].
Definition info_of (r : res (list sapobj * frame)) : Z := match r with Ok (_, f) => frame_info f | _ => -1 end.

Lemma ex_states_ok : queued_ok 130 (fun _ _ => 128) ex_state1 /\ queued_ok 128 (fun _ _ => 128) ex_state2.
Proof.
  split; unfold queued_ok, ex_state1, ex_state2; repeat constructor; cbn; try discriminate; try lia.
  all: try (intros; discriminate).
Qed.
(* 40 pending SDRES at MIU 130: `while miu_size > 0` packs 33 of them, information field 132 *)
Lemma orig_refuted_sdres : info_of (collect_v orig (mkCfg 130 false None) ex_state1) = 132 /\
                           info_of (collect_v fixed (mkCfg 130 false None) ex_state1) = 128.
Proof. vm_compute. split; reflexivity. Qed.
(* MIU 128, aggregation on: UI with 126 bytes then a "necessary" RR: aggregate of 135 bytes *)
Lemma orig_refuted_agf : info_of (collect_v orig (mkCfg 128 true None) ex_state2) = 135 /\
                         info_of (collect_v fixed (mkCfg 128 true None) ex_state2) = 126.
Proof. vm_compute. split; reflexivity. Qed.
Theorem orig_bound_refuted : exists c cm st st' f, 128 <= send_miu c <= 2175 /\ queued_ok (send_miu c) cm st /\
  collect_v orig c st = Ok (st', f) /\ send_miu c < frame_info f.
Proof.
  destruct (collect_v orig (mkCfg 130 false None) ex_state1) as [[st' f]| | |] eqn:E;
    try (exfalso; assert (H := proj1 orig_refuted_sdres); rewrite E in H; discriminate).
  exists (mkCfg 130 false None), (fun _ _ => 128), ex_state1, st', f. cbn [send_miu].
  split; [lia|]. split; [apply ex_states_ok|]. split; [exact E|].
  assert (H := proj1 orig_refuted_sdres). rewrite E in H. cbn [info_of] in H. lia.
Qed.
