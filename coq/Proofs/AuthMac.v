(* C20: DES ignores key parity bits; lengths of the cipher outputs; what read_with_mac and
   FelicaLite._authenticate return, for every behaviour of the channel. *)
From Coq Require Import ZArith List Bool Lia.
From NV Require Import Base.Result Base.Bytes Base.PyPrims Model.Des Model.FelicaMac.
Import ListNotations.
Open Scope Z_scope.

(* ---- DES key parity ------------------------------------------------------------------------ *)
Lemma testbit_half b m : 0 <= m -> Z.testbit b (m + 1) = Z.testbit (b / 2) m.
Proof.
  intro Hm. change (b / 2) with (b / 2 ^ 1). rewrite <- Z.shiftr_div_pow2 by lia.
  rewrite Z.shiftr_spec by lia. reflexivity.
Qed.

Lemma testbit_of_half a b m : 1 <= m -> a / 2 = b / 2 -> Z.testbit a m = Z.testbit b m.
Proof.
  intros Hm H. replace m with ((m - 1) + 1) by lia. rewrite !testbit_half by lia. rewrite H. reflexivity.
Qed.

(* the 56 bits that PC-1 selects only involve bits 7..1 of every key byte *)
Lemma pc1_parity a0 a1 a2 a3 a4 a5 a6 a7 b0 b1 b2 b3 b4 b5 b6 b7 :
  map (fun b => b / 2) [a0; a1; a2; a3; a4; a5; a6; a7] = map (fun b => b / 2) [b0; b1; b2; b3; b4; b5; b6; b7] ->
  permute PC1 (bits_of_bytes [a0; a1; a2; a3; a4; a5; a6; a7]) = permute PC1 (bits_of_bytes [b0; b1; b2; b3; b4; b5; b6; b7]).
Proof.
  intro H. cbn [map] in H. injection H as H0 H1 H2 H3 H4 H5 H6 H7.
  cbv [permute PC1 bits_of_bytes flat_map byte_bits app map nth pred].
  repeat match goal with
  | |- context [Z.testbit ?a ?m] =>
      match a with
      | a0 => rewrite (testbit_of_half a0 b0 m) by (assumption || lia)
      | a1 => rewrite (testbit_of_half a1 b1 m) by (assumption || lia)
      | a2 => rewrite (testbit_of_half a2 b2 m) by (assumption || lia)
      | a3 => rewrite (testbit_of_half a3 b3 m) by (assumption || lia)
      | a4 => rewrite (testbit_of_half a4 b4 m) by (assumption || lia)
      | a5 => rewrite (testbit_of_half a5 b5 m) by (assumption || lia)
      | a6 => rewrite (testbit_of_half a6 b6 m) by (assumption || lia)
      | a7 => rewrite (testbit_of_half a7 b7 m) by (assumption || lia)
      end
  end.
  reflexivity.
Qed.

Lemma list8 {A} (l : list A) : length l = 8%nat ->
  exists a0 a1 a2 a3 a4 a5 a6 a7, l = [a0; a1; a2; a3; a4; a5; a6; a7].
Proof.
  intro H. do 8 (destruct l as [|? l]; [discriminate|]). destruct l; [|discriminate].
  repeat eexists.
Qed.

Lemma key_schedule_parity k1 k2 : length k1 = 8%nat -> length k2 = 8%nat -> key_equiv k1 k2 ->
  key_schedule (bits_of_bytes k1) = key_schedule (bits_of_bytes k2).
Proof.
  intros H1 H2 He.
  destruct (list8 k1 H1) as (a0 & a1 & a2 & a3 & a4 & a5 & a6 & a7 & ->).
  destruct (list8 k2 H2) as (b0 & b1 & b2 & b3 & b4 & b5 & b6 & b7 & ->).
  unfold key_schedule. rewrite (pc1_parity _ _ _ _ _ _ _ _ _ _ _ _ _ _ _ _ He). reflexivity.
Qed.

Lemma key_equiv_refl k : key_equiv k k. Proof. reflexivity. Qed.
Lemma key_equiv_sym a b : key_equiv a b -> key_equiv b a. Proof. unfold key_equiv; congruence. Qed.
Lemma key_equiv_trans a b c : key_equiv a b -> key_equiv b c -> key_equiv a c. Proof. unfold key_equiv; congruence. Qed.
Lemma key_equiv_length a b : key_equiv a b -> length a = length b.
Proof. unfold key_equiv. intro H. apply (f_equal (@length Z)) in H. rewrite !map_length in H. exact H. Qed.
Lemma key_equivb_spec a b : key_equivb a b = true <-> key_equiv a b.
Proof. unfold key_equivb, key_equiv. apply list_eqb_eq. Qed.

(* the cipher cannot tell two keys apart that differ only in parity bits *)
Lemma tdes_cbc_key_equiv k1 k2 iv d : (16 <= length k1)%nat -> key_equiv k1 k2 ->
  tdes_cbc_encrypt k1 iv d = tdes_cbc_encrypt k2 iv d.
Proof.
  intros Hl He. pose proof (key_equiv_length _ _ He) as Hl2. unfold tdes_cbc_encrypt.
  rewrite (key_schedule_parity (firstn 8 k1) (firstn 8 k2)).
  - rewrite (key_schedule_parity (firstn 8 (skipn 8 k1)) (firstn 8 (skipn 8 k2))); [reflexivity| | |].
    + rewrite firstn_length, skipn_length. lia.
    + rewrite firstn_length, skipn_length. lia.
    + unfold key_equiv in *. rewrite <- !firstn_map, <- !skipn_map, He. reflexivity.
  - rewrite firstn_length. lia.
  - rewrite firstn_length. lia.
  - unfold key_equiv in *. rewrite <- !firstn_map, He. reflexivity.
Qed.

Lemma session_key_equiv k1 k2 rc : (16 <= length k1)%nat -> key_equiv k1 k2 -> session_key k1 rc = session_key k2 rc.
Proof. intros. unfold session_key. apply tdes_cbc_key_equiv; assumption. Qed.

(* ---- lengths ----------------------------------------------------------------------------------- *)
Lemma permute_length t b : length (permute t b) = length t.
Proof. unfold permute. apply map_length. Qed.
Lemma des_core_length ks b : length (des_core ks b) = 64%nat.
Proof. unfold des_core. destruct (rounds ks _ _). rewrite permute_length. reflexivity. Qed.
Lemma bytes_of_bits_64 l : length l = 64%nat -> length (bytes_of_bits l) = 8%nat.
Proof.
  intro H. do 64 (destruct l as [|? l]; [discriminate|]). destruct l; [|discriminate].
  cbn [bytes_of_bits length]. reflexivity.
Qed.
Lemma tdes_block_length k1 k2 b : length (tdes_block k1 k2 b) = 64%nat.
Proof. unfold tdes_block. apply des_core_length. Qed.
Lemma cbc_blocks_length k1 k2 : forall blocks iv, length (cbc_blocks k1 k2 iv blocks) = (8 * length blocks)%nat.
Proof.
  induction blocks as [|b r IH]; intro iv; [reflexivity|].
  cbn [cbc_blocks length]. rewrite app_length, IH, bytes_of_bits_64 by apply tdes_block_length. lia.
Qed.
Lemma chunks8_16 l : length l = 16%nat -> length (chunks8 l) = 2%nat.
Proof.
  intro H. do 16 (destruct l as [|? l]; [discriminate|]). destruct l; [|discriminate]. reflexivity.
Qed.
Lemma session_key_length k rc : length rc = 16%nat -> length (session_key k rc) = 16%nat.
Proof.
  intro H. unfold session_key, tdes_cbc_encrypt. rewrite cbc_blocks_length, chunks8_16 by assumption. reflexivity.
Qed.
Lemma chunks8_nonempty l : (8 <= length l)%nat -> exists c r, chunks8 l = c :: r.
Proof.
  intro H. do 8 (destruct l as [|? l]; [cbn in H; lia|]). cbn [chunks8]. eauto.
Qed.

Lemma generate_mac_ok d k iv f : len d mod 8 = 0 -> len k = 16 -> len iv = 8 ->
  exists m, generate_mac d k iv f = Ok m /\ (8 <= len d -> length m = 8%nat).
Proof.
  intros Hd Hk Hi. unfold generate_mac. rewrite Hd, Hk, Hi. cbn [Z.eqb Pos.eqb andb negb].
  eexists. split; [reflexivity|]. intro H8.
  rewrite firstn_length, rev_length. unfold tdes_cbc_encrypt. rewrite cbc_blocks_length.
  destruct (chunks8_nonempty d) as (c & r & Hc); [unfold len in H8; lia|].
  assert (Hn : (1 <= length (chunks8 (concat (map (@rev Z) (chunks8 d)))))%nat).
  { rewrite Hc. cbn [map concat].
    assert (Hc8 : exists a0 a1 a2 a3 a4 a5 a6 a7, c = [a0; a1; a2; a3; a4; a5; a6; a7]).
    { do 8 (destruct d as [|? d]; [cbn in Hc; discriminate|]). cbn [chunks8] in Hc. injection Hc as <- _. repeat eexists. }
    destruct Hc8 as (a0 & a1 & a2 & a3 & a4 & a5 & a6 & a7 & ->). cbn [rev app chunks8 length]. lia. }
  lia.
Qed.

Lemma rev_halves_invol l : length l = 16%nat -> rev_halves (rev_halves l) = l.
Proof.
  intro H. do 16 (destruct l as [|? l]; [discriminate|]). destruct l; [|discriminate]. reflexivity.
Qed.
Lemma rev_halves_length l : length l = 16%nat -> length (rev_halves l) = 16%nat.
Proof.
  intro H. unfold rev_halves. rewrite app_length, !rev_length, firstn_length, skipn_length. lia.
Qed.

(* ---- Python slices of a MAC response ------------------------------------------------------------ *)
Lemma pyslice_app3 (d mac tail : list Z) : len mac = 8 -> len tail = 8 ->
  pyslice (d ++ mac ++ tail) 0 (-16) = d /\ pyslice (d ++ mac ++ tail) (-16) (-8) = mac.
Proof.
  intros Hm Ht. unfold pyslice, norm_idx. rewrite !len_app, Hm, Ht.
  pose proof (len_nonneg d) as Hd.
  change (0 <? 0) with false. change (-16 <? 0) with true. change (-8 <? 0) with true. cbv iota.
  rewrite (Z.min_l 0) by lia. rewrite !Z.max_r by lia.
  split.
  - replace (-16 + (len d + (8 + 8)) - 0) with (len d) by lia. cbn [Z.to_nat skipn].
    unfold len. rewrite Nat2Z.id, firstn_app, Nat.sub_diag, firstn_all. cbn. apply app_nil_r.
  - replace (-8 + (len d + (8 + 8)) - (-16 + (len d + (8 + 8)))) with 8 by lia.
    replace (-16 + (len d + (8 + 8))) with (len d) by lia.
    unfold len in *. rewrite Nat2Z.id, skipn_app, Nat.sub_diag, skipn_all. cbn [skipn app].
    rewrite firstn_app. replace (Z.to_nat 8 - length mac)%nat with 0%nat by lia.
    cbn [firstn]. rewrite app_nil_r. apply firstn_all2. lia.
Qed.

Lemma split_mac_response (l : list Z) : 16 <= len l ->
  exists d mac tail, l = d ++ mac ++ tail /\ len mac = 8 /\ len tail = 8 /\ len d = len l - 16.
Proof.
  intro H. unfold len in *.
  exists (firstn (length l - 16) l), (firstn 8 (skipn (length l - 16) l)), (skipn 8 (skipn (length l - 16) l)).
  rewrite firstn_skipn, firstn_skipn. repeat split.
  - rewrite firstn_length, skipn_length. lia.
  - rewrite !skipn_length. lia.
  - rewrite firstn_length. lia.
Qed.

(* ---- the reader over an arbitrary channel -------------------------------------------------------- *)
Section Generic.
  Context {T : Type}.
  Variable xchg : T -> list Z -> T * xres.
  Variable idm : list Z.

  Lemma send_rs code data b (s s' : @St T) r :
    send_cmd_recv_rsp xchg idm code data b s = (s', r) -> snd s' = snd s.
  Proof.
    unfold send_cmd_recv_rsp. destruct (255 <? _); [intro H; inversion H; reflexivity|].
    destruct (exchange_retry _ _ _ _ _) as [t' r0]. intro H. inversion H. reflexivity.
  Qed.

  Lemma read_blocks_rs bl (s s' : @St T) r : read_blocks xchg idm bl s = (s', r) -> snd s' = snd s.
  Proof.
    unfold read_blocks, bindM, lift, ret. destruct (255 <? len bl); [intro H; inversion H; reflexivity|].
    destruct (block_codes bl); try (intro H; inversion H; reflexivity).
    destruct (send_cmd_recv_rsp _ _ _ _ _ s) as [s1 r1] eqn:E. apply send_rs in E.
    destruct r1; try (intro H; inversion H; subst; exact E).
    destruct (negb _); intro H; inversion H; subst; exact E.
  Qed.

  Lemma write_blocks_rs bl d (s s' : @St T) r : write_blocks xchg idm bl d s = (s', r) -> snd s' = snd s.
  Proof.
    unfold write_blocks, bindM, lift, ret. destruct (255 <? len bl); [intro H; inversion H; reflexivity|].
    destruct (block_codes bl); try (intro H; inversion H; reflexivity).
    destruct (send_cmd_recv_rsp _ _ _ _ _ s) as [s1 r1] eqn:E. apply send_rs in E.
    destruct r1; intro H; inversion H; subst; exact E.
  Qed.

  Lemma write_without_mac_rs d b (s s' : @St T) r : write_without_mac xchg idm d b s = (s', r) -> snd s' = snd s.
  Proof.
    unfold write_without_mac, lift. destruct (negb _); [intro H; inversion H; reflexivity|]. apply write_blocks_rs.
  Qed.

  Lemma read_blocks_len bl (s s' : @St T) data : read_blocks xchg idm bl s = (s', Ok data) -> len data = 16 * len bl.
  Proof.
    unfold read_blocks, bindM, lift, ret. destruct (255 <? len bl); [discriminate|].
    destruct (block_codes bl); try discriminate.
    destruct (send_cmd_recv_rsp _ _ _ _ _ s) as [s1 [d|e|c|]]; try discriminate.
    destruct (len d =? 1 + 16 * len bl) eqn:E; cbn [negb]; [|discriminate].
    intro H. inversion H. apply Z.eqb_eq in E. unfold drop, len in *. rewrite skipn_length. lia.
  Qed.

  (* read_with_mac hands out data only if the MAC equation holds for exactly what was received *)
  Theorem read_with_mac_sound blocks (s s' : @St T) d :
    read_with_mac xchg idm blocks s = (s', Ok (Some d)) ->
    exists sk iv mac tail,
      r_sk (snd s) = Some sk /\ r_iv (snd s) = Some iv /\
      read_blocks xchg idm (blocks ++ [129]) s = (s', Ok (d ++ mac ++ tail)) /\
      len mac = 8 /\ len tail = 8 /\ len d = 16 * len blocks /\
      generate_mac d sk iv false = Ok mac.
  Proof.
    unfold read_with_mac, bindM, get_rs. cbn [fst snd].
    destruct (r_sk (snd s)) as [sk|]; [|discriminate]. destruct (r_iv (snd s)) as [iv|]; [|discriminate].
    destruct (read_blocks xchg idm (blocks ++ [129]) s) as [s1 [data|e|c|]] eqn:ER; try discriminate.
    pose proof (read_blocks_len _ _ _ _ ER) as HL. rewrite len_app in HL.
    change (len [129]) with 1 in HL.
    destruct (split_mac_response data) as (d0 & mac & tail & -> & Hm & Ht & Hd0); [pose proof (len_nonneg blocks); lia|].
    destruct (pyslice_app3 d0 mac tail Hm Ht) as [P1 P2]. rewrite P1, P2.
    unfold lift, ret. destruct (generate_mac d0 sk iv false) as [m|e|c|] eqn:EG; try discriminate.
    destruct (list_eqb mac m) eqn:EQ; [|discriminate].
    intro H. inversion H; subst. apply list_eqb_eq in EQ. subst m.
    exists sk, iv, mac, tail. repeat split; try assumption; try reflexivity. lia.
  Qed.

  (* ... and conversely: a response whose data and MAC do not satisfy the equation is never accepted *)
  Theorem read_with_mac_detects blocks (s s' : @St T) sk iv d mac tail :
    r_sk (snd s) = Some sk -> r_iv (snd s) = Some iv ->
    read_blocks xchg idm (blocks ++ [129]) s = (s', Ok (d ++ mac ++ tail)) -> len mac = 8 -> len tail = 8 ->
    generate_mac d sk iv false <> Ok mac ->
    exists r, read_with_mac xchg idm blocks s = (s', r) /\ forall d', r <> Ok (Some d').
  Proof.
    intros Hsk Hiv ER Hm Ht Hne. unfold read_with_mac, bindM, get_rs. cbn [fst snd]. rewrite Hsk, Hiv, ER.
    destruct (pyslice_app3 d mac tail Hm Ht) as [P1 P2]. rewrite P1, P2. unfold lift, ret.
    destruct (generate_mac d sk iv false) as [m|e|c|] eqn:EG.
    - destruct (list_eqb mac m) eqn:EQ.
      + apply list_eqb_eq in EQ. subst. congruence.
      + eexists; split; [reflexivity|]. discriminate.
    - eexists; split; [reflexivity|]. discriminate.
    - eexists; split; [reflexivity|]. discriminate.
    - eexists; split; [reflexivity|]. discriminate.
  Qed.

  Theorem read_with_mac_complete blocks (s s' : @St T) sk iv d mac tail :
    r_sk (snd s) = Some sk -> r_iv (snd s) = Some iv ->
    read_blocks xchg idm (blocks ++ [129]) s = (s', Ok (d ++ mac ++ tail)) -> len mac = 8 -> len tail = 8 ->
    generate_mac d sk iv false = Ok mac ->
    read_with_mac xchg idm blocks s = (s', Ok (Some d)).
  Proof.
    intros Hsk Hiv ER Hm Ht HG. unfold read_with_mac, bindM, get_rs. cbn [fst snd]. rewrite Hsk, Hiv, ER.
    destruct (pyslice_app3 d mac tail Hm Ht) as [P1 P2]. rewrite P1, P2. unfold lift, ret. rewrite HG.
    replace (list_eqb mac mac) with true by (symmetry; apply list_eqb_eq; reflexivity). reflexivity.
  Qed.

  (* FelicaLite.authenticate over any channel: once the challenge write was acknowledged and the
     ID/MAC read delivered  idb ++ mac ++ tail, the result is the comparison of the received MAC with
     the MAC under the session key derived from the password *)
  Theorem lite_authenticate_generic pw rc key (s s1 s2 : @St T) idb mac tail m :
    felica_key pw = Ok key ->
    write_without_mac xchg idm (rev_halves rc) 128 (fst s, mkR (r_sk (snd s)) (r_iv (snd s)) false) = (s1, Ok tt) ->
    read_without_mac xchg idm [130; 129] s1 = (s2, Ok (idb ++ mac ++ tail)) -> len mac = 8 -> len tail = 8 ->
    generate_mac idb (session_key key rc) (firstn 8 rc) false = Ok m ->
    lite_authenticate xchg idm pw rc s =
      ((fst s2, if list_eqb mac m then mkR (Some (session_key key rc)) (Some (firstn 8 rc)) true
                else mkR (r_sk (snd s)) (r_iv (snd s)) false), Ok (list_eqb mac m)).
  Proof.
    intros Hk HW HR Hm Ht HG.
    pose proof (write_without_mac_rs _ _ _ _ _ HW) as Hs1. cbn [snd] in Hs1.
    pose proof (read_blocks_rs _ _ _ _ HR) as Hs2.
    unfold lite_authenticate, lite_authenticate_inner, bindM, lift. rewrite Hk.
    unfold set_auth at 1. cbn [fst snd]. rewrite HW. rewrite HR.
    destruct (pyslice_app3 idb mac tail Hm Ht) as [P1 P2]. rewrite P1, P2, HG.
    destruct (list_eqb mac m); unfold set_session, set_auth, ret; cbn [fst snd].
    - reflexivity.
    - rewrite Hs2, Hs1. reflexivity.
  Qed.
End Generic.
