(* Type 1 Tag: reader lemmas (the TLV walk depends only on the bytes it reads) and the theorems of
   C01 / C02 / C03 for tt1.py, on top of the generic phase analysis (Proofs/TlvPhases.v). *)
From Coq Require Import ZArith List Bool Lia ZifyBool.
From NV Require Import Base.Result Base.Bytes Model.TlvMem Model.T1T Proofs.TlvLib Proofs.TlvPhases.
Import ListNotations.
Open Scope Z_scope.
Ltac Zify.zify_post_hook ::= Z.to_euclidean_division_equations.

(* ---------------------------------------------------------------- reader (after the repairs c08-12/13/15) *)
Lemma t1_dispatch_found skip t l v : t1_dispatch_r skip t l v = Ok Found -> t = 3.
Proof. unfold t1_dispatch_r. destruct (Z.eqb_spec t 0); [discriminate|].
  destruct (Z.eqb_spec t 1); [destruct (l =? 3); [destruct (ctl_range _ _ _); discriminate | discriminate]|].
  destruct (Z.eqb_spec t 2); [destruct (l =? 3); [destruct (ctl_range _ _ _); discriminate | discriminate]|].
  destruct (Z.eqb_spec t 3); [auto|]. destruct (t =? 254); discriminate. Qed.

Lemma t1_walk_found : forall fuel em size skip off hw o s v h,
  t1_walk_r fuel em size skip off hw = Ok (Some (o, s, v, h)) ->
  hw <= h /\ in_skip s o = false /\ exists l e, read_tlv em o s = Ok (3, l, v, e).
Proof.
  induction fuel as [|f IH]; intros em size skip off hw o s v h H; [discriminate|].
  cbn [t1_walk_r] in H. destruct (size <=? off); [discriminate|].
  destruct (in_skip skip off) eqn:Es; [apply IH in H; exact H|].
  destruct (read_tlv em off skip) as [[[[t l] v0] e]| | |] eqn:Er; try discriminate.
  destruct (t1_dispatch_r skip t l v0) as [[skip'| |]| | |] eqn:Ed; try discriminate.
  - apply IH in H. destruct H as (H1 & H3 & H4). repeat split; auto; lia.
  - injection H as <- <- <- <-. apply t1_dispatch_found in Ed. subst t. repeat split; auto; try lia. eauto.
Qed.

Lemma t1_walk_reach : forall fuel em1 em2 size skip off hw o s v h l' v' e',
  t1_walk_r fuel em1 size skip off hw = Ok (Some (o, s, v, h)) ->
  agree_below h em1 em2 ->
  read_tlv em2 o s = Ok (3, l', v', e') ->
  t1_walk_r fuel em2 size skip off hw = Ok (Some (o, s, v', h)).
Proof.
  induction fuel as [|f IH]; intros em1 em2 size skip off hw o s v h l' v' e' H HA HR; [discriminate|].
  cbn [t1_walk_r] in *. destruct (size <=? off); [discriminate|].
  destruct (in_skip skip off) eqn:Es; [eapply IH; eauto|].
  destruct (read_tlv em1 off skip) as [[[[t l] v0] e]| | |] eqn:Er; try discriminate.
  destruct (t1_dispatch_r skip t l v0) as [[skip'| |]| | |] eqn:Ed; try discriminate.
  - pose proof (t1_walk_found _ _ _ _ _ _ _ _ _ _ H) as (Hm & _).
    destruct HA as [HL HG].
    rewrite (read_tlv_congr em1 em2 off skip t l v0 e Er HL) by (intros; apply HG; lia).
    rewrite Ed. eapply IH; eauto. split; assumption.
  - injection H as <- <- <- <-. rewrite HR. reflexivity.
Qed.

Lemma t1_read_inv hr0 m L : t1_reader hr0 m = Ok (Some L) ->
  exists b9 b10 b11,
    120 <= len m /\ Z.shiftr hr0 4 = 1 /\
    rd m 8 = Ok 225 /\ rd m 9 = Ok b9 /\ rd m 10 = Ok b10 /\ rd m 11 = Ok b11 /\ Z.shiftr b9 4 = 1 /\
    l_dend L = (b10 + 1) * 8 /\
    t1_walk_r (S (Z.to_nat (l_dend L))) m (l_dend L) [(104, if l_dend L =? 120 then 120 else 128)] 12 12
      = Ok (Some (l_off L, l_skip L, l_val L, l_hw L)) /\
    l_cap L = get_capacity (l_dend L) (l_off L) (l_skip L) /\
    l_rd L = (Z.shiftr b11 4 =? 0) /\ l_wr L = (Z.land b11 15 =? 0) /\ ndef_fits m L = true.
Proof.
  unfold t1_reader. intro H. destruct (Z.ltb_spec (len m) 120); [discriminate|].
  destruct (Z.eqb_spec (Z.shiftr hr0 4) 1) as [Hh|]; [|discriminate]. cbn [negb] in H.
  destruct (rd m 8) as [b8| | |] eqn:E8; try discriminate.
  destruct (rd m 9) as [b9| | |] eqn:E9; try discriminate.
  destruct (rd m 10) as [b10| | |] eqn:E10; try discriminate.
  destruct (rd m 11) as [b11| | |] eqn:E11; try discriminate.
  destruct (Z.eqb_spec b8 225) as [->|]; [|discriminate]. cbn [negb] in H.
  destruct (Z.eqb_spec (Z.shiftr b9 4) 1) as [Hv|]; [|discriminate]. cbn [negb] in H.
  destruct (t1_walk_r _ m ((b10 + 1) * 8) _ 12 12) as [[[[[off skip] v] hw]|]| | |] eqn:Ew;
    cbn [bind] in H; try discriminate.
  match type of H with (if ?c then _ else _) = _ => destruct c eqn:Ef end; [|discriminate].
  injection H as <-. cbn [l_off l_skip l_val l_hw l_dend l_cap l_rd l_wr].
  exists b9, b10, b11. repeat split; auto.
Qed.

Lemma t1_read_transfer hr0 m m2 L l' v' e' : t1_reader hr0 m = Ok (Some L) ->
  agree_below (Z.max 12 (l_hw L)) m m2 -> ndef_fits m2 (set_val L v') = true ->
  read_tlv m2 (l_off L) (l_skip L) = Ok (3, l', v', e') ->
  t1_reader hr0 m2 = Ok (Some (set_val L v')).
Proof.
  intros H HA HF HR. destruct (t1_read_inv _ _ _ H) as (b9 & b10 & b11 & Hlen & Hh & E8 & E9 & E10 & E11 & Hv & Hd & Hw & Hc & Hrd & Hwr & _).
  destruct HA as [HL HG].
  assert (R : forall a, a < 12 -> rd m2 a = rd m a) by (intros a Ha; apply rd_congr; [congruence | intro; symmetry; apply HG; lia]).
  unfold t1_reader. replace (len m2) with (len m) by (unfold len; congruence). replace (len m <? 120) with false by lia.
  rewrite Hh. cbn [Z.eqb negb Pos.eqb]. rewrite (R 8), (R 9), (R 10), (R 11), E8, E9, E10, E11 by lia.
  cbn [Z.eqb negb Pos.eqb]. rewrite Hv. cbn [Z.eqb negb Pos.eqb]. rewrite <- Hd.
  rewrite (t1_walk_reach _ m m2 _ _ _ _ _ _ _ _ l' v' e' Hw); [| split; [exact HL | intros; apply HG; lia] | exact HR].
  cbn [bind]. rewrite <- Hc, <- Hrd, <- Hwr.
  change {| l_off := l_off L; l_skip := l_skip L; l_cap := l_cap L; l_rd := l_rd L; l_wr := l_wr L; l_val := v';
            l_dend := l_dend L; l_hw := l_hw L |} with (set_val L v'). rewrite HF. reflexivity.
Qed.

(* ---------------------------------------------------------------- a well-formed layout *)
Definition wfL1 (hr0 : Z) (m : list Z) (L : layout) : Prop :=
  t1_reader hr0 m = Ok (Some L) /\
  ((Z.land hr0 15 = 1 /\ len m = 120) \/ (Z.land hr0 15 <> 1 /\ 256 <= len m /\ len m <= 2048 /\ len m mod 128 = 0)) /\
  l_rd L = true /\ l_wr L = true /\ l_dend L <= len m /\ l_hw L <= l_off L /\ 12 <= l_off L /\ l_off L + 1 < l_dend L /\
  in_skip (l_skip L) (l_off L) = false /\ in_skip (l_skip L) (l_off L + 1) = false /\
  (255 <= l_cap L -> in_skip (l_skip L) (l_off L + 2) = false /\ in_skip (l_skip L) (l_off L + 3) = false).

Lemma t1_wf_layout_wfL hr0 m : t1_wf_layout hr0 m -> exists L, wfL1 hr0 m L.
Proof.
  unfold t1_wf_layout, t1_wf_layoutb. intro H.
  destruct (t1_reader hr0 m) as [[L|]| | |] eqn:E; try (rewrite !andb_false_r in H; discriminate).
  exists L. unfold wfL1. split; [exact E|].
  apply andb_true_iff in H. destruct H as [Hsz H].
  repeat match goal with Hx : _ && _ = true |- _ => apply andb_true_iff in Hx; destruct Hx end.
  repeat match goal with Hx : negb _ = true |- _ => apply negb_true_iff in Hx end.
  assert (Hlong : 255 <= l_cap L -> in_skip (l_skip L) (l_off L + 2) = false /\ in_skip (l_skip L) (l_off L + 3) = false).
  { intro Hc. match goal with Hx : (_ <? 255) || _ = true |- _ => apply orb_prop in Hx; destruct Hx as [Hx|Hx]; [lia|];
      apply andb_true_iff in Hx; destruct Hx as [Hx2 Hx3]; apply negb_true_iff in Hx2, Hx3; auto end. }
  split; [lia|]. repeat split; try lia; try assumption; apply Hlong; assumption.
Qed.

Section Layout1.
Variables (hr0 : Z) (m : list Z) (L : layout).
Hypothesis WF : wfL1 hr0 m L.
Set Default Proof Using "WF".

Notation off := (l_off L).
Notation skip := (l_skip L).
Notation dend := (l_dend L).
Notation u := (t1_unit hr0).

Lemma w_read : t1_reader hr0 m = Ok (Some L). Proof. apply WF. Qed.
Lemma w_unit : (0 < u)%nat /\ exists ku, length m = (ku * u)%nat.
Proof.
  destruct WF as (Hr & Hsz & _). destruct (t1_read_inv _ _ _ Hr) as (_ & _ & _ & _ & Hh & _).
  unfold t1_unit. rewrite Hh. cbn [Z.eqb Pos.eqb andb].
  destruct Hsz as [[H1 H2]|[H1 [H2 H3]]].
  - rewrite H1. cbn. split; [lia|]. exists (length m). lia.
  - destruct H3 as [H3' H3]. replace (Z.land hr0 15 =? 1) with false by lia. cbn [negb]. split; [lia|].
    exists (Z.to_nat (len m / 8)). unfold len in *. lia.
Qed.
Lemma w_tag : get m off = 3.
Proof. destruct (t1_read_inv _ _ _ w_read) as (b9 & b10 & b11 & _ & _ & _ & _ & _ & _ & _ & _ & Hw & _).
  destruct (t1_walk_found _ _ _ _ _ _ _ _ _ _ Hw) as (_ & _ & l & e & H).
  apply read_tlv_inv in H. destruct H as (H & _). apply rd_inv in H. symmetry. apply H. Qed.
Lemma w_cap : l_cap L = get_capacity dend off skip.
Proof. destruct (t1_read_inv _ _ _ w_read) as (b9 & b10 & b11 & _ & _ & _ & _ & _ & _ & _ & _ & _ & Hc & _). exact Hc. Qed.
Lemma w_transfer c l' v' e' : agree_below (off + 1) m c -> ndef_fits c (set_val L v') = true ->
  read_tlv c off skip = Ok (3, l', v', e') -> t1_reader hr0 c = Ok (Some (set_val L v')).
Proof. intros HA HF HR. apply (t1_read_transfer hr0 m c L l' v' e' w_read); [| exact HF | exact HR].
  destruct WF as (_ & _ & _ & _ & _ & Hhw & Ho & _). apply (agree_below_le (off + 1)); [lia | exact HA]. Qed.

Ltac unpack := let H := fresh in pose proof WF as H; unfold wfL1 in H;
  destruct H as (?Hr & ?Hsz & ?Hrd & ?Hwr & ?Hde & ?Hhw & ?Ho12 & ?Ho1 & ?S0 & ?S1 & ?S23).
Ltac generic := first [exact w_tag | exact w_cap | exact w_transfer | lia | eassumption].
Ltac gen lemma ku := unpack; eapply (lemma m L u ku (t1_reader hr0)); generic.

(* the caches of a write; cut safety needs the length field (when it has three bytes) inside one write unit *)
Lemma t1_caches (d : list Z) : len d <= l_cap L ->
  caches_ok m L u (t1_reader hr0) (t1_phases L d) d (len d < 255 \/ one_unit u off).
Proof.
  intro Hcap. destruct w_unit as (Hu & ku & Hk). unfold t1_phases.
  destruct (Z.ltb_spec (len d) 255) as [Hd|Hd].
  - assert (C : caches_ok m L u (t1_reader hr0) [ph_len0 L; ph_data L d; ph_len_short L d] d True) by (gen caches_short ku).
    destruct C as (cs & cf & H1 & H2 & H3 & H4 & H5 & H6). exists cs, cf. repeat (split; [assumption|]). intros _. apply H6. exact I.
  - assert (C : caches_ok m L u (t1_reader hr0) [ph_len0 L; ph_data L d; ph_len_long_unrepaired L d] d (one_unit u off)) by (gen caches_unrepaired ku).
    destruct C as (cs & cf & H1 & H2 & H3 & H4 & H5 & H6). exists cs, cf. repeat (split; [assumption|]).
    intros [Hs|Hs]; [lia | apply H6; exact Hs].
Qed.

Lemma t1_write_result (d : list Z) : len d <= l_cap L ->
  exists cs cf, t1_write hr0 m d = (Ok tt, chain_cmds u m cs) /\
    (forall w, In w (chain_cmds u m cs) ->
       0 <= fst w /\ fst w mod Z.of_nat u = 0 /\ fst w + Z.of_nat u <= len m /\ len (snd w) = Z.of_nat u /\
       exists x, fst w <= x < fst w + Z.of_nat u /\ off < x /\ ndef_area L x = true) /\
    apply_ws m (chain_cmds u m cs) = cf /\ length cf = length m /\
    touch L m cf /\ t1_reader hr0 cf = Ok (Some (set_val L d)) /\
    (len d < 255 \/ one_unit u off -> forall j, let x := apply_ws m (firstn j (chain_cmds u m cs)) in x = m \/ hdr0 m L x \/ x = cf).
Proof.
  intro Hcap. destruct w_unit as (Hu & ku & Hk).
  destruct (t1_caches d Hcap) as (cs & cf & Hst & Hlast & Hlen & Htouch & Hfin & Hmix).
  assert (Hok : forall w, In w (chain_cmds u m cs) ->
       0 <= fst w /\ fst w mod Z.of_nat u = 0 /\ fst w + Z.of_nat u <= len m /\ len (snd w) = Z.of_nat u /\
       exists x, fst w <= x < fst w + Z.of_nat u /\ off < x /\ ndef_area L x = true) by (intros w Hw; gen gen_cmds_ok ku).
  assert (Ht : touch L m (last_cache m cs)) by (gen touch_chain ku).
  exists cs, cf. split.
  { unfold t1_write. rewrite w_read. destruct WF as (_ & _ & _ & Hwr & _). rewrite Hwr. cbn [negb].
    replace (l_cap L <? len d) with false by lia.
    rewrite (run_phases_chain u (len m) _ cs m [] Hst); [reflexivity|]. intros w Hw. destruct (Hok w Hw) as (? & ? & ? & ? & _). lia. }
  split; [exact Hok|]. split; [rewrite <- Hlast; gen gen_apply ku|].
  split; [rewrite <- Hlast; apply Ht|]. split; [rewrite <- Hlast; exact Ht|]. split; [exact Hfin|].
  intros Hsafe j. cbv zeta.
  assert (G : apply_ws m (firstn j (chain_cmds u m cs)) = last_cache m cs \/
    exists f c, adjacent m cs f c /\ umixed u f c (apply_ws m (firstn j (chain_cmds u m cs)))) by (gen gen_cut ku).
  destruct G as [E|(f & c & Ha & Hm)].
  - right; right. rewrite E. exact Hlast.
  - eapply (Hmix Hsafe); eassumption.
Qed.

Lemma t1_hdr0_read c : 0 <= l_cap L -> hdr0 m L c -> t1_reader hr0 c = Ok (Some (set_val L [])).
Proof. intros Hc0 H. destruct w_unit as (Hu & ku & Hk). gen hdr0_read ku. Qed.
End Layout1.
Set Default Proof Using "Type".

(* ---------------------------------------------------------------- theorems *)
Lemma t1_capacity_layout hr0 m cap : t1_capacity hr0 m = Some cap -> exists L, t1_reader hr0 m = Ok (Some L) /\ l_cap L = cap.
Proof. unfold t1_capacity. destruct (t1_reader hr0 m) as [[L|]| | |]; try discriminate. intro H. injection H as <-. eauto. Qed.
Lemma wfL1_capacity hr0 m L cap : wfL1 hr0 m L -> t1_capacity hr0 m = Some cap -> l_cap L = cap.
Proof. intros H Hc. destruct (t1_capacity_layout hr0 m cap Hc) as (L' & Hr' & Hc'). destruct H as (Hr & _). congruence. Qed.
Lemma wfL1_layout hr0 m L L' : wfL1 hr0 m L' -> t1_layout hr0 m = Some L -> L' = L.
Proof. intros (Hr & _) H. unfold t1_layout in H. rewrite Hr in H. congruence. Qed.

Theorem t1_write_read hr0 m d cap : t1_wf_layout hr0 m -> bytes_ok d -> t1_capacity hr0 m = Some cap -> len d <= cap ->
  let m' := apply_ws m (snd (t1_write hr0 m d)) in
  fst (t1_write hr0 m d) = Ok tt /\ t1_fresh hr0 m' = Msg d /\ t1_capacity hr0 m' = Some cap /\ len m' = len m.
Proof.
  intros Hwf _ Hcap Hd. destruct (t1_wf_layout_wfL hr0 m Hwf) as (L & HL). pose proof (wfL1_capacity hr0 m L cap HL Hcap) as Hc.
  destruct (t1_write_result hr0 m L HL d ltac:(lia)) as (cs & cf & Hw & _ & Hv & Hl & _ & Hf & _).
  cbv zeta. rewrite Hw. cbn [fst snd]. split; [reflexivity|].
  unfold t1_fresh, t1_capacity. rewrite Hv, Hf. cbn [classify set_val l_rd l_val l_cap].
  destruct HL as (_ & _ & Hrd & _). rewrite Hrd, Hc. unfold len. rewrite Hl. auto.
Qed.

Theorem t1_capacity_sound hr0 m L : t1_wf_layout hr0 m -> t1_layout hr0 m = Some L -> l_cap L <= room (t1_free_after_tag L).
Proof.
  intros Hwf HL. destruct (t1_wf_layout_wfL hr0 m Hwf) as (L' & HL'). pose proof (wfL1_layout _ _ _ _ HL' HL). subst L'.
  rewrite (w_cap hr0 m L HL'). destruct HL' as (_ & _ & _ & _ & _ & _ & _ & Ho1 & S0 & _).
  unfold get_capacity, t1_free_after_tag, room.
  replace (Z.to_nat (l_dend L - l_off L)) with (1 + Z.to_nat (l_dend L - (l_off L + 1)))%nat by lia.
  rewrite count_free_app. cbn [count_free]. rewrite S0. change (Z.of_nat 1) with 1.
  set (f := count_free (l_skip L) (l_off L + 1) (Z.to_nat (l_dend L - (l_off L + 1)))).
  destruct (Z.ltb_spec 256 (1 + 0 + f)); lia.
Qed.

Theorem t1_oversize_rejected hr0 m d cap : t1_capacity hr0 m = Some cap -> cap < len d ->
  (exists L, t1_layout hr0 m = Some L /\ l_wr L = true) -> t1_write hr0 m d = (Err ValueError, []).
Proof.
  intros Hcap Hd (L & HL & Hwr). destruct (t1_capacity_layout hr0 m cap Hcap) as (L' & Hr' & Hc').
  unfold t1_layout in HL. rewrite Hr' in HL. injection HL as ->.
  unfold t1_write. rewrite Hr', Hwr. cbn [negb]. replace (l_cap L <? len d) with true by lia. reflexivity.
Qed.

(* C02: safe for one length byte, and for three length bytes when they share a write unit with the first one *)
Theorem t1_cut_safe hr0 m d cap L : t1_wf_layout hr0 m -> t1_capacity hr0 m = Some cap -> len d <= cap ->
  t1_layout hr0 m = Some L -> (len d < 255 \/ one_unit (t1_unit hr0) (l_off L)) -> forall k,
  let mk := apply_ws m (firstn k (snd (t1_write hr0 m d))) in
  t1_fresh hr0 mk = t1_fresh hr0 m \/ t1_fresh hr0 mk = Msg [] \/ t1_fresh hr0 mk = Msg d.
Proof.
  intros Hwf Hcap Hd HLay Hsafe k. destruct (t1_wf_layout_wfL hr0 m Hwf) as (L' & HL). pose proof (wfL1_layout _ _ _ _ HL HLay). subst L'.
  pose proof (wfL1_capacity hr0 m L cap HL Hcap) as Hc.
  destruct (t1_write_result hr0 m L HL d ltac:(lia)) as (cs & cf & Hw & _ & _ & _ & _ & Hf & Hcut).
  cbv zeta. rewrite Hw. cbn [snd]. specialize (Hcut Hsafe k). cbv zeta in Hcut.
  assert (Hrd : l_rd L = true) by apply HL.
  unfold t1_fresh. destruct Hcut as [E|[E|E]].
  - left. rewrite E. reflexivity.
  - right; left. rewrite (t1_hdr0_read hr0 m L HL _ ltac:(pose proof (len_nonneg d); lia) E). cbn [classify set_val l_rd l_val]. rewrite Hrd. reflexivity.
  - right; right. rewrite E, Hf. cbn [classify set_val l_rd l_val]. rewrite Hrd. reflexivity.
Qed.

(* C03 *)
Lemma t1_write_cmds hr0 m L d : wfL1 hr0 m L ->
  exists cf, (forall w, In w (snd (t1_write hr0 m d)) ->
       0 <= fst w /\ fst w mod Z.of_nat (t1_unit hr0) = 0 /\ fst w + Z.of_nat (t1_unit hr0) <= len m /\
       len (snd w) = Z.of_nat (t1_unit hr0) /\
       exists x, fst w <= x < fst w + Z.of_nat (t1_unit hr0) /\ l_off L < x /\ ndef_area L x = true) /\
    apply_ws m (snd (t1_write hr0 m d)) = cf /\ length cf = length m /\ touch L m cf.
Proof.
  intro HL. destruct (Z.leb_spec (len d) (l_cap L)) as [Hd|Hd].
  - destruct (t1_write_result hr0 m L HL d Hd) as (cs & cf & Hw & Hok & Hv & Hl & Ht & _). rewrite Hw. cbn [snd].
    exists cf. auto.
  - assert (E : t1_write hr0 m d = (Err ValueError, [])).
    { unfold t1_write. destruct HL as (Hr & _ & _ & Hwr & _). rewrite Hr, Hwr. cbn [negb].
      replace (l_cap L <? len d) with true by lia. reflexivity. }
    rewrite E. cbn [snd apply_ws fold_left]. exists m. split; [intros w0 []|]. split; [reflexivity|].
    split; [reflexivity|]. split; [reflexivity|]. intros x _ H. congruence.
Qed.

Theorem t1_write_frame hr0 m d L : t1_wf_layout hr0 m -> t1_layout hr0 m = Some L ->
  let m' := apply_ws m (snd (t1_write hr0 m d)) in
  len m' = len m /\ forall a, 0 <= a < len m -> ndef_area L a = false -> get m' a = get m a.
Proof.
  intros Hwf HLay. destruct (t1_wf_layout_wfL hr0 m Hwf) as (L' & HL). pose proof (wfL1_layout _ _ _ _ HL HLay). subst L'.
  destruct (t1_write_cmds hr0 m L d HL) as (cf & _ & Hv & Hl & [_ Tg]). cbv zeta. rewrite Hv.
  split; [unfold len; rewrite Hl; reflexivity|]. intros a Ha Har.
  destruct (Z.eq_dec (get cf a) (get m a)) as [E|E]; [exact E|]. destruct (Tg a ltac:(lia) E) as [_ H]. congruence.
Qed.

Theorem t1_write_units hr0 m d L : t1_wf_layout hr0 m -> t1_layout hr0 m = Some L ->
  forall w, In w (snd (t1_write hr0 m d)) ->
    len (snd w) = Z.of_nat (t1_unit hr0) /\ fst w mod Z.of_nat (t1_unit hr0) = 0 /\
    0 <= fst w /\ fst w + Z.of_nat (t1_unit hr0) <= len m /\
    exists x, fst w <= x < fst w + Z.of_nat (t1_unit hr0) /\ ndef_area L x = true.
Proof.
  intros Hwf HLay w Hw. destruct (t1_wf_layout_wfL hr0 m Hwf) as (L' & HL). pose proof (wfL1_layout _ _ _ _ HL HLay). subst L'.
  destruct (t1_write_cmds hr0 m L d HL) as (cf & Hok & _). destruct (Hok w Hw) as (H1 & H2 & H3 & H4 & x & Hx & _ & Hx2).
  repeat split; try assumption. exists x. auto.
Qed.
