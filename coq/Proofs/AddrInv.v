(* C17 - the building blocks that preserve the invariant [wf]. *)
From Coq Require Import ZArith List Bool Lia ZifyBool.
From NV Require Import Base.Result Base.Bytes Base.PyPrims Model.Addr Proofs.Addr.
Import ListNotations.
Open Scope Z_scope.

Lemma sap_set_dmpdu c a e : sd_dmpdu (sap_set c a e) = sd_dmpdu c.
Proof. unfold sap_set. destruct (in_range a); reflexivity. Qed.

(* ---------------------------------------------------------------- initial state *)
Lemma nth_repeat_none n k : nth k (repeat SapNone n) SapNone = SapNone.
Proof. revert k; induction n; intros [|k]; cbn; auto. Qed.

Lemma sap_get_init b a : sap_get (init_ctl b) a = if a =? 0 then Sap [] [] else if a =? 1 then SapSD else SapNone.
Proof.
  unfold sap_get. destruct (in_range a) eqn:E.
  - apply in_range_iff in E. cbn [c_sap init_ctl init_sap].
    destruct (a =? 0) eqn:E0; [replace a with 0 by lia; reflexivity|].
    destruct (a =? 1) eqn:E1; [replace a with 1 by lia; reflexivity|].
    replace (Z.to_nat a) with (S (S (Z.to_nat (a - 2)))) by lia. unfold init_sap. cbn [nth]. apply nth_repeat_none.
  - destruct (a =? 0) eqn:E0; [unfold in_range in E; lia|].
    destruct (a =? 1) eqn:E1; [unfold in_range in E; lia|]. reflexivity.
Qed.

Lemma wf_init b : wf (init_ctl b).
Proof.
  assert (NL : forall a i, ~ listed (init_ctl b) a i).
  { intros a i. unfold listed. rewrite sap_get_init. destruct (a =? 0); [|destruct (a =? 1)]; cbn; auto. }
  assert (NS : forall i, get_sock (init_ctl b) i = None) by (intros [|i]; reflexivity).
  constructor; try (intros; exfalso; eapply NL; eassumption); try (intros ? ? ? H; rewrite NS in H; discriminate);
    try (intros ? ? H; rewrite NS in H; discriminate).
  - reflexivity.
  - exists []. reflexivity.
  - reflexivity.
  - intros a Ha. rewrite sap_get_init. destruct (a =? 0); [discriminate|]. destruct (a =? 1) eqn:E; [lia | discriminate].
  - intros a l sl Ha. rewrite sap_get_init. destruct (a =? 0) eqn:E0; [lia|]. destruct (a =? 1) eqn:E1; [lia | discriminate].
  - intro a. rewrite sap_get_init. destruct (a =? 0); [|destruct (a =? 1)]; cbn; constructor.
  - cbn. constructor; [intros [] | constructor].
  - reflexivity.
  - intros n a. cbn [lookup c_snl init_ctl]. destruct (name_eqb name_sdp n) eqn:E; [|discriminate].
    intro H; inversion H; subst. left. apply name_eqb_eq in E. auto.
  - intros n1 n2 a Ha. cbn [lookup c_snl init_ctl]. destruct (name_eqb name_sdp n1); [|discriminate].
    intro H; inversion H; lia.
  - intros a l sl p. rewrite sap_get_init. destruct (a =? 0); [intro H; inversion H; subst; intros []|].
    destruct (a =? 1); discriminate.
  - intros p [].
Qed.

(* ---------------------------------------------------------------- a socket changes, its address does not *)
Record evolves (s s' : sock) : Prop := mkEv {
  ev_addr : s_addr s' = s_addr s;
  ev_type : s_type s' = s_type s;
  ev_bname : s_bname s' = s_bname s;
  ev_shut : s_state s = StShutdown -> s_state s' = StShutdown;
  ev_nolisten : nolisten (s_state s) -> nolisten (s_state s');
  ev_sq : s_type s = TLdl -> forall p, In p (s_sendq s') -> In p (s_sendq s) \/ ui_src (s_addr s') p;
  ev_rq : s_type s = TLdl -> forall p, In p (s_recvq s') -> In p (s_recvq s) \/ ui_dst (s_addr s') p;
  ev_dq : s_type s = TDlc -> forall p, In p (s_sendq s') -> In p (s_sendq s) \/ is_ui p = false }.

Lemma evolves_refl s : evolves s s.
Proof. constructor; auto. Qed.
Lemma evolves_trans s1 s2 s3 : evolves s1 s2 -> evolves s2 s3 -> evolves s1 s3.
Proof.
  intros [A1 T1 B1 S1 N1 Q1 R1 D1] [A2 T2 B2 S2 N2 Q2 R2 D2]. constructor; try congruence; auto.
  - intros T p H. destruct (Q2 (eq_trans T1 T) p H) as [H2|H2]; auto.
    destruct (Q1 T p H2) as [H1|H1]; auto. right. rewrite A2. auto.
  - intros T p H. destruct (R2 (eq_trans T1 T) p H) as [H2|H2]; auto.
    destruct (R1 T p H2) as [H1|H1]; auto. right. rewrite A2. auto.
  - intros T p H. destruct (D2 (eq_trans T1 T) p H) as [H2|H2]; auto.
Qed.

Lemma get_put c i s' s j : get_sock c i = Some s ->
  get_sock (put_sock c i s') j = if Nat.eqb i j then Some s' else get_sock c j.
Proof. intro H. destruct (Nat.eqb i j) eqn:E.
  - apply Nat.eqb_eq in E. subst. eapply get_put_same; eauto.
  - apply Nat.eqb_neq in E. apply get_put_other; auto. Qed.

Lemma wf_put_evolve c i s s' : wf c -> get_sock c i = Some s -> evolves s s' -> wf (put_sock c i s').
Proof.
  intros W G [Ea Et Eb Es En Eq Er Ed].
  assert (GP := get_put c i s' s).
  destruct W as [Wlen W0 W1 Wsd Wne Wla Wnd Wol War Whg Wk Wsdp Wval Winj Wbs Wsb Wun Wsq Wrq Wdq Wsl Wdm].
  constructor; auto.
  - intros a j L. destruct (Wla a j L) as (sj & Gj & Aj). rewrite GP by auto.
    destruct (Nat.eqb i j) eqn:E; [|eauto]. apply Nat.eqb_eq in E. subst j.
    exists s'. split; auto. rewrite Ea. congruence.
  - intros j sj a Gj Aj Sj. rewrite GP in Gj by auto. destruct (Nat.eqb i j) eqn:E; [|eapply Wol; eauto].
    apply Nat.eqb_eq in E. subst j. inversion Gj; subst sj. apply (Wol i s a G); [congruence | intro Hs; apply Sj; auto].
  - intros j sj a Gj Aj. rewrite GP in Gj by auto. destruct (Nat.eqb i j) eqn:E; [|eapply War; eauto].
    inversion Gj; subst sj. apply (War i s a G). congruence.
  - intros a j k sj sk Lj Lk Gj Gk. rewrite GP in Gj, Gk by auto.
    destruct (Wla a j Lj) as (sj0 & Gj0 & _). destruct (Wla a k Lk) as (sk0 & Gk0 & _).
    assert (Tj : s_type sj = s_type sj0).
    { destruct (Nat.eqb i j) eqn:E; [|congruence]. apply Nat.eqb_eq in E. subst j. inversion Gj; subst. congruence. }
    assert (Tk : s_type sk = s_type sk0).
    { destruct (Nat.eqb i k) eqn:E; [|congruence]. apply Nat.eqb_eq in E. subst k. inversion Gk; subst. congruence. }
    rewrite Tj, Tk. exact (Whg a j k sj0 sk0 Lj Lk Gj0 Gk0).
  - intros a j sj n L Gj Bj. rewrite GP in Gj by auto. destruct (Nat.eqb i j) eqn:E; [|eapply Wbs; eauto].
    apply Nat.eqb_eq in E. subst j. inversion Gj; subst sj. apply (Wbs a i s n L G). congruence.
  - intros a j sj n Ha Ln L Gj. rewrite GP in Gj by auto. destruct (Nat.eqb i j) eqn:E; [|eapply Wsb; eauto].
    apply Nat.eqb_eq in E. subst j. inversion Gj; subst sj.
    destruct (Wsb a i s n Ha Ln L G) as [B|[B N]]; [left; congruence | right; split; [congruence | auto]].
  - intros j sj Gj Aj. rewrite GP in Gj by auto. destruct (Nat.eqb i j) eqn:E; [|eapply Wun; eauto].
    inversion Gj; subst sj. rewrite Eb. eapply Wun; eauto. congruence.
  - intros j sj p Gj Tj Hp. rewrite GP in Gj by auto. destruct (Nat.eqb i j) eqn:E; [|eapply Wsq; eauto].
    inversion Gj; subst sj. rewrite Et in Tj. destruct (Eq Tj p Hp) as [H|H]; auto. rewrite Ea. eapply Wsq; eauto.
  - intros j sj p Gj Tj Hp. rewrite GP in Gj by auto. destruct (Nat.eqb i j) eqn:E; [|eapply Wrq; eauto].
    inversion Gj; subst sj. rewrite Et in Tj. destruct (Er Tj p Hp) as [H|H]; auto. rewrite Ea. eapply Wrq; eauto.
  - intros j sj p Gj Tj Hp. rewrite GP in Gj by auto. destruct (Nat.eqb i j) eqn:E; [|eapply Wdq; eauto].
    inversion Gj; subst sj. rewrite Et in Tj. destruct (Ed Tj p Hp) as [H|H]; auto. eapply Wdq; eauto.
Qed.

(* ---------------------------------------------------------------- a new, unbound socket *)
Lemma get_sock_app_old c x j : (j < length (c_socks c))%nat ->
  get_sock (set_socks c (c_socks c ++ [x])) j = get_sock c j.
Proof. intro H. unfold get_sock. cbn. apply nth_error_app1. auto. Qed.
Lemma get_sock_app_new c x : get_sock (set_socks c (c_socks c ++ [x])) (length (c_socks c)) = Some x.
Proof. unfold get_sock. cbn. rewrite nth_error_app2 by lia. rewrite Nat.sub_diag. reflexivity. Qed.
Lemma get_sock_app c x j : get_sock (set_socks c (c_socks c ++ [x])) j =
  if Nat.eqb j (length (c_socks c)) then Some x else get_sock c j.
Proof.
  destruct (Nat.eqb j (length (c_socks c))) eqn:E.
  - apply Nat.eqb_eq in E. subst. apply get_sock_app_new.
  - apply Nat.eqb_neq in E. destruct (Nat.lt_ge_cases j (length (c_socks c))).
    + apply get_sock_app_old; auto.
    + unfold get_sock. cbn. assert (N1 : nth_error (c_socks c ++ [x]) j = None).
      { apply nth_error_None. rewrite app_length. cbn. lia. }
      assert (N2 : nth_error (c_socks c) j = None) by (apply nth_error_None; lia). congruence.
Qed.
Lemma get_sock_lt c j s : get_sock c j = Some s -> (j < length (c_socks c))%nat.
Proof. unfold get_sock. intro H. apply nth_error_Some. congruence. Qed.

Lemma wf_new_sock c x : wf c -> s_addr x = None -> s_bname x = None -> s_sendq x = [] -> s_recvq x = [] ->
  wf (set_socks c (c_socks c ++ [x])).
Proof.
  intros W Ax Bx Qx Rx. set (c' := set_socks c (c_socks c ++ [x])).
  assert (GA : forall j, get_sock c' j = if Nat.eqb j (length (c_socks c)) then Some x else get_sock c j)
    by (intro; apply get_sock_app).
  destruct W as [Wlen W0 W1 Wsd Wne Wla Wnd Wol War Whg Wk Wsdp Wval Winj Wbs Wsb Wun Wsq Wrq Wdq Wsl Wdm].
  assert (OLD : forall a j, listed c a j -> get_sock c' j = get_sock c j).
  { intros a j L. destruct (Wla a j L) as (sj & Gj & _). apply get_sock_lt in Gj. rewrite GA.
    replace (Nat.eqb j (length (c_socks c))) with false; auto. symmetry. apply Nat.eqb_neq. lia. }
  constructor; auto.
  - intros a j L. rewrite (OLD a j L). eauto.
  - intros j sj a Gj Aj Sj. rewrite GA in Gj. destruct (Nat.eqb j (length (c_socks c))); [|eapply Wol; eauto].
    inversion Gj; subst. congruence.
  - intros j sj a Gj Aj. rewrite GA in Gj. destruct (Nat.eqb j (length (c_socks c))); [|eapply War; eauto].
    inversion Gj; subst. congruence.
  - intros a j k sj sk Lj Lk Gj Gk. change (listed c a j) in Lj. change (listed c a k) in Lk.
    rewrite (OLD a j Lj) in Gj. rewrite (OLD a k Lk) in Gk. exact (Whg _ _ _ _ _ Lj Lk Gj Gk).
  - intros a j sj n L Gj Bj. change (listed c a j) in L. rewrite (OLD a j L) in Gj. eapply Wbs; eauto.
  - intros a j sj n Ha Ln L Gj. change (listed c a j) in L. rewrite (OLD a j L) in Gj. eapply Wsb; eauto.
  - intros j sj Gj Aj. rewrite GA in Gj. destruct (Nat.eqb j (length (c_socks c))); [|eapply Wun; eauto].
    inversion Gj; subst. auto.
  - intros j sj p Gj Tj Hp. rewrite GA in Gj. destruct (Nat.eqb j (length (c_socks c))); [|eapply Wsq; eauto].
    inversion Gj; subst. rewrite Qx in Hp. destruct Hp.
  - intros j sj p Gj Tj Hp. rewrite GA in Gj. destruct (Nat.eqb j (length (c_socks c))); [|eapply Wrq; eauto].
    inversion Gj; subst. rewrite Rx in Hp. destruct Hp.
  - intros j sj p Gj Tj Hp. rewrite GA in Gj. destruct (Nat.eqb j (length (c_socks c))); [|eapply Wdq; eauto].
    inversion Gj; subst. rewrite Qx in Hp. destruct Hp.
Qed.

(* ---------------------------------------------------------------- send_list of a SAP *)
Lemma wf_sendl c a l sl sl' : wf c -> sap_get c a = Sap l sl -> (forall p, In p sl' -> is_ui p = false) ->
  wf (sap_set c a (Sap l sl')).
Proof.
  intros W G NU.
  assert (Ra : 0 <= a < 64).
  { destruct (Z_lt_dec a 0); [rewrite sap_get_oob in G by lia; discriminate|].
    destruct (Z_lt_dec a 64); [lia|]. rewrite sap_get_oob in G by lia; discriminate. }
  assert (SO : forall b, socks_of (sap_get (sap_set c a (Sap l sl')) b) = socks_of (sap_get c b)).
  { intro b. destruct (Z.eq_dec a b).
    - subst b. rewrite sap_get_set_same by (auto; apply W). rewrite G. reflexivity.
    - rewrite sap_get_set_other by auto. reflexivity. }
  assert (FR : forall b, is_free (sap_set c a (Sap l sl')) b = is_free c b).
  { intro b. unfold is_free. destruct (Z.eq_dec a b).
    - subst b. rewrite sap_get_set_same by (auto; apply W). rewrite G. reflexivity.
    - rewrite sap_get_set_other by auto. reflexivity. }
  destruct W as [Wlen W0 W1 Wsd Wne Wla Wnd Wol War Whg Wk Wsdp Wval Winj Wbs Wsb Wun Wsq Wrq Wdq Wsl Wdm].
  constructor; unfold listed in *; try setoid_rewrite SO; try setoid_rewrite get_sock_sap_set;
    try setoid_rewrite FR; try rewrite sap_set_snl; auto.
  - rewrite sap_set_len. auto.
  - destruct (Z.eq_dec a 0).
    + subst a. rewrite sap_get_set_same by auto. destruct W0 as (sl0 & E0). rewrite E0 in G. inversion G; subst. eauto.
    + rewrite sap_get_set_other by auto. auto.
  - destruct (Z.eq_dec a 1); [subst a; rewrite W1 in G; discriminate|]. rewrite sap_get_set_other by auto. auto.
  - intros b Hb. destruct (Z.eq_dec a b); [subst b; rewrite sap_get_set_same by auto; discriminate|].
    rewrite sap_get_set_other by auto. auto.
  - intros b l0 sl0 Hb. destruct (Z.eq_dec a b).
    + subst b. rewrite sap_get_set_same by auto. intro E; inversion E; subst. eapply Wne; eauto.
    + rewrite sap_get_set_other by auto. eauto.
  - intros b l0 sl0 p. destruct (Z.eq_dec a b).
    + subst b. rewrite sap_get_set_same by auto. intro E; inversion E; subst. auto.
    + rewrite sap_get_set_other by auto. eauto.
  - unfold sap_set. destruct (in_range a); auto.
Qed.

(* ---------------------------------------------------------------- bind: a fresh SAP with one socket *)
Lemma set_snl_same c : set_snl c (c_snl c) = c.
Proof. destruct c; reflexivity. Qed.
Lemma set_bname_same s : set_bname s (s_bname s) = s.
Proof. destruct s; reflexivity. Qed.

Lemma lookup_none_notin {V} (l : list (name * V)) n : lookup l n = None -> ~ In n (map fst l).
Proof. induction l as [|[k v] t IH]; cbn; auto. destruct (name_eqb k n) eqn:E; [discriminate|].
  intros H [->|Hin]; [rewrite name_eqb_refl in E; discriminate | apply IH; auto]. Qed.

Lemma NoDup_app_single {A} (l : list A) x : NoDup l -> ~ In x l -> NoDup (l ++ [x]).
Proof. induction l as [|h t IH]; cbn; intros ND H; [constructor; [intros []|constructor]|].
  inversion ND; subst. constructor.
  - rewrite in_app_iff. cbn. intros [?|[?|[]]]; [contradiction | subst; tauto].
  - apply IH; auto. Qed.

Definition place_named (c : ctl) (i : nat) (s : sock) (a : Z) (on : option name) : ctl :=
  set_snl (place c i (set_bname s on) a)
          (match on with Some n => c_snl c ++ [(n, a)] | None => c_snl c end).

Lemma wf_place_named c i s a on :
  wf c -> get_sock c i = Some s -> s_addr s = None -> is_free c a = true -> 2 <= a < 64 ->
  (forall n, on = Some n -> lookup (c_snl c) n = None /\ name_valid n = true /\
                            (wks n = Some a \/ (wks n = None /\ 16 <= a < 32))) ->
  wf (place_named c i s a on).
Proof.
  intros W G A F Ra ON.
  set (s1 := set_addr (set_bname s on) (Some a)).
  set (snl' := match on with Some n => c_snl c ++ [(n, a)] | None => c_snl c end).
  set (c' := place_named c i s a on).
  pose proof (wf_len _ W) as Wlen0.
  assert (SG : forall b, sap_get c' b = if a =? b then Sap [i] [] else sap_get c b).
  { intro b. unfold c', place_named, place. destruct (a =? b) eqn:E.
    - replace b with a by lia. change (sap_get (sap_set (put_sock c i s1) a (Sap [i] [])) a = Sap [i] []).
      apply sap_get_set_same; [rewrite put_sock_sap; auto | lia].
    - change (sap_get (sap_set (put_sock c i s1) a (Sap [i] [])) b = sap_get c b).
      rewrite sap_get_set_other by lia. reflexivity. }
  assert (GS : forall j, get_sock c' j = if Nat.eqb i j then Some s1 else get_sock c j).
  { intro j. unfold c', place_named, place. change (get_sock (sap_set (put_sock c i s1) a (Sap [i] [])) j = if Nat.eqb i j then Some s1 else get_sock c j).
    rewrite get_sock_sap_set. eapply get_put; eauto. }
  assert (SN : c_snl c' = snl') by (unfold c', place_named, place; reflexivity).
  assert (Fa : sap_get c a = SapNone) by (apply is_free_iff; auto).
  assert (LI : forall b j, listed c' b j <-> (b = a /\ j = i) \/ (b <> a /\ listed c b j)).
  { intros b j. unfold listed. rewrite SG. destruct (a =? b) eqn:E.
    - cbn. split; [intros [<-|[]]; left; split; auto; lia | intros [[_ ->]|[N _]]; [auto | lia]].
    - split; [intro H; right; split; auto; lia | intros [[-> _]|[_ H]]; [lia | auto]]. }
  assert (FR : forall b, is_free c' b = if a =? b then false else is_free c b).
  { intro b. unfold is_free. rewrite SG. destruct (a =? b); reflexivity. }
  assert (NLa : forall j, ~ listed c a j) by (intro j; unfold listed; rewrite Fa; cbn; auto).
  assert (Bs : s_bname s = None) by (eapply wf_unbound_noname; eauto).
  assert (LK : forall m x, lookup snl' m = Some x ->
               (lookup (c_snl c) m = Some x /\ x <> a \/ x = 1 /\ lookup (c_snl c) m = Some x) \/
               (on = Some m /\ x = a /\ lookup (c_snl c) m = None)).
  { intros m x. unfold snl'. destruct on as [n|].
    - destruct (lookup (c_snl c) m) eqn:L.
      + rewrite (lookup_app_some _ _ _ _ _ L). intro H; inversion H; subst z. left.
        destruct (wf_snl_val _ W _ _ L) as [[_ ->]|(_ & _ & Fx & _)]; [right; auto|left]. split; auto.
        intro; subst x. congruence.
      + rewrite (lookup_app_none _ _ _ _ L). destruct (name_eqb n m) eqn:E; [|discriminate].
        apply name_eqb_eq in E. subst m. intro H; inversion H; subst. right. auto.
    - intro L. left. destruct (wf_snl_val _ W _ _ L) as [[_ ->]|(_ & _ & Fx & _)]; [right; auto|left]. split; auto.
      intro; subst x. congruence. }
  assert (LKold : forall m x, lookup (c_snl c) m = Some x -> lookup snl' m = Some x).
  { intros m x L. unfold snl'. destruct on; auto. apply lookup_app_some; auto. }
  destruct W as [Wlen W0 W1 Wsd Wne Wla Wnd Wol War Whg Wk Wsdp Wval Winj Wbs Wsb Wun Wsq Wrq Wdq Wsl Wdm].
  constructor.
  - unfold c', place_named, place. cbn [c_sap set_snl]. rewrite sap_set_len. rewrite put_sock_sap. auto.
  - rewrite SG. replace (a =? 0) with false by lia. auto.
  - rewrite SG. replace (a =? 1) with false by lia. auto.
  - intros b Hb. rewrite SG. destruct (a =? b); [discriminate | auto].
  - intros b l sl Hb. rewrite SG. destruct (a =? b); [intro E; inversion E; discriminate | eauto].
  - intros b j L. apply LI in L. rewrite GS. destruct L as [[-> ->]|[N L]].
    + rewrite Nat.eqb_refl. exists s1. split; auto.
    + destruct (Wla b j L) as (sj & Gj & Aj). destruct (Nat.eqb i j) eqn:E; [|eauto].
      apply Nat.eqb_eq in E. subst j. congruence.
  - intro b. rewrite SG. destruct (a =? b); [cbn; constructor; [intros []|constructor] | auto].
  - intros j sj b Gj Aj Sj. rewrite GS in Gj. apply LI. destruct (Nat.eqb i j) eqn:E.
    + apply Nat.eqb_eq in E. subst j. inversion Gj; subst sj. cbn in Aj. inversion Aj. auto.
    + right. assert (L : listed c b j) by (eapply Wol; eauto). split; auto. intro; subst b. eapply NLa; eauto.
  - intros j sj b Gj Aj. rewrite GS in Gj. destruct (Nat.eqb i j); [|eapply War; eauto].
    inversion Gj; subst sj. cbn in Aj. inversion Aj; subst; auto.
  - intros b j k sj sk Lj Lk Gj Gk. apply LI in Lj. apply LI in Lk. rewrite GS in Gj, Gk.
    destruct Lj as [[-> ->]|[Nb Lj]]; destruct Lk as [[E ->]|[Nb' Lk]]; try lia.
    + rewrite Nat.eqb_refl in Gj, Gk. congruence.
    + assert (i <> j) by (intro; subst j; destruct (Wla b i Lj) as (? & ? & ?); congruence).
      assert (i <> k) by (intro; subst k; destruct (Wla b i Lk) as (? & ? & ?); congruence).
      replace (Nat.eqb i j) with false in Gj by (symmetry; apply Nat.eqb_neq; auto).
      replace (Nat.eqb i k) with false in Gk by (symmetry; apply Nat.eqb_neq; auto).
      exact (Whg _ _ _ _ _ Lj Lk Gj Gk).
  - rewrite SN. unfold snl'. destruct on as [n|]; auto. destruct (ON n eq_refl) as (L & _).
    rewrite map_app. cbn. apply NoDup_app_single; auto. apply lookup_none_notin; auto.
  - rewrite SN. apply LKold. auto.
  - intros m x. rewrite SN. intro L. destruct (LK m x L) as [[[L0 Nx]|[-> L0]]|(-> & -> & L0)].
    + destruct (Wval m x L0) as [?|(V & X2 & Fx & Wk')]; [auto|]. right. rewrite FR.
      replace (a =? x) with false by lia. auto.
    + destruct (Wval m 1 L0) as [?|(V & X2 & _)]; [auto | lia].
    + destruct (ON m eq_refl) as (_ & V & Wk'). right. rewrite FR. rewrite Z.eqb_refl. repeat split; auto; lia.
  - intros n1 n2 x Hx. rewrite SN. intros L1 L2.
    destruct (LK n1 x L1) as [[[L10 N1]|[E1 L10]]|(O1 & E1 & L10)];
    destruct (LK n2 x L2) as [[[L20 N2]|[E2 L20]]|(O2 & E2 & L20)]; try lia; try congruence.
    eapply Winj; eauto.
  - intros b j sj m L Gj Bj. rewrite SN. apply LI in L. rewrite GS in Gj. destruct L as [[-> ->]|[Nb L]].
    + rewrite Nat.eqb_refl in Gj. inversion Gj; subst sj. cbn in Bj. subst on. unfold snl'.
      destruct (ON m eq_refl) as (L0 & _). rewrite (lookup_app_none _ _ _ _ L0). rewrite name_eqb_refl. reflexivity.
    + assert (i <> j) by (intro; subst j; destruct (Wla b i L) as (? & ? & ?); congruence).
      replace (Nat.eqb i j) with false in Gj by (symmetry; apply Nat.eqb_neq; auto).
      apply LKold. eapply Wbs; eauto.
  - intros b j sj m Hb. rewrite SN. intros Lm L Gj. apply LI in L. rewrite GS in Gj. destruct L as [[-> ->]|[Nb L]].
    + rewrite Nat.eqb_refl in Gj. inversion Gj; subst sj. cbn.
      destruct (LK m a Lm) as [[[L0 N]|[E L0]]|(O & _ & _)]; [congruence | lia | left; auto].
    + assert (i <> j) by (intro; subst j; destruct (Wla b i L) as (? & ? & ?); congruence).
      replace (Nat.eqb i j) with false in Gj by (symmetry; apply Nat.eqb_neq; auto).
      destruct (LK m b Lm) as [[[L0 N]|[E L0]]|(O & E & _)]; [eapply Wsb; eauto | lia | congruence].
  - intros j sj Gj Aj. rewrite GS in Gj. destruct (Nat.eqb i j); [|eapply Wun; eauto].
    inversion Gj; subst sj. cbn in Aj. discriminate.
  - intros j sj p Gj Tj Hp. rewrite GS in Gj. destruct (Nat.eqb i j) eqn:E; [|eapply Wsq; eauto].
    inversion Gj; subst sj. cbn in Tj, Hp. destruct (Wsq i s p G Tj Hp) as (d & data & a0 & _ & A0). congruence.
  - intros j sj p Gj Tj Hp. rewrite GS in Gj. destruct (Nat.eqb i j) eqn:E; [|eapply Wrq; eauto].
    inversion Gj; subst sj. cbn in Tj, Hp. destruct (Wrq i s p G Tj Hp) as (d & sa & data & _ & A0). congruence.
  - intros j sj p Gj Tj Hp. rewrite GS in Gj. destruct (Nat.eqb i j) eqn:E; [|eapply Wdq; eauto].
    inversion Gj; subst sj. cbn in Tj, Hp. eapply Wdq; eauto.
  - intros b l sl p. rewrite SG. destruct (a =? b); [intro E; inversion E; subst; intros [] | eauto].
  - unfold c', place_named, place. cbn [sd_dmpdu set_snl]. rewrite sap_set_dmpdu. exact Wdm.
Qed.

Lemma place_named_none c i s a : s_bname s = None -> place_named c i s a None = place c i s a.
Proof. intro B. unfold place_named. rewrite <- B at 1. rewrite set_bname_same.
  replace (c_snl c) with (c_snl (place c i s a)) by (unfold place; rewrite sap_set_snl; reflexivity).
  apply set_snl_same. Qed.

Lemma wf_place c i s a : wf c -> get_sock c i = Some s -> s_addr s = None -> is_free c a = true -> 2 <= a < 64 ->
  wf (place c i s a).
Proof. intros W G A F R. rewrite <- place_named_none by (eapply wf_unbound_noname; eauto).
  apply wf_place_named; auto. intros n H; discriminate. Qed.

(* ---------------------------------------------------------------- remove_socket *)
Lemma remove_id_nil l i : remove_id l i = [] -> l = [] \/ l = [i].
Proof. destruct l as [|x t]; cbn; auto. destruct (Nat.eqb x i) eqn:E; [|discriminate].
  apply Nat.eqb_eq in E. intros ->. subst. auto. Qed.

Lemma sap_get_range c a e : sap_get c a = e -> e <> SapNone -> 0 <= a < 64.
Proof. intros G N. destruct (Z_lt_dec a 0); [rewrite sap_get_oob in G by lia; congruence|].
  destruct (Z_lt_dec a 64); [lia|]. rewrite sap_get_oob in G by lia; congruence. Qed.

Lemma wf_sap_remove c a i s : wf c -> get_sock c i = Some s -> s_state s = StShutdown -> 2 <= a ->
  wf (sap_remove c a i).
Proof.
  intros W G St Ha. unfold sap_remove. destruct (sap_get c a) as [| |l sl] eqn:SG; auto.
  assert (Ra : 0 <= a < 64) by (eapply sap_get_range; eauto; discriminate).
  pose proof (wf_len _ W) as Wlen0.
  pose proof (wf_nodup _ W a) as NDl. rewrite SG in NDl. cbn in NDl.
  destruct (remove_id l i) as [|x t] eqn:RM.
  - (* last socket: the SAP and its names go *)
    assert (Li : l = [i]).
    { destruct (remove_id_nil _ _ RM) as [->| ->]; auto. exfalso. eapply (wf_nonempty _ W a); eauto. }
    subst l. set (f := fun kv : name * Z => negb (snd kv =? a)).
    set (c' := set_snl (sap_set c a SapNone) (filter f (c_snl c))).
    assert (SG' : forall b, sap_get c' b = if a =? b then SapNone else sap_get c b).
    { intro b. unfold c'. destruct (a =? b) eqn:E.
      - replace b with a by lia. change (sap_get (sap_set c a SapNone) a = SapNone). apply sap_get_set_same; auto.
      - change (sap_get (sap_set c a SapNone) b = sap_get c b). apply sap_get_set_other. lia. }
    assert (GS : forall j, get_sock c' j = get_sock c j) by (intro j; unfold c'; apply get_sock_sap_set).
    assert (LI : forall b j, listed c' b j <-> b <> a /\ listed c b j).
    { intros b j. unfold listed. rewrite SG'. destruct (a =? b) eqn:E; cbn; [split; [intros [] | intros [N _]; lia]|].
      split; [intro; split; auto; lia | tauto]. }
    assert (FR : forall b, is_free c' b = if a =? b then true else is_free c b).
    { intro b. unfold is_free. rewrite SG'. destruct (a =? b); reflexivity. }
    assert (LK : forall n x, lookup (c_snl c') n = Some x <-> lookup (c_snl c) n = Some x /\ x <> a).
    { intros n x. unfold c'. cbn [c_snl set_snl]. unfold f.
      rewrite (lookup_filter_val (c_snl c) (fun v => negb (v =? a)) n (wf_snl_keys _ W)).
      destruct (lookup (c_snl c) n) as [v|]; [|split; [discriminate | intros [? _]; discriminate]].
      destruct (v =? a) eqn:E; cbn; split; try discriminate.
      - intros [H N]. inversion H; subst. lia.
      - intro H; inversion H; subst. split; auto. lia.
      - tauto. }
    destruct W as [Wlen W0 W1 Wsd Wne Wla Wnd Wol War Whg Wk Wsdp Wval Winj Wbs Wsb Wun Wsq Wrq Wdq Wsl Wdm].
    constructor.
    + unfold c'. cbn [c_sap set_snl]. rewrite sap_set_len. auto.
    + rewrite SG'. replace (a =? 0) with false by lia. auto.
    + rewrite SG'. replace (a =? 1) with false by lia. auto.
    + intros b Hb. rewrite SG'. destruct (a =? b); [discriminate | auto].
    + intros b l sl0 Hb. rewrite SG'. destruct (a =? b); [discriminate | eauto].
    + intros b j L. apply LI in L. destruct L as [_ L]. rewrite GS. auto.
    + intro b. rewrite SG'. destruct (a =? b); [constructor | auto].
    + intros j sj b Gj Aj Sj. rewrite GS in Gj. apply LI. pose proof (Wol j sj b Gj Aj Sj) as L. split; auto.
      intro; subst b. unfold listed in L. rewrite SG in L. cbn in L. destruct L as [<-|[]]. congruence.
    + intros j sj b Gj. rewrite GS in Gj. eauto.
    + intros b j k sj sk Lj Lk Gj Gk. apply LI in Lj. apply LI in Lk. rewrite GS in Gj, Gk.
      exact (Whg _ _ _ _ _ (proj2 Lj) (proj2 Lk) Gj Gk).
    + unfold c'. cbn [c_snl set_snl]. apply filter_keys_nodup. auto.
    + apply LK. split; auto. lia.
    + intros n x L. apply LK in L. destruct L as [L N]. destruct (Wval n x L) as [?|(V & X & Fx & K)]; auto.
      right. rewrite FR. replace (a =? x) with false by lia. auto.
    + intros n1 n2 x Hx L1 L2. apply LK in L1. apply LK in L2. eapply Winj; eauto; tauto.
    + intros b j sj n L Gj Bj. apply LI in L. rewrite GS in Gj. apply LK. split; [eapply Wbs; eauto; tauto | tauto].
    + intros b j sj n Hb Ln L Gj. apply LK in Ln. apply LI in L. rewrite GS in Gj. eapply Wsb; eauto; tauto.
    + intros j sj Gj. rewrite GS in Gj. eauto.
    + intros j sj p Gj. rewrite GS in Gj. eauto.
    + intros j sj p Gj. rewrite GS in Gj. eauto.
    + intros j sj p Gj. rewrite GS in Gj. eauto.
    + intros b l sl0 p. rewrite SG'. destruct (a =? b); [discriminate | eauto].
    + unfold c'. cbn [sd_dmpdu set_snl]. rewrite sap_set_dmpdu. exact Wdm.
  - (* other sockets remain *)
    rewrite <- RM. set (l' := remove_id l i).
    assert (NE : l' <> []) by (unfold l'; rewrite RM; discriminate).
    set (c' := sap_set c a (Sap l' sl)).
    assert (SG' : forall b, sap_get c' b = if a =? b then Sap l' sl else sap_get c b).
    { intro b. unfold c'. destruct (a =? b) eqn:E.
      - replace b with a by lia. apply sap_get_set_same; auto.
      - apply sap_get_set_other. lia. }
    assert (GS : forall j, get_sock c' j = get_sock c j) by (intro j; unfold c'; apply get_sock_sap_set).
    assert (LI : forall b j, listed c' b j -> listed c b j).
    { intros b j. unfold listed. rewrite SG'. destruct (a =? b) eqn:E; auto.
      replace b with a by lia. rewrite SG. cbn. apply remove_id_in. }
    assert (FR : forall b, is_free c' b = is_free c b).
    { intro b. unfold is_free. rewrite SG'. destruct (a =? b) eqn:E; auto. replace b with a by lia. rewrite SG. reflexivity. }
    destruct W as [Wlen W0 W1 Wsd Wne Wla Wnd Wol War Whg Wk Wsdp Wval Winj Wbs Wsb Wun Wsq Wrq Wdq Wsl Wdm].
    constructor; try (unfold c'; rewrite sap_set_snl); auto.
    + unfold c'. rewrite sap_set_len. auto.
    + rewrite SG'. replace (a =? 0) with false by lia. auto.
    + rewrite SG'. replace (a =? 1) with false by lia. auto.
    + intros b Hb. rewrite SG'. destruct (a =? b); [discriminate | auto].
    + intros b l0 sl0 Hb. rewrite SG'. destruct (a =? b); [intro E; inversion E; subst; auto | eauto].
    + intros b j L. apply LI in L. rewrite GS. auto.
    + intro b. rewrite SG'. destruct (a =? b); [cbn; apply remove_id_nodup; auto | auto].
    + intros j sj b Gj Aj Sj. rewrite GS in Gj. pose proof (Wol j sj b Gj Aj Sj) as L.
      unfold listed in *. rewrite SG'. destruct (a =? b) eqn:E; auto.
      replace b with a in L by lia. rewrite SG in L. cbn in *. apply remove_id_keeps; auto.
      intro; subst j. congruence.
    + intros j sj b Gj. rewrite GS in Gj. eauto.
    + intros b j k sj sk Lj Lk Gj Gk. apply LI in Lj. apply LI in Lk. rewrite GS in Gj, Gk.
      exact (Whg _ _ _ _ _ Lj Lk Gj Gk).
    + intros n v L. destruct (Wval n v L) as [?|(V & X & Fx & K)]; auto. right. rewrite FR. auto.
    + intros b j sj n L Gj Bj. apply LI in L. rewrite GS in Gj. eapply Wbs; eauto.
    + intros b j sj n Hb Ln L Gj. apply LI in L. rewrite GS in Gj. eapply Wsb; eauto.
    + intros j sj Gj. rewrite GS in Gj. eauto.
    + intros j sj p Gj. rewrite GS in Gj. eauto.
    + intros j sj p Gj. rewrite GS in Gj. eauto.
    + intros j sj p Gj. rewrite GS in Gj. eauto.
    + intros b l0 sl0 p. rewrite SG'. destruct (a =? b) eqn:E; [|eauto]. intro H; inversion H; subst.
      eapply (Wsl a); eauto.
    + unfold c'. rewrite sap_set_dmpdu. exact Wdm.
Qed.

(* ---------------------------------------------------------------- accept: a new socket joins an existing SAP *)
Lemma wf_accept c a i si client :
  wf c -> listed c a i -> get_sock c i = Some si -> s_type si = TDlc ->
  s_addr client = Some a -> s_type client = TDlc -> s_bname client = None -> nolisten (s_state client) ->
  s_sendq client = [] ->
  exists c3, sap_insert (set_socks c (c_socks c ++ [client])) a (length (c_socks c)) TDlc = Some c3 /\ wf c3 /\
             listed c3 a (length (c_socks c)) /\ get_sock c3 (length (c_socks c)) = Some client /\
             (forall k, k <> length (c_socks c) -> get_sock c3 k = get_sock c k) /\
             (forall b, b <> a -> sap_get c3 b = sap_get c b) /\ c_snl c3 = c_snl c.
Proof.
  intros W Li Gi Ti Ac Tc Bc Nc Qc.
  set (j := length (c_socks c)). set (c2 := set_socks c (c_socks c ++ [client])).
  assert (G2 : forall k, get_sock c2 k = if Nat.eqb k j then Some client else get_sock c k) by (intro; apply get_sock_app).
  destruct (sap_get c a) as [| |l sl] eqn:SG; try (unfold listed in Li; rewrite SG in Li; destruct Li).
  assert (Ra : 0 <= a < 64) by (eapply sap_get_range; eauto; discriminate).
  pose proof (wf_len _ W) as Wlen0.
  assert (LT : forall b k, listed c b k -> k <> j).
  { intros b k L. destruct (wf_listed_addr _ W b k L) as (sk & Gk & _). apply get_sock_lt in Gk. unfold j. lia. }
  unfold sap_insert. change (sap_get c2 a) with (sap_get c a). rewrite SG.
  assert (INS : match l with [] => true | h :: _ => match get_sock c2 h with Some sh => stype_eqb (s_type sh) TDlc | None => false end end = true).
  { destruct l as [|h t]; auto. assert (Lh : listed c a h) by (unfold listed; rewrite SG; left; auto).
    destruct (wf_listed_addr _ W a h Lh) as (sh & Gh & _). rewrite G2.
    replace (Nat.eqb h j) with false by (symmetry; apply Nat.eqb_neq; eapply LT; eauto). rewrite Gh.
    rewrite (wf_homog _ W a h i sh si Lh Li Gh Gi), Ti. reflexivity. }
  rewrite INS. set (c3 := sap_set c2 a (Sap (j :: l) sl)). exists c3. split; auto.
  assert (SG' : forall b, sap_get c3 b = if a =? b then Sap (j :: l) sl else sap_get c b).
  { intro b. unfold c3. destruct (a =? b) eqn:E.
    - replace b with a by lia. apply sap_get_set_same; auto.
    - rewrite sap_get_set_other by lia. reflexivity. }
  assert (GS : forall k, get_sock c3 k = if Nat.eqb k j then Some client else get_sock c k).
  { intro k. unfold c3. rewrite get_sock_sap_set. apply G2. }
  assert (LI : forall b k, listed c3 b k <-> (b = a /\ k = j) \/ listed c b k).
  { intros b k. unfold listed. rewrite SG'. destruct (a =? b) eqn:E.
    - replace b with a by lia. rewrite SG. cbn. split; [intros [<-|H]; auto | intros [[_ ->]|H]; auto].
    - split; auto. intros [[-> _]|H]; auto. lia. }
  assert (FR : forall b, is_free c3 b = is_free c b).
  { intro b. unfold is_free. rewrite SG'. destruct (a =? b) eqn:E; auto. replace b with a by lia. rewrite SG. reflexivity. }
  assert (SN : c_snl c3 = c_snl c) by (unfold c3; rewrite sap_set_snl; reflexivity).
  assert (OLD : forall b k, listed c b k -> get_sock c3 k = get_sock c k).
  { intros b k L. rewrite GS. replace (Nat.eqb k j) with false; auto. symmetry. apply Nat.eqb_neq. eapply LT; eauto. }
  assert (A2 : 2 <= a) by (destruct (wf_listed_addr _ W a i Li) as (s0 & G0 & A0); eapply (wf_addr_range _ W); eauto).
  split; [|split; [apply LI; auto | split; [rewrite GS, Nat.eqb_refl; auto | split; [|split; auto]]]].
  2:{ intros k Hk. rewrite GS. replace (Nat.eqb k j) with false; auto. symmetry. apply Nat.eqb_neq. auto. }
  2:{ intros b Hb. rewrite SG'. replace (a =? b) with false by lia. auto. }
  destruct W as [Wlen W0 W1 Wsd Wne Wla Wnd Wol War Whg Wk Wsdp Wval Winj Wbs Wsb Wun Wsq Wrq Wdq Wsl Wdm].
  constructor; try rewrite SN; auto.
  - unfold c3. rewrite sap_set_len. auto.
  - rewrite SG'. replace (a =? 0) with false by lia. auto.
  - rewrite SG'. replace (a =? 1) with false by lia. auto.
  - intros b Hb. rewrite SG'. destruct (a =? b); [discriminate | auto].
  - intros b l0 sl0 Hb. rewrite SG'. destruct (a =? b); [intro E; inversion E; discriminate | eauto].
  - intros b k L. apply LI in L. destruct L as [[-> ->]|L].
    + rewrite GS, Nat.eqb_refl. eauto.
    + rewrite (OLD b k L). auto.
  - intro b. rewrite SG'. destruct (a =? b) eqn:E; auto. cbn. constructor.
    + intro H. eapply (LT a j); auto. unfold listed. rewrite SG. auto.
    + specialize (Wnd a). rewrite SG in Wnd. auto.
  - intros k sk b Gk Ak Sk. rewrite GS in Gk. apply LI. destruct (Nat.eqb k j) eqn:E.
    + apply Nat.eqb_eq in E. inversion Gk; subst. left. split; congruence.
    + right. eauto.
  - intros k sk b Gk Ak. rewrite GS in Gk. destruct (Nat.eqb k j); [|eauto].
    inversion Gk; subst sk. rewrite Ac in Ak. inversion Ak; subst b. lia.
  - intros b k m sk sm Lk Lm Gk Gm. apply LI in Lk. apply LI in Lm. rewrite GS in Gk, Gm.
    assert (TK : forall x sx, (b = a /\ x = j) \/ listed c b x ->
                 (if Nat.eqb x j then Some client else get_sock c x) = Some sx ->
                 (b = a /\ s_type sx = TDlc) \/ (listed c b x /\ get_sock c x = Some sx)).
    { intros x sx [[-> ->]|L] Gx.
      - rewrite Nat.eqb_refl in Gx. inversion Gx; subst. auto.
      - replace (Nat.eqb x j) with false in Gx by (symmetry; apply Nat.eqb_neq; eapply LT; eauto). auto. }
    destruct (TK k sk Lk Gk) as [[-> T1]|[L1 G1]]; destruct (TK m sm Lm Gm) as [[E2 T2]|[L2 G2']]; try congruence.
    + rewrite T1. rewrite (Whg a m i sm si L2 Li G2' Gi). auto.
    + subst b. rewrite T2. rewrite (Whg a k i sk si L1 Li G1 Gi). auto.
    + exact (Whg _ _ _ _ _ L1 L2 G1 G2').
  - intros n x L. destruct (Wval n x L) as [?|(V & X & Fx & K)]; auto. right. rewrite FR. auto.
  - intros b k sk n L Gk Bk. apply LI in L. rewrite GS in Gk. destruct L as [[-> ->]|L].
    + rewrite Nat.eqb_refl in Gk. inversion Gk; subst. congruence.
    + replace (Nat.eqb k j) with false in Gk by (symmetry; apply Nat.eqb_neq; eapply LT; eauto). eapply Wbs; eauto.
  - intros b k sk n Hb Ln L Gk. apply LI in L. rewrite GS in Gk. destruct L as [[-> ->]|L].
    + rewrite Nat.eqb_refl in Gk. inversion Gk; subst. right. auto.
    + replace (Nat.eqb k j) with false in Gk by (symmetry; apply Nat.eqb_neq; eapply LT; eauto). eapply Wsb; eauto.
  - intros k sk Gk Ak. rewrite GS in Gk. destruct (Nat.eqb k j); [|eauto]. inversion Gk; subst. congruence.
  - intros k sk p Gk Tk Hp. rewrite GS in Gk. destruct (Nat.eqb k j); [|eapply Wsq; eauto]. inversion Gk; subst. congruence.
  - intros k sk p Gk Tk Hp. rewrite GS in Gk. destruct (Nat.eqb k j); [|eapply Wrq; eauto]. inversion Gk; subst. congruence.
  - intros k sk p Gk Tk Hp. rewrite GS in Gk. destruct (Nat.eqb k j); [|eapply Wdq; eauto]. inversion Gk; subst.
    rewrite Qc in Hp. destruct Hp.
  - intros b l0 sl0 p. rewrite SG'. destruct (a =? b) eqn:E; [|eauto]. intro H; inversion H; subst. eapply (Wsl a); eauto.
  - unfold c3. rewrite sap_set_dmpdu. exact Wdm.
Qed.
