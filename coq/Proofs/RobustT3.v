(* C07: Type3TagEmulation.process_command answers every command - arbitrary bytes - with a response or None.
   Hypotheses are about the LOCAL configuration only: IDm/PMm of 8 bytes, a 2-byte system code, and a block read
   function that returns at most 16 bytes per block. *)
From Coq Require Import ZArith List Bool Lia ZifyBool.
From NV Require Import Base.Result Base.Bytes Base.PyPrims Model.T3Emu.
Import ListNotations.
Open Scope Z_scope.

(* a parser result: a value, or the IndexError the repaired process_command turns into "no response" *)
Definition okidx {A} (r : res A) : Prop := match r with Ok _ | Crash IndexErr => True | _ => False end.

Lemma okidx_idx l i : okidx (idx l i).
Proof. unfold idx. destruct (i <? 0); [exact I|]. destruct (nth_error l (Z.to_nat i)); exact I. Qed.

Lemma okidx_bind {A B} (r : res A) (f : A -> res B) : okidx r -> (forall a, r = Ok a -> okidx (f a)) -> okidx (bind r f).
Proof. destruct r as [a|e|c|]; cbn [okidx bind]; try tauto. intros _ H. apply H. reflexivity. Qed.

(* ---------------------------------------------------------------- dictionary *)
Lemma dget_fold (d : list (Z * Z)) (k : Z) : forall acc : option Z,
  fold_left (fun (acc : option Z) (e : Z * Z) => if fst e =? k then Some (snd e) else acc) d acc <> None <-> (acc <> None \/ In k (map fst d)).
Proof.
  induction d as [|[a b] d IH]; intro acc; cbn [fold_left map In fst snd].
  - tauto.
  - rewrite IH. destruct (a =? k) eqn:E.
    + split; [intros _; right; left; lia | intros _; left; discriminate].
    + split; [intros [H | H]; [left; exact H | right; right; exact H] | intros [H | [H | H]]; [left; exact H | lia | right; exact H]].
Qed.
Lemma dget_ok (d : list (Z * Z)) (k : Z) : In k (map fst d) -> exists v, dget d k = Ok v.
Proof.
  intro H. unfold dget.
  destruct (fold_left _ d None) as [v|] eqn:E; [eexists; reflexivity|].
  exfalso. apply (proj2 (dget_fold d k None)); [right; exact H | exact E].
Qed.
Lemma dset_keys (d : list (Z * Z)) (k v : Z) : map fst (dset d k v) = map fst d.
Proof.
  unfold dset. rewrite map_map. apply map_ext_in. intros [a b] _. cbn [fst]. destruct (a =? k) eqn:E; cbn [fst]; lia.
Qed.

Lemma set_nth_keys (sl : list (Z * Z)) : forall k code cnt c',
  nth_error sl k = Some (code, cnt) -> map fst (set_nth k (code, c') sl) = map fst sl.
Proof.
  induction sl as [|h t IH]; intros [|k] code cnt c'; cbn [nth_error set_nth map]; try discriminate.
  - intro H. inversion H; subst. reflexivity.
  - intro H. f_equal. eapply IH, H.
Qed.
Lemma nth_error_key (sl : list (Z * Z)) k code cnt : nth_error sl k = Some (code, cnt) -> In code (map fst sl).
Proof. intro H. apply nth_error_In in H. apply (in_map fst) in H. exact H. Qed.

Section Emu.
Variables (idm pmm sys svcs : list Z).
Variable rdf : Z -> Z -> bool -> bool -> option (list Z).
Variable wrf : Z -> Z -> list Z -> bool -> bool -> bool.
Hypothesis Hidm : len idm = 8.
Hypothesis Hpmm : len pmm = 8.
Hypothesis Hsys : len sys = 2.
Hypothesis Hrd : forall sc bn rb re d, rdf sc bn rb re = Some d -> len d <= 16.

Definition known (code : Z) : Prop := memz code svcs = true.

(* ---------------------------------------------------------------- service list *)
Lemma parse_services_spec n : forall err cd acc, Forall (fun e => known (fst e)) acc ->
  match parse_services svcs n err cd acc with
  | Ok (Go (sl, _)) => Forall (fun e => known (fst e)) sl
  | Ok (Rsp r) => r = err
  | Crash IndexErr => True
  | _ => False
  end.
Proof.
  induction n as [|n IH]; intros err cd acc Ha; cbn [parse_services]; [exact Ha|].
  pose proof (okidx_idx cd 1) as H1. destruct (idx cd 1) as [b1| |c|]; cbn [okidx bind] in *; try tauto.
  pose proof (okidx_idx cd 0) as H0. destruct (idx cd 0) as [b0| |c0|]; cbn [okidx bind] in *; try tauto.
  destruct (memz (Z.lor (Z.shiftl b1 8) b0) svcs) eqn:E; cbn [negb]; [|reflexivity].
  apply IH. apply Forall_app. split; [exact Ha|]. constructor; [exact E | constructor].
Qed.

(* ---------------------------------------------------------------- block list *)
Definition bl_ok (sl : list (Z * Z)) (bl : list (Z * Z)) : Prop := Forall (fun e => In (fst e) (map fst sl)) bl.

Lemma parse_blocks_spec m : forall i cd sl acc, bl_ok sl acc ->
  match parse_blocks m i cd sl acc with
  | Ok (Go (sl', bl, _)) => map fst sl' = map fst sl /\ bl_ok sl' bl /\ length bl = (length acc + m)%nat
  | Ok (Rsp r) => len r = 2
  | Crash IndexErr => True
  | _ => False
  end.
Proof.
  induction m as [|m IH]; intros i cd sl acc Ha; cbn [parse_blocks].
  - repeat split; [exact Ha | lia].
  - destruct (nth_error cd 0) as [b0|]; [|reflexivity].
    destruct (nth_error sl (Z.to_nat (Z.land b0 15))) as [[code cnt]|] eqn:En; [|reflexivity].
    pose proof (set_nth_keys sl _ code cnt (cnt + 1) En) as Hk.
    pose proof (nth_error_key sl _ code cnt En) as Hin.
    assert (Hacc : forall bn, bl_ok (set_nth (Z.to_nat (Z.land b0 15)) (code, cnt + 1) sl) (acc ++ [(code, bn)])).
    { intro bn. unfold bl_ok. rewrite Hk. apply Forall_app. split; [exact Ha|]. constructor; [exact Hin | constructor]. }
    destruct (b0 >=? 128).
    + pose proof (okidx_idx cd 1) as H1. destruct (idx cd 1) as [bn| |c|]; cbn [okidx bind] in *; try tauto.
      specialize (IH (i + 1) (drop 2 cd) _ _ (Hacc bn)).
      destruct (parse_blocks m (i + 1) (drop 2 cd) _ _) as [[r|[[sl' bl] cd']]|e|c|]; try exact IH.
      destruct IH as (A & B & C). rewrite A, Hk. repeat split; [exact B|]. rewrite C, app_length. cbn [length]. lia.
    + pose proof (okidx_idx cd 2) as H2. destruct (idx cd 2) as [b2| |c|]; cbn [okidx bind] in *; try tauto.
      pose proof (okidx_idx cd 1) as H1. destruct (idx cd 1) as [b1| |c|]; cbn [okidx bind] in *; try tauto.
      specialize (IH (i + 1) (drop 3 cd) _ _ (Hacc (Z.lor (Z.shiftl b2 8) b1))).
      destruct (parse_blocks m (i + 1) (drop 3 cd) _ _) as [[r|[[sl' bl] cd']]|e|c|]; try exact IH.
      destruct IH as (A & B & C). rewrite A, Hk. repeat split; [exact B|]. rewrite C, app_length. cbn [length]. lia.
Qed.

(* ---------------------------------------------------------------- annotate / loops *)
Definition abl_ok (d : list (Z * Z)) (bl : list (Z * Z * Z)) : Prop :=
  Forall (fun t => In (fst (fst t)) (map fst d) /\ known (fst (fst t))) bl.

Lemma annotate_spec d : forall bl, bl_ok d bl -> Forall (fun e => known (fst e)) d ->
  exists bl', annotate d bl = Ok bl' /\ abl_ok d bl' /\ length bl' = length bl.
Proof.
  intros bl Hb Hk. induction bl as [|[sc bn] r IH]; cbn [annotate].
  - exists []. repeat split. constructor.
  - inversion Hb as [|? ? Hin Hr]; subst. cbn [fst] in Hin.
    destruct (dget_ok d sc Hin) as [c ->]. cbn [bind].
    destruct (IH Hr) as (r' & -> & Ha & Hl). cbn [bind]. eexists. split; [reflexivity|]. split.
    + constructor; [|exact Ha]. cbn [fst]. split; [exact Hin|].
      apply in_map_iff in Hin. destruct Hin as ([a b] & <- & Hin). rewrite Forall_forall in Hk. apply (Hk _ Hin).
    + cbn [length]. lia.
Qed.

Lemma services_get_ok sc : known sc -> services_get svcs sc = Ok tt.
Proof. unfold services_get, known. intros ->. reflexivity. Qed.

Lemma read_loop_spec : forall bl i d acc, abl_ok d bl ->
  match read_loop svcs rdf bl i d acc with
  | Ok (Go data) => len data <= len acc + 16 * Z.of_nat (length bl)
  | Ok (Rsp r) => len r = 2
  | _ => False
  end.
Proof.
  induction bl as [|[[sc bn] bc] r IH]; intros i d acc Ha; cbn [read_loop].
  - cbn [length]. lia.
  - inversion Ha as [|? ? [Hin Hkn] Hr]; subst. cbn [fst] in *.
    destruct (dget_ok d sc Hin) as [c ->]. cbn [bind]. rewrite (services_get_ok sc Hkn). cbn [bind].
    destruct (rdf sc bn (bc =? c) (c - 1 =? 0)) as [one|] eqn:Er; [|reflexivity].
    assert (Ha' : abl_ok (dset d sc (c - 1)) r).
    { unfold abl_ok. rewrite dset_keys. exact Hr. }
    specialize (IH (i + 1) _ (acc ++ one) Ha').
    destruct (read_loop svcs rdf r (i + 1) _ _) as [[rr|data]|e|cc|]; try exact IH.
    rewrite len_app in IH. pose proof (Hrd _ _ _ _ _ Er). cbn [length]. lia.
Qed.

Lemma write_loop_spec bd : forall bl i d, abl_ok d bl ->
  exists r, write_loop svcs wrf bl i d bd = Ok r /\ len r = 2.
Proof.
  induction bl as [|[[sc bn] bc] r IH]; intros i d Ha; cbn [write_loop].
  - eexists. split; reflexivity.
  - inversion Ha as [|? ? [Hin Hkn] Hr]; subst. cbn [fst] in *.
    destruct (dget_ok d sc Hin) as [c ->]. cbn [bind]. rewrite (services_get_ok sc Hkn). cbn [bind].
    destruct (negb _); [eexists; split; reflexivity|].
    apply IH. unfold abl_ok. rewrite dset_keys. exact Hr.
Qed.

Definition rsp_le (n : Z) (r : res (list Z)) : Prop :=
  match r with Ok rsp => len rsp <= n | Crash IndexErr => True | _ => False end.

Lemma pop0_ok cd : okidx (pop0 cd).
Proof. destruct cd; exact I. Qed.

Lemma ba2_ok a b rest : 0 <= a < 256 -> ba2 a b rest = Ok (a :: b :: rest).
Proof. intro H. unfold ba2. replace ((0 <=? a) && (a <? 256)) with true by lia. reflexivity. Qed.

Lemma read_spec cd : rsp_le 243 (read_without_encryption svcs rdf cd).
Proof.
  unfold read_without_encryption. destruct cd as [|n cd1]; [exact I|]. cbn [pop0 bind].
  pose proof (parse_services_spec (Z.to_nat n) [255; 161] cd1 [] (Forall_nil _)) as H1.
  destruct (parse_services svcs (Z.to_nat n) [255; 161] cd1 []) as [[r|[sl cd2]]|e|c|]; cbn [bind]; try exact H1.
  { subst r. cbn [rsp_le]. cbn. lia. }
  destruct cd2 as [|m cd3]; [exact I|]. cbn [pop0 bind].
  destruct (m >? 15) eqn:Em; [cbn; lia|].
  pose proof (parse_blocks_spec (Z.to_nat m) 0 cd3 sl [] (Forall_nil _)) as H2.
  destruct (parse_blocks (Z.to_nat m) 0 cd3 sl []) as [[r|[[sl' bl] cd4]]|e|c|]; cbn [bind]; try exact H2.
  { cbn [rsp_le]. lia. }
  destruct H2 as (Hk & Hb & Hl).
  assert (Hkn : Forall (fun e => known (fst e)) sl').
  { apply Forall_forall. intros [a b] Hin. cbn [fst].
    assert (Hin2 : In a (map fst sl)) by (rewrite <- Hk; apply (in_map fst) in Hin; exact Hin).
    apply in_map_iff in Hin2. destruct Hin2 as ([a' b'] & Heq & Hin2). cbn [fst] in Heq. subst a'.
    rewrite Forall_forall in H1. apply (H1 _ Hin2). }
  destruct (annotate_spec sl' bl Hb Hkn) as (bl' & -> & Ha & Hl'). cbn [bind].
  pose proof (read_loop_spec bl' 0 sl' [] Ha) as H3.
  destruct (read_loop svcs rdf bl' 0 sl' []) as [[r|data]|e|c|]; cbn [bind]; try (exfalso; exact H3).
  { cbn [rsp_le]. lia. }
  change (len (@nil Z)) with 0 in H3. cbn [length] in Hl. pose proof (len_nonneg data).
  assert (len data <= 240) by lia.
  rewrite ba2_ok by lia. cbn [rsp_le]. rewrite !len_cons. lia.
Qed.

Lemma write_spec cd : rsp_le 2 (write_without_encryption svcs wrf cd).
Proof.
  unfold write_without_encryption. destruct cd as [|n cd1]; [exact I|]. cbn [pop0 bind].
  pose proof (parse_services_spec (Z.to_nat n) [255; 161] cd1 [] (Forall_nil _)) as H1.
  destruct (parse_services svcs (Z.to_nat n) [255; 161] cd1 []) as [[r|[sl cd2]]|e|c|]; cbn [bind]; try exact H1.
  { subst r. cbn. lia. }
  destruct cd2 as [|m cd3]; [exact I|]. cbn [pop0 bind].
  pose proof (parse_blocks_spec (Z.to_nat m) 0 cd3 sl [] (Forall_nil _)) as H2.
  destruct (parse_blocks (Z.to_nat m) 0 cd3 sl []) as [[r|[[sl' bl] cd4]]|e|c|]; cbn [bind]; try exact H2.
  { cbn [rsp_le]. lia. }
  destruct H2 as (Hk & Hb & Hl).
  assert (Hkn : Forall (fun e => known (fst e)) sl').
  { apply Forall_forall. intros [a b] Hin. cbn [fst].
    assert (Hin2 : In a (map fst sl)) by (rewrite <- Hk; apply (in_map fst) in Hin; exact Hin).
    apply in_map_iff in Hin2. destruct Hin2 as ([a' b'] & Heq & Hin2). cbn [fst] in Heq. subst a'.
    rewrite Forall_forall in H1. apply (H1 _ Hin2). }
  destruct (annotate_spec sl' bl Hb Hkn) as (bl' & -> & Ha & Hl'). cbn [bind].
  destruct (negb _); [cbn; lia|].
  destruct (write_loop_spec cd4 bl' 0 sl' Ha) as (r & -> & Hr). cbn [rsp_le]. lia.
Qed.

Lemma inner_spec cmd : okidx (process_inner idm pmm sys svcs rdf wrf cmd).
Proof.
  unfold process_inner. pose proof (len_nonneg idm). 
  destruct (is_polling sys cmd).
  { unfold polling. pose proof (okidx_idx (drop 2 cmd) 2) as H2.
    destruct (idx (drop 2 cmd) 2) as [rc| |c|]; cbn [okidx bind] in *; try tauto.
    destruct (rc =? 1); rewrite ba2_ok by (rewrite ?len_app; lia); exact I. }
  destruct (list_eqb (slice cmd 2 10) idm); [|exact I].
  pose proof (okidx_idx cmd 1) as H1. destruct (idx cmd 1) as [c1| |c|]; cbn [okidx bind] in *; try tauto.
  destruct (c1 =? 4). { rewrite ba2_ok by lia. exact I. }
  destruct (c1 =? 6).
  { pose proof (read_spec (drop 10 cmd)) as Hr.
    destruct (read_without_encryption svcs rdf (drop 10 cmd)) as [rsp| |c|]; cbn [rsp_le bind okidx] in *; try tauto.
    pose proof (len_nonneg rsp). rewrite ba2_ok by lia. exact I. }
  destruct (c1 =? 8).
  { pose proof (write_spec (drop 10 cmd)) as Hr.
    destruct (write_without_encryption svcs wrf (drop 10 cmd)) as [rsp| |c|]; cbn [rsp_le bind okidx] in *; try tauto.
    pose proof (len_nonneg rsp). rewrite ba2_ok by lia. exact I. }
  destruct (c1 =? 12). { rewrite ba2_ok by (rewrite len_cons; lia). exact I. }
  exact I.
Qed.

(* process_command returns None or a response, for every command *)
Theorem tt3emu_total cmd :
  process_command idm pmm sys svcs rdf wrf cmd = Ok None \/
  exists rsp, process_command idm pmm sys svcs rdf wrf cmd = Ok (Some rsp).
Proof.
  unfold process_command. destruct cmd as [|c0 t]; [left; reflexivity|].
  destruct (negb (len (c0 :: t) =? c0)); [left; reflexivity|].
  pose proof (inner_spec (c0 :: t)) as H.
  destruct (process_inner idm pmm sys svcs rdf wrf (c0 :: t)) as [[rsp|]| |c|]; cbn [okidx] in H.
  - right. eexists. reflexivity.
  - left. reflexivity.
  - tauto.
  - destruct c; try tauto; left; reflexivity.
  - tauto.
Qed.

(* a command whose length byte is wrong is ignored *)
Theorem tt3emu_length_rule c0 t : c0 <> 1 + len t -> process_command idm pmm sys svcs rdf wrf (c0 :: t) = Ok None.
Proof. intro H. unfold process_command. rewrite len_cons. replace (1 + len t =? c0) with false by lia. reflexivity. Qed.

End Emu.

(* the code as it was: the empty command and the 10-byte read command of the check's corpus raise IndexError *)
Lemma orig_empty_command : ex_process [2;254;1;2;3;4;5;6] [255;255;255;255;255;255;255;255] [18;252] 12 true [] = Crash IndexErr.
Proof. reflexivity. Qed.
Lemma orig_short_read : ex_process [2;254;1;2;3;4;5;6] [255;255;255;255;255;255;255;255] [18;252] 12 true
                          [10;6;2;254;1;2;3;4;5;6] = Crash IndexErr.
Proof. vm_compute. reflexivity. Qed.
Lemma fixed_short_read : ex_process [2;254;1;2;3;4;5;6] [255;255;255;255;255;255;255;255] [18;252] 12 false
                          [10;6;2;254;1;2;3;4;5;6] = Ok None.
Proof. vm_compute. reflexivity. Qed.
Lemma ex_rdf_16 nb sc bn rb re d : ex_rdf nb sc bn rb re = Some d -> len d <= 16.
Proof. unfold ex_rdf. destruct ((sc =? 11) && (bn <? nb)); [|discriminate]. intro H. inversion H. cbn. lia. Qed.
