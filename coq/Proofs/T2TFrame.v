(* C03, Type 2: an NDEF write and format change nothing outside the NDEF message area, and every
   WRITE command addresses a page that holds a byte of that area. *)
From Coq Require Import ZArith List Bool Lia ZifyBool.
From NV Require Import Base.Result Base.Bytes Model.TlvMem Model.T2T Proofs.TlvLib Proofs.TlvPhases Proofs.T2TRead Proofs.T2TPhases Proofs.T2TWrite.
Import ListNotations.
Open Scope Z_scope.

(* whatever the outcome of the capacity test, the executed commands are those of a chain that touches only the area *)
Lemma t2_write_cmds m L d : wfL m L ->
  exists cf, (forall w, In w (snd (t2_write m d)) ->
       16 <= fst w /\ fst w + len (snd w) <= len m /\ len (snd w) = 4 /\ fst w mod 4 = 0 /\
       exists x, fst w <= x < fst w + 4 /\ ndef_area L x = true) /\
    view (apply_ws m (snd (t2_write m d))) = cf /\ len (apply_ws m (snd (t2_write m d))) = len m /\ touch L (view m) cf.
Proof.
  intro HL. destruct (Z.leb_spec (len d) (l_cap L)) as [Hd|Hd].
  - destruct (wfL_write_result m L d HL Hd) as (cs & cf & Hw & Hok & Hv & Hl & Ht & _). rewrite Hw. cbn [snd].
    exists cf. auto.
  - assert (E : t2_write m d = (Err ValueError, [])).
    { unfold t2_write. destruct HL as (Hr & _ & _ & _ & Hwr & _). rewrite Hr, Hwr. cbn [negb].
      replace (l_cap L <? len d) with true by lia. reflexivity. }
    rewrite E. cbn [snd apply_ws fold_left]. exists (view m). split; [intros w0 []|]. split; [reflexivity|].
    split; [reflexivity|]. split; [reflexivity|]. intros x _ H. congruence.
Qed.

Theorem t2_write_frame m d L : wf_layout m -> t2_layout m = Some L ->
  let m' := apply_ws m (snd (t2_write m d)) in
  len m' = len m /\ forall a, 0 <= a < len m -> ndef_area L a = false -> get m' a = get m a.
Proof.
  intros Hwf HL. destruct (wf_layout_wfL m Hwf) as (L' & HL'). assert (L' = L).
  { destruct HL' as (Hr & _). unfold t2_layout in HL. rewrite Hr in HL. congruence. } subst L'.
  destruct (t2_write_cmds m L d HL') as (cf & _ & Hv & Hl & Ht). cbv zeta. split; [exact Hl|].
  apply (wfL_touch_frame m L cf _ HL' Ht Hv Hl).
Qed.

Theorem t2_write_units m d L : wf_layout m -> t2_layout m = Some L ->
  forall w, In w (snd (t2_write m d)) ->
    len (snd w) = 4 /\ fst w mod 4 = 0 /\ 16 <= fst w /\ fst w + 4 <= len m /\
    exists x, fst w <= x < fst w + 4 /\ ndef_area L x = true.
Proof.
  intros Hwf HL w Hw. destruct (wf_layout_wfL m Hwf) as (L' & HL'). assert (L' = L).
  { destruct HL' as (Hr & _). unfold t2_layout in HL. rewrite Hr in HL. congruence. } subst L'.
  destruct (t2_write_cmds m L d HL') as (cf & Hok & _). destruct (Hok w Hw) as (H1 & H2 & H3 & H4 & H5).
  repeat split; try assumption; lia.
Qed.

(* format (with or without wipe) *)
Lemma t2_format_cmds m L wipe : wfL m L ->
  exists c, t2_format m wipe = (Ok true, chain_cmds 4 (view m) [c]) /\
    (forall w, In w (chain_cmds 4 (view m) [c]) ->
       16 <= fst w /\ fst w + len (snd w) <= len m /\ len (snd w) = 4 /\ fst w mod 4 = 0 /\
       exists x, fst w <= x < fst w + 4 /\ ndef_area L x = true) /\
    view (apply_ws m (chain_cmds 4 (view m) [c])) = c /\ len (apply_ws m (chain_cmds 4 (view m) [c])) = len m /\
    touch L (view m) c.
Proof.
  intro HL. destruct (wfL_format_spec m L wipe HL) as (c & Hc & Tc).
  assert (Hst : steps (view m) [ph_format L wipe] [c]) by (eapply steps_cons; [exact Hc | apply steps_nil]).
  destruct (wfL_chain_result m L _ _ HL Hst) as (Hrun & Hok & Hv & Hl & Ht).
  - constructor; [apply Tc | constructor].
  - intros f x Ha. inversion Ha as [| ? ? ? ? ? Ha2]; subst; [exact Tc | inversion Ha2].
  - exists c. split; [|auto]. unfold t2_format. destruct HL as (Hr & _ & _ & _ & Hwr & _). rewrite Hr, Hwr. cbn [negb].
    rewrite Hrun. reflexivity.
Qed.

Theorem t2_format_frame m wipe L : wf_layout m -> t2_layout m = Some L ->
  let m' := apply_ws m (snd (t2_format m wipe)) in
  fst (t2_format m wipe) = Ok true /\ len m' = len m /\
  (forall a, 0 <= a < len m -> ndef_area L a = false -> get m' a = get m a) /\
  (forall w, In w (snd (t2_format m wipe)) -> len (snd w) = 4 /\ fst w mod 4 = 0 /\
     exists x, fst w <= x < fst w + 4 /\ ndef_area L x = true).
Proof.
  intros Hwf HL. destruct (wf_layout_wfL m Hwf) as (L' & HL'). assert (L' = L).
  { destruct HL' as (Hr & _). unfold t2_layout in HL. rewrite Hr in HL. congruence. } subst L'.
  destruct (t2_format_cmds m L wipe HL') as (c & Hf & Hok & Hv & Hl & Ht). cbv zeta. rewrite Hf. cbn [fst snd].
  split; [reflexivity|]. split; [exact Hl|]. split; [apply (wfL_touch_frame m L c _ HL' Ht Hv Hl)|].
  intros w Hw. destruct (Hok w Hw) as (H1 & H2 & H3 & H4 & H5). auto.
Qed.
