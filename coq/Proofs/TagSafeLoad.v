(* C08, the command layer below the Type 2 / Type 1 readers (Model/TagLoad.v): for EVERY script of answers - byte strings
   of any length, no answer, transmission errors - the memory reader terminates with an explicit bound on the frames it
   sends, never crashes, and holds SOME image of bytes afterwards; composed with the image-level theorems of
   Proofs/TagSafeTlv.v / TagSafeCmd.v this gives tag.ndef against arbitrary responses. *)
From Coq Require Import ZArith List Bool Lia ZifyBool.
From NV Require Import Base.Result Base.Bytes Model.TlvMem Model.IsoDep Model.TagAct Model.TagReadAny Model.TagLoad
  Proofs.TlvLib Proofs.TagSafeTlv Proofs.TagSafeCmd.
Import ListNotations.
Open Scope Z_scope.
Ltac Zify.zify_post_hook ::= Z.to_euclidean_division_equations.

Definition rx_ok (a : aresult) : Prop := match a with ARx d => bytes_ok d | _ => True end.
Definition wire_ok (w : wire) : Prop := Forall rx_ok (w_script w).

Lemma tl_ok l : Forall rx_ok l -> Forall rx_ok (tl l).
Proof. destruct l; cbn; [auto|]. intro H; inversion H; auto. Qed.
Lemma hd_ok l d : Forall rx_ok l -> hd_x l = ARx d -> bytes_ok d.
Proof. destruct l as [|a l]; cbn; [discriminate|]. intros H E. inversion H; subst. exact H2. Qed.
Lemma bytes_ok_skipn_l n (l : list Z) : bytes_ok l -> bytes_ok (skipn n l).
Proof. revert l. induction n as [|n IH]; intros [|x l] H; cbn; auto. apply IH. inversion H; auto. Qed.
Lemma bytes_ok_firstn_l n (l : list Z) : bytes_ok l -> bytes_ok (firstn n l).
Proof. revert l. induction n as [|n IH]; intros [|x l] H; cbn; try constructor. - inversion H; auto. - apply IH. inversion H; auto. Qed.
Lemma bytes_ok_slice (l : list Z) a b : bytes_ok l -> bytes_ok (slice l a b).
Proof. intro H. unfold slice. apply bytes_ok_firstn_l, bytes_ok_skipn_l, H. Qed.

(* one transceive: at most [tries] frames; an answer is a byte string *)
Lemma xchg_cases : forall tries w f, wire_ok w ->
  wire_ok (snd (xchg tries w f)) /\ nsent w <= nsent (snd (xchg tries w f)) <= nsent w + Z.of_nat tries /\
  (forall d, fst (xchg tries w f) = Some d -> bytes_ok d).
Proof.
  induction tries as [|t IH]; intros w f H.
  - cbn [xchg fst snd]. split; [exact H|]. split; [lia | discriminate].
  - cbn [xchg].
    assert (H1 : wire_ok (mkWire (tl (w_script w)) (f :: w_sent w))) by (apply tl_ok, H).
    assert (N1 : nsent (mkWire (tl (w_script w)) (f :: w_sent w)) = nsent w + 1) by (unfold nsent; cbn [w_sent]; rewrite len_cons; lia).
    destruct (hd_x (w_script w)) as [d| | |] eqn:E.
    + cbn [fst snd]. split; [exact H1|]. split; [lia|]. intros d0 E0. injection E0 as <-. exact (hd_ok _ _ H E).
    + destruct (IH _ f H1) as (A & B & C). split; [exact A|]. split; [lia | exact C].
    + destruct (IH _ f H1) as (A & B & C). split; [exact A|]. split; [lia | exact C].
    + destruct (IH _ f H1) as (A & B & C). split; [exact A|]. split; [lia | exact C].
Qed.

(* ------------------------------------------------------------ Type 2 *)
Lemma t2_select_cases sector cur w : wire_ok w -> 0 <= sector <= 255 ->
  let '(st, c1, w1) := t2_select sector cur w in
  wire_ok w1 /\ (st = LDone \/ st = LFail) /\
  (st = LDone -> c1 = sector) /\ (st = LFail -> c1 = cur) /\
  (sector = cur -> st = LDone /\ w1 = w) /\
  nsent w <= nsent w1 <= nsent w + 4.
Proof.
  intros H Hs. unfold t2_select. destruct (Z.eqb_spec sector cur) as [->|Hne].
  { repeat split; auto; try discriminate; lia. }
  replace ((sector <? 0) || (255 <? sector)) with false by lia.
  destruct (xchg_cases 3 w [194; 255] H) as (O1 & N1 & _).
  destruct (xchg 3 w [194; 255]) as [r w1]. cbn [fst snd] in *.
  assert (Dflt : wire_ok w1 /\ (LFail = LDone \/ LFail = LFail) /\ (LFail = LDone -> cur = sector) /\ (LFail = LFail -> cur = cur) /\
                 (sector = cur -> LFail = LDone /\ w1 = w) /\ nsent w <= nsent w1 <= nsent w + 4).
  { repeat split; intros; auto; try discriminate; try lia; try contradiction; try congruence. }
  destruct r as [[|b l]|]; try exact Dflt.
  destruct b as [|p|p]; try (destruct l; exact Dflt). repeat (destruct p as [p|p|]; try (destruct l; exact Dflt)).
  destruct l as [|b2 l]; [|exact Dflt].
  assert (N2 : nsent (mkWire (tl (w_script w1)) ([sector; 0; 0; 0] :: w_sent w1)) = nsent w1 + 1)
    by (unfold nsent; cbn [w_sent]; rewrite len_cons; lia).
  assert (O2 : wire_ok (mkWire (tl (w_script w1)) ([sector; 0; 0; 0] :: w_sent w1))) by (apply tl_ok, O1).
  destruct (hd_x (w_script w1)); repeat split; intros; auto; try discriminate; try lia; try contradiction; try congruence.
Qed.

(* the loader: no crash below 256 KiB, no hang when the fuel covers the chunks, at most 3 frames per chunk and 4 per
   sector change, the image extends what was there and consists of bytes *)
Lemma t2_load_spec : forall fuel w cur acc stop, wire_ok w -> bytes_ok acc -> stop <= T2_MAX ->
  0 <= cur <= len acc / 1024 -> (stop - len acc + 15) / 16 <= Z.of_nat fuel ->
  let '(st, em, c', w') := t2_load fuel w cur acc stop in
  (st = LDone \/ st = LFail) /\ bytes_ok em /\ (st = LDone -> stop <= len em) /\
  cur <= c' /\ c' <= Z.max cur ((stop - 1) / 1024) /\
  nsent w' <= nsent w + 3 * Z.max 0 ((stop - len acc + 15) / 16) + 4 * (c' - cur) + 4.
Proof.
  induction fuel as [|f IH]; intros w cur acc stop H Hb Hm Hc Hf; pose proof (len_nonneg acc) as Hl.
  - cbn [t2_load]. replace (stop <=? len acc) with true by lia. repeat split; auto; lia.
  - cbn [t2_load]. destruct (stop <=? len acc) eqn:E; [repeat split; auto; lia|].
    unfold T2_MAX in *.
    pose proof (t2_select_cases (len acc / 1024) cur w H ltac:(lia)) as S.
    destruct (t2_select (len acc / 1024) cur w) as [[st c1] w1].
    destruct S as (O1 & Hst & Hc1 & Hc0 & Hsame & N1).
    assert (Hc1' : cur <= c1 /\ c1 <= len acc / 1024 /\ (nsent w1 <= nsent w + 4 * (c1 - cur) \/ st = LFail)).
    { destruct (Z.eq_dec (len acc / 1024) cur) as [Heq | Hne].
      - destruct (Hsame Heq) as [-> ->]. rewrite (Hc1 eq_refl). split; [lia|]. split; [lia|]. left; lia.
      - destruct Hst as [-> | ->]; [rewrite (Hc1 eq_refl); split; [lia|]; split; [lia|]; left; lia|].
        (* a failed select leaves the sector as it was *)
        rewrite (Hc0 eq_refl). split; [lia|]. split; [lia|]. right; reflexivity. }
    destruct Hst as [-> | ->].
    2: { destruct Hc1' as (A & B & _). repeat split; auto; try discriminate; try lia. }
    destruct Hc1' as (A & B & [C | C]); [|discriminate].
    destruct (xchg_cases 3 w1 [48; (len acc / 4) mod 256] O1) as (O2 & N2 & B2).
    destruct (xchg 3 w1 [48; (len acc / 4) mod 256]) as [r w2]. cbn [fst snd] in *.
    destruct r as [d|]; [|repeat split; auto; try discriminate; lia].
    destruct (len d =? 16) eqn:E16; [|repeat split; auto; try discriminate; lia].
    specialize (IH w2 c1 (acc ++ d) stop O2).
    rewrite len_app in IH.
    destruct (t2_load f w2 c1 (acc ++ d) stop) as [[[st em] c'] w'].
    destruct IH as (I1 & I2 & I3 & I4 & I5 & I6); auto; try lia.
    { apply bytes_ok_app; auto. }
    repeat split; auto; lia.
Qed.

Lemma t2_image_bytes script : Forall rx_ok script -> bytes_ok (t2_image script).
Proof.
  intro H. unfold t2_image.
  pose proof (t2_load_spec t2_fuel (mkWire script []) 0 [] T2_MAX H ltac:(constructor) ltac:(lia)) as S.
  destruct (t2_load t2_fuel (mkWire script []) 0 [] T2_MAX) as [[[st em] c'] w'].
  apply S; unfold T2_MAX, t2_fuel; cbn [len length Z.of_nat]; lia.
Qed.

(* the demand of the reader on any image: below 256 KiB *)
Lemma t2_demand_small em : bytes_ok em -> snd (t2_read_d em) <= t2_demand_bound 2056.
Proof.
  intro Hb. destruct (rd em 14) as [b14| | |] eqn:E14.
  - pose proof (t2_read_demand_bound em b14 Hb E14). pose proof (rd_byte _ _ _ Hb E14). unfold t2_demand_bound in *. lia.
  - pose proof (t2_demand_le em Hb). unfold rd in E14. change (14 <? 0) with false in E14. cbv iota in E14.
    destruct (nth_error em (Z.to_nat 14)) eqn:En; try discriminate. apply nth_error_None in En.
    unfold t2_demand_bound, len in *. lia.
  - unfold rd in E14. change (14 <? 0) with false in E14. cbv iota in E14. destruct (nth_error em (Z.to_nat 14)); discriminate.
  - unfold rd in E14. change (14 <? 0) with false in E14. cbv iota in E14. destruct (nth_error em (Z.to_nat 14)); discriminate.
Qed.

(* tag.ndef of a Type 2 tag against ANY response script: no NDEF, or an NDEF state that is sound on the image the memory
   reader built out of the answers; the result is Ok (no Crash, no Hang); at most t2_wire_max(demand) frames, which is
   at most 32983 for the largest data area *)
Theorem t2_read_any_responses script : Forall rx_ok script ->
  let '(r, frames) := t2_read_responses script in
  (r = Ok None \/ exists L, r = Ok (Some L) /\ tlv_sound (t2_image script) 16 L /\ l_dend L <= 2056) /\
  len frames <= t2_wire_max (snd (t2_read_d (t2_image script))) /\
  t2_wire_max (snd (t2_read_d (t2_image script))) <= 32983.
Proof.
  intro H. unfold t2_read_responses.
  pose proof (t2_image_bytes script H) as Hb. set (em := t2_image script) in *.
  pose proof (t2_read_d_fst em) as Ef. pose proof (t2_demand_small em Hb) as Hd.
  destruct (t2_read_d em) as [r d]. cbn [fst snd] in *.
  assert (Hd2 : d <= 172301) by (unfold t2_demand_bound in Hd; lia).
  pose proof (t2_load_spec t2_fuel (mkWire script []) 0 [] d H ltac:(constructor) ltac:(unfold T2_MAX; lia)) as S.
  destruct (t2_load t2_fuel (mkWire script []) 0 [] d) as [[[st em'] c'] w'].
  destruct S as (Hst & _ & _ & _ & Hc & Hn); [cbn; lia | unfold t2_fuel; cbn [len length Z.of_nat]; lia |].
  split; [|split].
  - assert (Er : match st with LCrash c => Crash c | LHang => Hang | _ => r end = r) by (destruct Hst as [-> | ->]; reflexivity).
    rewrite Er, Ef. apply t2_read_safe, Hb.
  - unfold len. rewrite rev_length. change (Z.of_nat (length (w_sent w'))) with (nsent w').
    unfold nsent at 2 in Hn. cbn [w_sent len length Z.of_nat] in Hn. unfold t2_wire_max. cbn [len length Z.of_nat] in *. lia.
  - unfold t2_wire_max. lia.
Qed.

(* ------------------------------------------------------------ Type 1 *)
Lemma t1_segs_spec : forall fuel w uid acc stop, wire_ok w -> bytes_ok acc -> Z.max 1 (17 - len acc / 128) <= Z.of_nat fuel ->
  let '(st, em, w') := t1_segs fuel w uid acc stop in
  (st = LDone \/ st = LFail) /\ bytes_ok em /\ nsent w' <= nsent w + 3 * Z.max 0 (16 - len acc / 128).
Proof.
  induction fuel as [|f IH]; intros w uid acc stop H Hb Hf; pose proof (len_nonneg acc) as Hl.
  - lia.
  - cbn [t1_segs]. destruct (stop <=? len acc); [repeat split; auto; lia|].
    destruct (15 <? len acc / 128) eqn:E15; [repeat split; auto; lia|].
    destruct (xchg_cases 3 w (rseg_cmd uid (len acc / 128)) H) as (O1 & N1 & B1).
    destruct (xchg 3 w (rseg_cmd uid (len acc / 128))) as [r w1]. cbn [fst snd] in *.
    destruct r as [r|]; [|repeat split; auto; lia].
    destruct (len r <? 129) eqn:E129; [repeat split; auto; lia|].
    assert (Ls : len (slice r 1 129) = 128).
    { unfold slice, len in *. rewrite firstn_length, skipn_length. lia. }
    specialize (IH w1 uid (acc ++ slice r 1 129) stop O1). rewrite len_app, Ls in IH.
    destruct (t1_segs f w1 uid (acc ++ slice r 1 129) stop) as [[st em] w'].
    destruct IH as (I1 & I2 & I3); [apply bytes_ok_app; split; [auto | apply bytes_ok_slice, B1; reflexivity] | lia |].
    repeat split; auto. lia.
Qed.

Lemma t1_load_spec script uid stop : Forall rx_ok script ->
  let '(st, hdr, em, w) := t1_load script uid stop in
  (st = LDone \/ st = LFail) /\ (hdr = [] \/ exists h0 h1, hdr = [h0; h1]) /\ bytes_ok em /\ nsent w <= t1_wire_max.
Proof.
  intro H. unfold t1_load, t1_wire_max.
  assert (H0 : wire_ok (mkWire script [])) by exact H.
  destruct (xchg_cases 3 (mkWire script []) (rall_cmd uid) H0) as (O1 & N1 & B1).
  destruct (xchg 3 (mkWire script []) (rall_cmd uid)) as [r w1]. cbn [fst snd] in *.
  change (nsent {| w_script := script; w_sent := [] |}) with 0 in N1.
  destruct r as [r|]; [|repeat split; auto; try (constructor; fail); lia].
  destruct (len r <? 2) eqn:E2; [repeat split; auto; try (constructor; fail); lia|].
  assert (Hh : exists h0 h1, firstn 2 r = [h0; h1]).
  { destruct r as [|h0 [|h1 r]]; cbn in E2; try discriminate; cbn; eauto. }
  assert (Hd0 : bytes_ok (skipn 2 r)) by (apply bytes_ok_skipn_l, B1; reflexivity).
  pose proof (len_nonneg (skipn 2 r)) as Hl.
  destruct ((120 <? stop) && (len (skipn 2 r) =? 120)) eqn:E8.
  - destruct (xchg_cases 3 w1 (read8_cmd uid 15) O1) as (O2 & N2 & B2).
    destruct (xchg 3 w1 (read8_cmd uid 15)) as [r8 w2]. cbn [fst snd] in *.
    destruct r8 as [r8|]; [|repeat split; auto; lia].
    pose proof (t1_segs_spec 17 w2 uid (skipn 2 r ++ slice r8 1 9) stop O2) as S.
    destruct (t1_segs 17 w2 uid (skipn 2 r ++ slice r8 1 9) stop) as [[st em] w3].
    pose proof (len_nonneg (skipn 2 r ++ slice r8 1 9)).
    destruct S as (S1 & S2 & S3); [apply bytes_ok_app; split; [auto | apply bytes_ok_slice, B2; reflexivity] | change (Z.of_nat 17) with 17; lia |].
    repeat split; auto. lia.
  - pose proof (t1_segs_spec 17 w1 uid (skipn 2 r) stop O1 Hd0) as S.
    destruct (t1_segs 17 w1 uid (skipn 2 r) stop) as [[st em] w3].
    destruct S as (S1 & S2 & S3); [change (Z.of_nat 17) with 17; lia|]. repeat split; auto. lia.
Qed.

(* tag.ndef of a Type 1 tag against ANY response script: no NDEF, or an NDEF state that is sound on the image the memory
   reader built; the result is Ok; at most 54 frames (RALL, READ8, 16 x RSEG, each sent up to three times) *)
Theorem t1_read_any_responses uid script : Forall rx_ok script ->
  let '(r, frames) := t1_read_responses uid script in
  (r = Ok None \/ exists L, r = Ok (Some L) /\ tlv_sound (t1_image uid script) 12 L /\ l_dend L <= 2048) /\
  len frames <= t1_wire_max.
Proof.
  intro H. unfold t1_read_responses, t1_image.
  pose proof (t1_load_spec script uid T1_ALL H) as S.
  destruct (t1_load script uid T1_ALL) as [[[st hdr] em] w].
  destruct S as (Hst & Hh & Hb & Hn).
  destruct hdr as [|hr0 hdr].
  { split; [left; reflexivity|]. unfold len. rewrite rev_length. exact Hn. }
  pose proof (t1_read_img_safe hr0 em Hb) as Hs.
  destruct (t1_read_img hr0 em) as [r d]. cbn [fst] in Hs.
  pose proof (t1_load_spec script uid (Z.max 1 d) H) as S2.
  destruct (t1_load script uid (Z.max 1 d)) as [[[st2 hdr2] em2] w2].
  destruct S2 as (Hst2 & _ & _ & Hn2).
  assert (Er : match st2 with LCrash c => Crash c | LHang => Hang | _ => r end = r) by (destruct Hst2 as [-> | ->]; reflexivity).
  rewrite Er. split; [exact Hs|]. unfold len. rewrite rev_length. exact Hn2.
Qed.
