(* ISO-DEP reader (all three repairs) against an ARBITRARY responder: the n-th clf.exchange
   yields [s n], whatever was sent.  The only ways a responder can keep the reader busy are the
   ones the standard gives a card: S(WTX) requests and chained response blocks ("wild" answers).
   If the responder uses at most W of them, the exchange ends within (C+1)*(|cmd|+W+2) rounds,
   C = max budget + 2.  (Recorded for C08: a tag cannot make the reader loop.) *)
From Coq Require Import ZArith List Bool Lia ZifyBool.
From NV Require Import Base.Result Base.Bytes Model.IsoDep Proofs.IsoDep.
Import ListNotations.
Open Scope Z_scope.

Definition wildb (a : aresult) : bool :=
  match a with ARx (b0 :: _) => is_wtx b0 || negb (Z.land b0 16 =? 0) | _ => false end.
Fixpoint wild (s : nat -> aresult) (n : nat) : Z :=
  match n with O => 0 | S m => wild s m + (if wildb (s m) then 1 else 0) end.

Section Stream.
Variable k : cfg.
Variable cmd : bytes.
Hypothesis Hf1 : fix_wtx_try k = true.
Hypothesis Hf2 : fix_wtx_chain k = true.
Hypothesis Hf3 : fix_rack k = true.
Hypothesis Hmiu : 0 < miu k.
Hypothesis Hn1 : 0 <= n_nak k.
Hypothesis Hn2 : 0 <= n_ack k.

Definition CC : Z := Z.max (n_nak k) (n_ack k) + 2.
Definition MM (w : Z) (p : pcd) : Z :=
  match ph p with
  | PSend off i d => (CC + 1) * (Z.max 0 (len cmd - off) + 2 + w) + Z.max 0 (CC - i)
  | PRecv i d rsp => (CC + 1) * w + Z.max 0 (CC - i) + 1
  | _ => 0
  end.
Definition okph (p : pcd) : Prop := match ph p with PWtx _ _ => False | PDone Hang => False | _ => True end.

Lemma MM_pos w p : okph p -> is_done p = false -> 0 <= w -> 1 <= MM w p.
Proof.
  unfold okph, is_done, MM, CC. destruct (ph p); intros Ho Hd Hw; try discriminate; try contradiction; nia.
Qed.

Lemma idx1_nil (b0 : Z) : idx [b0] 1 = Crash IndexErr.
Proof. reflexivity. Qed.

Ltac leaf := unfold okph, MM, CC, tagerr, with_ph, recv_check, send_error, recv_error; cbn [ph pni];
  repeat match goal with |- context [if ?b then _ else _] => destruct b eqn:? end;
  cbn [ph pni]; split; try exact I; try nia.

Lemma absorb_MM p a w w' : okph p -> is_done p = false -> 0 <= w' -> w' <= w ->
  (wildb a = true -> w' + 1 <= w) ->
  let p' := pcd_absorb k cmd p a in okph p' /\ MM w' p' + 1 <= MM w p.
Proof.
  intros Ho Hd Hw' Hle Hwild. cbv zeta. destruct p as [pn f]. unfold okph in Ho. cbn [ph] in Ho.
  destruct f as [off i d | off d | i d rsp | r]; try contradiction; try discriminate.
  - (* PSend *)
    unfold pcd_absorb. cbn [ph pni].
    destruct a as [x | | |]; [| unfold send_error; leaf | unfold send_error; leaf | leaf].
    destruct x as [|b0 inf]; [cbn [len length Z.of_nat Z.eqb]; unfold send_error; leaf|].
    cbv beta iota. rewrite len_cons_eqb0, idx0, Hf1, Hf3.
    destruct (is_wtx b0) eqn:Ew.
    + assert (Hww : w' + 1 <= w) by (apply Hwild; cbn [wildb]; rewrite Ew; reflexivity).
      destruct inf as [|b1 inf]; unfold on_idx; [change (len [b0] <? 2) with true; leaf | rewrite idx1; leaf].
    + destruct (is_rack_other pn b0 && (i <=? n_nak k + 1)) eqn:Er; [leaf|].
      unfold after_wtx.
      destruct (negb (Z.land b0 1 =? pn)); [leaf|].
      destruct (more_at k cmd off) eqn:Em.
      * unfold more_at in Em. destruct (Z.land b0 254 =? 162); leaf.
      * destruct (Z.land b0 238 =? 2); [|leaf].
        unfold recv_check. destruct (negb (Z.land b0 16 =? 0)) eqn:Ec; [|leaf].
        assert (Hww : w' + 1 <= w) by (apply Hwild; cbn [wildb]; rewrite Ec; apply orb_true_r).
        leaf.
  - (* PRecv *)
    unfold pcd_absorb. cbn [ph pni].
    destruct a as [x | | |]; [| unfold recv_error; leaf | unfold recv_error; leaf | leaf].
    destruct x as [|b0 inf]; [cbn [len length Z.of_nat Z.eqb]; unfold recv_error; leaf|].
    cbv beta iota. rewrite len_cons_eqb0, idx0, Hf2. cbn [andb].
    destruct (is_wtx b0) eqn:Ew.
    + assert (Hww : w' + 1 <= w) by (apply Hwild; cbn [wildb]; rewrite Ew; reflexivity).
      destruct inf as [|b1 inf]; unfold on_idx; [change (len [b0] <? 2) with true; leaf | rewrite idx1; leaf].
    + destruct (negb (Z.land b0 1 =? pn)); [leaf|].
      unfold recv_check. destruct (negb (Z.land b0 16 =? 0)) eqn:Ec; [|leaf].
      assert (Hww : w' + 1 <= w) by (apply Hwild; cbn [wildb]; rewrite Ec; apply orb_true_r).
      leaf.
Qed.

Lemma wild_add s n m : wild s (n + S m) = wild s (S n + m).
Proof. f_equal. lia. Qed.

Lemma run_stream_bound fuel : forall p s n w, okph p -> 0 <= w ->
  (forall m, wild s (n + m) <= wild s n + w) -> MM w p <= Z.of_nat fuel ->
  run_stream fuel k cmd p s n <> Hang.
Proof.
  induction fuel as [|f IH]; intros p s n w Ho Hw Hwild HM.
  - destruct (is_done p) eqn:Hd.
    + unfold is_done in Hd. unfold okph in Ho. cbn [run_stream]. destruct (ph p); try discriminate.
      destruct r; try contradiction; discriminate.
    + pose proof (MM_pos w p Ho Hd Hw). lia.
  - destruct (is_done p) eqn:Hd.
    + unfold is_done in Hd. unfold okph in Ho. cbn [run_stream]. destruct (ph p); try discriminate.
      destruct r; try contradiction; discriminate.
    + assert (Hstep : run_stream (S f) k cmd p s n = run_stream f k cmd (pcd_absorb k cmd p (s n)) s (S n)).
      { unfold is_done in Hd. cbn [run_stream]. destruct (ph p); try discriminate; reflexivity. }
      rewrite Hstep.
      pose proof (Hwild 1%nat) as H1. replace (n + 1)%nat with (S n) in H1 by lia. cbn [wild] in H1.
      set (w' := w - (if wildb (s n) then 1 else 0)).
      destruct (absorb_MM p (s n) w w' Ho Hd) as [Ho' HM']; subst w'; try (destruct (wildb (s n)); lia).
      apply (IH _ s (S n) (w - (if wildb (s n) then 1 else 0))); try assumption; try (destruct (wildb (s n)); lia).
      intro m. pose proof (Hwild (S m)) as H2. rewrite wild_add in H2. cbn [wild]. lia.
Qed.

Theorem stream_terminates pn s W fuel : 0 < len cmd -> (forall N, wild s N <= W) ->
  (CC + 1) * (len cmd + 2 + W) + CC <= Z.of_nat fuel ->
  run_stream fuel k cmd (pcd_start k cmd pn) s 0 <> Hang.
Proof.
  intros Hc HW Hf. pose proof (HW 0%nat) as HW0. cbn [wild] in HW0.
  apply (run_stream_bound fuel _ s 0%nat W).
  - unfold pcd_start, okph. cbn [ph].
    replace (miu k =? 0) with false by lia. replace ((len cmd <=? 0) || (miu k <? 0)) with false by lia. exact I.
  - assumption.
  - intro m. cbn [wild Nat.add]. specialize (HW m). lia.
  - unfold pcd_start, MM. cbn [ph].
    replace (miu k =? 0) with false by lia. replace ((len cmd <=? 0) || (miu k <? 0)) with false by lia.
    unfold CC in *. nia.
Qed.
End Stream.
