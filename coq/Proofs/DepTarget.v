(* General facts about the Target machine (Model/Dep.v tgt_step): invariant, what an accepted
   request leaves behind (packet number, retransmission buffer), answers to ATN / NAK / duplicates. *)
From Coq Require Import ZArith List Bool Lia ZifyBool.
From NV Require Import Base.Result Base.Bytes Model.Dep Proofs.DepCodec.
Import ListNotations.
Open Scope Z_scope.
Ltac Zify.zify_post_hook ::= Z.to_euclidean_division_equations.

Lemma len_take_le {A} n (l : list A) : 0 <= n -> len (take n l) <= n.
Proof. intro. unfold take, len. rewrite firstn_length. lia. Qed.
Lemma opt_eqb_refl o : opt_eqb o o = true.
Proof. destruct o; cbn; [apply Z.eqb_refl|reflexivity]. Qed.
Lemma opt_eqb_eq a b : opt_eqb a b = true <-> a = b.
Proof. destruct a, b; cbn; split; intro H; try discriminate; try reflexivity.
  - apply Z.eqb_eq in H. congruence. - injection H as ->. apply Z.eqb_refl. Qed.

Section T.
Variable tc : tcfg.
Hypothesis Hmiu : 1 <= tc_miu tc /\ tc_miu tc + 3 + b2z (is_some (tc_did tc)) + b2z (is_some (tc_nad tc)) <= 254.

(* a response the target may put on the air *)
Definition resp_ok (r : deppdu) : Prop :=
  dep_wf r /\ did r = tc_did tc /\ nad r = tc_nad tc /\ len (data r) <= tc_miu tc.
Definition Tinv (t : tgt) : Prop :=
  (forall p, t_pni t = Some p -> 0 <= p <= 3) /\ (forall r, t_res t = Some r -> resp_ok r).

(* the call either ended the application silently or emitted r, remembered it, and holds packet number p *)
Definition Emits (t' : tgt) (o : option pdu) (p : Z) : Prop :=
  (o = None /\ t_pos t' = TStop) \/
  (exists r, o = Some (PDepRes r) /\ resp_ok r /\ t_res t' = Some r /\ t_pni t' = Some p /\
             t_pos t' <> TStop /\ t_pos t' <> TListen).

Lemma Emits_intro t' r p : resp_ok r -> t_res t' = Some r -> t_pni t' = Some p ->
  t_pos t' <> TStop -> t_pos t' <> TListen -> Emits t' (Some (PDepRes r)) p.
Proof. intros H1 H2 H3 H4 H5. right. exists r. exact (conj eq_refl (conj H1 (conj H2 (conj H3 (conj H4 H5))))). Qed.

Lemma resp_ok_mk f p d : (f = 0 \/ f = 1 \/ f = 4 \/ f = 8 \/ f = 9) -> 0 <= p <= 3 -> len d <= tc_miu tc ->
  resp_ok (mkdep f p (tc_did tc) (tc_nad tc) d).
Proof. intros Hf Hp Hd. unfold resp_ok, dep_wf; cbn. repeat split; try lia; assumption. Qed.

Lemma start_send_spec t resp t' o p : Tinv t -> t_pni t = Some p ->
  t_start_send tc t resp = (t', o) -> Tinv t' /\ Emits t' o p.
Proof.
  intros [Hp Hr] Hpni H. unfold t_start_send, t_emit, t_stop in H. rewrite Hpni in H.
  destruct resp as [|x resp]; injection H as <- <-.
  - split; [split; cbn; [intros q Hq; injection Hq as <-; apply Hp, Hpni | exact Hr]|]. left. split; reflexivity.
  - assert (Hok : resp_ok (mkdep (if tc_miu tc <? len (x :: resp) then F_MORE else F_INF) p (tc_did tc) (tc_nad tc)
                            (take (tc_miu tc) (x :: resp)))).
    { apply resp_ok_mk; [destruct (tc_miu tc <? len (x :: resp)); unfold F_MORE, F_INF; lia | apply Hp, Hpni | apply len_take_le; lia]. }
    split.
    + split; cbn; [intros q Hq; injection Hq as <-; apply Hp, Hpni|]. intros r Hr'. injection Hr' as <-. exact Hok.
    + apply Emits_intro; cbn; [exact Hok | reflexivity | reflexivity | discriminate | discriminate].
Qed.

Lemma app_continue_spec t t' o p : Tinv t -> t_pni t = Some p ->
  t_app_continue tc t = (t', o) -> Tinv t' /\ Emits t' o p.
Proof.
  intros HI Hpni H. unfold t_app_continue in H. destruct (t_app t) as [|[[|x rt] resp] rest].
  - injection H as <- <-. split; [destruct HI; split; cbn; assumption|]. left. split; reflexivity.
  - eapply start_send_spec; [| |exact H]; [destruct HI; split; assumption | exact Hpni].
  - unfold t_emit in H. injection H as <- <-. destruct HI as [Hp Hr].
    assert (Hok : resp_ok (mkdep F_RTOX 0 (tc_did tc) (tc_nad tc) [x])).
    { apply resp_ok_mk; [unfold F_RTOX; lia | lia | unfold len; cbn; lia]. }
    split; [split; cbn; [exact Hp | intros r Hr'; injection Hr' as <-; exact Hok]|].
    (* the RTOX response carries packet number 0 in its PFB, the target's own counter is unchanged *)
    apply Emits_intro; cbn; [exact Hok | reflexivity | exact Hpni | discriminate | discriminate].
Qed.

Lemma app_step_spec t payload t' o p : Tinv t -> t_pni t = Some p ->
  t_app_step tc t payload = (t', o) -> Tinv t' /\ Emits t' o p.
Proof.
  intros HI Hpni H. unfold t_app_step in H. eapply app_continue_spec; [| |exact H]; [destruct HI; split; assumption | exact Hpni].
Qed.

Lemma recv_chain_spec t d acc t' o p : Tinv t -> t_pni t = Some p ->
  t_recv_chain tc t d acc = (t', o) -> Tinv t' /\ Emits t' o p.
Proof.
  intros HI Hpni H. unfold t_recv_chain in H. destruct (fmt d =? F_MORE).
  - rewrite Hpni in H. unfold t_emit in H. injection H as <- <-. destruct HI as [Hp Hr].
    assert (Hok : resp_ok (mkdep F_ACK p (tc_did tc) (tc_nad tc) [])).
    { apply resp_ok_mk; [unfold F_ACK; lia | apply Hp, Hpni | unfold len; cbn; lia]. }
    split; [split; cbn; [exact Hp | intros r Hr'; injection Hr' as <-; exact Hok]|].
    apply Emits_intro; cbn; [exact Hok | reflexivity | exact Hpni | discriminate | discriminate].
  - eapply app_step_spec; eassumption.
Qed.

Lemma Tinv_stop t r : Tinv t -> Tinv (fst (t_stop t r)).
Proof. intros [? ?]. split; cbn; assumption. Qed.
Lemma Tinv_stop_rtx t r : Tinv t -> Tinv (fst (t_stop_rtx t r)).
Proof. intros [? ?]. split; cbn; assumption. Qed.

(* an accepted information / acknowledge request (not RTOX) *)
Lemma accept_spec t d t' o : Tinv t -> fmt d <> F_RTOX ->
  (t_pos t = TListen \/ t_pos t = TFirst -> pni d = 0) -> 0 <= pni d <= 3 ->
  t_accept tc t d = (t', o) -> Tinv t' /\ Emits t' o (pni d).
Proof.
  intros HI Hf H0 Hrange H. pose proof HI as [Hp Hr]. unfold t_accept in H.
  destruct (t_pos t) eqn:Epos.
  - (* TListen *) rewrite (H0 (or_introl eq_refl)).
    eapply recv_chain_spec; [| |exact H]; [split; cbn; [intros p Hp'; injection Hp' as <-; lia | exact Hr] | reflexivity].
  - rewrite (H0 (or_intror eq_refl)).
    eapply recv_chain_spec; [| |exact H]; [split; cbn; [intros p Hp'; injection Hp' as <-; lia | exact Hr] | reflexivity].
  - (* TSend *)
    destruct ((tc_miu tc <? len sd) && negb (fmt d =? F_ACK)).
    { injection H as <- <-. split; [apply (Tinv_stop t _ HI)|]. left; split; reflexivity. }
    destruct (t_pni t) as [p|] eqn:Epni.
    2:{ injection H as <- <-. split; [apply (Tinv_stop t _ HI)|]. left; split; reflexivity. }
    assert (HI1 : Tinv (t_set_pni t ((p + 1) mod 4))).
    { split; cbn; [intros q Hq; injection Hq as <-; lia | exact Hr]. }
    destruct (negb (pni d =? (p + 1) mod 4)) eqn:Ep.
    { injection H as <- <-. split; [apply (Tinv_stop _ _ HI1)|]. left; split; reflexivity. }
    assert (Hpd : pni d = (p + 1) mod 4) by lia.
    destruct (drop (tc_miu tc) sd) as [|y sd'] eqn:Esd.
    + rewrite Hpd. eapply recv_chain_spec; [exact HI1 | reflexivity | exact H].
    + unfold t_emit in H. injection H as <- <-.
      assert (Hok : resp_ok (mkdep (if tc_miu tc <? len (y :: sd') then F_MORE else F_INF) ((p + 1) mod 4)
                                   (tc_did tc) (tc_nad tc) (take (tc_miu tc) (y :: sd')))).
      { apply resp_ok_mk; [destruct (tc_miu tc <? len (y :: sd')); unfold F_MORE, F_INF; lia | lia | apply len_take_le; lia]. }
      split; [split; cbn; [intros q Hq; injection Hq as <-; lia | intros r Hr'; injection Hr' as <-; exact Hok]|].
      apply Emits_intro; cbn; [exact Hok | reflexivity | rewrite Hpd; reflexivity | discriminate | discriminate].
  - (* TRecv *)
    destruct (t_pni t) as [p|] eqn:Epni.
    2:{ injection H as <- <-. split; [apply (Tinv_stop t _ HI)|]. left; split; reflexivity. }
    assert (HI1 : Tinv (t_set_pni t ((p + 1) mod 4))).
    { split; cbn; [intros q Hq; injection Hq as <-; lia | exact Hr]. }
    destruct (negb (pni d =? (p + 1) mod 4)) eqn:Ep.
    { injection H as <- <-. split; [apply (Tinv_stop _ _ HI1)|]. left; split; reflexivity. }
    assert (Hpd : pni d = (p + 1) mod 4) by lia. rewrite Hpd.
    eapply recv_chain_spec; [exact HI1 | reflexivity | exact H].
  - (* TRtox *)
    replace (fmt d =? F_RTOX) with false in H by lia.
    injection H as <- <-. split; [apply (Tinv_stop_rtx t _ HI)|]. left; split; reflexivity.
  - injection H as <- <-. split; [exact HI|]. left; split; [reflexivity|exact Epos].
Qed.

(* the state after an attention request: the driver phase ends, nothing else changes *)
Definition awake (t : tgt) : tgt :=
  match t_pos t with
  | TListen => mktgt (t_pni t) TFirst (t_res t) (t_app t) (t_out t) (t_rtx t) true
  | _ => t
  end.
Lemma awake_idem t : awake (awake t) = awake t.
Proof. unfold awake. destruct (t_pos t) eqn:E; cbn; rewrite ?E; reflexivity. Qed.
Lemma awake_not_listen t : t_pos t <> TListen -> awake t = t.
Proof. unfold awake. destruct (t_pos t); congruence. Qed.
Lemma Tinv_awake t : Tinv t -> Tinv (awake t).
Proof. intros [? ?]. unfold awake. destruct (t_pos t); split; cbn; assumption. Qed.
Lemma awake_pos_stop t : t_pos (awake t) = TStop <-> t_pos t = TStop.
Proof. unfold awake. destruct (t_pos t) eqn:E; cbn; rewrite ?E; split; congruence. Qed.

Definition atn_res : deppdu := mkdep F_ATN 0 (tc_did tc) (tc_nad tc) [].
Lemma atn_res_ok : resp_ok atn_res.
Proof. apply resp_ok_mk; [unfold F_ATN; lia | lia | unfold len; cbn; lia]. Qed.

Lemma step_atn t d : t_pos t <> TStop -> did d = tc_did tc -> fmt d = F_ATN ->
  tgt_step tc t (PDepReq d) = (awake t, Some (PDepRes atn_res)).
Proof.
  intros Hs Hd Hf. unfold tgt_step. cbn [pdu_did]. rewrite Hd, opt_eqb_refl. cbn [negb]. rewrite Hf.
  change (F_ATN =? F_ATN) with true. cbv iota. unfold awake, atn_res.
  destruct (t_pos t) eqn:E; try congruence; destruct t; cbn in *; subst; reflexivity.
Qed.

Lemma step_nak t d : t_pos t <> TStop -> t_pos t <> TListen -> did d = tc_did tc -> fmt d = F_NAK ->
  tgt_step tc t (PDepReq d) = (t, match t_res t with Some r => Some (PDepRes r) | None => None end).
Proof.
  intros Hs Hl Hd Hf. unfold tgt_step. cbn [pdu_did]. rewrite Hd, opt_eqb_refl. cbn [negb]. rewrite Hf.
  change (F_NAK =? F_ATN) with false. change (F_NAK =? F_NAK) with true. cbv iota. unfold t_resend.
  destruct (t_pos t) eqn:E; try congruence; destruct t; cbn in *; subst; reflexivity.
Qed.

(* a retransmitted request (same packet number) is answered from the retransmission buffer *)
Lemma step_dup t d : t_pos t <> TStop -> did d = tc_did tc ->
  fmt d <> F_ATN -> fmt d <> F_NAK -> fmt d <> F_RTOX -> t_pni t = Some (pni d) ->
  tgt_step tc t (PDepReq d) = (t, match t_res t with Some r => Some (PDepRes r) | None => None end).
Proof.
  intros Hs Hd H1 H2 H3 Hp. unfold tgt_step. cbn [pdu_did]. rewrite Hd, opt_eqb_refl. cbn [negb].
  replace (fmt d =? F_ATN) with false by lia. replace (fmt d =? F_NAK) with false by lia.
  replace (fmt d =? F_RTOX) with false by lia. rewrite Hp, opt_eqb_refl. unfold t_resend.
  destruct (t_pos t); try congruence; reflexivity.
Qed.

(* a new request is accepted *)
Lemma step_new t d : t_pos t <> TStop -> did d = tc_did tc ->
  fmt d <> F_ATN -> fmt d <> F_NAK -> fmt d <> F_RTOX -> t_pni t <> Some (pni d) ->
  tgt_step tc t (PDepReq d) = t_accept tc t d.
Proof.
  intros Hs Hd H1 H2 H3 Hp. unfold tgt_step. cbn [pdu_did]. rewrite Hd, opt_eqb_refl. cbn [negb].
  replace (fmt d =? F_ATN) with false by lia. replace (fmt d =? F_NAK) with false by lia.
  replace (fmt d =? F_RTOX) with false by lia.
  destruct (opt_eqb (Some (pni d)) (t_pni t)) eqn:E.
  - apply opt_eqb_eq in E. congruence.
  - destruct (t_pos t); try congruence; reflexivity.
Qed.

Lemma accept_awake t d : t_accept tc (awake t) d = t_accept tc t d.
Proof. unfold awake. destruct (t_pos t) eqn:E; try reflexivity. unfold t_accept. cbn. rewrite E. reflexivity. Qed.

(* ---- general invariant: whatever the target puts on the air is bounded by its MIU ---- *)
Definition OutOk (o : option pdu) : Prop := forall x, o = Some x -> exists r, x = PDepRes r /\ resp_ok r.
Lemma Emits_OutOk t' o p : Emits t' o p -> OutOk o.
Proof. intros [[-> _]|(r & -> & Hok & _)] x Hx; [discriminate|]. injection Hx as <-. eauto. Qed.
Lemma OutOk_none : OutOk None. Proof. intros x Hx; discriminate. Qed.

Lemma start_send_inv t resp t' o : Tinv t -> t_start_send tc t resp = (t', o) -> Tinv t' /\ OutOk o.
Proof.
  intros HI H. destruct (t_pni t) as [p|] eqn:Ep.
  - destruct (start_send_spec _ _ _ _ _ HI Ep H) as [H1 H2]. split; [exact H1 | eapply Emits_OutOk, H2].
  - unfold t_start_send in H. rewrite Ep in H. destruct resp; unfold t_stop in H; injection H as <- <-;
      (split; [destruct HI; split; cbn; assumption | apply OutOk_none]).
Qed.

Lemma app_continue_inv t t' o : Tinv t -> t_app_continue tc t = (t', o) -> Tinv t' /\ OutOk o.
Proof.
  intros HI H. destruct (t_pni t) as [p|] eqn:Ep.
  - destruct (app_continue_spec _ _ _ _ HI Ep H) as [H1 H2]. split; [exact H1 | eapply Emits_OutOk, H2].
  - unfold t_app_continue in H. destruct (t_app t) as [|[[|x rt] resp] rest].
    + injection H as <- <-. split; [destruct HI; split; cbn; assumption | apply OutOk_none].
    + eapply start_send_inv; [|exact H]. destruct HI; split; cbn; assumption.
    + unfold t_emit in H. injection H as <- <-. destruct HI as [Hp Hr].
      assert (Hok : resp_ok (mkdep F_RTOX 0 (tc_did tc) (tc_nad tc) [x])).
      { apply resp_ok_mk; [unfold F_RTOX; lia | lia | unfold len; cbn; lia]. }
      split; [split; cbn; [exact Hp | intros r Hr'; injection Hr' as <-; exact Hok]|].
      intros y Hy. injection Hy as <-. eauto.
Qed.

Lemma recv_chain_inv t d acc t' o : Tinv t -> t_recv_chain tc t d acc = (t', o) -> Tinv t' /\ OutOk o.
Proof.
  intros HI H. destruct (t_pni t) as [p|] eqn:Ep.
  - destruct (recv_chain_spec _ _ _ _ _ _ HI Ep H) as [H1 H2]. split; [exact H1 | eapply Emits_OutOk, H2].
  - unfold t_recv_chain in H. rewrite Ep in H. destruct (fmt d =? F_MORE).
    + unfold t_stop in H; injection H as <- <-. split; [destruct HI; split; cbn; assumption | apply OutOk_none].
    + unfold t_app_step in H. eapply app_continue_inv; [|exact H]. destruct HI; split; cbn; assumption.
Qed.

Lemma accept_inv t d t' o : Tinv t -> t_accept tc t d = (t', o) -> Tinv t' /\ OutOk o.
Proof.
  intros HI H. pose proof HI as [Hp Hr]. unfold t_accept in H.
  destruct (t_pos t) eqn:Epos.
  - eapply recv_chain_inv; [|exact H]. split; cbn; [intros p Hp'; injection Hp' as <-; lia | exact Hr].
  - eapply recv_chain_inv; [|exact H]. split; cbn; [intros p Hp'; injection Hp' as <-; lia | exact Hr].
  - destruct ((tc_miu tc <? len sd) && negb (fmt d =? F_ACK)).
    { injection H as <- <-. split; [apply (Tinv_stop t _ HI) | apply OutOk_none]. }
    destruct (t_pni t) as [p|] eqn:Epni.
    2:{ injection H as <- <-. split; [apply (Tinv_stop t _ HI) | apply OutOk_none]. }
    assert (HI1 : Tinv (t_set_pni t ((p + 1) mod 4))).
    { split; cbn; [intros q Hq; injection Hq as <-; lia | exact Hr]. }
    destruct (negb (pni d =? (p + 1) mod 4)).
    { injection H as <- <-. split; [apply (Tinv_stop _ _ HI1) | apply OutOk_none]. }
    destruct (drop (tc_miu tc) sd) as [|y sd'] eqn:Esd.
    + eapply recv_chain_inv; [exact HI1 | exact H].
    + unfold t_emit in H. injection H as <- <-.
      assert (Hok : resp_ok (mkdep (if tc_miu tc <? len (y :: sd') then F_MORE else F_INF) ((p + 1) mod 4)
                                   (tc_did tc) (tc_nad tc) (take (tc_miu tc) (y :: sd')))).
      { apply resp_ok_mk; [destruct (tc_miu tc <? len (y :: sd')); unfold F_MORE, F_INF; lia | lia | apply len_take_le; lia]. }
      split; [split; cbn; [intros q Hq; injection Hq as <-; lia | intros r Hr'; injection Hr' as <-; exact Hok]|].
      intros z Hz. injection Hz as <-. eauto.
  - destruct (t_pni t) as [p|] eqn:Epni.
    2:{ injection H as <- <-. split; [apply (Tinv_stop t _ HI) | apply OutOk_none]. }
    assert (HI1 : Tinv (t_set_pni t ((p + 1) mod 4))).
    { split; cbn; [intros q Hq; injection Hq as <-; lia | exact Hr]. }
    destruct (negb (pni d =? (p + 1) mod 4)).
    { injection H as <- <-. split; [apply (Tinv_stop _ _ HI1) | apply OutOk_none]. }
    eapply recv_chain_inv; [exact HI1 | exact H].
  - destruct (fmt d =? F_RTOX).
    + destruct (data d) as [|x rest].
      { injection H as <- <-. split; [apply (Tinv_stop_rtx t _ HI) | apply OutOk_none]. }
      eapply app_continue_inv; [|exact H]. split; cbn; assumption.
    + injection H as <- <-. split; [apply (Tinv_stop_rtx t _ HI) | apply OutOk_none].
  - injection H as <- <-. split; [exact HI | apply OutOk_none].
Qed.

Definition OutOk' (o : option pdu) : Prop :=
  forall x, o = Some x -> (exists r, x = PDepRes r /\ resp_ok r) \/ x = PDslRes (tc_did tc) \/ x = PRlsRes (tc_did tc).

Lemma step_inv t req t' o : Tinv t -> tgt_step tc t req = (t', o) -> Tinv t' /\ OutOk' o.
Proof.
  intros HI H. pose proof HI as [Hp Hr]. unfold tgt_step in H.
  assert (Hnone : Tinv t /\ OutOk' None) by (split; [exact HI | intros x Hx; discriminate]).
  assert (Hres : forall t0, t_res t0 = t_res t -> OutOk' (snd (t_resend t0))).
  { intros t0 E x Hx. unfold t_resend in Hx. cbn in Hx. rewrite E in Hx. destruct (t_res t) as [r|] eqn:Er; [|discriminate].
    injection Hx as <-. left. eexists; split; [reflexivity | apply Hr; reflexivity]. }
  assert (Hacc : forall d, t_accept tc t d = (t', o) -> Tinv t' /\ OutOk' o).
  { intros d Ha. destruct (accept_inv _ _ _ _ HI Ha) as [H1 H2]. split; [exact H1|]. intros x Hx. left. apply H2, Hx. }
  destruct (t_pos t) eqn:Epos; try (injection H as <- <-; exact Hnone).
  all: destruct (negb (opt_eqb (pdu_did req) (tc_did tc))); [injection H as <- <-; exact Hnone|].
  all: destruct req as [| | | |d| | | | |]; try (injection H as <- <-; exact Hnone).
  all: try (unfold t_release in H; rewrite Epos in H; unfold t_stop, t_stop_rtx in H; cbn in H; injection H as <- <-;
            split; [split; cbn; assumption | intros x Hx; injection Hx as <-; auto]).
  all: destruct (fmt d =? F_ATN);
    [injection H as <- <-; split; [split; cbn; assumption | intros x Hx; injection Hx as <-; left; eexists; split; [reflexivity | apply atn_res_ok]]|].
  all: destruct (fmt d =? F_NAK);
    [match type of H with t_resend ?t0 = _ => pose proof (Hres t0 eq_refl) as Ho; rewrite H in Ho; unfold t_resend in H; injection H as <- _ end;
     split; [split; cbn; assumption | exact Ho]|].
  all: destruct (fmt d =? F_RTOX);
    [destruct (t_res t) as [r|] eqn:Er;
     [destruct (fmt r =? F_RTOX); [exact (Hacc d H)|
        pose proof (Hres t Er) as Ho; rewrite H in Ho; unfold t_resend in H; injection H as <- _; split; [exact HI | exact Ho]]
     | match type of H with t_resend ?t0 = _ => pose proof (Hres t0 eq_refl) as Ho; rewrite H in Ho; unfold t_resend in H; injection H as <- _ end;
       split; [split; cbn; try assumption; rewrite Er; intros; discriminate | exact Ho]]|].
  all: destruct (opt_eqb (Some (pni d)) (t_pni t));
    [pose proof (Hres t eq_refl) as Ho; rewrite H in Ho; unfold t_resend in H; injection H as <- _; split; [exact HI | exact Ho] | exact (Hacc d H)].
Qed.
End T.
