(* synchronize as a list of unit commands: explicit form, effect of a prefix on any memory, and the
   declarative reading of exec_sync (a synchronize that may fail at one command). *)
From Coq Require Import ZArith List Bool Lia ZifyBool.
From NV Require Import Base.Result Base.Bytes Model.TlvMem Proofs.TlvLib.
Import ListNotations.
Open Scope Z_scope.
Ltac Zify.zify_post_hook ::= Z.to_euclidean_division_equations.

Section Sync.
Variable u : nat.
Hypothesis upos : (0 < u)%nat.
Set Default Proof Using "upos".

Definition uget (q : nat) (l : list Z) : list Z := firstn u (skipn (q * u) l).
Definition udiff (f c : list Z) (q : nat) : bool := negb (list_eqb (uget q c) (uget q f)).
Definition ucmd (f c : list Z) (q : nat) : list write :=
  if udiff f c q then [(Z.of_nat (q * u), uget q c)] else [].

Lemma diffu_flat : forall k fuel q0 f c, (k <= fuel)%nat -> length c = ((q0 + k) * u)%nat -> length f = ((q0 + k) * u)%nat ->
  diffu fuel u (Z.of_nat (q0 * u)) (skipn (q0 * u) f) (skipn (q0 * u) c) = flat_map (ucmd f c) (seq q0 k).
Proof.
  induction k as [|k IH]; intros fuel q0 f c Hk Hc Hf.
  - cbn [seq flat_map]. replace (skipn (q0 * u) c) with (@nil Z) by (symmetry; apply skipn_all2; lia). destruct fuel; reflexivity.
  - destruct fuel as [|n]; [lia|].
    assert (Hne : skipn (q0 * u) c <> []).
    { intro E. apply (f_equal (@length Z)) in E. rewrite skipn_length in E. cbn in E. nia. }
    rewrite (diffu_S n u _ _ _ Hne). cbv zeta. rewrite !skipn_skipn.
    replace (q0 * u + u)%nat with (S q0 * u)%nat by lia.
    replace (Z.of_nat (q0 * u) + Z.of_nat u) with (Z.of_nat (S q0 * u)) by lia.
    rewrite (IH n (S q0) f c) by lia. cbn [seq flat_map]. set (R := flat_map (ucmd f c) (seq (S q0) k)).
    unfold ucmd, udiff, uget.
    destruct (list_eqb (firstn u (skipn (q0 * u) c)) (firstn u (skipn (q0 * u) f))); reflexivity.
Qed.
Lemma sync_cmds_flat k f c : length c = (k * u)%nat -> length f = (k * u)%nat ->
  sync_cmds u f c = flat_map (ucmd f c) (seq 0 k).
Proof. intros Hc Hf. unfold sync_cmds. apply (diffu_flat k (length c) 0 f c); [nia | exact Hc | exact Hf]. Qed.

(* a prefix of the command list is the command list of the units below some boundary *)
Lemma firstn_flat_seq (g : nat -> list write) : (forall q, (length (g q) <= 1)%nat) -> forall k i,
  exists b, (b <= k)%nat /\ firstn i (flat_map g (seq 0 k)) = flat_map g (seq 0 b) /\
    ((length (flat_map g (seq 0 k)) <= i)%nat -> b = k) /\
    ((i < length (flat_map g (seq 0 k)))%nat ->
       g b <> [] /\ (b < k)%nat /\ firstn (S i) (flat_map g (seq 0 k)) = flat_map g (seq 0 (S b))).
Proof.
  intros Hg. induction k as [|k IH]; intro i.
  - exists O. cbn. rewrite firstn_nil. split; [lia|]. split; [reflexivity|]. split; [auto | intro; lia].
  - assert (EK : flat_map g (seq 0 (S k)) = flat_map g (seq 0 k) ++ g k)
      by (rewrite seq_S, flat_map_app; cbn [flat_map Nat.add]; rewrite app_nil_r; reflexivity).
    rewrite EK, app_length. set (FK := flat_map g (seq 0 k)) in *. pose proof (Hg k) as Hgk.
    destruct (Nat.lt_ge_cases i (length FK)) as [Hi|Hi].
    + destruct (IH i) as (b & Hb & E1 & _ & E3). destruct (E3 Hi) as (G1 & G2 & G3).
      exists b. split; [lia|]. split.
      { rewrite firstn_app. replace (i - length FK)%nat with O by lia. cbn [firstn]. rewrite app_nil_r. exact E1. }
      split; [intro; lia|]. intros _. split; [exact G1|]. split; [lia|].
      rewrite firstn_app. replace (S i - length FK)%nat with O by lia. cbn [firstn]. rewrite app_nil_r. exact G3.
    + destruct (g k) as [|w r] eqn:Eg.
      * exists (S k). split; [lia|]. rewrite app_nil_r. split; [rewrite EK; try rewrite Eg; rewrite ?app_nil_r; apply firstn_all2; lia|].
        split; [auto|]. cbn [length]. intro; lia.
      * assert (r = []) by (destruct r; [reflexivity | cbn in Hgk; lia]). subst r.
        destruct (Nat.eq_dec i (length FK)) as [Ei|Ei].
        -- exists k. split; [lia|]. split.
           { rewrite firstn_app, Ei, Nat.sub_diag, firstn_all. cbn [firstn]. apply app_nil_r. }
           split; [cbn [length]; intro; lia|]. intros _. split; [congruence|]. split; [lia|].
           rewrite EK; try rewrite Eg. apply firstn_all2. rewrite app_length. cbn [length]. lia.
        -- exists (S k). split; [lia|]. split.
           { rewrite EK; try rewrite Eg. apply firstn_all2. rewrite app_length. cbn [length]. lia. }
           split; [auto|]. cbn [length]. intro; lia.
Qed.

Lemma ucmd_len f c q : (length (ucmd f c q) <= 1)%nat.
Proof. unfold ucmd. destruct (udiff f c q); cbn; lia. Qed.

Lemma uget_length k q l : length l = (k * u)%nat -> (q < k)%nat -> length (uget q l) = u.
Proof. intros Hl Hq. unfold uget. rewrite firstn_length_le; [reflexivity|]. rewrite skipn_length. nia. Qed.

(* replacing unit q *)
Lemma apply1_unit k l q dat : length l = (k * u)%nat -> (q < k)%nat -> length dat = u ->
  apply1 l (Z.of_nat (q * u), dat) = firstn (q * u) l ++ dat ++ skipn (q * u + u) l.
Proof. intros Hl Hq Hd. unfold apply1. cbn [fst snd]. rewrite Nat2Z.id, Hd. reflexivity. Qed.
Lemma nth_apply1_unit k l q dat i : length l = (k * u)%nat -> (q < k)%nat -> length dat = u ->
  nth i (apply1 l (Z.of_nat (q * u), dat)) 0 = if (i / u =? q)%nat then nth (i - q * u) dat 0 else nth i l 0.
Proof.
  intros Hl Hq Hd. rewrite (apply1_unit k l q dat Hl Hq Hd).
  assert (Hqk : (q * u + u <= k * u)%nat) by nia.
  pose proof (Nat.div_mod i u ltac:(lia)) as Hdm. pose proof (Nat.mod_upper_bound i u ltac:(lia)) as Hm.
  destruct (Nat.eqb_spec (i / u) q) as [E|E].
  - rewrite app_nth2; rewrite firstn_length_le by lia; [|nia]. rewrite app_nth1 by nia. reflexivity.
  - destruct (Nat.lt_ge_cases (i / u) q) as [Hlt|Hge].
    + rewrite app_nth1 by (rewrite firstn_length_le by lia; nia). apply nth_firstn_lt. nia.
    + rewrite app_nth2; rewrite firstn_length_le by lia; [|nia]. rewrite app_nth2 by nia.
      rewrite nth_skipn, Hd. f_equal. nia.
Qed.
Lemma apply1_unit_length k l q dat : length l = (k * u)%nat -> (q < k)%nat -> length dat = u ->
  length (apply1 l (Z.of_nat (q * u), dat)) = length l.
Proof. intros Hl Hq Hd. rewrite (apply1_unit k l q dat Hl Hq Hd).
  assert (Hqk : (q * u + u <= k * u)%nat) by nia.
  rewrite !app_length, firstn_length_le, skipn_length by lia. lia. Qed.

(* effect of the commands of the units below b on any memory l of the same size *)
Lemma apply_units k f c : length c = (k * u)%nat -> length f = (k * u)%nat -> forall b l, (b <= k)%nat -> length l = (k * u)%nat ->
  length (apply_ws l (flat_map (ucmd f c) (seq 0 b))) = (k * u)%nat /\
  forall i, nth i (apply_ws l (flat_map (ucmd f c) (seq 0 b))) 0 =
    if ((i / u <? b)%nat && udiff f c (i / u))%bool then nth i c 0 else nth i l 0.
Proof.
  intros Hc Hf. induction b as [|b IH]; intros l Hb Hl.
  - cbn. split; [exact Hl|]. intro i. reflexivity.
  - rewrite seq_S, flat_map_app, apply_ws_app. cbn [flat_map Nat.add]. rewrite app_nil_r.
    destruct (IH l ltac:(lia) Hl) as [L1 N1]. unfold ucmd at 2 4. destruct (udiff f c b) eqn:Ed.
    + cbn [apply_ws fold_left]. split; [rewrite (apply1_unit_length k) by (try apply (uget_length k); lia); exact L1|].
      intro i. rewrite (nth_apply1_unit k) by (try apply (uget_length k); lia). rewrite N1.
      destruct (Nat.eqb_spec (i / u) b) as [E|E].
      * rewrite E, Ed. replace (b <? S b)%nat with true by (symmetry; apply Nat.ltb_lt; lia). cbn [andb].
        unfold uget. rewrite nth_firstn_lt, nth_skipn.
        -- f_equal. pose proof (Nat.div_mod i u ltac:(lia)). nia.
        -- pose proof (Nat.div_mod i u ltac:(lia)). pose proof (Nat.mod_upper_bound i u ltac:(lia)). nia.
      * replace (i / u <? S b)%nat with (i / u <? b)%nat; [reflexivity|].
        destruct (Nat.ltb_spec (i / u) b), (Nat.ltb_spec (i / u) (S b)); try reflexivity; lia.
    + cbn [apply_ws fold_left]. split; [exact L1|]. intro i. rewrite N1.
      destruct (Nat.eqb_spec (i / u) b) as [E|E].
      * rewrite E, Ed, !andb_false_r. reflexivity.
      * replace (i / u <? S b)%nat with (i / u <? b)%nat; [reflexivity|].
        destruct (Nat.ltb_spec (i / u) b), (Nat.ltb_spec (i / u) (S b)); try reflexivity; lia.
Qed.

Lemma udiff_false f c q k : length c = (k * u)%nat -> length f = (k * u)%nat -> (q < k)%nat -> udiff f c q = false ->
  forall i, (i / u = q)%nat -> nth i f 0 = nth i c 0.
Proof.
  intros Hc Hf Hq H i Hi. unfold udiff in H. apply negb_false_iff, list_eqb_spec in H.
  pose proof (Nat.div_mod i u ltac:(lia)). pose proof (Nat.mod_upper_bound i u ltac:(lia)).
  assert (E : nth (i - q * u) (uget q c) 0 = nth (i - q * u) (uget q f) 0) by (rewrite H; reflexivity).
  unfold uget in E. rewrite !nth_firstn_lt, !nth_skipn in E by nia.
  replace (q * u + (i - q * u))%nat with i in E by nia. congruence.
Qed.
End Sync.
Set Default Proof Using "Type".

(* ---------------------------------------------------------------- exec_sync, declaratively *)
Lemma apply_ws_cons m w ws : apply_ws m (w :: ws) = apply_ws (apply1 m w) ws. Proof. reflexivity. Qed.

Lemma exec_sync_spec n f : forall ws m from k m' from' ex r,
  (forall w, In w ws -> 0 <= fst w /\ fst w + len (snd w) <= n) ->
  exec_sync n ws m from k f = (m', from', ex, r) ->
  m' = apply_ws m ex /\
  ((exists k', r = Some k' /\ ex = ws /\ from' = apply_ws from ws) \/
   (r = None /\ exists j, (j < length ws)%nat /\ from' = apply_ws from (firstn j ws) /\
      ((f = Lost /\ ex = firstn j ws) \/ (f = Unanswered /\ ex = firstn (S j) ws)))).
Proof.
  induction ws as [|w ws IH]; intros m from k m' from' ex r Hacc H.
  - cbn in H. injection H as <- <- <- <-. split; [reflexivity|]. left. eauto.
  - cbn [exec_sync] in H. destruct (Hacc w (or_introl eq_refl)) as [A1 A2].
    replace ((0 <=? fst w) && (fst w + len (snd w) <=? n)) with true in H by lia. cbn [negb] in H.
    assert (Hrec : forall k0, exec_sync n ws (apply1 m w) (apply1 from w) k0 f = (m', from', tl ex, r) -> ex = w :: tl ex ->
      m' = apply_ws m ex /\
      ((exists k', r = Some k' /\ ex = w :: ws /\ from' = apply_ws from (w :: ws)) \/
       (r = None /\ exists j, (j < length (w :: ws))%nat /\ from' = apply_ws from (firstn j (w :: ws)) /\
          ((f = Lost /\ ex = firstn j (w :: ws)) \/ (f = Unanswered /\ ex = firstn (S j) (w :: ws)))))).
    { intros k0 Hk0 Eex.
      assert (Hacc' : forall w', In w' ws -> 0 <= fst w' /\ fst w' + len (snd w') <= n) by (intros; apply Hacc; right; assumption).
      destruct (IH _ _ _ _ _ _ _ Hacc' Hk0) as [E1 E2].
      split; [rewrite Eex, apply_ws_cons; exact E1|].
      destruct E2 as [(k' & -> & E3 & E4) | (-> & j & Hj & E3 & E4)].
      - left. exists k'. split; [reflexivity|]. split; [rewrite Eex, E3; reflexivity | rewrite apply_ws_cons; exact E4].
      - right. split; [reflexivity|]. exists (S j). cbn [length firstn]. split; [lia|]. split; [rewrite apply_ws_cons; exact E3|].
        destruct E4 as [[-> E4]|[-> E4]]; [left | right]; (split; [reflexivity|]); rewrite Eex, E4; reflexivity. }
    destruct k as [[|[|j]]|].
    + destruct (exec_sync n ws (apply1 m w) (apply1 from w) None f) as [[[m1 f1] e1] r1] eqn:E.
      injection H as <- <- <- <-. apply (Hrec None); [exact E | reflexivity].
    + destruct f; injection H as <- <- <- <-.
      * split; [reflexivity|]. right. split; [reflexivity|]. exists O. cbn. split; [lia|]. auto.
      * split; [reflexivity|]. right. split; [reflexivity|]. exists O. cbn. split; [lia|]. auto.
    + destruct (exec_sync n ws (apply1 m w) (apply1 from w) (Some (S j)) f) as [[[m1 f1] e1] r1] eqn:E.
      injection H as <- <- <- <-. apply (Hrec (Some (S j))); [exact E | reflexivity].
    + destruct (exec_sync n ws (apply1 m w) (apply1 from w) None f) as [[[m1 f1] e1] r1] eqn:E.
      injection H as <- <- <- <-. apply (Hrec None); [exact E | reflexivity].
Qed.

Section Sync2.
Variable u : nat.
Hypothesis upos : (0 < u)%nat.
Set Default Proof Using "upos".
Lemma udiff_true_ex k f c q : length c = (k * u)%nat -> length f = (k * u)%nat -> udiff u f c q = true ->
  (q < k)%nat /\ exists i, (i / u = q)%nat /\ nth i f 0 <> nth i c 0.
Proof.
  intros Hc Hf H. unfold udiff in H. apply negb_true_iff in H.
  assert (Hne : uget u q c <> uget u q f) by (intro E; rewrite E in H; assert (list_eqb (uget u q f) (uget u q f) = true) by (apply list_eqb_spec; reflexivity); congruence).
  destruct (Nat.lt_ge_cases q k) as [Hq|Hq].
  - split; [exact Hq|].
    destruct (lists_differ (uget u q c) (uget u q f)) as (i & Hi & Hd);
      [rewrite !(uget_length u upos k) by assumption; reflexivity | exact Hne |].
    rewrite (uget_length u upos k) in Hi by assumption. unfold uget in Hd. rewrite !nth_firstn_lt, !nth_skipn in Hd by lia.
    exists (q * u + i)%nat. split; [|congruence].
    pose proof (Nat.div_mod (q * u + i) u ltac:(lia)). pose proof (Nat.mod_upper_bound (q * u + i) u ltac:(lia)). nia.
  - elim Hne. unfold uget. rewrite !skipn_all2 by nia. reflexivity.
Qed.
(* the whole command list and its effect on the memory it was computed from *)
Lemma sync_prefix k f c i : length c = (k * u)%nat -> length f = (k * u)%nat ->
  exists b, (b <= k)%nat /\ firstn i (sync_cmds u f c) = flat_map (ucmd u f c) (seq 0 b) /\
    ((length (sync_cmds u f c) <= i)%nat -> b = k) /\
    ((i < length (sync_cmds u f c))%nat -> udiff u f c b = true /\ (b < k)%nat /\
       firstn (S i) (sync_cmds u f c) = flat_map (ucmd u f c) (seq 0 (S b))).
Proof.
  intros Hc Hf. rewrite (sync_cmds_flat u upos k f c Hc Hf).
  destruct (firstn_flat_seq u upos (ucmd u f c) (ucmd_len u upos f c) k i) as (b & Hb & E1 & E2 & E3).
  exists b. split; [exact Hb|]. split; [exact E1|]. split; [exact E2|]. intro Hi. destruct (E3 Hi) as (G1 & G2 & G3).
  split; [|split; [exact G2 | exact G3]]. unfold ucmd in G1. destruct (udiff u f c b); [reflexivity | congruence].
Qed.
Lemma sync_cmds_bounds k f c w : length c = (k * u)%nat -> length f = (k * u)%nat -> In w (sync_cmds u f c) ->
  exists q, (q < k)%nat /\ udiff u f c q = true /\ fst w = Z.of_nat (q * u) /\ len (snd w) = Z.of_nat u.
Proof.
  intros Hc Hf H. rewrite (sync_cmds_flat u upos k f c Hc Hf) in H. apply in_flat_map in H. destruct H as (q & Hq & Hw).
  apply in_seq in Hq. unfold ucmd in Hw. destruct (udiff u f c q) eqn:E; [|destruct Hw]. destruct Hw as [<-|[]].
  exists q. cbn [fst snd]. split; [lia|]. split; [exact E|]. split; [reflexivity|]. unfold len. rewrite (uget_length u upos k) by (assumption || lia). reflexivity.
Qed.
End Sync2.
Set Default Proof Using "Type".

(* the tag memory only records the executed commands: control flow, reader state and commands do not depend on it *)
Lemma exec_sync_mem n f : forall ws m1 m2 F k a1 F1 ex r,
  exec_sync n ws m1 F k f = (a1, F1, ex, r) -> exec_sync n ws m2 F k f = (apply_ws m2 ex, F1, ex, r).
Proof.
  induction ws as [|w ws IH]; intros m1 m2 F k a1 F1 ex r H.
  - cbn in *. injection H as <- <- <- <-. reflexivity.
  - cbn [exec_sync] in *. destruct (negb ((0 <=? fst w) && (fst w + len (snd w) <=? n))).
    + injection H as <- <- <- <-. reflexivity.
    + assert (Hrec : forall k0 e', exec_sync n ws (apply1 m1 w) (apply1 F w) k0 f = (a1, F1, e', r) -> ex = w :: e' ->
        (let '(m', from', ex0, r') := exec_sync n ws (apply1 m2 w) (apply1 F w) k0 f in (m', from', w :: ex0, r')) = (apply_ws m2 ex, F1, ex, r)).
      { intros k0 e' Hk0 Eex. rewrite (IH _ (apply1 m2 w) _ _ _ _ _ _ Hk0). subst ex. reflexivity. }
      destruct k as [[|[|j]]|].
      * destruct (exec_sync n ws (apply1 m1 w) (apply1 F w) None f) as [[[x1 x2] x3] x4] eqn:E. injection H as <- <- <- <-.
        apply (Hrec None x3); [exact E | reflexivity].
      * destruct f; injection H as <- <- <- <-; reflexivity.
      * destruct (exec_sync n ws (apply1 m1 w) (apply1 F w) (Some (S j)) f) as [[[x1 x2] x3] x4] eqn:E. injection H as <- <- <- <-.
        apply (Hrec (Some (S j)) x3); [exact E | reflexivity].
      * destruct (exec_sync n ws (apply1 m1 w) (apply1 F w) None f) as [[[x1 x2] x3] x4] eqn:E. injection H as <- <- <- <-.
        apply (Hrec None x3); [exact E | reflexivity].
Qed.
(* the same attempt on another tag memory m2 whose readable image [vw2 m2] follows the executed commands *)
Lemma run_attempt_mem u n f vw1 vw2 : forall phs m1 m2 F c k r a1 F1 c1 ex,
  run_attempt u n vw1 m1 F c phs k f = (r, (a1, F1, c1), ex) ->
  (forall j, vw2 (apply_ws m2 (firstn j ex)) = vw1 (apply_ws m1 (firstn j ex))) ->
  run_attempt u n vw2 m2 F c phs k f = (r, (apply_ws m2 ex, F1, c1), ex).
Proof.
  induction phs as [|ph phs IH]; intros m1 m2 F c k r a1 F1 c1 ex H Hv.
  - cbn in *. injection H as <- <- <- <- <-. reflexivity.
  - cbn [run_attempt] in *. destruct (ph c) as [c'| | |]; try (injection H as <- <- <- <- <-; reflexivity).
    destruct (exec_sync n (sync_cmds u F c') m1 F k f) as [[[x1 x2] x3] x4] eqn:E.
    pose proof (exec_sync_mem n f _ m1 m1 _ _ _ _ _ _ E) as E1. rewrite E in E1. injection E1 as Ex1.
    rewrite (exec_sync_mem n f _ m1 m2 _ _ _ _ _ _ E). destruct x4 as [k'|].
    + destruct (run_attempt u n vw1 x1 x2 c' phs k' f) as [[r2 [[y1 y2] y3]] ex2] eqn:E2. injection H as <- <- <- <- <-.
      rewrite (IH x1 (apply_ws m2 x3) _ _ _ _ _ _ _ _ E2).
      * rewrite apply_ws_app. reflexivity.
      * intro j. specialize (Hv (length x3 + j)%nat). rewrite firstn_app_2, !apply_ws_app in Hv. rewrite <- Ex1 in Hv. exact Hv.
    + injection H as <- <- <- <- <-. specialize (Hv (length x3)). rewrite firstn_all in Hv. rewrite Hv, <- Ex1. reflexivity.
Qed.
Lemma exec_sync_nofault n f : forall ws m F, (forall w, In w ws -> 0 <= fst w /\ fst w + len (snd w) <= n) ->
  exists m' F' ex, exec_sync n ws m F None f = (m', F', ex, Some None).
Proof.
  induction ws as [|w ws IH]; intros m F Hacc; [cbn; eauto|]. cbn [exec_sync].
  destruct (Hacc w (or_introl eq_refl)) as [A1 A2]. replace ((0 <=? fst w) && (fst w + len (snd w) <=? n)) with true by lia. cbn [negb].
  destruct (IH (apply1 m w) (apply1 F w)) as (m' & F' & ex & E); [intros; apply Hacc; right; assumption|]. rewrite E. eauto.
Qed.
