(* List lemmas shared by the block-tag developments (Type 3 / Type 4):
   Z-indexed take/drop/slice/splice, consecutive writes = one write of the concatenation,
   chunking (chunks n l, concat (chunks n l) = l, every chunk <= n and non-empty). *)
From Coq Require Import ZArith List Bool Lia ZifyBool.
From NV Require Import Base.Result Base.Bytes Base.PyPrims.
Import ListNotations.
Open Scope Z_scope.
Ltac Zify.zify_post_hook ::= Z.to_euclidean_division_equations.

Section Lists.
Context {A : Type}.
Implicit Types l m d : list A.

(* ---------------- nat level helpers ---------------- *)
Lemma firstn_app_exact (a b : list A) (n : nat) : length a = n -> firstn n (a ++ b) = a.
Proof. intros <-. rewrite firstn_app, Nat.sub_diag, firstn_all. cbn. apply app_nil_r. Qed.
Lemma skipn_app_exact (a b : list A) (n : nat) : length a = n -> skipn n (a ++ b) = b.
Proof. intros <-. rewrite skipn_app, Nat.sub_diag, skipn_all. reflexivity. Qed.
Lemma skipn_app_plus (a b : list A) (n k : nat) : length a = n -> skipn (n + k) (a ++ b) = skipn k b.
Proof. intros <-. rewrite skipn_app, skipn_all2 by lia. cbn. f_equal. lia. Qed.
Lemma firstn_app_plus (a b : list A) (n k : nat) : length a = n -> firstn (n + k) (a ++ b) = a ++ firstn k b.
Proof. intros <-. rewrite firstn_app, firstn_all2 by lia. do 2 f_equal. lia. Qed.
Lemma skipn_skipn_add l (a b : nat) : skipn a (skipn b l) = skipn (b + a) l.
Proof. revert l. induction b as [|b IH]; intro l; [reflexivity|]. destruct l; [now rewrite !skipn_nil|]. cbn. apply IH. Qed.

(* ---------------- Z level: take / drop / slice ---------------- *)
Lemma len_take n l : 0 <= n <= len l -> len (take n l) = n.
Proof. unfold take, len. intro. rewrite firstn_length. lia. Qed.
Lemma len_drop n l : 0 <= n <= len l -> len (drop n l) = len l - n.
Proof. unfold drop, len. intro. rewrite skipn_length. lia. Qed.
Lemma take_drop n l : take n l ++ drop n l = l.
Proof. apply firstn_skipn. Qed.
Lemma take_all n l : len l <= n -> take n l = l.
Proof. unfold take, len. intro. apply firstn_all2. lia. Qed.
Lemma drop_all n l : len l <= n -> drop n l = [].
Proof. unfold drop, len. intro. apply skipn_all2. lia. Qed.
Lemma take_0 l : take 0 l = []. Proof. reflexivity. Qed.
Lemma drop_0 l : drop 0 l = l. Proof. reflexivity. Qed.
Lemma take_app_len (a b : list A) : take (len a) (a ++ b) = a. Proof. apply take_len_app. Qed.
Lemma drop_app_len (a b : list A) : drop (len a) (a ++ b) = b. Proof. apply drop_len_app. Qed.
Lemma drop_app_plus (a b : list A) k : 0 <= k -> drop (len a + k) (a ++ b) = drop k b.
Proof. intro. unfold drop, len. rewrite Z2Nat.inj_add, Nat2Z.id by lia. now apply skipn_app_plus. Qed.
Lemma take_app_plus (a b : list A) k : 0 <= k -> take (len a + k) (a ++ b) = a ++ take k b.
Proof. intro. unfold take, len. rewrite Z2Nat.inj_add, Nat2Z.id by lia. now apply firstn_app_plus. Qed.
Lemma drop_drop a b l : 0 <= a -> 0 <= b -> drop a (drop b l) = drop (b + a) l.
Proof. intros. unfold drop. rewrite skipn_skipn_add. f_equal. lia. Qed.
Lemma take_take a b l : 0 <= a <= b -> take a (take b l) = take a l.
Proof. intros. unfold take. rewrite firstn_firstn. f_equal. lia. Qed.
Lemma take_app_le (a b : list A) k : 0 <= k <= len a -> take k (a ++ b) = take k a.
Proof. intro. unfold take, len in *. rewrite firstn_app. replace (Z.to_nat k - length a)%nat with 0%nat by lia.
  cbn. apply app_nil_r. Qed.
Lemma slice_take_drop l a b : 0 <= a -> slice l a b = take (b - a) (drop a l).
Proof. intro. unfold slice, take, drop. rewrite (Z.max_r 0 a) by lia.
  destruct (Z.le_gt_cases 0 (b - a)); [rewrite Z.max_r by lia; reflexivity|].
  rewrite Z.max_l by lia. now replace (Z.to_nat (b - a)) with 0%nat by lia. Qed.
Lemma slice_0 l b : slice l 0 b = take b l.
Proof. rewrite slice_take_drop by lia. now rewrite Z.sub_0_r. Qed.
Lemma len_slice l a b : 0 <= a <= b -> b <= len l -> len (slice l a b) = b - a.
Proof. intros. rewrite slice_take_drop by lia. rewrite len_take; [lia|]. rewrite len_drop; lia. Qed.
Lemma firstn_add (n p : nat) : forall k : list A, firstn (n + p) k = firstn n k ++ firstn p (skipn n k).
Proof. induction n as [|n IH]; intro k; [reflexivity|]. destruct k; cbn; [now rewrite firstn_nil|]. f_equal. apply IH. Qed.
Lemma len_slice_le l a b : 0 <= a <= b -> len (slice l a b) <= b - a.
Proof. intros. rewrite slice_take_drop by lia. unfold take, len. rewrite firstn_length. lia. Qed.
Lemma slice_app_adj l a b c : 0 <= a <= b -> b <= c -> slice l a b ++ slice l b c = slice l a c.
Proof. intros. rewrite !slice_take_drop by lia.
  replace (drop b l) with (drop (b - a) (drop a l)) by (rewrite drop_drop by lia; f_equal; lia).
  replace (c - a) with ((b - a) + (c - b)) by lia.
  unfold take, drop. rewrite Z2Nat.inj_add by lia. symmetry. apply firstn_add. Qed.
Lemma slice_nil_eq l a : slice l a a = [].
Proof. unfold slice. replace (Z.max 0 (a - Z.max 0 a)) with 0 by lia. reflexivity. Qed.

(* ---------------- splice: overwrite len d bytes at off ---------------- *)
Definition splice m (off : Z) d : list A := take off m ++ d ++ drop (off + len d) m.

Lemma len_splice m off d : 0 <= off -> off + len d <= len m -> len (splice m off d) = len m.
Proof. intros. pose proof (len_nonneg d). unfold splice. rewrite !len_app, len_take, len_drop by lia. lia. Qed.
Lemma splice_nil m off : splice m off [] = m.
Proof. unfold splice. cbn [app]. change (len (@nil A)) with 0. rewrite Z.add_0_r. apply take_drop. Qed.
Lemma splice_adj m off d1 d2 : 0 <= off -> off + len d1 + len d2 <= len m ->
  splice (splice m off d1) (off + len d1) d2 = splice m off (d1 ++ d2).
Proof.
  intros H0 H1. pose proof (len_nonneg d1). pose proof (len_nonneg d2).
  assert (Ht : len (take off m) = off) by (apply len_take; lia).
  assert (Hl : len (take off m ++ d1) = off + len d1) by (rewrite len_app; lia).
  unfold splice at 1 2.
  assert (E1 : take (off + len d1) (take off m ++ d1 ++ drop (off + len d1) m) = take off m ++ d1).
  { rewrite app_assoc. set (Y := drop (off + len d1) m). rewrite <- Hl. apply take_app_len. }
  assert (E2 : drop (off + len d1 + len d2) (take off m ++ d1 ++ drop (off + len d1) m) = drop (off + len d1 + len d2) m).
  { rewrite app_assoc. set (Y := drop (off + len d1) m).
    replace (off + len d1 + len d2) with (len (take off m ++ d1) + len d2) by lia.
    rewrite drop_app_plus by lia. subst Y. rewrite drop_drop by lia. f_equal. lia. }
  rewrite E1, E2. unfold splice. rewrite len_app, <- !app_assoc. do 3 f_equal. f_equal. lia.
Qed.
Lemma take_splice_lo m off d n : 0 <= n <= off -> off <= len m -> take n (splice m off d) = take n m.
Proof. intros. unfold splice. rewrite take_app_le by (rewrite len_take; lia). apply take_take; lia. Qed.
Lemma drop_splice_hi m off d n : 0 <= off -> off + len d <= n -> off + len d <= len m ->
  drop n (splice m off d) = drop n m.
Proof. intros. pose proof (len_nonneg d). unfold splice.
  assert (Ht : len (take off m) = off) by (apply len_take; lia).
  rewrite app_assoc.
  replace n with (len (take off m ++ d) + (n - off - len d)) at 1 by (rewrite len_app; lia).
  rewrite drop_app_plus by lia. rewrite drop_drop by lia. f_equal. lia. Qed.
Lemma slice_splice_same m off d : 0 <= off -> off + len d <= len m ->
  slice (splice m off d) off (off + len d) = d.
Proof. intros. pose proof (len_nonneg d). rewrite slice_take_drop by lia. unfold splice.
  assert (Ht : len (take off m) = off) by (apply len_take; lia).
  set (X := take off m) in *. set (R := drop (off + len d) m).
  assert (E : drop off (X ++ d ++ R) = d ++ R) by (rewrite <- Ht; apply drop_app_len).
  rewrite E. replace (off + len d - off) with (len d) by lia. apply take_app_len. Qed.
Lemma slice_drop_take l a b : 0 <= a <= b -> slice l a b = drop a (take b l).
Proof. intros. rewrite slice_take_drop by lia. unfold take, drop. rewrite firstn_skipn_comm. do 2 f_equal. lia. Qed.
Lemma slice_splice_lo m off d a b : 0 <= a <= b -> b <= off -> off <= len m ->
  slice (splice m off d) a b = slice m a b.
Proof. intros. rewrite !slice_drop_take by lia. now rewrite take_splice_lo by lia. Qed.

(* ---------------- a sequence of adjacent writes ---------------- *)
Fixpoint write_seq m (off : Z) (cs : list (list A)) : list A :=
  match cs with [] => m | c :: r => write_seq (splice m off c) (off + len c) r end.
Lemma write_seq_concat cs : forall m off, 0 <= off -> off + len (concat cs) <= len m ->
  write_seq m off cs = splice m off (concat cs).
Proof. induction cs as [|c r IH]; intros m off H0 H1; cbn [write_seq concat].
  - now rewrite splice_nil.
  - cbn [concat] in H1. rewrite len_app in H1. pose proof (len_nonneg c). pose proof (len_nonneg (concat r)).
    rewrite IH by (rewrite ?len_splice; lia). apply splice_adj; lia. Qed.

(* ---------------- chunks ---------------- *)
Fixpoint chunks_aux (fuel : nat) (n : Z) l : list (list A) :=
  match fuel with O => [] | S f =>
    match l with [] => [] | _ => take n l :: chunks_aux f n (drop n l) end end.
Definition chunks (n : Z) l := chunks_aux (length l) n l.

Lemma chunks_aux_concat n : 1 <= n -> forall fuel l, (length l <= fuel)%nat -> concat (chunks_aux fuel n l) = l.
Proof. intro Hn. induction fuel as [|f IH]; intros l Hl.
  - destruct l; [reflexivity | cbn in Hl; lia].
  - destruct l as [|x l']; [reflexivity|]. cbn [chunks_aux concat]. rewrite IH; [apply take_drop|].
    unfold drop. rewrite skipn_length. cbn [length] in *. lia. Qed.
Lemma chunks_concat n l : 1 <= n -> concat (chunks n l) = l.
Proof. intro. apply chunks_aux_concat; [assumption | lia]. Qed.
Lemma chunks_aux_bound n : 1 <= n -> forall fuel l, Forall (fun c => 1 <= len c <= n) (chunks_aux fuel n l).
Proof. intro Hn. induction fuel as [|f IH]; intro l; [constructor|]. destruct l as [|x l']; [constructor|].
  cbn [chunks_aux]. constructor; [|apply IH]. unfold take, len. rewrite firstn_length. cbn [length]. lia. Qed.
Lemma chunks_bound n l : 1 <= n -> Forall (fun c => 1 <= len c <= n) (chunks n l).
Proof. intro. now apply chunks_aux_bound. Qed.
Lemma chunks_nil n : chunks n [] = []. Proof. reflexivity. Qed.
Lemma chunks_cons n l : l <> [] -> 1 <= n -> chunks n l = take n l :: chunks n (drop n l).
Proof. intros Hl Hn. unfold chunks. destruct l as [|x l']; [congruence|].
  cbn [length chunks_aux]. f_equal.
  (* fuel independence *)
  assert (Hind : forall f1 f2 k, (length k <= f1)%nat -> (length k <= f2)%nat -> chunks_aux f1 n k = chunks_aux f2 n k).
  { induction f1 as [|f1 IH]; intros f2 k H1 H2.
    - destruct k; [|cbn in H1; lia]. destruct f2; reflexivity.
    - destruct f2 as [|f2]; [destruct k; [reflexivity | cbn in H2; lia]|].
      destruct k as [|y k']; [reflexivity|]. cbn [chunks_aux]. f_equal. apply IH;
      unfold drop; rewrite skipn_length; cbn [length] in *; lia. }
  apply Hind; unfold drop; rewrite skipn_length; cbn [length]; lia. Qed.
Lemma chunks_single n l : l <> [] -> len l <= n -> chunks n l = [l].
Proof. intros Hl Hn. pose proof (len_nonneg l). assert (1 <= len l) by (destruct l; [congruence | rewrite len_cons; pose proof (len_nonneg l); lia]).
  rewrite chunks_cons by (auto; lia). rewrite take_all, drop_all by lia. reflexivity. Qed.
End Lists.

Lemma In_firstn {A} (x : A) n : forall l, In x (firstn n l) -> In x l.
Proof. induction n as [|n IH]; intros l H; [contradiction|]. destruct l; [contradiction|]. cbn in H. destruct H; [left|right]; auto. Qed.
Lemma Forall_firstn {A} (P : A -> Prop) (l : list A) n : Forall P l -> Forall P (firstn n l).
Proof. intro H. apply Forall_forall. intros x Hx. rewrite Forall_forall in H. apply H. eapply In_firstn; exact Hx. Qed.
Lemma splice0 {A} (x d : list A) : splice x 0 d = d ++ drop (len d) x.
Proof. reflexivity. Qed.

(* with offsets: [(off, c1); (off + len c1, c2); ...] *)
Fixpoint with_offsets {A} (off : Z) (cs : list (list A)) : list (Z * list A) :=
  match cs with [] => [] | c :: r => (off, c) :: with_offsets (off + len c) r end.
Lemma with_offsets_map_snd {A} (cs : list (list A)) : forall off, map snd (with_offsets off cs) = cs.
Proof. induction cs as [|c r IH]; intro off; cbn; [reflexivity | now rewrite IH]. Qed.
Lemma with_offsets_length {A} (cs : list (list A)) : forall off, length (with_offsets off cs) = length cs.
Proof. induction cs as [|c r IH]; intro off; cbn; [reflexivity | now rewrite IH]. Qed.
Lemma with_offsets_range {A} (cs : list (list A)) : forall off o c, In (o, c) (with_offsets off cs) ->
  off <= o /\ o + len c <= off + len (concat cs).
Proof. induction cs as [|c0 r IH]; intros off o c Hin; cbn in Hin; [contradiction|].
  cbn [concat]. rewrite len_app. pose proof (len_nonneg c0). pose proof (len_nonneg (concat r)).
  destruct Hin as [Heq|Hin]; [inversion Heq; subst; lia|]. apply IH in Hin. lia. Qed.
