(* C17 - the theorems of Proofs/AddrThm.v instantiated at every state reachable by an operation
   sequence on two linked controllers: c = get_side (exec ops) sd. *)
From Coq Require Import ZArith List Bool Lia.
From NV Require Import Base.Result Base.Bytes Base.PyPrims Model.Addr Proofs.Addr Proofs.AddrInv Proofs.AddrStep Proofs.AddrThm.
Import ListNotations.
Open Scope Z_scope.

Definition reach (blk : bool) (ops : list op) (sd : side) : ctl := get_side (exec blk ops) sd.
Lemma reach_wf blk ops sd : wf (reach blk ops sd).
Proof. apply wf2_side, exec_wf2. Qed.

(* the documented outcome of bind(): [bind_outcome c i s arg c' r] *)
Definition bind_outcome (c : ctl) (i : nat) (s : sock) (arg : bindarg) (c' : ctl) (r : res out) : Prop :=
  match arg with
  | BNone =>
      (exists a, least_free c 32 64 a /\ r = Ok OUnit /\ bound_alone c' i a /\ c_snl c' = c_snl c) \/
      (none_free c 32 64 /\ r = Err (LlcpError EAGAIN) /\ c' = c)
  | BAddr a =>
      if (a <? 0) || (63 <? a) then r = Err (LlcpError EFAULT) /\ c' = c
      else if ((32 <=? a) && (a <=? 63)) || stype_eqb (s_type s) TRaw then
        (bound_set c a = [] /\ 2 <= a /\ r = Ok OUnit /\ bound_alone c' i a /\ c_snl c' = c_snl c) \/
        ((bound_set c a <> [] \/ a < 2) /\ r = Err (LlcpError EADDRINUSE) /\ c' = c)
      else r = Err (LlcpError EACCES) /\ c' = c
  | BName n =>
      if negb (name_valid n) then r = Err (LlcpError EFAULT) /\ c' = c else
      match name_addr c n with
      | Some _ => r = Err (LlcpError EADDRINUSE) /\ c' = c
      | None =>
        match wks n with
        | Some w =>
            (bound_set c w = [] /\ w = 4 /\ r = Ok OUnit /\ bound_alone c' i w /\ name_addr c' n = Some w) \/
            (bound_set c w <> [] /\ r = Err (LlcpError EADDRINUSE) /\ c' = c)
        | None =>
            (exists a, least_free c 16 32 a /\ r = Ok OUnit /\ bound_alone c' i a /\ name_addr c' n = Some a) \/
            (none_free c 16 32 /\ r = Err (LlcpError EADDRNOTAVAIL) /\ c' = c)
        end
      end
  | BBad => r = Err (LlcpError EFAULT) /\ c' = c
  end.

Theorem bind_ranges_all blk ops sd i s arg c' r :
  get_sock (reach blk ops sd) i = Some s -> s_addr s = None -> do_bind (reach blk ops sd) i arg = (c', r) ->
  bind_outcome (reach blk ops sd) i s arg c' r.
Proof. intros G A D. exact (bind_spec _ _ _ _ _ _ (reach_wf blk ops sd) G A D). Qed.

Theorem bind_errno_all blk ops sd i s arg c' e :
  get_sock (reach blk ops sd) i = Some s -> s_addr s = None -> do_bind (reach blk ops sd) i arg = (c', Err e) ->
  (exists x, e = LlcpError x /\ documented x) \/
  (exists n, arg = BName n /\ name_valid n = true /\ name_addr (reach blk ops sd) n = None /\ wks n = None /\
             none_free (reach blk ops sd) 16 32 /\ e = LlcpError EADDRNOTAVAIL).
Proof. intros G A D. exact (bind_errno _ _ _ _ _ _ (reach_wf blk ops sd) G A D). Qed.

(* a bound socket cannot be bound again *)
Theorem bind_twice_all blk ops sd i s a arg : get_sock (reach blk ops sd) i = Some s -> s_addr s = Some a ->
  do_bind (reach blk ops sd) i arg = (reach blk ops sd, Err (LlcpError EINVAL)).
Proof. intros G A. unfold do_bind. rewrite G, A. reflexivity. Qed.

(* the undocumented errno is reachable: 16 named binds, then a 17th name *)
Definition nm (k : Z) : name := urn_nfc ++ sn_colon ++ [97 + k].
Definition sixteen_named : list op :=
  flat_map (fun k => [XLoc SA (LSocket TLdl); XLoc SA (LBind (Z.to_nat k) (BName (nm k)))]) (zrange 0 16)
  ++ [XLoc SA (LSocket TLdl)].
Theorem bind_errno_undocumented :
  exists blk ops sd i s n, get_sock (reach blk ops sd) i = Some s /\ s_addr s = None /\ name_valid n = true /\
    snd (do_bind (reach blk ops sd) i (BName n)) = Err (LlcpError EADDRNOTAVAIL) /\ ~ documented EADDRNOTAVAIL.
Proof.
  exists true, sixteen_named, SA, 16%nat, (new_sock TLdl), (nm 16).
  split; [vm_compute; reflexivity|]. split; [reflexivity|]. split; [vm_compute; reflexivity|].
  split; [vm_compute; reflexivity|]. unfold documented, EADDRNOTAVAIL, EADDRINUSE, EACCES, EFAULT, EAGAIN. lia.
Qed.

Theorem close_frees_all blk ops sd i s a c' r :
  get_sock (reach blk ops sd) i = Some s -> s_addr s = Some a -> s_pend s = PdNone ->
  bound_set (reach blk ops sd) a = [i] -> sock_close s <> None -> do_close (reach blk ops sd) i = (c', r) ->
  r = Ok OUnit /\ bound_set c' a = [] /\ is_free c' a = true /\ (forall n, name_addr c' n <> Some a) /\
  (forall b, b <> a -> sap_get c' b = sap_get (reach blk ops sd) b) /\
  (forall n b, b <> a -> (name_addr c' n = Some b <-> name_addr (reach blk ops sd) n = Some b)).
Proof. intros G A P B SC D. exact (close_last _ _ _ _ _ _ (reach_wf blk ops sd) G A P B SC D). Qed.

Theorem close_not_last_all blk ops sd i s a c' r l :
  get_sock (reach blk ops sd) i = Some s -> s_addr s = Some a -> s_pend s = PdNone ->
  bound_set (reach blk ops sd) a = l -> (exists j, j <> i /\ In j l) -> sock_close s <> None ->
  do_close (reach blk ops sd) i = (c', r) ->
  r = Ok OUnit /\ bound_set c' a = remove_id l i /\ bound_set c' a <> [] /\ c_snl c' = c_snl (reach blk ops sd).
Proof. intros G A P B J SC D. exact (close_not_last _ _ _ _ _ _ _ (reach_wf blk ops sd) G A P B J SC D). Qed.

Theorem close_pending_all blk ops sd i s' a :
  (exists s, get_sock (reach blk ops sd) i = Some s /\ evolves s s') -> s_addr s' = Some a -> s_recvq s' <> [] ->
  bound_set (reach blk ops sd) a = [i] ->
  let c' := fst (finish_close (reach blk ops sd) i s') in
  bound_set c' a = [] /\ is_free c' a = true /\ (forall n, name_addr c' n <> Some a) /\
  (forall n b, b <> a -> (name_addr c' n = Some b <-> name_addr (reach blk ops sd) n = Some b)).
Proof. intros E A Q B. exact (close_pending_completes _ _ _ _ (reach_wf blk ops sd) E A Q B). Qed.

Theorem rebind_all blk ops sd j s n :
  get_sock (reach blk ops sd) j = Some s -> s_addr s = None -> name_valid n = true -> wks n = None ->
  name_addr (reach blk ops sd) n = None -> (exists a, 16 <= a < 32 /\ bound_set (reach blk ops sd) a = []) ->
  exists a, least_free (reach blk ops sd) 16 32 a /\ snd (do_bind (reach blk ops sd) j (BName n)) = Ok OUnit /\
            name_addr (fst (do_bind (reach blk ops sd) j (BName n))) n = Some a.
Proof. intros G A V K L F. exact (rebind_after_close _ _ _ _ (reach_wf blk ops sd) G A V K L F). Qed.

Theorem name_meaning_all blk ops sd n :
  match name_addr (reach blk ops sd) n with
  | Some a => (n = name_sdp /\ a = 1) \/
              (2 <= a < 64 /\ bound_set (reach blk ops sd) a <> [] /\
               forall i, In i (bound_set (reach blk ops sd) a) -> exists s, get_sock (reach blk ops sd) i = Some s /\ s_addr s = Some a /\
                 (s_bname s = Some n \/ (s_bname s = None /\ nolisten (s_state s))))
  | None => forall a i s, In i (bound_set (reach blk ops sd) a) -> get_sock (reach blk ops sd) i = Some s -> s_bname s <> Some n
  end.
Proof. exact (name_addr_meaning _ n (reach_wf blk ops sd)). Qed.

Theorem sdreq_answer_all blk ops sd rq rs c' r : dispatch (reach blk ops sd) (PSnl rq rs) = (c', r) ->
  sd_sdres c' = sd_sdres (reach blk ops sd) ++
                map (fun x => (fst x, match name_addr (reach blk ops sd) (snd x) with Some a => a | None => 0 end)) rq /\
  c_sap c' = c_sap (reach blk ops sd) /\ c_snl c' = c_snl (reach blk ops sd) /\ c_socks c' = c_socks (reach blk ops sd).
Proof. intro D. exact (sdreq_answer _ _ _ _ _ (reach_wf blk ops sd) D). Qed.

Definition connect_by_name_outcome (c : ctl) (ssap : Z) (n : name) (c' : ctl) (r : res (list event)) : Prop :=
  match name_addr c n with
  | None => r = Ok [] /\ c_socks c' = c_socks c /\ c_sap c' = c_sap c /\ sd_dmpdu c' = sd_dmpdu c ++ [PDM ssap 1 2]
  | Some a =>
      a = 1 \/
      (2 <= a /\
       ((exists i s, In i (bound_set c a) /\ get_sock c i = Some s /\ s_state s = StListen /\ s_bname s = Some n /\
                     sock_enqueue c i s (PConnect a ssap None) = (c', r) /\
                     (forall j, j <> i -> get_sock c' j = get_sock c j) /\
                     (forall evs j q, r = Ok evs -> In (EvEnq j q) evs -> j = i)) \/
        ((forall i s, In i (bound_set c a) -> get_sock c i = Some s -> s_state s <> StListen) /\
         r = Ok [] /\ c_socks c' = c_socks c /\
         exists l sl, sap_get c a = Sap l sl /\ sap_get c' a = Sap l (sl ++ [PDM ssap a 2]))))
  end.
Theorem connect_by_name_all blk ops sd ssap n c' r : dispatch (reach blk ops sd) (PConnect 1 ssap (Some n)) = (c', r) ->
  connect_by_name_outcome (reach blk ops sd) ssap n c' r.
Proof. intro D. exact (connect_by_name _ _ _ _ _ (reach_wf blk ops sd) D). Qed.

Definition datagram_outcome (c : ctl) (d sa : Z) (data : list Z) (c' : ctl) (r : res (list event)) : Prop :=
  r = Hang \/
  exists evs, r = Ok evs /\
   (((forall j q, ~ In (EvEnq j q) evs) /\
     forall k sk, get_sock c k = Some sk -> exists sk', get_sock c' k = Some sk' /\ (s_recvq sk' = s_recvq sk \/ s_recvq sk' = []))
    \/
    (exists j sj, evs = [EvEnq j (PUI d sa data)] /\ In j (bound_set c d) /\ get_sock c j = Some sj /\ s_addr sj = Some d /\
       s_type sj <> TDlc /\ (s_peer sj = None \/ s_peer sj = Some sa) /\
       get_sock c' j = Some (set_recvq sj (s_recvq sj ++ [PUI d sa data])) /\
       forall k, k <> j -> get_sock c' k = get_sock c k)).
Theorem datagram_dispatch_all blk ops sd d sa data c' r : dispatch (reach blk ops sd) (PUI d sa data) = (c', r) ->
  datagram_outcome (reach blk ops sd) d sa data c' r.
Proof. intro D. exact (datagram_dispatch _ _ _ _ _ _ (reach_wf blk ops sd) D). Qed.

Theorem datagram_sendto_all blk ops sd i s msg d c' : get_sock (reach blk ops sd) i = Some s -> s_type s = TLdl ->
  do_sendto (reach blk ops sd) i msg d = (c', Ok (OBool true)) ->
  exists s' a, get_sock c' i = Some s' /\ s_addr s' = Some a /\ (s_addr s = None \/ s_addr s = Some a) /\
               s_sendq s' = s_sendq s ++ [PUI d a msg] /\ s_recvq s' = s_recvq s /\
               (s_peer s = None \/ s_peer s = Some 0 \/ s_peer s = Some d) /\ len msg <= link_miu.
Proof. intros G T D. exact (datagram_sendto _ _ _ _ _ _ (reach_wf blk ops sd) G T D). Qed.

Theorem collect_head_all blk ops sd a miu p c' : collect1 (reach blk ops sd) a miu = Some (p, c') ->
  (exists i s s', In i (bound_set (reach blk ops sd) a) /\ get_sock (reach blk ops sd) i = Some s /\ s_addr s = Some a /\
                  get_sock c' i = Some s' /\
                  (exists rest, s_sendq s = p :: rest /\ (s_sendq s' = rest \/ s_sendq s' = [])) /\
                  forall k, k <> i -> get_sock c' k = get_sock (reach blk ops sd) k) \/
  (exists l sl, sap_get (reach blk ops sd) a = Sap l (p :: sl) /\ sap_get c' a = Sap l sl /\ c_socks c' = c_socks (reach blk ops sd)) \/
  (a = 1 /\ c_socks c' = c_socks (reach blk ops sd)).
Proof. intro C. exact (collect_head _ _ _ _ _ (reach_wf blk ops sd) C). Qed.

(* in every reachable state: whatever waits in the receive queue of a datagram socket is a UI PDU addressed to the
   address the socket is bound to; whatever waits in its send queue is a UI PDU carrying that address as source *)
Theorem datagram_queues_all blk ops sd i s p : get_sock (reach blk ops sd) i = Some s -> s_type s = TLdl ->
  (In p (s_recvq s) -> exists d sa data, p = PUI d sa data /\ s_addr s = Some d) /\
  (In p (s_sendq s) -> exists d data a, p = PUI d a data /\ s_addr s = Some a).
Proof.
  intros G T. split; intro H.
  - exact (wf_ldl_rq _ (reach_wf blk ops sd) i s p G T H).
  - exact (wf_ldl_sq _ (reach_wf blk ops sd) i s p G T H).
Qed.
