(* The memory reader's state (data_from_tag, data_in_cache) across several write attempts on one tag object:
   an invariant that every successful, lost or unanswered command preserves, and that makes every tag
   memory reached safe (previous message | length byte 0 | complete new message) and every completed
   attempt end with the new message.  Abstract in the write unit, the caches and the phases; indices are
   list positions. *)
From Coq Require Import ZArith List Bool Lia ZifyBool.
From NV Require Import Base.Result Base.Bytes Model.TlvMem Proofs.TlvLib Proofs.TlvSync.
Import ListNotations.
Open Scope Z_scope.

Section Retry.
Variables (u k z : nat) (n : Z) (em cF : list Z).
Variable Sall : nat -> bool.      (* positions a cache may differ from the final cache cF (and from em) in *)
Hypothesis upos : (0 < u)%nat.
Hypothesis Hem : length em = (k * u)%nat.
Hypothesis HcF : length cF = (k * u)%nat.
Hypothesis Hlow : forall i, Sall i = true -> (z <= i)%nat.
Hypothesis HzS : Sall z = true.
Hypothesis HaccS : forall i, Sall i = true -> Z.of_nat (i / u * u + u) <= n.

Notation uz := (z / u)%nat.
Definition lenok (l : list Z) : Prop := length l = (k * u)%nat.
Definition FR (l : list Z) : Prop := lenok l /\ forall i, Sall i = false -> nth i l 0 = nth i cF 0.
Hypothesis FRem : FR em.
Set Default Proof Using "upos Hem HcF Hlow HzS HaccS FRem".
Definition ueq (q : nat) (a b : list Z) : Prop := forall i, (i / u = q)%nat -> nth i a 0 = nth i b 0.
(* the new message is complete on the tag, and reader and cache know everything but the unit of the length byte *)
Definition D3 (T F c : list Z) : Prop :=
  T = cF /\ forall i, (i / u)%nat <> uz -> nth i F 0 = nth i cF 0 /\ nth i c 0 = nth i cF 0.
Definition mode (T F c : list Z) : Prop :=
  (T = em /\ F = em /\ nth z em 0 <> 0) \/ nth z T 0 = 0 \/ D3 T F c.
(* reader_ok: T tag memory, F data_from_tag, c data_in_cache *)
Definition INV (T F c : list Z) : Prop :=
  FR T /\ FR F /\ FR c /\ mode T F c /\
  forall q, ueq q T F \/ (ueq q T c /\ (q = uz -> nth z c 0 = 0)) \/ (q = uz /\ D3 T F c).
Definition SAFE (T : list Z) : Prop := FR T /\ (T = em \/ nth z T 0 = 0 \/ T = cF).

Lemma INV_safe T F c : INV T F c -> SAFE T.
Proof. intros (FT & _ & _ & [(H & _)|[H|(H & _)]] & _); (split; [exact FT|]); [left | right; left | right; right]; exact H. Qed.
Lemma SAFE_INV T : SAFE T -> INV T T T.
Proof.
  intros [FT H]. split; [exact FT|]. split; [exact FT|]. split; [exact FT|]. split.
  - destruct H as [->|[H| ->]].
    + destruct (Z.eq_dec (nth z em 0) 0) as [E|E]; [right; left; exact E | left; auto].
    + right; left; exact H.
    + right; right. split; [reflexivity|]. auto.
  - intro q. left. intros i _. reflexivity.
Qed.
Lemma FR_cF : FR cF. Proof. split; [exact HcF | auto]. Qed.
Lemma INV_init : INV em em em.
Proof. split; [exact FRem|]. split; [exact FRem|]. split; [exact FRem|]. split.
  - destruct (Z.eq_dec (nth z em 0) 0) as [E|E]; [right; left; exact E | left; auto].
  - intro q. left. intros i _. reflexivity. Qed.
Lemma INV_final : INV cF cF cF.
Proof. split; [exact FR_cF|]. split; [exact FR_cF|]. split; [exact FR_cF|]. split.
  - right; right. split; [reflexivity|]. auto.
  - intro q. left. intros i _. reflexivity. Qed.

Lemma nth_beyond (l : list Z) i : lenok l -> (k * u <= i)%nat -> nth i l 0 = 0.
Proof. intros H Hi. apply nth_overflow. unfold lenok in H. lia. Qed.
Lemma udiff_ueq F c q : lenok F -> lenok c -> udiff u F c q = false -> ueq q F c.
Proof. intros HF Hc H i Hi. destruct (Nat.lt_ge_cases q k) as [Hq|Hq].
  - apply (udiff_false u upos F c q k Hc HF Hq H i Hi).
  - assert (k * u <= i)%nat by (pose proof (Nat.div_mod i u ltac:(lia)); nia). rewrite !nth_beyond by assumption. reflexivity. Qed.
Lemma ueq_udiff F c q : lenok F -> lenok c -> ueq q F c -> udiff u F c q = false.
Proof. intros HF Hc H. destruct (udiff u F c q) eqn:E; [|reflexivity].
  destruct (udiff_true_ex u upos k F c q Hc HF E) as (_ & i & Hi & Hd). elim Hd. apply H, Hi. Qed.
Lemma FR_below F c q : FR F -> FR c -> (q < uz)%nat -> ueq q F c.
Proof. intros [_ HF] [_ Hc] Hq i Hi. assert (Hs : Sall i = false).
  { destruct (Sall i) eqn:E; [|reflexivity]. apply Hlow in E. pose proof (Nat.div_mod i u ltac:(lia)). pose proof (Nat.div_mod z u ltac:(lia)).
    pose proof (Nat.mod_upper_bound i u ltac:(lia)). nia. }
  rewrite HF, Hc by exact Hs. reflexivity. Qed.
Lemma list_ext0 (a b : list Z) : lenok a -> lenok b -> (forall i, nth i a 0 = nth i b 0) -> a = b.
Proof. intros Ha Hb H. apply list_ext; [unfold lenok in *; congruence | intros; apply H]. Qed.

(* ---- one synchronize towards a cache c whose length byte is 0: T' / F' are T / F after the commands of the units below
        bi / bj; T' is at most one command ahead of F' ---- *)
Lemma sync_core T F c T' F' bi bj : INV T F c -> nth z c 0 = 0 -> lenok T' -> lenok F' ->
  (forall x, nth x T' 0 = if ((x / u <? bi)%nat && udiff u F c (x / u))%bool then nth x c 0 else nth x T 0) ->
  (forall x, nth x F' 0 = if ((x / u <? bj)%nat && udiff u F c (x / u))%bool then nth x c 0 else nth x F 0) ->
  (bi = bj \/ (bi = S bj /\ udiff u F c bj = true)) ->
  INV T' F' c.
Proof.
  intros (FT & FF & Fc & Hm & HB) Hz0 LT LF HT HF Hb.
  assert (FT' : FR T').
  { split; [exact LT|]. intros i Hi. rewrite HT. destruct (_ && _); [apply Fc | apply FT]; exact Hi. }
  assert (FF' : FR F').
  { split; [exact LF|]. intros i Hi. rewrite HF. destruct (_ && _); [apply Fc | apply FF]; exact Hi. }
  assert (Hbij : (bj <= bi)%nat) by (destruct Hb as [->|[-> _]]; lia).
  (* when the new message is complete on the tag only the unit of the length byte can still differ *)
  assert (HD3 : D3 T F c -> forall q, q <> uz -> udiff u F c q = false).
  { intros [_ H3] q Hq. apply ueq_udiff; [apply FF | apply Fc |]. intros i Hi. destruct (H3 i) as [A B]; [congruence|]. congruence. }
  split; [exact FT'|]. split; [exact FF'|]. split; [exact Fc|]. split.
  - (* mode *)
    destruct Hm as [(ET & EF & Hz)|[Hz|H3]].
    + (* nothing written yet: the first command is the one of the length byte's unit *)
      destruct (Nat.ltb_spec uz bi) as [Hlt|Hge].
      * right; left. rewrite HT. replace (uz <? bi)%nat with true by (symmetry; apply Nat.ltb_lt; exact Hlt).
        assert (E : udiff u F c uz = true).
        { destruct (udiff u F c uz) eqn:E; [reflexivity|]. pose proof (udiff_ueq F c uz (proj1 FF) (proj1 Fc) E z eq_refl) as Ez.
          subst F. congruence. }
        rewrite E. exact Hz0.
      * left. assert (Hno : forall x, ((x / u <? bi)%nat && udiff u F c (x / u))%bool = false).
        { intro x. destruct (Nat.ltb_spec (x / u) bi) as [Hx|Hx]; [|reflexivity]. cbn [andb].
          apply ueq_udiff; [apply FF | apply Fc | apply FR_below; [exact FF | exact Fc | lia]]. }
        split; [|split; [|exact Hz]].
        -- rewrite <- ET. apply list_ext0; [exact LT | apply FT|]. intro x. rewrite HT, Hno. reflexivity.
        -- rewrite <- EF. apply list_ext0; [exact LF | apply FF|]. intro x. rewrite HF.
           destruct (Nat.ltb_spec (x / u) bj) as [Hx|Hx]; [|reflexivity]. cbn [andb].
           rewrite (ueq_udiff F c (x / u)); [reflexivity | apply FF | apply Fc | apply FR_below; [exact FF | exact Fc | lia]].
    + right; left. rewrite HT. destruct (_ && _); assumption.
    + destruct (((uz <? bi)%nat && udiff u F c uz)%bool) eqn:E.
      * right; left. rewrite HT, E. exact Hz0.
      * right; right. pose proof H3 as [ET H3']. split.
        -- rewrite <- ET. apply list_ext0; [exact LT | apply FT|]. intro x. rewrite HT.
           destruct (Nat.eq_dec (x / u) uz) as [Ex|Ex]; [rewrite Ex, E; reflexivity|]. rewrite (HD3 H3 _ Ex), andb_false_r. reflexivity.
        -- intros i Hi. split; [|apply H3', Hi]. rewrite HF, (HD3 H3 _ Hi), andb_false_r. apply H3', Hi.
  - (* every unit: tag = reader, or tag = cache, or the message is complete *)
    intro q. destruct (Nat.ltb_spec q bj) as [Hq|Hq].
    + (* below both boundaries: the reader holds the cache's unit *)
      assert (EF : ueq q F' c).
      { intros i Hi. rewrite HF, Hi. replace (q <? bj)%nat with true by (symmetry; apply Nat.ltb_lt; exact Hq). cbn [andb].
        destruct (udiff u F c q) eqn:E; [reflexivity|]. apply (udiff_ueq F c q (proj1 FF) (proj1 Fc) E i Hi). }
      destruct (udiff u F c q) eqn:E.
      * left. intros i Hi. rewrite (EF i Hi), HT, Hi, E. replace (q <? bi)%nat with true by (symmetry; apply Nat.ltb_lt; lia). reflexivity.
      * assert (ET : ueq q T' T) by (intros i Hi; rewrite HT, Hi, E, andb_false_r; reflexivity).
        pose proof (udiff_ueq F c q (proj1 FF) (proj1 Fc) E) as EFc.
        destruct (HB q) as [H1|[[H1 H2]|[H1 H3]]].
        -- left. intros i Hi. rewrite (ET i Hi), (H1 i Hi), (EFc i Hi), (EF i Hi). reflexivity.
        -- left. intros i Hi. rewrite (ET i Hi), (H1 i Hi), (EF i Hi). reflexivity.
        -- right; right. split; [exact H1|]. subst q. pose proof H3 as [ET3 H3']. split.
           ++ rewrite <- ET3. apply list_ext0; [exact LT | apply FT|]. intro x. rewrite HT.
              destruct (Nat.eq_dec (x / u) uz) as [Ex|Ex]; [rewrite Ex, E, andb_false_r; reflexivity|]. rewrite (HD3 H3 _ Ex), andb_false_r. reflexivity.
           ++ intros i Hi. split; [|apply H3', Hi]. rewrite HF, (HD3 H3 _ Hi), andb_false_r. apply H3', Hi.
    + assert (EF : ueq q F' F).
      { intros i Hi. rewrite HF, Hi. replace (q <? bj)%nat with false by (symmetry; apply Nat.ltb_ge; exact Hq). reflexivity. }
      destruct (((q <? bi)%nat && udiff u F c q)%bool) eqn:E.
      * (* the unit of the command that was executed but not answered *)
        right; left. split; [intros i Hi; rewrite HT, Hi, E; reflexivity | intros _; exact Hz0].
      * assert (ET : ueq q T' T) by (intros i Hi; rewrite HT, Hi, E; reflexivity).
        destruct (HB q) as [H1|[[H1 H2]|[H1 H3]]].
        -- left. intros i Hi. rewrite (ET i Hi), (EF i Hi). apply H1, Hi.
        -- right; left. split; [intros i Hi; rewrite (ET i Hi); apply H1, Hi | exact H2].
        -- subst q. destruct (((uz <? bi)%nat && udiff u F c uz)%bool) eqn:E2; [congruence|].
           right; right. split; [reflexivity|]. pose proof H3 as [ET3 H3']. split.
           ++ rewrite <- ET3. apply list_ext0; [exact LT | apply FT|]. intro x. rewrite HT.
              destruct (Nat.eq_dec (x / u) uz) as [Ex|Ex]; [rewrite Ex, E2; reflexivity|]. rewrite (HD3 H3 _ Ex), andb_false_r. reflexivity.
           ++ intros i Hi. split; [|apply H3', Hi]. rewrite HF, (HD3 H3 _ Hi), andb_false_r. apply H3', Hi.
Qed.

(* ---- phase steps ---- *)
Definition zeroP (c c' : list Z) : Prop := lenok c' /\ forall i, nth i c' 0 = if (i =? z)%nat then 0 else nth i c 0.
Definition midP (c c' : list Z) : Prop :=
  lenok c' /\ nth z c' 0 = nth z c 0 /\ forall i, nth i c' 0 = nth i c 0 \/ (Sall i = true /\ nth i c' 0 = nth i cF 0).

Lemma D3_cache T F c c' : D3 T F c -> (forall i, (i / u)%nat <> uz -> nth i c' 0 = nth i c 0 \/ nth i c' 0 = nth i cF 0) -> D3 T F c'.
Proof. intros [E H] Hc. split; [exact E|]. intros i Hi. destruct (H i Hi) as [A B]. split; [exact A|]. destruct (Hc i Hi); congruence. Qed.

(* the first phase of an attempt: the length byte of the cache becomes 0 *)
Lemma start_step T F c c1 : INV T F c -> zeroP c c1 -> INV T F c1 /\ nth z c1 0 = 0.
Proof.
  intros (FT & FF & Fc & Hm & HB) [L1 H1].
  assert (Hz1 : nth z c1 0 = 0) by (rewrite H1, Nat.eqb_refl; reflexivity).
  assert (Hother : forall i, (i / u)%nat <> uz -> nth i c1 0 = nth i c 0).
  { intros i Hi. rewrite H1. destruct (Nat.eqb_spec i z); [subst; congruence | reflexivity]. }
  split; [|exact Hz1]. split; [exact FT|]. split; [exact FF|]. split.
  { split; [exact L1|]. intros i Hi. rewrite H1. destruct (Nat.eqb_spec i z); [subst; congruence | apply Fc, Hi]. }
  split.
  - destruct Hm as [H|[H|H]]; [left; exact H | right; left; exact H | right; right].
    apply (D3_cache T F c c1 H). intros i Hi. left. apply Hother, Hi.
  - intro q. destruct (HB q) as [H|[[H H2]|[H H3]]]; [left; exact H | | right; right].
    + right; left. split; [|intros _; exact Hz1]. intros i Hi. rewrite (H i Hi), H1.
      destruct (Nat.eqb_spec i z) as [->|]; [|reflexivity]. apply H2. symmetry. exact Hi.
    + split; [exact H|]. apply (D3_cache T F c c1 H3). intros i Hi. left. apply Hother, Hi.
Qed.

(* a later phase, entered with reader = cache *)
Lemma phase_step T c c' : INV T c c -> midP c c' -> INV T c c'.
Proof.
  intros (FT & FF & Fc & Hm & HB) (L1 & Hz1 & H1).
  split; [exact FT|]. split; [exact FF|]. split.
  { split; [exact L1|]. intros i Hi. destruct (H1 i) as [E|[E _]]; [rewrite E; apply Fc, Hi | congruence]. }
  assert (HD : D3 T c c -> D3 T c c').
  { intro H. apply (D3_cache T c c c' H). intros i _. destruct (H1 i) as [E|[_ E]]; auto. }
  split.
  - destruct Hm as [H|[H|H]]; [left; exact H | right; left; exact H | right; right; apply HD, H].
  - intro q. destruct (HB q) as [H|[[H _]|[H H3]]]; [left; exact H | left; exact H | right; right; split; [exact H | apply HD, H3]].
Qed.

(* after a complete synchronize the reader holds the cache *)
Lemma sync_done F c F' : FR F -> FR c -> lenok F' ->
  (forall x, nth x F' 0 = if ((x / u <? k)%nat && udiff u F c (x / u))%bool then nth x c 0 else nth x F 0) -> F' = c.
Proof.
  intros FF Fc LF HF. apply list_ext0; [exact LF | apply Fc|]. intro x. rewrite HF.
  destruct (((x / u <? k)%nat && udiff u F c (x / u))%bool) eqn:E; [reflexivity|].
  destruct (Nat.ltb_spec (x / u) k) as [Hx|Hx].
  - cbn [andb] in E. apply (udiff_ueq F c (x / u) (proj1 FF) (proj1 Fc) E x eq_refl).
  - assert (k * u <= x)%nat by (pose proof (Nat.div_mod x u ltac:(lia)); nia). rewrite !nth_beyond; [reflexivity | apply Fc | assumption | apply FF | assumption].
Qed.

(* ---- the commit: reader = cache cm (length byte 0, equal to cF outside the unit of the length byte), target cF ---- *)
Lemma commit_core T cm T' F' bi bj : INV T cm cm -> nth z cm 0 = 0 ->
  (forall i, (i / u)%nat <> uz -> nth i cm 0 = nth i cF 0) -> lenok T' -> lenok F' ->
  (forall x, nth x T' 0 = if ((x / u <? bi)%nat && udiff u cm cF (x / u))%bool then nth x cF 0 else nth x T 0) ->
  (forall x, nth x F' 0 = if ((x / u <? bj)%nat && udiff u cm cF (x / u))%bool then nth x cF 0 else nth x cm 0) ->
  (bi = bj \/ (bi = S bj /\ udiff u cm cF bj = true)) ->
  INV T' F' cF /\ (bj = k -> T' = cF /\ F' = cF).
Proof.
  intros (FT & FF & _ & Hm & HB) Hz0 Hout LT LF HT HF Hb.
  assert (Hbij : (bj <= bi)%nat) by (destruct Hb as [->|[-> _]]; lia).
  assert (Hoth : forall q, q <> uz -> udiff u cm cF q = false).
  { intros q Hq. apply ueq_udiff; [apply FF | exact HcF |]. intros i Hi. apply Hout. congruence. }
  assert (HTout : forall i, (i / u)%nat <> uz -> nth i T 0 = nth i cF 0).
  { intros i Hi. destruct (HB (i / u)%nat) as [H|[[H _]|[H _]]]; [| | congruence]; rewrite (H i eq_refl); apply Hout, Hi. }
  assert (FT' : FR T') by (split; [exact LT|]; intros i Hi; rewrite HT; destruct (_ && _); [reflexivity | apply FT, Hi]).
  assert (FF' : FR F') by (split; [exact LF|]; intros i Hi; rewrite HF; destruct (_ && _); [reflexivity | apply FF, Hi]).
  assert (HFout : forall i, (i / u)%nat <> uz -> nth i F' 0 = nth i cF 0).
  { intros i Hi. rewrite HF, (Hoth _ Hi), andb_false_r. apply Hout, Hi. }
  destruct (((uz <? bi)%nat && udiff u cm cF uz)%bool) eqn:E.
  - (* the commit command has been executed: the tag holds the new message *)
    assert (ET : T' = cF).
    { apply list_ext0; [exact LT | exact HcF|]. intro x. rewrite HT.
      destruct (Nat.eq_dec (x / u) uz) as [Ex|Ex]; [rewrite Ex, E; reflexivity|]. rewrite (Hoth _ Ex), andb_false_r. apply HTout, Ex. }
    assert (H3 : D3 T' F' cF) by (split; [exact ET|]; intros i Hi; split; [apply HFout, Hi | reflexivity]).
    split.
    + split; [exact FT'|]. split; [exact FF'|]. split; [exact FR_cF|]. split; [right; right; exact H3|].
      intro q. destruct (Nat.eq_dec q uz) as [->|Hq]; [right; right; auto|].
      left. intros i Hi. rewrite ET. symmetry. apply HFout. congruence.
    + intros ->. split; [exact ET|]. apply (sync_done cm cF F' FF FR_cF LF HF).
  - (* not (yet) executed: the tag is as it was *)
    assert (ET : T' = T).
    { apply list_ext0; [exact LT | apply FT|]. intro x. rewrite HT.
      destruct (Nat.eq_dec (x / u) uz) as [Ex|Ex]; [rewrite Ex, E; reflexivity|]. rewrite (Hoth _ Ex), andb_false_r. reflexivity. }
    assert (EF : F' = cm).
    { apply list_ext0; [exact LF | apply FF|]. intro x. rewrite HF.
      destruct (Nat.eq_dec (x / u) uz) as [Ex|Ex]; [|rewrite (Hoth _ Ex), andb_false_r; reflexivity].
      rewrite Ex. destruct (Nat.ltb_spec uz bj) as [H|H]; [|reflexivity].
      replace (uz <? bi)%nat with true in E by (symmetry; apply Nat.ltb_lt; lia). cbn [andb] in E |- *. rewrite E. reflexivity. }
    subst T' F'.
    assert (HD : D3 T cm cm -> D3 T cm cF) by (intro H; apply (D3_cache T cm cm cF H); auto).
    split.
    + split; [exact FT|]. split; [exact FF|]. split; [exact FR_cF|]. split.
      * destruct Hm as [H|[H|H]]; [left; exact H | right; left; exact H | right; right; apply HD, H].
      * intro q. destruct (HB q) as [H|[[H _]|[H H3]]]; [left; exact H | left; exact H | right; right; split; [exact H | apply HD, H3]].
    + intros ->. (* complete without executing the command: the unit did not differ *)
      assert (Eu : udiff u cm cF uz = false).
      { destruct (Nat.ltb_spec uz bi) as [H|H]; [cbn [andb] in E; exact E|].
        apply ueq_udiff; [apply FF | exact HcF|]. intros i Hi. assert (k * u <= i)%nat by (pose proof (Nat.div_mod i u ltac:(lia)); nia).
        rewrite !nth_beyond; [reflexivity | exact HcF | assumption | apply FF | assumption]. }
      assert (Ecm : cm = cF).
      { apply list_ext0; [apply FF | exact HcF|]. intro x. destruct (Nat.eq_dec (x / u) uz) as [Ex|Ex]; [|apply Hout, Ex].
        apply (udiff_ueq cm cF uz (proj1 FF) HcF Eu x Ex). }
      split; [|exact Ecm]. destruct (HB uz) as [H|[[H _]|[_ [H _]]]]; [| | exact H];
        (apply list_ext0; [apply FT | exact HcF|]; intro x; destruct (Nat.eq_dec (x / u) uz) as [Ex|Ex]; [rewrite (H x Ex), Ecm; reflexivity | apply HTout, Ex]).
Qed.

(* ---- executing (a prefix of) the commands of a synchronize ---- *)
Definition cmd_ok (w : write) : Prop := Z.of_nat (uz * u) <= fst w /\ fst w + len (snd w) <= n.
Lemma acc_ok' F c : FR F -> FR c -> forall w, In w (sync_cmds u F c) -> cmd_ok w.
Proof.
  intros FF Fc w Hw. destruct (sync_cmds_bounds u upos k F c w (proj1 Fc) (proj1 FF) Hw) as (q & Hq & Hd & E1 & E2).
  destruct (udiff_true_ex u upos k F c q (proj1 Fc) (proj1 FF) Hd) as (_ & i & Hi & Hne).
  assert (Hs : Sall i = true).
  { destruct (Sall i) eqn:E; [reflexivity|]. elim Hne. rewrite (proj2 FF i E), (proj2 Fc i E). reflexivity. }
  pose proof (HaccS i Hs) as Hn. rewrite Hi in Hn. pose proof (Hlow i Hs) as Hz.
  assert (uz <= q)%nat by (rewrite <- Hi; apply Nat.div_le_mono; lia).
  unfold cmd_ok. rewrite E1, E2. split; [nia | lia].
Qed.
Lemma acc_ok F c : FR F -> FR c -> forall w, In w (sync_cmds u F c) -> 0 <= fst w /\ fst w + len (snd w) <= n.
Proof. intros FF Fc w Hw. destruct (acc_ok' F c FF Fc w Hw). split; [lia | assumption]. Qed.

(* the tag / reader memory after the first i commands, pointwise, with the unit boundary reached *)
Lemma prefix_pw F c i : FR F -> FR c -> exists b, (b <= k)%nat /\
  (forall l, lenok l -> lenok (apply_ws l (firstn i (sync_cmds u F c))) /\
     forall x, nth x (apply_ws l (firstn i (sync_cmds u F c))) 0 =
       if ((x / u <? b)%nat && udiff u F c (x / u))%bool then nth x c 0 else nth x l 0) /\
  ((length (sync_cmds u F c) <= i)%nat -> b = k) /\
  ((i < length (sync_cmds u F c))%nat -> udiff u F c b = true /\
     forall l, lenok l -> lenok (apply_ws l (firstn (S i) (sync_cmds u F c))) /\
       forall x, nth x (apply_ws l (firstn (S i) (sync_cmds u F c))) 0 =
         if ((x / u <? S b)%nat && udiff u F c (x / u))%bool then nth x c 0 else nth x l 0).
Proof.
  intros FF Fc. destruct (sync_prefix u upos k F c i (proj1 Fc) (proj1 FF)) as (b & Hb & E1 & E2 & E3).
  exists b. split; [exact Hb|]. split.
  { intros l Hl. rewrite E1. apply (apply_units u upos k F c (proj1 Fc) (proj1 FF) b l Hb Hl). }
  split; [exact E2|]. intro Hi. destruct (E3 Hi) as (G1 & G2 & G3). split; [exact G1|].
  intros l Hl. rewrite G3. apply (apply_units u upos k F c (proj1 Fc) (proj1 FF) (S b) l ltac:(lia) Hl).
Qed.

Lemma prefix_INV T F c i : INV T F c -> nth z c 0 = 0 ->
  INV (apply_ws T (firstn i (sync_cmds u F c))) (apply_ws F (firstn i (sync_cmds u F c))) c.
Proof.
  intros HI Hz. pose proof HI as (FT & FF & Fc & _). destruct (prefix_pw F c i FF Fc) as (b & _ & Hp & _).
  destruct (Hp T (proj1 FT)) as [LT PT]. destruct (Hp F (proj1 FF)) as [LF PF].
  apply (sync_core T F c _ _ b b HI Hz LT LF PT PF). left; reflexivity.
Qed.
Lemma prefix_INV_ahead T F c j : INV T F c -> nth z c 0 = 0 -> (j < length (sync_cmds u F c))%nat ->
  INV (apply_ws T (firstn (S j) (sync_cmds u F c))) (apply_ws F (firstn j (sync_cmds u F c))) c.
Proof.
  intros HI Hz Hj. pose proof HI as (FT & FF & Fc & _). destruct (prefix_pw F c j FF Fc) as (b & _ & Hp & _ & Ha).
  destruct (Ha Hj) as [Hd Hp']. destruct (Hp' T (proj1 FT)) as [LT PT]. destruct (Hp F (proj1 FF)) as [LF PF].
  apply (sync_core T F c _ _ (S b) b HI Hz LT LF PT PF). right; auto.
Qed.
Lemma prefix_done F c i : FR F -> FR c -> (length (sync_cmds u F c) <= i)%nat -> apply_ws F (firstn i (sync_cmds u F c)) = c.
Proof.
  intros FF Fc Hi. destruct (prefix_pw F c i FF Fc) as (b & _ & Hp & Hk & _). rewrite (Hk Hi) in Hp.
  destruct (Hp F (proj1 FF)) as [LF PF]. apply (sync_done F c _ FF Fc LF PF).
Qed.

Lemma In_firstn_l {A} (l : list A) j w : In w (firstn j l) -> In w l.
Proof. intro H. rewrite <- (firstn_skipn j l). apply in_or_app. left. exact H. Qed.
Lemma firstn_firstn_min {A} (l : list A) i j : firstn i (firstn j l) = firstn (Nat.min i j) l.
Proof. apply firstn_firstn. Qed.

(* a synchronize towards a cache with length byte 0, with or without a fault *)
Lemma sync_exec T F c kf f T' F' ex r : INV T F c -> nth z c 0 = 0 ->
  exec_sync n (sync_cmds u F c) T F kf f = (T', F', ex, r) ->
  T' = apply_ws T ex /\ (forall i, SAFE (apply_ws T (firstn i ex))) /\ INV T' F' c /\ (r <> None -> F' = c) /\ Forall cmd_ok ex /\ (kf = None -> r = Some None).
Proof.
  intros HI Hz H. pose proof HI as (FT & FF & Fc & _).
  destruct (exec_sync_spec n f _ _ _ _ _ _ _ _ (acc_ok F c FF Fc) H) as [E1 E2]. split; [exact E1|].
  assert (Hex : Forall cmd_ok ex).
  { apply Forall_forall. intros w Hw. apply (acc_ok' F c FF Fc).
    destruct E2 as [(_ & _ & -> & _) | (_ & j & _ & _ & [[_ ->]|[_ ->]])]; [exact Hw | |]; apply (In_firstn_l _ _ _ Hw). }
  assert (Hnf : kf = None -> r = Some None).
  { intros ->. destruct (exec_sync_nofault n f _ T F (acc_ok F c FF Fc)) as (x1 & x2 & x3 & E). congruence. }
  cut ((forall i, SAFE (apply_ws T (firstn i ex))) /\ INV T' F' c /\ (r <> None -> F' = c)); [tauto|].
  assert (Hsafe : forall j i, SAFE (apply_ws T (firstn i (firstn j (sync_cmds u F c))))).
  { intros j i. rewrite firstn_firstn_min. apply (INV_safe _ (apply_ws F (firstn (Nat.min i j) (sync_cmds u F c))) c), prefix_INV; assumption. }
  destruct E2 as [(k' & -> & Eex & EF) | (-> & j & Hj & EF & Ecase)].
  - subst ex T' F'. pose proof (firstn_all (sync_cmds u F c)) as EW.
    split; [intro i; specialize (Hsafe (length (sync_cmds u F c)) i); rewrite EW in Hsafe; exact Hsafe|].
    split; [pose proof (prefix_INV T F c (length (sync_cmds u F c)) HI Hz) as P; rewrite EW in P; exact P|].
    intros _. pose proof (prefix_done F c (length (sync_cmds u F c)) FF Fc (le_n _)) as P. rewrite EW in P. exact P.
  - subst F'. destruct Ecase as [[-> ->]|[-> ->]]; subst T'.
    + split; [apply Hsafe|]. split; [apply prefix_INV; assumption | congruence].
    + split; [apply Hsafe|]. split; [apply prefix_INV_ahead; assumption | congruence].
Qed.

(* the commit synchronize *)
Lemma commit_pw T cm i j : INV T cm cm -> nth z cm 0 = 0 -> (forall x, (x / u)%nat <> uz -> nth x cm 0 = nth x cF 0) ->
  (i = j \/ (i = S j /\ (j < length (sync_cmds u cm cF))%nat)) ->
  INV (apply_ws T (firstn i (sync_cmds u cm cF))) (apply_ws cm (firstn j (sync_cmds u cm cF))) cF /\
  ((length (sync_cmds u cm cF) <= j)%nat ->
     apply_ws T (firstn i (sync_cmds u cm cF)) = cF /\ apply_ws cm (firstn j (sync_cmds u cm cF)) = cF).
Proof.
  intros HI Hz Hout Hij. pose proof HI as (FT & FF & _). pose proof FR_cF as Fc.
  destruct (prefix_pw cm cF j FF Fc) as (b & _ & Hp & Hk & Ha). destruct (Hp cm (proj1 FF)) as [LF PF].
  destruct Hij as [->|[-> Hj]].
  - destruct (Hp T (proj1 FT)) as [LT PT].
    destruct (commit_core T cm _ _ b b HI Hz Hout LT LF PT PF (or_introl eq_refl)) as [A B]. split; [exact A|].
    intro Hl. apply B, Hk, Hl.
  - destruct (Ha Hj) as [Hd Hp']. destruct (Hp' T (proj1 FT)) as [LT PT].
    destruct (commit_core T cm _ _ (S b) b HI Hz Hout LT LF PT PF (or_intror (conj eq_refl Hd))) as [A B]. split; [exact A|].
    intro Hl. lia.
Qed.
Lemma commit_exec T cm kf f T' F' ex r : INV T cm cm -> nth z cm 0 = 0 -> (forall x, (x / u)%nat <> uz -> nth x cm 0 = nth x cF 0) ->
  exec_sync n (sync_cmds u cm cF) T cm kf f = (T', F', ex, r) ->
  T' = apply_ws T ex /\ (forall i, SAFE (apply_ws T (firstn i ex))) /\ INV T' F' cF /\ (r <> None -> T' = cF /\ F' = cF) /\ Forall cmd_ok ex /\ (kf = None -> r = Some None).
Proof.
  intros HI Hz Hout H. pose proof HI as (FT & FF & _).
  destruct (exec_sync_spec n f _ _ _ _ _ _ _ _ (acc_ok cm cF FF FR_cF) H) as [E1 E2]. split; [exact E1|].
  assert (Hex : Forall cmd_ok ex).
  { apply Forall_forall. intros w Hw. apply (acc_ok' cm cF FF FR_cF).
    destruct E2 as [(_ & _ & -> & _) | (_ & j & _ & _ & [[_ ->]|[_ ->]])]; [exact Hw | |]; apply (In_firstn_l _ _ _ Hw). }
  assert (Hnf : kf = None -> r = Some None).
  { intros ->. destruct (exec_sync_nofault n f _ T cm (acc_ok cm cF FF FR_cF)) as (x1 & x2 & x3 & E). congruence. }
  cut ((forall i, SAFE (apply_ws T (firstn i ex))) /\ INV T' F' cF /\ (r <> None -> T' = cF /\ F' = cF)); [tauto|].
  assert (Hsafe : forall j i, SAFE (apply_ws T (firstn i (firstn j (sync_cmds u cm cF))))).
  { intros j i. rewrite firstn_firstn_min. apply (INV_safe _ (apply_ws cm (firstn (Nat.min i j) (sync_cmds u cm cF))) cF).
    apply (commit_pw T cm _ _ HI Hz Hout). left; reflexivity. }
  destruct E2 as [(k' & -> & Eex & EF) | (-> & j & Hj & EF & Ecase)].
  - subst ex T' F'. pose proof (firstn_all (sync_cmds u cm cF)) as EW.
    split; [intro i; specialize (Hsafe (length (sync_cmds u cm cF)) i); rewrite EW in Hsafe; exact Hsafe|].
    destruct (commit_pw T cm (length (sync_cmds u cm cF)) (length (sync_cmds u cm cF)) HI Hz Hout (or_introl eq_refl)) as [A B].
    rewrite EW in A, B. split; [exact A|]. intros _. apply B. lia.
  - subst F'. destruct Ecase as [[-> ->]|[-> ->]]; subst T'.
    + split; [apply Hsafe|]. split; [apply (commit_pw T cm j j HI Hz Hout); left; reflexivity | congruence].
    + split; [apply Hsafe|]. split; [apply (commit_pw T cm (S j) j HI Hz Hout); right; auto | congruence].
Qed.

(* ---- one attempt: length byte := 0, the phases that move the cache towards cF, the commit ---- *)
Inductive chain_mid : list Z -> list (list Z) -> Prop :=
| chain_mid_nil c : chain_mid c []
| chain_mid_cons c c' r : midP c c' -> chain_mid c' r -> chain_mid c (c' :: r).

Variables (ph0 phL : phase) (mids : list phase).
Hypothesis H0 : forall c, lenok c -> exists c', ph0 c = Ok c' /\ zeroP c c'.
Hypothesis Hmids : forall c1, FR c1 -> nth z c1 0 = 0 -> exists cs, steps c1 mids cs /\ chain_mid c1 cs /\
  phL (last_cache c1 cs) = Ok cF /\ (forall x, (x / u)%nat <> uz -> nth x (last_cache c1 cs) 0 = nth x cF 0).
Set Default Proof Using "upos Hem HcF Hlow HzS HaccS FRem H0 Hmids".

Definition att_ok (T : list Z) (kf : option nat) (res : res unit * (list Z * list Z * list Z) * list write) : Prop :=
  let '(r, (T', F', c'), ex) := res in
  T' = apply_ws T ex /\ (forall i, SAFE (apply_ws T (firstn i ex))) /\ INV T' F' c' /\ (r = Ok tt -> T' = cF) /\ Forall cmd_ok ex /\ (kf = None -> r = Ok tt) /\ F' = T' /\ c' = T'.

Lemma safe_app T ex1 ex2 : (forall i, SAFE (apply_ws T (firstn i ex1))) ->
  (forall i, SAFE (apply_ws (apply_ws T ex1) (firstn i ex2))) -> forall i, SAFE (apply_ws T (firstn i (ex1 ++ ex2))).
Proof.
  intros H1 H2 i. rewrite firstn_app, apply_ws_app. destruct (Nat.le_gt_cases i (length ex1)) as [Hi|Hi].
  - replace (i - length ex1)%nat with O by lia. cbn [firstn apply_ws fold_left]. apply H1.
  - rewrite (firstn_all2 ex1) by lia. apply H2.
Qed.

Lemma mids_loop f : forall ms cs c, steps c ms cs -> chain_mid c cs -> forall T kf,
  INV T c c -> nth z c 0 = 0 -> phL (last_cache c cs) = Ok cF ->
  (forall x, (x / u)%nat <> uz -> nth x (last_cache c cs) 0 = nth x cF 0) ->
  att_ok T kf (run_attempt u n (fun x => x) T c c (ms ++ [phL]) kf f).
Proof.
  intros ms cs c Hst. induction Hst as [c | c ph phs c1 cs Hp Hs IH]; intros Hch T kf HI Hz HL Hout.
  - cbn [last_cache] in HL, Hout. cbn [app run_attempt]. rewrite HL.
    destruct (exec_sync n (sync_cmds u c cF) T c kf f) as [[[T1 F1] ex1] r1] eqn:E.
    destruct (commit_exec T c kf f T1 F1 ex1 r1 HI Hz Hout E) as (A1 & A2 & A3 & A4 & A5 & A6).
    destruct r1 as [k'|].
    + cbn [run_attempt]. unfold att_ok. rewrite app_nil_r. destruct (A4 ltac:(congruence)) as [B1 B2]. subst F1.
      split; [exact A1|]. split; [exact A2|]. split; [exact A3|]. split; [intros _; exact B1|]. split; [exact A5|]. split; [reflexivity|]. split; congruence.
    + unfold att_ok. split; [exact A1|]. split; [exact A2|]. split; [apply SAFE_INV; rewrite A1; specialize (A2 (length ex1)); rewrite firstn_all in A2; exact A2|]. split; [discriminate|]. split; [exact A5|]. split; [intro Hk; specialize (A6 Hk); discriminate | split; reflexivity].
  - inversion Hch as [|? ? ? Hm Hch']; subst. cbn [last_cache] in HL, Hout. cbn [app run_attempt]. rewrite Hp.
    pose proof (phase_step T c c1 HI Hm) as HI1. assert (Hz1 : nth z c1 0 = 0) by (destruct Hm as (_ & E & _); congruence).
    destruct (exec_sync n (sync_cmds u c c1) T c kf f) as [[[T1 F1] ex1] r1] eqn:E.
    destruct (sync_exec T c c1 kf f T1 F1 ex1 r1 HI1 Hz1 E) as (A1 & A2 & A3 & A4 & A5 & A6).
    destruct r1 as [k'|].
    + rewrite (A4 ltac:(congruence)) in *. specialize (IH Hch' T1 k' A3 Hz1 HL Hout).
      destruct (run_attempt u n (fun x => x) T1 c1 c1 (phs ++ [phL]) k' f) as [[r2 [[T2 F2] c2]] ex2]. unfold att_ok in *.
      destruct IH as (B1 & B2 & B3 & B4 & B5 & B6 & B7). split; [rewrite apply_ws_app, <- A1; exact B1|].
      split; [apply safe_app; [exact A2 | rewrite <- A1; exact B2]|]. split; [exact B3|]. split; [exact B4|]. split; [apply Forall_app; auto|].
      split; [|exact B7]. intro Hk. apply B6. specialize (A6 Hk). congruence.
    + unfold att_ok. split; [exact A1|]. split; [exact A2|]. split; [apply SAFE_INV; rewrite A1; specialize (A2 (length ex1)); rewrite firstn_all in A2; exact A2|]. split; [discriminate|]. split; [exact A5|]. split; [intro Hk; specialize (A6 Hk); discriminate | split; reflexivity].
Qed.

(* reader_ok is preserved by any attempt, every tag memory on the way is safe, a completed attempt leaves cF *)
Theorem attempt_ok T F c kf f : INV T F c -> att_ok T kf (run_attempt u n (fun x => x) T F c (ph0 :: mids ++ [phL]) kf f).
Proof.
  intro HI. pose proof HI as (_ & _ & Fc & _). destruct (H0 c (proj1 Fc)) as (c1 & P0 & Z0).
  destruct (start_step T F c c1 HI Z0) as [HI1 Hz1]. pose proof HI1 as (_ & _ & Fc1 & _).
  destruct (Hmids c1 Fc1 Hz1) as (cs & Hst & Hch & HL & Hout).
  cbn [run_attempt]. rewrite P0.
  destruct (exec_sync n (sync_cmds u F c1) T F kf f) as [[[T1 F1] ex1] r1] eqn:E.
  destruct (sync_exec T F c1 kf f T1 F1 ex1 r1 HI1 Hz1 E) as (A1 & A2 & A3 & A4 & A5 & A6).
  destruct r1 as [k'|].
  - rewrite (A4 ltac:(congruence)) in *. pose proof (mids_loop f mids cs c1 Hst Hch T1 k' A3 Hz1 HL Hout) as IH.
    destruct (run_attempt u n (fun x => x) T1 c1 c1 (mids ++ [phL]) k' f) as [[r2 [[T2 F2] c2]] ex2]. unfold att_ok in *.
    destruct IH as (B1 & B2 & B3 & B4 & B5 & B6 & B7). split; [rewrite apply_ws_app, <- A1; exact B1|].
    split; [apply safe_app; [exact A2 | rewrite <- A1; exact B2]|]. split; [exact B3|]. split; [exact B4|]. split; [apply Forall_app; auto|].
    split; [|exact B7]. intro Hk. apply B6. specialize (A6 Hk). congruence.
  - unfold att_ok. split; [exact A1|]. split; [exact A2|]. split; [apply SAFE_INV; rewrite A1; specialize (A2 (length ex1)); rewrite firstn_all in A2; exact A2|]. split; [discriminate|]. split; [exact A5|]. split; [intro Hk; specialize (A6 Hk); discriminate | split; reflexivity].
Qed.
End Retry.
Set Default Proof Using "Type".
