(* C09 - single consumer: a socket accepted by a server's accept loop (SnepServer._listen,
   HandoverServer.listen) is referenced by that loop until it starts the serve thread, and then by
   that one serve thread only (the socket object lives in their local variables).  The model
   records this with the ghost flag [srv]: application threads cannot issue calls on such a socket.
   Invariant [Own]: at most one thread refers to a served socket.  Consequence: the recv() that a
   serve loop issues after poll('recv') answered True finds the data PDU still at the head of the
   queue (only the owner removes PDUs) or finds the socket closed; it returns data or raises
   nfc.llcp.Error, it never waits and never returns None - so `bytearray(client_socket.recv())` /
   `request += socket.recv()` cannot meet None at (or after) the end of the link. *)
From Coq Require Import ZArith List Bool Arith Lia.
From NV Require Import Base.Result Model.LlcLife Proofs.LlcLifeSeg Proofs.LlcLife.
Import ListNotations.

(* the objects a thread refers to *)
Definition tref (th : thread) : list nat :=
  (match ts th with
   | At o _ | Blocked o _ _ _ => [o]
   | Done (Ok (VSock o)) => [o]
   | _ => []
   end) ++
  (match mode th with MServe c _ | MClosing c _ => [c] | _ => [] end).

Definition shape (c : nat) (ph : nat) (x : tstate) : Prop :=
  match ph with
  | 0 => x = At c (PPoll0 PollRecv) \/ x = At c (PPoll1 PollRecv)
         \/ (exists b, x = Blocked c RecvReady (PPoll2 PollRecv) b) \/ exists r, x = Done r
  | 1 => x = At c PRecv0 \/ x = At c PRecv1 \/ exists r, x = Done r /\ (r = Ok VData \/ is_llcp r = true)
  | _ => (exists p, x = At c p) \/ (exists cd p b, x = Blocked c cd p b) \/ exists r, x = Done r
  end.

Definition mode_ok (g : gstate) (th : thread) : Prop :=
  match mode th with
  | MServe c ph =>
      srv (sk g c) = true /\ shape c ph (ts th)
      /\ (ph = 0 -> ts th = Done (Ok (VBool true)) -> ready (sk g c))
      /\ (ph = 1 -> (ts th = At c PRecv0 \/ ts th = At c PRecv1) -> ready (sk g c))
  | MListen ls => ls < nsk g /\ srv (sk g ls) = false /\ (forall c, ts th = Done (Ok (VSock c)) -> srv (sk g c) = true)
  | _ => True
  end.

Definition Own (g : gstate) : Prop :=
  (forall o, nsk g <= o -> srv (sk g o) = false)
  /\ (forall o, srv (sk g o) = true -> kd (sk g o) = DLC)
  /\ (forall t o, In o (tref (thr g t)) -> o < nsk g)
  /\ (forall t1 t2 o, srv (sk g o) = true -> In o (tref (thr g t1)) -> In o (tref (thr g t2)) -> t1 = t2)
  /\ (forall t, mode_ok g (thr g t)).

(* ---- how the link steps act on one socket ----------------------------------------------------------- *)
Lemma ready_app s x : ready s -> ready (set_rq s (rq s ++ [x])).
Proof. intros [H|(He & r & Hr)]; [left; exact H|right]. unfold est_or_cw in *. cbn. split; [exact He|].
  rewrite Hr. cbn. eexists. reflexivity. Qed.

Lemma promoted_tref th th' : promoted th th' -> tref th' = tref th /\ mode th' = mode th.
Proof. intros [->|(o & c & p & E & ->)]; [auto|]. unfold tref. cbn. rewrite E. auto. Qed.

Lemma promoted_shape c ph th th' : promoted th th' -> shape c ph (ts th) -> shape c ph (ts th').
Proof. intros [->|(o & cd & p & E & ->)] H; [exact H|]. cbn. rewrite E in H.
  destruct ph as [|[|ph]]; cbn in *.
  - destruct H as [H|[H|[(b & H)|(r & H)]]]; try discriminate. inversion H; subst. right; right; left. eexists; reflexivity.
  - destruct H as [H|[H|(r & H & _)]]; discriminate.
  - destruct H as [(q & H)|[(cd' & q & b & H)|(r & H)]]; try discriminate. inversion H; subst.
    right; left. do 3 eexists. reflexivity. Qed.

(* a step that leaves srv / kd / nsk alone, keeps `ready` on every socket and only promotes threads *)
Lemma own_frame g g' :
  Own g -> nsk g' = nsk g ->
  (forall o, srv (sk g' o) = srv (sk g o) /\ kd (sk g' o) = kd (sk g o) /\ (ready (sk g o) -> ready (sk g' o))) ->
  (forall t, promoted (thr g t) (thr g' t)) ->
  Own g'.
Proof.
  intros (W1 & W2 & W5 & W3 & W4) En Hs Ht.
  split; [|split; [|split; [|split]]].
  - intros o Ho. destruct (Hs o) as (E & _). rewrite E. apply W1. lia.
  - intros o Ho. destruct (Hs o) as (E & K & _). rewrite K. apply W2. congruence.
  - intros t o Hin. destruct (promoted_tref _ _ (Ht t)) as (E & _). rewrite E in Hin. rewrite En. eauto.
  - intros t1 t2 o Ho H1 H2. destruct (Hs o) as (E & _).
    destruct (promoted_tref _ _ (Ht t1)) as (E1 & _). destruct (promoted_tref _ _ (Ht t2)) as (E2 & _).
    rewrite E1 in H1. rewrite E2 in H2. eapply W3; eauto; congruence.
  - intro t. pose proof (W4 t) as M. unfold mode_ok in *.
    destruct (promoted_tref _ _ (Ht t)) as (_ & Em). rewrite Em.
    destruct (mode (thr g t)) as [|ls|c ph|o how|how]; auto.
    + destruct M as (A0 & A & B). destruct (Hs ls) as (E & _). split; [lia|]. split; [congruence|].
      intros c Hc. destruct (Ht t) as [Eq|(o & cd & p & E1 & Eq)]; rewrite Eq in Hc.
      * destruct (Hs c) as (Ec & _). rewrite Ec. auto.
      * cbn in Hc. discriminate.
    + destruct M as (A & B & C & D). destruct (Hs c) as (E & _ & R).
      split; [congruence|]. split; [eapply promoted_shape; eauto|]. split.
      * intros Hp Hd. apply R. apply C; auto. destruct (Ht t) as [Eq|(o & cd & p & E1 & Eq)]; rewrite Eq in Hd; [exact Hd|cbn in Hd; discriminate].
      * intros Hp Hd. apply R. apply D; auto. destruct (Ht t) as [Eq|(o & cd & p & E1 & Eq)]; rewrite Eq in Hd; [exact Hd|cbn in Hd; destruct Hd; discriminate].
Qed.

(* threads change, sockets do not; no thread gains a reference to a served socket *)
Lemma own_shrink g thr' :
  Own g ->
  (forall t o, srv (sk g o) = true -> In o (tref (thr' t)) -> In o (tref (thr g t))) ->
  (forall t o, In o (tref (thr' t)) -> o < nsk g) ->
  (forall t, mode_ok g (thr' t)) ->
  Own (with_thr g thr').
Proof.
  intros (W1 & W2 & W5 & W3 & W4) Hsh Hlt Hm. unfold with_thr.
  split; [exact W1|]. split; [exact W2|]. split; [exact Hlt|]. split; [|exact Hm].
  cbn. intros t1 t2 o Ho H1 H2. eapply W3; eauto.
Qed.

Lemma mode_ok_promoted g th th' : promoted th th' -> mode_ok g th -> mode_ok g th'.
Proof.
  intros Hp M. unfold mode_ok in *. destruct (promoted_tref _ _ Hp) as (_ & Em). rewrite Em.
  destruct (mode th) as [|ls|c ph|o how|how]; auto.
  - destruct M as (A0 & A & B). split; [exact A0|]. split; [exact A|]. intros c Hc.
    destruct Hp as [Eq|(o & cd & p & E1 & Eq)]; rewrite Eq in Hc; [auto|cbn in Hc; discriminate].
  - destruct M as (A & B & C & D). split; [exact A|]. split; [eapply promoted_shape; eauto|]. split.
    + intros Hph Hd. apply C; auto. destruct Hp as [Eq|(o & cd & p & E1 & Eq)]; rewrite Eq in Hd; [exact Hd|cbn in Hd; discriminate].
    + intros Hph Hd. apply D; auto. destruct Hp as [Eq|(o & cd & p & E1 & Eq)]; rewrite Eq in Hd; [exact Hd|cbn in Hd; destruct Hd; discriminate].
Qed.

Lemma in_single {A} (x y : A) : In x [y] -> x = y.
Proof. intros [H|[]]. auto. Qed.

(* goto_call: the thread keeps referring to the object its mode names *)
Lemma own_goto_call g t o p md r :
  Own g -> ts (thr g t) = Done r ->
  (match md with MServe c _ | MClosing c _ => c = o | _ => False end) ->
  (srv (sk g o) = true -> In o (tref (thr g t))) ->
  (ref_ok g o p = true -> mode_ok g (mkThread (At o p) md)) ->
  Own (goto_call g t o p md r).
Proof.
  intros HO Ets Hmd Href Hok. pose proof HO as (W1 & W2 & W5 & W3 & W4).
  unfold goto_call. destruct (ref_ok g o p) eqn:Er.
  - apply own_shrink; auto.
    + intros t' o' Ho' Hin. destruct (Nat.eq_dec t' t) as [->|N]; [rewrite upd_same in Hin|rewrite upd_other in Hin by assumption; exact Hin].
      unfold tref in Hin. cbn in Hin.
      assert (o' = o). { destruct md; cbn in Hin; try contradiction; subst; destruct Hin as [H|[H|[]]]; auto. }
      subst o'. auto.
    + intros t' o' Hin. destruct (Nat.eq_dec t' t) as [->|N]; [rewrite upd_same in Hin|rewrite upd_other in Hin by assumption; eauto].
      unfold ref_ok in Er. apply andb_true_iff in Er. destruct Er as (Er & _). apply Nat.ltb_lt in Er.
      unfold tref in Hin. cbn in Hin. destruct md; cbn in Hin; try contradiction; subst; destruct Hin as [H|[H|[]]]; subst; auto.
    + intro t'. destruct (Nat.eq_dec t' t) as [->|N]; [rewrite upd_same; auto|rewrite upd_other by assumption; apply W4].
  - apply own_shrink; auto.
    + intros t' o' Ho' Hin. destruct (Nat.eq_dec t' t) as [->|N]; [rewrite upd_same in Hin|rewrite upd_other in Hin by assumption; exact Hin].
      unfold tref in *. cbn in Hin. rewrite Ets. try rewrite app_nil_r in Hin. apply in_or_app. left. exact Hin.
    + intros t' o' Hin. destruct (Nat.eq_dec t' t) as [->|N]; [rewrite upd_same in Hin|rewrite upd_other in Hin by assumption; eauto].
      apply (W5 t). unfold tref in *. cbn in Hin. rewrite Ets. try rewrite app_nil_r in Hin. apply in_or_app. left. exact Hin.
    + intro t'. destruct (Nat.eq_dec t' t) as [->|N]; [rewrite upd_same; exact I|rewrite upd_other by assumption; apply W4].
Qed.

(* ---- TNext ------------------------------------------------------------------------------------------ *)
Lemma own_next g t w r : Own g -> ts (thr g t) = Done r -> Own (next_of g t w (mode (thr g t)) r).
Proof.
  intros HO Ets. pose proof HO as (W1 & W2 & W5 & W3 & W4).
  pose proof (W4 t) as M. unfold mode_ok in M. unfold next_of.
  destruct (mode (thr g t)) as [|ls|c ph|o how|how] eqn:Em.
  - (* MApp *)
    apply own_shrink; auto.
    + intros t' o' Ho' Hin. destruct (Nat.eq_dec t' t) as [->|N]; [rewrite upd_same in Hin; destruct Hin|rewrite upd_other in Hin by assumption; exact Hin].
    + intros t' o' Hin. destruct (Nat.eq_dec t' t) as [->|N]; [rewrite upd_same in Hin; destruct Hin|rewrite upd_other in Hin by assumption; eauto].
    + intro t'. destruct (Nat.eq_dec t' t) as [->|N]; [rewrite upd_same; exact I|rewrite upd_other by assumption; apply W4].
  - (* MListen *)
    destruct M as (Mlt & Mls & Mv).
    assert (Hclose : forall how, Own (goto_call g t ls PClose0 (MClosing ls how) r)).
    { intro how. apply own_goto_call; [exact HO|exact Ets|reflexivity|intro X; congruence|intros _; exact I]. }
    destruct r as [[| | |c|]|[]|c|]; try apply Hclose.
    destruct (is_free g w t) eqn:Ef; [|exact HO].
    unfold is_free in Ef. apply andb_true_iff in Ef. destruct Ef as (Ewt & Efree).
    assert (Nwt : w <> t) by (intro X; subst; rewrite Nat.eqb_refl in Ewt; discriminate).
    assert (Ew : ts (thr g w) = Idle /\ mode (thr g w) = MApp).
    { destruct (ts (thr g w)); try discriminate. destruct (mode (thr g w)); try discriminate. auto. }
    destruct Ew as (Ew1 & Ew2).
    assert (Hc : In c (tref (thr g t))) by (unfold tref; rewrite Ets; left; reflexivity).
    assert (Hsc : srv (sk g c) = true) by (apply Mv; exact Ets).
    destruct (ref_ok g c (PPoll0 PollRecv) && ref_ok g ls PAcc1) eqn:Er.
    + (* the serve thread is started: the reference to c moves from t to w *)
      unfold with_thr. split; [exact W1|]. split; [exact W2|]. cbn.
      assert (Tr : forall t', tref (upd (upd (thr g) t (mkThread (At ls PAcc1) (MListen ls))) w
                                  (mkThread (At c (PPoll0 PollRecv)) (MServe c 0)) t') =
                         if Nat.eqb t' w then [c; c] else if Nat.eqb t' t then [ls] else tref (thr g t')).
      { intro t'. unfold upd. destruct (Nat.eqb t' w); [reflexivity|]. destruct (Nat.eqb t' t); reflexivity. }
      split; [|split].
      * intros t' o' Hin. rewrite Tr in Hin. destruct (Nat.eqb t' w); [|destruct (Nat.eqb t' t)].
        -- destruct Hin as [<-|[<-|[]]]; eauto.
        -- apply in_single in Hin. subst. exact Mlt.
        -- eauto.
      * intros t1 t2 o' Ho' H1 H2. rewrite Tr in H1, H2.
        destruct (Nat.eqb_spec t1 w) as [->|N1]; destruct (Nat.eqb_spec t2 w) as [->|N2]; auto.
        -- assert (o' = c) by (destruct H1 as [<-|[<-|[]]]; reflexivity). subst o'.
           destruct (Nat.eqb_spec t2 t) as [E3|N3]; [apply in_single in H2; congruence|].
           exfalso. apply N3. eapply W3; eauto.
        -- assert (o' = c) by (destruct H2 as [<-|[<-|[]]]; reflexivity). subst o'.
           destruct (Nat.eqb_spec t1 t) as [E3|N3]; [apply in_single in H1; congruence|].
           exfalso. apply N3. eapply W3; eauto.
        -- destruct (Nat.eqb_spec t1 t) as [E3|N3]; [apply in_single in H1; congruence|].
           destruct (Nat.eqb_spec t2 t) as [E4|N4]; [apply in_single in H2; congruence|].
           eapply W3; eauto.
      * intro t'. unfold upd. destruct (Nat.eqb_spec t' w) as [->|N1]; [|destruct (Nat.eqb_spec t' t) as [->|N2]].
        -- unfold mode_ok. cbn. split; [exact Hsc|]. split; [left; reflexivity|]. split; intros; [discriminate|discriminate].
        -- unfold mode_ok. cbn. split; [exact Mlt|]. split; [exact Mls|]. intros; discriminate.
        -- apply W4.
    + (* the client cannot be served: the accept loop dies *)
      apply own_shrink; auto.
      * intros t' o' Ho' Hin. destruct (Nat.eq_dec t' t) as [->|N]; [rewrite upd_same in Hin|rewrite upd_other in Hin by assumption; exact Hin].
        unfold tref in *. cbn in Hin. rewrite Ets. try rewrite app_nil_r in Hin. apply in_or_app. left. exact Hin.
      * intros t' o' Hin. destruct (Nat.eq_dec t' t) as [->|N]; [rewrite upd_same in Hin|rewrite upd_other in Hin by assumption; eauto].
        apply (W5 t). unfold tref in *. cbn in Hin. rewrite Ets. try rewrite app_nil_r in Hin. apply in_or_app. left. exact Hin.
      * intro t'. destruct (Nat.eq_dec t' t) as [->|N]; [rewrite upd_same; exact I|rewrite upd_other by assumption; apply W4].
  - (* MServe *)
    destruct M as (Ms & Msh & M0 & M1).
    assert (Hc : In c (tref (thr g t))) by (unfold tref; rewrite Em; apply in_or_app; right; left; reflexivity).
    assert (Hgo : forall p md, (match md with MServe c' _ | MClosing c' _ => c' = c | _ => False end) ->
                    (ref_ok g c p = true -> mode_ok g (mkThread (At c p) md)) -> Own (goto_call g t c p md r)).
    { intros p md Hmd Hok. apply own_goto_call; [exact HO|exact Ets|destruct md; try contradiction; auto|intros _; exact Hc|exact Hok]. }
    destruct r as [[|[|]| |c'|]|[]|c'|]; try destruct ph as [|[|ph]];
      apply Hgo; try reflexivity; intros _; unfold mode_ok; cbn; try exact I;
      try (split; [exact Ms|]; split; [cbn; auto; try (left; eexists; reflexivity)|]; split; intros; try discriminate).
    all: try (apply M0; auto).
    all: try (destruct H0; discriminate).
  - (* MClosing *)
    apply own_shrink; auto.
    + intros t' o' Ho' Hin. destruct (Nat.eq_dec t' t) as [->|N]; [rewrite upd_same in Hin|rewrite upd_other in Hin by assumption; exact Hin].
      unfold tref in *. cbn in Hin. rewrite Ets. try rewrite app_nil_r in Hin. apply in_or_app. left. exact Hin.
    + intros t' o' Hin. destruct (Nat.eq_dec t' t) as [->|N]; [rewrite upd_same in Hin|rewrite upd_other in Hin by assumption; eauto].
      apply (W5 t). unfold tref in *. cbn in Hin. rewrite Ets. try rewrite app_nil_r in Hin. apply in_or_app. left. exact Hin.
    + intro t'. destruct (Nat.eq_dec t' t) as [->|N]; [rewrite upd_same; exact I|rewrite upd_other by assumption; apply W4].
  - exact HO.
Qed.

(* ---- link steps: one socket changes, threads are promoted ------------------------------------------ *)
Lemma own_on_sock g o s' thr' :
  Own g -> srv s' = srv (sk g o) -> kd s' = kd (sk g o) -> (ready (sk g o) -> ready s') ->
  (forall t, promoted (thr g t) (thr' t)) -> Own (on_sock g o s' thr').
Proof.
  intros HO Es Ek Hr Hp. apply (own_frame g); auto. intro o'. unfold on_sock. cbn. unfold upd.
  destruct (Nat.eqb_spec o' o) as [->|N]; auto.
Qed.

Lemma ready_shut s : st s = SHUTDOWN -> ready s.
Proof. left; assumption. Qed.

Lemma promoted_refl' th : promoted th th. Proof. left; reflexivity. Qed.

Lemma own_link g l : Own g ->
  match l with TIssue _ _ | TRun _ _ | TNext _ _ => True | _ => Own (step g l) end.
Proof.
  intro HO. destruct l as [t op|t orc|t w|o x w|o d w|o n w|o| |t| |o| | |]; auto; cbn [step].
  - (* LEnq *)
    destruct (is_run (lpc g) && intab (sk g o) && Nat.ltb o (nsk g)); [|exact HO].
    destruct (kd (sk g o)) eqn:Ek; try exact HO;
      try (destruct (Nat.ltb (length (rq (sk g o))) (rbuf (sk g o))); [|exact HO];
           apply own_on_sock; auto; [apply ready_app|apply wake_one_promoted]).
    destruct (st (sk g o)) eqn:Est; destruct x; try exact HO;
      try (destruct (Nat.ltb (length (rq (sk g o))) (rbuf (sk g o))));
      try exact HO; apply own_on_sock; auto;
      try (apply ready_app); try (intros; apply wake_one_promoted); try (intros; apply wake_all_promoted);
      try (intros; apply promoted_refl');
      try (intros _; apply ready_shut; reflexivity);
      try (intros [X|(X & r & Y)]; [left; cbn; congruence|right; split; [unfold est_or_cw in *; cbn in *; try rewrite Est in *; auto|cbn; eauto]]).
  - (* LDeq *)
    destruct (is_run (lpc g) && intab (sk g o) && Nat.ltb o (nsk g) && Nat.ltb 0 (sq (sk g o))); [|exact HO].
    destruct (kd (sk g o)) eqn:Ek; destruct d; try (destruct (is_est (sk g o))); try (destruct (sstate_eqb (st (sk g o)) CLOSE_WAIT));
      apply own_on_sock; auto;
      try (intros; apply wake_one_promoted); try (intros; apply wake_all_promoted); try (intros; apply promoted_refl');
      try (intros _; apply ready_shut; reflexivity);
      try (intro t'; eapply promoted_trans; [apply wake_one_promoted|apply wake_all_promoted]);
      try (intro R; apply (ready_app (set_sq (sk g o) (pred (sq (sk g o)))) IDISC); exact R).
  - (* LAck *)
    destruct (is_run (lpc g) && intab (sk g o) && Nat.ltb o (nsk g) && is_est (sk g o) && Nat.ltb 0 n); [|exact HO].
    destruct (kd (sk g o)) eqn:Ek; try exact HO. apply own_on_sock; auto.
    intro t'. eapply promoted_trans; [apply wake_all_promoted|apply wake_one_promoted].
  - (* LFrmr *)
    destruct (is_run (lpc g) && intab (sk g o) && Nat.ltb o (nsk g) && is_est (sk g o)); [|exact HO].
    destruct (kd (sk g o)) eqn:Ek; try exact HO. apply own_on_sock; auto.
    + intros _. apply ready_shut. reflexivity.
    + intro; apply wake_all_promoted.
  - (* LSdRes *)
    destruct (is_run (lpc g) && negb (is_shut (sk g 0))); [|exact HO].
    apply (own_frame g); auto. intro; apply wake_all_promoted.
  - (* LTimeout *)
    destruct (ts (thr g t)) as [|o p|o c p [|]|r] eqn:Ets; try exact HO.
    apply (own_frame g); auto. intro t'. cbn. unfold upd. destruct (Nat.eqb_spec t' t) as [->|N]; [|left; reflexivity].
    right. exists o, c, p. auto.
  - (* LTermBegin *)
    destruct (is_run (lpc g)); [|exact HO]. apply (own_frame g); auto. intro; left; reflexivity.
  - (* LTermPop *)
    destruct (lpc g); try exact HO. destruct (intab (sk g o) && Nat.ltb 0 o && Nat.ltb o (nsk g)); [|exact HO].
    apply (own_frame g); auto; [|intro; left; reflexivity].
    intro o'. cbn. unfold upd. destruct (Nat.eqb_spec o' o) as [->|N]; auto.
  - (* LTermClose *)
    destruct (lpc g) as [| |o|]; try exact HO.
    apply (own_frame g); auto; [|intro; apply wake_all_promoted].
    intro o'. cbn. unfold upd. destruct (Nat.eqb_spec o' o) as [->|N]; auto.
    split; [reflexivity|]. split; [reflexivity|]. intros _. apply ready_shut. reflexivity.
  - (* LTermSd *)
    destruct (lpc g); try exact HO. destruct (term g); [exact HO|].
    apply (own_frame g); auto; [|intro; apply wake_all_promoted].
    intro o'. cbn. unfold upd. destruct (Nat.eqb_spec o' 0) as [->|N]; auto.
    split; [reflexivity|]. split; [reflexivity|]. intros _. apply ready_shut. reflexivity.
  - (* LTermEnd *)
    destruct (lpc g); try exact HO. destruct (term g && all_out_of_table g); [|exact HO].
    apply (own_frame g); auto. intro; left; reflexivity.
Qed.

(* ---- one thread acts, possibly a new socket appears at index nsk ------------------------------------ *)
Lemma own_general g g' t :
  Own g -> nsk g <= nsk g' -> nsk g' <= S (nsk g) ->
  (forall o, o < nsk g -> srv (sk g' o) = srv (sk g o) /\ kd (sk g' o) = kd (sk g o)) ->
  (forall o, nsk g' <= o -> srv (sk g' o) = false) ->
  (srv (sk g' (nsk g)) = true -> kd (sk g' (nsk g)) = DLC) ->
  (forall t', t' <> t -> promoted (thr g t') (thr g' t')) ->
  (forall t' c, t' <> t -> In c (tref (thr g t')) -> srv (sk g c) = true -> ready (sk g c) -> ready (sk g' c)) ->
  (forall o, In o (tref (thr g' t)) ->
     (o < nsk g /\ (srv (sk g o) = true -> In o (tref (thr g t)))) \/ (o = nsk g /\ nsk g' = S (nsk g))) ->
  mode_ok g' (thr g' t) ->
  Own g'.
Proof.
  intros (W1 & W2 & W5 & W3 & W4) Hn1 Hn2 Hold Hnew Hkd Hp Hr Ht Hm.
  assert (Htr : forall t', t' <> t -> tref (thr g' t') = tref (thr g t')) by (intros; apply promoted_tref; auto).
  split; [exact Hnew|]. split; [|split; [|split]].
  - intros o Ho. destruct (le_lt_dec (nsk g) o) as [Hge|Hlt].
    + destruct (Nat.eq_dec o (nsk g)) as [->|N]; [auto|]. rewrite Hnew in Ho by lia. discriminate.
    + destruct (Hold o Hlt) as (Es & Ek). rewrite Ek. apply W2. congruence.
  - intros t' o Hin. destruct (Nat.eq_dec t' t) as [->|N].
    + destruct (Ht o Hin) as [(H & _)|(-> & H)]; lia.
    + rewrite Htr in Hin by assumption. specialize (W5 _ _ Hin). lia.
  - intros t1 t2 o Ho H1 H2.
    destruct (le_lt_dec (nsk g) o) as [Hge|Hlt].
    + (* the new socket: only t can refer to it *)
      assert (forall t', In o (tref (thr g' t')) -> t' = t).
      { intros t' Hin. destruct (Nat.eq_dec t' t); auto. rewrite Htr in Hin by assumption. specialize (W5 _ _ Hin). lia. }
      rewrite (H _ H1), (H _ H2). reflexivity.
    + destruct (Hold o Hlt) as (Es & _). rewrite Es in Ho.
      assert (forall t', In o (tref (thr g' t')) -> In o (tref (thr g t'))).
      { intros t' Hin. destruct (Nat.eq_dec t' t) as [->|N]; [|rewrite Htr in Hin by assumption; exact Hin].
        destruct (Ht o Hin) as [(_ & H)|(-> & _)]; [auto|lia]. }
      eapply W3; eauto.
  - intro t'. destruct (Nat.eq_dec t' t) as [->|N]; [exact Hm|].
    pose proof (W4 t') as M. unfold mode_ok in *. destruct (promoted_tref _ _ (Hp t' N)) as (Etr & Em). rewrite Em.
    destruct (mode (thr g t')) as [|ls|c ph|o how|how] eqn:Emd; auto.
    + destruct M as (A0 & A & B). split; [lia|]. destruct (Hold ls A0) as (Es & _). split; [congruence|].
      intros c Hc. destruct (Hp t' N) as [Eq|(o & cd & p & E1 & Eq)]; rewrite Eq in Hc; [|cbn in Hc; discriminate].
      assert (Hin : In c (tref (thr g t'))) by (unfold tref; rewrite Hc; left; reflexivity).
      destruct (Hold c (W5 _ _ Hin)) as (Esc & _). rewrite Esc. auto.
    + destruct M as (A & B & C & D).
      assert (Hin : In c (tref (thr g t'))) by (unfold tref; rewrite Emd; apply in_or_app; right; left; reflexivity).
      destruct (Hold c (W5 _ _ Hin)) as (Esc & _).
      split; [congruence|]. split; [eapply promoted_shape; eauto|]. split.
      * intros Hph Hd. apply (Hr t' c N Hin A). apply C; auto.
        destruct (Hp t' N) as [Eq|(o & cd & p & E1 & Eq)]; rewrite Eq in Hd; [exact Hd|cbn in Hd; discriminate].
      * intros Hph Hd. apply (Hr t' c N Hin A). apply D; auto.
        destruct (Hp t' N) as [Eq|(o & cd & p & E1 & Eq)]; rewrite Eq in Hd; [exact Hd|cbn in Hd; destruct Hd; discriminate].
Qed.

(* ---- TIssue ------------------------------------------------------------------------------------------ *)
Lemma own_issue g t op : Own g -> Own (step g (TIssue t op)).
Proof.
  intro HO. pose proof HO as (W1 & W2 & W5 & W3 & W4). cbn [step].
  destruct (ts (thr g t)) eqn:Ets; try exact HO. destruct (mode (thr g t)) eqn:Em; try exact HO.
  assert (Hat : forall o p md, ref_ok g o p = true -> srv (sk g o) = false -> (md = MApp \/ (md = MListen o)) ->
            Own (with_thr g (upd (thr g) t (mkThread (At o p) md)))).
  { intros o p md Er Hs Hmd. unfold ref_ok in Er. apply andb_true_iff in Er. destruct Er as (Er & _). apply Nat.ltb_lt in Er.
    assert (Htr : tref (mkThread (At o p) md) = [o]) by (destruct Hmd as [->| ->]; reflexivity).
    apply own_shrink; auto.
    - intros t' o' Ho' Hin. destruct (Nat.eq_dec t' t) as [->|N]; [rewrite upd_same in Hin|rewrite upd_other in Hin by assumption; exact Hin].
      rewrite Htr in Hin. apply in_single in Hin. congruence.
    - intros t' o' Hin. destruct (Nat.eq_dec t' t) as [->|N]; [rewrite upd_same in Hin|rewrite upd_other in Hin by assumption; eauto].
      rewrite Htr in Hin. apply in_single in Hin. subst. exact Er.
    - intro t'. destruct (Nat.eq_dec t' t) as [->|N]; [rewrite upd_same|rewrite upd_other by assumption; apply W4].
      unfold mode_ok. cbn. destruct Hmd as [->| ->]; [exact I|]. split; [exact Er|]. split; [exact Hs|]. intros; discriminate. }
  destruct op as [o|o e|o dw|o|o|o|o|o| |k|ls]; cbn [entry];
    try (match goal with
         | |- Own (if ref_ok g ?o ?p && negb (srv (sk g ?o)) then _ else _) =>
             destruct (ref_ok g o p) eqn:Er; [|exact HO]; destruct (srv (sk g o)) eqn:Es; [exact HO|]; cbn [negb andb];
             unfold set_ts; rewrite Em; apply Hat; auto
         end).
  - (* ONew *)
    assert (Hnew : forall k, k <> SDP ->
      Own (mkG (var g) (upd (sk g) (nsk g) (fresh k)) (S (nsk g))
               (upd (thr g) t (set_ts (thr g t) (Done (Ok (VSock (nsk g)))))) (term g) (llc_held g) (lpc g))).
    { intros k0 _. apply (own_general g _ t HO); cbn; try lia.
      - intros o Ho. rewrite upd_other by lia. auto.
      - intros o Ho. rewrite upd_other by lia. apply W1. lia.
      - rewrite upd_same. destruct k0; cbn; discriminate.
      - intros t' N. rewrite upd_other by assumption. left; reflexivity.
      - intros t' c N Hin _ R. specialize (W5 _ _ Hin). rewrite upd_other by lia. exact R.
      - rewrite upd_same. intros o Hin. unfold tref in Hin. cbn in Hin. rewrite Em in Hin. cbn in Hin.
        destruct Hin as [<-|[]]. right. auto.
      - rewrite upd_same. unfold mode_ok. cbn. rewrite Em. exact I. }
    destruct k; try exact HO; apply Hnew; discriminate.
  - (* OServer *)
    destruct (ref_ok g ls PAcc1) eqn:Er; [|exact HO]. destruct (srv (sk g ls)) eqn:Es; [exact HO|]. cbn [negb andb].
    apply Hat; auto.
Qed.

(* ---- TRun: a thread executes one segment ---------------------------------------------------------------- *)
Lemma poll0_not_true s tm orc : o_act (seg Fixed (PPoll0 PollRecv) s tm orc) <> ARet (Ok (VBool true)).
Proof. destruct s as [k x b i tb q n rb sb sl ak sv]. unfold seg, out, eret. cbn. destruct (negb (b && i)); cbn; discriminate. Qed.

(* where a serve thread is, given its phase *)
Lemma serve_at c ph o p x :
  shape c ph x -> (x = At o p \/ exists cd, x = Blocked o cd p true) ->
  c = o /\ (ph = 0 -> p = PPoll0 PollRecv \/ p = PPoll1 PollRecv \/ p = PPoll2 PollRecv)
        /\ (ph = 1 -> (p = PRecv0 \/ p = PRecv1) /\ x = At o p).
Proof.
  intros Hs Hx. destruct ph as [|[|ph]]; cbn in Hs.
  - destruct Hs as [E|[E|[(b & E)|(r & E)]]]; destruct Hx as [->|(cd & ->)]; inversion E; subst;
      (split; [reflexivity|split; [auto|intro; discriminate]]).
  - destruct Hs as [E|[E|(r & E & _)]]; destruct Hx as [->|(cd & ->)]; inversion E; subst;
      (split; [reflexivity|split; [intro; discriminate|auto]]).
  - destruct Hs as [(q & E)|[(cd' & q & b & E)|(r & E)]]; destruct Hx as [->|(cd & ->)]; inversion E; subst;
      (split; [reflexivity|split; intro; discriminate]).
Qed.

(* the acting thread t moves to state x on its object o, which becomes s' *)
Lemma own_act g t o s' x thr1 :
  Own g -> In o (tref (thr g t)) ->
  srv s' = srv (sk g o) -> kd s' = kd (sk g o) ->
  (forall t', promoted (thr g t') (thr1 t')) -> mode (thr1 t) = mode (thr g t) ->
  (match x with At o' _ | Blocked o' _ _ _ => o' = o | Done (Ok (VSock _)) => False | _ => True end) ->
  (forall c ph, mode (thr g t) = MServe c ph ->
     c = o /\ shape c ph x /\ (ph = 0 -> x = Done (Ok (VBool true)) -> ready s')
     /\ (ph = 1 -> (x = At c PRecv0 \/ x = At c PRecv1) -> ready s')) ->
  Own (mkG (var g) (upd (sk g) o s') (nsk g) (upd thr1 t (set_ts (thr1 t) x)) (term g) (llc_held g) (lpc g)).
Proof.
  intros HO Hin Es Ek Hp Eme Hx Hsv. pose proof HO as (W1 & W2 & W5 & W3 & W4).
  pose proof (W5 _ _ Hin) as Ho.
  apply (own_general g _ t HO); cbn; try lia.
  - intros o' Ho'. unfold upd. destruct (Nat.eqb_spec o' o) as [->|N]; auto.
  - intros o' Ho'. rewrite upd_other by lia. apply W1. lia.
  - rewrite upd_other by lia. rewrite (W1 (nsk g)) by lia. discriminate.
  - intros t' N. rewrite upd_other by assumption. apply Hp.
  - intros t' c N Hc Hsc R. unfold upd. destruct (Nat.eqb_spec c o) as [->|Nc]; [|exact R].
    exfalso. apply N. eapply W3; eauto.
  - rewrite upd_same. intros o' Hin'. left. unfold tref in Hin'. cbn in Hin'. rewrite Eme in Hin'.
    apply in_app_or in Hin'. destruct Hin' as [Hxx|Hmd].
    + destruct x as [|o2 p2|o2 c2 p2 b2|[[| | |c2|]| | |]]; cbn in Hxx; try contradiction.
      * apply in_single in Hxx. subst. split; [lia|auto].
      * apply in_single in Hxx. subst. split; [lia|auto].
    + assert (In o' (tref (thr g t))) by (unfold tref; apply in_or_app; right; exact Hmd).
      split; [eauto|auto].
  - rewrite upd_same. unfold mode_ok. cbn. rewrite Eme. pose proof (W4 t) as M. unfold mode_ok in M.
    destruct (mode (thr g t)) as [|ls|c ph|o2 how|how] eqn:Emd; auto.
    + destruct M as (A0 & A & B). split; [exact A0|]. split.
      * unfold upd. destruct (Nat.eqb_spec ls o) as [->|N]; [congruence|exact A].
      * intros c Hc. subst x. contradiction.
    + destruct M as (A & B & C & D). destruct (Hsv c ph eq_refl) as (-> & S1 & S2 & S3).
      rewrite upd_same. split; [congruence|]. split; [exact S1|]. split; auto.
Qed.

Lemma own_run g t o p orc :
  Own g -> var g = Fixed ->
  (ts (thr g t) = At o p \/ exists c, ts (thr g t) = Blocked o c p true) ->
  Own (run_seg g t o p orc).
Proof.
  intros HO Gv Hts. pose proof HO as (W1 & W2 & W5 & W3 & W4).
  assert (Hin : In o (tref (thr g t))) by (unfold tref; destruct Hts as [E|(c & E)]; rewrite E; left; reflexivity).
  pose proof (W5 _ _ Hin) as Ho.
  unfold run_seg. rewrite Gv. set (s := sk g o). set (r := seg Fixed p s (term g) orc).
  pose proof (seg_srv Fixed p s (term g) orc) as Rs. pose proof (seg_kd Fixed p s (term g) orc) as Rk. fold r in Rs, Rk.
  assert (Eme : mode (wake_all (thr g) o (o_nall r) t) = mode (thr g t)) by apply wake_all_mode.
  (* what is known about a serve thread before the step *)
  assert (Hserve : forall c ph, mode (thr g t) = MServe c ph ->
            c = o /\ kd s = DLC /\ (ph = 0 -> p = PPoll0 PollRecv \/ p = PPoll1 PollRecv \/ p = PPoll2 PollRecv)
            /\ (ph = 1 -> (p = PRecv0 \/ p = PRecv1) /\ ready s)).
  { intros c ph Em. pose proof (W4 t) as M. unfold mode_ok in M. rewrite Em in M. destruct M as (A & B & C & D).
    assert (Hx : ts (thr g t) = At o p \/ exists cd, ts (thr g t) = Blocked o cd p true) by exact Hts.
    destruct (serve_at c ph o p _ B Hx) as (-> & P0 & P1).
    split; [reflexivity|]. split; [apply W2; exact A|]. split; [exact P0|].
    intro Hph. destruct (P1 Hph) as (Pp & Pe). split; [exact Pp|]. apply D; auto.
    destruct Pp as [->| ->]; [left|right]; exact Pe. }
  destruct (o_act r) as [q|cd q|x|snew] eqn:Ea.
  - (* AGoto *)
    rewrite <- Gv. apply (own_act g t o (o_sock r) (At o q)); auto using wake_all_promoted.
    intros c ph Em. destruct (Hserve c ph Em) as (-> & Kd & P0 & P1). split; [reflexivity|].
    destruct ph as [|[|ph]].
    + pose proof (seg_poll_shape s (term g) orc p (P0 eq_refl)) as X. fold r in X. rewrite Ea in X. subst q.
      split; [right; left; reflexivity|]. split; intros; discriminate.
    + destruct (P1 eq_refl) as (Pp & Rd).
      pose proof (seg_recv_ready s (term g) orc p Pp Kd Rd) as X. fold r in X. rewrite Ea in X. destruct X as (-> & Es).
      split; [right; left; reflexivity|]. split; [intros; discriminate|]. intros _ _. rewrite Es. exact Rd.
    + split; [left; eexists; reflexivity|]. split; intros; discriminate.
  - (* AWait *)
    rewrite <- Gv. apply (own_act g t o (o_sock r) (Blocked o cd q false)); auto using wake_all_promoted.
    intros c ph Em. destruct (Hserve c ph Em) as (-> & Kd & P0 & P1). split; [reflexivity|].
    destruct ph as [|[|ph]].
    + pose proof (seg_poll_shape s (term g) orc p (P0 eq_refl)) as X. fold r in X. rewrite Ea in X. destruct X as (-> & ->).
      split; [right; right; left; eexists; reflexivity|]. split; intros; discriminate.
    + destruct (P1 eq_refl) as (Pp & Rd).
      pose proof (seg_recv_ready s (term g) orc p Pp Kd Rd) as X. fold r in X. rewrite Ea in X. contradiction.
    + split; [right; left; do 3 eexists; reflexivity|]. split; intros; discriminate.
  - (* ARet *)
    rewrite <- Gv. apply (own_act g t o (o_sock r) (Done x)); auto using wake_all_promoted.
    + destruct x as [[| | |c2|]| | |]; auto. apply (seg_ret_not_sock Fixed p s (term g) orc c2). exact Ea.
    + intros c ph Em. destruct (Hserve c ph Em) as (-> & Kd & P0 & P1). split; [reflexivity|].
      destruct ph as [|[|ph]].
      * split; [right; right; right; eexists; reflexivity|]. split; [|intros; discriminate].
        intros _ Hd. inversion Hd; subst.
        destruct (P0 eq_refl) as [->|Hp]; [exfalso; apply (poll0_not_true s (term g) orc); exact Ea|].
        apply (seg_poll_true PollRecv s (term g) orc p); auto.
      * destruct (P1 eq_refl) as (Pp & Rd).
        pose proof (seg_recv_ready s (term g) orc p Pp Kd Rd) as X. fold r in X. rewrite Ea in X.
        split; [right; right; eexists; split; [reflexivity|exact X]|]. split; [intros; discriminate|].
        intros _ [H|H]; discriminate.
      * split; [right; right; eexists; reflexivity|]. split; intros; discriminate.
  - (* AAlloc: the accepted connection *)
    pose proof (seg_alloc p s (term g) orc snew Ea) as ->.
    apply (own_general g _ t HO); cbn; try lia.
    + intros o' Ho'. rewrite upd_other by lia. unfold upd. destruct (Nat.eqb_spec o' o) as [->|N]; auto.
    + intros o' Ho'. rewrite upd_other by lia. rewrite upd_other by lia. apply W1. lia.
    + rewrite upd_same. intros _. reflexivity.
    + intros t' N. rewrite upd_other by assumption. apply wake_all_promoted.
    + intros t' c N Hc Hsc R. specialize (W5 _ _ Hc). rewrite upd_other by lia.
      unfold upd. destruct (Nat.eqb_spec c o) as [->|Nc]; [|exact R]. exfalso. apply N. eapply W3; eauto.
    + rewrite upd_same. intros o' Hin'. unfold tref in Hin'. cbn in Hin'. rewrite Eme in Hin'.
      destruct Hin' as [Hxx|Hmd].
      * subst. right. auto.
      * assert (In o' (tref (thr g t))) by (unfold tref; apply in_or_app; right; exact Hmd).
        left. split; [eauto|auto].
    + rewrite upd_same. unfold mode_ok. cbn. rewrite Eme. pose proof (W4 t) as M. unfold mode_ok in M.
      destruct (mode (thr g t)) as [|ls|c ph|o2 how|how] eqn:Emd; auto.
      * destruct M as (A0 & A & B). split; [lia|]. split.
        -- rewrite upd_other by lia. unfold upd. destruct (Nat.eqb_spec ls o) as [->|N]; [rewrite Rs; exact A|exact A].
        -- intros c Hc. inversion Hc; subst. rewrite upd_same. reflexivity.
      * destruct M as (A & B & C & D). destruct (Hserve c ph eq_refl) as (-> & Kd & P0 & P1).
        destruct ph as [|[|ph]].
        -- exfalso. pose proof (seg_poll_shape s (term g) orc p (P0 eq_refl)) as X. fold r in X. rewrite Ea in X. exact X.
        -- exfalso. destruct (P1 eq_refl) as (Pp & Rd).
           pose proof (seg_recv_ready s (term g) orc p Pp Kd Rd) as X. fold r in X. rewrite Ea in X. exact X.
        -- rewrite upd_other by lia. rewrite upd_same. split; [rewrite Rs; exact A|].
           split; [right; right; eexists; reflexivity|]. split; intros; discriminate.
Qed.

(* ---- all schedules --------------------------------------------------------------------------------------- *)
Lemma own_step g l : Inv g -> Own g -> Own (step g l).
Proof.
  intros ((Gv & _) & _) HO. destruct l as [t op|t orc|t w|o x w|o d w|o n w|o| |t| |o| | |];
    try (match goal with |- Own (step g ?l) => exact (own_link g l HO) end).
  - apply own_issue. exact HO.
  - cbn [step]. destruct (ts (thr g t)) as [|o p|o c p [|]|r] eqn:Ets; try exact HO;
      (destruct (runnable_point g p); [|exact HO]); apply own_run; auto; try (left; exact Ets); right; exists c; exact Ets.
  - cbn [step]. destruct (ts (thr g t)) as [|o p|o c p b|r] eqn:Ets; try exact HO. apply own_next; auto.
Qed.

Lemma own_init : Own (init Fixed).
Proof.
  split; [|split; [|split; [|split]]]; cbn.
  - intros o _. destruct (Nat.eqb o 0); reflexivity.
  - intros o H. destruct (Nat.eqb o 0); discriminate.
  - intros t o H. destruct H.
  - intros t1 t2 o _ H. destruct H.
  - intro t. exact I.
Qed.

Theorem reach_own sched : Own (run (init Fixed) sched).
Proof.
  assert (H : forall s g, Inv g -> Own g -> Inv (run g s) /\ Own (run g s)).
  { induction s as [|l r IH]; intros g HI HO; [auto|]. cbn. apply IH; [apply step_inv; exact HI|apply own_step; auto]. }
  apply (H sched (init Fixed) init_inv own_init).
Qed.

(* The recv() a serve loop issues after poll('recv') answered True never waits and never returns None:
   for all schedules, a thread in phase 1 of a serve loop is about to call / inside recv() on a ready
   socket, or has its result, which is data or nfc.llcp.Error.  Hence next_of never takes the
   `bytearray(None)` / `request += None` exit (ExCrash) for this call. *)
Theorem serve_recv_never_none : forall sched t c,
  let g := run (init Fixed) sched in
  mode (thr g t) = MServe c 1 ->
  ts (thr g t) = At c PRecv0 \/ ts (thr g t) = At c PRecv1
  \/ exists r, ts (thr g t) = Done r /\ (r = Ok VData \/ is_llcp r = true).
Proof.
  intros sched t c g Em. destruct (reach_own sched) as (_ & _ & _ & _ & W4). fold g in W4.
  pose proof (W4 t) as M. unfold mode_ok in M. rewrite Em in M. destruct M as (_ & B & _). exact B.
Qed.

(* single consumer, for all schedules: at most one thread refers to a socket accepted by a server loop *)
Theorem served_socket_single_consumer : forall sched t1 t2 o,
  let g := run (init Fixed) sched in
  srv (sk g o) = true -> In o (tref (thr g t1)) -> In o (tref (thr g t2)) -> t1 = t2.
Proof. intros sched t1 t2 o g. destruct (reach_own sched) as (_ & _ & _ & W3 & _). apply W3. Qed.

(* and the exit kind: with the result of that recv() the loop goes on (data) or leaves through its
   nfc.llcp.Error handler *)
Lemma serve_recv_exit g t w c r :
  mode (thr g t) = MServe c 1 -> ts (thr g t) = Done r -> (r = Ok VData \/ is_llcp r = true) ->
  match mode (thr (step g (TNext t w)) t) with
  | MServe _ 2 | MClosing _ ExHandler => True
  | MExit ExCrash => ref_ok g c (PSend0 false) = false \/ ref_ok g c PClose0 = false
  | _ => False
  end.
Proof.
  intros Em Ets Hr. cbn [step]. rewrite Ets, Em. unfold next_of, goto_call, with_thr.
  destruct Hr as [->|Hr].
  - destruct (ref_ok g c (PSend0 false)) eqn:E; cbn; rewrite upd_same; cbn; auto.
  - destruct r as [|[]| |]; try discriminate. destruct (ref_ok g c PClose0) eqn:E; cbn; rewrite upd_same; cbn; auto.
Qed.
