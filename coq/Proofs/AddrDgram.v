(* C17 - datagram_exact end to end: what recvfrom() returns, in order, is what sendto() accepted, minus what is
   still queued and minus what was dropped by one of the documented rules.  Ghost history + invariant. *)
From Coq Require Import ZArith List Bool Lia ZifyBool Permutation.
From NV Require Import Base.Result Base.Bytes Base.PyPrims Model.Addr Proofs.Addr Proofs.AddrInv Proofs.AddrStep Proofs.AddrThm.
Import ListNotations.
Open Scope Z_scope.

(* ---------------------------------------------------------------- order-preserving sub-list *)
Inductive sub {A} : list A -> list A -> Prop :=
| sub_nil : sub [] []
| sub_skip x l1 l2 : sub l1 l2 -> sub l1 (x :: l2)
| sub_keep x l1 l2 : sub l1 l2 -> sub (x :: l1) (x :: l2).

Lemma sub_refl {A} (l : list A) : sub l l.
Proof. induction l; [apply sub_nil | apply sub_keep; auto]. Qed.
Lemma sub_nil_l {A} (l : list A) : sub [] l.
Proof. induction l; [apply sub_nil | apply sub_skip; auto]. Qed.
Lemma sub_trans {A} (l1 l2 l3 : list A) : sub l1 l2 -> sub l2 l3 -> sub l1 l3.
Proof. intros H12 H23. revert l1 H12. induction H23; intros l0 H; auto.
  - apply sub_skip. auto.
  - inversion H; subst; [apply sub_skip | apply sub_keep]; auto. Qed.
Lemma sub_app {A} (a1 a2 b1 b2 : list A) : sub a1 a2 -> sub b1 b2 -> sub (a1 ++ b1) (a2 ++ b2).
Proof. induction 1; cbn; intros; auto; [apply sub_skip | apply sub_keep]; auto. Qed.
Lemma sub_drop_mid {A} (k1 d k2 : list A) : sub (k1 ++ k2) (k1 ++ d ++ k2).
Proof. apply sub_app; [apply sub_refl|]. induction d; cbn; [apply sub_refl | apply sub_skip; auto]. Qed.

Lemma perm_drop_mid {A} (k1 d k2 dr : list A) : Permutation ((k1 ++ d ++ k2) ++ dr) ((k1 ++ k2) ++ dr ++ d).
Proof.
  rewrite <- !app_assoc. apply Permutation_app_head.
  rewrite (app_assoc k2 dr d). apply Permutation_app_comm.
Qed.

(* ---------------------------------------------------------------- queues of a socket *)
Definition sq (c : ctl) (k : nat) : list pdu := match get_sock c k with Some sk => s_sendq sk | None => [] end.
Definition rq (c : ctl) (k : nat) : list pdu := match get_sock c k with Some sk => s_recvq sk | None => [] end.

(* the socket an API call is made on *)
Definition target (o : lop) : option nat :=
  match o with
  | LSocket _ | LResolve _ _ => None
  | LBind i _ | LListen i _ | LAccept i | LConnect i _ | LSendto i _ _ | LRawsend i _ | LRecvfrom i | LRcvbuf i _
  | LClose i | LGetsockname i => Some i
  end.

Lemma autobind_frame c i s c' os : autobind c i s = (c', os) -> forall j, j <> i -> get_sock c' j = get_sock c j.
Proof.
  unfold autobind. destruct (s_addr s); [intro H; inversion H; auto|].
  unfold bind_none. destruct (first_free c (zrange 32 64)); intro H; inversion H; subst; auto.
  intros j N. apply place_get_other. auto.
Qed.

Lemma get_sock_set_snl c l j : get_sock (set_snl c l) j = get_sock c j.
Proof. reflexivity. Qed.
Lemma get_sock_set_sd c a b d e f g j : get_sock (set_sd c a b d e f g) j = get_sock c j.
Proof. reflexivity. Qed.
Lemma get_sock_set_dmpdu c l j : get_sock (set_dmpdu c l) j = get_sock c j.
Proof. reflexivity. Qed.

Ltac gs :=
  repeat first [ rewrite get_sock_sap_set | rewrite sap_remove_get | rewrite get_sock_set_snl | rewrite get_sock_set_sd
               | rewrite get_sock_set_dmpdu
               | rewrite get_put_other by auto | rewrite place_get_other by auto ].

(* an API call changes no other socket; a socket it creates has empty queues *)
Definition fresh_or_same (c c' : ctl) (j : nat) : Prop :=
  get_sock c' j = get_sock c j \/
  (get_sock c j = None /\ exists x, get_sock c' j = Some x /\ s_sendq x = [] /\ s_recvq x = []).

Lemma app_new_sock c0 c x j : length (c_socks c0) = length (c_socks c) -> get_sock c0 j = get_sock c j ->
  s_sendq x = [] -> s_recvq x = [] -> fresh_or_same c (set_socks c0 (c_socks c0 ++ [x])) j.
Proof.
  intros E F Q R. unfold fresh_or_same. rewrite get_sock_app. destruct (Nat.eqb j (length (c_socks c0))) eqn:N.
  - right. apply Nat.eqb_eq in N. split; [|eauto]. unfold get_sock. apply nth_error_None. lia.
  - left. apply F.
Qed.

Lemma accept_frame c i s1 client a e j (b : bool) : i <> j -> s_sendq client = [] -> s_recvq client = [] ->
  fresh_or_same c (if b then sap_set (set_socks (put_sock c i s1) (c_socks (put_sock c i s1) ++ [client])) a e
                   else set_socks (put_sock c i s1) (c_socks (put_sock c i s1) ++ [client])) j.
Proof.
  intros N Q R.
  assert (FS : fresh_or_same c (set_socks (put_sock c i s1) (c_socks (put_sock c i s1) ++ [client])) j)
    by (apply app_new_sock; [apply put_sock_len | apply get_put_other; auto | auto | auto]).
  destruct b; unfold fresh_or_same in *; gs; exact FS.
Qed.

Lemma lstep_frame c o c' res : lstep c o = (c', res) -> forall j, target o <> Some j -> fresh_or_same c c' j.
Proof.
  intros L j T.
  assert (N : forall i, target o = Some i -> i <> j) by (intros i E E2; subst; congruence).
  assert (SAME : c' = c -> fresh_or_same c c' j) by (intros ->; left; auto).
  destruct o; cbn [lstep target] in *.
  - inversion L; subst. apply (app_new_sock c c); auto; destruct t; reflexivity.
  - specialize (N i eq_refl). unfold do_bind in L. destruct (get_sock c i) as [s|]; [|inversion L; subst; auto].
    destruct (s_addr s); [inversion L; subst; auto|]. destruct arg.
    + unfold bind_none in L. destruct (first_free c (zrange 32 64)); inversion L; subst; auto; left; gs; auto.
    + unfold bind_addr in L. repeat match type of L with context [if ?b then _ else _] => destruct b end; inversion L; subst; auto; left; gs; auto.
    + unfold bind_name in L. destruct (negb (name_valid n)); [inversion L; subst; auto|].
      destruct (lookup (c_snl c) n); [inversion L; subst; auto|].
      destruct (wks n); [destruct (is_free c z) | destruct (first_free c (zrange 16 32))]; inversion L; subst; auto; left; gs; auto.
    + inversion L; subst; auto.
  - specialize (N i eq_refl). unfold do_listen in L. destruct (get_sock c i) as [s|]; [|inversion L; subst; auto].
    destruct (s_pend s); try (inversion L; subst; auto; fail). destruct (s_type s); try (inversion L; subst; auto; fail).
    destruct (backlog <? 0); [inversion L; subst; auto|].
    destruct (autobind c i s) as [c1 [s1|]] eqn:AB; pose proof (autobind_frame _ _ _ _ _ AB j (not_eq_sym N)) as F;
      [destruct (s_state s1)|]; inversion L; subst; left; gs; congruence.
  - specialize (N i eq_refl). unfold do_accept in L. destruct (get_sock c i) as [s|]; [|inversion L; subst; auto].
    destruct (s_pend s); try (inversion L; subst; auto; fail). destruct (s_type s); try (inversion L; subst; auto; fail).
    destruct (s_state s); try (inversion L; subst; auto; fail).
    destruct (s_recvq s) as [|p q]; [inversion L; subst; auto|].
    destruct p; try (inversion L; subst; left; gs; auto; fail).
    destruct (s_addr s) as [a|]; [|inversion L; subst; left; gs; auto].
    match type of L with context [sap_insert ?c2 a ?jj TDlc] => destruct (sap_insert c2 a jj TDlc) as [c3|] eqn:SI end;
      [|inversion L; subst; left; gs; auto].
    inversion L; subst. unfold sap_insert in SI.
    match type of SI with context [sap_get ?c2 a] => destruct (sap_get c2 a) end; try discriminate.
    inversion SI.
    apply accept_frame; auto.
  - specialize (N i eq_refl). unfold do_connect in L. destruct (get_sock c i) as [s|]; [|inversion L; subst; auto].
    destruct (s_pend s); try (inversion L; subst; auto; fail).
    destruct (autobind c i s) as [c1 [s1|]] eqn:AB; pose proof (autobind_frame _ _ _ _ _ AB j (not_eq_sym N)) as F;
      [|inversion L; subst; left; congruence].
    destruct (s_type s1); [inversion L; subst; left; congruence | |].
    + destruct (s_state s1); try (inversion L; subst; left; congruence); (destruct d; inversion L; subst; left; gs; congruence).
    + destruct (s_state s1); try (inversion L; subst; left; congruence).
      cbn [s_recvq set_sendq set_state] in L. destruct (s_recvq s1); inversion L; subst; left; gs; congruence.
  - specialize (N i eq_refl). unfold do_sendto in L. destruct (get_sock c i) as [s|]; [|inversion L; subst; auto].
    destruct (s_pend s); try (inversion L; subst; auto; fail). destruct (s_type s); [inversion L; subst; auto | |].
    + destruct (autobind c i s) as [c1 [s1|]] eqn:AB; pose proof (autobind_frame _ _ _ _ _ AB j (not_eq_sym N)) as F;
        [|inversion L; subst; left; congruence].
      destruct (s_state s1); try (inversion L; subst; left; congruence);
        repeat match type of L with context [if ?b then _ else _] => destruct b end; inversion L; subst; left; gs; congruence.
    + destruct (s_state s); inversion L; subst; auto.
  - specialize (N i eq_refl). unfold do_rawsend in L. destruct (get_sock c i) as [s|]; [|inversion L; subst; auto].
    destruct (s_type s); try (inversion L; subst; auto; fail).
    destruct (autobind c i s) as [c1 [s1|]] eqn:AB; pose proof (autobind_frame _ _ _ _ _ AB j (not_eq_sym N)) as F;
      [destruct (s_state s1)|]; inversion L; subst; left; gs; congruence.
  - specialize (N i eq_refl). unfold do_recvfrom in L. destruct (get_sock c i) as [s|]; [|inversion L; subst; auto].
    destruct (s_pend s); try (inversion L; subst; auto; fail).
    match type of L with context [if ?b then _ else _] => destruct b end; [inversion L; subst; auto|].
    destruct (s_type s); destruct (s_state s); try (inversion L; subst; auto; fail);
      (destruct (s_recvq s) as [|p q]; [inversion L; subst; auto|]; destruct p; try (inversion L; subst; left; gs; auto; fail);
       destruct (sock_close (set_recvq s q)); inversion L; subst; auto; left; gs; auto).
  - specialize (N i eq_refl). unfold do_rcvbuf in L. destruct (get_sock c i) as [s|]; [|inversion L; subst; auto].
    destruct (s_type s); try (inversion L; subst; auto; fail); (destruct (s_state s); inversion L; subst; auto; left; gs; auto).
  - unfold do_resolve in L. destruct (lookup (sd_cache c) n); [inversion L; subst; auto|].
    destruct (sd_tids c); inversion L; subst; auto. left. reflexivity.
  - specialize (N i eq_refl). unfold do_close in L. destruct (get_sock c i) as [s|]; [|inversion L; subst; auto].
    destruct (s_pend s); try (inversion L; subst; auto; fail).
    destruct (s_addr s) as [a|].
    + destruct (sap_get c a); destruct (sock_close s); inversion L; subst; auto; left; gs; auto.
    + destruct (sock_close s); inversion L; subst; auto; left; gs; auto.
  - destruct (get_sock c i) as [s|]; [destruct (s_addr s)|]; inversion L; subst; auto.
Qed.

(* what an API call does to the queues of the datagram socket it is made on *)
Definition sendq_after (o : lop) (res : res out) (sk sk' : sock) : list pdu :=
  match o, res with
  | LSendto _ m d, Ok (OBool true) => s_sendq sk ++ [PUI d (match s_addr sk' with Some x => x | None => 0 end) m]
  | LClose _, Ok OUnit => []
  | _, _ => s_sendq sk
  end.
Definition recvq_after (o : lop) (res : res out) (sk sk' : sock) : Prop :=
  match o, res with
  | LRecvfrom _, Ok (ODgram data ss) => exists d, s_recvq sk = PUI d ss data :: s_recvq sk'
  | LClose _, Ok OUnit => s_recvq sk' = []
  | _, _ => s_recvq sk' = s_recvq sk
  end.

Lemma autobind_q c k sk c1 os : wf c -> get_sock c k = Some sk -> autobind c k sk = (c1, os) ->
  match os with
  | Some s1 => get_sock c1 k = Some s1 /\ same_but_addr sk s1
  | None => c1 = c
  end.
Proof. intros W G E. destruct (autobind_good _ _ _ _ _ W G E) as (_ & P). destruct os; tauto. Qed.

Lemma lstep_target_ldl c o c' res k sk : wf c -> lstep c o = (c', res) -> target o = Some k ->
  get_sock c k = Some sk -> s_type sk = TLdl ->
  exists sk', get_sock c' k = Some sk' /\ s_sendq sk' = sendq_after o res sk sk' /\ recvq_after o res sk sk'.
Proof.
  intros W L T G Ty.
  assert (SAME : forall r0, c' = c -> res = r0 ->
            (forall m d, o = LSendto k m d -> r0 <> Ok (OBool true)) -> (o = LClose k -> r0 <> Ok OUnit) ->
            (forall data ss, o = LRecvfrom k -> r0 <> Ok (ODgram data ss)) ->
            exists sk', get_sock c' k = Some sk' /\ s_sendq sk' = sendq_after o res sk sk' /\ recvq_after o res sk sk').
  { intros r0 -> -> H1 H2 H3. exists sk. split; auto. unfold sendq_after, recvq_after.
    destruct o; cbn in T; inversion T; subst; auto.
    - destruct r0 as [[]| | |]; auto. destruct b; auto. exfalso. eapply H1; eauto.
    - destruct r0 as [[]| | |]; auto. exfalso. eapply H3; eauto.
    - destruct r0 as [[]| | |]; auto. exfalso. apply H2; auto. }
  destruct o; cbn in T; inversion T; subst; cbn [lstep] in L.
  - (* bind *)
    unfold do_bind in L. rewrite G in L. destruct (s_addr sk) eqn:A; [eapply SAME; inversion L; eauto; intros; first [congruence | (let HH := fresh in intro HH; discriminate HH)]|].
    destruct arg.
    + unfold bind_none in L. destruct (first_free c (zrange 32 64)); inversion L; subst; [|eapply SAME; eauto; intros; first [congruence | (let HH := fresh in intro HH; discriminate HH)]].
      eexists. split; [eapply place_get_self; eauto | split; reflexivity].
    + unfold bind_addr in L. repeat match type of L with context [if ?b then _ else _] => destruct b end; inversion L; subst;
        try (eapply SAME; eauto; intros; first [congruence | (let HH := fresh in intro HH; discriminate HH)]). eexists. split; [eapply place_get_self; eauto | split; reflexivity].
    + unfold bind_name in L. destruct (negb (name_valid n)); [eapply SAME; inversion L; eauto; intros; first [congruence | (let HH := fresh in intro HH; discriminate HH)]|].
      destruct (lookup (c_snl c) n); [eapply SAME; inversion L; eauto; intros; first [congruence | (let HH := fresh in intro HH; discriminate HH)]|].
      destruct (wks n); [destruct (is_free c z) | destruct (first_free c (zrange 16 32))]; inversion L; subst;
        try (eapply SAME; eauto; intros; first [congruence | (let HH := fresh in intro HH; discriminate HH)]);
        (eexists; split; [rewrite get_sock_set_snl; eapply place_get_self; eauto | split; reflexivity]).
    + eapply SAME; inversion L; eauto; intros; first [congruence | (let HH := fresh in intro HH; discriminate HH)].
  - (* listen *)
    unfold do_listen in L. rewrite G, Ty in L. destruct (s_pend sk); eapply SAME; inversion L; eauto; intros; first [congruence | (let HH := fresh in intro HH; discriminate HH)].
  - (* accept *)
    unfold do_accept in L. rewrite G, Ty in L. destruct (s_pend sk); eapply SAME; inversion L; eauto; intros; first [congruence | (let HH := fresh in intro HH; discriminate HH)].
  - (* connect *)
    unfold do_connect in L. rewrite G in L. destruct (s_pend sk); try (eapply SAME; inversion L; eauto; intros; first [congruence | (let HH := fresh in intro HH; discriminate HH)]).
    destruct (autobind c k sk) as [c1 [s1|]] eqn:E; pose proof (autobind_q _ _ _ _ _ W G E) as P.
    + destruct P as (G1 & (T1 & St1 & P1 & R1 & RQ & SQ & _)). rewrite T1, Ty in L.
      destruct (s_state s1); (destruct d; inversion L; subst;
        (eexists; split; [first [eapply get_put_same; eauto | eauto] | split; cbn; auto])).
    + cbn in P. subst c1. eapply SAME; inversion L; eauto; intros; first [congruence | (let HH := fresh in intro HH; discriminate HH)].
  - (* sendto *)
    unfold do_sendto in L. rewrite G, Ty in L. destruct (s_pend sk); try (eapply SAME; inversion L; eauto; intros; first [congruence | (let HH := fresh in intro HH; discriminate HH)]).
    destruct (autobind c k sk) as [c1 [s1|]] eqn:E; pose proof (autobind_q _ _ _ _ _ W G E) as P.
    + destruct P as (G1 & (T1 & St1 & P1 & R1 & RQ & SQ & _)).
      destruct (s_state s1);
        repeat match type of L with context [if ?b then _ else _] => destruct b end; inversion L; subst;
        (eexists; split; [first [eapply get_put_same; eauto | eauto] | split; cbn; auto; congruence]).
    + cbn in P. subst c1. eapply SAME; inversion L; eauto; intros; first [congruence | (let HH := fresh in intro HH; discriminate HH)].
  - (* rawsend on a datagram socket: TypeError *)
    unfold do_rawsend in L. rewrite G, Ty in L. eapply SAME; inversion L; eauto; intros; first [congruence | (let HH := fresh in intro HH; discriminate HH)].
  - (* recvfrom *)
    unfold do_recvfrom in L. rewrite G, Ty in L. destruct (s_pend sk); try (eapply SAME; inversion L; eauto; intros; first [congruence | (let HH := fresh in intro HH; discriminate HH)]).
    match type of L with context [if ?b then _ else _] => destruct b end; [eapply SAME; inversion L; eauto; intros; first [congruence | (let HH := fresh in intro HH; discriminate HH)]|].
    destruct (s_state sk); try (eapply SAME; inversion L; eauto; intros; first [congruence | (let HH := fresh in intro HH; discriminate HH)]);
      (destruct (s_recvq sk) as [|p q] eqn:Q; [eapply SAME; inversion L; eauto; intros; first [congruence | (let HH := fresh in intro HH; discriminate HH)]|];
       assert (U : ui_dst (s_addr sk) p) by (eapply (wf_ldl_rq _ W); eauto; rewrite Q; left; auto);
       destruct U as (d0 & sa0 & data0 & -> & _); inversion L; subst;
       eexists; split; [eapply get_put_same; eauto | split; cbn; eauto]).
  - (* setsockopt *)
    unfold do_rcvbuf in L. rewrite G, Ty in L. destruct (s_state sk); inversion L; subst;
      try (eapply SAME; eauto; intros; first [congruence | (let HH := fresh in intro HH; discriminate HH)]); (eexists; split; [eapply get_put_same; eauto | split; reflexivity]).
  - (* close *)
    unfold do_close in L. rewrite G in L. destruct (s_pend sk); try (eapply SAME; inversion L; eauto; intros; first [congruence | (let HH := fresh in intro HH; discriminate HH)]).
    assert (SC : sock_close sk = Some (base_close sk)) by (unfold sock_close; rewrite Ty; reflexivity).
    rewrite SC in L. destruct (s_addr sk) as [a|].
    + destruct (sap_get c a); inversion L; subst;
        (eexists; split; [gs; eapply get_put_same; eauto | split; reflexivity]).
    + inversion L; subst. eexists; split; [eapply get_put_same; eauto | split; reflexivity].
  - (* getsockname *)
    rewrite G in L. destruct (s_addr sk); eapply SAME; inversion L; eauto; intros; first [congruence | (let HH := fresh in intro HH; discriminate HH)].
Qed.

(* ---------------------------------------------------------------- collect and the datagram sockets *)
Lemma collect_cases c a' miu p c' : collect1 c a' miu = Some (p, c') ->
  (exists x sx sx', listed c a' x /\ get_sock c x = Some sx /\ sock_dequeue sx miu = Some (p, sx') /\ c' = put_sock c x sx') \/
  (exists l t, sap_get c a' = Sap l (p :: t) /\ c' = sap_set c a' (Sap l t)) \/
  (sap_get c a' = SapSD /\ sd_dequeue c miu = Some (p, c')).
Proof.
  unfold collect1. destruct (sap_get c a') as [| |l sl] eqn:SG; [discriminate | auto |].
  destruct (socks_dequeue c l miu) as [[p1 c1]|] eqn:D.
  - intro H; inversion H; subst. left.
    assert (K : forall l0, socks_dequeue c l0 miu = Some (p, c') ->
              exists x sx sx', In x l0 /\ get_sock c x = Some sx /\ sock_dequeue sx miu = Some (p, sx') /\ c' = put_sock c x sx').
    { induction l0 as [|x t IH]; cbn; [discriminate|]. destruct (get_sock c x) as [sx|] eqn:Gx.
      - destruct (sock_dequeue sx miu) as [[p2 s2]|] eqn:SD.
        + intro E; inversion E; subst. exists x, sx, s2. auto.
        + intro E. destruct (IH E) as (y & sy & sy' & I & R). exists y, sy, sy'. auto.
      - intro E. destruct (IH E) as (y & sy & sy' & I & R). exists y, sy, sy'. auto. }
    destruct (K l D) as (x & sx & sx' & I & R). exists x, sx, sx'. split; auto. unfold listed. rewrite SG. auto.
  - destruct sl as [|h t]; [discriminate|]. intro H; inversion H; subst. right. left. eauto.
Qed.

Lemma sd_dequeue_socks c miu p c' : sd_dequeue c miu = Some (p, c') -> c_socks c' = c_socks c.
Proof.
  unfold sd_dequeue. destruct (sd_sdres c), (sd_sdreq c);
    try (destruct (take_sdres _ _ _) as [[? ?] ?]; destruct (take_sdreq _ _ _ _) as [? ?]; intro H; inversion H; reflexivity).
  destruct (sd_dmpdu c); [discriminate|]. destruct (0 <? miu); intro H; inversion H; reflexivity.
Qed.

Lemma sd_dequeue_nonui c miu p c' : wf c -> sd_dequeue c miu = Some (p, c') -> is_ui p = false.
Proof.
  intro W. unfold sd_dequeue. destruct (sd_sdres c), (sd_sdreq c);
    try (destruct (take_sdres _ _ _) as [[? ?] ?]; destruct (take_sdreq _ _ _ _) as [? ?]; intro H; inversion H; reflexivity).
  destruct (sd_dmpdu c) eqn:DM; [discriminate|]. destruct (0 <? miu); [|discriminate]. intro H; inversion H; subst.
  apply (wf_dmpdu_ui _ W). rewrite DM. left; auto.
Qed.

Lemma ldl_dequeue sx miu p sx' : s_type sx = TLdl -> sock_dequeue sx miu = Some (p, sx') ->
  exists rest, s_sendq sx = p :: rest /\ sx' = set_sendq sx rest.
Proof.
  intros T. unfold sock_dequeue. rewrite T. intro B. apply base_dequeue_evolves in B. destruct B as [E Q].
  exists (tl (s_sendq sx)). rewrite E in Q. cbn in Q. rewrite Q. cbn. auto.
Qed.

Lemma collect_ldl c a' miu p c' : wf c -> collect1 c a' miu = Some (p, c') ->
  (forall k sk, get_sock c k = Some sk -> s_type sk = TLdl ->
     get_sock c' k = Some sk \/
     (exists rest, s_sendq sk = p :: rest /\ get_sock c' k = Some (set_sendq sk rest) /\ s_addr sk = Some a')) /\
  (forall k, get_sock c k = None -> get_sock c' k = None).
Proof.
  intros W C. destruct (collect_cases _ _ _ _ _ C) as [(x & sx & sx' & L & Gx & SD & ->)|[(l & t & SG & ->)|(_ & SD)]].
  - split.
    + intros k sk Gk Tk. destruct (Nat.eq_dec x k).
      * subst k. rewrite Gx in Gk. inversion Gk; subst sk. right.
        destruct (ldl_dequeue _ _ _ _ Tk SD) as (rest & Q & ->). exists rest. split; auto. split; [eapply get_put_same; eauto|].
        destruct (wf_listed_addr _ W a' x L) as (s0 & G0 & A0). congruence.
      * left. rewrite get_put_other; auto.
    + intros k Gk. rewrite get_put_other; auto. intro; subst; congruence.
  - split; intros; gs; auto.
  - apply sd_dequeue_socks in SD. unfold get_sock. rewrite SD. auto.
Qed.

(* without raw access points a UI PDU leaves a controller only from the send queue of the datagram socket bound at its
   source address *)
Lemma collect_ui_origin c a' miu d ss data c' : wf c -> (forall j sj, get_sock c j = Some sj -> s_type sj <> TRaw) ->
  collect1 c a' miu = Some (PUI d ss data, c') ->
  exists k sk rest, get_sock c k = Some sk /\ s_type sk = TLdl /\ s_addr sk = Some ss /\
                    s_sendq sk = PUI d ss data :: rest /\ get_sock c' k = Some (set_sendq sk rest).
Proof.
  intros W NR C. destruct (collect_cases _ _ _ _ _ C) as [(x & sx & sx' & L & Gx & SD & ->)|[(l & t & SG & ->)|(_ & SD)]].
  - destruct (s_type sx) eqn:Ty.
    + exfalso. eapply NR; eauto.
    + destruct (ldl_dequeue _ _ _ _ Ty SD) as (rest & Q & ->).
      assert (U : ui_src (s_addr sx) (PUI d ss data)) by (eapply (wf_ldl_sq _ W); eauto; rewrite Q; left; auto).
      destruct U as (d0 & dt & a0 & E & A0). inversion E; subst.
      exists x, sx, rest. repeat split; auto. eapply get_put_same; eauto.
    + exfalso. unfold sock_dequeue in SD. rewrite Ty in SD.
      destruct (base_dequeue sx (Some miu)) as [[p1 s1]|] eqn:B; [|discriminate].
      apply base_dequeue_evolves in B. destruct B as [_ Q].
      assert (p1 = PUI d ss data). { destruct p1; try (inversion SD; auto; fail). destruct (sstate_eqb _ _); inversion SD; auto. }
      subst p1. assert (is_ui (PUI d ss data) = false) by (eapply (wf_dlc_sq _ W); eauto; rewrite Q; left; auto). discriminate.
  - exfalso. assert (is_ui (PUI d ss data) = false) by (eapply (wf_sendl_ui _ W); eauto; left; auto). discriminate.
  - exfalso. apply (sd_dequeue_nonui _ _ _ _ W) in SD. discriminate.
Qed.

(* ---------------------------------------------------------------- dispatch and the datagram sockets *)
Definition ldl_after_dispatch (c c' : ctl) (p : pdu) (res : res (list event)) : Prop :=
  (forall k sk, get_sock c k = Some sk -> s_type sk = TLdl ->
     (get_sock c' k = Some sk /\ (forall evs q, res = Ok evs -> ~ In (EvEnq k q) evs)) \/
     (is_ui p = true /\ s_addr sk = Some (pdu_dsap p) /\ get_sock c' k = Some (set_recvq sk (s_recvq sk ++ [p])) /\
      exists evs, res = Ok evs /\ In (EvEnq k p) evs)) /\
  (forall k, get_sock c k = None -> get_sock c' k = None).

Lemma wake_events cache w evs rest : wake cache w = (evs, rest) -> forall e, In e evs -> exists n v, e = EvResolved n v.
Proof.
  revert evs rest. induction w as [|n t IH]; cbn; intros evs rest H; [inversion H; subst; intros e []|].
  destruct (wake cache t) as [evs0 rest0]. destruct (lookup cache n); inversion H; subst; eauto.
  intros e [<-|Hin]; eauto.
Qed.

Lemma unchanged_ldl c c' p res : (forall k, get_sock c' k = get_sock c k) ->
  (forall evs k q, res = Ok evs -> ~ In (EvEnq k q) evs) -> ldl_after_dispatch c c' p res.
Proof. intros E N. split; [intros k sk G T; left; split; [rewrite E; auto | intros; eapply N; eauto] | intros k G; rewrite E; auto]. Qed.

Lemma sock_enqueue_ldl c j sj p c' res : wf c -> get_sock c j = Some sj -> s_addr sj = Some (pdu_dsap p) ->
  sock_enqueue c j sj p = (c', res) -> ldl_after_dispatch c c' p res.
Proof.
  intros W G AD E.
  assert (FR : forall k, k <> j -> get_sock c' k = get_sock c k).
  { intros k N. replace c' with (fst (sock_enqueue c j sj p)) by (rewrite E; auto). apply sock_enqueue_frame; auto. }
  assert (EV : forall evs k q, res = Ok evs -> In (EvEnq k q) evs -> k = j /\ q = p).
  { intros evs k q -> Hin. eapply sock_enqueue_events; eauto. }
  split.
  - intros k sk Gk Tk. destruct (Nat.eq_dec k j).
    + subst k. rewrite G in Gk. inversion Gk; subst sk. unfold sock_enqueue in E. rewrite Tk in E.
      destruct p; try (inversion E; subst; left; split; [auto | intros ? ? H; inversion H; subst; intros []]).
      destruct (link_miu <? len data); [inversion E; subst; left; split; [auto | intros ? ? H; inversion H; subst; intros []]|].
      destruct (len (s_recvq sj) <? s_rbuf sj); inversion E; subst.
      * right. split; [reflexivity|]. split; [exact AD|]. split; [eapply get_put_same; eauto|]. eexists. split; [reflexivity | left; auto].
      * left. split; [auto | intros ? ? H; inversion H; subst; intros []].
    + left. split; [rewrite FR; auto|]. intros evs q Hr Hin. destruct (EV _ _ _ Hr Hin). contradiction.
  - intros k Gk. rewrite FR; auto. intro; subst; congruence.
Qed.

Lemma dispatch_ldl c p c' res : wf c -> dispatch c p = (c', res) -> ldl_after_dispatch c c' p res.
Proof.
  intros W D.
  assert (ROUTE : forall q c1 r1, q = p \/ is_ui q = false ->
            match sap_get c (pdu_dsap q) with
            | SapNone => (c, Ok [])
            | SapSD => sd_enqueue c q
            | Sap l sl => sap_enqueue c (pdu_dsap q) l sl q
            end = (c1, r1) -> ldl_after_dispatch c c1 p r1).
  { intros q c1 r1 Hq R.
    assert (CONV : ldl_after_dispatch c c1 q r1 -> ldl_after_dispatch c c1 p r1).
    { destruct Hq as [->|NU]; auto. intros [A B]. split; auto. intros k sk Gk Tk.
      destruct (A k sk Gk Tk) as [?|(U & _)]; auto. congruence. }
    apply CONV. destruct (sap_get c (pdu_dsap q)) as [| |l sl] eqn:SG.
    - inversion R; subst. apply unchanged_ldl; auto. intros ? ? ? H; inversion H; subst; auto.
    - unfold sd_enqueue in R. destruct q; try (inversion R; subst; apply unchanged_ldl; auto; intros ? ? ? H; inversion H; subst; auto).
      destruct (sd_take_res _ _ _ _) as [cache tids]. destruct (wake cache (sd_wait c)) as [evs w] eqn:WK. inversion R; subst.
      apply unchanged_ldl; auto. intros evs0 k q H Hin. inversion H; subst.
      destruct (wake_events _ _ _ _ WK _ Hin) as (n & v & E). discriminate.
    - unfold sap_enqueue in R.
      assert (AD : forall i s, In i l -> get_sock c i = Some s -> s_addr s = Some (pdu_dsap q)).
      { intros i s Li G. assert (L : listed c (pdu_dsap q) i) by (unfold listed; rewrite SG; auto).
        destruct (wf_listed_addr _ W _ i L) as (s0 & G0 & A0). congruence. }
      destruct (is_connect q).
      + destruct (pick_sock c l _) as [[i s]|] eqn:P.
        * apply pick_sock_some in P. destruct P as (Li & G & _). eapply sock_enqueue_ldl; eauto.
        * inversion R; subst. apply unchanged_ldl; [intro; gs; auto | intros ? ? ? H; inversion H; subst; auto].
      + destruct (pick_sock c l _) as [[i s]|] eqn:P.
        * apply pick_sock_some in P. destruct P as (Li & G & _). eapply sock_enqueue_ldl; eauto.
        * destruct (is_dlc_pdu q); inversion R; subst;
            (apply unchanged_ldl; [intro; gs; auto | intros ? ? ? H; inversion H; subst; auto]). }
  unfold dispatch in D.
  destruct p; try (eapply ROUTE; [left; reflexivity | exact D]).
  destruct d as [|[d|d|]|]; try (eapply (ROUTE (PConnect _ s sn)); [left; reflexivity | exact D]).
  match type of D with context [if ?b then _ else _] => destruct b end.
  - eapply (ROUTE (PConnect _ s None)); [right; reflexivity | exact D].
  - inversion D; subst. apply unchanged_ldl; auto. intros ? ? ? H; inversion H; subst; auto.
Qed.

Lemma lstep_notsock c o k : get_sock c k = None -> target o = Some k -> lstep c o = (c, Err (LlcpError ENOTSOCK)).
Proof. intros G T. destruct o; cbn in T; inversion T; subst; cbn [lstep];
  unfold do_bind, do_listen, do_accept, do_connect, do_sendto, do_rawsend, do_recvfrom, do_rcvbuf, do_close; rewrite G; reflexivity. Qed.

(* a UI PDU for an address at which no connection socket is bound is dispatched without waiting *)
Lemma dispatch_ui_ok c d ss data c' res : wf c ->
  (forall j sj, listed c d j -> get_sock c j = Some sj -> s_type sj <> TDlc) ->
  dispatch c (PUI d ss data) = (c', res) -> exists evs, res = Ok evs.
Proof.
  intros W ND. unfold dispatch. cbn [pdu_dsap]. destruct (sap_get c d) as [| |l sl] eqn:SG.
  - intro H; inversion H; eauto.
  - cbn. intro H; inversion H; eauto.
  - unfold sap_enqueue. cbn [is_connect is_dlc_pdu pdu_ssap].
    destruct (pick_sock c l _) as [[j sj]|] eqn:P; [|intro H; inversion H; eauto].
    destruct (pick_sock_some _ _ _ _ _ P) as (Lj & G & _).
    assert (T : s_type sj <> TDlc) by (eapply ND; eauto; unfold listed; rewrite SG; auto).
    unfold sock_enqueue. destruct (s_type sj); try congruence.
    + destruct (len (s_recvq sj) <? s_rbuf sj); intro H; inversion H; eauto.
    + destruct (link_miu <? len data); [intro H; inversion H; eauto|].
      destruct (len (s_recvq sj) <? s_rbuf sj); intro H; inversion H; eauto.
Qed.

(* the send queue of datagram socket k after an API call on its controller *)
Lemma sq_after_lstep c lo c' res k sa0 : wf c -> lstep c lo = (c', res) ->
  (forall sk, get_sock c k = Some sk -> s_type sk = TLdl) ->
  (forall sk', get_sock c' k = Some sk' -> s_addr sk' = None \/ s_addr sk' = Some sa0) ->
  sq c' k = match lo, res with
            | LSendto k' m d, Ok (OBool true) => if Nat.eqb k' k then sq c k ++ [PUI d sa0 m] else sq c k
            | LClose k', Ok OUnit => if Nat.eqb k' k then [] else sq c k
            | _, _ => sq c k
            end.
Proof.
  intros W L TY AD.
  assert (OTHER : target lo <> Some k -> sq c' k = sq c k).
  { intro T. unfold sq. destruct (lstep_frame _ _ _ _ L k T) as [E|(E & x & E' & Q & _)]; [rewrite E; auto|].
    rewrite E, E'. auto. }
  destruct (target lo) as [t|] eqn:T.
  2:{ rewrite OTHER by congruence. destruct lo; cbn in T; try discriminate; reflexivity. }
  destruct (Nat.eq_dec t k) as [->|N].
  2:{ rewrite OTHER by congruence. assert (F : Nat.eqb t k = false) by (apply Nat.eqb_neq; auto).
      destruct lo; cbn in T; inversion T; subst; try reflexivity.
      - destruct res as [[]| | |]; try reflexivity. destruct b; try reflexivity. rewrite F. reflexivity.
      - destruct res as [[]| | |]; try reflexivity. rewrite F. reflexivity. }
  destruct (get_sock c k) as [sk|] eqn:G.
  - specialize (TY sk eq_refl).
    destruct (lstep_target_ldl _ _ _ _ _ _ W L T G TY) as (sk' & G' & Q & _).
    assert (SQ : sq c k = s_sendq sk) by (unfold sq; rewrite G; auto).
    unfold sq at 1. rewrite G', Q, SQ.
    destruct lo; cbn in T; inversion T; subst; cbn [sendq_after]; try reflexivity.
    + destruct res as [[]| | |]; try reflexivity. destruct b; try reflexivity. rewrite Nat.eqb_refl.
      assert (A : s_addr sk' = Some sa0).
      { destruct (AD _ G') as [A|A]; auto. exfalso.
        cbn [lstep] in L. destruct (datagram_sendto _ _ _ _ _ _ W G TY L) as (s2 & a2 & G3 & A3 & _). congruence. }
      rewrite A. reflexivity.
    + destruct res as [[]| | |]; try reflexivity. rewrite Nat.eqb_refl. reflexivity.
  - rewrite (lstep_notsock _ _ _ G T) in L. inversion L; subst.
    destruct lo; cbn in T; inversion T; subst; reflexivity.
Qed.

(* ... and its receive queue *)
Lemma rq_after_lstep c lo c' res k : wf c -> lstep c lo = (c', res) ->
  (forall sk, get_sock c k = Some sk -> s_type sk = TLdl) ->
  match lo, res with
  | LRecvfrom k', Ok (ODgram data ss) => if Nat.eqb k' k then exists d, rq c k = PUI d ss data :: rq c' k else rq c' k = rq c k
  | LClose k', Ok OUnit => if Nat.eqb k' k then rq c' k = [] else rq c' k = rq c k
  | _, _ => rq c' k = rq c k
  end.
Proof.
  intros W L TY.
  assert (OTHER : target lo <> Some k -> rq c' k = rq c k).
  { intro T. unfold rq. destruct (lstep_frame _ _ _ _ L k T) as [E|(E & x & E' & _ & R)]; [rewrite E; auto|].
    rewrite E, E'. auto. }
  destruct (target lo) as [t|] eqn:T.
  2:{ destruct lo; cbn in T; try discriminate; apply OTHER; congruence. }
  destruct (Nat.eq_dec t k) as [->|N].
  2:{ assert (F : Nat.eqb t k = false) by (apply Nat.eqb_neq; auto). assert (O : rq c' k = rq c k) by (apply OTHER; congruence).
      destruct lo; cbn in T; inversion T; subst; auto.
      - destruct res as [[]| | |]; auto. rewrite F. auto.
      - destruct res as [[]| | |]; auto. rewrite F. auto. }
  destruct (get_sock c k) as [sk|] eqn:G.
  - specialize (TY sk eq_refl).
    destruct (lstep_target_ldl _ _ _ _ _ _ W L T G TY) as (sk' & G' & _ & R).
    assert (RQ : rq c k = s_recvq sk) by (unfold rq; rewrite G; auto).
    assert (RQ' : rq c' k = s_recvq sk') by (unfold rq; rewrite G'; auto).
    rewrite RQ, RQ'.
    destruct lo; cbn in T; inversion T; subst; cbn [recvq_after] in R; auto.
    + destruct res as [[]| | |]; auto. rewrite Nat.eqb_refl. auto.
    + destruct res as [[]| | |]; auto. rewrite Nat.eqb_refl. auto.
  - rewrite (lstep_notsock _ _ _ G T) in L. inversion L; subst.
    destruct lo; cbn in T; inversion T; subst; reflexivity.
Qed.

(* ================================================================ the end-to-end statement *)
Section Dgram.
(* sender: datagram socket i of controller X, bound at s; receiver: datagram socket r of the peer controller, bound at a *)
Variables (X : side) (i r : nat) (s a : Z).
Definition Yside : side := other X.

Definition side_eqb (u v : side) : bool := match u, v with SA, SA | SB, SB => true | _, _ => false end.
Lemma side_eqb_refl u : side_eqb u u = true. Proof. destruct u; reflexivity. Qed.
Lemma side_eqb_other u : side_eqb u (other u) = false /\ side_eqb (other u) u = false. Proof. destruct u; split; reflexivity. Qed.
Lemma side_eqb_eq u v : side_eqb u v = true -> u = v. Proof. destruct u, v; cbn; congruence. Qed.

Definition to_a (p : pdu) : bool := match p with PUI d _ _ => d =? a | _ => false end.
Definition from_s (p : pdu) : bool := match p with PUI _ ss _ => ss =? s | _ => false end.
(* datagrams for a still waiting in the send queue of i / datagrams from s waiting in the receive queue of r *)
Definition outq (st : sys) : list pdu := filter to_a (sq (get_side st X) i).
Definition inq (st : sys) : list pdu := filter from_s (rq (get_side st Yside) r).

(* ghost history *)
Record ghost := mkG {
  g_sent : list pdu;      (* PUI a s msg for every sendto(msg, a) accepted on socket i, oldest first *)
  g_rcvd : list pdu;      (* PUI a s data for every (data, s) returned by recvfrom on socket r, oldest first *)
  g_drop : list pdu }.    (* datagrams discarded by one of the three rules below, in the order of being discarded *)

Definition gupd (st st' : sys) (o : op) (res : res out) (g : ghost) : ghost :=
  match o, res with
  | XLoc sd (LSendto k m d), Ok (OBool true) =>
      if side_eqb sd X && Nat.eqb k i && (d =? a) then mkG (g_sent g ++ [PUI a s m]) (g_rcvd g) (g_drop g) else g
  | XLoc sd (LRecvfrom k), Ok (ODgram data ss) =>
      if side_eqb sd Yside && Nat.eqb k r && (ss =? s) then mkG (g_sent g) (g_rcvd g ++ [PUI a s data]) (g_drop g) else g
  | XLoc sd (LClose k), Ok OUnit =>
      (* rule 1: close() of the sender discards what it has not sent; rule 2: close() of the receiver discards what
         it has not delivered *)
      if side_eqb sd X && Nat.eqb k i then mkG (g_sent g) (g_rcvd g) (g_drop g ++ outq st)
      else if side_eqb sd Yside && Nat.eqb k r then mkG (g_sent g) (g_rcvd g) (g_drop g ++ inq st)
      else g
  | XXfer from _ _, Ok (OXfer (Some p) _) =>
      (* rule 3: a datagram that arrives and does not enter the receive queue of r is discarded *)
      if side_eqb from X && to_a p && from_s p &&
         Nat.eqb (length (rq (get_side st' Yside) r)) (length (rq (get_side st Yside) r))
      then mkG (g_sent g) (g_rcvd g) (g_drop g ++ [p]) else g
  | _, _ => g
  end.

Definition grun_step (sg : sys * ghost) (o : op) : sys * ghost :=
  let '(st', res) := step (fst sg) o in (st', gupd (fst sg) st' o res (snd sg)).
Definition grun (blk : bool) (ops : list op) : sys * ghost :=
  fold_left grun_step ops (init_sys blk, mkG [] [] []).

Lemma grun_fst ops : forall sg, fst (fold_left grun_step ops sg) = fold_left (fun st o => fst (step st o)) ops (fst sg).
Proof.
  induction ops as [|o t IH]; intro sg; [reflexivity|]. cbn [fold_left]. rewrite IH. f_equal.
  unfold grun_step. destruct (step (fst sg) o); reflexivity.
Qed.
Lemma grun_exec blk ops : fst (grun blk ops) = exec blk ops.
Proof. unfold grun, exec. rewrite grun_fst. reflexivity. Qed.
Lemma grun_app blk ops o : grun blk (ops ++ [o]) = grun_step (grun blk ops) o.
Proof. unfold grun. rewrite fold_left_app. reflexivity. Qed.


(* ---- the guard: s and a belong to i and r alone, and X has no raw access point (monotone: true at the end of a
        history, true all along, because a socket keeps its type and its address) *)
Definition compat (st : sys) : Prop :=
  (forall si, get_sock (get_side st X) i = Some si -> s_type si = TLdl /\ (s_addr si = None \/ s_addr si = Some s)) /\
  (forall sr, get_sock (get_side st Yside) r = Some sr -> s_type sr = TLdl /\ (s_addr sr = None \/ s_addr sr = Some a)) /\
  (forall j sj, get_sock (get_side st X) j = Some sj -> s_addr sj = Some s -> j = i) /\
  (forall j sj, get_sock (get_side st Yside) j = Some sj -> s_addr sj = Some a -> j = r) /\
  (forall j sj, get_sock (get_side st X) j = Some sj -> s_type sj <> TRaw).

Lemma compat_back st o : wf2 st -> compat (fst (step st o)) -> compat st.
Proof.
  intros W (C1 & C2 & C3 & C4 & C5).
  assert (M : forall sd j sj, get_sock (get_side st sd) j = Some sj ->
            exists sj', get_sock (get_side (fst (step st o)) sd) j = Some sj' /\ s_type sj' = s_type sj /\
                        (forall x, s_addr sj = Some x -> s_addr sj' = Some x)).
  { intros sd j sj G. destruct (step_addr st o sd W j sj G) as (sj' & G' & T & [A|(A & _)]); exists sj'; repeat split; auto; congruence. }
  repeat split.
  - destruct (M X i si H) as (si' & G' & T & _). destruct (C1 _ G'). congruence.
  - destruct (M X i si H) as (si' & G' & T & A). destruct (C1 _ G') as [_ [N|E]]; destruct (s_addr si) as [x|] eqn:Ax; auto;
      specialize (A x eq_refl); right; congruence.
  - destruct (M Yside r sr H) as (sr' & G' & T & _). destruct (C2 _ G'). congruence.
  - destruct (M Yside r sr H) as (sr' & G' & T & A). destruct (C2 _ G') as [_ [N|E]]; destruct (s_addr sr) as [x|] eqn:Ax; auto;
      specialize (A x eq_refl); right; congruence.
  - intros j sj G A. destruct (M X j sj G) as (sj' & G' & _ & A'). eapply C3; eauto.
  - intros j sj G A. destruct (M Yside j sj G) as (sj' & G' & _ & A'). eapply C4; eauto.
  - intros j sj G T. destruct (M X j sj G) as (sj' & G' & T' & _). eapply C5; eauto. congruence.
Qed.

(* ---- the invariant *)
Definition kept (st : sys) (g : ghost) : list pdu := g_rcvd g ++ inq st ++ outq st.
Definition J (st : sys) (g : ghost) : Prop :=
  sub (kept st g) (g_sent g) /\ Permutation (g_sent g) (kept st g ++ g_drop g).

Lemma J_same st g st' g' : kept st' g' = kept st g -> g_sent g' = g_sent g -> g_drop g' = g_drop g -> J st g -> J st' g'.
Proof. unfold J. intros -> -> ->. auto. Qed.
Lemma J_send st g st' g' p : kept st' g' = kept st g ++ [p] -> g_sent g' = g_sent g ++ [p] -> g_drop g' = g_drop g ->
  J st g -> J st' g'.
Proof.
  unfold J. intros -> -> -> [S P]. split; [apply sub_app; [auto | apply sub_refl]|].
  rewrite <- app_assoc. apply Permutation_trans with ((kept st g ++ g_drop g) ++ [p]).
  - apply Permutation_app_tail. auto.
  - rewrite <- app_assoc. apply Permutation_app_head. apply Permutation_app_comm.
Qed.
Lemma J_drop st g st' g' k1 d k2 : kept st g = k1 ++ d ++ k2 -> kept st' g' = k1 ++ k2 -> g_sent g' = g_sent g ->
  g_drop g' = g_drop g ++ d -> J st g -> J st' g'.
Proof.
  unfold J. intros E -> -> -> [S P]. rewrite E in *. split.
  - eapply sub_trans; [apply sub_drop_mid | exact S].
  - eapply Permutation_trans; [exact P | apply perm_drop_mid].
Qed.

Lemma side_cases sd : sd = X \/ sd = Yside.
Proof. unfold Yside. destruct sd, X; auto. Qed.
Lemma Y_ne_X : Yside <> X. Proof. unfold Yside. destruct X; discriminate. Qed.
Lemma get_side_set_other st sd c sd' : sd' <> sd -> get_side (set_side st sd c) sd' = get_side st sd'.
Proof. destruct sd, sd'; intro N; try congruence; reflexivity. Qed.

Lemma gupd_other st st' sd lo res g :
  (forall k m d, lo <> LSendto k m d) -> (forall k, lo <> LRecvfrom k) -> (forall k, lo <> LClose k) ->
  gupd st st' (XLoc sd lo) res g = g.
Proof. intros H1 H2 H3. destruct lo; try reflexivity; exfalso; [eapply H1 | eapply H2 | eapply H3]; reflexivity. Qed.

Lemma filter_app_single {A} (f : A -> bool) l x : filter f (l ++ [x]) = filter f l ++ (if f x then [x] else []).
Proof. rewrite filter_app. reflexivity. Qed.

Lemma J_step_loc st sd lo c' res g : wf2 st -> compat st -> compat (set_side st sd c') ->
  lstep (get_side st sd) lo = (c', res) -> J st g ->
  J (set_side st sd c') (gupd st (set_side st sd c') (XLoc sd lo) res g).
Proof.
  intros W C C' L HJ. set (st' := set_side st sd c').
  destruct (side_cases sd) as [->| ->].
  - (* an API call on the sender's controller *)
    assert (EX : get_side st' X = c') by apply get_set_side_same.
    assert (EY : get_side st' Yside = get_side st Yside) by (apply get_side_set_other; apply Y_ne_X).
    assert (IN : inq st' = inq st) by (unfold inq; rewrite EY; auto).
    destruct C as (C1 & _). destruct C' as (C1' & _).
    pose proof (sq_after_lstep (get_side st X) lo c' res i s (wf2_side st X W) L
                  (fun sk G => proj1 (C1 sk G)) (fun sk' G => proj2 (C1' sk' (eq_trans (f_equal (fun c => get_sock c i) EX) G)))) as SQ.
    assert (OUT : outq st' = filter to_a (sq c' i)) by (unfold outq; rewrite EX; auto).
    assert (KS : sq c' i = sq (get_side st X) i -> forall g', g_rcvd g' = g_rcvd g -> kept st' g' = kept st g).
    { intros E g' R. unfold kept. rewrite IN, OUT, E, R. reflexivity. }
    pose proof (side_eqb_refl X) as SX. destruct (side_eqb_other X) as [SXY SYX]. fold Yside in SXY, SYX.
    destruct lo; try (rewrite gupd_other by (intros; discriminate); (apply (J_same st g); [apply KS; [exact SQ | reflexivity] | reflexivity | reflexivity | exact HJ])).
    + (* sendto *)
      destruct res as [[]| | |]; try (cbn [gupd]; (apply (J_same st g); [apply KS; [exact SQ | reflexivity] | reflexivity | reflexivity | exact HJ])).
      match goal with bb : bool |- _ => destruct bb end; [|cbn [gupd]; (apply (J_same st g); [apply KS; [exact SQ | reflexivity] | reflexivity | reflexivity | exact HJ])].
      cbn [gupd]. rewrite SX. cbn [andb]. destruct (Nat.eqb i0 i) eqn:EI; [|cbn [andb]; (apply (J_same st g); [apply KS; [exact SQ | reflexivity] | reflexivity | reflexivity | exact HJ])].
      cbn [andb]. destruct (d =? a) eqn:ED.
      * assert (d = a) by lia. subst d. apply (J_send st g st' _ (PUI a s msg)); [| reflexivity | reflexivity | exact HJ].
        unfold kept. cbn [g_rcvd]. rewrite IN, OUT, SQ, filter_app_single. cbn [to_a]. rewrite Z.eqb_refl.
        unfold outq. rewrite !app_assoc. reflexivity.
      * apply (J_same st g); [| reflexivity | reflexivity | exact HJ]. unfold kept. rewrite IN, OUT, SQ, filter_app_single. cbn [to_a]. rewrite ED, app_nil_r. reflexivity.
    + (* recvfrom on the sender's side: not the receiver *)
      destruct res as [[]| | |]; try (cbn [gupd]; (apply (J_same st g); [apply KS; [exact SQ | reflexivity] | reflexivity | reflexivity | exact HJ])).
      cbn [gupd]. rewrite SXY. cbn [andb]. (apply (J_same st g); [apply KS; [exact SQ | reflexivity] | reflexivity | reflexivity | exact HJ]).
    + (* close *)
      destruct res as [[]| | |]; try (cbn [gupd]; (apply (J_same st g); [apply KS; [exact SQ | reflexivity] | reflexivity | reflexivity | exact HJ])).
      cbn [gupd]. rewrite SX, SXY. cbn [andb]. destruct (Nat.eqb i0 i) eqn:EI; [|(apply (J_same st g); [apply KS; [exact SQ | reflexivity] | reflexivity | reflexivity | exact HJ])].
      apply (J_drop st g st' _ (g_rcvd g ++ inq st) (outq st) []); [| | reflexivity | reflexivity | exact HJ].
      * unfold kept. rewrite app_nil_r, app_assoc. reflexivity.
      * unfold kept. cbn [g_rcvd]. rewrite IN, OUT, SQ. cbn. rewrite app_assoc. reflexivity.
  - (* an API call on the receiver's controller *)
    assert (EY : get_side st' Yside = c') by apply get_set_side_same.
    assert (EX : get_side st' X = get_side st X) by (apply get_side_set_other; intro E; apply Y_ne_X; auto).
    assert (OUT : outq st' = outq st) by (unfold outq; rewrite EX; auto).
    destruct C as (_ & C2 & _).
    pose proof (rq_after_lstep (get_side st Yside) lo c' res r (wf2_side st Yside W) L (fun sk G => proj1 (C2 sk G))) as RQ.
    assert (IN : inq st' = filter from_s (rq c' r)) by (unfold inq; rewrite EY; auto).
    assert (KS : rq c' r = rq (get_side st Yside) r -> forall g', g_rcvd g' = g_rcvd g -> kept st' g' = kept st g).
    { intros E g' R. unfold kept. rewrite IN, OUT, E, R. reflexivity. }
    pose proof (side_eqb_refl Yside) as SY. destruct (side_eqb_other X) as [SXY SYX]. fold Yside in SXY, SYX.
    destruct lo; try (rewrite gupd_other by (intros; discriminate); (apply (J_same st g); [apply KS; [exact RQ | reflexivity] | reflexivity | reflexivity | exact HJ])).
    + (* sendto on the receiver's side *)
      assert (E : rq c' r = rq (get_side st Yside) r) by (destruct res as [[]| | |]; auto).
      destruct res as [[]| | |]; try (cbn [gupd]; (apply (J_same st g); [apply KS; [exact E | reflexivity] | reflexivity | reflexivity | exact HJ])).
      match goal with bb : bool |- _ => destruct bb end; cbn [gupd]; [rewrite SYX; cbn [andb]|]; (apply (J_same st g); [apply KS; [exact E | reflexivity] | reflexivity | reflexivity | exact HJ]).
    + (* recvfrom *)
      destruct res as [[]| | |]; try (cbn [gupd]; (apply (J_same st g); [apply KS; [exact RQ | reflexivity] | reflexivity | reflexivity | exact HJ])).
      cbn [gupd]. rewrite SY. cbn [andb]. destruct (Nat.eqb i0 r) eqn:EI; [|cbn [andb]; (apply (J_same st g); [apply KS; [exact RQ | reflexivity] | reflexivity | reflexivity | exact HJ])].
      cbn [andb]. destruct RQ as (d & RQ).
      (* the datagram at the head of the queue is addressed to a *)
      assert (d = a).
      { unfold rq in RQ. destruct (get_sock (get_side st Yside) r) as [sr|] eqn:G; [|discriminate].
        destruct (C2 sr eq_refl) as [Ty AD].
        destruct (wf_ldl_rq _ (wf2_side st Yside W) r sr (PUI d ssap data) G Ty) as (d0 & s0 & dt & E & A0); [rewrite RQ; left; auto|].
        inversion E as [[E1 E2 E3]]. destruct AD; congruence. }
      subst d. destruct (ssap =? s) eqn:ES.
      * assert (ssap = s) by lia. subst ssap. apply (J_same st g); [| reflexivity | reflexivity | exact HJ].
        unfold kept. cbn [g_rcvd]. rewrite IN, OUT. unfold inq. rewrite RQ. cbn [filter from_s]. rewrite Z.eqb_refl.
        rewrite <- !app_assoc. reflexivity.
      * apply (J_same st g); [| reflexivity | reflexivity | exact HJ]. unfold kept. rewrite IN, OUT. unfold inq. rewrite RQ. cbn [filter from_s]. rewrite ES. reflexivity.
    + (* close *)
      destruct res as [[]| | |]; try (cbn [gupd]; (apply (J_same st g); [apply KS; [exact RQ | reflexivity] | reflexivity | reflexivity | exact HJ])).
      cbn [gupd]. rewrite SYX, SY. cbn [andb]. destruct (Nat.eqb i0 r) eqn:EI; [|(apply (J_same st g); [apply KS; [exact RQ | reflexivity] | reflexivity | reflexivity | exact HJ])].
      apply (J_drop st g st' _ (g_rcvd g) (inq st) (outq st)); [reflexivity | | reflexivity | reflexivity | exact HJ].
      unfold kept. cbn [g_rcvd]. rewrite IN, OUT, RQ. reflexivity.
Qed.

Lemma other_Y : other Yside = X. Proof. unfold Yside. destruct X; reflexivity. Qed.

(* queues of i / r across collect and dispatch *)
Lemma sq_collect c a' miu p c1 k : wf c -> collect1 c a' miu = Some (p, c1) ->
  (forall sk, get_sock c k = Some sk -> s_type sk = TLdl) ->
  (sq c1 k = sq c k /\ rq c1 k = rq c k) \/
  (exists sk rest, get_sock c k = Some sk /\ sq c k = p :: rest /\ sq c1 k = rest /\ rq c1 k = rq c k /\ s_addr sk = Some a').
Proof.
  intros W C TY. destruct (collect_ldl _ _ _ _ _ W C) as [A B]. unfold sq, rq.
  destruct (get_sock c k) as [sk|] eqn:G; [|rewrite (B k G); auto].
  destruct (A k sk G (TY sk eq_refl)) as [E|(rest & Q & E & AD)]; rewrite E; [auto|].
  right. exists sk, rest. cbn. auto.
Qed.
Lemma rq_dispatch c p c2 r0 k : wf c -> dispatch c p = (c2, r0) ->
  (forall sk, get_sock c k = Some sk -> s_type sk = TLdl) ->
  (rq c2 k = rq c k /\ sq c2 k = sq c k) \/
  (exists sk, get_sock c k = Some sk /\ rq c2 k = rq c k ++ [p] /\ sq c2 k = sq c k /\ is_ui p = true /\ s_addr sk = Some (pdu_dsap p)).
Proof.
  intros W D TY. destruct (dispatch_ldl _ _ _ _ W D) as [A B]. unfold sq, rq.
  destruct (get_sock c k) as [sk|] eqn:G; [|rewrite (B k G); auto].
  destruct (A k sk G (TY sk eq_refl)) as [[E _]|(U & AD & E & _)]; rewrite E; [auto|].
  right. exists sk. cbn. auto.
Qed.

Lemma J_step_xfer st from a' miu st' res g : wf2 st -> compat st ->
  step st (XXfer from a' miu) = (st', res) -> J st g -> J st' (gupd st st' (XXfer from a' miu) res g).
Proof.
  intros W C S HJ. cbn [step] in S.
  destruct (collect1 (get_side st from) a' miu) as [[p c1]|] eqn:CO; [|inversion S; subst; exact HJ].
  destruct (dispatch (get_side (set_side st from c1) (other from)) p) as [c2 r0] eqn:D.
  injection S as S1 S2. subst st' res. set (st' := set_side (set_side st from c1) (other from) c2).
  pose proof (side_eqb_refl X) as SX. destruct (side_eqb_other X) as [SXY SYX]. fold Yside in SXY, SYX.
  destruct C as (C1 & C2 & C3 & C4 & C5).
  destruct (side_cases from) as [->| ->].
  - (* towards the receiver *)
    fold Yside in *. rewrite (get_side_set_other st X c1 Yside Y_ne_X) in D.
    assert (EX : get_side st' X = c1).
    { unfold st'. rewrite get_side_set_other by (intro E; apply Y_ne_X; auto). apply get_set_side_same. }
    assert (EY : get_side st' Yside = c2) by (unfold st'; apply get_set_side_same).
    pose proof (wf2_side st X W) as WX. pose proof (wf2_side st Yside W) as WY.
    pose proof (sq_collect _ _ _ _ _ i WX CO (fun sk G => proj1 (C1 sk G))) as QS.
    pose proof (rq_dispatch _ _ _ _ r WY D (fun sk G => proj1 (C2 sk G))) as QR.
    assert (OUT : outq st' = filter to_a (sq c1 i)) by (unfold outq; rewrite EX; auto).
    assert (IN : inq st' = filter from_s (rq c2 r)) by (unfold inq; rewrite EY; auto).
    assert (LEN : rq (get_side st' Yside) r = rq c2 r) by (rewrite EY; auto).
    destruct (to_a p && from_s p) eqn:P.
    + (* a datagram from s for a *)
      apply andb_true_iff in P. destruct P as [PA PS].
      destruct p as [d ss data| | | | | |]; try discriminate. cbn in PA, PS. assert (d = a) by lia. assert (ss = s) by lia. subst d ss.
      destruct (collect_ui_origin _ _ _ _ _ _ _ WX C5 CO) as (k & sk & rest & Gk & Tk & Ak & Qk & Gk').
      assert (k = i) by (eapply C3; eauto). subst k.
      assert (SQ0 : sq (get_side st X) i = PUI a s data :: rest) by (unfold sq; rewrite Gk; auto).
      assert (SQ1 : sq c1 i = rest) by (unfold sq; rewrite Gk'; auto).
      assert (ND : forall j sj, listed (get_side st Yside) a j -> get_sock (get_side st Yside) j = Some sj -> s_type sj <> TDlc).
      { intros j sj Lj Gj. destruct (wf_listed_addr _ WY a j Lj) as (s0 & G0 & A0). rewrite Gj in G0. inversion G0; subst s0.
        assert (j = r) by (eapply C4; eauto). subst j. destruct (C2 sj Gj) as [T _]. congruence. }
      destruct (dispatch_ui_ok _ _ _ _ _ _ WY ND D) as (evs & ->).
      cbn [gupd]. rewrite SX. cbn [to_a from_s andb]. rewrite !Z.eqb_refl. cbn [andb]. rewrite LEN.
      assert (KEPT : kept st g = (g_rcvd g ++ inq st) ++ [PUI a s data] ++ filter to_a rest).
      { unfold kept, outq. rewrite SQ0. cbn [filter to_a]. rewrite Z.eqb_refl. rewrite <- app_assoc. reflexivity. }
      destruct QR as [[R _]|(sr & Gr & R & _ & _ & _)]; rewrite R.
      * rewrite Nat.eqb_refl.
        apply (J_drop st g st' _ (g_rcvd g ++ inq st) [PUI a s data] (filter to_a rest)); [exact KEPT | | reflexivity | reflexivity | exact HJ].
        unfold kept. cbn [g_rcvd]. rewrite IN, OUT, R, SQ1. rewrite <- app_assoc. reflexivity.
      * rewrite app_length. cbn [length]. replace (Nat.eqb (length (rq (get_side st Yside) r) + 1) (length (rq (get_side st Yside) r))) with false
          by (symmetry; apply Nat.eqb_neq; lia).
        apply (J_same st g); [| reflexivity | reflexivity | exact HJ].
        rewrite KEPT. unfold kept. rewrite IN, OUT, R, SQ1, filter_app_single. cbn [from_s]. rewrite Z.eqb_refl.
        unfold inq. rewrite <- !app_assoc. reflexivity.
    + (* anything else leaves the pipe from i to r alone *)
      match goal with |- J _ (gupd _ _ _ ?rr _) => assert (G0 : gupd st st' (XXfer X a' miu) rr g = g) end.
      { destruct r0; try reflexivity. cbn [gupd]. rewrite SX. cbn [andb]. rewrite P. reflexivity. }
      rewrite G0. apply (J_same st g); [| reflexivity | reflexivity | exact HJ].
      unfold kept. rewrite IN, OUT. f_equal. f_equal.
      * (* inq *)
        destruct QR as [[R _]|(sr & Gr & R & _ & U & AD)]; rewrite R; [reflexivity|].
        rewrite filter_app_single. destruct (C2 sr Gr) as [_ [N|A]]; [congruence|].
        destruct p; try discriminate. cbn [pdu_dsap] in AD. assert (d = a) by congruence. subst d.
        cbn [to_a from_s] in *. rewrite Z.eqb_refl in P. cbn in P. rewrite P. apply app_nil_r.
      * (* outq *)
        destruct QS as [[Q _]|(sk & rest & Gk & Q0 & Q1 & _ & AD)]; [rewrite Q; reflexivity|].
        unfold outq. rewrite Q0, Q1. cbn [filter].
        assert (U : ui_src (s_addr sk) p).
        { eapply (wf_ldl_sq _ WX i sk); eauto; [apply (C1 sk Gk) | unfold sq in Q0; rewrite Gk in Q0; rewrite Q0; left; auto]. }
        destruct U as (d0 & dt & a0 & -> & A0). destruct (C1 sk Gk) as [_ [N|A]]; [congruence|].
        assert (a0 = s) by congruence. subst a0. cbn [to_a from_s] in *. rewrite Z.eqb_refl, andb_true_r in P. rewrite P. reflexivity.
  - (* towards the sender: nothing of the pipe moves *)
    rewrite other_Y in *. rewrite (get_side_set_other st Yside c1 X) in D by (intro E; apply Y_ne_X; auto).
    assert (EY : get_side st' Yside = c1).
    { unfold st'. rewrite other_Y. rewrite get_side_set_other by apply Y_ne_X. apply get_set_side_same. }
    assert (EX : get_side st' X = c2) by (unfold st'; rewrite other_Y; apply get_set_side_same).
    pose proof (wf2_side st X W) as WX. pose proof (wf2_side st Yside W) as WY.
    match goal with |- J _ (gupd _ _ _ ?rr _) => assert (G0 : gupd st st' (XXfer Yside a' miu) rr g = g) end.
    { destruct r0; try reflexivity. cbn [gupd]. rewrite SYX. reflexivity. }
    rewrite G0. apply (J_same st g); [| reflexivity | reflexivity | exact HJ].
    unfold kept, inq, outq. rewrite EX, EY.
    assert (R : rq c1 r = rq (get_side st Yside) r).
    { destruct (sq_collect _ _ _ _ _ r WY CO (fun sk G => proj1 (C2 sk G))) as [[_ R]|(sk & rest & _ & _ & _ & R & _)]; auto. }
    assert (Q : sq c2 i = sq (get_side st X) i).
    { destruct (rq_dispatch _ _ _ _ i WX D (fun sk G => proj1 (C1 sk G))) as [[_ Q]|(sk & _ & _ & Q & _)]; auto. }
    rewrite R, Q. reflexivity.
Qed.

Theorem dgram_invariant blk ops : compat (exec blk ops) -> J (exec blk ops) (snd (grun blk ops)).
Proof.
  induction ops as [|o ops IH] using rev_ind; intro C.
  - assert (N : forall sd k, get_sock (get_side (init_sys blk) sd) k = None) by (intros [] []; reflexivity).
    assert (K : kept (init_sys blk) (mkG [] [] []) = []) by (unfold kept, inq, outq, sq, rq; rewrite !N; reflexivity).
    unfold J. change (exec blk []) with (init_sys blk). change (snd (grun blk [])) with (mkG [] [] []). rewrite K. split; [apply sub_nil | apply perm_nil].
  - rewrite exec_app in *. rewrite grun_app. unfold grun_step. rewrite grun_exec.
    pose proof (exec_wf2 blk ops) as W.
    pose proof (compat_back _ _ W C) as C0. specialize (IH C0).
    destruct (step (exec blk ops) o) as [st' res] eqn:S. cbn [fst snd] in *.
    destruct o as [sd lo|from a' miu].
    + cbn [step] in S. destruct (lstep (get_side (exec blk ops) sd) lo) as [c' r0] eqn:L. inversion S; subst st' res.
      apply J_step_loc; auto.
    + apply J_step_xfer; auto.
Qed.
End Dgram.

Lemma sub_length {A} (l1 l2 : list A) : sub l1 l2 -> (length l1 <= length l2)%nat.
Proof. induction 1; cbn; lia. Qed.
Lemma sub_same_length {A} (l1 l2 : list A) : sub l1 l2 -> length l1 = length l2 -> l1 = l2.
Proof. induction 1; cbn; intro E; auto.
  - apply sub_length in H. lia.
  - f_equal. apply IHsub. lia. Qed.
Lemma sub_app_l {A} (l1 l2 l : list A) : sub (l1 ++ l2) l -> sub l1 l.
Proof. intro H. eapply sub_trans; [|exact H]. rewrite <- (app_nil_r l1) at 1. apply sub_app; [apply sub_refl | apply sub_nil_l]. Qed.

(* ================================================================ datagram_exact, end to end *)
(* For sender socket i of controller X and receiver socket r of the peer controller, under the guard [compat]
   (at the end of the history: i and r are datagram sockets, unbound or bound at s resp. a; no other socket of X is
   bound at s and no other socket of the peer at a, i.e. the two addresses are not reused; X has no raw access point):
     Rcvd ++ (datagrams from s in the receive queue of r) ++ (datagrams for a in the send queue of i)
   is an order-preserving sub-list of Sent, and Sent is a permutation of that list plus Dropped.  So what recvfrom
   returned is, in order, what sendto accepted, minus what is still queued and minus what one of the three rules
   discarded; nothing else is lost, nothing is duplicated, nothing is altered. *)
Theorem datagram_end_to_end X i r s a blk ops :
  compat X i r s a (exec blk ops) ->
  let g := snd (grun X i r s a blk ops) in
  let st := exec blk ops in
  let kept := g_rcvd g ++ inq X r s st ++ outq X i a st in
  sub kept (g_sent g) /\ Permutation (g_sent g) (kept ++ g_drop g).
Proof. intro C. exact (dgram_invariant X i r s a blk ops C). Qed.

Corollary datagram_received_in_order X i r s a blk ops :
  compat X i r s a (exec blk ops) -> sub (g_rcvd (snd (grun X i r s a blk ops))) (g_sent (snd (grun X i r s a blk ops))).
Proof. intro C. destruct (datagram_end_to_end X i r s a blk ops C) as [S _]. eapply sub_app_l; eauto. Qed.

Corollary datagram_all_received X i r s a blk ops :
  compat X i r s a (exec blk ops) ->
  let g := snd (grun X i r s a blk ops) in
  g_drop g = [] -> inq X r s (exec blk ops) = [] -> outq X i a (exec blk ops) = [] -> g_rcvd g = g_sent g.
Proof.
  intros C g D I O. destruct (datagram_end_to_end X i r s a blk ops C) as [S P]. fold g in S, P.
  rewrite D, I, O, !app_nil_r in *. apply sub_same_length; auto. symmetry. apply Permutation_length. auto.
Qed.
