(* C09 - facts about ONE lock-hold segment of the repaired code (variant Fixed).
   These are the semantic counterparts of the WaitCheck conditions of DESIGN.md 6.2:
   (i)   a wait() is only reached after a guard that is false in the closed state was evaluated
         in the same hold                                              -> seg_wait_open
   (ii)  a segment that moves the socket to SHUTDOWN notifies every condition of the object
                                                                        -> seg_shut_notifies
   (iii) after a wake-up the guard is re-evaluated or the call ends   -> seg_dead_* (no wait when closed) *)
From Coq Require Import ZArith List Bool Arith Lia.
From NV Require Import Base.Result Model.LlcLife.
Import ListNotations.

Definition live (x : sstate) : bool :=
  match x with LISTEN | CONNECT | ESTABLISHED | DISCONNECT | CLOSE_WAIT => true | _ => false end.

(* points that are only reached when the socket is (or has been) in the table *)
Definition ptab (p : point) (k : kind) : bool :=
  match p with
  | PRecv1 | PRecv2 | PPoll1 _ | PPoll2 _ | PSend0b _ | PSend2 | PSend3 | PAcc2 | PConn1 | PConn2 | PLis1
  | PClose3 _ | PRes1 | PRes2 => true
  | PSend1 _ => negb (kind_eqb k DLC)
  | _ => false
  end.

Definition rank (p : point) : nat :=
  match p with
  | PSend0 _ => 4 | PSendBind _ => 3 | PSend0b _ => 2 | PSend1 _ => 1 | PSend2 => 1 | PSend3 => 1
  | PRecv0 => 2 | PRecv1 => 1 | PRecv2 => 1
  | PPoll0 _ => 2 | PPoll1 _ => 1 | PPoll2 _ => 1
  | PAcc1 => 3 | PAcc2 => 3 | PAcc3 _ => 2 | PAcc4 => 1
  | PConn0 => 3 | PConnBind => 2 | PConn1 => 1 | PConn2 => 1
  | PLis0 => 3 | PLisBind => 2 | PLis1 => 1
  | PBind0 => 2 | PBind1 => 1
  | PClose0 => 4 | PClose2 _ => 3 | PClose3 _ => 3 | PClose4 => 1
  | PRes0 => 2 | PRes1 => 1 | PRes2 => 1
  end.

Ltac dm :=
  repeat (cbn [o_act o_sock o_nall];
          match goal with
          | |- context [match ?x with _ => _ end] =>
              lazymatch x with
              | context [match _ with _ => _ end] => fail
              | _ => destruct x eqn:?
              end
          end);
  cbn [o_act o_sock o_nall].

Ltac brk := unfold seg, recv_tail, dlc_recv_item, accept_item, connect_item, close_tail, dlc_send_body, out,
  is_shut, est_or_cw, is_est, eret in *.

(* the segment never changes the kind *)
Lemma seg_kd v p s tm orc : kd (o_sock (seg v p s tm orc)) = kd s.
Proof. destruct s as [k x b i tb q n rb sb sl ak sv]. brk. cbn [kd st bound intab tabled rq sq rbuf sbuf slots acks srv].
  destruct p; dm; reflexivity. Qed.

Lemma seg_tabled v p s tm orc : tabled s = true -> tabled (o_sock (seg v p s tm orc)) = true.
Proof. destruct s as [k x b i tb q n rb sb sl ak sv]. brk. cbn [kd st bound intab tabled rq sq rbuf sbuf slots acks srv].
  intro; subst tb. destruct p; dm; reflexivity. Qed.

(* (i) guard in the same hold: a thread that starts to wait leaves the socket open *)
Lemma seg_wait_open p s tm orc c q :
  o_act (seg Fixed p s tm orc) = AWait c q -> st (o_sock (seg Fixed p s tm orc)) <> SHUTDOWN.
Proof. destruct s as [k x b i tb q0 n rb sb sl ak sv]. brk. cbn [kd st bound intab tabled rq sq rbuf sbuf slots acks srv].
  destruct p; dm; cbn; try discriminate; intros _; destruct x; cbn in *; discriminate. Qed.

(* the condition waited on is one of the conditions close() notifies for this kind of object *)
Lemma seg_wait_cond p s tm orc c q :
  pk p (kd s) = true -> o_act (seg Fixed p s tm orc) = AWait c q -> In c (close_conds (kd s)).
Proof. destruct s as [k x b i tb q0 n rb sb sl ak sv]. brk. cbn [kd st bound intab tabled rq sq rbuf sbuf slots acks srv].
  destruct p; destruct k; cbn [pk kind_eqb negb orb]; try discriminate; intros _; dm; cbn; try discriminate;
    intro H; inversion H; subst; cbn; tauto. Qed.

Lemma seg_next_pk p s tm orc :
  pk p (kd s) = true ->
  match o_act (seg Fixed p s tm orc) with
  | AGoto q | AWait _ q => pk q (kd s) = true
  | _ => True
  end.
Proof. destruct s as [k x b i tb q0 n rb sb sl ak sv]. brk. cbn [kd st bound intab tabled rq sq rbuf sbuf slots acks srv].
  destruct p; destruct k; cbn [pk kind_eqb negb orb]; try discriminate; intros _; dm; cbn; auto. Qed.

(* (ii) a segment that shuts the socket down notifies every condition of the object *)
Lemma seg_shut_notifies p s tm orc :
  st s <> SHUTDOWN -> st (o_sock (seg Fixed p s tm orc)) = SHUTDOWN ->
  o_nall (seg Fixed p s tm orc) = close_conds (kd s).
Proof. destruct s as [k x b i tb q0 n rb sb sl ak sv]. brk. cbn [kd st bound intab tabled rq sq rbuf sbuf slots acks srv].
  intro Hn. destruct p; dm; cbn; intro H; try reflexivity; try congruence;
    try (destruct x; cbn in *; congruence). Qed.

(* SHUTDOWN is absorbing (for a DLC this needs the queue to be empty, which close() guarantees) *)
Lemma seg_absorb p s tm orc :
  st s = SHUTDOWN -> (kd s = DLC -> rq s = []) -> pk p (kd s) = true ->
  st (o_sock (seg Fixed p s tm orc)) = SHUTDOWN.
Proof. destruct s as [k x b i tb q0 n rb sb sl ak sv]. brk. cbn [kd st bound intab tabled rq sq rbuf sbuf slots acks srv].
  intros -> Hq. destruct p; destruct k; cbn [pk kind_eqb negb orb]; try discriminate; intros _;
    try (rewrite (Hq eq_refl)); cbn; dm; cbn; reflexivity. Qed.

(* waiting or continuing needs a socket that is known to the table *)
Section tabled_facts.
  Variables (p : point) (s : sock) (tm orc : bool).
  Hypothesis Hp : ptab p (kd s) = true -> tabled s = true.
  Hypothesis Hd : kd s = DLC -> live (st s) = true -> tabled s = true.
  Hypothesis Hs : kd s = SDP -> tabled s = true.
  Hypothesis Hu : tabled s = false -> bound s = false /\ intab s = false /\ rq s = [].
  Hypothesis Hk : pk p (kd s) = true.
  Let r := seg Fixed p s tm orc.

  Lemma seg_wait_tabled c q : o_act r = AWait c q -> tabled (o_sock r) = true.
  Proof. subst r. revert Hp Hd Hs Hu Hk. destruct s as [k x b i tb q0 n rb sb sl ak sv]. brk.
    cbn [kd st bound intab tabled rq sq rbuf sbuf slots acks srv].
    destruct tb; [intros; apply (seg_tabled Fixed p (mkSock k x b i true q0 n rb sb sl ak sv) tm orc eq_refl)|].
    intros Hp Hd Hs Hu Hk. destruct (Hu eq_refl) as (-> & -> & ->).
    destruct p; destruct k; cbn [pk kind_eqb negb orb ptab] in *; try discriminate;
      try (specialize (Hp eq_refl); discriminate); try (specialize (Hs eq_refl); discriminate);
      destruct x; cbn in *; try (specialize (Hd eq_refl eq_refl); discriminate); dm; cbn; try discriminate. Qed.

  Lemma seg_goto_ptab q : o_act r = AGoto q -> ptab q (kd s) = true -> tabled (o_sock r) = true.
  Proof. subst r. revert Hp Hd Hs Hu Hk. destruct s as [k x b i tb q0 n rb sb sl ak sv]. brk.
    cbn [kd st bound intab tabled rq sq rbuf sbuf slots acks srv].
    destruct tb; [intros; apply (seg_tabled Fixed p (mkSock k x b i true q0 n rb sb sl ak sv) tm orc eq_refl)|].
    intros Hp Hd Hs Hu Hk. destruct (Hu eq_refl) as (-> & -> & ->).
    destruct p; destruct k; cbn [pk kind_eqb negb orb ptab] in *; try discriminate;
      try (specialize (Hp eq_refl); discriminate); try (specialize (Hs eq_refl); discriminate);
      dm; cbn; intro H; inversion H; subst; cbn; try discriminate; auto. Qed.

  Lemma seg_dlc_live : kd s = DLC -> live (st (o_sock r)) = true -> tabled (o_sock r) = true.
  Proof. subst r. revert Hp Hd Hs Hu Hk. destruct s as [k x b i tb q0 n rb sb sl ak sv]. brk.
    cbn [kd st bound intab tabled rq sq rbuf sbuf slots acks srv].
    destruct tb; [intros; apply (seg_tabled Fixed p (mkSock k x b i true q0 n rb sb sl ak sv) tm orc eq_refl)|].
    intros Hp Hd Hs Hu Hk ->. destruct (Hu eq_refl) as (-> & -> & ->).
    destruct p; cbn [pk kind_eqb negb orb ptab] in *; try discriminate;
      try (specialize (Hp eq_refl); discriminate);
      destruct x; cbn in *; try (specialize (Hd eq_refl eq_refl); discriminate); dm; cbn; try discriminate; auto. Qed.

  Lemma seg_untabled : tabled (o_sock r) = false ->
    bound (o_sock r) = false /\ intab (o_sock r) = false /\ rq (o_sock r) = [].
  Proof. subst r. revert Hu. destruct s as [k x b i tb q0 n rb sb sl ak sv].
    cbn [kd st bound intab tabled rq sq rbuf sbuf slots acks srv].
    destruct tb.
    - intros _ H. rewrite (seg_tabled Fixed p (mkSock k x b i true q0 n rb sb sl ak sv) tm orc eq_refl) in H. discriminate.
    - brk. cbn [kd st bound intab tabled rq sq rbuf sbuf slots acks srv]. intros Hu. destruct (Hu eq_refl) as (-> & -> & ->). destruct p; dm; cbn; auto; discriminate. Qed.
End tabled_facts.

(* the table relation of one object: in the table, or shut down *)
Lemma seg_tab_rel p s tm orc :
  (p = PClose4 -> st s = SHUTDOWN) ->
  (kd s = DLC -> st s = SHUTDOWN -> rq s = []) -> pk p (kd s) = true ->
  (tabled s = true -> intab s = true \/ st s = SHUTDOWN) ->
  tabled (o_sock (seg Fixed p s tm orc)) = true ->
  intab (o_sock (seg Fixed p s tm orc)) = true \/ st (o_sock (seg Fixed p s tm orc)) = SHUTDOWN.
Proof. destruct s as [k x b i tb q0 n rb sb sl ak sv]. brk. cbn [kd st bound intab tabled rq sq rbuf sbuf slots acks srv].
  intros H4 Hq Hk Ht.
  destruct p; try (specialize (H4 eq_refl); subst x); destruct k; cbn [pk kind_eqb negb orb] in Hk; try discriminate;
    try specialize (Hq eq_refl); dm; cbn; intro H; subst; auto;
    try (destruct (Ht eq_refl) as [E|E]; subst; cbn in *; try discriminate; auto;
         try (specialize (Hq eq_refl); discriminate)). Qed.

(* same, while terminate() is closing exactly this object (it is out of the table but not yet shut) *)
Lemma seg_intab_false p s tm orc :
  intab s = false -> o_act (seg Fixed p s tm orc) <> AGoto PClose4 \/ True ->
  needs_llc_lock p = false -> intab (o_sock (seg Fixed p s tm orc)) = false.
Proof. destruct s as [k x b i tb q0 n rb sb sl ak sv]. brk. cbn [kd st bound intab tabled rq sq rbuf sbuf slots acks srv].
  intros -> _. destruct p; cbn; try discriminate; intros _; dm; reflexivity. Qed.

Lemma seg_goto_close4 p s tm orc :
  o_act (seg Fixed p s tm orc) = AGoto PClose4 -> st (o_sock (seg Fixed p s tm orc)) = SHUTDOWN.
Proof. destruct s as [k x b i tb q0 n rb sb sl ak sv]. brk. cbn [kd st bound intab tabled rq sq rbuf sbuf slots acks srv].
  destruct p; dm; cbn; try discriminate; auto. Qed.

Lemma seg_shutq p s tm orc :
  (kd s = DLC -> st s = SHUTDOWN -> rq s = []) -> pk p (kd s) = true ->
  kd s = DLC -> st (o_sock (seg Fixed p s tm orc)) = SHUTDOWN -> rq (o_sock (seg Fixed p s tm orc)) = [].
Proof. destruct s as [k x b i tb q0 n rb sb sl ak sv]. brk. cbn [kd st bound intab tabled rq sq rbuf sbuf slots acks srv].
  intros Hq Hk ->. specialize (Hq eq_refl).
  destruct p; cbn [pk kind_eqb negb orb] in *; try discriminate; dm; cbn; intro H; subst; auto; try discriminate;
    try (specialize (Hq eq_refl); congruence). Qed.

Lemma seg_alloc p s tm orc s' : o_act (seg Fixed p s tm orc) = AAlloc s' -> s' = client_sock.
Proof. destruct s as [k x b i tb q0 n rb sb sl ak sv]. brk. cbn [kd st bound intab tabled rq sq rbuf sbuf slots acks srv].
  destruct p; dm; cbn; try discriminate; intro H; inversion H; reflexivity. Qed.

Lemma seg_rank v p s tm orc q : o_act (seg v p s tm orc) = AGoto q -> rank q < rank p.
Proof. destruct s as [k x b i tb q0 n rb sb sl ak sv]. brk. cbn [kd st bound intab tabled rq sq rbuf sbuf slots acks srv].
  destruct p; dm; cbn; try discriminate; intro H; inversion H; subst; cbn; lia. Qed.

(* (iii) a closed socket: no segment waits, every result is a value or nfc.llcp.Error *)
Definition benign (a : act) : Prop :=
  match a with AWait _ _ => False | ARet r => good r = true | _ => True end.

Lemma seg_dead_shut p s orc :
  st s = SHUTDOWN -> intab s = false -> (kd s = DLC -> rq s = []) -> pk p (kd s) = true ->
  benign (o_act (seg Fixed p s true orc)).
Proof. destruct s as [k x b i tb q0 n rb sb sl ak sv]. brk. cbn [kd st bound intab tabled rq sq rbuf sbuf slots acks srv].
  intros -> -> Hq. destruct p; destruct k; cbn [pk kind_eqb negb orb]; try discriminate; intros _;
    try (rewrite (Hq eq_refl)); cbn; dm; cbn; auto. Qed.

Lemma seg_dead_fresh p s orc :
  tabled s = false -> bound s = false -> intab s = false -> rq s = [] ->
  (kd s = DLC -> live (st s) = false) -> ptab p (kd s) = false -> pk p (kd s) = true ->
  benign (o_act (seg Fixed p s true orc)).
Proof. destruct s as [k x b i tb q0 n rb sb sl ak sv]. brk. cbn [kd st bound intab tabled rq sq rbuf sbuf slots acks srv].
  intros -> -> -> -> Hl. destruct p; destruct k; cbn [pk kind_eqb negb orb ptab]; try discriminate; intros _ _;
    try (specialize (Hl eq_refl)); destruct x; cbn in *; try discriminate; dm; cbn; auto. Qed.

Lemma seg_wait_not_close4 v p s tm orc c q : o_act (seg v p s tm orc) = AWait c q -> q <> PClose4.
Proof. destruct s as [k x b i tb q0 n rb sb sl ak sv]. brk. cbn [kd st bound intab tabled rq sq rbuf sbuf slots acks srv].
  destruct p; dm; cbn; try discriminate; intro H; inversion H; subst; discriminate. Qed.

(* once llc.sap[1] is None nothing enters the table any more *)
Lemma seg_term_intab p s orc :
  intab s = false ->
  intab (o_sock (seg Fixed p s true orc)) = false /\ (forall s', o_act (seg Fixed p s true orc) <> AAlloc s').
Proof. destruct s as [k x b i tb q0 n rb sb sl ak sv]. brk. cbn [kd st bound intab tabled rq sq rbuf sbuf slots acks srv].
  intros ->. destruct p; dm; cbn; split; try reflexivity; intros; try discriminate; try (intro; discriminate);
    destruct cb; cbn in *; discriminate. Qed.

Lemma seg_sdp_tabled v p s tm orc : (kd s = SDP -> tabled s = true) ->
  kd (o_sock (seg v p s tm orc)) = SDP -> tabled (o_sock (seg v p s tm orc)) = true.
Proof. intros H E. rewrite seg_kd in E. apply seg_tabled; auto. Qed.

(* calls of the server loops (poll, recv, send, accept) on a closed socket end in nfc.llcp.Error *)
Definition srv_class (p : point) : bool :=
  match p with
  | PPoll0 _ | PPoll1 _ | PRecv0 | PRecv1 | PSend0 _ | PSendBind _ | PSend0b _ | PSend1 _ | PAcc1 | PAcc3 _ => true
  | _ => false
  end.
Definition is_llcp (r : res rv) : bool := match r with Err (LlcpError _) => true | _ => false end.
Definition srv_out (a : act) : Prop :=
  match a with AGoto q => srv_class q = true | ARet r => is_llcp r = true | _ => False end.

Lemma seg_srv_shut p s orc :
  st s = SHUTDOWN -> intab s = false -> (kd s = DLC -> rq s = []) -> pk p (kd s) = true -> srv_class p = true ->
  srv_out (o_act (seg Fixed p s true orc)).
Proof. destruct s as [k x b i tb q0 n rb sb sl ak sv]. brk. cbn [kd st bound intab tabled rq sq rbuf sbuf slots acks srv].
  intros -> -> Hq. destruct p; cbn [srv_class]; try discriminate; destruct k; cbn [pk kind_eqb negb orb]; try discriminate;
    intros _ _; try (rewrite (Hq eq_refl)); cbn; dm; cbn; auto;
    try (rewrite andb_false_r in *; discriminate). Qed.

Lemma seg_srv_fresh p s orc :
  tabled s = false -> bound s = false -> intab s = false -> rq s = [] ->
  (kd s = DLC -> live (st s) = false) -> ptab p (kd s) = false -> pk p (kd s) = true -> srv_class p = true ->
  srv_out (o_act (seg Fixed p s true orc)).
Proof. destruct s as [k x b i tb q0 n rb sb sl ak sv]. brk. cbn [kd st bound intab tabled rq sq rbuf sbuf slots acks srv].
  intros -> -> -> -> Hl. destruct p; cbn [srv_class]; try discriminate; destruct k; cbn [pk kind_eqb negb orb ptab]; try discriminate;
    intros _ _ _; try (specialize (Hl eq_refl)); destruct x; cbn in *; try discriminate; dm; cbn; auto;
    try (rewrite andb_false_r in *; discriminate). Qed.

Lemma seg_ret_not_sock v p s tm orc c : o_act (seg v p s tm orc) <> ARet (Ok (VSock c)).
Proof. destruct s as [k x b i tb q0 n rb sb sl ak sv]. brk. cbn [kd st bound intab tabled rq sq rbuf sbuf slots acks srv].
  destruct p; dm; cbn; discriminate. Qed.

Lemma rank_le4 p : rank p <= 4.
Proof. destruct p; cbn; lia. Qed.
Lemma rank_pos p : 1 <= rank p.
Proof. destruct p; cbn; lia. Qed.

(* ---- served sockets (accepted by a server loop, used by one serve thread) ------------------------- *)
Lemma seg_srv v p s tm orc : srv (o_sock (seg v p s tm orc)) = srv s.
Proof. destruct s as [k x b i tb q n rb sb sl ak sv]. brk. cbn [kd st bound intab tabled rq sq rbuf sbuf slots acks srv].
  destruct p; dm; reflexivity. Qed.

(* the socket is closed, or a data PDU is at the head of its queue and the state admits recv() *)
Definition ready (s : sock) : Prop := st s = SHUTDOWN \/ (est_or_cw s = true /\ exists r, rq s = II :: r).

(* poll('recv') on a DLC answers True only in that situation and does not change the socket *)
Lemma seg_poll_true e s tm orc p :
  (p = PPoll1 e \/ p = PPoll2 e) -> e = PollRecv -> kd s = DLC ->
  o_act (seg Fixed p s tm orc) = ARet (Ok (VBool true)) -> ready (o_sock (seg Fixed p s tm orc)).
Proof. destruct s as [k x b i tb q n rb sb sl ak sv]. brk. cbn [kd st bound intab tabled rq sq rbuf sbuf slots acks srv].
  intros [-> | ->] -> ->; dm; cbn; intro H; try discriminate; right; unfold est_or_cw; cbn;
    (split; [assumption|]); destruct i0; try discriminate; eexists; reflexivity. Qed.

(* the serve thread's poll: where it can be next *)
Lemma seg_poll_shape s tm orc p :
  (p = PPoll0 PollRecv \/ p = PPoll1 PollRecv \/ p = PPoll2 PollRecv) ->
  match o_act (seg Fixed p s tm orc) with
  | AGoto q => q = PPoll1 PollRecv
  | AWait c q => c = RecvReady /\ q = PPoll2 PollRecv
  | ARet _ => True
  | AAlloc _ => False
  end.
Proof. destruct s as [k x b i tb q n rb sb sl ak sv]. brk. cbn [kd st bound intab tabled rq sq rbuf sbuf slots acks srv].
  intros [-> | [-> | ->]]; dm; cbn; auto. Qed.

(* recv() on a ready DLC returns data or raises nfc.llcp.Error; it neither waits nor returns None *)
Lemma seg_recv_ready s tm orc p :
  (p = PRecv0 \/ p = PRecv1) -> kd s = DLC -> ready s ->
  match o_act (seg Fixed p s tm orc) with
  | AGoto q => q = PRecv1 /\ o_sock (seg Fixed p s tm orc) = s
  | ARet r => r = Ok VData \/ is_llcp r = true
  | _ => False
  end.
Proof. destruct s as [k x b i tb q n rb sb sl ak sv]. brk. unfold ready, est_or_cw.
  cbn [kd st bound intab tabled rq sq rbuf sbuf slots acks srv].
  intros [-> | ->] -> [-> | (He & r & ->)]; cbn; dm; cbn; auto; try (cbn in He; discriminate). Qed.
