(* C18 - connect(): trace measures, specifications of the primitives and of the three
   _xxx_connect blocks, structure of the main loop.  For ALL options and ALL oracle states. *)
From Coq Require Import ZArith List Bool Arith Lia.
From NV Require Import Model.Connect Proofs.ConnectSense.
Import ListNotations.

(* ------------------------------------------------------------------ monad inversion *)
Lemma bind_inv {A B} (m : M A) (f : A -> M B) s b l s2 :
  bind m f s = (b, l, s2) -> exists a l1 s1 l2, m s = (a, l1, s1) /\ f a s1 = (b, l2, s2) /\ l = l1 ++ l2.
Proof.
  unfold bind. destruct (m s) as [[a l1] s1]. destruct (f a s1) as [[b' l2] s2'] eqn:E. intro H. inversion H; subst.
  exists a, l1, s1, l2. auto.
Qed.
Lemma ret_inv {A} (a : A) s b l s2 : ret a s = (b, l, s2) -> b = a /\ l = [] /\ s2 = s.
Proof. unfold ret. intro H; inversion H; auto. Qed.
Lemma emit_inv e s b l s2 : emit e s = (b, l, s2) -> l = [e] /\ s2 = s.
Proof. unfold emit. intro H; inversion H; auto. Qed.

(* ------------------------------------------------------------------ measures on traces *)
Inductive cev := CStartup (b : blk) | CDiscover (b : blk) (v : cbval) | CConnect (b : blk) (v : cbval) | CRelease (b : blk) (v : cbval).
Definition cb_of (e : ev) : option cev :=
  match e with
  | EvStartup b _ => Some (CStartup b) | EvDiscover b _ v => Some (CDiscover b v)
  | EvConnect b _ v => Some (CConnect b v) | EvRelease b _ v => Some (CRelease b v)
  | _ => None
  end.
(* the callback invocations of a trace, in order (default callbacks included) *)
Fixpoint cbs (l : list ev) : list cev :=
  match l with [] => [] | e :: r => match cb_of e with Some c => c :: cbs r | None => cbs r end end.
Lemma cbs_app l1 l2 : cbs (l1 ++ l2) = cbs l1 ++ cbs l2.
Proof. induction l1 as [|e l1 IH]; cbn; [reflexivity|]. destruct (cb_of e); cbn; rewrite IH; reflexivity. Qed.

(* the documented reading of the result: the first event that decides it *)
Definition decisive (e : ev) : option (out rv) :=
  match e with
  | EvRaise x => Some (handle x)                                   (* terminated by an exception *)
  | EvConnect b _ v => if truthy v then None else Some (Ret (RObj b))   (* on-connect returned a false value *)
  | EvRelease _ _ _ => Some (Ret RTrue)                            (* activation and deactivation completed *)
  | _ => None
  end.
Fixpoint spec_scan (l : list ev) : option (out rv) :=
  match l with [] => None | e :: r => match decisive e with Some x => Some x | None => spec_scan r end end.
Lemma spec_scan_app l1 l2 : spec_scan (l1 ++ l2) = match spec_scan l1 with Some x => Some x | None => spec_scan l2 end.
Proof. induction l1 as [|e l1 IH]; cbn; [reflexivity|]. destruct (decisive e); auto. Qed.
Definition spec_result (l : list ev) : out rv := match spec_scan l with Some x => x | None => Ret RNone end.

(* a discovery / activation step is started *)
Definition starts (e : ev) : bool :=
  match e with EvMute | EvSense _ _ | EvListen _ | EvTagActivate _ | EvLlcActivate _ | EvEmulate _ => true | _ => false end.
Definition is_term_true (e : ev) : bool := match e with EvTerm true => true | _ => false end.
Fixpoint stops_b (seen : bool) (l : list ev) : bool :=
  match l with [] => true | e :: r => if seen && starts e then false else stops_b (seen || is_term_true e) r end.
Definition has_term_true (l : list ev) : bool := existsb is_term_true l.
Lemma stops_app : forall l1 seen l2, stops_b seen (l1 ++ l2) = stops_b seen l1 && stops_b (seen || has_term_true l1) l2.
Proof.
  induction l1 as [|e l1 IH]; intros seen l2; cbn.
  - rewrite orb_false_r. reflexivity.
  - destruct (seen && starts e); [reflexivity|]. rewrite IH. unfold has_term_true. rewrite orb_assoc. reflexivity.
Qed.
Lemma has_term_app l1 l2 : has_term_true (l1 ++ l2) = has_term_true l1 || has_term_true l2.
Proof. apply existsb_app. Qed.
Lemma stops_no_term : forall l, has_term_true l = false -> stops_b false l = true.
Proof.
  induction l as [|e l IH]; cbn; [reflexivity|]. intro H. apply orb_false_iff in H. destruct H as [H1 H2].
  rewrite H1. apply IH, H2.
Qed.

(* every on-connect that returned true is followed by its on-release before anything else; no other release *)
Definition blk_eqb (a b : blk) : bool :=
  match a, b with Rdwr, Rdwr | Llcp, Llcp | Card, Card => true | _, _ => false end.
Fixpoint held_after (h : option blk) (l : list cev) : option (option blk) :=
  match l with
  | [] => Some h
  | CStartup _ :: r | CDiscover _ _ :: r => match h with None => held_after None r | Some _ => None end
  | CConnect b v :: r => match h with None => held_after (if truthy v then Some b else None) r | Some _ => None end
  | CRelease b _ :: r => match h with Some b' => if blk_eqb b b' then held_after None r else None | None => None end
  end.
Lemma held_after_app : forall l1 h l2,
  held_after h (l1 ++ l2) = match held_after h l1 with Some h' => held_after h' l2 | None => None end.
Proof.
  induction l1 as [|c l1 IH]; intros h l2; cbn; [reflexivity|].
  destruct c; destruct h; try reflexivity; try apply IH.
  destruct (blk_eqb b b0); [apply IH | reflexivity].
Qed.

(* events that can only come from the segment of block b *)
Definition owned (b : blk) (e : ev) : bool :=
  match e with
  | EvStartup _ _ => false
  | EvDiscover b' _ _ | EvConnect b' _ _ | EvRelease b' _ _ => blk_eqb b b'
  | EvTerm _ | EvRaise _ => true
  | EvMute => match b with Llcp => false | _ => true end
  | EvSense _ _ | EvTagActivate _ | EvBeepOn | EvBeepOff | EvPresent => blk_eqb b Rdwr
  | EvLlcActivate _ | EvLlcRun => blk_eqb b Llcp
  | EvListen _ | EvEmulate _ | EvProcess | EvSendRsp => blk_eqb b Card
  | EvCmdTo _ | EvRspTo _ => false
  end.

(* callback pattern of one block segment; fin = the segment ends connect() *)
Definition seg_cbs (b : blk) (l : list cev) (fin : bool) : bool :=
  match l with
  | [] => true
  | [CDiscover b1 _] => blk_eqb b b1 && negb (blk_eqb b Llcp)
  | [CDiscover b1 v; CConnect b2 c] =>      (* c false: object returned; c true: exception in the hold phase *)
    fin && blk_eqb b b1 && blk_eqb b b2 && negb (blk_eqb b Llcp) && truthy v
  | [CDiscover b1 v; CConnect b2 c; CRelease b3 _] =>
    fin && blk_eqb b b1 && blk_eqb b b2 && blk_eqb b b3 && negb (blk_eqb b Llcp) && truthy v && truthy c
  | [CConnect b1 c] => fin && blk_eqb b b1 && blk_eqb b Llcp
  | [CConnect b1 c; CRelease b2 _] => fin && blk_eqb b b1 && blk_eqb b b2 && blk_eqb b Llcp && truthy c
  | _ => false
  end.

(* ------------------------------------------------------------------ classes of neutral events *)
Definition neutral (e : ev) : bool :=
  match cb_of e, decisive e with None, None => true | _, _ => false end.
Definition quiet (e : ev) : bool := negb (starts e).
Definition noterm (e : ev) : bool := negb (is_term_true e).

Lemma forallb_impl {A} (P Q : A -> bool) l : (forall x, P x = true -> Q x = true) -> forallb P l = true -> forallb Q l = true.
Proof. intros H. induction l as [|x l IH]; cbn; [auto|]. intro E. apply andb_true_iff in E. destruct E as [E1 E2]. rewrite (H _ E1), (IH E2). reflexivity. Qed.

Lemma neutral_cbs l : forallb neutral l = true -> cbs l = [].
Proof. induction l as [|e l IH]; cbn; [auto|]. intro E. apply andb_true_iff in E. destruct E as [E1 E2].
  unfold neutral in E1. destruct (cb_of e); [discriminate|]. auto. Qed.
Lemma neutral_scan l : forallb neutral l = true -> spec_scan l = None.
Proof. induction l as [|e l IH]; cbn; [auto|]. intro E. apply andb_true_iff in E. destruct E as [E1 E2].
  unfold neutral in E1. destruct (cb_of e); [discriminate|]. destruct (decisive e); [discriminate|]. auto. Qed.
Lemma quiet_stops l : forallb quiet l = true -> forall seen, stops_b seen l = true.
Proof. induction l as [|e l IH]; cbn; [auto|]. intros E seen. apply andb_true_iff in E. destruct E as [E1 E2].
  unfold quiet in E1. apply negb_true_iff in E1. rewrite E1, andb_false_r. auto. Qed.
Lemma noterm_has l : forallb noterm l = true -> has_term_true l = false.
Proof. induction l as [|e l IH]; cbn; [auto|]. intro E. apply andb_true_iff in E. destruct E as [E1 E2].
  unfold noterm in E1. apply negb_true_iff in E1. rewrite E1. auto. Qed.

(* classes *)
Definition listen_ev (e : ev) : bool := match e with EvMute | EvListen _ => true | _ => false end.
Definition pres_ev (e : ev) : bool := match e with EvTerm _ | EvPresent => true | _ => false end.
Definition card_ev (e : ev) : bool := match e with EvTerm _ | EvSendRsp | EvProcess => true | _ => false end.
Definition poll_ev (e : ev) : bool := match e with EvTerm _ => true | _ => false end.

(* facts used for a sub-log of discovery events (sense / listen): contains no terminate poll *)
Record disc_facts (b : blk) (l : list ev) : Prop := {
  df_cbs : cbs l = []; df_scan : spec_scan l = None; df_noterm : has_term_true l = false;
  df_stops : stops_b false l = true; df_owned : forallb (owned b) l = true }.
(* facts used for a sub-log of hold-phase events: starts nothing *)
Record hold_facts (b : blk) (l : list ev) : Prop := {
  hf_cbs : cbs l = []; hf_scan : spec_scan l = None;
  hf_stops : forall seen, stops_b seen l = true; hf_owned : forallb (owned b) l = true }.

Lemma sense_disc l : forallb sense_ev l = true -> disc_facts Rdwr l.
Proof.
  intro H. assert (Hn : forallb neutral l = true) by (eapply forallb_impl; [|exact H]; intros []; cbn; congruence).
  assert (Ht : has_term_true l = false) by (apply noterm_has; eapply forallb_impl; [|exact H]; intros []; cbn; congruence).
  constructor; auto using neutral_cbs, neutral_scan, stops_no_term.
  eapply forallb_impl; [|exact H]; intros []; cbn; congruence.
Qed.
Lemma listen_disc l : forallb listen_ev l = true -> disc_facts Card l.
Proof.
  intro H. assert (Hn : forallb neutral l = true) by (eapply forallb_impl; [|exact H]; intros []; cbn; congruence).
  assert (Ht : has_term_true l = false) by (apply noterm_has; eapply forallb_impl; [|exact H]; intros []; cbn; congruence).
  constructor; auto using neutral_cbs, neutral_scan, stops_no_term.
  eapply forallb_impl; [|exact H]; intros []; cbn; congruence.
Qed.
Lemma pres_hold l : forallb pres_ev l = true -> hold_facts Rdwr l.
Proof.
  intro H. assert (Hn : forallb neutral l = true) by (eapply forallb_impl; [|exact H]; intros []; cbn; congruence).
  constructor; auto using neutral_cbs, neutral_scan.
  - apply quiet_stops. eapply forallb_impl; [|exact H]; intros []; cbn; congruence.
  - eapply forallb_impl; [|exact H]; intros []; cbn; congruence.
Qed.
Lemma card_hold l : forallb card_ev l = true -> hold_facts Card l.
Proof.
  intro H. assert (Hn : forallb neutral l = true) by (eapply forallb_impl; [|exact H]; intros []; cbn; congruence).
  constructor; auto using neutral_cbs, neutral_scan.
  - apply quiet_stops. eapply forallb_impl; [|exact H]; intros []; cbn; congruence.
  - eapply forallb_impl; [|exact H]; intros []; cbn; congruence.
Qed.
Lemma poll_hold l : forallb poll_ev l = true -> hold_facts Llcp l.
Proof.
  intro H. assert (Hn : forallb neutral l = true) by (eapply forallb_impl; [|exact H]; intros []; cbn; congruence).
  constructor; auto using neutral_cbs, neutral_scan.
  - apply quiet_stops. eapply forallb_impl; [|exact H]; intros []; cbn; congruence.
  - eapply forallb_impl; [|exact H]; intros []; cbn; congruence.
Qed.

(* ------------------------------------------------------------------ specifications of the primitives *)
Definition term_log (has v : bool) : list ev := if has then [EvTerm v] else [].
Lemma poll_term_inv has s v l s' : poll_term has s = (v, l, s') -> l = term_log has v /\ (has = false -> v = false).
Proof.
  unfold poll_term, term_log. destruct has.
  - destruct (hd_tl (s_term s) (s_termd s)) as [x r]. intro H; inversion H; subst. split; [reflexivity | discriminate].
  - intro H; inversion H; subst. auto.
Qed.
Lemma cb_value_inv user d s v l s' : cb_value user d s = (v, l, s') -> l = [].
Proof. unfold cb_value. destruct user; [destruct (hd_tl (s_cbs s) VTrue)|]; intro H; inversion H; reflexivity. Qed.
Lemma pop_tagact_inv s v l s' : pop_tagact s = (v, l, s') -> l = [].
Proof. unfold pop_tagact. destruct (hd_tl _ _). intro H; inversion H; reflexivity. Qed.
Lemma pop_present_inv s v l s' : pop_present s = (v, l, s') -> l = [].
Proof. unfold pop_present. destruct (hd_tl _ _). intro H; inversion H; reflexivity. Qed.
Lemma pop_llcact_inv s v l s' : pop_llcact s = (v, l, s') -> l = [].
Proof. unfold pop_llcact. destruct (hd_tl _ _). intro H; inversion H; reflexivity. Qed.
Lemma pop_llcrun_inv s v l s' : pop_llcrun s = (v, l, s') -> l = [].
Proof. unfold pop_llcrun. destruct (hd_tl _ _). intro H; inversion H; reflexivity. Qed.
Lemma pop_emulate_inv s v l s' : pop_emulate s = (v, l, s') -> l = [].
Proof. unfold pop_emulate. destruct (hd_tl _ _). intro H; inversion H; reflexivity. Qed.
Lemma pop_card_inv s v l s' : pop_card s = (v, l, s') -> l = [].
Proof. unfold pop_card. destruct (hd_tl _ _). intro H; inversion H; reflexivity. Qed.

Lemma do_sense_inv ts iters s r l s' : do_sense ts iters s = (r, l, s') ->
  r <> Hang /\ exists l0, disc_facts Rdwr l0 /\ l = l0 ++ out_tail r.
Proof.
  unfold do_sense. destruct (hd_tl (s_sense s) []) as [tb rest].
  destruct (sense true (s_ncall s) ts iters tb None) as [[res l1] st] eqn:E. intro H; inversion H; subst.
  destruct (sense_log _ _ _ _ _ _ _ _ _ E) as (Hh & l0 & H0 & ->). split; [exact Hh|].
  exists l0. split; [apply sense_disc, H0 | reflexivity].
Qed.

Lemma listen_log : forall dev n t o stored r l s',
  listen dev n t o stored = (r, l, s') ->
  r <> Hang /\ exists l0, forallb listen_ev l0 = true /\ l = l0 ++ out_tail r.
Proof.
  intros dev n t o stored r l s' H. unfold listen in H.
  destruct t; try (inversion H; subst; split; [discriminate|]; exists []; split; reflexivity);
    (destruct (negb dev); [inversion H; subst; split; [discriminate|]; exists []; split; reflexivity|]);
    cbn [listen_drv] in H;
    try (inversion H; subst; split; [discriminate|]; exists [EvMute]; split; reflexivity);
    destruct o; inversion H; subst; (split; [discriminate|]);
    first [ exists [EvMute; EvListen Tta]; split; reflexivity | exists [EvMute; EvListen Ttb]; split; reflexivity
          | exists [EvMute; EvListen Ttf]; split; reflexivity | exists [EvMute; EvListen Dep]; split; reflexivity ].
Qed.

Lemma do_listen_inv t s r l s' : do_listen t s = (r, l, s') ->
  r <> Hang /\ exists l0, disc_facts Card l0 /\ l = l0 ++ out_tail r.
Proof.
  unfold do_listen. destruct (listen_calls_driver t).
  - destruct (hd_tl (s_listen s) LNone) as [o rest].
    destruct (listen true (S (s_nlisten s)) t o None) as [[res l1] st] eqn:E. intro H; inversion H; subst.
    destruct (listen_log _ _ _ _ _ _ _ _ E) as (Hh & l0 & H0 & ->). split; [exact Hh|].
    exists l0. split; [apply listen_disc, H0 | reflexivity].
  - destruct (listen true (S (s_nlisten s)) t LNone None) as [[res l1] st] eqn:E. intro H; inversion H; subst.
    destruct (listen_log _ _ _ _ _ _ _ _ E) as (Hh & l0 & H0 & ->). split; [exact Hh|].
    exists l0. split; [apply listen_disc, H0 | reflexivity].
Qed.

Ltac lnorm := repeat rewrite app_nil_r; repeat rewrite <- app_assoc; cbn [app]; repeat rewrite app_nil_r.

Definition hold_tail (h : hold) : list ev := match h with HoldRaise e => [EvRaise e] | _ => [] end.
(* the hold loops are left only by IOError or KeyboardInterrupt *)
Definition hold_exn_ok (h : hold) : bool :=
  match h with HoldRaise XIOError | HoldRaise XKbd => true | HoldRaise _ => false | _ => true end.

Ltac minv_bind H a l1 s1 l2 H1 H2 :=
  apply bind_inv in H; destruct H as (a & l1 & s1 & l2 & H1 & H2 & ?).

Lemma presence_loop_inv : forall fuel has s h l s', presence_loop fuel has s = (h, l, s') ->
  exists l0, forallb pres_ev l0 = true /\ l = l0 ++ hold_tail h /\ hold_exn_ok h = true.
Proof.
  induction fuel as [|f IH]; intros has s h l s' H; cbn [presence_loop] in H.
  - apply ret_inv in H. destruct H as (-> & -> & _). exists []. repeat split; reflexivity.
  - minv_bind H t l1 s1 l2 H1 H2. subst l. apply poll_term_inv in H1. destruct H1 as [-> Ht].
    assert (Hp : forallb pres_ev (term_log has t) = true) by (unfold term_log; destruct has; reflexivity).
    destruct t.
    + apply ret_inv in H2. destruct H2 as (-> & -> & _). exists (term_log has true). split; [exact Hp | split; reflexivity].
    + minv_bind H2 u l3 s3 l4 H3 H4. subst l2. apply emit_inv in H3. destruct H3 as [-> ->].
      minv_bind H4 p l5 s5 l6 H5 H6. subst l4. apply pop_present_inv in H5. subst l5.
      destruct p.
      * apply IH in H6. destruct H6 as (l0 & H0 & -> & Hx). exists (term_log has false ++ [EvPresent] ++ l0).
        split; [rewrite !forallb_app, Hp, H0; reflexivity | split; [lnorm; reflexivity | exact Hx]].
      * apply ret_inv in H6. destruct H6 as (-> & -> & _). exists (term_log has false ++ [EvPresent]).
        split; [rewrite forallb_app, Hp; reflexivity | split; [lnorm; reflexivity | reflexivity]].
      * minv_bind H6 u2 l7 s7 l8 H7 H8. apply emit_inv in H7. destruct H7 as [-> ->]. apply ret_inv in H8.
        destruct H8 as (-> & -> & _). subst l6. exists (term_log has false ++ [EvPresent]).
        split; [rewrite forallb_app, Hp; reflexivity | split; [lnorm; reflexivity | reflexivity]].
      * minv_bind H6 u2 l7 s7 l8 H7 H8. apply emit_inv in H7. destruct H7 as [-> ->]. apply ret_inv in H8.
        destruct H8 as (-> & -> & _). subst l6. exists (term_log has false ++ [EvPresent]).
        split; [rewrite forallb_app, Hp; reflexivity | split; [lnorm; reflexivity | reflexivity]].
Qed.

Lemma card_loop_inv : forall fuel has s h l s', card_loop fuel has s = (h, l, s') ->
  exists l0, forallb card_ev l0 = true /\ l = l0 ++ hold_tail h /\ hold_exn_ok h = true.
Proof.
  induction fuel as [|f IH]; intros has s h l s' H; cbn [card_loop] in H.
  - apply ret_inv in H. destruct H as (-> & -> & _). exists []. repeat split; reflexivity.
  - minv_bind H t l1 s1 l2 H1 H2. subst l. apply poll_term_inv in H1. destruct H1 as [-> Ht].
    assert (Hp : forallb card_ev (term_log has t) = true) by (unfold term_log; destruct has; reflexivity).
    destruct t.
    + apply ret_inv in H2. destruct H2 as (-> & -> & _). exists (term_log has true). split; [exact Hp | split; reflexivity].
    + minv_bind H2 u l3 s3 l4 H3 H4. subst l2. apply emit_inv in H3. destruct H3 as [-> ->].
      minv_bind H4 p l5 s5 l6 H5 H6. subst l4. apply pop_card_inv in H5. subst l5.
      destruct p.
      * minv_bind H6 u2 l7 s7 l8 H7 H8. apply emit_inv in H7. destruct H7 as [-> ->]. subst l6.
        apply IH in H8. destruct H8 as (l0 & H0 & -> & Hx). exists (term_log has false ++ [EvSendRsp] ++ [EvProcess] ++ l0).
        split; [rewrite !forallb_app, Hp, H0; reflexivity | split; [lnorm; reflexivity | exact Hx]].
      * apply ret_inv in H6. destruct H6 as (-> & -> & _). exists (term_log has false ++ [EvSendRsp]).
        split; [rewrite forallb_app, Hp; reflexivity | split; [lnorm; reflexivity | reflexivity]].
      * apply IH in H6. destruct H6 as (l0 & H0 & -> & Hx). exists (term_log has false ++ [EvSendRsp] ++ l0).
        split; [rewrite !forallb_app, Hp, H0; reflexivity | split; [lnorm; reflexivity | exact Hx]].
      * minv_bind H6 u2 l7 s7 l8 H7 H8. apply emit_inv in H7. destruct H7 as [-> ->]. apply ret_inv in H8.
        destruct H8 as (-> & -> & _). subst l6. exists (term_log has false ++ [EvSendRsp]).
        split; [rewrite forallb_app, Hp; reflexivity | split; [lnorm; reflexivity | reflexivity]].
      * minv_bind H6 u2 l7 s7 l8 H7 H8. apply emit_inv in H7. destruct H7 as [-> ->]. apply ret_inv in H8.
        destruct H8 as (-> & -> & _). subst l6. exists (term_log has false ++ [EvSendRsp]).
        split; [rewrite forallb_app, Hp; reflexivity | split; [lnorm; reflexivity | reflexivity]].
Qed.

Lemma run_polls_inv : forall n has s b l s', run_polls n has s = (b, l, s') -> forallb poll_ev l = true.
Proof.
  induction n as [|n IH]; intros has s b l s' H; cbn [run_polls] in H.
  - apply ret_inv in H. destruct H as (_ & -> & _). reflexivity.
  - minv_bind H t l1 s1 l2 H1 H2. subst l. apply poll_term_inv in H1. destruct H1 as [-> Ht].
    assert (Hp : forallb poll_ev (term_log has t) = true) by (unfold term_log; destruct has; reflexivity).
    rewrite forallb_app, Hp. destruct t.
    + apply ret_inv in H2. destruct H2 as (_ & -> & _). reflexivity.
    + apply IH in H2. exact H2.
Qed.

(* ------------------------------------------------------------------ symbolic execution of monadic code *)
Ltac minv H :=
  lazymatch type of H with
  | bind _ _ _ = _ =>
    let a := fresh "a" in let l1 := fresh "l" in let s1 := fresh "s" in let l2 := fresh "l" in
    let H1 := fresh "H" in let H2 := fresh "H" in let E := fresh "E" in
    apply bind_inv in H; destruct H as (a & l1 & s1 & l2 & H1 & H2 & E); cbv beta zeta in H2;
    minv H1; minv H2
  | ret _ _ = _ => apply ret_inv in H; destruct H as (? & ? & ?)
  | emit _ _ = _ => apply emit_inv in H; destruct H as (? & ?)
  | poll_term _ _ = _ => apply poll_term_inv in H; destruct H as (? & ?)
  | cb_value _ _ _ = _ => apply cb_value_inv in H
  | pop_tagact _ = _ => apply pop_tagact_inv in H
  | pop_present _ = _ => apply pop_present_inv in H
  | pop_llcact _ = _ => apply pop_llcact_inv in H
  | pop_llcrun _ = _ => apply pop_llcrun_inv in H
  | pop_emulate _ = _ => apply pop_emulate_inv in H
  | pop_card _ = _ => apply pop_card_inv in H
  | do_sense _ _ _ = _ => apply do_sense_inv in H; destruct H as (? & ? & ? & ?)
  | do_listen _ _ = _ => apply do_listen_inv in H; destruct H as (? & ? & ? & ?)
  | presence_loop _ _ _ = _ => apply presence_loop_inv in H; destruct H as (? & ? & ? & ?)
  | card_loop _ _ _ = _ => apply card_loop_inv in H; destruct H as (? & ? & ? & ?)
  | run_polls _ _ _ = _ => apply run_polls_inv in H
  | (if ?c then _ else _) _ = _ => let E := fresh "E" in destruct c eqn:E; minv H
  | (match ?x with _ => _ end) _ = _ => let E := fresh "E" in destruct x eqn:E; minv H
  | _ => idtac
  end.

Definition res_of (r : bres) : option (out rv) :=
  match r with BNone => None | BRet v => Some (Ret v) | BRaise e => Some (handle e) | BHang => Some Hang end.
Definition is_fin (r : bres) : bool := match r with BNone => false | _ => true end.

(* callbacks balanced, or an on-connect(true) left pending by an exception in the hold phase *)
Definition held_ok (r : bres) (x : option (option blk)) : bool :=
  match x with
  | Some None => true
  | Some (Some _) => match r with BRaise XIOError | BRaise XKbd => true | _ => false end
  | None => false
  end.

Record block_ok (b : blk) (r : bres) (l : list ev) : Prop := {
  bo_owned : forallb (owned b) l = true;
  bo_cbs : seg_cbs b (cbs l) (is_fin r) = true;
  bo_scan : spec_scan l = res_of r;
  bo_stops : stops_b false l = true;
  bo_noterm : r = BNone -> has_term_true l = false;
  bo_held : held_ok r (held_after None (cbs l)) = true }.
Definition block_spec (b : blk) (r : bres) (l : list ev) : Prop := r <> BHang -> block_ok b r l.

Ltac use_facts :=
  repeat match goal with
  | H : disc_facts _ _ |- _ => destruct H
  | H : hold_facts _ _ |- _ => destruct H
  | H : forallb pres_ev _ = true |- _ => apply pres_hold in H
  | H : forallb card_ev _ = true |- _ => apply card_hold in H
  | H : forallb poll_ev _ = true |- _ => apply poll_hold in H
  | H : negb _ = true |- _ => apply negb_true_iff in H
  | H : negb _ = false |- _ => apply negb_false_iff in H
  end.

Ltac rw_hyps :=
  repeat match goal with
  | H : cbs ?x = [] |- context [cbs ?x] => rewrite H
  | H : spec_scan ?x = None |- context [spec_scan ?x] => rewrite H
  | H : has_term_true ?x = false |- context [has_term_true ?x] => rewrite H
  | H : stops_b false ?x = true |- context [stops_b false ?x] => rewrite H
  | H : forall seen, stops_b seen ?x = true |- context [stops_b _ ?x] => rewrite H
  | H : forallb (owned ?b) ?x = true |- context [forallb (owned ?b) ?x] => rewrite H
  | H : truthy ?v = _ |- context [truthy ?v] => rewrite H
  end.

Ltac simp_tr :=
  rewrite ?cbs_app, ?spec_scan_app, ?stops_app, ?has_term_app, ?forallb_app;
  cbn [cbs cb_of spec_scan decisive out_tail hold_tail app forallb owned blk_eqb has_term_true existsb is_term_true
       stops_b starts andb orb negb seg_cbs held_after held_ok is_fin res_of handle];
  rw_hyps;
  cbn [cbs cb_of spec_scan decisive out_tail hold_tail app forallb owned blk_eqb has_term_true existsb is_term_true
       stops_b starts andb orb negb seg_cbs held_after held_ok is_fin res_of handle].

Ltac block_tac :=
  subst; use_facts; let Hnh := fresh "Hnh" in intro Hnh; constructor;
  try (let Hr := fresh "Hr" in intro Hr; try discriminate Hr); repeat simp_tr; try reflexivity; try congruence;
  try (rewrite ?andb_false_r, ?orb_false_r; cbn; reflexivity);
  try (match goal with Hx : hold_exn_ok (HoldRaise ?e) = true |- _ => destruct e; cbn in Hx; try discriminate Hx; reflexivity end).

Lemma rdwr_connect_ok fuel has rr s r l s' :
  rdwr_connect fuel has rr s = (r, l, s') -> block_spec Rdwr r l.
Proof.
  unfold rdwr_connect, block_spec. intro H. minv H; block_tac.
Qed.

(* one pass of the role loop of _llcp_connect *)
Lemma llcp_role_ok has o m s x l s' :
  llcp_role has o m s = (x, l, s') -> block_spec Llcp (match x with Some b => b | None => BNone end) l.
Proof.
  unfold llcp_role, block_spec. intro H. minv H; block_tac.
Qed.

Lemma seg_cbs_llcp_cont l : seg_cbs Llcp l false = true -> l = [].
Proof.
  destruct l as [|c1 [|c2 [|c3 [|c4 l]]]]; cbn; try reflexivity; try discriminate;
    destruct c1; try discriminate; try (destruct b; discriminate);
    try (destruct c2; try discriminate; try (destruct c3; discriminate)).
Qed.

(* a segment that did not end connect(), followed by more of the same block *)
Lemma block_ok_app b r l1 l2 : cbs l1 = [] -> block_ok b BNone l1 -> block_ok b r l2 -> block_ok b r (l1 ++ l2).
Proof.
  intros Hc [o1 c1 sc1 st1 nt1 h1] [o2 c2 sc2 st2 nt2 h2]. specialize (nt1 eq_refl). cbn in sc1.
  constructor.
  - rewrite forallb_app, o1, o2. reflexivity.
  - rewrite cbs_app, Hc. exact c2.
  - rewrite spec_scan_app, sc1. exact sc2.
  - rewrite stops_app, st1, nt1. exact st2.
  - intro E. rewrite has_term_app, nt1, (nt2 E). reflexivity.
  - rewrite cbs_app, Hc. exact h2.
Qed.

Lemma llcp_connect_ok has o s r l s' : llcp_connect has o s = (r, l, s') -> block_spec Llcp r l.
Proof.
  unfold llcp_connect. intro H. minv_bind H x1 l1 s1 l2 H1 H2. subst l. apply llcp_role_ok in H1.
  destruct x1 as [b|].
  - apply ret_inv in H2. destruct H2 as (-> & -> & _). rewrite app_nil_r. exact H1.
  - minv_bind H2 x2 l3 s3 l4 H3 H4. subst l2. apply llcp_role_ok in H3.
    assert (Hr : r = match x2 with Some b => b | None => BNone end /\ l4 = []).
    { destruct x2; apply ret_inv in H4; destruct H4 as (-> & -> & _); auto. }
    destruct Hr as [-> ->]. rewrite app_nil_r. intro Hnh.
    assert (H1' : block_ok Llcp BNone l1) by (apply H1; discriminate).
    apply block_ok_app; auto. apply seg_cbs_llcp_cont. exact (bo_cbs _ _ _ H1').
Qed.

Lemma card_connect_ok fuel has cr s r l s' :
  card_connect fuel has cr s = (r, l, s') -> block_spec Card r l.
Proof.
  unfold card_connect, block_spec. intro H. minv H; block_tac.
Qed.

Lemma block_ok_nil b : block_ok b BNone [].
Proof. constructor; reflexivity. Qed.

Lemma run_block_ok b (m : option (M bres)) s r l s' :
  (forall f, m = Some f -> forall s r l s', f s = (r, l, s') -> block_spec b r l) ->
  run_block m s = (r, l, s') -> block_spec b r l.
Proof.
  intros Hf H. destruct m as [f|]; cbn in H.
  - eapply Hf; eauto.
  - apply ret_inv in H. destruct H as (-> & -> & _). intros _. apply block_ok_nil.
Qed.

(* ------------------------------------------------------------------ structure of the main loop *)
Definition final (r : bres) : out rv := match r with BRet v => Ret v | BRaise e => handle e | _ => Hang end.

Inductive mrounds (has : bool) : out rv -> list ev -> Prop :=
| MFuel : mrounds has Hang []
| MStop : mrounds has (Ret RNone) [EvTerm true]
| MRound : forall s1 s2 s3 r rest,
    block_ok Rdwr BNone s1 -> block_ok Llcp BNone s2 -> block_ok Card BNone s3 -> mrounds has r rest ->
    mrounds has r (term_log has false ++ s1 ++ s2 ++ s3 ++ rest)
| MFin1 : forall r1 s1, is_fin r1 = true -> block_spec Rdwr r1 s1 -> mrounds has (final r1) (term_log has false ++ s1)
| MFin2 : forall r2 s1 s2, is_fin r2 = true -> block_ok Rdwr BNone s1 -> block_spec Llcp r2 s2 ->
    mrounds has (final r2) (term_log has false ++ s1 ++ s2)
| MFin3 : forall r3 s1 s2 s3, is_fin r3 = true -> block_ok Rdwr BNone s1 -> block_ok Llcp BNone s2 -> block_spec Card r3 s3 ->
    mrounds has (final r3) (term_log has false ++ s1 ++ s2 ++ s3).

Lemma final_cases r x s l s' :
  (match r with BRet v => ret (Ret v) | BRaise e => ret (handle e) | BHang => ret Hang | BNone => x end) s = (l, s') ->
  is_fin r = true -> l = (final r, []) /\ s' = s.
Proof. destruct r; cbn; intros H E; try discriminate; unfold ret in H; inversion H; auto. Qed.

Lemma main_loop_mrounds inner has a : forall fuel s r l s',
  main_loop fuel inner has a s = (r, l, s') -> mrounds has r l.
Proof.
  induction fuel as [|f IH]; intros s r l s' H; cbn [main_loop] in H.
  - apply ret_inv in H. destruct H as (-> & -> & _). constructor.
  - minv_bind H t l1 s1 l2 H1 H2. subst l. apply poll_term_inv in H1. destruct H1 as [-> Ht].
    destruct t.
    { apply ret_inv in H2. destruct H2 as (-> & -> & _). destruct has; [|specialize (Ht eq_refl); discriminate].
      cbn. constructor. }
    minv_bind H2 r1 l3 s3 l4 H3 H4. subst l2.
    assert (B1 : block_spec Rdwr r1 l3).
    { eapply run_block_ok; [|exact H3]. intros f0 Ef. destruct (a_rdwr a); inversion Ef; subst.
      intros; eapply rdwr_connect_ok; eauto. }
    destruct (is_fin r1) eqn:F1.
    { destruct (final_cases _ _ _ _ _ H4 F1) as [E _]. inversion E; subst. rewrite app_nil_r. apply MFin1; auto. }
    destruct r1; try discriminate. clear F1.
    minv_bind H4 r2 l5 s5 l6 H5 H6. subst l4.
    assert (B2 : block_spec Llcp r2 l5).
    { eapply run_block_ok; [|exact H5]. intros f0 Ef. destruct (a_llcp a); inversion Ef; subst.
      intros; eapply llcp_connect_ok; eauto. }
    assert (B1' : block_ok Rdwr BNone l3) by (apply B1; discriminate).
    destruct (is_fin r2) eqn:F2.
    { destruct (final_cases _ _ _ _ _ H6 F2) as [E _]. inversion E; subst. rewrite app_nil_r. apply MFin2; auto. }
    destruct r2; try discriminate. clear F2.
    minv_bind H6 r3 l7 s7 l8 H7 H8. subst l6.
    assert (B3 : block_spec Card r3 l7).
    { eapply run_block_ok; [|exact H7]. intros f0 Ef. destruct (a_card a); inversion Ef; subst.
      intros; eapply card_connect_ok; eauto. }
    assert (B2' : block_ok Llcp BNone l5) by (apply B2; discriminate).
    destruct (is_fin r3) eqn:F3.
    { destruct (final_cases _ _ _ _ _ H8 F3) as [E _]. inversion E; subst. rewrite app_nil_r. apply MFin3; auto. }
    destruct r3; try discriminate. clear F3.
    apply IH in H8. apply MRound; auto. apply B3; discriminate.
Qed.

(* ------------------------------------------------------------------ option preparation *)
Definition opt_startup (b : blk) (l : list ev) : Prop := l = [] \/ exists u, l = [EvStartup b u].
Definition startup_shape (pre : list ev) : Prop :=
  exists x y z, pre = x ++ y ++ z /\ opt_startup Llcp x /\ opt_startup Rdwr y /\ opt_startup Card z.

Lemma startup_llcp_inv o s x l s' : startup_llcp o s = (x, l, s') -> opt_startup Llcp l.
Proof.
  unfold startup_llcp. intro H. destruct o as [lo|]; [destruct (l_startup lo)|]; minv H; subst; cbn;
    first [left; reflexivity | right; eexists; reflexivity].
Qed.
Lemma startup_card_inv o s x l s' : startup_card o s = (x, l, s') -> opt_startup Card l.
Proof.
  unfold startup_card. intro H. destruct o as [co|]; [destruct (c_startup co) as [|t|]; [| destruct t|]|]; minv H; subst; cbn;
    first [left; reflexivity | right; eexists; reflexivity].
Qed.
Lemma startup_rdwr_inv o s x l s' : startup_rdwr o s = (x, l, s') ->
  x <> Hang /\ exists y, opt_startup Rdwr y /\ l = y ++ out_tail x /\ (forall e, x = Raise e -> e = XTypeError).
Proof.
  unfold startup_rdwr. intro H. destruct o as [ro|]; [destruct (r_startup ro)|]; minv H; subst; cbn;
    (split; [discriminate|]);
    first [ exists []; split; [left; reflexivity | split; [reflexivity | intros e E; inversion E; reflexivity]]
          | eexists [EvStartup Rdwr _]; split; [right; eexists; reflexivity | split; [reflexivity | intros e E; inversion E; reflexivity]] ].
Qed.

(* the trace of connect(): on-startup calls, then either an early end or the main loop *)
Lemma connect_struct o fuel inner s r l s' :
  connect true o fuel inner s = (r, l, s') ->
  exists pre body, l = pre ++ body /\ startup_shape pre /\
    ((r = Raise XTypeError /\ body = [EvRaise XTypeError]) \/ (r = Ret RNone /\ body = []) \/ mrounds (o_term o) r body).
Proof.
  unfold connect. cbn [negb]. intro H.
  minv_bind H x l1 s1 l2 H1 H2. subst l. apply startup_llcp_inv in H1.
  minv_bind H2 y l3 s3 l4 H3 H4. subst l2. apply startup_rdwr_inv in H3.
  destruct H3 as (Hh & y0 & Hy & -> & He).
  destruct y as [rr|e|]; [| |congruence].
  - minv_bind H4 c l5 s5 l6 H5 H6. subst l4. apply startup_card_inv in H5. cbn [out_tail].
    exists (l1 ++ y0 ++ l5), l6. split; [lnorm; reflexivity|]. split; [exists l1, y0, l5; auto|].
    destruct (no_options _).
    + apply ret_inv in H6. destruct H6 as (-> & -> & _). right; left; auto.
    + right; right. eapply main_loop_mrounds; eauto.
  - apply ret_inv in H4. destruct H4 as (-> & -> & _). rewrite (He e eq_refl). cbn [out_tail].
    exists (l1 ++ y0 ++ []), [EvRaise XTypeError]. split; [lnorm; reflexivity|].
    split; [exists l1, y0, []; repeat split; auto; left; reflexivity|]. left; auto.
Qed.

Lemma connect_nodev o fuel inner s : connect false o fuel inner s = (Raise XIOError, [EvRaise XIOError], s).
Proof. reflexivity. Qed.
