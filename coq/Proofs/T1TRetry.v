(* Type 1: the memory reader's state across several assignments on one tag object (see Proofs/T2TRetry.v).
   With three length bytes the length field must lie in one write unit (the guard of the open finding of C02). *)
From Coq Require Import ZArith List Bool Lia ZifyBool.
From NV Require Import Base.Result Base.Bytes Model.TlvMem Model.T1T Proofs.TlvLib Proofs.TlvSync Proofs.TlvRetry
  Proofs.TlvPhases Proofs.TlvRetryInst Proofs.T1T.
Import ListNotations.
Open Scope Z_scope.
Ltac Zify.zify_post_hook ::= Z.to_euclidean_division_equations.

Definition t1_guard (hr0 : Z) (L : layout) (d : list Z) : Prop := len d < 255 \/ one_unit (t1_unit hr0) (l_off L).
Definition t1_reader_ok (hr0 : Z) (m d : list Z) (st : list Z * list Z * list Z) : Prop :=
  let '(m1, F, c) := st in
  exists L ku c1 c2 cF, wfL1 hr0 m L /\ len d <= l_cap L /\ t1_guard hr0 L d /\ length m = (ku * t1_unit hr0)%nat /\
    clean m L (t1_reader hr0) d c1 c2 cF /\
    INV (t1_unit hr0) ku (zN L) m cF (Sall m L cF) m1 F c /\ F = m1 /\ c = m1.
Definition t1_safe_class (hr0 : Z) (m d m' : list Z) : Prop :=
  t1_fresh hr0 m' = t1_fresh hr0 m \/ t1_fresh hr0 m' = Msg [] \/ t1_fresh hr0 m' = Msg d.

Section R1.
Variables (hr0 : Z) (m : list Z) (L : layout) (d : list Z) (ku : nat).
Hypothesis WF : wfL1 hr0 m L.
Hypothesis Hcap : len d <= l_cap L.
Hypothesis Hg : t1_guard hr0 L d.
Hypothesis Hku : length m = (ku * t1_unit hr0)%nat.
Notation u := (t1_unit hr0).

Ltac unpack := let H := fresh in pose proof WF as H; unfold wfL1 in H;
  destruct H as (?Hr & ?Hsz & ?Hrd & ?Hwr & ?Hde & ?Hhw & ?Ho12 & ?Ho1 & ?S0 & ?S1 & ?S23).

Lemma h_u : (0 < u)%nat. Proof. apply (w_unit hr0 m L WF). Qed.
Lemma h_de : l_dend L <= len m. Proof. unpack. assumption. Qed.
Lemma h_off0 : 0 <= l_off L. Proof. unpack. lia. Qed.
Lemma h_off1 : l_off L + 1 < l_dend L. Proof. unpack. assumption. Qed.
Lemma h_s1 : in_skip (l_skip L) (l_off L + 1) = false. Proof. unpack. assumption. Qed.
Lemma h_s23 : 255 <= l_cap L -> in_skip (l_skip L) (l_off L + 2) = false /\ in_skip (l_skip L) (l_off L + 3) = false.
Proof. unpack. assumption. Qed.
Lemma h_n : forall x, l_off L < x -> ndef_area L x = true -> x / Z.of_nat u * Z.of_nat u + Z.of_nat u <= len m.
Proof.
  intros x Hx Ha. pose proof h_de. pose proof h_u. pose proof h_off0. unfold ndef_area in Ha. assert (Hxm : x < len m) by lia.
  unfold len in Hxm |- *. rewrite Hku in Hxm |- *. rewrite Nat2Z.inj_mul in *.
  assert (E : x / Z.of_nat u < Z.of_nat ku) by (apply Z.div_lt_upper_bound; lia). nia.
Qed.
Notation GH lemma := (lemma m L u ku (t1_reader hr0) h_u Hku h_de h_off0 h_off1 (w_tag hr0 m L WF) (w_cap hr0 m L WF) h_s1 h_s23 (w_transfer hr0 m L WF)).

Lemma h_clean : exists c1 c2 cF, clean m L (t1_reader hr0) d c1 c2 cF.
Proof. destruct (GH clean_final d Hcap) as (c1 & c2 & cF & H). exists c1, c2, cF. exact H. Qed.

Variables c1 c2 cF : list Z.
Hypothesis HCF : clean m L (t1_reader hr0) d c1 c2 cF.
Notation INVx := (INV u ku (zN L) m cF (Sall m L cF)).
Notation SAFEx := (SAFE u ku (zN L) m cF (Sall m L cF)).

Lemma h_att : ATT m L u ku cF (len m) (t1_phases L d).
Proof.
  unfold t1_phases. destruct (Z.ltb_spec (len d) 255) as [Hd|Hd].
  - apply (GH att_short d c1 c2 cF (len m) Hcap HCF h_n Hd).
  - destruct Hg as [Hs|H1]; [lia|]. apply (GH att_unrepaired d c1 c2 cF (len m) Hcap HCF h_n Hd H1).
Qed.
Lemma h_init : INVx m m m.
Proof. apply (GH INV_init_x d c1 c2 cF (len m) Hcap HCF h_n). Qed.

Lemma h_class T : SAFEx T -> t1_safe_class hr0 m d T.
Proof.
  intros HS. unfold t1_safe_class, t1_fresh. unpack.
  destruct (GH SAFE_classes d c1 c2 cF (len m) Hcap HCF h_n T HS) as [->|[H| ->]].
  - left; reflexivity.
  - right; left. rewrite (GH hdr0_read T); [| pose proof (len_nonneg d); lia | exact H].
    cbn [classify set_val l_rd l_val]. rewrite Hrd. reflexivity.
  - right; right. destruct HCF as (_ & _ & _ & _ & _ & _ & _ & R & _). rewrite R. cbn [classify set_val l_rd l_val]. rewrite Hrd. reflexivity.
Qed.

Lemma h_attempt m1 F c kf f : INVx m1 F c ->
  let '(r, (m2, F2, c2'), ex) := t1_attempt hr0 m1 L F c d kf f in
  m2 = apply_ws m1 ex /\ INVx m2 F2 c2' /\
  (forall i, t1_safe_class hr0 m d (apply_ws m1 (firstn i ex))) /\
  (r = Ok tt -> t1_fresh hr0 m2 = Msg d /\ t1_capacity hr0 m2 = Some (l_cap L)) /\ (kf = None -> r = Ok tt) /\ F2 = m2 /\ c2' = m2.
Proof.
  intros HI. unfold t1_attempt. unpack. rewrite Hwr. cbn [negb]. replace (l_cap L <? len d) with false by lia.
  assert (Hl : len m1 = len m) by (destruct HI as ([E _] & _); unfold lenok in E; unfold len; congruence).
  rewrite Hl. pose proof (h_att m1 F c kf f HI) as A.
  destruct (run_attempt u (len m) (fun x => x) m1 F c (t1_phases L d) kf f) as [[r [[T2 F2] c2']] ex].
  destruct A as (A1 & A2 & A3 & A4 & A5 & A6 & A7 & A8).
  split; [exact A1|]. split; [exact A3|]. split; [intro i; apply h_class, A2|]. split; [|split; [exact A6 | auto]].
  intro Hrok. unfold t1_fresh, t1_capacity. rewrite (A4 Hrok).
  destruct HCF as (_ & _ & _ & _ & _ & _ & _ & R & _). rewrite R. cbn [classify set_val l_rd l_val l_cap]. rewrite Hrd. auto.
Qed.
Lemma set_val_val1 L0 : set_val L0 (l_val L0) = L0.
Proof. destruct L0; reflexivity. Qed.
Lemma h_wf m1 F c : INVx m1 F c -> exists v, wfL1 hr0 m1 (set_val L v).
Proof.
  intros HI. assert (Hl : length m1 = length m) by (destruct HI as ([E _] & _); unfold lenok in E; congruence).
  assert (Hsafe : SAFEx m1) by (destruct HI as (FT & _ & _ & Hm & _); split; [exact FT|]; destruct Hm as [(H & _)|[H|(H & _)]]; auto).
  assert (Hv : exists v, t1_reader hr0 m1 = Ok (Some (set_val L v))).
  { destruct (GH SAFE_classes d c1 c2 cF (len m) Hcap HCF h_n m1 Hsafe) as [E|[H|E]].
    - exists (l_val L). rewrite E, set_val_val1. apply WF.
    - exists []. apply (GH hdr0_read m1); [pose proof (len_nonneg d); lia | exact H].
    - exists d. rewrite E. apply HCF. }
  destruct Hv as [v Ev]. exists v. unpack. unfold wfL1. cbn [set_val l_rd l_wr l_dend l_hw l_off l_skip l_cap].
  unfold len in *. rewrite Hl. split; [exact Ev|]. repeat split; try assumption; try lia; apply S23; assumption.
Qed.
End R1.

Lemma wfL1_unique hr0 m L L' : wfL1 hr0 m L -> wfL1 hr0 m L' -> L = L'.
Proof. intros (H & _) (H' & _). congruence. Qed.

Lemma t1_reader_ok_init hr0 m d cap L : t1_wf_layout hr0 m -> t1_capacity hr0 m = Some cap -> len d <= cap ->
  t1_layout hr0 m = Some L -> t1_guard hr0 L d -> t1_reader_ok hr0 m d (m, m, m).
Proof.
  intros Hwf Hc Hd HLay Hg. destruct (t1_wf_layout_wfL hr0 m Hwf) as (L' & HL). pose proof (wfL1_layout _ _ _ _ HL HLay). subst L'.
  pose proof (wfL1_capacity hr0 m L cap HL Hc) as E. destruct (w_unit hr0 m L HL) as (_ & ku & Hku).
  destruct (h_clean hr0 m L d ku HL ltac:(lia) Hku) as (c1 & c2 & cF & HCF). exists L, ku, c1, c2, cF.
  split; [exact HL|]. split; [lia|]. split; [exact Hg|]. split; [exact Hku|]. split; [exact HCF|]. split; [|auto].
  eapply h_init; try eassumption; lia.
Qed.

Theorem t1_attempt_reader_ok hr0 m d L m1 F c kf f : wfL1 hr0 m L -> t1_reader_ok hr0 m d (m1, F, c) ->
  let '(r, st', ex) := t1_attempt hr0 m1 L F c d kf f in
  t1_reader_ok hr0 m d st' /\ fst (fst st') = apply_ws m1 ex /\
  (forall i, t1_safe_class hr0 m d (apply_ws m1 (firstn i ex))) /\
  (r = Ok tt -> t1_fresh hr0 (fst (fst st')) = Msg d /\ t1_capacity hr0 (fst (fst st')) = Some (l_cap L)) /\ (kf = None -> r = Ok tt).
Proof.
  intros HL (L' & ku & c1 & c2 & cF & HL' & Hcap & Hg & Hku & HCF & HI & _ & _). pose proof (wfL1_unique hr0 m L' L HL' HL). subst L'.
  pose proof (h_attempt hr0 m L d ku HL Hcap Hg Hku c1 c2 cF HCF m1 F c kf f HI) as A.
  destruct (t1_attempt hr0 m1 L F c d kf f) as [[r [[m2 F2] c2']] ex]. destruct A as (A1 & A3 & A4 & A5 & A6 & A7 & A8).
  split; [exists L, ku, c1, c2, cF; auto 12|]. cbn [fst snd]. auto.
Qed.

Lemma t1_attempts_ok hr0 m d L : wfL1 hr0 m L -> forall faults st, t1_reader_ok hr0 m d st -> t1_reader_ok hr0 m d (t1_attempts hr0 L d faults st).
Proof.
  intros HL. induction faults as [|[k f] r IH]; intros [[m1 F] c] Hok; [exact Hok|]. cbn [t1_attempts].
  pose proof (t1_attempt_reader_ok hr0 m d L m1 F c (Some k) f HL Hok) as A.
  destruct (t1_attempt hr0 m1 L F c d (Some k) f) as [[r0 st'] ex]. cbn [fst snd]. apply IH, A.
Qed.

Lemma t1_after_ok hr0 m d cap L faults : t1_wf_layout hr0 m -> t1_capacity hr0 m = Some cap -> len d <= cap ->
  t1_layout hr0 m = Some L -> t1_guard hr0 L d ->
  exists m1 F c, wfL1 hr0 m L /\ l_cap L = cap /\ t1_after hr0 m d faults = Some (L, (m1, F, c)) /\ t1_reader_ok hr0 m d (m1, F, c).
Proof.
  intros Hwf Hc Hd HLay Hg. destruct (t1_wf_layout_wfL hr0 m Hwf) as (L' & HL). pose proof (wfL1_layout _ _ _ _ HL HLay). subst L'.
  pose proof (wfL1_capacity hr0 m L cap HL Hc) as E.
  pose proof (t1_attempts_ok hr0 m d L HL faults (m, m, m) (t1_reader_ok_init hr0 m d cap L Hwf Hc Hd HLay Hg)) as Hok.
  destruct (t1_attempts hr0 L d faults (m, m, m)) as [[m1 F] c] eqn:Ea.
  exists m1, F, c. split; [exact HL|]. split; [exact E|]. split; [|exact Hok].
  unfold t1_after. destruct HL as (Hr & _). rewrite Hr, Ea. reflexivity.
Qed.

Theorem t1_retry_write_read hr0 m d cap L faults : t1_wf_layout hr0 m -> bytes_ok d -> t1_capacity hr0 m = Some cap -> len d <= cap ->
  t1_layout hr0 m = Some L -> t1_guard hr0 L d ->
  exists r m1 ws, t1_retry hr0 m d faults = Some (r, m1, ws) /\ r = Ok tt /\
    t1_fresh hr0 (apply_ws m1 ws) = Msg d /\ t1_capacity hr0 (apply_ws m1 ws) = Some cap.
Proof.
  intros Hwf _ Hc Hd HLay Hg. destruct (t1_after_ok hr0 m d cap L faults Hwf Hc Hd HLay Hg) as (m1 & F & c & HL & E & Ha & Hok).
  pose proof (t1_attempt_reader_ok hr0 m d L m1 F c None Lost HL Hok) as A.
  unfold t1_retry. rewrite Ha. destruct (t1_attempt hr0 m1 L F c d None Lost) as [[r st'] ex]. cbn [fst snd].
  destruct A as (_ & A2 & _ & A4 & A5). exists r, m1, ex. split; [reflexivity|]. split; [apply A5; reflexivity|].
  rewrite <- A2, <- E. apply A4, A5. reflexivity.
Qed.

Theorem t1_retry_cut_safe hr0 m d cap L faults kf f : t1_wf_layout hr0 m -> t1_capacity hr0 m = Some cap -> len d <= cap ->
  t1_layout hr0 m = Some L -> t1_guard hr0 L d ->
  exists m1 F c, t1_after hr0 m d faults = Some (L, (m1, F, c)) /\ t1_safe_class hr0 m d m1 /\
    forall k2, t1_safe_class hr0 m d (apply_ws m1 (firstn k2 (snd (t1_attempt hr0 m1 L F c d kf f)))).
Proof.
  intros Hwf Hc Hd HLay Hg. destruct (t1_after_ok hr0 m d cap L faults Hwf Hc Hd HLay Hg) as (m1 & F & c & HL & E & Ha & Hok).
  pose proof (t1_attempt_reader_ok hr0 m d L m1 F c kf f HL Hok) as A.
  exists m1, F, c. split; [exact Ha|]. destruct (t1_attempt hr0 m1 L F c d kf f) as [[r st'] ex]. cbn [fst snd].
  destruct A as (_ & _ & A3 & _). split; [exact (A3 O) | exact A3].
Qed.

(* ---------------------------------------------------------------- another assignment with other data after failed attempts *)
Lemma t1_attempt_set_val hr0 m1 L v F c d k f : t1_attempt hr0 m1 (set_val L v) F c d k f = t1_attempt hr0 m1 L F c d k f.
Proof. reflexivity. Qed.
Lemma t1_reader_ok_wf hr0 m d m1 F c L : wfL1 hr0 m L -> t1_reader_ok hr0 m d (m1, F, c) ->
  exists v, wfL1 hr0 m1 (set_val L v) /\ F = m1 /\ c = m1.
Proof.
  intros HL (L' & ku & c1 & c2 & cF & HL' & Hcap & Hg & Hku & HCF & HI & EF & Ec). pose proof (wfL1_unique hr0 m L' L HL' HL). subst L'.
  destruct (h_wf hr0 m L d ku HL Hcap Hku c1 c2 cF HCF m1 F c HI) as [v Hv]. exists v. auto.
Qed.
Lemma wfL1_wf hr0 m L : wfL1 hr0 m L -> t1_wf_layout hr0 m /\ t1_capacity hr0 m = Some (l_cap L) /\ t1_layout hr0 m = Some L.
Proof.
  intro H. destruct H as (Hr & Hsz & Hrd & Hwr & Hde & Hhw & Ho12 & Ho1 & S0 & S1 & S23).
  split; [|split; [unfold t1_capacity; rewrite Hr; reflexivity | unfold t1_layout; rewrite Hr; reflexivity]].
  unfold t1_wf_layout, t1_wf_layoutb. rewrite Hr, Hrd, Hwr, S0, S1. cbn [negb andb].
  assert (E1 : ((Z.land hr0 15 =? 1) && (len m =? 120) || negb (Z.land hr0 15 =? 1) && (256 <=? len m) && (len m <=? 2048) && (len m mod 128 =? 0)) = true) by lia.
  rewrite E1. cbn [andb]. destruct (Z.ltb_spec (l_cap L) 255) as [Hc|Hc].
  - cbn [orb]. lia.
  - destruct (S23 Hc) as [-> ->]. cbn [negb andb orb]. lia.
Qed.

Theorem t1_rewrite_safe hr0 m d1 cap L faults d2 kf f : t1_wf_layout hr0 m -> t1_capacity hr0 m = Some cap -> len d1 <= cap -> len d2 <= cap ->
  t1_layout hr0 m = Some L -> t1_guard hr0 L d1 -> t1_guard hr0 L d2 ->
  exists m1 F c, t1_after hr0 m d1 faults = Some (L, (m1, F, c)) /\ t1_safe_class hr0 m d1 m1 /\
    let '(r, st', ex) := t1_attempt hr0 m1 L F c d2 kf f in
    (forall k2, t1_safe_class hr0 m1 d2 (apply_ws m1 (firstn k2 ex))) /\
    (kf = None -> r = Ok tt /\ t1_fresh hr0 (apply_ws m1 ex) = Msg d2 /\ t1_capacity hr0 (apply_ws m1 ex) = Some cap).
Proof.
  intros Hwf Hc Hd1 Hd2 HLay Hg1 Hg2. destruct (t1_after_ok hr0 m d1 cap L faults Hwf Hc Hd1 HLay Hg1) as (m1 & F & c & HL & E & Ha & Hok).
  exists m1, F, c. split; [exact Ha|].
  pose proof (t1_attempt_reader_ok hr0 m d1 L m1 F c (Some O) Lost HL Hok) as A0.
  split. { destruct (t1_attempt hr0 m1 L F c d1 (Some 0%nat) Lost) as [[r0 st0] ex0]. destruct A0 as (_ & _ & A3 & _). exact (A3 O). }
  destruct (t1_reader_ok_wf hr0 m d1 m1 F c L HL Hok) as (v & HL1 & -> & ->).
  destruct (wfL1_wf hr0 m1 (set_val L v) HL1) as (Hwf1 & Hc1 & HLay1). cbn [set_val l_cap] in Hc1.
  pose proof (t1_reader_ok_init hr0 m1 d2 (l_cap L) (set_val L v) Hwf1 Hc1 ltac:(lia) HLay1 Hg2) as Hok2.
  pose proof (t1_attempt_reader_ok hr0 m1 d2 (set_val L v) m1 m1 m1 kf f HL1 Hok2) as A.
  rewrite t1_attempt_set_val in A. destruct (t1_attempt hr0 m1 L m1 m1 d2 kf f) as [[r st'] ex].
  destruct A as (_ & A2 & A3 & A4 & A5). split; [exact A3|]. intro Hk. specialize (A5 Hk). split; [exact A5|].
  rewrite <- A2, <- E. apply A4, A5.
Qed.
