From Coq Require Import ZArith List Bool Lia.
From NV Require Import Base.Result Model.TlvMem Model.T2Sector.
Open Scope Z_scope.
Ltac Zify.zify_post_hook ::= Z.to_euclidean_division_equations.

(* whatever happens to a SECTOR SELECT sequence, library and tag stay in step *)
Lemma sector_select_sync lib tag target o r lib' tag' : lib = tag ->
  sector_select lib tag target o = (r, lib', tag') -> lib' = tag' /\ (forall s, r = Ok s -> s = target /\ tag' = target).
Proof.
  intros -> H. unfold sector_select in H. destruct (Z.eqb_spec target tag) as [->|Hne].
  - injection H as <- <- <-. split; [reflexivity|]. intros s E. injection E as <-. auto.
  - destruct o; injection H as <- <- <-; (split; [reflexivity|]); intros s E; try discriminate. injection E as <-. auto.
Qed.
(* any sequence of sector selects (memory accesses at addresses a_i), each with any outcome: after every successful one a
   READ / WRITE of page p reaches the absolute address the memory reader means *)
Fixpoint ss_run (lib tag : Z) (ops : list (Z * ss_outcome)) : Z * Z :=
  match ops with
  | nil => (lib, tag)
  | (a, o) :: r => let '(_, lib', tag') := sector_select lib tag (Z.shiftr a 10) o in ss_run lib' tag' r
  end.
Lemma ss_run_sync : forall ops lib tag, lib = tag -> fst (ss_run lib tag ops) = snd (ss_run lib tag ops).
Proof.
  induction ops as [|[a o] r IH]; intros lib tag E; [exact E|]. cbn [ss_run].
  destruct (sector_select lib tag (Z.shiftr a 10) o) as [[x lib'] tag'] eqn:H.
  apply IH. apply (sector_select_sync lib tag _ o x lib' tag' E H).
Qed.
Lemma access_addr lib tag a o s lib' tag' : lib = tag -> 0 <= a -> sector_select lib tag (Z.shiftr a 10) o = (Ok s, lib', tag') ->
  abs_addr tag' (Z.shiftr a 2 mod 256) = 4 * (a / 4).
Proof.
  intros E Ha H. destruct (sector_select_sync lib tag _ o _ lib' tag' E H) as [_ H2]. destruct (H2 s eq_refl) as [_ Et]. rewrite Et.
  unfold abs_addr. rewrite !Z.shiftr_div_pow2 by lia. change (2 ^ 10) with 1024. change (2 ^ 2) with 4. lia.
Qed.
