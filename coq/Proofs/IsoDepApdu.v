(* Type4Tag.send_apdu on top of the ISO-DEP exchange: header/Lc/Le encoding and status word
   handling never turn a sound exchange result into a wrong value. *)
From Coq Require Import ZArith List Bool Lia ZifyBool.
From NV Require Import Base.Result Base.Bytes Model.IsoDep Proofs.IsoDep Proofs.IsoDepSync Proofs.IsoDepBudget.
Import ListNotations.
Open Scope Z_scope.

Lemma last2_split (a : bytes) : 2 <= len a -> exists s1 s2, last2 a = [s1; s2] /\ a = but_last2 a ++ [s1; s2].
Proof.
  intro H. unfold last2, but_last2.
  pose proof (firstn_skipn (length a - 2) a) as Hs.
  assert (Hl : length (skipn (length a - 2) a) = 2%nat) by (rewrite skipn_length; unfold len in H; lia).
  destruct (skipn (length a - 2) a) as [|s1 [|s2 [|s3 t]]]; cbn in Hl; try lia.
  exists s1, s2. split; [reflexivity | symmetry; exact Hs].
Qed.

Lemma apdu_finish_ok check full r : apdu_finish check (Ok full) = Ok r ->
  if check then full = r ++ [144; 0] else full = r.
Proof.
  unfold apdu_finish, bind. destruct (len full <? 2) eqn:E; [discriminate|].
  destruct check; [|intro H; inversion H; reflexivity].
  destruct (last2_split full) as (s1 & s2 & Hl & Hs); [lia|]. rewrite Hl.
  assert (Hcase : (s1 = 144 /\ s2 = 0) \/ ~ (s1 = 144 /\ s2 = 0)) by lia.
  destruct Hcase as [[-> ->] | Hn].
  - intro H. inversion H; subst r. exact Hs.
  - intro H. exfalso.
    destruct s1 as [|p|p]; try discriminate.
    do 8 (destruct p as [p|p|]; try discriminate).
    destruct s2; try discriminate. apply Hn. split; reflexivity.
Qed.

Lemma apdu_finish_cases check r0 :
  match r0 with Ok _ | Err (TagCommandError _) => True | _ => False end ->
  match apdu_finish check r0 with Ok _ | Err (TagCommandError _) => True | _ => False end.
Proof.
  destruct r0 as [full | e | x |]; try contradiction; intro H.
  - unfold apdu_finish, bind. destruct (len full <? 2) eqn:E; [exact I|].
    destruct check; [|exact I].
    destruct (last2_split full) as (s1 & s2 & Hl & _); [lia|]. rewrite Hl.
    destruct s1 as [|p|p]; try exact I.
    do 8 (destruct p as [p|p|]; try exact I).
    destruct s2; exact I.
  - destruct e; try contradiction. exact I.
Qed.

Lemma apdu_build_len cla ins p1 p2 data mrl a : apdu_build cla ins p1 p2 data mrl = Ok a -> 0 < len a.
Proof.
  unfold apdu_build. destruct ((0 <? len data) && (255 <? len data)); [discriminate|].
  destruct (negb (mrl =? 0) && (256 <? mrl)); [discriminate|].
  intro H. inversion H. rewrite !len_cons. 
  match goal with |- context [len ?l] => pose proof (len_nonneg l) end. lia.
Qed.

Lemma apdu_build_cases cla ins p1 p2 data mrl :
  (exists a, apdu_build cla ins p1 p2 data mrl = Ok a) \/ apdu_build cla ins p1 p2 data mrl = Err ValueError.
Proof.
  unfold apdu_build. destruct ((0 <? len data) && (255 <? len data)); [right; reflexivity|].
  destruct (negb (mrl =? 0) && (256 <? mrl)); [right; reflexivity|]. left; eauto.
Qed.

Theorem send_apdu_sound app k mx kc cla ins p1 p2 data mrl check pn c :
  repaired k -> params_ok k kc -> in_step pn c ->
  forall fuel sc, let o := send_apdux app fuel k mx kc cla ins p1 p2 data mrl check pn c sc in
  match apdu_build cla ins p1 p2 data mrl with
  | Ok a =>
      (execs (o_card o) = execs c \/ execs (o_card o) = execs c ++ [a]) /\
      match o_res o with
      | Ok r => execs (o_card o) = execs c ++ [a] /\ in_step (o_pni o) (o_card o) /\
                (if check then response app c a = r ++ [144; 0] else response app c a = r)
      | Err (TagCommandError _) => True
      | Hang => Z.of_nat fuel < fuel_bound app k a (execs c) c
      | _ => False
      end
  | _ => o_res o = Err ValueError /\ o_card o = c /\ o_blocks o = []      (* documented argument check, nothing sent *)
  end.
Proof.
  intros Hrep Hpar Hstep fuel sc. cbv zeta. unfold send_apdux.
  destruct (apdu_build_cases cla ins p1 p2 data mrl) as [[a Ha] | He].
  - rewrite Ha. cbn [o_res o_card o_pni].
    pose proof (apdu_build_len _ _ _ _ _ _ _ Ha) as Hlen.
    split; [apply (exchangex_at_most_once app k kc a pn c Hrep Hpar Hstep Hlen mx fuel sc)|].
    pose proof (exchangex_result_sound app k kc a pn c Hrep Hpar Hstep Hlen mx fuel sc) as Hs. cbv zeta in Hs.
    destruct (o_res (fst (exchangex app fuel k mx kc a pn c sc))) as [full | e | x |] eqn:Er.
    + destruct Hs as (Hfull & Hex & Hin).
      pose proof (apdu_finish_cases check (Ok full) I) as Hc.
      destruct (apdu_finish check (Ok full)) as [r | e | x |] eqn:Ef; try contradiction.
      * apply apdu_finish_ok in Ef. rewrite <- Hfull. split; [assumption|]. split; assumption.
      * destruct e; try contradiction. exact I.
    + destruct e; try contradiction. exact I.
    + contradiction.
    + exact Hs.
  - rewrite He. cbn [o_res o_card o_blocks]. repeat split.
Qed.
