(* Type 3 Tag (passive tag device): write/read round trip, cut safety, write frame.
   Structure: generic facts about command sequences on the passive tag (apply_cmds / run with a
   power-cut budget), the attribute block codec, the reader loop, the write plan. *)
From Coq Require Import ZArith List Bool Lia ZifyBool.
From NV Require Import Base.Result Base.Bytes Base.PyPrims Proofs.Chunks Model.T3T.
Import ListNotations.
Open Scope Z_scope.
Ltac Zify.zify_post_hook ::= Z.to_euclidean_division_equations.

(* ------------------------------------------------------------ block elements and frames *)
Lemma blk_elems_ok bl : Forall (fun b => 0 <= b < 65536) bl ->
  exists es, blk_elems bl = Ok es /\ len es <= 3 * len bl /\
             (Forall (fun b => b < 256) bl -> len es = 2 * len bl).
Proof.
  induction bl as [|b r IH]; intro H.
  - exists []. cbn. repeat split; auto; intros; unfold len; cbn; lia.
  - inversion H as [|? ? Hb Hr]; subst. destruct (IH Hr) as (er & E & L1 & L2).
    cbn [blk_elems]. unfold blk_elem.
    replace (b <? 0) with false by lia.
    destruct (b <? 256) eqn:E256.
    + cbn [bind]. rewrite E. cbn [bind]. eexists; split; [reflexivity|].
      rewrite len_app, !len_cons, len_nil. split; [lia|]. intro F. inversion F; subst. specialize (L2 H3). lia.
    + replace (b <? 65536) with true by lia. cbn [bind]. rewrite E. cbn [bind]. eexists; split; [reflexivity|].
      rewrite len_app, !len_cons, len_nil. split; [lia|]. intro F. inversion F; subst. lia.
Qed.

Lemma rd_frame_ok idm bl : len idm = 8 -> Forall (fun b => 0 <= b < 65536) bl -> len bl <= 80 ->
  exists f, rd_frame idm bl = Ok f.
Proof.
  intros Hi Hb Hn. destruct (blk_elems_ok bl Hb) as (es & E & L & _).
  unfold rd_frame. rewrite E. cbn [bind]. replace (len bl >? 255) with false by lia.
  unfold t3_frame. rewrite len_app, !len_cons, len_nil.
  replace (2 + len idm + (1 + (1 + (1 + (1 + 0))) + len es) >? 255) with false by lia. eexists; reflexivity.
Qed.

Lemma wr_frame_ok idm bl data : len idm = 8 -> Forall (fun b => 0 <= b < 65536) bl -> len data = 16 * len bl ->
  (len bl <= 12 \/ (len bl <= 13 /\ Forall (fun b => b < 256) bl)) ->
  exists f, wr_frame idm bl data = Ok f.
Proof.
  intros Hi Hb Hd Hn. destruct (blk_elems_ok bl Hb) as (es & E & L & L2).
  unfold wr_frame. rewrite E. cbn [bind]. replace (len bl >? 255) with false by lia.
  unfold t3_frame. rewrite !len_app, !len_cons, len_nil.
  assert (len es + 16 * len bl <= 241).
  { destruct Hn as [Hn|[Hn Hs]]; [lia|]. specialize (L2 Hs). lia. }
  replace (2 + len idm + (1 + (1 + (1 + (1 + 0))) + (len es + len data)) >? 255) with false by lia. eexists; reflexivity.
Qed.

(* ------------------------------------------------------------ blocks of a memory image *)
Lemma zrange_len' a b : a <= b -> len (zrange a b) = b - a.
Proof. intro. unfold len. rewrite zrange_len. lia. Qed.

Lemma flat_blk_get m : forall n a, 0 <= a -> 16 * (a + Z.of_nat n) <= len m ->
  flat_map (blk_get m) (zrange a (a + Z.of_nat n)) = slice m (16 * a) (16 * (a + Z.of_nat n)).
Proof.
  induction n as [|n IH]; intros a Ha Hm.
  - rewrite Z.add_0_r, zrange_nil by lia. cbn. now rewrite slice_nil_eq.
  - rewrite zrange_cons by lia. cbn [flat_map].
    replace (a + Z.of_nat (S n)) with ((a + 1) + Z.of_nat n) by lia.
    rewrite IH by lia. unfold blk_get. replace (16 * a + 16) with (16 * (a + 1)) by lia.
    apply slice_app_adj; lia.
Qed.
Lemma flat_blk_get_range m a b : 0 <= a <= b -> 16 * b <= len m ->
  flat_map (blk_get m) (zrange a b) = slice m (16 * a) (16 * b).
Proof. intros. replace b with (a + Z.of_nat (Z.to_nat (b - a))) by lia. apply flat_blk_get; lia. Qed.

Lemma blks_put_range : forall n m a data, 0 <= a -> len data = 16 * Z.of_nat n -> 16 * (a + Z.of_nat n) <= len m ->
  blks_put m (zrange a (a + Z.of_nat n)) data = splice m (16 * a) data.
Proof.
  induction n as [|n IH]; intros m a data Ha Hd Hm.
  - rewrite Z.add_0_r, zrange_nil by lia. cbn. destruct data; [now rewrite splice_nil | rewrite len_cons in Hd; pose proof (len_nonneg data); lia].
  - rewrite zrange_cons by lia. cbn [blks_put].
    assert (Ht : len (take 16 data) = 16) by (apply len_take; lia).
    replace (a + Z.of_nat (S n)) with ((a + 1) + Z.of_nat n) by lia.
    rewrite IH; try lia.
    + replace (16 * (a + 1)) with (16 * a + len (take 16 data)) by lia.
      rewrite splice_adj by (rewrite ?len_drop; lia). now rewrite take_drop.
    + rewrite len_drop; lia.
    + rewrite len_splice; lia.
Qed.
Lemma blks_put_zrange m a b data : 0 <= a <= b -> len data = 16 * (b - a) -> 16 * b <= len m ->
  blks_put m (zrange a b) data = splice m (16 * a) data.
Proof. intros. replace b with (a + Z.of_nat (Z.to_nat (b - a))) by lia. apply blks_put_range; lia. Qed.

Lemma forallb_blk_ok m a b : 0 <= a -> 16 * b <= len m -> forallb (blk_ok m) (zrange a b) = true.
Proof. intros. apply forallb_forall. intros x Hx. apply in_zrange in Hx. unfold blk_ok, nblocks. lia. Qed.
Lemma Forall_zrange (P : Z -> Prop) a b : (forall x, a <= x < b -> P x) -> Forall P (zrange a b).
Proof. intro H. apply Forall_forall. intros x Hx. apply H, in_zrange, Hx. Qed.

Definition apply_cmd (m : list Z) (c : list Z * list Z) : list Z := blks_put m (fst c) (snd c).
Definition apply_cmds (m : list Z) (cs : list (list Z * list Z)) : list Z := fold_left apply_cmd cs m.

Lemma blks_put_len : forall bl m data, Forall (fun b => 0 <= b /\ 16 * (b + 1) <= len m) bl -> len data = 16 * len bl ->
  len (blks_put m bl data) = len m.
Proof.
  induction bl as [|b r IH]; intros m data Hb Hd; [reflexivity|]. inversion Hb as [|? ? [H0 H1] Hr]; subst.
  rewrite len_cons in Hd. pose proof (len_nonneg r). cbn [blks_put].
  assert (Ht : len (take 16 data) = 16) by (apply len_take; lia).
  assert (Hs : len (splice m (16 * b) (take 16 data)) = len m) by (apply len_splice; lia).
  rewrite IH; [exact Hs | rewrite Hs; exact Hr | rewrite len_drop; lia].
Qed.
Lemma blks_put_hi : forall bl m data B, Forall (fun b => 0 <= b < B /\ 16 * (b + 1) <= len m) bl -> len data = 16 * len bl ->
  drop (16 * B) (blks_put m bl data) = drop (16 * B) m.
Proof.
  induction bl as [|b r IH]; intros m data B Hb Hd; [reflexivity|]. inversion Hb as [|? ? [H0 H1] Hr]; subst.
  rewrite len_cons in Hd. pose proof (len_nonneg r). cbn [blks_put].
  assert (Ht : len (take 16 data) = 16) by (apply len_take; lia).
  assert (Hs : len (splice m (16 * b) (take 16 data)) = len m) by (apply len_splice; lia).
  rewrite IH; [apply drop_splice_hi; lia | rewrite Hs; exact Hr | rewrite len_drop; lia].
Qed.
Lemma blks_put_lo : forall bl m data B, Forall (fun b => B <= b /\ 16 * (b + 1) <= len m) bl -> 0 <= B -> len data = 16 * len bl ->
  take (16 * B) (blks_put m bl data) = take (16 * B) m.
Proof.
  induction bl as [|b r IH]; intros m data B Hb HB Hd; [reflexivity|]. inversion Hb as [|? ? [H0 H1] Hr]; subst.
  rewrite len_cons in Hd. pose proof (len_nonneg r). cbn [blks_put].
  assert (Ht : len (take 16 data) = 16) by (apply len_take; lia).
  assert (Hs : len (splice m (16 * b) (take 16 data)) = len m) by (apply len_splice; lia).
  rewrite IH; [apply take_splice_lo; lia | rewrite Hs; exact Hr | lia | rewrite len_drop; lia].
Qed.

(* ------------------------------------------------------------ attribute block codec *)
Definition attrs_ok (a : attrs) : Prop :=
  0 <= a_ver a < 256 /\ 0 <= a_nbr a < 256 /\ 0 <= a_nbw a < 256 /\ 0 <= a_nmaxb a < 65536 /\
  0 <= a_writef a < 256 /\ 0 <= a_rwflag a < 256 /\ 0 <= a_ln a < 16777216.

Lemma attr_build_len a : len (attr_build a) = 16.
Proof. reflexivity. Qed.

Lemma attr_roundtrip a : attrs_ok a -> attr_parse (attr_build a) = Some a.
Proof.
  destruct a as [ver nbr nbw nmaxb wf rw ln]. unfold attrs_ok. cbn [a_ver a_nbr a_nbw a_nmaxb a_writef a_rwflag a_ln].
  intros (H1 & H2 & H3 & H4 & H5 & H6 & H7).
  cbv [attr_parse attr_build attr_body bt nth firstn app sum fold_left a_ver a_nbr a_nbw a_nmaxb a_writef a_rwflag a_ln].
  set (s := 0 + ver + nbr + nbw + nmaxb / 256 + nmaxb mod 256 + 0 + 0 + 0 + 0 + wf + rw + ln / 65536 mod 256 + ln / 256 mod 256 + ln mod 256).
  replace (s =? s / 256 * 256 + s mod 256) with true by lia.
  f_equal. f_equal; lia.
Qed.

Lemma nth_byte_ok d k : bytes_ok d -> 0 <= nth k d 0 < 256.
Proof. intro H. destruct (nth_in_or_default k d 0) as [Hin| ->]; [|lia]. unfold bytes_ok in H. rewrite Forall_forall in H. apply H, Hin. Qed.
Lemma attr_parse_ok d a : bytes_ok d -> attr_parse d = Some a -> attrs_ok a.
Proof.
  intros Hb. unfold attr_parse. destruct (_ =? _); [|discriminate]. intro E. inversion E; subst; clear E.
  unfold attrs_ok, bt. cbn [a_ver a_nbr a_nbw a_nmaxb a_writef a_rwflag a_ln].
  pose proof (nth_byte_ok d 0 Hb). pose proof (nth_byte_ok d 1 Hb). pose proof (nth_byte_ok d 2 Hb).
  pose proof (nth_byte_ok d 3 Hb). pose proof (nth_byte_ok d 4 Hb). pose proof (nth_byte_ok d 9 Hb).
  pose proof (nth_byte_ok d 10 Hb). pose proof (nth_byte_ok d 11 Hb). pose proof (nth_byte_ok d 12 Hb).
  pose proof (nth_byte_ok d 13 Hb). lia.
Qed.

(* ------------------------------------------------------------ the write plan *)
Lemma pad16_len d : len (pad16 d) = 16 * ((len d + 15) / 16).
Proof. unfold pad16. rewrite len_app. unfold len at 2. rewrite repeat_length. pose proof (len_nonneg d). lia. Qed.
Lemma pad16_take d : take (len d) (pad16 d) = d.
Proof. apply take_app_len. Qed.



Lemma batches_nil fuel i nbw : batches fuel i nbw [] = [].
Proof. destruct fuel; reflexivity. Qed.

Lemma apply_cmds_cons m c cs : apply_cmds m (c :: cs) = apply_cmds (apply_cmd m c) cs.
Proof. reflexivity. Qed.
Lemma apply_cmds_app m cs1 cs2 : apply_cmds m (cs1 ++ cs2) = apply_cmds (apply_cmds m cs1) cs2.
Proof. apply fold_left_app. Qed.

(* ------------------------------------------------------------ shape of command lists *)
Definition cmd_shape (L lo hi : Z) (c : list Z * list Z) : Prop :=
  Forall (fun b => lo <= b < hi /\ 16 * (b + 1) <= L) (fst c) /\ len (snd c) = 16 * len (fst c).

Lemma apply_cmds_shape lo hi : 0 <= lo -> forall cs m, Forall (cmd_shape (len m) lo hi) cs ->
  len (apply_cmds m cs) = len m /\ take (16 * lo) (apply_cmds m cs) = take (16 * lo) m /\
  drop (16 * hi) (apply_cmds m cs) = drop (16 * hi) m.
Proof.
  intro Hlo. induction cs as [|c r IH]; intros m H; [cbn; auto|]. inversion H as [|? ? [Hb Hd] Hr]; subst.
  rewrite apply_cmds_cons. unfold apply_cmd.
  assert (L1 : len (blks_put m (fst c) (snd c)) = len m).
  { apply blks_put_len; [|exact Hd]. eapply Forall_impl; [|exact Hb]. cbn. intros; lia. }
  destruct (IH (blks_put m (fst c) (snd c))) as (A & B & C); [rewrite L1; exact Hr|].
  rewrite A, B, C. split; [exact L1|]. split.
  - apply blks_put_lo; [|lia|exact Hd]. eapply Forall_impl; [|exact Hb]. cbn. intros; lia.
  - apply blks_put_hi; [|exact Hd]. eapply Forall_impl; [|exact Hb]. cbn. intros; lia.
Qed.


(* ------------------------------------------------------------ commands a Type 3 device must accept *)
(* independent of the memory contents: L = memory size, MW = blocks per write command *)
Definition cmd_ok (L MW : Z) (c : list Z * list Z) : Prop :=
  (forall idm, len idm = 8 -> exists f, wr_frame idm (fst c) (snd c) = Ok f) /\ 1 <= len (fst c) <= MW /\
  Forall (fun b => 0 <= b < 65536 /\ 16 * (b + 1) <= L) (fst c) /\ len (snd c) = 16 * len (fst c).
Definition rd_ok (L MR : Z) (bl : list Z) : Prop :=
  1 <= len bl <= MR /\ len bl <= 80 /\ Forall (fun b => 0 <= b < 65536 /\ 16 * (b + 1) <= L) bl.

Lemma apply_cmd_len L MW m c : cmd_ok L MW c -> len m = L -> len (apply_cmd m c) = len m.
Proof. intros (_ & _ & Hb & Hd) HL. unfold apply_cmd. apply blks_put_len; [|exact Hd].
  eapply Forall_impl; [|exact Hb]. cbn. intros; lia. Qed.
Lemma cmd_ok_shape L MW c lo hi : cmd_ok L MW c -> Forall (fun b => lo <= b < hi) (fst c) -> cmd_shape L lo hi c.
Proof. intros (_ & _ & Hb & Hd) Hr. split; [|exact Hd].
  rewrite Forall_forall in *. intros x Hx. specialize (Hb x Hx). specialize (Hr x Hx). lia. Qed.
Lemma rd_ok_zrange L MR a b : 0 <= a < b -> b - a <= MR -> b - a <= 80 -> b <= 65536 -> 16 * b <= L -> rd_ok L MR (zrange a b).
Proof. intros. unfold rd_ok. rewrite zrange_len' by lia. repeat split; try lia. apply Forall_zrange. intros; lia. Qed.

Definition nblk (n : Z) : Z := (n + 15) / 16.
Definition attr_final (a : attrs) (d : list Z) : list Z := attr_build (set_ln (set_writef a 0) (len d)).
Definition final_mem (a : attrs) (d m : list Z) : list Z :=
  attr_final a d ++ pad16 d ++ drop (16 + len (pad16 d)) m.

(* ============================================================ any device that serves block reads and writes *)
Section Dev.
Variable S : Type.
Variable rd : S -> list Z -> res (list Z) * S.
Variable wr : S -> list Z -> list Z -> res unit * S.
Variable mem : S -> list Z.            (* the memory image behind the device *)
Variable bud : S -> Z.                 (* state-changing commands left before the power cut; < 0 = no cut *)
Variable inv : S -> Prop.              (* configuration of the device, preserved by commands *)
Variable MR MW : Z.                    (* blocks per read / write command the device serves *)
Variable fresh_of : list Z -> S.       (* a new activation on a memory image *)

Hypothesis H_rd : forall s bl, inv s -> bud s <> 0 -> rd_ok (len (mem s)) MR bl ->
  rd s bl = (Ok (flat_map (blk_get (mem s)) bl), s).
Hypothesis H_rd_dead : forall s, inv s -> bud s = 0 -> rd s [0] = (Err (TagCommandError 0), s).
Hypothesis H_wr : forall s c, inv s -> bud s <> 0 -> cmd_ok (len (mem s)) MW c ->
  exists s', wr s (fst c) (snd c) = (Ok tt, s') /\ inv s' /\ mem s' = apply_cmd (mem s) c /\
             bud s' = (if bud s <? 0 then bud s else bud s - 1).
Hypothesis H_wr_dead : forall s c, inv s -> bud s = 0 -> cmd_ok (len (mem s)) MW c ->
  wr s (fst c) (snd c) = (Err (TagCommandError 0), s).
Hypothesis H_fresh : forall m, inv (fresh_of m) /\ mem (fresh_of m) = m /\ bud (fresh_of m) = -1.

Definition dev_fresh (m : list Z) : res fresh := fst (read_ndef S rd (fresh_of m)).

Lemma rd_range s a b : inv s -> bud s <> 0 -> 0 <= a < b -> b - a <= MR -> b - a <= 80 -> b <= 65536 ->
  16 * b <= len (mem s) -> rd s (zrange a b) = (Ok (slice (mem s) (16 * a) (16 * b)), s).
Proof. intros. rewrite H_rd by (auto; apply rd_ok_zrange; lia). now rewrite flat_blk_get_range by lia. Qed.

(* running a command list with a power-cut budget *)
Lemma run_cmds_budget : forall cs s, inv s -> Forall (cmd_ok (len (mem s)) MW) cs ->
  let k := bud s in
  let n := Z.of_nat (length cs) in
  exists s', inv s' /\
    (if (k <? 0) || (n <=? k)
     then run_cmds S wr s cs = (Ok tt, s') /\ mem s' = apply_cmds (mem s) cs /\ bud s' = (if k <? 0 then k else k - n)
     else run_cmds S wr s cs = (Err (TagCommandError 0), s') /\ mem s' = apply_cmds (mem s) (firstn (Z.to_nat k) cs)).
Proof.
  induction cs as [|c r IH]; intros s Hi Hok k n.
  - exists s. split; [exact Hi|]. subst n. cbn [length Z.of_nat].
    replace ((k <? 0) || (0 <=? k)) with true by lia. cbn. repeat split; auto. destruct (k <? 0); lia.
  - inversion Hok as [|? ? Hc Hr]; subst. destruct c as [bl d].
    destruct (Z.eq_dec k 0) as [Hk0|Hk0].
    + exists s. split; [exact Hi|]. subst n k. cbn [length].
      replace ((bud s <? 0) || (Z.of_nat (Datatypes.S (length r)) <=? bud s)) with false by lia.
      rewrite Hk0. cbn [Z.to_nat firstn]. cbn [run_cmds].
      pose proof (H_wr_dead s (bl, d) Hi Hk0 Hc) as Hd. cbn [fst snd] in Hd. rewrite Hd. split; reflexivity.
    + destruct (H_wr s (bl, d) Hi Hk0 Hc) as (s1 & Hw & Hi1 & Hm & Hb). cbn [fst snd] in Hw.
      assert (Hlen : len (mem s1) = len (mem s)) by (rewrite Hm; eapply apply_cmd_len; eauto).
      assert (Hok1 : Forall (cmd_ok (len (mem s1)) MW) r) by (rewrite Hlen; exact Hr).
      destruct (IH s1 Hi1 Hok1) as (s' & Hi' & Hrun).
      exists s'. split; [exact Hi'|]. cbn [run_cmds]. rewrite Hw.
      subst n. cbn [length]. rewrite Nat2Z.inj_succ. fold k in Hb. cbv zeta in Hrun. rewrite Hb, Hm in Hrun.
      destruct (k <? 0) eqn:Ek.
      * rewrite ?Ek in Hrun. cbn [orb] in *. destruct Hrun as (R1 & R2 & R3). rewrite ?Ek in R3. repeat split; auto.
      * replace (k - 1 <? 0) with false in * by lia. cbn [orb] in *.
        destruct (Z.succ (Z.of_nat (length r)) <=? k) eqn:En.
        -- replace (Z.of_nat (length r) <=? k - 1) with true in Hrun by lia. destruct Hrun as (R1 & R2 & R3).
           repeat split; auto. lia.
        -- replace (Z.of_nat (length r) <=? k - 1) with false in Hrun by lia. destruct Hrun as (R1 & R2).
           replace (Z.to_nat k) with (Datatypes.S (Z.to_nat (k - 1))) by lia. cbn [firstn]. split; auto.
Qed.

(* ------------------------------------------------------------ the reader *)
Lemma read_attr_dev s : inv s -> bud s <> 0 -> 1 <= MR -> 16 <= len (mem s) ->
  read_attr S rd s = (Ok (attr_parse (take 16 (mem s))), s).
Proof.
  intros. unfold read_attr. change [0] with (zrange 0 1).
  rewrite rd_range by (auto; lia). change (16 * 0) with 0. change (16 * 1) with 16. now rewrite slice_0.
Qed.

Lemma read_attr_w_dev s : inv s -> bud s <> 0 -> 1 <= MR -> 16 <= len (mem s) ->
  read_attr_w S rd s = (Ok (attr_parse (take 16 (mem s))), s).
Proof.
  intros. unfold read_attr_w. change [0] with (zrange 0 1).
  rewrite rd_range by (auto; lia). change (16 * 0) with 0. change (16 * 1) with 16. now rewrite slice_0.
Qed.

Lemma rd_loop_dev s last nbr : inv s -> bud s <> 0 -> 1 <= nbr <= MR -> nbr <= 80 -> last <= 65536 ->
  16 * last <= len (mem s) ->
  forall fuel i acc, 1 <= i -> (Z.to_nat (last - i) <= fuel)%nat ->
    rd_loop S rd fuel s i last nbr acc = (Ok (Some (acc ++ slice (mem s) (16 * i) (16 * Z.max i last))), s).
Proof.
  intros Hi0 Hb Hn H80 H64 Hm. induction fuel as [|f IH]; intros i acc Hi Hf.
  - cbn [rd_loop]. replace (i <? last) with false by lia. rewrite Z.max_l by lia. now rewrite slice_nil_eq, app_nil_r.
  - cbn [rd_loop]. destruct (i <? last) eqn:E.
    + rewrite rd_range by (auto; lia). rewrite IH by lia. rewrite <- app_assoc. do 4 f_equal.
      rewrite (Z.max_r i last) by lia.
      destruct (Z.le_gt_cases last (i + nbr)).
      * rewrite Z.min_r, Z.max_l by lia. now rewrite slice_nil_eq, app_nil_r.
      * rewrite Z.min_l, Z.max_r by lia. apply slice_app_adj; lia.
    + rewrite Z.max_l by lia. now rewrite slice_nil_eq, app_nil_r.
Qed.

Lemma read_ndef_dev s a : inv s -> bud s <> 0 -> attr_parse (take 16 (mem s)) = Some a ->
  a_ver a / 16 = 1 -> 1 <= a_nbr a <= MR -> a_nbr a <= 80 -> 0 <= a_ln a <= a_nmaxb a * 16 ->
  let last := 1 + (a_ln a + 15) / 16 in
  last <= 65536 -> 16 * last <= len (mem s) ->
  read_ndef S rd s = (Ok (Ndef (attr_readable a) (attr_writeable a) (a_nmaxb a * 16)
                            (take (a_ln a) (slice (mem s) 16 (16 * last)))), s).
Proof.
  intros Hi Hb Ha Hv Hn H80 Hl last H64 Hm. unfold read_ndef.
  rewrite read_attr_dev by (auto; lia). rewrite Ha.
  replace (negb (a_ver a / 16 =? 1)) with false by lia.
  replace (a_nbr a =? 0) with false by lia. replace (a_ln a >? a_nmaxb a * 16) with false by lia. fold last.
  rewrite (rd_loop_dev s last (Z.min (a_nbr a) 15)) by (auto; lia).
  cbn [app]. rewrite Z.max_r by lia. reflexivity.
Qed.

(* ------------------------------------------------------------ the data batches *)
Lemma batches_spec L nbw H : 1 <= nbw <= MW -> H <= 65536 -> 16 * H <= L ->
  (nbw <= 12 \/ (nbw <= 13 /\ H <= 256)) ->
  forall fuel data i q, (length data <= fuel)%nat -> len data = 16 * q -> 1 <= i -> i + q = H ->
    Forall (cmd_ok L MW) (batches fuel i nbw data) /\
    Forall (fun c => Forall (fun b => 1 <= b < H) (fst c)) (batches fuel i nbw data) /\
    (forall m, len m = L -> apply_cmds m (batches fuel i nbw data) = splice m (16 * i) data).
Proof.
  intros Hn H64 Hm Hfr. induction fuel as [|f IH]; intros data i q Hf Hd Hi HH.
  - destruct data; [|cbn in Hf; lia]. cbn. repeat split; auto. intros. now rewrite splice_nil.
  - destruct data as [|x data']; [cbn; repeat split; auto; intros; now rewrite splice_nil|].
    set (data := x :: data') in *. assert (Hq : 1 <= q) by (subst data; rewrite len_cons in Hd; pose proof (len_nonneg data'); lia).
    assert (Hunf : batches (Datatypes.S f) i nbw data =
                   (zrange i (i + len (take (16 * nbw) data) / 16), take (16 * nbw) data) :: batches f (i + nbw) nbw (drop (16 * nbw) data))
      by reflexivity.
    rewrite Hunf. clear Hunf.
    assert (Hcmd : forall n c, 1 <= n <= nbw -> i + n <= H -> len c = 16 * n -> cmd_ok L MW (zrange i (i + n), c)).
    { intros n c Hn1 Hn2 Hc. unfold cmd_ok. cbn [fst snd]. rewrite zrange_len' by lia. repeat split; try lia.
      - intros idm Hidm. apply wr_frame_ok; [exact Hidm | apply Forall_zrange; lia | rewrite zrange_len'; lia |].
        rewrite zrange_len' by lia. destruct Hfr as [?|[? ?]]; [left; lia | right; split; [lia | apply Forall_zrange; lia]].
      - apply Forall_zrange; lia. }
    destruct (Z.le_gt_cases q nbw) as [Hle|Hgt].
    + (* last batch *)
      rewrite take_all, drop_all by lia. rewrite batches_nil. rewrite Hd. replace (16 * q / 16) with q by lia.
      repeat split; [constructor; [apply Hcmd; lia | constructor] | constructor; [apply Forall_zrange; cbn; lia | constructor] |].
      intros m Hlm. rewrite apply_cmds_cons. unfold apply_cmd. cbn [fst snd apply_cmds fold_left].
      apply blks_put_zrange; lia.
    + (* a full batch, more to come *)
      assert (Ht : len (take (16 * nbw) data) = 16 * nbw) by (apply len_take; lia).
      rewrite Ht. replace (16 * nbw / 16) with nbw by lia.
      assert (Hr : len (drop (16 * nbw) data) = 16 * (q - nbw)) by (rewrite len_drop; lia).
      destruct (IH (drop (16 * nbw) data) (i + nbw) (q - nbw)) as (I1 & I2 & I3); try lia.
      { unfold drop. rewrite skipn_length. subst data. cbn [length] in *. lia. }
      repeat split; [constructor; [apply Hcmd; lia | assumption] | constructor; [apply Forall_zrange; cbn; lia | assumption] |].
      intros m Hlm. rewrite apply_cmds_cons. unfold apply_cmd. cbn [fst snd].
      rewrite blks_put_zrange by lia.
      rewrite I3 by (rewrite len_splice; lia).
      replace (16 * (i + nbw)) with (16 * i + len (take (16 * nbw) data)) by lia.
      rewrite splice_adj by lia. now rewrite take_drop.
Qed.

(* ------------------------------------------------------------ well-formed tag *)
Record t3_wf (s : S) (a : attrs) : Prop := mk_wf {
  wf_inv : inv s;
  wf_attr : attr_parse (take 16 (mem s)) = Some a;         (* block 0 is a valid attribute block *)
  wf_aok : attrs_ok a;                                     (* (follows from the memory being bytes) *)
  wf_ver : a_ver a / 16 = 1;                               (* mapping version 1.x *)
  wf_nbr : 1 <= a_nbr a <= MR;                             (* the device serves the Nbr blocks per read it declares *)
  wf_nbr80 : a_nbr a <= 80;                                (* a read command frame holds at most 80 block list elements *)
  wf_nbw : 1 <= a_nbw a;
  wf_maxw : Z.min (a_nbw a) 13 <= MW;                      (* ... and min(Nbw, 13) blocks per write *)
  wf_writef : a_writef a = 0;
  wf_rwflag : a_rwflag a <> 0;
  wf_blocks : 16 * (a_nmaxb a + 1) <= len (mem s);         (* the Nmaxb data blocks exist *)
  wf_ln : a_ln a <= 16 * a_nmaxb a
}.

Lemma wf_basic s a : t3_wf s a -> 1 <= MR /\ 16 <= len (mem s) /\ 0 <= a_nmaxb a < 65536 /\ 0 <= a_ln a.
Proof. intro W. destruct W. destruct wf_aok0 as (? & ? & ? & ? & ? & ? & ?). lia. Qed.

Lemma t3_initial_read s a : t3_wf s a -> bud s <> 0 ->
  read_ndef S rd s = (Ok (Ndef true true (a_nmaxb a * 16)
                        (take (a_ln a) (slice (mem s) 16 (16 * (1 + nblk (a_ln a)))))), s).
Proof.
  intros W Hb. destruct W. destruct wf_aok0 as (? & ? & ? & ? & ? & ? & ?).
  rewrite (read_ndef_dev s a) by (auto; unfold nblk in *; lia).
  unfold attr_readable, attr_writeable, nblk.
  replace ((a_writef a =? 0) && (0 <? a_nbr a)) with true by lia.
  replace (negb (a_rwflag a =? 0) && (0 <? a_nbw a)) with true by lia. reflexivity.
Qed.

Lemma attr_cmd_ok s a A : t3_wf s a -> len A = 16 -> cmd_ok (len (mem s)) MW ([0], A).
Proof.
  intros W HA. destruct (wf_basic s a W) as (B1 & B2 & B3 & B4). pose proof (wf_maxw s a W). pose proof (wf_nbw s a W).
  unfold cmd_ok. cbn [fst snd]. repeat split.
  - intros idm Hidm. apply wr_frame_ok; [exact Hidm | constructor; [lia | constructor] | exact HA | left; cbn; lia].
  - cbn; lia.
  - cbn. lia.
  - constructor; [lia | constructor].
  - exact HA.
Qed.

Lemma wr_batch_bounds s a n : t3_wf s a -> 0 <= n ->
  1 <= wr_batch a n <= MW /\ (wr_batch a n <= 12 \/ (wr_batch a n <= 13 /\ 1 + nblk n <= 256)).
Proof. intros W Hn. destruct W. unfold wr_batch, nblk. destruct (1 + (n + 15) / 16 <=? 256) eqn:E; lia. Qed.

Lemma plan_data_ok s a d : t3_wf s a -> len d <= 16 * a_nmaxb a ->
  Forall (cmd_ok (len (mem s)) MW) (plan_data a d) /\
  Forall (fun c => Forall (fun b => 1 <= b < 1 + nblk (len d)) (fst c)) (plan_data a d) /\
  (forall m, len m = len (mem s) -> apply_cmds m (plan_data a d) = splice m 16 (pad16 d)).
Proof.
  intros W Hd. pose proof (len_nonneg d) as H0. destruct (wr_batch_bounds s a (len d) W H0) as (Hb & Hfr).
  destruct (wf_basic s a W) as (B1 & B2 & B3 & B4). pose proof (wf_blocks s a W).
  unfold plan_data.
  assert (Hq : nblk (len d) <= a_nmaxb a) by (unfold nblk; lia).
  apply (batches_spec (len (mem s)) (wr_batch a (len d)) (1 + nblk (len d))) with (q := nblk (len d)); try lia.
  rewrite pad16_len. reflexivity.
Qed.

Lemma t3_plan_ok s a d : t3_wf s a -> len d <= 16 * a_nmaxb a ->
  Forall (cmd_ok (len (mem s)) MW) (t3_plan a d) /\
  Forall (fun c => Forall (fun b => 0 <= b < 1 + nblk (len d)) (fst c)) (t3_plan a d) /\
  apply_cmds (mem s) (t3_plan a d) = final_mem a d (mem s).
Proof.
  intros W Hd. destruct (plan_data_ok s a d W Hd) as (D1 & D2 & D3).
  pose proof (attr_cmd_ok s a (attr_build (set_writef a 15)) W (attr_build_len _)) as Hh.
  pose proof (attr_cmd_ok s a (attr_build (set_ln (set_writef a 0) (len d))) W (attr_build_len _)) as Ht.
  pose proof (len_nonneg d) as H0. assert (Hq : 0 <= nblk (len d) <= a_nmaxb a) by (unfold nblk; lia).
  pose proof (wf_blocks s a W) as Hbl. destruct (wf_basic s a W) as (B1 & B2 & B3 & B4).
  unfold t3_plan. repeat split.
  - constructor; [exact Hh|]. apply Forall_app. split; [exact D1 | constructor; [exact Ht | constructor]].
  - constructor; [unfold plan_head; cbn [fst]; constructor; [lia | constructor]|]. apply Forall_app. split.
    + eapply Forall_impl; [|exact D2]. cbn. intros c Hc. eapply Forall_impl; [|exact Hc]. cbn. intros; lia.
    + constructor; [unfold plan_tail; cbn [fst]; constructor; [lia | constructor] | constructor].
  - assert (Hp : len (pad16 d) = 16 * nblk (len d)) by apply pad16_len.
    assert (E1 : forall m A, len A = 16 -> 16 <= len m -> apply_cmd m ([0], A) = splice m 0 A).
    { intros m A HA Hm. unfold apply_cmd. cbn [fst snd]. change [0] with (zrange 0 1).
      rewrite blks_put_zrange by lia. reflexivity. }
    rewrite apply_cmds_cons, apply_cmds_app.
    change (apply_cmds ?x [plan_tail a d]) with (apply_cmd x (plan_tail a d)).
    unfold plan_head, plan_tail. rewrite (E1 (mem s)) by (rewrite ?attr_build_len; lia).
    assert (L1 : len (splice (mem s) 0 (attr_build (set_writef a 15))) = len (mem s))
      by (apply len_splice; rewrite ?attr_build_len; lia).
    rewrite D3 by exact L1.
    assert (L2 : len (splice (splice (mem s) 0 (attr_build (set_writef a 15))) 16 (pad16 d)) = len (mem s))
      by (rewrite len_splice; lia).
    rewrite E1; [| apply attr_build_len | lia].
    replace 16 with (0 + len (attr_build (set_writef a 15))) at 1 by (rewrite attr_build_len; lia).
    rewrite splice_adj by (rewrite ?attr_build_len; lia).
    rewrite !splice0. unfold final_mem, attr_final. f_equal.
    rewrite attr_build_len. rewrite len_app, attr_build_len.
    rewrite <- app_assoc.
    change 16 with (len (attr_build (set_writef a 15))) at 1. rewrite drop_app_len. reflexivity.
Qed.

(* ------------------------------------------------------------ running _write_ndef_data *)
Lemma write_ndef_run s a d : t3_wf s a -> len d <= 16 * a_nmaxb a -> bud s <> 0 ->
  exists s' r, write_ndef S rd wr s d = (r, s') /\ inv s' /\
    (if (bud s <? 0) || (Z.of_nat (length (t3_plan a d)) <=? bud s)
     then r = Ok tt /\ mem s' = final_mem a d (mem s)
     else r = Err (TagCommandError 0) /\ mem s' = apply_cmds (mem s) (firstn (Z.to_nat (bud s)) (t3_plan a d))).
Proof.
  intros W Hd Hb. destruct (wf_basic s a W) as (B1 & B2 & B3 & B4).
  destruct (t3_plan_ok s a d W Hd) as (P1 & P2 & P3).
  pose proof (len_nonneg d) as H0. destruct (wr_batch_bounds s a (len d) W H0) as (Hwb & _).
  unfold write_ndef. rewrite read_attr_w_dev by (try apply (wf_inv s a W); lia). rewrite (wf_attr s a W).
  replace (wr_batch a (len d) =? 0) with false by lia.
  destruct (run_cmds_budget (t3_plan a d) s (wf_inv s a W) P1) as (s' & Hi' & Hrun).
  cbv zeta in Hrun. destruct ((bud s <? 0) || (Z.of_nat (length (t3_plan a d)) <=? bud s)) eqn:E.
  - destruct Hrun as (R1 & R2 & R3). exists s', (Ok tt). rewrite R1, R2, P3. auto.
  - destruct Hrun as (R1 & R2). exists s', (Err (TagCommandError 0)). rewrite R1, R2. auto.
Qed.

Lemma write_ndef_dead s a d : t3_wf s a -> bud s = 0 -> write_ndef S rd wr s d = (Err (TagCommandError 0), s).
Proof. intros W Hb. unfold write_ndef, read_attr_w. now rewrite H_rd_dead by (try apply (wf_inv s a W); auto). Qed.

(* ------------------------------------------------------------ a fresh reader on the final memory *)
Lemma final_mem_len s a d : t3_wf s a -> len d <= 16 * a_nmaxb a -> len (final_mem a d (mem s)) = len (mem s).
Proof.
  intros W Hd. destruct (wf_basic s a W) as (B1 & B2 & B3 & B4). pose proof (wf_blocks s a W). pose proof (len_nonneg d).
  unfold final_mem, attr_final. rewrite !len_app, attr_build_len, pad16_len, len_drop; rewrite ?pad16_len; lia.
Qed.

Lemma fresh_after_write s a d : t3_wf s a -> len d <= 16 * a_nmaxb a ->
  dev_fresh (final_mem a d (mem s)) = Ok (Ndef true true (a_nmaxb a * 16) d).
Proof.
  intros W Hd. destruct (wf_basic s a W) as (B1 & B2 & B3 & B4). pose proof (len_nonneg d) as H0.
  pose proof (final_mem_len s a d W Hd) as HL. pose proof (pad16_len d) as HP.
  set (a2 := set_ln (set_writef a 0) (len d)).
  unfold dev_fresh. destruct (H_fresh (final_mem a d (mem s))) as (F1 & F2 & F3).
  assert (Ha2 : attr_parse (take 16 (final_mem a d (mem s))) = Some a2).
  { unfold final_mem, attr_final. fold a2. change 16 with (len (attr_build a2)) at 1. rewrite take_app_len.
    apply attr_roundtrip. destruct (wf_aok s a W) as (? & ? & ? & ? & ? & ? & ?). unfold a2, attrs_ok. cbn. lia. }
  destruct W.
  rewrite (read_ndef_dev _ a2); rewrite ?F2, ?F3; cbn [fst]; auto; try (unfold a2; cbn; lia).
  - change (a_ln a2) with (len d). change (a_nmaxb a2) with (a_nmaxb a).
    assert (Hs : slice (final_mem a d (mem s)) 16 (16 * (1 + (len d + 15) / 16)) = pad16 d).
    { rewrite slice_take_drop by lia. unfold final_mem, attr_final. fold a2.
      set (A2 := attr_build a2). set (R := drop (16 + len (pad16 d)) (mem s)).
      assert (E : drop 16 (A2 ++ pad16 d ++ R) = pad16 d ++ R) by (change 16 with (len A2); apply drop_app_len).
      rewrite E. replace (16 * (1 + (len d + 15) / 16) - 16) with (len (pad16 d)) by lia. apply take_app_len. }
    rewrite Hs, pad16_take. unfold attr_readable, attr_writeable, a2. cbn [a_writef a_nbr a_rwflag a_nbw a_nmaxb set_ln set_writef].
    replace ((0 =? 0) && (0 <? a_nbr a)) with true by lia.
    replace (negb (a_rwflag a =? 0) && (0 <? a_nbw a)) with true by lia. reflexivity.
  - change (a_ln a2) with (len d). lia.
  - change (a_ln a2) with (len d). lia.
Qed.

(* ------------------------------------------------------------ C01 *)
Theorem t3_write_read_dev s a d : t3_wf s a -> bud s < 0 -> len d <= a_nmaxb a * 16 ->
  exists old s',
    read_ndef S rd s = (Ok (Ndef true true (a_nmaxb a * 16) old), s) /\
    set_octets S rd wr (Ndef true true (a_nmaxb a * 16) old) s d = (Ok tt, s') /\
    dev_fresh (mem s') = Ok (Ndef true true (a_nmaxb a * 16) d).
Proof.
  intros W Hb Hd. eexists.
  destruct (write_ndef_run s a d W) as (s' & r & Hw & Hi & Hm); [lia | lia |].
  exists s'. split; [apply t3_initial_read; [exact W | lia]|].
  replace ((bud s <? 0) || _) with true in Hm by lia. destruct Hm as (-> & Hm).
  split.
  - unfold set_octets. cbn [negb]. replace (len d >? a_nmaxb a * 16) with false by lia. exact Hw.
  - rewrite Hm. apply fresh_after_write; [exact W | lia].
Qed.

Theorem t3_capacity_sound_dev s a : t3_wf s a -> 16 + a_nmaxb a * 16 <= len (mem s).
Proof. intro W. pose proof (wf_blocks s a W). lia. Qed.

Theorem t3_oversize_rejected_dev s r cap old d : len d > cap ->
  set_octets S rd wr (Ndef r true cap old) s d = (Err ValueError, s).
Proof. intro H. unfold set_octets. cbn [negb]. now replace (len d >? cap) with true by lia. Qed.

(* ------------------------------------------------------------ C02: power cut after the k-th command *)
Lemma plan_length a d : length (t3_plan a d) = Datatypes.S (length (plan_data a d) + 1).
Proof. unfold t3_plan. cbn [length]. now rewrite app_length. Qed.

Lemma mid_mem s a d j : t3_wf s a -> len d <= 16 * a_nmaxb a -> (1 <= j < length (t3_plan a d))%nat ->
  let mk := apply_cmds (mem s) (firstn j (t3_plan a d)) in
  len mk = len (mem s) /\ take 16 mk = attr_build (set_writef a 15).
Proof.
  intros W Hd Hj mk. rewrite plan_length in Hj. destruct (wf_basic s a W) as (B1 & B2 & B3 & B4).
  destruct (plan_data_ok s a d W Hd) as (D1 & D2 & _).
  subst mk. unfold t3_plan. destruct j as [|j]; [lia|]. cbn [firstn].
  rewrite firstn_app. replace (j - length (plan_data a d))%nat with 0%nat by lia. cbn [firstn]. rewrite app_nil_r.
  rewrite apply_cmds_cons.
  assert (E1 : apply_cmd (mem s) (plan_head a) = splice (mem s) 0 (attr_build (set_writef a 15))).
  { unfold apply_cmd, plan_head. cbn [fst snd]. change [0] with (zrange 0 1). rewrite blks_put_zrange by (rewrite ?attr_build_len; lia). reflexivity. }
  rewrite E1.
  assert (L1 : len (splice (mem s) 0 (attr_build (set_writef a 15))) = len (mem s))
    by (apply len_splice; rewrite ?attr_build_len; lia).
  destruct (apply_cmds_shape 1 (1 + nblk (len d)) ltac:(lia) (firstn j (plan_data a d))
              (splice (mem s) 0 (attr_build (set_writef a 15)))) as (A & B & _).
  { apply Forall_firstn. rewrite L1. rewrite Forall_forall in *. intros c Hc. eapply cmd_ok_shape; auto. }
  split; [lia|]. change (16 * 1) with 16 in B. rewrite B. rewrite splice0.
  change 16 with (len (attr_build (set_writef a 15))) at 1. apply take_app_len.
Qed.

Lemma fresh_mid s a mk : t3_wf s a -> len mk = len (mem s) -> take 16 mk = attr_build (set_writef a 15) ->
  exists w c x, dev_fresh mk = Ok (Ndef false w c x).
Proof.
  intros W HL HT. destruct (wf_basic s a W) as (B1 & B2 & B3 & B4). unfold dev_fresh.
  destruct (H_fresh mk) as (F1 & F2 & F3).
  set (a1 := set_writef a 15).
  assert (Ha1 : attr_parse (take 16 mk) = Some a1).
  { rewrite HT. apply attr_roundtrip. destruct (wf_aok s a W) as (? & ? & ? & ? & ? & ? & ?). unfold a1, attrs_ok. cbn. lia. }
  destruct W.
  rewrite (read_ndef_dev _ a1); rewrite ?F2, ?F3; cbn [fst]; auto; try (unfold a1; cbn; lia).
  - unfold attr_readable. change (a_writef a1) with 15. cbn [Z.eqb andb]. eauto.
  - change (a_ln a1) with (a_ln a). lia.
  - change (a_ln a1) with (a_ln a). rewrite HL. lia.
Qed.

Theorem t3_cut_safe_dev s a d old : t3_wf s a -> len d <= a_nmaxb a * 16 -> 0 <= bud s ->
  let k := bud s in
  let n := Z.of_nat (length (t3_plan a d)) in
  exists r s', set_octets S rd wr (Ndef true true (a_nmaxb a * 16) old) s d = (r, s') /\ inv s' /\
    (k = 0 -> mem s' = mem s) /\
    (0 < k < n -> exists w c x, dev_fresh (mem s') = Ok (Ndef false w c x)) /\
    (n <= k -> dev_fresh (mem s') = Ok (Ndef true true (a_nmaxb a * 16) d)).
Proof.
  intros W Hd Hk k n.
  assert (Hset : set_octets S rd wr (Ndef true true (a_nmaxb a * 16) old) s d = write_ndef S rd wr s d).
  { unfold set_octets. cbn [negb]. now replace (len d >? a_nmaxb a * 16) with false by lia. }
  rewrite Hset. destruct (Z.eq_dec k 0) as [Hk0|Hk0].
  - exists (Err (TagCommandError 0)), s. rewrite (write_ndef_dead s a d W Hk0).
    split; [reflexivity|]. split; [apply (wf_inv s a W)|]. split; [auto|]. split; [intro; lia|].
    intro. exfalso. subst n. rewrite plan_length in *. lia.
  - destruct (write_ndef_run s a d W) as (s' & r & Hw & Hi & Hm); [lia | exact Hk0 |].
    exists r, s'. split; [exact Hw|]. split; [exact Hi|]. fold k n in Hm.
    replace (k <? 0) with false in Hm by lia. cbn [orb] in Hm.
    split; [lia|]. split.
    + intro Hkn. replace (n <=? k) with false in Hm by lia. destruct Hm as (_ & Hm).
      destruct (mid_mem s a d (Z.to_nat k) W) as (L & T); [lia | lia |]. rewrite Hm. eapply fresh_mid; eauto.
    + intro Hkn. replace (n <=? k) with true in Hm by lia. destruct Hm as (_ & Hm). rewrite Hm.
      apply fresh_after_write; [exact W | lia].
Qed.

(* ------------------------------------------------------------ C03: write frame *)
Theorem t3_write_frame_dev s a d old : t3_wf s a -> len d <= a_nmaxb a * 16 ->
  let hi := 1 + nblk (len d) in
  hi <= 1 + a_nmaxb a /\
  (* every command of the plan addresses only block 0 and blocks 1 .. ceil(len/16) *)
  Forall (fun c => Forall (fun b => 0 <= b < hi) (fst c)) (t3_plan a d) /\
  (* whatever the cut point, the effect on the memory is that of a prefix of the plan and nothing at or beyond block hi changes *)
  exists r s', set_octets S rd wr (Ndef true true (a_nmaxb a * 16) old) s d = (r, s') /\
    (exists j, mem s' = apply_cmds (mem s) (firstn j (t3_plan a d))) /\
    len (mem s') = len (mem s) /\ drop (16 * hi) (mem s') = drop (16 * hi) (mem s).
Proof.
  intros W Hd hi. destruct (wf_basic s a W) as (B1 & B2 & B3 & B4). pose proof (len_nonneg d) as H0.
  destruct (t3_plan_ok s a d W) as (P1 & P2 & P3); [lia|].
  split; [unfold hi, nblk; lia|]. split; [exact P2|].
  assert (Hset : set_octets S rd wr (Ndef true true (a_nmaxb a * 16) old) s d = write_ndef S rd wr s d).
  { unfold set_octets. cbn [negb]. now replace (len d >? a_nmaxb a * 16) with false by lia. }
  rewrite Hset.
  assert (Hpre : forall j, len (apply_cmds (mem s) (firstn j (t3_plan a d))) = len (mem s) /\
                           drop (16 * hi) (apply_cmds (mem s) (firstn j (t3_plan a d))) = drop (16 * hi) (mem s)).
  { intro j. destruct (apply_cmds_shape 0 hi ltac:(lia) (firstn j (t3_plan a d)) (mem s)) as (A & _ & C); [|auto].
    apply Forall_firstn. rewrite Forall_forall in *. intros c Hc. eapply cmd_ok_shape; auto. }
  destruct (Z.eq_dec (bud s) 0) as [Hk0|Hk0].
  - exists (Err (TagCommandError 0)), s. rewrite (write_ndef_dead s a d W Hk0). repeat split; auto. exists 0%nat. reflexivity.
  - destruct (write_ndef_run s a d W) as (s' & r & Hw & Hi & Hm); [lia | exact Hk0 |].
    exists r, s'. split; [exact Hw|].
    destruct ((bud s <? 0) || (Z.of_nat (length (t3_plan a d)) <=? bud s)).
    + destruct Hm as (_ & ->). rewrite <- P3. specialize (Hpre (length (t3_plan a d))). rewrite firstn_all in Hpre.
      split; [exists (length (t3_plan a d)); now rewrite firstn_all | exact Hpre].
    + destruct Hm as (_ & ->). split; [eexists; reflexivity | apply Hpre].
Qed.
End Dev.

(* ============================================================ instance: the passive tag *)
Definition pt_inv (MR MW : Z) (t : ptag) : Prop := p_maxr t = MR /\ p_maxw t = MW /\ p_rw t = true.
Definition pt_fresh_of (MR MW : Z) (m : list Z) : ptag := mkPtag m MR MW true (-1) [].

Lemma p_read_ok MR MW t bl : pt_inv MR MW t -> p_budget t <> 0 -> rd_ok (len (p_mem t)) MR bl ->
  p_read t bl = (Ok (flat_map (blk_get (p_mem t)) bl), t).
Proof.
  intros (I1 & I2 & I3) Hb (Hn & H80 & Hf). unfold p_read.
  destruct (rd_frame_ok p_idm bl) as (f & ->); [reflexivity | eapply Forall_impl; [|exact Hf]; cbn; intros; lia | lia |].
  unfold p_dead. replace (p_budget t =? 0) with false by lia.
  assert (Hfb : forallb (blk_ok (p_mem t)) bl = true).
  { apply forallb_forall. intros x Hx. rewrite Forall_forall in Hf. specialize (Hf x Hx). unfold blk_ok, nblocks. lia. }
  rewrite Hfb, I1. replace ((1 <=? len bl) && (len bl <=? MR) && true) with true by lia. reflexivity.
Qed.
Lemma p_read_dead MR MW t : pt_inv MR MW t -> p_budget t = 0 -> p_read t [0] = (Err (TagCommandError 0), t).
Proof.
  intros _ Hb. unfold p_read.
  destruct (rd_frame_ok p_idm [0]) as (f & ->); [reflexivity | constructor; [lia | constructor] | cbn; lia |].
  unfold p_dead. now replace (p_budget t =? 0) with true by lia.
Qed.
Lemma p_write_ok MR MW t c : pt_inv MR MW t -> p_budget t <> 0 -> cmd_ok (len (p_mem t)) MW c ->
  exists t', p_write t (fst c) (snd c) = (Ok tt, t') /\ pt_inv MR MW t' /\ p_mem t' = apply_cmd (p_mem t) c /\
             p_budget t' = (if p_budget t <? 0 then p_budget t else p_budget t - 1).
Proof.
  destruct c as [bl d]. intros (I1 & I2 & I3) Hbud (Hf & Hn & Hb & Hd). cbn [fst snd] in *. unfold p_write.
  destruct (Hf p_idm eq_refl) as (f & ->).
  unfold p_dead. replace (p_budget t =? 0) with false by lia. rewrite I3.
  assert (Hfb : forallb (blk_ok (p_mem t)) bl = true).
  { apply forallb_forall. intros x Hx. rewrite Forall_forall in Hb. specialize (Hb x Hx). unfold blk_ok, nblocks. lia. }
  rewrite Hfb, I2. replace (true && (1 <=? len bl) && (len bl <=? MW) && true && (len d =? 16 * len bl)) with true by lia.
  eexists. split; [reflexivity|]. cbn. unfold pt_inv. cbn. auto.
Qed.
Lemma p_write_dead MR MW t c : pt_inv MR MW t -> p_budget t = 0 -> cmd_ok (len (p_mem t)) MW c ->
  p_write t (fst c) (snd c) = (Err (TagCommandError 0), t).
Proof.
  intros _ Hb (Hf & _). unfold p_write. destruct (Hf p_idm eq_refl) as (f & ->).
  unfold p_dead. now replace (p_budget t =? 0) with true by lia.
Qed.
Lemma pt_fresh_ok MR MW m : pt_inv MR MW (pt_fresh_of MR MW m) /\ p_mem (pt_fresh_of MR MW m) = m /\ p_budget (pt_fresh_of MR MW m) = -1.
Proof. unfold pt_inv, pt_fresh_of. cbn. auto. Qed.

Definition pt_wf (t : ptag) (a : attrs) : Prop :=
  t3_wf ptag p_mem (pt_inv (p_maxr t) (p_maxw t)) (p_maxr t) (p_maxw t) t a.

Lemma pt_fresh_dev MR MW m : dev_fresh ptag p_read (pt_fresh_of MR MW) m = pt_fresh m MR MW true.
Proof. reflexivity. Qed.

Theorem t3_write_read_pt t a d : pt_wf t a -> p_budget t < 0 -> len d <= a_nmaxb a * 16 ->
  exists old t',
    pt_read_ndef t = (Ok (Ndef true true (a_nmaxb a * 16) old), t) /\
    pt_set_octets (Ndef true true (a_nmaxb a * 16) old) t d = (Ok tt, t') /\
    pt_fresh (p_mem t') (p_maxr t) (p_maxw t) true = Ok (Ndef true true (a_nmaxb a * 16) d).
Proof.
  intros W Hb Hd.
  eapply (t3_write_read_dev ptag p_read p_write p_mem p_budget (pt_inv (p_maxr t) (p_maxw t)) (p_maxr t) (p_maxw t)
            (pt_fresh_of (p_maxr t) (p_maxw t))); eauto using p_read_ok, p_read_dead, p_write_ok, p_write_dead, pt_fresh_ok.
Qed.
Theorem t3_capacity_sound_pt t a : pt_wf t a -> 16 + a_nmaxb a * 16 <= len (p_mem t).
Proof. intro W. pose proof (wf_blocks ptag p_mem _ _ _ t a W). lia. Qed.
Theorem t3_oversize_rejected_pt t r cap old d : len d > cap -> pt_set_octets (Ndef r true cap old) t d = (Err ValueError, t).
Proof. intro H. unfold pt_set_octets, set_octets. cbn [negb]. now replace (len d >? cap) with true by lia. Qed.
Theorem t3_cut_safe_pt t a d old : pt_wf t a -> len d <= a_nmaxb a * 16 -> 0 <= p_budget t ->
  let k := p_budget t in
  let n := Z.of_nat (length (t3_plan a d)) in
  exists r t', pt_set_octets (Ndef true true (a_nmaxb a * 16) old) t d = (r, t') /\ pt_inv (p_maxr t) (p_maxw t) t' /\
    (k = 0 -> p_mem t' = p_mem t) /\
    (0 < k < n -> exists w c x, pt_fresh (p_mem t') (p_maxr t) (p_maxw t) true = Ok (Ndef false w c x)) /\
    (n <= k -> pt_fresh (p_mem t') (p_maxr t) (p_maxw t) true = Ok (Ndef true true (a_nmaxb a * 16) d)).
Proof.
  intros W Hd Hk.
  eapply (t3_cut_safe_dev ptag p_read p_write p_mem p_budget (pt_inv (p_maxr t) (p_maxw t)) (p_maxr t) (p_maxw t)
            (pt_fresh_of (p_maxr t) (p_maxw t))); eauto using p_read_ok, p_read_dead, p_write_ok, p_write_dead, pt_fresh_ok.
Qed.
Theorem t3_write_frame_pt t a d old : pt_wf t a -> len d <= a_nmaxb a * 16 ->
  let hi := 1 + nblk (len d) in
  hi <= 1 + a_nmaxb a /\
  Forall (fun c => Forall (fun b => 0 <= b < hi) (fst c)) (t3_plan a d) /\
  exists r t', pt_set_octets (Ndef true true (a_nmaxb a * 16) old) t d = (r, t') /\
    (exists j, p_mem t' = apply_cmds (p_mem t) (firstn j (t3_plan a d))) /\
    len (p_mem t') = len (p_mem t) /\ drop (16 * hi) (p_mem t') = drop (16 * hi) (p_mem t).
Proof.
  intros W Hd.
  eapply (t3_write_frame_dev ptag p_read p_write p_mem p_budget (pt_inv (p_maxr t) (p_maxw t)) (p_maxr t) (p_maxw t));
    eauto using p_read_ok, p_read_dead, p_write_ok, p_write_dead, pt_fresh_ok.
Qed.
